(* Property C08 — every supported date yields a complete, computable system. *)
From Coq Require Import ZArith Bool String List.
From GettsimModel Require Import Num Val Ast Eval PolicyEnv Engine Dag ChkC08.
Import ListNotations.

(* a read of a parameter through constant keys cannot raise when the path exists in the environment
   — whatever branch of the rule contains it *)
Theorem C08_static_read_cannot_fail : forall (call : string -> list val -> res val) rho e r ks v w,
  path_of e = Some (r, ks) -> lookup r rho = Some v -> path_get v ks = Ok w ->
  eval call rho e = Ok w.
Proof. exact static_read_cannot_fail. Qed.
Print Assumptions C08_static_read_cannot_fail.

(* topological order: every node reads only data columns or earlier nodes, names are unique — hence
   the graph is acyclic and its leaves are exactly data columns *)
Theorem C08_graph_ordered : forall (col : Type) (sem : dnode -> list col -> res col) data S,
  topo_ok data [] S = true -> NoDup (names col (to_sys col sem S)).
Proof.
  intros col sem data S H. rewrite names_to_sys. exact (proj1 (topo_ok_nodup data S [] H)).
Qed.
Print Assumptions C08_graph_ordered.
