(* Property C11 — group and person-pointer aggregates equal their mathematical definition. *)
From Coq Require Import ZArith QArith Qcanon Bool String List Permutation.
From GettsimModel Require Import Num Val Column Aggregation.
Import ListNotations.
Open Scope Z_scope.

(* entry k of the id-indexed table = reduction of the values of exactly the rows with id k *)
Theorem C11_table_entry : forall {A} (op : A -> A -> A) k rows,
  alookup k (accumulate op rows) = fold1 op (select k rows).
Proof. intros. apply alookup_accumulate. Qed.
Print Assumptions C11_table_entry.

(* row i holds the reduction over exactly the members of row i's group (any ids: unsorted, sparse) *)
Theorem C11_group_value : forall {A} (op : A -> A -> A) dflt g (l : list A) i k v,
  nth_error g i = Some k -> nth_error l i = Some v ->
  exists x r, select k (combine g l) = x :: r /\
              nth_error (grouped_total op dflt g l) i = Some (fold_left op r x).
Proof. intros. eapply grouped_total_value; eauto. Qed.
Print Assumptions C11_group_value.

(* reported identically for every member *)
Theorem C11_group_constant : forall {A} (op : A -> A -> A) dflt g (l : list A) i j k,
  nth_error g i = Some k -> nth_error g j = Some k ->
  nth_error (grouped_total op dflt g l) i = nth_error (grouped_total op dflt g l) j.
Proof. intros. eapply grouped_total_const; eauto. Qed.
Print Assumptions C11_group_constant.

(* sum and count in closed form *)
Theorem C11_sum : forall g l i k v,
  nth_error g i = Some k -> nth_error l i = Some v ->
  nth_error (grouped_total Z.add 0 g l) i = Some (fold_right Z.add 0 (select k (combine g l))).
Proof. exact grouped_sum_int_spec. Qed.
Print Assumptions C11_sum.

Theorem C11_count : forall g i k,
  nth_error g i = Some k ->
  nth_error (grouped_total Z.add 0 g (map (fun _ => 1) g)) i
  = Some (Z.of_nat (length (filter (fun k' => k =? k') g))).
Proof. exact grouped_count_spec. Qed.
Print Assumptions C11_count.

(* the reduction does not depend on the order of the members (commutative, associative op) *)
Theorem C11_order_free : forall {A} (op : A -> A -> A),
  (forall a b, op a b = op b a) -> (forall a b c, op (op a b) c = op a (op b c)) ->
  forall l1 l2, Permutation l1 l2 -> fold1 op l1 = fold1 op l2.
Proof. intros. apply fold1_perm; assumption. Qed.
Print Assumptions C11_order_free.

(* person-pointer sums: each source row is credited to exactly the person it points to,
   negative pointers are ignored *)
Theorem C11_sum_by_p_id : forall {A} (add : A -> A -> A) zero col ptr pids out,
  NoDup pids -> sum_by_p_id_list add zero col ptr pids = Ok out ->
  length out = length pids /\
  forall i id, nth_error pids i = Some id ->
    nth_error out i =
    Some (fold_left add (map snd (filter (fun pc => (0 <=? fst pc) && (fst pc =? id)) (combine ptr col))) zero).
Proof. intros. eapply sum_by_p_id_spec; eauto. Qed.
Print Assumptions C11_sum_by_p_id.

(* look-ups through a person pointer *)
Theorem C11_join : forall {A} fk pk (target : list A) dflt out,
  join_list fk pk target dflt = Ok out ->
  length out = length fk /\
  forall i k, nth_error fk i = Some k ->
    (exists j, nth_error pk j = Some k /\ nth_error out i = Some (nth j target dflt))
    \/ (~ In k pk /\ k < 0 /\ nth_error out i = Some dflt).
Proof. intros. eapply join_spec; eauto. Qed.
Print Assumptions C11_join.

Example C11_examples :
  grouped_sum (CInt [1; 2; 3; 4; 5]) [7; 3; 7; 900; 3] = Ok (CInt [4; 7; 4; 4; 7])
  /\ grouped_count [7; 3; 7; 900; 3] = Ok (CFloat [xz 2; xz 2; xz 2; xz 1; xz 2])
  /\ grouped_any (CBool [false; true; false; false; false]) [7; 3; 7; 900; 3]
     = Ok (CBool [false; true; false; false; true])
  /\ sum_by_p_id (CInt [10; 20; 30]) [5; -1; 5] [4; 5; 6] = Ok (CInt [0; 40; 0])
  /\ sum_by_p_id (CInt [10]) [9] [4; 5; 6] = Err EKey
  /\ join_list [5; -1; 4] [4; 5; 6] [40; 50; 60] 0 = Ok [50; 0; 40].
Proof. vm_compute. repeat split; reflexivity. Qed.
