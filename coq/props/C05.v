(* Property C05 — supplying a computed column as data is equivalent to computing it. *)
From Coq Require Import Bool String List.
From GettsimModel Require Import Val Engine Dag.
Import ListNotations.

(* remove node x from the system and put its computed column c into the data:
   every column of the result is unchanged *)
Theorem C05_override_equivalent : forall (col : Type) x c (S : list (node col)) e1 e2 t,
  NoDup (names col S) -> plus col x c e1 e2 -> tget col x e1 = None ->
  run col S e1 = Ok t -> tget col x t = Some c ->
  exists t', run col (without col x S) e2 = Ok t' /\ forall y, tget col y t' = tget col y t.
Proof. exact run_override. Qed.
Print Assumptions C05_override_equivalent.

(* unique names follow from the topological check run on the regenerated graph *)
Theorem C05_names_unique : forall (col : Type) (sem : dnode -> list col -> res col) data S,
  topo_ok data [] S = true -> NoDup (names col (to_sys col sem S)).
Proof.
  intros col sem data S H. rewrite names_to_sys. exact (proj1 (topo_ok_nodup data S [] H)).
Qed.
Print Assumptions C05_names_unique.
