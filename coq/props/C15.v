(* Property C15 — group-level columns have one value per group. *)
From Coq Require Import ZArith Bool String List.
From GettsimModel Require Import Val Ast Eval PolicyEnv Column Engine Dag Levels Aggregation Table TableConst.
Import ListNotations.

(* Along any evaluation: if K is a set of names such that every node in K is either pointwise with
   all arguments in K, or constant by construction, and the data columns in K are constant on the
   classes of E, then every column in K of the result is constant on the classes of E —
   for every column type, every rule base, every population *)
Theorem C15_group_constant : forall (A : Type) (E : nat -> nat -> Prop) (K : string -> bool)
    (S : list (node (list A))) e t,
  (forall n, In n S -> K (nm (list A) n) = true ->
     (pointwise A (nop (list A) n) /\ forall a, In a (nargs (list A) n) -> K a = true)
     \/ always_const A E (nop (list A) n)) ->
  (forall x c, K x = true -> tget (list A) x e = Some c -> econst A E c) ->
  run (list A) S e = Ok t ->
  forall x c, K x = true -> tget (list A) x t = Some c -> econst A E c.
Proof. exact group_constant. Qed.
Print Assumptions C15_group_constant.

(* aggregates are constant on their group: every member reads the same table entry (C11) *)
Theorem C15_aggregates_constant : forall {A} (op : A -> A -> A) dflt g (l : list A) i j k,
  nth_error g i = Some k -> nth_error g j = Some k ->
  nth_error (grouped_total op dflt g l) i = nth_error (grouped_total op dflt g l) j.
Proof. intros. eapply grouped_total_const; eauto. Qed.
Print Assumptions C15_aggregates_constant.

(* END TO END ON THE MODEL: for the concrete engine Table.sem, any relation E between rows (within
   the table) and any set known0 of supplied columns that are constant on E and of full length, every
   column the dataflow const_nodes marks is constant on E — rules (declared dtype, rounding) and unit
   conversions over constant arguments, group reductions keyed by a constant id column *)
Theorem C15_dataflow_sound : forall ft P rounding nrows (E : nat -> nat -> Prop),
  (forall i j, E i j -> (i < nrows)%nat /\ (j < nrows)%nat) ->
  forall known0 S acc seen e t,
  (forall x, smem x acc = true -> smem x seen = true) -> fresh_names known0 seen S ->
  tab_const nrows E (fun x => smem x acc || known0 x) e ->
  run column (to_sys column (sem ft P rounding nrows) S) e = Ok t ->
  tab_const nrows E (fun x => smem x (const_nodes ft known0 S acc) || known0 x) t.
Proof. intros ft P rounding nrows E HE. exact (const_nodes_sound ft P rounding nrows E HE). Qed.
Print Assumptions C15_dataflow_sound.
