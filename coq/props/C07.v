(* Property C07 — the policy environment for a date is the law in force that day. *)
From Coq Require Import ZArith QArith Qcanon Bool String List.
From GettsimModel Require Import Num Val Ast PolicyEnv ChkC07.
Import ListNotations.
Open Scope Z_scope.

(* the entry used is the most recent one on or before the date *)
Theorem C07_latest_entry : forall date ds pd,
  latest_le date ds = Some pd ->
  In pd ds /\ pd <= date /\ forall x, In x ds -> x <= date -> x <= pd.
Proof. exact latest_le_spec. Qed.
Print Assumptions C07_latest_entry.

Theorem C07_no_entry_yet : forall date ds,
  latest_le date ds = None -> forall x, In x ds -> date < x.
Proof. exact latest_le_none. Qed.
Print Assumptions C07_no_entry_yet.

(* between two change dates the entry in force does not change *)
Theorem C07_entry_constant_between_changes : forall d1 d2 ds,
  d1 <= d2 -> (forall x, In x ds -> ~ (d1 < x <= d2)) -> latest_le d1 ds = latest_le d2 ds.
Proof. exact latest_le_const. Qed.
Print Assumptions C07_entry_constant_between_changes.

(* validity intervals are inclusive on both ends *)
Theorem C07_interval_inclusive : forall r d,
  r_timedep r = true -> (active_at d r = true <-> r_start r <= d <= r_end r).
Proof. exact active_at_inclusive. Qed.
Print Assumptions C07_interval_inclusive.

Theorem C07_active_constant_between_boundaries : forall r d1 d2,
  d1 <= d2 -> ~ (d1 < r_start r <= d2) -> ~ (d1 < r_end r + 1 <= d2) ->
  active_at d1 r = active_at d2 r.
Proof. exact active_at_const. Qed.
Print Assumptions C07_active_constant_between_boundaries.

(* meaning of the exhaustive day sweep: every day of a class has the parameters (up to the
   date stamp) and the function selection of the first day of the class *)
Theorem C07_class_constant : forall PA FA c c',
  class_const PA FA c c' = true ->
  forall d, c <= d < c' ->
    exists p1 p2, PA c = Ok p1 /\ PA d = Ok p2 /\ params_same p1 p2 = true /\ FA c = FA d.
Proof. exact class_const_sound. Qed.
Print Assumptions C07_class_constant.

(* the equality test used by the sweep is Leibniz equality *)
Theorem C07_val_eqb_sound : forall a b, val_eqb a b = true -> a = b.
Proof. exact val_eqb_eq. Qed.
Print Assumptions C07_val_eqb_sound.

(* at most one implementation per column name on a checked day *)
Theorem C07_unique_implementation : forall reg d, unique_at reg d = true ->
  forall r1 r2, In r1 reg -> In r2 reg -> active_at d r1 = true -> active_at d r2 = true ->
    r_dag r1 = r_dag r2 -> (count_active reg d (r_dag r1) <= 1)%nat.
Proof. exact unique_at_sound. Qed.
Print Assumptions C07_unique_implementation.

(* non-vacuity *)
Example C07_examples :
  latest_le 730000 [729000; 730000; 730001; 728000] = Some 730000
  /\ latest_le 727999 [729000; 730000; 730001; 728000] = None
  /\ subtract_one_year (ordinal_of_civil 2024 2 29) = ordinal_of_civil 2023 2 28
  /\ civil_of_ordinal (ordinal_of_civil 2000 2 29) = (2000, 2, 29).
Proof. vm_compute. repeat split; reflexivity. Qed.
