(* Property C09 — rewriting a rule into array form preserves its meaning. *)
From Coq Require Import ZArith Bool String List.
From GettsimModel Require Import Num Val Ast Eval Vectorize.
Import ListNotations.

(* expression shapes: whenever the (strict) array form succeeds at a position it yields the original's value *)
Theorem C09_ifexp : forall call rho c a b v,
  eval call rho (ewhere c a b) = Ok v -> eval call rho (EIfE c a b) = Ok v.
Proof. exact ifexp_to_where. Qed.
Print Assumptions C09_ifexp.

Theorem C09_and : forall call rho a b v,
  eval call rho (eland a b) = Ok v -> exists w, eval call rho (EAnd a b) = Ok w /\ truthy w = truthy v.
Proof. exact and_to_logical_and. Qed.
Print Assumptions C09_and.

Theorem C09_or : forall call rho a b v,
  eval call rho (elor a b) = Ok v -> exists w, eval call rho (EOr a b) = Ok w /\ truthy w = truthy v.
Proof. exact or_to_logical_or. Qed.
Print Assumptions C09_or.

Theorem C09_not : forall call rho a v, eval call rho (elnot a) = Ok v -> eval call rho (ENot a) = Ok v.
Proof. exact not_to_logical_not. Qed.
Print Assumptions C09_not.

(* statement shapes of the documented style *)
Theorem C09_if_assign : forall call rho c x a b rho',
  exec call rho (SAssign x (ewhere c a b)) = ONormal rho' ->
  exec call rho (SIf c (SAssign x a) (SAssign x b)) = ONormal rho'.
Proof. exact if_assign_to_where. Qed.
Print Assumptions C09_if_assign.

Theorem C09_if_return : forall call rho c a b v,
  exec call rho (SReturn (ewhere c a b)) = OReturn v ->
  exec call rho (SIf c (SReturn a) (SReturn b)) = OReturn v.
Proof. exact if_return_to_where. Qed.
Print Assumptions C09_if_return.

Theorem C09_if_assign_without_else : forall call rho c x a rho' old,
  lookup x rho = Some old ->
  exec call rho (SAssign x (ewhere c a (EVar x))) = ONormal rho' ->
  match exec call rho (SIf c (SAssign x a) SSkip) with
  | ONormal rho'' => forall y, lookup y rho'' = lookup y rho'
  | _ => False
  end.
Proof. exact if_assign_noelse_to_where. Qed.
Print Assumptions C09_if_assign_without_else.

Theorem C09_if_augassign : forall call rho c x op a b rho',
  exec call rho (SAug x op (ewhere c a b)) = ONormal rho' ->
  exec call rho (SIf c (SAug x op a) (SAug x op b)) = ONormal rho'.
Proof. exact if_aug_to_where. Qed.
Print Assumptions C09_if_augassign.

(* the two shapes the Transformer accepts but gets wrong (kept as theorems: the known findings) *)
Theorem C09_augassign_without_else_refuted :
  let rho := [("c", VBool false); ("x", VInt 1%Z)] in
  exec no_call rho (SIf (EVar "c") (SAug "x" Add (EInt 5%Z)) SSkip) = ONormal rho /\
  exec no_call rho (SAug "x" Add (ewhere (EVar "c") (EInt 5%Z) (EVar "x"))) = ONormal (("x", VInt 2%Z) :: rho).
Proof. exact augassign_noelse_refuted. Qed.
Print Assumptions C09_augassign_without_else_refuted.

Theorem C09_mismatched_targets_refuted :
  let rho := [("c", VBool false); ("x", VInt 1%Z); ("y", VInt 2%Z)] in
  exec no_call rho (SIf (EVar "c") (SAssign "x" (EInt 10%Z)) (SAssign "y" (EInt 20%Z))) = ONormal (("y", VInt 20%Z) :: rho) /\
  exec no_call rho (SAssign "x" (ewhere (EVar "c") (EInt 10%Z) (EInt 20%Z))) = ONormal (("x", VInt 20%Z) :: rho).
Proof. exact mismatched_targets_refuted. Qed.
Print Assumptions C09_mismatched_targets_refuted.
