(* Property C13 — time-unit variants of a column differ exactly by the fixed factors. *)
From Coq Require Import ZArith QArith Qcanon Bool String List.
From GettsimModel Require Import Num Val Dag TimeConv TimeConvOrder Aggregation ConvSum.
Import ListNotations.
Open Scope Qc_scope.

Theorem C13_documented_factors :
  factor UY UM = qfrac 1 12 /\ factor UM UY = qfrac 12 1 /\
  factor UY UD = qfrac 100 36525 /\ factor UD UY = qfrac 36525 100 /\
  factor UY UW = qfrac 700 36525 /\ factor UW UY = qfrac 36525 700 /\
  factor UW UD = qfrac 1 7 /\ factor UD UW = qfrac 7 1.
Proof. exact documented_factors. Qed.
Print Assumptions C13_documented_factors.

(* converting back and forth is the identity (exactly, in rational arithmetic) *)
Theorem C13_roundtrip : forall u v x, conv v u (conv u v x) = x.
Proof. exact conv_roundtrip. Qed.
Print Assumptions C13_roundtrip.

Theorem C13_compose : forall u v w x, conv v w (conv u v x) = conv u w x.
Proof. exact conv_compose. Qed.
Print Assumptions C13_compose.

(* conversion commutes with (group) summation *)
Theorem C13_commutes_with_sums : forall u v (l : list Qc),
  conv u v (fold_right Qcplus 0 l) = fold_right Qcplus 0 (map (conv u v) l).
Proof. exact conv_sum. Qed.
Print Assumptions C13_commutes_with_sums.

(* meaning of the reflective check on the regenerated graph: every conversion node reads the column
   that differs from it only in the time unit, with the documented factor *)
Theorem C13_conversion_nodes : forall S, tc_all_ok S = true ->
  forall n num den, In n S -> d_kind n = KTimeConv num den ->
  exists a b u1 u2 g, d_args n = [a] /\ parse_name (d_name n) = Some (b, u1, g) /\
                      parse_name a = Some (b, u2, g) /\ u1 <> u2 /\ qfrac num den = factor u2 u1.
Proof. exact tc_all_ok_sound. Qed.
Print Assumptions C13_conversion_nodes.

(* conversion commutes with summation within groups, at the level of the aggregation model
   (numpy_groupies sums): for every assignment of rows to groups, every factor and every finite column *)
Theorem C13_conversion_commutes_with_group_sums : forall f g l, length g = length l -> all_fin l ->
  grouped_total xq_add (xz 0) g (map (scale f) l) = map (scale f) (grouped_total xq_add (xz 0) g l).
Proof. exact grouped_sum_scale. Qed.
Print Assumptions C13_conversion_commutes_with_group_sums.

(* ---- order side: every factor is positive, so a conversion is an order isomorphism: the variants of a
   column are ordered alike, have the same sign and the same zeros, and distinct values never collapse ---- *)
Theorem C13_factor_positive : forall u v, (0 < factor u v)%Qc.
Proof. exact factor_pos. Qed.
Print Assumptions C13_factor_positive.

Theorem C13_conversion_injective : forall u v x y, conv u v x = conv u v y -> x = y.
Proof. exact conv_injective. Qed.
Print Assumptions C13_conversion_injective.

Theorem C13_conversion_order_iso : forall u v x y, ((x <= y)%Qc <-> (conv u v x <= conv u v y)%Qc).
Proof. exact conv_mono_iff. Qed.
Print Assumptions C13_conversion_order_iso.

Theorem C13_conversion_sign : forall u v x, ((0 <= x)%Qc <-> (0 <= conv u v x)%Qc) /\ (x = 0%Qc <-> conv u v x = 0%Qc).
Proof. intros u v x. split; [apply conv_nonneg | apply conv_zero_iff]. Qed.
Print Assumptions C13_conversion_sign.
