(* Property C17 — means-tested benefits are mutually exclusive as the priority rules say. *)
From Coq Require Import ZArith Bool List.
From GettsimModel Require Import Num Val Priority Groupings.
Import ListNotations.
Open Scope Z_scope.

Theorem C17_alg2_excludes_wohngeld_and_kiz : forall ps p,
  In p ps -> positive (alg2 p) -> wohngeld ps p = xz 0 /\ kiz p = xz 0.
Proof. exact alg2_excludes. Qed.
Print Assumptions C17_alg2_excludes_wohngeld_and_kiz.

Theorem C17_wohngeld_excludes_alg2 : forall ps p, positive (wohngeld ps p) -> alg2 p = xz 0.
Proof. exact wohngeld_excludes_alg2. Qed.
Print Assumptions C17_wohngeld_excludes_alg2.

Theorem C17_grundsicherung_excludes_all : forall ps p,
  r p = true -> 0 < nr p -> alg2 p = xz 0 /\ wohngeld ps p = xz 0 /\ kiz p = xz 0.
Proof. exact grundsicherung_excludes. Qed.
Print Assumptions C17_grundsicherung_excludes_all.

Theorem C17_bg_within_wthh : forall p q, hhid p = hhid q -> f1 p = f1 q -> f2 p = f2 q -> wthh p = wthh q.
Proof. exact bg_within_wthh. Qed.
Print Assumptions C17_bg_within_wthh.

Theorem C17_kiz_only_if_need_covered : forall p, positive (kiz p) -> k p = true \/ f2 p = true.
Proof. exact kiz_only_if_need_covered. Qed.
Print Assumptions C17_kiz_only_if_need_covered.

(* Priority.wthh is the builder's id (Groupings.wthh_spec) *)
Theorem C17_wthh_is_builder_id : forall hhs v1 v2 i h a b,
  nth_error hhs i = Some h -> nth_error v1 i = Some a -> nth_error v2 i = Some b ->
  nth_error (wthh_id hhs v1 v2) i = Some (h * 100 + (if a || b then 1 else 0)).
Proof. exact wthh_spec. Qed.
Print Assumptions C17_wthh_is_builder_id.
