(* Property C06 — a reform changes only what depends on it. *)
From Coq Require Import Bool String List.
From GettsimModel Require Import Val Engine Dag.
Import ListNotations.

(* S2 is S1 with the operations of the nodes in F replaced by ANYTHING (a perturbed parameter
   group = new operations for the rules that take it; a user function = a new operation for
   that node): every column outside the descendants of F is identical *)
Theorem C06_reform_locality : forall (col : Type) F (S1 S2 : list (node col)),
  reform_of col F S1 S2 ->
  forall acc e1 e2 t1 t2,
    (forall x, mem x acc = false -> tget col x e1 = tget col x e2) ->
    run col S1 e1 = Ok t1 -> run col S2 e2 = Ok t2 ->
    forall x, mem x (tainted col F S1 acc) = false -> tget col x t1 = tget col x t2.
Proof. exact run_taint. Qed.
Print Assumptions C06_reform_locality.

(* the descendant set computed on the regenerated graph is the tainted set of the theorem *)
Theorem C06_descendants_are_tainted : forall (col : Type) (sem : dnode -> list col -> res col) F S acc,
  descendants F S acc = tainted col F (to_sys col sem S) acc.
Proof. exact descendants_tainted. Qed.
Print Assumptions C06_descendants_are_tainted.

(* replacing by an identical copy (F empty) changes nothing at all *)
Corollary C06_identical_copy : forall (col : Type) (S1 S2 : list (node col)),
  reform_of col (fun _ => false) S1 S2 ->
  forall e t1 t2, run col S1 e = Ok t1 -> run col S2 e = Ok t2 ->
  forall x, mem x (tainted col (fun _ => false) S1 []) = false -> tget col x t1 = tget col x t2.
Proof.
  intros col S1 S2 H e t1 t2 R1 R2 x Hx.
  apply (run_taint col _ S1 S2 H [] e e t1 t2 (fun _ _ => eq_refl) R1 R2 x Hx).
Qed.
Print Assumptions C06_identical_copy.
