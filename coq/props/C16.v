(* Property C16 — outputs are finite, non-negative and within statutory caps.
   PARTIAL: the verified abstract interpreter proves finiteness (and, where it holds for every
   input, non-negativity) for the nodes listed per date in /verif/c16_baseline.json; the remaining
   nodes are covered by the corner sweeps of the real engine only. *)
From Coq Require Import ZArith QArith Qcanon Bool String List.
From GettsimModel Require Import Num Val Ast Eval Column Engine Dag Sign Itv Absint PiecewiseProofs PiecewiseSign Priority Contrib Table ChkC16 TableSound.
Import ListNotations.
Open Scope Qc_scope.

(* soundness of the abstract interpreter: whenever the concrete arguments are described by the
   abstract ones and the rule (with the helpers it calls) returns a value, that value is described
   by the abstract result — AItv i: a finite number within the bounds of i *)
Theorem C16_rule_analysis_sound : forall ft fd l vs v,
  Forall2 arel l vs -> call_rule ft fd vs = Ok v -> arel (rule_aval ft fd l) v.
Proof. exact rule_aval_sound. Qed.
Print Assumptions C16_rule_analysis_sound.

(* END TO END ON THE MODEL: for the concrete engine Table.run_table (every node kind: rules through
   numpy.vectorize with the declared dtype and statutory rounding, group / pointer aggregates, joins,
   unit conversions, id builders), if the supplied columns have the length of the table and their
   cells are described by the classes of the documented inputs, then every cell of every computed
   column is described by the class the dataflow ChkC16.a_nodes assigns to its node *)
Theorem C16_table_sound : forall ft P rounding nrows data S targets dtab t,
  forallb (fun n => negb (Sign.smem (d_name n) data)) (live_sub S targets dtab) = true ->
  tab_ok nrows data [] dtab -> run_table ft P rounding nrows S targets dtab = Ok t ->
  tab_ok nrows data (a_nodes ft P data (live_sub S targets dtab) []) t.
Proof. exact run_table_sound. Qed.
Print Assumptions C16_table_sound.

Theorem C16_column_finite : forall nrows data K t x c,
  tab_ok nrows data K t -> tget column x t = Some c -> a_fin (class_of data K x) = true -> Forall finv (col_vals c).
Proof. exact column_finite. Qed.
Print Assumptions C16_column_finite.

Theorem C16_column_nonneg : forall nrows data K t x c,
  tab_ok nrows data K t -> tget column x t = Some c -> a_nn (class_of data K x) = true -> Forall fnn (col_vals c).
Proof. exact column_nonneg. Qed.
Print Assumptions C16_column_nonneg.

(* what the abstract result means *)
Theorem C16_fin_means_finite : forall a v, a_fin a = true -> arel a v -> finv v.
Proof. exact a_fin_sound. Qed.
Print Assumptions C16_fin_means_finite.

Theorem C16_nn_means_finite_nonneg : forall a v, a_nn a = true -> arel a v -> fnn v.
Proof. exact a_nn_sound. Qed.
Print Assumptions C16_nn_means_finite_nonneg.

(* a piecewise-polynomial schedule accepted by the sign checker is non-negative (from the lower
   bound of its argument on) *)
Theorem C16_schedule_nonneg : forall lo c0 ps, PiecewiseSign.nn_chk lo c0 ps = true ->
  forall x, PiecewiseSign.above lo x -> 0 <= PiecewiseProofs.ev0 c0 ps x.
Proof. exact PiecewiseSign.nn_chk_sound. Qed.
Print Assumptions C16_schedule_nonneg.

(* statutory rounding keeps non-negative values non-negative *)
Theorem C16_rounding_keeps_nonneg : forall base dir off x, 0 < base -> 0 <= off -> 0 <= x ->
  0 <= Rounding.round_to base dir off x.
Proof. exact Rounding.round_nonneg. Qed.
Print Assumptions C16_rounding_keeps_nonneg.

(* caps: a benefit after the priority checks never exceeds the entitlement before them *)
Theorem C16_alg2_capped : forall x f1 k f2 r, 0 <= x ->
  match alg2_spec (XFin x) f1 k f2 r with XFin y => 0 <= y /\ y <= x | _ => False end.
Proof. exact alg2_capped. Qed.
Print Assumptions C16_alg2_capped.

Theorem C16_wohngeld_capped : forall y r a1 a2, 0 <= y ->
  match wohngeld_spec (XFin y) r a1 a2 with XFin z => 0 <= z /\ z <= y | _ => False end.
Proof. exact wohngeld_capped. Qed.
Print Assumptions C16_wohngeld_capped.

Theorem C16_kinderzuschlag_capped : forall z k f2 nr, 0 <= z ->
  match kiz_spec (XFin z) k f2 nr with XFin y => 0 <= y /\ y <= z | _ => False end.
Proof. exact kiz_capped. Qed.
Print Assumptions C16_kinderzuschlag_capped.

(* contributions never exceed rate times assessment ceiling *)
Theorem C16_contribution_capped : forall r C F G U w, cond r C F G U -> 0 <= w -> employee_new r C F G U w <= r * C.
Proof. exact employee_new_capped. Qed.
Print Assumptions C16_contribution_capped.
