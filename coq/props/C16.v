(* Property C16 — outputs are finite, non-negative and within statutory caps.
   PARTIAL: the verified analysis proves finiteness and non-negativity for the nodes listed in
   /verif/c16_baseline.json (134 of the ~320 nodes of the default targets' graph); the other nodes
   (subtractions, schedules, helper calls) are covered by the corner sweeps of the real engine only. *)
From Coq Require Import ZArith QArith Qcanon Bool String List.
From GettsimModel Require Import Num Val Ast Eval Sign Priority Contrib ChkC16.
Import ListNotations.
Open Scope Qc_scope.

(* soundness of the analysis: every value returned by a rule it accepts is finite and non-negative,
   for all argument values that are themselves finite and non-negative *)
Theorem C16_rule_analysis_sound_partial : forall call P s G rho G',
  params_bound P rho -> env_ok G rho -> nn_s P G s = (G', true) ->
  match exec call rho s with
  | OReturn v => fnn v
  | ONormal rho' => env_ok G' rho' /\ params_bound P rho'
  | OError _ => True
  end.
Proof. exact nn_s_sound. Qed.
Print Assumptions C16_rule_analysis_sound_partial.

(* statutory rounding keeps non-negative values non-negative *)
Theorem C16_rounding_keeps_nonneg : forall base dir off x, 0 < base -> 0 <= off -> 0 <= x ->
  0 <= Rounding.round_to base dir off x.
Proof. exact Rounding.round_nonneg. Qed.
Print Assumptions C16_rounding_keeps_nonneg.

(* caps: a benefit after the priority checks never exceeds the entitlement before them *)
Theorem C16_alg2_capped : forall x f1 k f2 r, 0 <= x ->
  match alg2_spec (XFin x) f1 k f2 r with XFin y => 0 <= y /\ y <= x | _ => False end.
Proof. exact alg2_capped. Qed.
Print Assumptions C16_alg2_capped.

Theorem C16_wohngeld_capped : forall y r a1 a2, 0 <= y ->
  match wohngeld_spec (XFin y) r a1 a2 with XFin z => 0 <= z /\ z <= y | _ => False end.
Proof. exact wohngeld_capped. Qed.
Print Assumptions C16_wohngeld_capped.

Theorem C16_kinderzuschlag_capped : forall z k f2 nr, 0 <= z ->
  match kiz_spec (XFin z) k f2 nr with XFin y => 0 <= y /\ y <= z | _ => False end.
Proof. exact kiz_capped. Qed.
Print Assumptions C16_kinderzuschlag_capped.

(* contributions never exceed rate times assessment ceiling *)
Theorem C16_contribution_capped : forall r C F G U w, cond r C F G U -> 0 <= w -> employee_new r C F G U w <= r * C.
Proof. exact employee_new_capped. Qed.
Print Assumptions C16_contribution_capped.
