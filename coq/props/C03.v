(* Property C03 — each column value equals the scalar rule applied to that row's inputs;
   the dtype is the declared one and never depends on the data. *)
From Coq Require Import ZArith QArith Qcanon Bool String List.
From GettsimModel Require Import Num Val Ast Eval PolicyEnv Column Dag Table TableSound.
Import ListNotations.

(* with the declared dtype handed to numpy.vectorize: for EVERY rule f, EVERY table, EVERY row:
   the column dtype is the declared one and the cell is f(row) cast to it *)
Theorem C03_column_is_rule_per_row : forall t f n args c,
  vectorize_gen (Some t) f n args = Ok c ->
  col_dtype c = t /\
  forall i row, nth_error (rows_of n args) i = Some row ->
    exists v w, f row = Ok v /\ cast t v = Ok w /\ nth_error (col_vals c) i = Some w.
Proof. exact vectorize_declared. Qed.
Print Assumptions C03_column_is_rule_per_row.

(* the cast changes nothing when the rule returns its declared type ... *)
Theorem C03_cast_identity : forall t v, type_of v = t -> t <> TOther -> cast t v = Ok v.
Proof. exact cast_same_type. Qed.
Print Assumptions C03_cast_identity.

(* ... and widens int / bool results of a float rule without changing the number *)
Theorem C03_widening_lossless : forall v,
  (exists z, v = VInt z /\ cast TFloat v = Ok (VFloat (xz z)))
  \/ (exists b, v = VBool b /\ cast TFloat v = Ok (VFloat (xz (if b then 1 else 0)%Z)))
  \/ (forall z, v <> VInt z) /\ (forall b, v <> VBool b).
Proof. exact cast_widen_lossless. Qed.
Print Assumptions C03_widening_lossless.

(* dtype inference from the first row (no declared dtype) violates the property; the declared
   dtype repairs the same example *)
Theorem C03_inference_refuted :
  vectorize_gen None unstable_rule 2 [CBool [true; false]] = Ok (CInt [0%Z; 0%Z])
  /\ vectorize_gen None unstable_rule 2 [CBool [false; true]] = Ok (CFloat [XFin (qfrac 7 20); xz 0])
  /\ vectorize_gen (Some TFloat) unstable_rule 2 [CBool [true; false]] = Ok (CFloat [xz 0; XFin (qfrac 7 20)]).
Proof. exact vectorize_inferred_refuted. Qed.
Print Assumptions C03_inference_refuted.

(* the same at the level of the engine (Table.sem): the column of a rule node (no statutory rounding)
   has the declared dtype whatever the data, and cell i is the rule applied to row i's arguments,
   parameters partialled in by name, cast to the declared dtype *)
Theorem C03_engine_rule_node : forall ft P rounding nrows n py f t cs c,
  d_kind n = KRule py false None -> flookup py ft = Some f -> annot_otype (f_ret f) = Some t -> cs <> [] ->
  sem ft P rounding nrows n cs = Ok c ->
  col_dtype c = t /\
  forall i row, nth_error (rows_of nrows cs) i = Some row ->
    exists args v w, row_args P f (d_args n) row = Ok args /\ call_rule ft f args = Ok v /\ cast t v = Ok w /\ nth_error (col_vals c) i = Some w.
Proof. exact rule_node_cells. Qed.
Print Assumptions C03_engine_rule_node.
