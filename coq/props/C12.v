(* Property C12 — derived units partition correctly. *)
From Coq Require Import ZArith Bool List.
From Coq Require Import Permutation.
From GettsimModel Require Import Num Val Groupings CoupleSpec FgSpec BgSpec.
Import ListNotations.
Open Scope Z_scope.

(* Wohngeld part-households: id = household*100 + outcome of the priority check *)
Theorem C12_wthh : forall hhs v1 v2 i h a b,
  nth_error hhs i = Some h -> nth_error v1 i = Some a -> nth_error v2 i = Some b ->
  nth_error (wthh_id hhs v1 v2) i = Some (h * 100 + (if a || b then 1 else 0)).
Proof. exact wthh_spec. Qed.
Print Assumptions C12_wthh.

(* part-households nest in households and ids of different households never collide *)
Theorem C12_wthh_within_hh : forall hhs v1 v2 i j h1 h2 a1 b1 a2 b2 x,
  nth_error hhs i = Some h1 -> nth_error v1 i = Some a1 -> nth_error v2 i = Some b1 ->
  nth_error hhs j = Some h2 -> nth_error v1 j = Some a2 -> nth_error v2 j = Some b2 ->
  nth_error (wthh_id hhs v1 v2) i = Some x -> nth_error (wthh_id hhs v1 v2) j = Some x ->
  h1 = h2 /\ (a1 || b1) = (a2 || b2).
Proof. exact wthh_within_hh. Qed.
Print Assumptions C12_wthh_within_hh.

(* needs units nest in family units; needs-unit ids of different families never collide
   (for populations of fewer than 100 rows per call — the bound under which fg*100+k is injective) *)
Theorem C12_bg_within_fg : forall fg ps i j x fi fj,
  (length ps < 100)%nat -> length fg = length ps ->
  nth_error fg i = Some fi -> nth_error fg j = Some fj ->
  nth_error (bg_id fg ps) i = Some x -> nth_error (bg_id fg ps) j = Some x -> fi = fj.
Proof. exact bg_within_fg. Qed.
Print Assumptions C12_bg_within_fg.

(* meaning of the bounded exhaustive obligations: for EVERY well-formed pointer structure of up to n
   persons (over the enumerated option sets) and EVERY row order, the builder's partition is the
   reference partition (so it does not depend on the row order either) *)
Theorem C12_bounded_exhaustive : forall (build reference : list person -> list Z) n,
  forallb (fun k => forallb (order_free_and_ref build reference) (structs k)) (seq 1 n) = true ->
  forall k ps qs, (1 <= k <= n)%nat -> In ps (structs k) -> In qs (perms ps) ->
    same_partition (by_pid qs (build qs) (map pid ps)) (reference ps) = true.
Proof. exact ok_upto_sound. Qed.
Print Assumptions C12_bounded_exhaustive.

(* the builder without the repair is refuted by a 3-person witness; the repaired one passes it *)
Theorem C12_fg_old_refuted :
  wf_pointers fg_witness = true /\
  same_partition (fg_id_old fg_witness) (fg_ref fg_witness) = false /\
  same_partition (fg_id fg_witness) (fg_ref fg_witness) = true.
Proof. exact fg_old_refuted. Qed.
Print Assumptions C12_fg_old_refuted.

(* UNBOUNDED (tables of any size): with unique non-negative person ids and symmetric partner pointers,
   two rows are in the same Einstandsgemeinschaft / marriage exactly when they are the same person or
   point to each other.  The right-hand side does not mention row positions. *)
Theorem C12_eg_id_spec : forall ps, couple_wf einst ps ->
  length (eg_id ps) = length ps /\
  forall i j a b, nth_error ps i = Some a -> nth_error ps j = Some b ->
    (nth_error (eg_id ps) i = nth_error (eg_id ps) j <-> pid a = pid b \/ (0 <= einst a /\ einst a = pid b)).
Proof. exact eg_id_spec. Qed.
Print Assumptions C12_eg_id_spec.

Theorem C12_ehe_id_spec : forall ps, couple_wf ehep ps ->
  length (ehe_id ps) = length ps /\
  forall i j a b, nth_error ps i = Some a -> nth_error ps j = Some b ->
    (nth_error (ehe_id ps) i = nth_error (ehe_id ps) j <-> pid a = pid b \/ (0 <= ehep a /\ ehep a = pid b)).
Proof. exact ehe_id_spec. Qed.
Print Assumptions C12_ehe_id_spec.

(* tax units: spouses who are both jointly assessed; any table size *)
Theorem C12_sn_id_spec : forall ps ids, couple_wf ehep ps -> sn_id ps = Ok ids ->
  length ids = length ps /\
  forall i j a b, nth_error ps i = Some a -> nth_error ps j = Some b ->
    (nth_error ids i = nth_error ids j <->
     pid a = pid b \/ (0 <= ehep a /\ ehep a = pid b /\ gemv a = true /\ gemv b = true)).
Proof. exact sn_id_spec. Qed.
Print Assumptions C12_sn_id_spec.

(* hence the partitions do not depend on the row order, for tables of any size *)
Theorem C12_eg_id_order_free : forall ps ps', couple_wf einst ps -> Permutation ps ps' ->
  forall i j i' j' a b,
    nth_error ps i = Some a -> nth_error ps j = Some b -> nth_error ps' i' = Some a -> nth_error ps' j' = Some b ->
    (nth_error (eg_id ps) i = nth_error (eg_id ps) j <-> nth_error (eg_id ps') i' = nth_error (eg_id ps') j').
Proof. exact eg_id_order_free. Qed.
Print Assumptions C12_eg_id_order_free.

Theorem C12_sn_id_order_free : forall ps ps' ids, couple_wf ehep ps -> Permutation ps ps' -> sn_id ps = Ok ids ->
  exists ids', sn_id ps' = Ok ids' /\
  forall i j i' j' a b,
    nth_error ps i = Some a -> nth_error ps j = Some b -> nth_error ps' i' = Some a -> nth_error ps' j' = Some b ->
    (nth_error ids i = nth_error ids j <-> nth_error ids' i' = nth_error ids' j').
Proof. exact sn_id_order_free. Qed.
Print Assumptions C12_sn_id_order_free.

(* the hypotheses are decidable (evaluated on the generated populations of U3) and satisfiable *)
Theorem C12_couple_wf_decidable : forall ptr ps, couple_wf_b ptr ps = true -> couple_wf ptr ps.
Proof. exact couple_wf_b_sound. Qed.
Print Assumptions C12_couple_wf_decidable.

Theorem C12_hypotheses_satisfiable : couple_wf ehep demo /\ couple_wf einst demo /\ flags_agree demo.
Proof. exact demo_wf. Qed.

(* FAMILY UNITS, UNBOUNDED (tables of any size): with unique non-negative person ids, symmetric co-resident
   partner pointers, eligible children (under 25, childless, living with a parent) without a partner and whose
   co-resident parents are one person or partners, two rows get the same fg id exactly when their family
   heads — the person itself, or a co-resident parent of an eligible child — are the same person or partners.
   Proved by an invariant over the dictionary loop of the builder (FgSpec.Inv). *)
Theorem C12_fg_id_spec : forall all, fg_wf all ->
  length (fg_id all) = length all /\
  forall i j a b, nth_error all i = Some a -> nth_error all j = Some b ->
    (nth_error (fg_id all) i = nth_error (fg_id all) j <-> same_family all a b).
Proof. exact fg_id_spec. Qed.
Print Assumptions C12_fg_id_spec.

Theorem C12_fg_id_order_free : forall ps ps', fg_wf ps -> Permutation ps ps' ->
  forall i j i' j' a b,
    nth_error ps i = Some a -> nth_error ps j = Some b -> nth_error ps' i' = Some a -> nth_error ps' j' = Some b ->
    (nth_error (fg_id ps) i = nth_error (fg_id ps) j <-> nth_error (fg_id ps') i' = nth_error (fg_id ps') j').
Proof. exact fg_id_order_free. Qed.
Print Assumptions C12_fg_id_order_free.

Theorem C12_fg_wf_decidable : forall all, fg_wf_b all = true -> fg_wf all.
Proof. exact fg_wf_b_sound. Qed.
Print Assumptions C12_fg_wf_decidable.

(* satisfiable, on the row order in which the unrepaired builder failed *)
Theorem C12_fg_hypotheses_satisfiable : fg_wf fg_demo /\ fg_id fg_demo = [1; 1; 1; 1; 2; 3; 3; 4].
Proof. exact fg_demo_ok. Qed.

(* units nest, for tables of any size: family units lie within households, partner units within family units
   (needs units within family units: C12_bg_within_fg above) *)
Theorem C12_fg_within_hh : forall all, fg_wf all ->
  forall i j a b, nth_error all i = Some a -> nth_error all j = Some b ->
    nth_error (fg_id all) i = nth_error (fg_id all) j -> hh a = hh b.
Proof. exact fg_within_hh. Qed.
Print Assumptions C12_fg_within_hh.

Theorem C12_eg_within_fg : forall all, fg_wf all -> couple_wf einst all ->
  forall i j a b, nth_error all i = Some a -> nth_error all j = Some b ->
    nth_error (eg_id all) i = nth_error (eg_id all) j -> nth_error (fg_id all) i = nth_error (fg_id all) j.
Proof. exact eg_within_fg. Qed.
Print Assumptions C12_eg_within_fg.

(* NEEDS UNITS, any table size: the bound of C12_bg_within_fg (fewer than 100 rows per call) is replaced by a bound per
   family — no family has 100 or more self-sufficient children under 25 — under which needs-unit ids of different families
   never collide, a self-sufficient child under 25 forms a unit of its own, and all other members share the main unit *)
Theorem C12_bg_within_fg_any_size : forall fg ps,
  (forall f, In f fg -> qual_count (bg_rows fg ps) f < 100) ->
  forall i j fi fj pi pj x,
    nth_error fg i = Some fi -> nth_error fg j = Some fj -> nth_error ps i = Some pi -> nth_error ps j = Some pj ->
    nth_error (bg_id fg ps) i = Some x -> nth_error (bg_id fg ps) j = Some x -> fi = fj.
Proof. exact bg_within_fg_any_size. Qed.
Print Assumptions C12_bg_within_fg_any_size.

Theorem C12_bg_main_unit_shared : forall fg ps,
  (forall f, In f fg -> qual_count (bg_rows fg ps) f < 100) ->
  forall i j f pi pj xi xj,
    nth_error fg i = Some f -> nth_error fg j = Some f -> nth_error ps i = Some pi -> nth_error ps j = Some pj ->
    nth_error (bg_id fg ps) i = Some xi -> nth_error (bg_id fg ps) j = Some xj ->
    qual (f, alter pi, eigenb pi) = false -> qual (f, alter pj, eigenb pj) = false -> xi = xj.
Proof. exact bg_within_family. Qed.
Print Assumptions C12_bg_main_unit_shared.

Theorem C12_bg_self_sufficient_child_own_unit : forall fg ps i j f pi pj x,
    nth_error fg i = Some f -> nth_error fg j = Some f -> nth_error ps i = Some pi -> nth_error ps j = Some pj ->
    nth_error (bg_id fg ps) i = Some x -> nth_error (bg_id fg ps) j = Some x ->
    qual (f, alter pi, eigenb pi) = true -> qual (f, alter pj, eigenb pj) = false -> False.
Proof. exact bg_child_own_unit. Qed.
Print Assumptions C12_bg_self_sufficient_child_own_unit.
