(* Property C12 — derived units partition correctly. *)
From Coq Require Import ZArith Bool List.
From GettsimModel Require Import Num Val Groupings.
Import ListNotations.
Open Scope Z_scope.

(* Wohngeld part-households: id = household*100 + outcome of the priority check *)
Theorem C12_wthh : forall hhs v1 v2 i h a b,
  nth_error hhs i = Some h -> nth_error v1 i = Some a -> nth_error v2 i = Some b ->
  nth_error (wthh_id hhs v1 v2) i = Some (h * 100 + (if a || b then 1 else 0)).
Proof. exact wthh_spec. Qed.
Print Assumptions C12_wthh.

(* part-households nest in households and ids of different households never collide *)
Theorem C12_wthh_within_hh : forall hhs v1 v2 i j h1 h2 a1 b1 a2 b2 x,
  nth_error hhs i = Some h1 -> nth_error v1 i = Some a1 -> nth_error v2 i = Some b1 ->
  nth_error hhs j = Some h2 -> nth_error v1 j = Some a2 -> nth_error v2 j = Some b2 ->
  nth_error (wthh_id hhs v1 v2) i = Some x -> nth_error (wthh_id hhs v1 v2) j = Some x ->
  h1 = h2 /\ (a1 || b1) = (a2 || b2).
Proof. exact wthh_within_hh. Qed.
Print Assumptions C12_wthh_within_hh.

(* needs units nest in family units; needs-unit ids of different families never collide
   (for populations of fewer than 100 rows per call — the bound under which fg*100+k is injective) *)
Theorem C12_bg_within_fg : forall fg ps i j x fi fj,
  (length ps < 100)%nat -> length fg = length ps ->
  nth_error fg i = Some fi -> nth_error fg j = Some fj ->
  nth_error (bg_id fg ps) i = Some x -> nth_error (bg_id fg ps) j = Some x -> fi = fj.
Proof. exact bg_within_fg. Qed.
Print Assumptions C12_bg_within_fg.

(* meaning of the bounded exhaustive obligations: for EVERY well-formed pointer structure of up to n
   persons (over the enumerated option sets) and EVERY row order, the builder's partition is the
   reference partition (so it does not depend on the row order either) *)
Theorem C12_bounded_exhaustive : forall (build reference : list person -> list Z) n,
  forallb (fun k => forallb (order_free_and_ref build reference) (structs k)) (seq 1 n) = true ->
  forall k ps qs, (1 <= k <= n)%nat -> In ps (structs k) -> In qs (perms ps) ->
    same_partition (by_pid qs (build qs) (map pid ps)) (reference ps) = true.
Proof. exact ok_upto_sound. Qed.
Print Assumptions C12_bounded_exhaustive.

(* the builder without the repair is refuted by a 3-person witness; the repaired one passes it *)
Theorem C12_fg_old_refuted :
  wf_pointers fg_witness = true /\
  same_partition (fg_id_old fg_witness) (fg_ref fg_witness) = false /\
  same_partition (fg_id fg_witness) (fg_ref fg_witness) = true.
Proof. exact fg_old_refuted. Qed.
Print Assumptions C12_fg_old_refuted.
