(* Property C04 — a column's value is independent of which other targets are requested. *)
From Coq Require Import Bool String List.
From GettsimModel Require Import Val Engine Dag.
Import ListNotations.

(* evaluation restricted to ANY argument-closed set of names (in particular the ancestors of a
   target list) agrees with the full evaluation on that set — for every column type, every
   node operation, every data table *)
Theorem C04_pruning_preserves_values : forall (col : Type) K (S : list (node col)) e1 e2 t,
  closed col K S -> agree col K e1 e2 -> run col S e1 = Ok t ->
  exists t', run col (prune col K S) e2 = Ok t' /\ agree col K t t'.
Proof. exact run_closed_subset. Qed.
Print Assumptions C04_pruning_preserves_values.

(* hence a target common to two target sets has the same value under both *)
Theorem C04_target_independent : forall (col : Type) K1 K2 (S : list (node col)) e t1 t2 x,
  closed col K1 S -> closed col K2 S -> K1 x = true -> K2 x = true ->
  run col (prune col K1 S) e = Ok t1 -> run col (prune col K2 S) e = Ok t2 ->
  forall t, run col S e = Ok t -> tget col x t1 = tget col x t2.
Proof. exact target_independent. Qed.
Print Assumptions C04_target_independent.

(* extra data columns that no kept node reads do not matter: agree only asks for K *)
Corollary C04_extra_columns : forall (col : Type) K (S : list (node col)) e1 e2 t,
  closed col K S -> (forall x, K x = true -> tget col x e1 = tget col x e2) ->
  run col S e1 = Ok t -> exists t', run col (prune col K S) e2 = Ok t' /\ agree col K t t'.
Proof. intros col K S e1 e2 t Hc Ha. apply run_closed_subset; assumption. Qed.
Print Assumptions C04_extra_columns.

(* the closedness check run on the regenerated graph is sound *)
Theorem C04_closed_check_sound : forall (col : Type) (sem : dnode -> list col -> res col) K S,
  closed_chk K S = true -> closed col (fun x => smem x K) (to_sys col sem S).
Proof. exact closed_chk_sound. Qed.
Print Assumptions C04_closed_check_sound.
