(* Property C10 — statutory rounding.  Re-statement of the theorems the check relies on. *)
From Coq Require Import ZArith QArith Qcanon Bool String List.
From GettsimModel Require Import Num Val Ast Eval PolicyEnv Rounding Column Dag Scalar Table TableRound ChkC10.
Import ListNotations.
Open Scope Qc_scope.

(* the rounded value minus the statutory offset lies on the grid base * Z *)
Theorem C10_on_grid : forall base dir off x,
  exists k : Z, round_to base dir off x - off = base * qz k.
Proof. exact on_grid. Qed.
Print Assumptions C10_on_grid.

Theorem C10_dir_down : forall base off x, 0 < base ->
  let r := round_to base DDown off x in r - off <= x /\ x < r - off + base.
Proof. exact dir_down. Qed.
Print Assumptions C10_dir_down.

Theorem C10_dir_up : forall base off x, 0 < base ->
  let r := round_to base DUp off x in r - off - base < x /\ x <= r - off.
Proof. exact dir_up. Qed.
Print Assumptions C10_dir_up.

Theorem C10_dir_nearest : forall base off x, 0 < base ->
  let r := round_to base DNearest off x in
  r - off - base * qfrac 1 2 <= x /\ x <= r - off + base * qfrac 1 2.
Proof. exact dir_nearest. Qed.
Print Assumptions C10_dir_nearest.

(* error below one grid step, whatever the direction *)
Theorem C10_err_lt_base : forall base dir off x, 0 < base ->
  let r := round_to base dir off x in x - base < r - off /\ r - off < x + base.
Proof. exact err_lt_base. Qed.
Print Assumptions C10_err_lt_base.

(* values already on the grid are fixed points *)
Theorem C10_idempotent_on_grid : forall base dir (k : Z), 0 < base ->
  round_to base dir 0 (base * qz k) = base * qz k.
Proof. exact idempotent_on_grid. Qed.
Print Assumptions C10_idempotent_on_grid.

(* a passing reflective check means: for every date and group checked, the rounding
   specification the loader model puts into the environment equals the YAML entry in
   force that day — base, direction AND to_add_after_rounding — and is well formed *)
Theorem C10_loaded_spec_is_statutory_spec : forall Y groups dates,
  c10_ok_for Y groups dates = true ->
  forall d g, In d dates -> In g groups ->
    c10_holds_at (loaded_rounding Y) (yaml_rounding_section Y) d g.
Proof. exact c10_ok_for_sound. Qed.
Print Assumptions C10_loaded_spec_is_statutory_spec.

(* non-vacuity: 17.5 rounded to the grid of 5 in the three directions, offset 18 *)
Example C10_examples :
  round_to (qfrac 5 1) DUp (qfrac 18 1) (qfrac 35 2) = qfrac 38 1 /\
  round_to (qfrac 5 1) DDown (qfrac 18 1) (qfrac 35 2) = qfrac 33 1 /\
  round_to (qfrac 5 1) DNearest 0 (qfrac 35 2) = qfrac 20 1 /\      (* 3.5 -> 4 (even) *)
  round_to (qfrac 5 1) DNearest 0 (qfrac 25 2) = qfrac 10 1.        (* 2.5 -> 2 (even) *)
Proof. vm_compute. repeat split; reflexivity. Qed.

(* ---- exactly once, on the concrete model engine Table.sem (any rule table, parameters, node, columns) ---- *)

(* a rule marked for rounding: with rounding on the column is the column with rounding off, rounded *)
Theorem C10_marked_rule_rounded_once : forall ft P nrows n cols g, marked n = Some g ->
  sem ft P true nrows n cols = (do c <- sem ft P false nrows n cols; round_column P g (d_name n) c).
Proof. exact sem_rounded. Qed.
Print Assumptions C10_marked_rule_rounded_once.

(* ... cell by cell with the specification loaded for that rule *)
Theorem C10_rounded_cells : forall P g name c c', round_column P g name c = Ok c' ->
  col_dtype c' = TFloat /\ col_len c' = col_len c /\
  forall i v, nth_error (col_vals c) i = Some v ->
    exists r w, apply_rounding P g name v = Ok r /\ cast TFloat r = Ok w /\ nth_error (col_vals c') i = Some w.
Proof. exact round_column_cells. Qed.
Print Assumptions C10_rounded_cells.

(* every other node — unmarked rules, unit conversions, group reductions, pointer sums, joins, id builders — is computed
   from its argument columns in the same way with rounding on or off: columns derived from a rounded column are not
   rounded again *)
Theorem C10_derived_columns_not_rounded_again : forall ft P nrows n cols, marked n = None ->
  sem ft P true nrows n cols = sem ft P false nrows n cols.
Proof. exact sem_not_rounded. Qed.
Print Assumptions C10_derived_columns_not_rounded_again.

(* a marked rule without a specification in the loaded parameters is an error on every non-empty table *)
Theorem C10_missing_spec_is_error : forall P g name c,
  (forall gv, pget g P = Some gv -> forall spec, path_get gv [KStr "rounding"; KStr name] <> Ok (VDict spec)) ->
  col_vals c <> [] -> round_column P g name c = Err EKey.
Proof. exact missing_spec_is_error. Qed.
Print Assumptions C10_missing_spec_is_error.
