(* Property C01 — results do not depend on the order of rows in the input data. *)
From Coq Require Import ZArith Bool String List Permutation.
From GettsimModel Require Import Num Val Ast Eval PolicyEnv Column Aggregation Engine Dag Perm Table TablePerm Groupings CoupleSpec.
Import ListNotations.

(* the generic engine lemma: if the inputs of two runs are related and every node operation
   preserves the relation (or fails in both runs), the outputs are related *)
Theorem C01_run_rel : forall (col : Type) (R : string -> col -> col -> Prop) (S : list (node col)) e1 e2,
  (forall n, In n S -> node_ok col R n) -> env_rel col R e1 e2 ->
  match run col S e1, run col S e2 with
  | Ok t1, Ok t2 => env_rel col R t1 t2
  | Err _, Err _ => True
  | _, _ => False
  end.
Proof. exact run_rel. Qed.
Print Assumptions C01_run_rel.

(* scalar rules (with the declared dtype): the column of the permuted table is the permuted column,
   for EVERY rule, EVERY table, EVERY permutation *)
Theorem C01_rule_columns_permute : forall t f p n args, perm_of p n -> all_len n args ->
  res_rel (fun c1 c2 => c2 = permute_col p c1)
          (vectorize_gen (Some t) f n args)
          (vectorize_gen (Some t) f n (map (permute_col p) args)).
Proof. exact vectorize_declared_perm. Qed.
Print Assumptions C01_rule_columns_permute.

(* group reductions: a group's value does not depend on the order of its members' rows *)
Theorem C01_group_values_order_free : forall {A} (op : A -> A -> A),
  (forall a b, op a b = op b a) -> (forall a b c, op (op a b) c = op a (op b c)) ->
  forall k rows1 rows2, Permutation rows1 rows2 ->
    alookup k (accumulate op rows1) = alookup k (accumulate op rows2).
Proof. intros A op. exact (group_entry_order_free op). Qed.
Print Assumptions C01_group_values_order_free.

(* float sums: the model's addition on extended rationals is commutative and associative *)
Theorem C01_float_sum_comm_assoc :
  (forall a b, xq_add a b = xq_add b a) /\ (forall a b c, xq_add (xq_add a b) c = xq_add a (xq_add b c)).
Proof. split; [exact xq_add_comm | exact xq_add_assoc]. Qed.
Print Assumptions C01_float_sum_comm_assoc.

(* END TO END ON THE MODEL: the concrete engine (Table.sem: rules through numpy.vectorize with the
   declared dtype and statutory rounding, unit conversions, group reductions, joins, sums by person
   pointer) commutes with EVERY permutation of the rows: if the run on a table succeeds, the run on
   the row-permuted table succeeds and every computed column is the permuted column.  The id
   builders renumber groups in row order (only the partition is order free: C12), so the theorem is
   about graphs whose id columns are supplied; its side conditions are decidable and are checked
   on every regenerated graph. *)
Theorem C01_engine_commutes_with_row_permutations : forall ft P rounding nrows p,
  perm_of p nrows -> forall S e1 e2 t1,
  forallb (perm_ready_b ft) S = true -> forallb (fun n => negb (String.eqb (d_name n) "p_id")) S = true ->
  pid_inv e1 -> tab_rel nrows p e1 e2 ->
  run column (to_sys column (sem ft P rounding nrows) S) e1 = Ok t1 ->
  exists t2, run column (to_sys column (sem ft P rounding nrows) S) e2 = Ok t2 /\ tab_rel nrows p t1 t2.
Proof. intros ft P rounding nrows p Hp. exact (run_perm_b ft P rounding nrows p Hp). Qed.
Print Assumptions C01_engine_commutes_with_row_permutations.

(* sums by person pointer commute with row permutations when the p_ids are unique *)
Theorem C01_pointer_sums_permute : forall {A} (add : A -> A -> A) zero,
  (forall a b, add a b = add b a) -> (forall a b c, add (add a b) c = add a (add b c)) ->
  forall dl p col ptr pids out, NoDup pids -> length col = length pids -> length ptr = length pids -> perm_of p (length pids) ->
  sum_by_p_id_list add zero col ptr pids = Ok out ->
  sum_by_p_id_list add zero (pl dl p col) (pl 0%Z p ptr) (pl 0%Z p pids) = Ok (pl dl p out).
Proof. intros A add zero Hc Ha. exact (SbpPerm.sum_by_p_id_list_perm add zero Hc Ha). Qed.
Print Assumptions C01_pointer_sums_permute.

(* the id builders are outside run_perm_b (they renumber in row order); for the partner-based ones the
   PARTITION is row-order free for tables of any size *)
Theorem C01_partner_units_order_free : forall ptr ps ps', couple_wf ptr ps -> Permutation ps ps' ->
  let ids := couple_loop (map (fun x => (pid x, ptr x)) ps) [] 0 in
  let ids' := couple_loop (map (fun x => (pid x, ptr x)) ps') [] 0 in
  forall i j i' j' a b,
    nth_error ps i = Some a -> nth_error ps j = Some b -> nth_error ps' i' = Some a -> nth_error ps' j' = Some b ->
    (nth_error ids i = nth_error ids j <-> nth_error ids' i' = nth_error ids' j').
Proof. exact couple_order_free. Qed.
Print Assumptions C01_partner_units_order_free.
