(* Property C01 — results do not depend on the order of rows in the input data. *)
From Coq Require Import ZArith Bool String List Permutation.
From GettsimModel Require Import Num Val Column Aggregation Engine Perm.
Import ListNotations.

(* the generic engine lemma: if the inputs of two runs are related and every node operation
   preserves the relation (or fails in both runs), the outputs are related *)
Theorem C01_run_rel : forall (col : Type) (R : string -> col -> col -> Prop) (S : list (node col)) e1 e2,
  (forall n, In n S -> node_ok col R n) -> env_rel col R e1 e2 ->
  match run col S e1, run col S e2 with
  | Ok t1, Ok t2 => env_rel col R t1 t2
  | Err _, Err _ => True
  | _, _ => False
  end.
Proof. exact run_rel. Qed.
Print Assumptions C01_run_rel.

(* scalar rules (with the declared dtype): the column of the permuted table is the permuted column,
   for EVERY rule, EVERY table, EVERY permutation *)
Theorem C01_rule_columns_permute : forall t f p n args, perm_of p n -> all_len n args ->
  res_rel (fun c1 c2 => c2 = permute_col p c1)
          (vectorize_gen (Some t) f n args)
          (vectorize_gen (Some t) f n (map (permute_col p) args)).
Proof. exact vectorize_declared_perm. Qed.
Print Assumptions C01_rule_columns_permute.

(* group reductions: a group's value does not depend on the order of its members' rows *)
Theorem C01_group_values_order_free : forall {A} (op : A -> A -> A),
  (forall a b, op a b = op b a) -> (forall a b c, op (op a b) c = op a (op b c)) ->
  forall k rows1 rows2, Permutation rows1 rows2 ->
    alookup k (accumulate op rows1) = alookup k (accumulate op rows2).
Proof. intros A op. exact (group_entry_order_free op). Qed.
Print Assumptions C01_group_values_order_free.

(* float sums: the model's addition on extended rationals is commutative and associative *)
Theorem C01_float_sum_comm_assoc :
  (forall a b, xq_add a b = xq_add b a) /\ (forall a b c, xq_add (xq_add a b) c = xq_add a (xq_add b c)).
Proof. split; [exact xq_add_comm | exact xq_add_assoc]. Qed.
Print Assumptions C01_float_sum_comm_assoc.
