(* Property C19 — social-insurance contributions follow the statutory shape in the wage.
   PARTIAL: the theorems hold for ALL wages and ALL parameters satisfying [cond] for the closed
   forms; that the regenerated rule chain equals the closed form is checked by vm_compute on a
   stated finite grid of wages per date class (every statutory boundary +-1 cent and a lattice),
   for pension and unemployment insurance.
   ALL WAGES, ALL FOUR INSURANCES (below, C19_all_wages): the chains of the real graph are evaluated
   symbolically in the wage (AffEval, sound for every wage of a piece), and the shape is decided on the
   affine pieces (AffShape); the remaining bound is the finite set of discrete configurations
   (region x children x age) in ChkC19Aff.configs. *)
From Coq Require Import ZArith QArith Qcanon Bool.
From Coq Require Import String List.
From GettsimModel Require Import Num Val Ast Eval PolicyEnv Dag Scalar Contrib AffEval AffShape ChkC19Aff.
Open Scope Qc_scope.

Theorem C19_nonneg : forall r C F G U w, cond r C F G U -> 0 <= w -> 0 <= employee_new r C F G U w.
Proof. exact employee_new_nonneg. Qed.
Print Assumptions C19_nonneg.

Theorem C19_monotone_partial : forall r C F G U w1 w2,
  cond r C F G U -> 0 <= w1 -> w1 <= w2 -> employee_new r C F G U w1 <= employee_new r C F G U w2.
Proof. exact employee_new_monotone. Qed.
Print Assumptions C19_monotone_partial.

Theorem C19_zero_for_marginal_employment : forall r C F G U w, w <= G -> employee_new r C F G U w = 0.
Proof. exact employee_new_zero_for_marginal. Qed.
Print Assumptions C19_zero_for_marginal_employment.

Theorem C19_constant_above_ceiling : forall r C F G U w,
  cond r C F G U -> C <= w -> G < w -> U < w -> employee_new r C F G U w = r * C.
Proof. exact employee_new_flat_above_ceiling. Qed.
Print Assumptions C19_constant_above_ceiling.

Theorem C19_transition_zone_meets_regular : forall r C F G U, cond r C F G U -> r * an_new G U U = regular r C U.
Proof. exact employee_new_meets_regular. Qed.
Print Assumptions C19_transition_zone_meets_regular.

Theorem C19_old_zone_meets_regular : forall r F G U, G < U -> an_old r F G U U = r * U.
Proof. exact an_old_meets_regular. Qed.
Print Assumptions C19_old_zone_meets_regular.

Theorem C19_old_zone_monotone : forall r F G U w1 w2,
  0 <= r -> 0 < G -> G < U -> F <= 1 -> w1 <= w2 -> an_old r F G U w1 <= an_old r F G U w2.
Proof. exact an_old_monotone. Qed.
Print Assumptions C19_old_zone_monotone.

Theorem C19_old_zone_shares_sum : forall r F G U w, an_old r F G U w + r * w = (1 + 1) * r * be_new F G U w.
Proof. exact old_shares_sum. Qed.
Print Assumptions C19_old_zone_shares_sum.

Theorem C19_conditions_reflect : forall r C F G U, cond_b r C F G U = true -> cond r C F G U.
Proof. exact cond_b_sound. Qed.
Print Assumptions C19_conditions_reflect.

(* ---- all wages, on the model evaluator of the real rule chains ---- *)

(* symbolic evaluation in the wage is exact: whenever it returns s on an interval, the scalar evaluation of
   the regenerated rule chain over the real graph (statutory rounding on) returns conc w s for EVERY w of it *)
Theorem C19_symbolic_evaluation_sound : forall S ft P rounding Iv sinp w, inI Iv w ->
  forall fuel name s, sym_seval S ft P rounding Iv sinp fuel name = Some s ->
  seval S ft P rounding (conc_env w sinp) fuel name = Ok (conc w s).
Proof. exact sym_seval_sound. Qed.
Print Assumptions C19_symbolic_evaluation_sound.

(* a graph accepted by the checker (an obligation per dumped date >= 2015): for every configuration
   (east / west, 0..6 children, age 20 / 35), each of the four insurances and EVERY gross wage w >= 0:
   the employee contribution is defined and non-negative, non-decreasing in the wage, zero up to the
   marginal-employment threshold G, constant from the assessment ceiling on, every affine piece touching
   the upper boundary U of the transition zone takes there the value of the contribution at U (no jump:
   the reduced contribution meets the regular one), and within the zone (G, U] employee share + employer
   share = total contribution *)
Theorem C19_all_wages : forall S ft P, c19_aff_ok S ft P = true ->
  forall cfg an ag tot ceil, In cfg configs -> In (an, ag, tot, ceil) branches ->
  let Fc := fun cfg => F S ft P (base_inputs cfg) wage_name in
  (0 < G_of S ft P cfg /\ G_of S ft P cfg < U_of P) /\
  (forall w, 0 <= w -> exists y, Fc cfg an w = Some y /\ 0 <= y) /\
  (forall w1 w2, 0 <= w1 -> w1 <= w2 -> exists y1 y2, Fc cfg an w1 = Some y1 /\ Fc cfg an w2 = Some y2 /\ y1 <= y2) /\
  (forall w, 0 <= w -> w <= G_of S ft P cfg -> Fc cfg an w = Some 0) /\
  (forall w, 0 <= w -> node0 S ft P cfg ceil <= w -> Fc cfg an w = Some (val_at (Fc cfg) an (node0 S ft P cfg ceil))) /\
  (exists ps, described (Fc cfg an) ps /\ Fc cfg an (U_of P) = Some (val_at (Fc cfg) an (U_of P)) /\
      forall Iv f, In (Iv, f) ps -> touches Iv (U_of P) = true -> ev f (U_of P) = val_at (Fc cfg) an (U_of P)) /\
  (forall w, 0 <= w -> G_of S ft P cfg < w -> w <= U_of P ->
     exists y1 y2 y3, Fc cfg an w = Some y1 /\ Fc cfg ag w = Some y2 /\ Fc cfg tot w = Some y3 /\ y1 + y2 = y3).
Proof. exact c19_aff_sound. Qed.
Print Assumptions C19_all_wages.

(* the shape theorems used above, for any function described by affine pieces *)
Theorem C19_pieces_monotone : forall F ps, described F ps -> adjacent ps = true -> mono_pieces ps = true ->
  forall w1 w2, first_lower ps w1 -> w1 <= w2 -> exists y1 y2, F w1 = Some y1 /\ F w2 = Some y2 /\ y1 <= y2.
Proof. exact shape_monotone. Qed.
Print Assumptions C19_pieces_monotone.

Theorem C19_pieces_cover : forall ps, adjacent ps = true -> forall w, first_lower ps w -> exists Iv f, In (Iv, f) ps /\ inI Iv w.
Proof. exact cover. Qed.
Print Assumptions C19_pieces_cover.
