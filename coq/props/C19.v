(* Property C19 — social-insurance contributions follow the statutory shape in the wage.
   PARTIAL: the theorems hold for ALL wages and ALL parameters satisfying [cond] for the closed
   forms; that the regenerated rule chain equals the closed form is checked by vm_compute on a
   stated finite grid of wages per date class (every statutory boundary +-1 cent and a lattice),
   for pension and unemployment insurance; health and long-term care insurance (more variants)
   are covered by the implementation sweeps only. *)
From Coq Require Import ZArith QArith Qcanon Bool.
From GettsimModel Require Import Num Contrib.
Open Scope Qc_scope.

Theorem C19_nonneg : forall r C F G U w, cond r C F G U -> 0 <= w -> 0 <= employee_new r C F G U w.
Proof. exact employee_new_nonneg. Qed.
Print Assumptions C19_nonneg.

Theorem C19_monotone_partial : forall r C F G U w1 w2,
  cond r C F G U -> 0 <= w1 -> w1 <= w2 -> employee_new r C F G U w1 <= employee_new r C F G U w2.
Proof. exact employee_new_monotone. Qed.
Print Assumptions C19_monotone_partial.

Theorem C19_zero_for_marginal_employment : forall r C F G U w, w <= G -> employee_new r C F G U w = 0.
Proof. exact employee_new_zero_for_marginal. Qed.
Print Assumptions C19_zero_for_marginal_employment.

Theorem C19_constant_above_ceiling : forall r C F G U w,
  cond r C F G U -> C <= w -> G < w -> U < w -> employee_new r C F G U w = r * C.
Proof. exact employee_new_flat_above_ceiling. Qed.
Print Assumptions C19_constant_above_ceiling.

Theorem C19_transition_zone_meets_regular : forall r C F G U, cond r C F G U -> r * an_new G U U = regular r C U.
Proof. exact employee_new_meets_regular. Qed.
Print Assumptions C19_transition_zone_meets_regular.

Theorem C19_old_zone_meets_regular : forall r F G U, G < U -> an_old r F G U U = r * U.
Proof. exact an_old_meets_regular. Qed.
Print Assumptions C19_old_zone_meets_regular.

Theorem C19_old_zone_monotone : forall r F G U w1 w2,
  0 <= r -> 0 < G -> G < U -> F <= 1 -> w1 <= w2 -> an_old r F G U w1 <= an_old r F G U w2.
Proof. exact an_old_monotone. Qed.
Print Assumptions C19_old_zone_monotone.

Theorem C19_old_zone_shares_sum : forall r F G U w, an_old r F G U w + r * w = (1 + 1) * r * be_new F G U w.
Proof. exact old_shares_sum. Qed.
Print Assumptions C19_old_zone_shares_sum.

Theorem C19_conditions_reflect : forall r C F G U, cond_b r C F G U = true -> cond r C F G U.
Proof. exact cond_b_sound. Qed.
Print Assumptions C19_conditions_reflect.
