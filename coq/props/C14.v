(* Property C14 — simulation is pure, deterministic and independent of the process history.
   PARTIAL in the sense of DESIGN.md: the theorem is about the write-set abstraction; that the real
   operations have these write sets is observed (U10), not proved; Python-level aliasing and caches
   inside numpy / pandas are runtime behaviour the model cannot exhibit. *)
From Coq Require Import Bool List.
From GettsimModel Require Import History.
Import ListNotations.

Theorem C14_history_independent_partial :
  forall (loc val out opn : Type) (P : loc -> Prop) (step : opn -> (loc -> val) -> (loc -> val) * out),
  (forall o s l, P l -> fst (step o s) l = s l) ->
  (forall o s1 s2, (forall l, P l -> s1 l = s2 l) -> snd (step o s1) = snd (step o s2)) ->
  forall h s0 o,
    snd (step o (run loc val out opn step h s0)) = snd (step o s0)
    /\ forall l, P l -> run loc val out opn step h s0 l = s0 l.
Proof. intros. apply history_independent; assumption. Qed.
Print Assumptions C14_history_independent_partial.

Theorem C14_rewrite_rebinding_refuted :
  let s0 := fun _ : nat => 0 in
  snd (step2 true false Simulate (fst (step2 true false Rewrite s0))) <> snd (step2 true false Simulate s0)
  /\ snd (step2 false false Simulate (fst (step2 false false Rewrite s0))) = snd (step2 false false Simulate s0).
Proof. exact rewrite_rebinding_refuted. Qed.
Print Assumptions C14_rewrite_rebinding_refuted.

Theorem C14_dict_data_refuted :
  let s0 := fun _ : nat => 0 in
  fst (step2 false true SimulateDict s0) 1 <> s0 1 /\ fst (step2 false false SimulateDict s0) 1 = s0 1.
Proof. exact dict_data_refuted. Qed.
Print Assumptions C14_dict_data_refuted.
