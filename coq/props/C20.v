(* Property C20 — malformed input data are rejected, and type coercion is lossless. *)
From Coq Require Import ZArith QArith Qcanon Bool String List.
From GettsimModel Require Import Num Val Validation ValidationFaults Groupings CoupleSpec.
Import ListNotations.
Open Scope Z_scope.

(* accepted data have unique person identifiers (missing / duplicate p_id => rejected) *)
Theorem C20_pid_unique : forall t, accept t = true ->
  exists pc, find_col "p_id" t = Some pc /\ forall pids, as_ints pc = Some pids -> NoDup pids.
Proof. exact accept_pid_unique. Qed.
Print Assumptions C20_pid_unique.

(* spouse / partner / parent pointers of accepted data point to an existing person or are -1, never to oneself *)
Theorem C20_pointers_valid : forall t pc pids fk c ptrs,
  accept t = true -> find_col "p_id" t = Some pc -> as_ints pc = Some pids ->
  In fk fk_names -> find_col fk t = Some c -> as_ints c = Some ptrs ->
  (forall q, In q ptrs -> q = -1 \/ In q pids) /\
  (forall p q, In (p, q) (combine pids ptrs) -> p <> q).
Proof. exact accept_fks_valid. Qed.
Print Assumptions C20_pointers_valid.

(* group-level inputs of accepted data are constant within their group *)
Theorem C20_group_inputs_constant : forall t level idc ids c,
  accept t = true -> In level group_levels -> find_col (level ++ "_id") t = Some idc -> as_ints idc = Some ids ->
  In c t -> ends_with ("_" ++ level) (rc_name c) = true ->
  forall i j v w, In (i, v) (combine ids (rc_vals c)) -> In (j, w) (combine ids (rc_vals c)) -> i = j ->
    raw_eqb v w = true.
Proof. exact accept_group_constant. Qed.
Print Assumptions C20_group_inputs_constant.

Theorem C20_no_duplicate_columns : forall t, accept t = true -> has_dup (map rc_name t) = false.
Proof. exact accept_no_duplicate_columns. Qed.
Print Assumptions C20_no_duplicate_columns.

(* a successful conversion never changes a numeric value *)
Theorem C20_coercion_lossless : forall ty l cs,
  convert_col true ty l = Ok cs -> map num_of cs = map num_of l.
Proof. exact convert_col_lossless. Qed.
Print Assumptions C20_coercion_lossless.

(* without the value check, int -> float silently rounds integers beyond 2^53 *)
Theorem C20_unchecked_int_to_float_refuted :
  convert_cell false IFloat (RInt (2 ^ 53 + 1)) = Ok (RFloat (xz (2 ^ 53)))
  /\ num_of (RFloat (xz (2 ^ 53))) <> num_of (RInt (2 ^ 53 + 1)).
Proof. exact int_to_float_unchecked_refuted. Qed.
Print Assumptions C20_unchecked_int_to_float_refuted.

(* spouses with contradictory joint-assessment flags: the tax-unit builder rejects the table exactly
   when two spouses' flags differ — for tables of ANY size and wherever the two rows stand
   (unique non-negative person ids, symmetric spouse pointers) *)
Theorem C20_contradictory_joint_assessment_rejected : forall ps, couple_wf ehep ps ->
  ((exists ids, sn_id ps = Ok ids) <-> flags_agree_b ps = true).
Proof. exact sn_id_accepts_iff. Qed.
Print Assumptions C20_contradictory_joint_assessment_rejected.

Theorem C20_contradictory_flags_error : forall ps, couple_wf ehep ps -> ~ flags_agree ps -> exists e, sn_id ps = Err e.
Proof. exact sn_id_rejects. Qed.
Print Assumptions C20_contradictory_flags_error.

(* ---- the same guarantees in fault-injection form: for EVERY table, whatever its other rows and
   columns, and for EVERY row position of the fault, the table is rejected ---- *)
Open Scope string_scope.
Theorem C20_fault_missing_pid : forall t, find_col "p_id" t = None -> accept t = false.
Proof. exact missing_pid_rejected. Qed.
Print Assumptions C20_fault_missing_pid.

Theorem C20_fault_duplicate_pid : forall t pc pids i j x,
  find_col "p_id" t = Some pc -> as_ints pc = Some pids ->
  i <> j -> nth_error pids i = Some x -> nth_error pids j = Some x -> accept t = false.
Proof. exact duplicate_pid_rejected. Qed.
Print Assumptions C20_fault_duplicate_pid.

Theorem C20_fault_dangling_pointer : forall t pc pids fk c ptrs i q,
  find_col "p_id" t = Some pc -> as_ints pc = Some pids ->
  In fk fk_names -> find_col fk t = Some c -> as_ints c = Some ptrs ->
  nth_error ptrs i = Some q -> q <> -1 -> ~ In q pids -> accept t = false.
Proof. exact dangling_pointer_rejected. Qed.
Print Assumptions C20_fault_dangling_pointer.

Theorem C20_fault_self_pointer : forall t pc pids fk c ptrs i p,
  find_col "p_id" t = Some pc -> as_ints pc = Some pids ->
  In fk fk_names -> find_col fk t = Some c -> as_ints c = Some ptrs ->
  nth_error pids i = Some p -> nth_error ptrs i = Some p -> accept t = false.
Proof. exact self_pointer_rejected. Qed.
Print Assumptions C20_fault_self_pointer.

Theorem C20_fault_varying_group_input : forall t level idc ids c i j g v w,
  In level group_levels -> find_col (level ++ "_id") t = Some idc -> as_ints idc = Some ids ->
  In c t -> ends_with ("_" ++ level) (rc_name c) = true ->
  nth_error ids i = Some g -> nth_error ids j = Some g ->
  nth_error (rc_vals c) i = Some v -> nth_error (rc_vals c) j = Some w ->
  raw_eqb v w = false -> accept t = false.
Proof. exact varying_group_input_rejected. Qed.
Print Assumptions C20_fault_varying_group_input.

Theorem C20_fault_duplicate_column : forall t, has_dup (map rc_name t) = true -> accept t = false.
Proof. exact duplicate_column_rejected. Qed.
Print Assumptions C20_fault_duplicate_column.
