(* Property C18 — statutory schedules are well formed and evaluated exactly.
   This file only re-states the theorems the check relies on (so that they cannot be
   weakened quietly) and prints their assumptions.  The per-date obligations
   (c18_wf_at / c18_named_at ... = true for every date class of the regenerated YAML)
   are generated and discharged on every run by tools/props/c18.py. *)
From Coq Require Import ZArith QArith Qcanon Bool String List.
From GettsimModel Require Import Num Val Ast Piecewise Eval PolicyEnv PiecewiseProofs ChkC18.
Import ListNotations.
Open Scope Qc_scope.

(* evaluation = mathematical value at every finite point, thresholds included *)
Theorem C18_eval_exact : forall s c0 ps,
  to_pieces s = Some (c0, ps) -> pieces_sorted ps = true ->
  forall x : Qc, pp_impl s (XFin x) None = Ok (XFin (ev0 c0 ps x)).
Proof. exact pp_impl_eq_spec. Qed.
Print Assumptions C18_eval_exact.

(* every schedule of a loaded environment that passes the checker is evaluated exactly *)
Theorem C18_all_schedules_exact : forall (PA : Z -> res params) d,
  c18_wf_at PA d = true ->
  exists p, PA d = Ok p /\
    forall g gd k v, In (g, VDict gd) p -> In (k, v) gd -> is_sched_like v = true -> sched_exact v.
Proof. exact c18_wf_at_sound. Qed.
Print Assumptions C18_all_schedules_exact.

(* income-tax tariff: zero up to the basic allowance, continuous, non-decreasing,
   marginal rate <= top rate, convex — for all rational arguments *)
Theorem C18_income_tax_shape : forall (PA : Z -> res params) g k d,
  c18_named_at PA g k tarif_chk d = true ->
  exists p, PA d = Ok p /\ forall s, sched_at p g k = Some s -> tarif_shape s.
Proof. exact c18_tarif_at_sound. Qed.
Print Assumptions C18_income_tax_shape.

(* solidarity surcharge: continuous, non-decreasing, <= nominal rate * tax + 0.01 *)
Theorem C18_soli_shape : forall (PA : Z -> res params) g k d,
  c18_named_at PA g k soli_chk d = true ->
  exists p, PA d = Ok p /\ forall s, sched_at p g k = Some s -> soli_shape s.
Proof. exact c18_soli_at_sound. Qed.
Print Assumptions C18_soli_shape.

(* non-vacuity: a concrete continuous convex schedule passes, a concave kink does not *)
Example C18_nonvacuous :
  run_chk ex_quad tarif_chk = true /\ run_chk ex_sched tarif_chk = false
  /\ run_chk ex_sched soli_chk = true.
Proof. vm_compute. repeat split; reflexivity. Qed.
