(* Property C02 — unrelated households do not influence each other; relabelling ids changes only labels. *)
From Coq Require Import ZArith Bool String List.
From GettsimModel Require Import Num Val Ast Eval PolicyEnv Column Aggregation Engine Dag Groupings Perm Table TableSep.
Import ListNotations.
Open Scope Z_scope.

Theorem C02_run_rel : forall (col : Type) (R : string -> col -> col -> Prop) (S : list (node col)) e1 e2,
  (forall n, In n S -> node_ok col R n) -> env_rel col R e1 e2 ->
  match run col S e1, run col S e2 with
  | Ok t1, Ok t2 => env_rel col R t1 t2
  | Err _, Err _ => True
  | _, _ => False
  end.
Proof. exact run_rel. Qed.
Print Assumptions C02_run_rel.

(* row-wise rules: the cells of population A do not depend on rows appended after A *)
Theorem C02_rows_independent : forall {A B} (f : A -> res B) l1 l2 ys,
  mapM_res f (l1 ++ l2) = Ok ys -> mapM_res f l1 = Ok (firstn (length l1) ys).
Proof. intros A B. exact (@mapM_res_app_prefix A B). Qed.
Print Assumptions C02_rows_independent.

(* group reductions: groups whose id does not occur among the other households' rows are unchanged *)
Theorem C02_groups_separable : forall {A} (op : A -> A -> A) k (rowsA rowsB : list (Z * A)),
  (forall kv, In kv rowsB -> fst kv <> k) ->
  alookup k (accumulate op (rowsA ++ rowsB)) = alookup k (accumulate op rowsA).
Proof. intros A op. exact (group_entry_separable op). Qed.
Print Assumptions C02_groups_separable.

(* injective relabelling of group ids does not change group values *)
Theorem C02_relabel : forall {A} (rho : Z -> Z) (k : Z) (rows : list (Z * A)),
  (forall a b, rho a = rho b -> a = b) ->
  select (rho k) (map (fun kv => (rho (fst kv), snd kv)) rows) = select k rows.
Proof. intros A. exact (@select_relabel A). Qed.
Print Assumptions C02_relabel.

(* derived ids of different households never collide (see C12): part-households, needs units *)
Theorem C02_wthh_no_collision : forall hhs v1 v2 i j h1 h2 a1 b1 a2 b2 x,
  nth_error hhs i = Some h1 -> nth_error v1 i = Some a1 -> nth_error v2 i = Some b1 ->
  nth_error hhs j = Some h2 -> nth_error v1 j = Some a2 -> nth_error v2 j = Some b2 ->
  nth_error (wthh_id hhs v1 v2) i = Some x -> nth_error (wthh_id hhs v1 v2) j = Some x ->
  h1 = h2 /\ (a1 || b1) = (a2 || b2).
Proof. exact wthh_within_hh. Qed.
Print Assumptions C02_wthh_no_collision.

(* END TO END ON THE MODEL: for the concrete engine Table.sem, simulating two populations TOGETHER
   gives, column by column, the concatenation of what simulating them SEPARATELY gives — whenever the
   keys of the group reductions do not occur in both, the p_ids are unique overall and foreign keys do
   not point into the other population ([side], stated on the supplied key columns), the rules have a
   declared result dtype and no node is named like a key column (decidable, checked on the graphs).
   The id builders are excluded as in C01 (ids supplied). *)
Theorem C02_engine_separable : forall ft P rounding nA nB S eA eB eAB tA tB,
  forallb (sep_ready_b ft) S = true -> keys_fresh_b S = true -> (forall n, In n S -> side eA eB n) ->
  tab3 nA nB eA eB eAB ->
  run column (to_sys column (semA ft P rounding nA) S) eA = Ok tA ->
  run column (to_sys column (semB ft P rounding nB) S) eB = Ok tB ->
  exists tAB, run column (to_sys column (semAB ft P rounding nA nB) S) eAB = Ok tAB /\ tab3 nA nB tA tB tAB.
Proof. exact run_separable_b. Qed.
Print Assumptions C02_engine_separable.
