(* Table.v — the concrete engine: Engine.run instantiated with typed columns and the semantics of
   every node kind of the real loader's graph:
     rule nodes      numpy.vectorize (Column.vectorize_gen, declared dtype as otypes) of the
                     regenerated rule AST (Eval.call_rule), parameters partialled in, statutory
                     rounding applied to the column (Rounding.round_val)
     group aggregates / person-pointer sums   Aggregation.grouped_*, sum_by_p_id
     id builders     Groupings.*
     time conversion column * factor
   so that `run_table` computes, inside Coq, the table compute_taxes_and_transfers returns.
   The abstract theorems of Engine.v (C04, C05, C06, run_rel) apply to it verbatim; the
   correspondence unit U7 compares it with the implementation column by column. *)
From Coq Require Import ZArith QArith Qcanon Bool String List Lia.
From GettsimModel Require Import Num Val Ast Piecewise Eval PolicyEnv Rounding Column Aggregation Groupings
     Engine Dag TimeConv ChkC08 Scalar.
Import ListNotations.
Open Scope string_scope.

Definition col_ints (c : column) : res (list Z) :=
  match c with
  | CInt l => Ok l
  | CBool l => Ok (map b2z l)
  | _ => Err EType
  end.

Definition col_bools (c : column) : res (list bool) :=
  match c with
  | CBool l => Ok l
  | CInt l => Ok (map (fun z => negb (z =? 0)%Z) l)
  | _ => Err EType
  end.

Definition annot_otype (a : option annot) : option dtype :=
  match a with
  | Some AFloat => Some TFloat
  | Some AInt => Some TInt
  | Some ABool => Some TBool
  | _ => None
  end.

Fixpoint index_of_name (x : string) (l : list string) (i : nat) : option nat :=
  match l with
  | [] => None
  | y :: r => if String.eqb x y then Some i else index_of_name x r (Datatypes.S i)
  end.

Section Sem.
  Variable ft : ftable.
  Variable P : params.
  Variable rounding : bool.
  Variable nrows : nat.                  (* number of rows of the table *)

  (* the argument list of the rule for one row: parameters partialled in by name *)
  Definition row_args (f : fundef) (names : list string) (row : list val) : res (list val) :=
    mapM_res (fun a =>
      if is_params_name (fst a) then of_option EKey (pget (group_of (fst a)) P)
      else match index_of_name (fst a) names 0 with
           | Some i => of_option EUnbound (nth_error row i)
           | None => Err EUnbound
           end) (f_args f).

  Definition round_column (g name : string) (c : column) : res column :=
    do vs <- mapM_res (apply_rounding P g name) (col_vals c);
    pack TFloat vs.

  Definition get2 (names : list string) (cols : list column) (x : string) : res column :=
    match index_of_name x names 0 with
    | Some i => of_option EUnbound (nth_error cols i)
    | None => Err EUnbound
    end.

  Definition persons_of (names : list string) (cols : list column) (n : nat) : res (list Groupings.person) :=
    let geti := fun x dflt => match get2 names cols x with Ok c => col_ints c | Err _ => Ok (repeat dflt n) end in
    let getb := fun x => match get2 names cols x with Ok c => col_bools c | Err _ => Ok (repeat false n) end in
    do pid <- geti "p_id" 0%Z; do hh <- geti "hh_id" 0%Z; do al <- geti "alter" 0%Z;
    do ei <- geti "p_id_einstandspartner" (-1)%Z; do eh <- geti "p_id_ehepartner" (-1)%Z;
    do e1 <- geti "p_id_elternteil_1" (-1)%Z; do e2 <- geti "p_id_elternteil_2" (-1)%Z;
    do eb <- getb "eigenbedarf_gedeckt"; do gv <- getb "gemeinsam_veranlagt";
    Ok (map (fun i => {| pid := nth i pid 0%Z; hh := nth i hh 0%Z; alter := nth i al 0%Z; einst := nth i ei (-1)%Z;
                         ehep := nth i eh (-1)%Z; elt1 := nth i e1 (-1)%Z; elt2 := nth i e2 (-1)%Z;
                         eigenb := nth i eb false; gemv := nth i gv false |}) (seq 0 n)).

  Definition sem (n : dnode) (cols : list column) : res column :=
    let names := d_args n in
    match d_kind n with
    | KRule py skipvec rd =>
        if skipvec then Err ENotImpl else
        do f <- of_option EUnbound (flookup py ft);
        (* a rule without column arguments is evaluated once (0-d result) and broadcast to all rows *)
        do c <- (match cols with
                 | [] => do args <- row_args f names []; do v <- call_rule ft f args;
                         pack (match annot_otype (f_ret f) with Some t => t | None => type_of v end) (repeat v nrows)
                 | _ => vectorize_gen (annot_otype (f_ret f))
                          (fun row => do args <- row_args f names row; call_rule ft f args) nrows cols
                 end);
        match rd with
        | Some g => if rounding then round_column g (d_name n) c else Ok c
        | None => Ok c
        end
    | KGroupAgg aggr =>
        match cols with
        | [g] => do ids <- col_ints g; if String.eqb aggr "count" then grouped_count ids else Err EType
        | [c; g] =>
            do ids <- col_ints g;
            if String.eqb aggr "sum" then grouped_sum c ids
            else if String.eqb aggr "mean" then grouped_mean c ids
            else if String.eqb aggr "max" then grouped_max c ids
            else if String.eqb aggr "min" then grouped_min c ids
            else if String.eqb aggr "any" then grouped_any c ids
            else if String.eqb aggr "all" then grouped_all c ids
            else Err ENotImpl
        | _ => Err EType
        end
    | KPidAgg aggr =>
        match cols with
        | [c; ptr; pid] => if String.eqb aggr "sum" then do p <- col_ints ptr; do i <- col_ints pid; sum_by_p_id c p i else Err ENotImpl
        | _ => Err EType
        end
    | KTimeConv num den =>
        match cols with
        | [c] => do vs <- mapM_res (fun v => arith Mul v (VFloat (XFin (qfrac num den)))) (col_vals c); pack TFloat vs
        | _ => Err EType
        end
    | KGrouping =>
        do ps <- persons_of names cols nrows;
        if String.eqb (d_name n) "eg_id" then Ok (CInt (eg_id ps))
        else if String.eqb (d_name n) "ehe_id" then Ok (CInt (ehe_id ps))
        else if String.eqb (d_name n) "fg_id" then Ok (CInt (fg_id ps))
        else if String.eqb (d_name n) "sn_id" then do l <- sn_id ps; Ok (CInt l)
        else if String.eqb (d_name n) "bg_id" then
          do fg <- get2 names cols "fg_id"; do fgl <- col_ints fg; Ok (CInt (bg_id fgl ps))
        else if String.eqb (d_name n) "wthh_id" then
          do h <- get2 names cols "hh_id"; do hl <- col_ints h;
          do a <- get2 names cols "wohngeld_vorrang_bg"; do al <- col_bools a;
          do b <- get2 names cols "wohngeld_kinderzuschl_vorrang_bg"; do bl <- col_bools b;
          Ok (CInt (wthh_id hl al bl))
        else Err ENotImpl
    | KJoin fk pk tgt dflt cmp =>
        do cf <- get2 names cols fk; do fkl <- col_ints cf;
        do cp <- get2 names cols pk; do pkl <- col_ints cp;
        do ct <- get2 names cols tgt;
        do jl <- join_list fkl pkl (col_vals ct) dflt;
        match cmp with
        | None => pack (col_dtype ct) jl
        | Some (ng, other) =>
            do co <- get2 names cols other;
            do bs <- mapM_res (fun ab => match compare Eq (fst ab) (snd ab) with
                                         | Ok (VBool b) => Ok (VBool (xorb ng b))
                                         | Ok _ => Err EType
                                         | Err e => Err e end) (combine jl (col_vals co));
            pack TBool bs
        end
    end.

  (* the nodes the targets need, minus columns supplied as data, evaluated in topological order *)
  Definition run_table (S : list dnode) (targets : list string) (data : list (string * column)) : res (list (string * column)) :=
    let live := filter (fun n => negb (existsb (String.eqb (d_name n)) (map fst data))) S in
    let sub := subgraph live targets in
    run column (to_sys column sem sub) data.
  (* first node that fails, for diagnostics *)
  Fixpoint first_failure (S : list dnode) (e : list (string * column)) : option (string * err) :=
    match S with
    | [] => None
    | n :: r =>
        match step column e (to_node column sem n) with
        | Ok e' => first_failure r e'
        | Err er => Some (d_name n, er)
        end
    end.

  Definition run_table_diag (S : list dnode) (targets : list string) (data : list (string * column)) : option (string * err) :=
    let live := filter (fun n => negb (existsb (String.eqb (d_name n)) (map fst data))) S in
    first_failure (subgraph live targets) data.
End Sem.

(* ---------------------------------------------------------------- *)
(* the abstract engine theorems, instantiated for the concrete engine *)

Section Concrete.
  Variable ft : ftable.
  Variable P : params.
  Variable rounding : bool.
  Variable nrows : nat.

  Definition sys (Pm : params) (S : list dnode) : list (node column) := to_sys column (sem ft Pm rounding nrows) S.

  (* C04: a target common to two argument-closed target sets has the same column under both *)
  Theorem table_target_independent (S : list dnode) K1 K2 data t1 t2 t x :
    closed_chk K1 S = true -> closed_chk K2 S = true -> smem x K1 = true -> smem x K2 = true ->
    run column (prune column (fun y => smem y K1) (sys P S)) data = Ok t1 ->
    run column (prune column (fun y => smem y K2) (sys P S)) data = Ok t2 ->
    run column (sys P S) data = Ok t -> tget column x t1 = tget column x t2.
  Proof.
    intros C1 C2 X1 X2 R1 R2 Rt.
    apply (target_independent column (fun y => smem y K1) (fun y => smem y K2) (sys P S) data t1 t2 x
             (closed_chk_sound column _ K1 S C1) (closed_chk_sound column _ K2 S C2) X1 X2 R1 R2 t Rt).
  Qed.

  (* C05: supplying the computed column of node x as data changes no column *)
  Theorem table_override (S : list dnode) datacols x c data data' t :
    topo_ok datacols [] S = true -> plus column x c data data' -> tget column x data = None ->
    run column (sys P S) data = Ok t -> tget column x t = Some c ->
    exists t', run column (without column x (sys P S)) data' = Ok t' /\ forall y, tget column y t' = tget column y t.
  Proof.
    intros Ht Hp Hn Hr Hx. apply (run_override column x c (sys P S) data data' t); try assumption.
    unfold sys. rewrite names_to_sys. exact (proj1 (topo_ok_nodup datacols S [] Ht)).
  Qed.

End Concrete.
