(* ChkC18.v — reflective checkers for property C18 over a loaded parameter
   environment (the value of PolicyEnv.params_at on the regenerated YAML):
   every piecewise schedule in force is well formed, hence (PiecewiseProofs)
   evaluated exactly at every finite point; the income-tax tariff and the
   solidarity surcharge have their statutory shape. *)
From Coq Require Import ZArith QArith Qcanon Bool String List Lia.
From GettsimModel Require Import Num Val Ast Piecewise Eval Corr PolicyEnv NumTac PiecewiseProofs.
Import ListNotations.
Open Scope string_scope.

Definition is_sched_like (v : val) : bool :=
  match v with VDict d => shas "thresholds" d | _ => false end.

Definition sched_of_val (v : val) : option sched :=
  match v with
  | VDict d =>
      match sget "thresholds" d, sget "rates" d, sget "intercepts_at_lower_thresholds" d with
      | Some t, Some r, Some i =>
          match mk_sched t r i with Ok s => Some s | Err _ => None end
      | _, _, _ => None
      end
  | _ => None
  end.

Definition sched_wf (v : val) : bool :=
  match sched_of_val v with
  | Some s => run_chk s (fun _ _ => true)
  | None => false
  end.

Definition group_scheds_ok (gv : val) : bool :=
  match gv with
  | VDict gd => forallb (fun kv => if is_sched_like (snd kv) then sched_wf (snd kv) else true) gd
  | _ => false
  end.

Definition all_sched_ok (p : params) : bool :=
  forallb (fun gv => group_scheds_ok (snd gv)) p.

(* the schedules that fail, for the diagnostic *)
Definition sched_offenders (p : params) : list (string * pkey) :=
  flat_map (fun gv =>
    match snd gv with
    | VDict gd => flat_map (fun kv => if is_sched_like (snd kv) && negb (sched_wf (snd kv))
                                      then [(fst gv, fst kv)] else []) gd
    | _ => [(fst gv, KStr "<group is not a dict>")]
    end) p.

Definition count_scheds (p : params) : nat :=
  length (flat_map (fun gv =>
    match snd gv with
    | VDict gd => filter (fun kv => is_sched_like (snd kv)) gd
    | _ => []
    end) p).

(* what a well-formed schedule means: the model of piecewise_polynomial returns
   the mathematical value of the schedule at EVERY finite point *)
Definition sched_exact (v : val) : Prop :=
  exists s c0 ps,
    sched_of_val v = Some s /\ to_pieces s = Some (c0, ps) /\ pieces_sorted ps = true /\
    forall x : Qc, pp_impl s (XFin x) None = Ok (XFin (ev0 c0 ps x)).

Lemma sched_wf_exact v : sched_wf v = true -> sched_exact v.
Proof.
  unfold sched_wf, sched_exact. intro H.
  destruct (sched_of_val v) as [s|] eqn:Es; [|discriminate].
  unfold run_chk in H.
  destruct (to_pieces s) as [[c0 ps]|] eqn:Et; [|discriminate].
  rewrite andb_true_r in H.
  exists s, c0, ps. repeat split; auto.
  intro x. apply pp_impl_eq_spec; assumption.
Qed.

Theorem all_sched_ok_sound (p : params) :
  all_sched_ok p = true ->
  forall g gd k v, In (g, VDict gd) p -> In (k, v) gd -> is_sched_like v = true ->
  sched_exact v.
Proof.
  unfold all_sched_ok. intros H g gd k v Hg Hk Hl.
  rewrite forallb_forall in H. specialize (H _ Hg). cbn [snd group_scheds_ok] in H.
  rewrite forallb_forall in H. specialize (H _ Hk). cbn [snd] in H.
  rewrite Hl in H. apply sched_wf_exact. exact H.
Qed.

(* ---------------------------------------------------------------- *)
(* named schedules                                                    *)

Definition sched_at (p : params) (g k : string) : option sched :=
  match pget g p with
  | Some (VDict gd) => match sget k gd with Some v => sched_of_val v | None => None end
  | _ => None
  end.

(* slope of the last piece (the top / nominal rate) *)
Definition last_rate (ps : list qpiece) : Qc :=
  match rev ps with p :: _ => p_r1 p | [] => 0 end.

Definition max_rate (ps : list qpiece) : Qc :=
  fold_right (fun p m =>
     let a := p_r1 p in
     let m1 := if Qcleb m a then a else m in m1) 0 ps.

(* income tax: zero up to the basic allowance, continuous, non-decreasing, convex,
   marginal rate never above the top rate *)
Definition tarif_chk (c0 : Qc) (ps : list qpiece) : bool :=
  zero_below_chk c0 ps && lipschitz_chk (last_rate ps) c0 ps && convex_chk c0 ps.

(* solidarity surcharge: continuous, non-decreasing, <= nominal rate * tax + 1 cent *)
Definition soli_chk (c0 : Qc) (ps : list qpiece) : bool :=
  lipschitz_chk (max_rate ps) c0 ps && le_linear_chk (last_rate ps) (qfrac 1 100) c0 ps.

Definition tarif_shape (s : sched) : Prop :=
  exists c0 ps, to_pieces s = Some (c0, ps) /\ pieces_sorted ps = true /\
    (forall x, (match ps with [] => True | p :: _ => x <= p_t p end) -> ev0 c0 ps x = 0)%Qc /\
    (forall x y, x <= y -> 0 <= ev0 c0 ps y - ev0 c0 ps x
                           /\ ev0 c0 ps y - ev0 c0 ps x <= last_rate ps * (y - x))%Qc /\
    (forall x y z, x < y -> y < z ->
       (ev0 c0 ps y - ev0 c0 ps x) * (z - y) <= (ev0 c0 ps z - ev0 c0 ps y) * (y - x))%Qc.

Definition soli_shape (s : sched) : Prop :=
  exists c0 ps, to_pieces s = Some (c0, ps) /\ pieces_sorted ps = true /\
    (forall x y, x <= y -> 0 <= ev0 c0 ps y - ev0 c0 ps x
                           /\ ev0 c0 ps y - ev0 c0 ps x <= max_rate ps * (y - x))%Qc /\
    (forall x, 0 <= x -> ev0 c0 ps x <= last_rate ps * x + qfrac 1 100)%Qc.

Lemma run_chk_inv s chk : run_chk s chk = true ->
  exists c0 ps, to_pieces s = Some (c0, ps) /\ pieces_sorted ps = true /\ chk c0 ps = true.
Proof.
  unfold run_chk. destruct (to_pieces s) as [[c0 ps]|]; [|discriminate].
  intro H. apply andb_true_iff in H. destruct H. exists c0, ps. auto.
Qed.

Theorem tarif_chk_sound s : run_chk s tarif_chk = true -> tarif_shape s.
Proof.
  intro H. destruct (run_chk_inv _ _ H) as (c0 & ps & Ht & Hs & Hc).
  unfold tarif_chk in Hc. repeat rewrite andb_true_iff in Hc. destruct Hc as [[Hz Hl] Hx].
  exists c0, ps. repeat split; auto.
  - apply zero_below_sound; assumption.
  - apply (lipschitz_sound _ _ _ Hl Hs x y H0).
  - apply (lipschitz_sound _ _ _ Hl Hs x y H0).
  - apply convex_sound; assumption.
Qed.

Theorem soli_chk_sound s : run_chk s soli_chk = true -> soli_shape s.
Proof.
  intro H. destruct (run_chk_inv _ _ H) as (c0 & ps & Ht & Hs & Hc).
  unfold soli_chk in Hc. rewrite andb_true_iff in Hc. destruct Hc as [Hl Hx].
  exists c0, ps. repeat split; auto.
  - apply (lipschitz_sound _ _ _ Hl Hs x y H0).
  - apply (lipschitz_sound _ _ _ Hl Hs x y H0).
  - apply le_linear_sound; assumption.
Qed.

(* ---------------------------------------------------------------- *)
(* per-date obligations; PA abstracts PolicyEnv.params_at on the regenerated
   YAML (kept abstract so that no proof ever unfolds the fuelled loader) *)

Section AtDate.
  Variable PA : Z -> res params.

  Definition c18_wf_at (d : Z) : bool :=
    match PA d with Ok p => all_sched_ok p | Err _ => false end.

  Definition c18_named_at (g k : string) (chk : Qc -> list qpiece -> bool) (d : Z) : bool :=
    match PA d with
    | Ok p => match sched_at p g k with
              | Some s => run_chk s chk
              | None => true          (* the parameter does not exist on that day *)
              end
    | Err _ => false
    end.

  Theorem c18_wf_at_sound d : c18_wf_at d = true ->
    exists p, PA d = Ok p /\
      forall g gd k v, In (g, VDict gd) p -> In (k, v) gd -> is_sched_like v = true ->
        sched_exact v.
  Proof.
    unfold c18_wf_at. destruct (PA d) as [p|]; [|discriminate].
    intro H. exists p. split; [reflexivity|]. apply all_sched_ok_sound. exact H.
  Qed.

  Theorem c18_tarif_at_sound g k d : c18_named_at g k tarif_chk d = true ->
    exists p, PA d = Ok p /\ forall s, sched_at p g k = Some s -> tarif_shape s.
  Proof.
    unfold c18_named_at. destruct (PA d) as [p|]; [|discriminate].
    intro H. exists p. split; [reflexivity|]. intros s Hs. rewrite Hs in H.
    apply tarif_chk_sound. exact H.
  Qed.

  Theorem c18_soli_at_sound g k d : c18_named_at g k soli_chk d = true ->
    exists p, PA d = Ok p /\ forall s, sched_at p g k = Some s -> soli_shape s.
  Proof.
    unfold c18_named_at. destruct (PA d) as [p|]; [|discriminate].
    intro H. exists p. split; [reflexivity|]. intros s Hs. rewrite Hs in H.
    apply soli_chk_sound. exact H.
  Qed.
End AtDate.

(* ---------------------------------------------------------------- *)
(* diagnostics (strings read by the harness; not part of any theorem)  *)

Definition c18_wf_diag (PA : Z -> res params) (ds : list Z) : string :=
  String.concat ";" (flat_map (fun d =>
    match PA d with
    | Ok p => map (fun gk => show_z d ++ ":" ++ fst gk ++ ":" ++ show_key (snd gk)) (sched_offenders p)
    | Err e => [show_z d ++ ":<params_at>:" ++ show_err e]
    end) ds).

Definition c18_named_diag (PA : Z -> res params) (g k : string)
           (chk : Qc -> list qpiece -> bool) (ds : list Z) : string :=
  String.concat ";" (flat_map (fun d =>
    if c18_named_at PA g k chk d then [] else [show_z d ++ ":" ++ g ++ ":'" ++ k ++ "'"]) ds).

(* on how many of the dates the named schedule exists (non-vacuity) *)
Definition c18_named_present (PA : Z -> res params) (g k : string) (ds : list Z) : nat :=
  length (filter (fun d => match PA d with
                           | Ok p => match sched_at p g k with Some _ => true | None => false end
                           | Err _ => false end) ds).

Lemma forallb_dates (f : Z -> bool) (ds : list Z) :
  forallb f ds = true -> forall d, In d ds -> f d = true.
Proof. intro H. apply forallb_forall. exact H. Qed.
