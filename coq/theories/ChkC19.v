(* ChkC19.v — tying the closed forms of Contrib.v to the regenerated system: for a date, the
   parameters (rate, ceiling, thresholds, factor) are read off the model environment and the
   model's scalar evaluation of the real rule chain (Scalar.seval over the regenerated ASTs and
   the real loader's graph); the checker verifies the parameter conditions and that the chain
   equals the closed form on a stated grid of wages (every statutory boundary, +-1 cent, and a
   lattice in between). *)
From Coq Require Import ZArith QArith Qcanon Bool String List Lia.
From GettsimModel Require Import Num NumTac Val Ast Eval Corr PolicyEnv Dag Scalar Contrib.
Import ListNotations.
Open Scope string_scope.

Definition as_q (r : res val) : option Qc :=
  match r with
  | Ok (VFloat (XFin q)) => Some q
  | Ok (VInt z) => Some (qz z)
  | _ => None
  end.

Section At.
  Variable S : list dnode.
  Variable ft : ftable.
  Variable P : params.
  Variable ost : bool.

  Definition inputs (w : Qc) : list (string * val) :=
    [("bruttolohn_m", VFloat (XFin w)); ("wohnort_ost", VBool ost)].

  Definition node_q (name : string) : option Qc :=
    as_q (seval S ft P true (inputs 0%Qc) seval_fuel name).

  Definition param_q (g : string) (path : list pkey) : option Qc :=
    match pget g P with Some gv => as_q (path_get gv path) | None => None end.

  Definition chain (target : string) (w : Qc) : option Qc :=
    as_q (seval S ft P true (inputs w) seval_fuel target).

  (* r, C, F, G, U of one insurance branch *)
  Definition branch_params (rate_key ceiling_node : string) : option (Qc * Qc * Qc * Qc * Qc) :=
    match param_q "sozialv_beitr" [KStr "beitr_satz"; KStr rate_key],
          node_q ceiling_node, node_q "midijob_faktor_f", node_q "minijob_grenze",
          param_q "sozialv_beitr" [KStr "geringfügige_eink_grenzen_m"; KStr "midijob"] with
    | Some r, Some C, Some F, Some G, Some U => Some (r, C, F, G, U)
    | _, _, _, _, _ => None
    end.

  Definition grid (C G U : Qc) : list Qc :=
    let c := qfrac 1 100 in
    ([0; G - c; G; G + c; (G + U) * qfrac 1 2; U - c; U; U + c; C - 1; C; C + c; C + C]
     ++ map (fun k => qfrac (Z.of_nat k * 137) 1) (seq 1 70))%list.

  Definition agrees (closed : Qc -> Qc) (target : string) (ws : list Qc) : bool :=
    forallb (fun w => match chain target w with Some y => Qceqb y (closed w) | None => false end) ws.

  Definition c19_ok (new_regime : bool) (rate_key ceiling_node target : string) : bool :=
    match branch_params rate_key ceiling_node with
    | Some (r, C, F, G, U) =>
        cond_b r C F G U &&
        agrees (if new_regime then employee_new r C F G U else employee_old r C F G U) target (grid C G U)
    | None => false
    end.

  Definition c19_diag (new_regime : bool) (rate_key ceiling_node target : string) : string :=
    match branch_params rate_key ceiling_node with
    | Some (r, C, F, G, U) =>
        (if cond_b r C F G U then "" else "parameter conditions fail: r=" ++ show_q r ++ " C=" ++ show_q C ++ " F=" ++ show_q F ++ " G=" ++ show_q G ++ " U=" ++ show_q U ++ " ")
        ++ String.concat "," (map (fun w => "w=" ++ show_q w ++ ": chain " ++ match chain target w with Some y => show_q y | None => "error" end
                                           ++ " closed " ++ show_q ((if new_regime then employee_new r C F G U else employee_old r C F G U) w))
                                  (filter (fun w => negb (match chain target w with Some y => Qceqb y ((if new_regime then employee_new r C F G U else employee_old r C F G U) w) | None => false end))
                                          (grid C G U)))
    | None => "parameters of the branch cannot be read off the environment"
    end.
End At.
