(* ChkC16.v — property C16 on the regenerated system: which nodes of the dependency graph are
   PROVED finite and non-negative by the verified analysis of Sign.v (rules), together with the
   evident closure rules for derived nodes (sums / counts / max / min of such columns, statutory
   rounding with non-negative offset, unit conversion with a positive factor); and the caps that
   follow from the closed forms of the final benefit rules and of the contribution schedule. *)
From Coq Require Import ZArith QArith Qcanon Bool String List Lia.
From GettsimModel Require Import Num NumTac Val Ast Eval Corr PolicyEnv Rounding Dag TimeConv ChkC08 Sign Priority Contrib.
Import ListNotations.
Open Scope string_scope.

Definition rounding_keeps_nonneg (P : params) (g name : string) : bool :=
  match pget g P with
  | Some gv =>
      match path_get gv [KStr "rounding"; KStr name] with
      | Ok (VDict spec) =>
          match sget "base" spec with
          | Some b => fnn_b b && negb (match b with VInt 0%Z => true | _ => false end)
                      && match sget "to_add_after_rounding" spec with Some o => fnn_b o | None => true end
          | None => false
          end
      | _ => false
      end
  | None => false
  end.

Fixpoint nn_nodes (ft : ftable) (P : params) (inputs_nn : list string) (S : list dnode) (acc : list string) : list string :=
  match S with
  | [] => acc
  | n :: r =>
      let known := fun a => Sign.smem a acc || Sign.smem a inputs_nn in
      let ok :=
        match d_kind n with
        | KRule py _ rd =>
            match flookup py ft with
            | Some f =>
                let Pb := flat_map (fun a => if is_params_name (fst a)
                                             then match pget (group_of (fst a)) P with Some v => [(fst a, v)] | None => [] end
                                             else []) (f_args f) in
                let G := filter known (map fst (filter (fun a => negb (is_params_name (fst a))) (f_args f))) in
                rule_nn Pb G f
                && match rd with Some g => rounding_keeps_nonneg P g (d_name n) | None => true end
            | None => false
            end
        | KGroupAgg aggr =>
            match d_args n with
            | [src; _] => known src
            | [_] => String.eqb aggr "count"
            | _ => false
            end
        | KPidAgg aggr => String.eqb aggr "sum" && match d_args n with src :: _ => known src | [] => false end
        | KTimeConv num _ => (0 <=? num)%Z && match d_args n with [a] => known a | _ => false end
        | KGrouping => true
        | KJoin _ _ tgt dflt cmp => match cmp with Some _ => true | None => known tgt && fnn_b dflt end
        end in
      if ok then nn_nodes ft P inputs_nn r (d_name n :: acc) else nn_nodes ft P inputs_nn r acc
  end.

(* documented inputs are finite and non-negative in a valid population, except rental income *)
Definition inputs_nonneg (data : list string) : list string :=
  filter (fun c => negb (String.eqb c "eink_vermietung_m")) data.

Definition proved_targets (ft : ftable) (P : params) (data targets : list string) (S : list dnode) : list string :=
  let K := nn_nodes ft P (inputs_nonneg data) (subgraph S targets) [] in
  filter (fun t => Sign.smem t K) targets.

Definition c16_ok (expected : list string) (ft : ftable) (PA : Z -> res params) (data targets : list string) (od : Z * list dnode) : bool :=
  match PA (fst od) with
  | Ok p => let pr := proved_targets ft p data targets (snd od) in forallb (fun t => Sign.smem t pr) expected
  | Err _ => false
  end.

Definition c16_diag (expected : list string) (ft : ftable) (PA : Z -> res params) (data targets : list string) (od : Z * list dnode) : string :=
  match PA (fst od) with
  | Ok p => let pr := proved_targets ft p data targets (snd od) in
            String.concat ";" (map (fun t => show_z (fst od) ++ ":" ++ t) (filter (fun t => negb (Sign.smem t pr)) expected))
  | Err e => show_z (fst od) ++ ":<env>"
  end.

(* ---- caps ---- *)
Open Scope Qc_scope.

(* a benefit paid after the priority checks never exceeds the entitlement computed before them *)
Theorem alg2_capped x f1 k f2 r : 0 <= x -> match alg2_spec (XFin x) f1 k f2 r with XFin y => 0 <= y /\ y <= x | _ => False end.
Proof. intro H. unfold alg2_spec. destruct (f1 || k || f2 || r); cbn; unfold xz; try replace (qz 0) with 0%Qc by (apply Qc_is_canon; reflexivity); split; qlra. Qed.

Theorem wohngeld_capped y r a1 a2 : 0 <= y -> match wohngeld_spec (XFin y) r a1 a2 with XFin z => 0 <= z /\ z <= y | _ => False end.
Proof. intro H. unfold wohngeld_spec. destruct (negb r && (a1 || a2)); cbn; unfold xz; try replace (qz 0) with 0%Qc by (apply Qc_is_canon; reflexivity); split; qlra. Qed.

Theorem kiz_capped z k f2 nr : 0 <= z -> match kiz_spec (XFin z) k f2 nr with XFin y => 0 <= y /\ y <= z | _ => False end.
Proof. intro H. unfold kiz_spec. destruct ((negb k && negb f2) || (0 <? nr)%Z); cbn; unfold xz; try replace (qz 0) with 0%Qc by (apply Qc_is_canon; reflexivity); split; qlra. Qed.

(* contributions never exceed rate times assessment ceiling *)
Theorem employee_new_capped r C F G U w : cond r C F G U -> 0 <= w -> employee_new r C F G U w <= r * C.
Proof.
  intros Hc Hw. pose proof Hc as (Hr & HG & HGU & HUC & _ & _).
  set (big := w + C + U + 1).
  assert (Hb : w <= big) by (unfold big; qlra).
  pose proof (employee_new_monotone r C F G U w big Hc Hw Hb) as M.
  rewrite (employee_new_flat_above_ceiling r C F G U big Hc) in M; [exact M | | |]; unfold big; qlra.
Qed.

(* ================================================================ *)
(* node-level analysis with the verified abstract interpreter        *)
(* (Absint.rule_aval_sound): every node of the graph gets an interval *)
(* (finite, with optional rational bounds) or ATop (not proved).      *)

Close Scope Qc_scope.
From GettsimModel Require Import Itv Absint Column Table.

(* keep only the interval view of an abstract value *)
Definition norm (a : aval) : aval := of_oitv (itv_of a).

Definition has_prefix (p s : string) : bool := String.eqb (substring 0 (String.length p) s) p.

(* documented inputs in a valid population: finite; non-negative except rental income and the
   person pointers (-1 = nobody) *)
Definition input_aval (data : list string) (c : string) : aval :=
  if negb (Sign.smem c data) then ATop
  else if String.eqb c "eink_vermietung_m" then AFin
  else if has_prefix "p_id_" c then AItv {| lo := Some (qz (-1)); hi := None |}
  else ANN.

Definition rounding_keeps_fin (P : params) (g name : string) : bool :=
  match pget g P with
  | Some gv =>
      match path_get gv [KStr "rounding"; KStr name] with
      | Ok (VDict spec) =>
          match sget "base" spec with
          | Some b => fin_bv b && negb (match b with VInt 0%Z => true | _ => false end)
                      && match sget "to_add_after_rounding" spec with Some o => fin_bv o | None => true end
          | None => false
          end
      | _ => false
      end
  | None => false
  end.

Definition round_cls (P : params) (g name : string) (a : aval) : aval :=
  match itv_of a with
  | Some i => if nonneg i && rounding_keeps_nonneg P g name then ANN
              else if rounding_keeps_fin P g name then AFin else ATop
  | None => ATop
  end.

Definition a_known (a : aval) : bool := match a with ATop => false | _ => true end.

(* a joined column is cast to the dtype of the target column, whatever it is *)
Definition join_cls (a : aval) : aval :=
  match itv_of a with
  | Some i => if nonneg i then AItv {| lo := Some 0%Qc; hi := omap (fun h => qmax h 1%Qc) (hi i) |} else AFin
  | None => ATop
  end.

(* numpy's cast of the rule's value to the declared dtype *)
Definition cast_cls (t : dtype) (a : aval) : aval :=
  match t with
  | TFloat => norm a
  | TBool => ABool
  | TInt => match itv_of a with
            | Some i => if nonneg i then AItv {| lo := omap (fun l => qz (qfloor l)) (lo i); hi := hi i |} else AFin
            | None => ATop end
  | _ => ATop
  end.

Definition class_of (data : list string) (acc : list (string * aval)) (a : string) : aval :=
  match alookup a acc with Some x => x | None => input_aval data a end.

Definition node_aval (ft : ftable) (P : params) (data : list string) (acc : list (string * aval)) (n : dnode) : aval :=
  let get := class_of data acc in
  if Sign.smem (d_name n) data then input_aval data (d_name n) else    (* a supplied column replaces the node *)
  match d_kind n with
  | KRule py _ rd =>
      match flookup py ft with
      | Some f =>
          match annot_otype (f_ret f) with
          | Some t =>
              let l := map (fun a => if is_params_name (fst a)
                                     then match pget (group_of (fst a)) P with Some v => APar v | None => ATop end
                                     else get (fst a)) (f_args f) in
              let r := cast_cls t (rule_aval ft f l) in
              match rd with Some g => round_cls P g (d_name n) r | None => r end
          | None => ATop
          end
      | None => ATop
      end
  | KGroupAgg aggr =>
      match d_args n with
      | [src; _] => if String.eqb aggr "any" || String.eqb aggr "all" then (if a_known (get src) then ABool else ATop)
                    else if String.eqb aggr "max" || String.eqb aggr "min" then norm (get src)
                    else if String.eqb aggr "sum"
                    then match itv_of (get src) with
                         | Some i => if nonneg i then AItv {| lo := lo i; hi := None |} else AFin
                         | None => ATop end
                    else if String.eqb aggr "mean"
                    then match itv_of (get src) with Some i => if nonneg i then ANN else AFin | None => ATop end
                    else ATop
      | [ids] => if String.eqb aggr "count" && a_known (get ids) then AItv {| lo := Some (qz 1); hi := None |} else ATop
      | _ => ATop
      end
  | KPidAgg aggr =>
      if String.eqb aggr "sum"
      then match d_args n with
           | [src; _; pid] => if a_known (get pid)
                              then match itv_of (get src) with Some i => if nonneg i then ANN else AFin | None => ATop end
                              else ATop
           | _ => ATop end
      else ATop
  | KTimeConv num den =>
      match d_args n with
      | [a] => match itv_of (get a) with Some i => AItv (iscale (qfrac num den) i) | None => ATop end
      | _ => ATop
      end
  | KGrouping =>
      (* id columns are ints, hence finite; the class is claimed where the length of the result is known *)
      if String.eqb (d_name n) "eg_id" || String.eqb (d_name n) "ehe_id" || String.eqb (d_name n) "fg_id" || String.eqb (d_name n) "sn_id" then AFin
      else if String.eqb (d_name n) "bg_id" then (if a_known (get "fg_id") then AFin else ATop)
      else if String.eqb (d_name n) "wthh_id"
      then (if a_known (get "hh_id") && a_known (get "wohngeld_vorrang_bg") && a_known (get "wohngeld_kinderzuschl_vorrang_bg") then AFin else ATop)
      else ATop
  | KJoin fk _ tgt dflt cmp =>
      if a_known (get fk)
      then match cmp with
           | Some (_, other) => if a_known (get other) then ABool else ATop
           | None => join_cls (join (get tgt) (APar dflt))
           end
      else ATop
  end.

Fixpoint a_nodes (ft : ftable) (P : params) (data : list string) (S : list dnode) (acc : list (string * aval)) : list (string * aval) :=
  match S with
  | [] => acc
  | n :: r => a_nodes ft P data r ((d_name n, node_aval ft P data acc n) :: acc)
  end.

Definition nodes_with (f : aval -> bool) (l : list (string * aval)) : list string :=
  map fst (filter (fun xa => f (snd xa)) l).

(* the upper bound proved for node n is at most b *)
Definition upper_le (K : list (string * aval)) (n : string) (b : Qc) : bool :=
  match alookup n K with
  | Some a => match itv_of a with Some i => match hi i with Some h => Qcleb h b | None => false end | None => false end
  | None => false
  end.

Definition show_ob (o : option Qc) : string := match o with Some q => show_q q | None => "*" end.
Definition show_aval (a : aval) : string :=
  match itv_of a with Some i => "[" ++ show_ob (lo i) ++ "," ++ show_ob (hi i) ++ "]" | None => "T" end.

(* ---------------------------------------------------------------- *)
(* value-level lemmas behind the closure rules of [node_aval]          *)

(* numpy's cast to the declared dtype keeps the interval of a finite number (float), gives a
   non-negative int for a non-negative number (int: truncation), a bool otherwise *)
Lemma cast_float_keeps a v w : arel (norm a) v -> cast TFloat v = Ok w -> arel (norm a) w.
Proof.
  unfold norm. destruct (itv_of a) as [i|]; [|intros; exact I]. cbn [of_oitv].
  intros (q & Eq & Hq) H. exists q. split; [|exact Hq].
  destruct v as [z|[|u| |]|b| | | | |]; try discriminate; cbn in Eq; injection Eq as <-; cbn in H; injection H as <-; reflexivity.
Qed.

Lemma cast_bool_is_bool v w : cast TBool v = Ok w -> arel ABool w.
Proof. cbn. destruct v; intro H; injection H as <-; apply abool_rel. Qed.

Lemma cast_int_nonneg v w : arel ANN v -> cast TInt v = Ok w -> arel ANN w.
Proof.
  intros (q & Eq & Hq) H. destruct Hq as [Hq _]. cbn in Hq.
  destruct v as [z|[|u| |]|b| | | | |]; try discriminate; cbn in Eq; injection Eq as <-; cbn in H; injection H as <-.
  - exists (qz z). split; [reflexivity | split; [exact Hq | exact I]].
  - exists (qz (qtrunc u)). split; [reflexivity|]. split; [cbn; apply qz_nonneg; apply (proj1 (qtrunc_nonneg u Hq)) | exact I].
  - exists (qz (if b then 1 else 0)). split; [reflexivity | split; [exact Hq | exact I]].
Qed.

(* statutory rounding with base > 0 and a non-negative offset keeps a finite non-negative value so *)
Lemma round_val_nonneg base dir off v w :
  (0 < base)%Qc -> (0 <= off)%Qc -> arel ANN v -> Rounding.round_val base dir off v = Ok w -> arel ANN w.
Proof.
  intros Hb Ho (q & Eq & Hq) H. destruct Hq as [Hq _]. cbn in Hq. unfold Rounding.round_val in H.
  assert (N : exists n, as_num v = Some n /\ num_x n = XFin q).
  { destruct v as [z|[|u| |]|b| | | | |]; try discriminate; cbn in Eq; injection Eq as <-; eexists; split; reflexivity. }
  destruct N as (n & En & Xn). rewrite En, Xn in H. cbn in H. injection H as <-.
  exists (Rounding.round_to base dir off q). split; [reflexivity|]. split; [cbn; apply Rounding.round_nonneg; assumption | exact I].
Qed.

Lemma round_val_finite base dir off v w : a_fin (norm (APar v)) = true -> Rounding.round_val base dir off v = Ok w -> finv w.
Proof.
  unfold norm, a_fin. cbn [itv_of]. destruct (fq v) as [q|] eqn:Eq; [|discriminate]. intros _ H.
  unfold Rounding.round_val in H.
  assert (N : exists n, as_num v = Some n /\ num_x n = XFin q).
  { destruct v as [z|[|u| |]|b| | | | |]; try discriminate; cbn in Eq; injection Eq as <-; eexists; split; reflexivity. }
  destruct N as (n & En & Xn). rewrite En, Xn in H. cbn in H. injection H as <-. exact I.
Qed.

(* unit conversion multiplies by the fixed factor: the interval is scaled *)
Lemma timeconv_scales num den i v w :
  arel (AItv i) v -> arith Mul v (VFloat (XFin (qfrac num den))) = Ok w -> arel (AItv (iscale (qfrac num den) i)) w.
Proof.
  intros (q & Eq & Hq) H.
  pose proof (arith_fq_mul v (VFloat (XFin (qfrac num den))) w q (qfrac num den) Eq eq_refl H) as E.
  exists (q * qfrac num den)%Qc. split; [exact E|]. rewrite Qcmult_comm. apply iscale_ok. exact Hq.
Qed.
