(* Validation.v — model of interface._process_and_check_data (the input checks) and of
   gettsim_typing.convert_series_to_internal_type (dtype coercion), property C20:
   malformed data are rejected, coercion never changes a numeric value. *)
From Coq Require Import ZArith QArith Qcanon Bool String List Lia.
From GettsimModel Require Import Num Val.
Import ListNotations.
Open Scope string_scope.
Open Scope Z_scope.

(* a raw input cell, by numpy kind *)
Inductive raw := RInt (z : Z) | RFloat (x : xq) | RBool (b : bool) | RObj.
Inductive rkind := KI | KF | KB | KO.

Definition kind_of (r : raw) : rkind :=
  match r with RInt _ => KI | RFloat _ => KF | RBool _ => KB | RObj => KO end.

Record rcol := { rc_name : string; rc_kind : rkind; rc_vals : list raw }.

Definition find_col (n : string) (t : list rcol) : option rcol :=
  find (fun c => String.eqb (rc_name c) n) t.

Definition as_ints (c : rcol) : option (list Z) :=
  fold_right (fun r acc => match r, acc with RInt z, Some l => Some (z :: l) | _, _ => None end) (Some []) (rc_vals c).

(* ---------------------------------------------------------------- *)
(* the checks, in the order the code runs them                        *)

Fixpoint has_dup (l : list string) : bool :=
  match l with
  | [] => false
  | x :: r => existsb (String.eqb x) r || has_dup r
  end.

Fixpoint zhas_dup (l : list Z) : bool :=
  match l with
  | [] => false
  | x :: r => existsb (Z.eqb x) r || zhas_dup r
  end.

Definition raw_eqb (a b : raw) : bool :=
  match a, b with
  | RInt x, RInt y => x =? y
  | RFloat (XFin p), RFloat (XFin q) => Qceqb p q
  | RFloat XPosInf, RFloat XPosInf | RFloat XNegInf, RFloat XNegInf => true
  | RBool x, RBool y => Bool.eqb x y
  | _, _ => false            (* NaN and objects are equal to nothing *)
  end.

(* every row's value equals the value of every row with the same group id
   ((col.groupby(id).transform("max") == col).all() for comparable values) *)
Definition const_within (ids : list Z) (vals : list raw) : bool :=
  forallb (fun iv => forallb (fun jw => negb (fst iv =? fst jw) || raw_eqb (snd iv) (snd jw))
                             (combine ids vals)) (combine ids vals).

Definition group_levels : list string := ["hh"; "wthh"; "fg"; "bg"; "eg"; "ehe"; "sn"].
Definition fk_names : list string :=
  ["p_id_ehepartner"; "p_id_einstandspartner"; "p_id_elternteil_1"; "p_id_elternteil_2"].

Definition ends_with (suffix s : string) : bool :=
  let ls := String.length s in let lf := String.length suffix in
  Nat.leb lf ls && String.eqb (String.substring (ls - lf) lf s) suffix.

Definition check_groups (t : list rcol) : bool :=
  forallb (fun level =>
    match find_col (level ++ "_id") t with
    | None => true
    | Some idc =>
        match as_ints idc with
        | None => true                       (* ids of another kind: not compared here *)
        | Some ids =>
            forallb (fun c => negb (ends_with ("_" ++ level) (rc_name c)) || const_within ids (rc_vals c)) t
        end
    end) group_levels.

Definition check_pid (t : list rcol) : bool :=
  match find_col "p_id" t with
  | None => false
  | Some c => match as_ints c with Some l => negb (zhas_dup l) | None => negb (has_dup []) end
  end.

Definition check_fks (t : list rcol) : bool :=
  match find_col "p_id" t with
  | None => false
  | Some pc =>
      match as_ints pc with
      | None => true
      | Some pids =>
          forallb (fun fk =>
            match find_col fk t with
            | None => true
            | Some c =>
                match as_ints c with
                | None => true
                | Some ptrs =>
                    forallb (fun q => (q =? -1) || existsb (Z.eqb q) pids) ptrs
                    && forallb (fun pq => negb (fst pq =? snd pq)) (combine pids ptrs)
                end
            end) fk_names
      end
  end.

Definition accept (t : list rcol) : bool :=
  negb (has_dup (map rc_name t)) && check_groups t && check_pid t && check_fks t.

(* ---------------------------------------------------------------- *)
(* what acceptance guarantees (each fault class of the property => rejection) *)

Lemma zhas_dup_false_nodup l : zhas_dup l = false -> NoDup l.
Proof.
  induction l as [|x r IH]; intro H; [constructor|]. cbn in H. apply orb_false_iff in H. destruct H as [H1 H2].
  constructor; [|apply IH; exact H2]. intro Hin.
  assert (existsb (Z.eqb x) r = true) by (apply existsb_exists; exists x; split; [exact Hin | apply Z.eqb_refl]).
  congruence.
Qed.

Theorem accept_pid_unique t : accept t = true ->
  exists pc, find_col "p_id" t = Some pc /\ forall pids, as_ints pc = Some pids -> NoDup pids.
Proof.
  unfold accept. repeat rewrite andb_true_iff. intros [[[_ _] Hp] _]. unfold check_pid in Hp.
  destruct (find_col "p_id" t) as [pc|]; [|discriminate]. exists pc. split; [reflexivity|].
  intros pids E. rewrite E in Hp. apply zhas_dup_false_nodup. apply negb_true_iff. exact Hp.
Qed.

(* pointers: every foreign key is -1 or an existing p_id, and never the row's own p_id *)
Theorem accept_fks_valid t pc pids fk c ptrs :
  accept t = true -> find_col "p_id" t = Some pc -> as_ints pc = Some pids ->
  In fk fk_names -> find_col fk t = Some c -> as_ints c = Some ptrs ->
  (forall q, In q ptrs -> q = -1 \/ In q pids) /\
  (forall p q, In (p, q) (combine pids ptrs) -> p <> q).
Proof.
  unfold accept. repeat rewrite andb_true_iff. intros [_ Hf] Hp Hpi Hfk Hc Hptr.
  unfold check_fks in Hf. rewrite Hp, Hpi in Hf. rewrite forallb_forall in Hf. specialize (Hf fk Hfk).
  rewrite Hc, Hptr in Hf. apply andb_true_iff in Hf. destruct Hf as [H1 H2]. split.
  - intros q Hq. rewrite forallb_forall in H1. specialize (H1 q Hq). apply orb_true_iff in H1.
    destruct H1 as [H1|H1]; [left; apply Z.eqb_eq; exact H1|right].
    apply existsb_exists in H1. destruct H1 as [y [Hy E]]. apply Z.eqb_eq in E. subst. exact Hy.
  - intros p q Hin E. rewrite forallb_forall in H2. specialize (H2 (p, q) Hin). cbn in H2.
    subst. rewrite Z.eqb_refl in H2. discriminate.
Qed.

(* household-level (and other group-level) inputs are constant within their group *)
Theorem accept_group_constant t level idc ids c :
  accept t = true -> In level group_levels -> find_col (level ++ "_id") t = Some idc -> as_ints idc = Some ids ->
  In c t -> ends_with ("_" ++ level) (rc_name c) = true ->
  forall i j v w, In (i, v) (combine ids (rc_vals c)) -> In (j, w) (combine ids (rc_vals c)) -> i = j ->
    raw_eqb v w = true.
Proof.
  unfold accept. repeat rewrite andb_true_iff. intros [[[_ Hg] _] _] Hl Hid Hids Hc He i j v w Hi Hj Eij.
  unfold check_groups in Hg. rewrite forallb_forall in Hg. specialize (Hg level Hl). rewrite Hid, Hids in Hg.
  rewrite forallb_forall in Hg. specialize (Hg c Hc). rewrite He in Hg. cbn in Hg.
  unfold const_within in Hg. rewrite forallb_forall in Hg. specialize (Hg (i, v) Hi).
  rewrite forallb_forall in Hg. specialize (Hg (j, w) Hj). cbn in Hg. subst j. rewrite Z.eqb_refl in Hg. exact Hg.
Qed.

Theorem accept_no_duplicate_columns t : accept t = true -> has_dup (map rc_name t) = false.
Proof. unfold accept. repeat rewrite andb_true_iff. intros [[[H _] _] _]. apply negb_true_iff. exact H. Qed.

(* ---------------------------------------------------------------- *)
(* coercion                                                            *)

Inductive itype := IFloat | IInt | IBool.

(* float64 holds every integer of magnitude <= 2^53 exactly *)
Definition exact_in_float (z : Z) : bool := Z.abs z <=? 2 ^ 53.

(* astype(float) of an int64: rounded to 53 significant bits (round-half-even) *)
Definition fl53 (z : Z) : Z :=
  let a := Z.abs z in
  if a <=? 2 ^ 53 then z
  else
    let e := Z.log2 a - 52 in
    let q := a / 2 ^ e in
    let r := a mod 2 ^ e in
    let half := 2 ^ (e - 1) in
    let q' := if r <? half then q else if half <? r then q + 1 else if Z.even q then q else q + 1 in
    Z.sgn z * (q' * 2 ^ e).

Definition convert_cell (chk : bool) (ty : itype) (r : raw) : res raw :=
  match ty, r with
  | _, RObj => Err EValue
  | IFloat, RFloat x => Ok (RFloat x)
  | IFloat, RInt z => if chk && negb (exact_in_float z) then Err EValue else Ok (RFloat (xz (fl53 z)))
  | IFloat, RBool _ => Err EValue
  | IInt, RInt z => Ok (RInt z)
  | IInt, RBool b => Ok (RInt (if b then 1 else 0))
  | IInt, RFloat (XFin q) =>
      if Qceqb q (qz (qfloor q)) && (- 2 ^ 63 <=? qfloor q) && (qfloor q <? 2 ^ 63)   (* must fit int64 *)
      then Ok (RInt (qfloor q)) else Err EValue
  | IInt, RFloat _ => Err EValue
  | IBool, RBool b => Ok (RBool b)
  | IBool, RInt z => if z =? 0 then Ok (RBool false) else if z =? 1 then Ok (RBool true) else Err EValue
  | IBool, RFloat (XFin q) => if Qceqb q 0 then Ok (RBool false) else if Qceqb q 1 then Ok (RBool true) else Err EValue
  | IBool, RFloat _ => Err EValue
  end.

(* [chk] = the conversion int -> float verifies that no value changed (after the repair) *)
Fixpoint convert_col (chk : bool) (ty : itype) (l : list raw) : res (list raw) :=
  match l with
  | [] => Ok []
  | r :: rest => do c <- convert_cell chk ty r; do cs <- convert_col chk ty rest; Ok (c :: cs)
  end.

(* numeric value of a cell *)
Definition num_of (r : raw) : option xq :=
  match r with
  | RInt z => Some (xz z)
  | RFloat x => Some x
  | RBool b => Some (xz (if b then 1 else 0))
  | RObj => None
  end.

Lemma qz_qfloor_eq q : Qceqb q (qz (qfloor q)) = true -> xz (qfloor q) = XFin q.
Proof. intro H. apply Qceqb_iff in H. unfold xz. f_equal. symmetry. exact H. Qed.

(* with the check, a successful conversion never changes a numeric value *)
Theorem convert_cell_lossless ty r c : convert_cell true ty r = Ok c -> num_of c = num_of r.
Proof.
  destruct ty, r as [z|x|b|]; cbn; try discriminate; intro H.
  - (* int -> float *)
    unfold exact_in_float in H. destruct (Z.abs z <=? 2 ^ 53) eqn:E; cbn in H; [|discriminate].
    injection H as <-. cbn. unfold fl53. rewrite E. reflexivity.
  - injection H as <-. reflexivity.
  - injection H as <-. reflexivity.
  - destruct x as [|q| |]; try discriminate.
    match type of H with (if ?c then _ else _) = _ => destruct c eqn:E; [|discriminate] end.
    repeat rewrite andb_true_iff in E. destruct E as [[E _] _].
    injection H as <-. cbn. f_equal. apply qz_qfloor_eq. exact E.
  - injection H as <-. reflexivity.
  - destruct (z =? 0) eqn:E0; [injection H as <-; apply Z.eqb_eq in E0; subst; reflexivity|].
    destruct (z =? 1) eqn:E1; [injection H as <-; apply Z.eqb_eq in E1; subst; reflexivity|discriminate].
  - destruct x as [|q| |]; try discriminate.
    destruct (Qceqb q 0) eqn:E0; [injection H as <-; apply Qceqb_iff in E0; subst; reflexivity|].
    destruct (Qceqb q 1) eqn:E1; [injection H as <-; apply Qceqb_iff in E1; subst; reflexivity|discriminate].
  - injection H as <-. reflexivity.
Qed.

Theorem convert_col_lossless ty : forall l cs, convert_col true ty l = Ok cs -> map num_of cs = map num_of l.
Proof.
  induction l as [|r rest IH]; intros cs H; cbn in H.
  - injection H as <-. reflexivity.
  - destruct (convert_cell true ty r) as [c|] eqn:Ec; [|discriminate]. cbn in H.
    destruct (convert_col true ty rest) as [cs'|] eqn:Er; [|discriminate]. cbn in H. injection H as <-.
    cbn. rewrite (convert_cell_lossless ty r c Ec), (IH cs' eq_refl). reflexivity.
Qed.

(* without the check, astype(float) silently changes integers beyond 2^53 *)
Theorem int_to_float_unchecked_refuted :
  convert_cell false IFloat (RInt (2 ^ 53 + 1)) = Ok (RFloat (xz (2 ^ 53)))
  /\ num_of (RFloat (xz (2 ^ 53))) <> num_of (RInt (2 ^ 53 + 1)).
Proof.
  split; [vm_compute; reflexivity|]. cbn. intro H. injection H as H. discriminate.
Qed.
