(* ChkC10.v — reflective checker for property C10 (rounding specifications):
   for a YAML forest Y, parameter groups and dates, the rounding specification that
   the loader model puts into the environment equals the YAML entry in force
   (base, direction AND to_add_after_rounding), and is well formed. *)
From Coq Require Import ZArith QArith Qcanon Bool String List Lia.
From GettsimModel Require Import Num Val Ast Corr PolicyEnv Rounding.
Import ListNotations.
Open Scope string_scope.

Definition spec_keys : list string := ["direction"; "base"; "to_add_after_rounding"].

Definition restrict_spec (d : dict) : dict :=
  filter (fun kv => match fst kv with
                    | KStr s => existsb (String.eqb s) spec_keys
                    | _ => false end) d.

(* the specification in force on day [date] according to the YAML alone *)
Definition yaml_spec_in_force (date : Z) (spec_func : val) : option dict :=
  match spec_func with
  | VDict d =>
      match latest_le date (date_keys d) with
      | Some pd => match dict_get (KDate pd) d with
                   | Some (VDict e) => Some (restrict_spec e)
                   | _ => None end
      | None => None
      end
  | _ => None
  end.

Definition scalar_eqb (a b : val) : bool :=
  match a, b with
  | VInt x, VInt y => Z.eqb x y
  | VFloat x, VFloat y => xq_same x y
  | VBool x, VBool y => Bool.eqb x y
  | VStr x, VStr y => String.eqb x y
  | _, _ => false
  end.

Definition dict_sub (a b : dict) : bool :=
  forallb (fun kv => match dict_get (fst kv) b with
                     | Some v => scalar_eqb (snd kv) v
                     | None => false end) a.

Definition spec_eqb (a b : dict) : bool := dict_sub a b && dict_sub b a.

Definition num_pos (v : val) : bool :=
  match v with
  | VInt z => Z.ltb 0 z
  | VFloat (XFin q) => Qcltb 0 q
  | _ => false
  end.
Definition is_num (v : val) : bool :=
  match v with VInt _ => true | VFloat (XFin _) => true | _ => false end.

Definition spec_wf (s : dict) : bool :=
  match sget "base" s, sget "direction" s with
  | Some b, Some (VStr dir) =>
      num_pos b
      && (match parse_direction dir with Some _ => true | None => false end)
      && (match sget "to_add_after_rounding" s with Some t => is_num t | None => true end)
  | _, _ => false
  end.

(* the concrete loader-side and YAML-side views (outside the section, so that the
   soundness proof below is about abstract functions and the kernel never unfolds the
   fuelled loader at Qed time) *)
Definition loaded_rounding (Y : list (string * val)) (date : Z) (g : string) : res dict :=
  do grp <- load_group Y env_fuel date g None;
  match sget "rounding" grp with
  | Some (VDict r) => Ok r
  | Some _ => Err EType
  | None => Ok []
  end.

Definition yaml_rounding_section (Y : list (string * val)) (g : string) : dict :=
  match glookup g Y with
  | Some (VDict raw) => match sget "rounding" raw with Some (VDict r) => r | _ => [] end
  | _ => []
  end.

Section Chk.
  Variable loaded_rounding : Z -> string -> res dict.
  Variable yaml_rounding_section : string -> dict.

  (* offenders for one (date, group): function names whose loaded spec differs from the
     YAML entry in force, or is ill formed *)
  Definition c10_offenders (date : Z) (g : string) : list string :=
    match loaded_rounding date g with
    | Err _ => ["<loader failed>"]
    | Ok loaded =>
        flat_map (fun kv =>
          match fst kv with
          | KStr name =>
              match yaml_spec_in_force date (snd kv), dict_get (KStr name) loaded with
              | None, None => []
              | Some want, Some (VDict got) =>
                  if spec_eqb want got && spec_wf got then [] else [name]
              | _, _ => [name]
              end
          | _ => ["<non-string key>"]
          end) (yaml_rounding_section g)
        ++ flat_map (fun kv =>          (* nothing loaded that the YAML does not have *)
             match dict_get (fst kv) (yaml_rounding_section g) with
             | Some _ => []
             | None => [match fst kv with KStr s => s | _ => "<key>" end]
             end) loaded
    end%list.

  Definition c10_diag (groups : list string) (dates : list Z) : list (Z * (string * string)) :=
    flat_map (fun d => flat_map (fun g => map (fun n => (d, (g, n))) (c10_offenders d g)) groups)
             dates.

  Definition c10_ok (groups : list string) (dates : list Z) : bool :=
    match c10_diag groups dates with [] => true | _ => false end.

  (* what a passing check means *)
  Definition c10_holds_at (date : Z) (g : string) : Prop :=
    exists loaded, loaded_rounding date g = Ok loaded /\
      forall name sf, dict_get (KStr name) (yaml_rounding_section g) = Some sf ->
        In (KStr name, sf) (yaml_rounding_section g) ->
        match yaml_spec_in_force date sf with
        | None => dict_get (KStr name) loaded = None
        | Some want => exists got, dict_get (KStr name) loaded = Some (VDict got)
                                   /\ spec_eqb want got = true /\ spec_wf got = true
        end.

  Lemma flat_map_nil {A B} (f : A -> list B) l :
    flat_map f l = [] -> forall x, In x l -> f x = [].
  Proof.
    induction l as [|a l IH]; simpl; intros H x Hin; [contradiction|].
    apply app_eq_nil in H. destruct H as [H1 H2].
    destruct Hin as [->|Hin]; [exact H1 | apply IH; assumption].
  Qed.

  Theorem c10_ok_sound groups dates :
    c10_ok groups dates = true ->
    forall d g, In d dates -> In g groups -> c10_holds_at d g.
  Proof.
    unfold c10_ok. intros H d g Hd Hg.
    destruct (c10_diag groups dates) eqn:E; [|discriminate]. clear H.
    unfold c10_diag in E.
    pose proof (flat_map_nil _ _ E d Hd) as E1. cbn beta in E1.
    pose proof (flat_map_nil _ _ E1 g Hg) as E2. cbn beta in E2.
    apply map_eq_nil in E2.
    unfold c10_offenders in E2. unfold c10_holds_at.
    destruct (loaded_rounding d g) as [loaded|e] eqn:EL; [|discriminate].
    exists loaded. split; [reflexivity|].
    apply app_eq_nil in E2. destruct E2 as [E3 _].
    intros name sf Hget Hin.
    pose proof (flat_map_nil _ _ E3 (KStr name, sf) Hin) as E4. cbn [fst snd] in E4.
    destruct (yaml_spec_in_force d sf) as [want|] eqn:EW.
    - destruct (dict_get (KStr name) loaded) as [[| | | | | |? |got]|] eqn:EG; try discriminate.
      exists got. split; [reflexivity|].
      destruct (spec_eqb want got && spec_wf got) eqn:EB; [|discriminate].
      apply andb_true_iff in EB. exact EB.
    - destruct (dict_get (KStr name) loaded); [discriminate | reflexivity].
  Qed.
End Chk.

Definition c10_ok_for (Y : list (string * val)) :=
  c10_ok (loaded_rounding Y) (yaml_rounding_section Y).
Definition c10_diag_for (Y : list (string * val)) :=
  c10_diag (loaded_rounding Y) (yaml_rounding_section Y).

Theorem c10_ok_for_sound Y groups dates :
  c10_ok_for Y groups dates = true ->
  forall d g, In d dates -> In g groups ->
    c10_holds_at (loaded_rounding Y) (yaml_rounding_section Y) d g.
Proof. apply c10_ok_sound. Qed.


(* diagnostic string for the harness: "date:group:function;..." *)
Definition c10_diag_str (Y : list (string * val)) (groups : list string) (dates : list Z) : string :=
  String.concat ";" (map (fun t => show_z (fst t) ++ ":" ++ fst (snd t) ++ ":" ++ snd (snd t))
                         (c10_diag_for Y groups dates)).

(* how many (date, group, function) specifications were compared (non-vacuity) *)
Definition c10_count (Y : list (string * val)) (groups : list string) (dates : list Z) : nat :=
  fold_right Nat.add 0%nat
    (flat_map (fun d => map (fun g => match loaded_rounding Y d g with
                                      | Ok l => length l | Err _ => 0%nat end) groups) dates).
