(* SbpPerm.v — sums by person pointer (Aggregation.sum_by_p_id_list) commute with permutations of
   the rows when the p_ids are unique and the addition is commutative and associative. *)
From Coq Require Import ZArith Bool List Lia Permutation.
From GettsimModel Require Import Num Val Column Aggregation Perm.
Import ListNotations.
Open Scope Z_scope.

Lemma filter_permutation {A} (f : A -> bool) l1 l2 : Permutation l1 l2 -> Permutation (filter f l1) (filter f l2).
Proof.
  induction 1 as [|x l l' _ IH|x y l|l l' l'' _ IH1 _ IH2]; cbn.
  - constructor.
  - destruct (f x); [constructor|]; exact IH.
  - destruct (f x), (f y); try apply Permutation_refl. apply perm_swap.
  - eapply Permutation_trans; eassumption.
Qed.


Lemma combine_pl_z {A} (dl : A) p (ptr : list Z) (col : list A) : length ptr = length col -> (forall j, In j p -> (j < length ptr)%nat) ->
  combine (pl 0 p ptr) (pl dl p col) = pl (0, dl) p (combine ptr col).
Proof.
  intros Hl Hlt. unfold pl. induction p as [|j q IH]; cbn; [reflexivity|]. f_equal.
  - symmetry. apply combine_nth. exact Hl.
  - apply IH. intros k Hk. apply Hlt. right. exact Hk.
Qed.

Lemma nth_error_ext_len {A} (l1 l2 : list A) : length l1 = length l2 -> (forall i, (i < length l1)%nat -> nth_error l1 i = nth_error l2 i) -> l1 = l2.
Proof.
  revert l2. induction l1 as [|x r IH]; intros [|y r2] Hl H; try discriminate; [reflexivity|].
  cbn in Hl. f_equal.
  - specialize (H 0%nat). cbn in H. assert (Some x = Some y) by (apply H; lia). congruence.
  - apply IH; [lia|]. intros i Hi. apply (H (S i)). cbn. lia.
Qed.

Lemma perm_of_permutation' p n : perm_of p n -> Permutation (seq 0 n) p.
Proof.
  intros (Hl & Hlt & Hsur).
  assert (Hnd : NoDup p).
  { apply (NoDup_incl_NoDup (l := seq 0 n) (l' := p) (seq_NoDup n 0)); [rewrite seq_length; lia|].
    intros j Hj. apply in_seq in Hj. apply Hsur. lia. }
  apply NoDup_Permutation; [apply seq_NoDup | exact Hnd|].
  intro j. split; intro H; [apply in_seq in H; apply Hsur; lia | apply in_seq; specialize (Hlt j H); lia].
Qed.

Lemma pl_permutation {A} (d : A) p l : perm_of p (length l) -> Permutation l (pl d p l).
Proof.
  intro Hp. unfold pl. rewrite <- (map_nth_seq_id d l) at 1. apply Permutation_map. apply perm_of_permutation'. exact Hp.
Qed.

Section S.
  Context {A : Type}.
  Variable add : A -> A -> A.
  Variable zero : A.
  Hypothesis add_comm : forall a b, add a b = add b a.
  Hypothesis add_assoc : forall a b c, add (add a b) c = add a (add b c).

  (* the loop succeeds exactly when every non-negative pointer is a p_id *)
  Lemma sbp_loop_ptrs pids : forall rows out r, sbp_loop add rows pids out = Ok r ->
    forall ptr c, In (ptr, c) rows -> 0 <= ptr -> In ptr pids.
  Proof.
    induction rows as [|[q c0] rs IH]; intros out r H ptr c Hin Hp; [contradiction|].
    cbn [sbp_loop] in H. destruct Hin as [E|Hin].
    - injection E as -> ->. destruct (0 <=? ptr) eqn:E0; [|apply Z.leb_gt in E0; lia].
      destruct (pos_of ptr pids 0) as [j|] eqn:Ep; [|discriminate].
      pose proof (pos_of_nth _ _ _ _ Ep) as Hn. apply (nth_error_In _ _ Hn).
    - destruct (0 <=? q).
      + destruct (pos_of q pids 0); [|discriminate]. apply (IH _ _ H ptr c Hin Hp).
      + apply (IH _ _ H ptr c Hin Hp).
  Qed.

  Lemma pos_of_some id pids i : In id pids -> exists j, pos_of id pids i = Some j.
  Proof.
    intro H. destruct (pos_of id pids i) as [j|] eqn:E; [eexists; reflexivity|]. exfalso. apply (pos_of_none _ _ _ E H).
  Qed.

  Lemma sbp_loop_total pids : forall rows out,
    (forall ptr c, In (ptr, c) rows -> 0 <= ptr -> In ptr pids) -> exists r, sbp_loop add rows pids out = Ok r.
  Proof.
    induction rows as [|[q c0] rs IH]; intros out H; cbn [sbp_loop]; [eexists; reflexivity|].
    assert (H' : forall ptr c, In (ptr, c) rs -> 0 <= ptr -> In ptr pids) by (intros ptr c Hin; apply (H ptr c); right; exact Hin).
    destruct (0 <=? q) eqn:E0; [|apply IH; exact H'].
    destruct (pos_of_some q pids 0%nat) as [j Ej]; [apply (H q c0); [left; reflexivity | apply Z.leb_le; exact E0]|].
    rewrite Ej. apply IH. exact H'.
  Qed.

  Theorem sum_by_p_id_list_perm (dl : A) p col ptr pids out :
    NoDup pids -> length col = length pids -> length ptr = length pids -> perm_of p (length pids) ->
    sum_by_p_id_list add zero col ptr pids = Ok out ->
    sum_by_p_id_list add zero (pl dl p col) (pl 0 p ptr) (pl 0 p pids) = Ok (pl dl p out).
  Proof.
    intros Hnd Lc Lp Hp H.
    destruct (sum_by_p_id_spec add zero col ptr pids out Hnd H) as [Lout Hval].
    pose proof Hp as (Hl & Hlt & Hsur).
    set (rows := combine ptr col). set (rows' := combine (pl 0 p ptr) (pl dl p col)).
    assert (Er : rows' = pl (0, dl) p rows).
    { unfold rows', rows. apply combine_pl_z; [lia | intros j Hj; rewrite Lp; apply Hlt; exact Hj]. }
    assert (Lrows : length rows = length pids) by (unfold rows; rewrite combine_length; lia).
    assert (Hperm : Permutation rows rows') by (rewrite Er; apply pl_permutation; rewrite Lrows; exact Hp).
    assert (Hnd' : NoDup (pl 0 p pids)) by (apply (Permutation_NoDup (pl_permutation 0 p pids Hp) Hnd)).
    (* the permuted call succeeds *)
    unfold sum_by_p_id_list in H.
    assert (Htot : exists out', sum_by_p_id_list add zero (pl dl p col) (pl 0 p ptr) (pl 0 p pids) = Ok out').
    { unfold sum_by_p_id_list. apply sbp_loop_total. intros q c Hin Hq.
      apply (Permutation_in q (pl_permutation 0 p pids Hp)).
      apply (sbp_loop_ptrs pids _ _ _ H q c); [|exact Hq]. fold rows. fold rows' in Hin.
      apply (Permutation_in (q, c) (Permutation_sym Hperm) Hin). }
    destruct Htot as [out' Hout']. rewrite Hout'. f_equal.
    destruct (sum_by_p_id_spec add zero _ _ _ out' Hnd' Hout') as [Lout' Hval'].
    apply nth_error_ext_len.
    - rewrite Lout', !pl_length. reflexivity.
    - intros i' Hi'. rewrite Lout', pl_length in Hi'.
      destruct (nth_error p i') as [q|] eqn:Eq; [|apply nth_error_None in Eq; lia].
      assert (Hq : (q < length pids)%nat) by (apply Hlt; apply (nth_error_In _ _ Eq)).
      destruct (nth_error pids q) as [id|] eqn:Eid; [|apply nth_error_None in Eid; lia].
      assert (Hid' : nth_error (pl 0 p pids) i' = Some id).
      { unfold pl. rewrite nth_error_map, Eq. cbn. f_equal. apply nth_error_nth. exact Eid. }
      rewrite (Hval' i' id Hid').
      assert (Hpl : nth_error (pl dl p out) i' = nth_error out q).
      { unfold pl. rewrite nth_error_map, Eq. cbn.
        destruct (nth_error out q) as [v|] eqn:Ev; [f_equal; apply nth_error_nth; exact Ev | apply nth_error_None in Ev; lia]. }
      rewrite Hpl, (Hval q id Eid). f_equal. fold rows. fold rows'.
      apply (fold_left_perm add add_comm add_assoc). apply Permutation_map. apply filter_permutation. apply Permutation_sym. exact Hperm.
  Qed.
End S.
