(* ChkC19Aff.v — C19 for ALL wages on the model: the contribution chains of the real graph (Scalar.seval over the
   regenerated rules and the loader's graph, rounding on) are evaluated SYMBOLICALLY in the wage on the pieces
   between the statutory boundaries (AffEval.sym_seval, sound for every wage of a piece); the statutory shape is
   then decided on the affine pieces (AffShape) and holds for every wage w >= 0. *)
From Coq Require Import ZArith QArith Qcanon Bool String List Lia.
From GettsimModel Require Import Num NumTac Val Ast Eval Corr PolicyEnv Dag Scalar AffEval AffShape.
Import ListNotations.
Open Scope string_scope.

Section Generic.
  Variable F : string -> Qc -> option Qc.
  Variable piece_of : string -> itv1 -> option piece.
  Hypothesis piece_of_sound : forall tgt Iv p, piece_of tgt Iv = Some p ->
    fst p = Iv /\ forall w, inI Iv w -> F tgt w = Some (ev (snd p) w).

  Fixpoint pieces_of (tgt : string) (Is : list itv1) : option (list piece) :=
    match Is with
    | [] => Some []
    | Iv :: r => match piece_of tgt Iv, pieces_of tgt r with Some p, Some ps => Some (p :: ps) | _, _ => None end
    end.

  Theorem pieces_described tgt : forall Is ps, pieces_of tgt Is = Some ps -> described (F tgt) ps.
  Proof.
    induction Is as [|Iv r IH]; intros ps H; cbn [pieces_of] in H.
    - injection H as <-. intros J f [].
    - destruct (piece_of tgt Iv) as [p|] eqn:E1; [|discriminate]. destruct (pieces_of tgt r) as [ps'|] eqn:E2; [|discriminate].
      injection H as <-. intros J f [Hin|Hin] w Hw.
      + destruct (piece_of_sound tgt Iv p E1) as [Hp Hs]. subst p. cbn [fst snd] in *. subst J. now apply Hs.
      + apply (IH ps' eq_refl J f Hin w Hw).
  Qed.

  (* the pieces between the boundaries: {x0}, (x0,x1), {x1}, ..., {xn}, (xn, oo) *)
  Fixpoint intervals_from (x : Qc) (xs : list Qc) : list itv1 :=
    {| lo := x; lo_in := true; hi := Some x; hi_in := true |} ::
    match xs with
    | [] => [{| lo := x; lo_in := false; hi := None; hi_in := false |}]
    | y :: r => {| lo := x; lo_in := false; hi := Some y; hi_in := false |} :: intervals_from y r
    end.

  Definition from_zero (ps : list piece) : bool :=
    match ps with (Iv, _) :: _ => Qceqb (lo Iv) 0 && lo_in Iv | [] => false end.

  Lemma from_zero_lower ps w : from_zero ps = true -> (0 <= w)%Qc -> first_lower ps w.
  Proof.
    destruct ps as [|[Iv f] r]; [discriminate|]. cbn [from_zero first_lower]. rewrite andb_true_iff. intros [H1 H2] Hw.
    apply Qceqb_iff in H1. unfold lower_ok. rewrite H2, H1. exact Hw.
  Qed.

  Definition val_at (tgt : string) (w : Qc) : Qc := match F tgt w with Some y => y | None => 0%Qc end.

  (* employee contribution: the whole statutory shape *)
  Definition employee_shape_ok (tgt : string) (G U C : Qc) (xs : list Qc) : bool :=
    match pieces_of tgt (intervals_from 0 xs) with
    | Some ps =>
        adjacent ps && from_zero ps && nonneg_pieces ps && mono_pieces ps && zero_upto G ps
        && const_from C (val_at tgt C) ps && meets_at U (val_at tgt U) ps
    | None => false
    end.

  Theorem employee_shape_sound tgt G U C xs : employee_shape_ok tgt G U C xs = true ->
    (forall w, 0 <= w -> exists y, F tgt w = Some y /\ 0 <= y)%Qc /\
    (forall w1 w2, 0 <= w1 -> w1 <= w2 -> exists y1 y2, F tgt w1 = Some y1 /\ F tgt w2 = Some y2 /\ y1 <= y2)%Qc /\
    (forall w, 0 <= w -> w <= G -> F tgt w = Some 0)%Qc /\
    (forall w, 0 <= w -> C <= w -> F tgt w = Some (val_at tgt C))%Qc /\
    ((0 <= U)%Qc -> exists ps, described (F tgt) ps /\ F tgt U = Some (val_at tgt U) /\
        forall Iv f, In (Iv, f) ps -> touches Iv U = true -> ev f U = val_at tgt U).
  Proof.
    unfold employee_shape_ok. destruct (pieces_of tgt (intervals_from 0 xs)) as [ps|] eqn:E; [|discriminate].
    rewrite !andb_true_iff. intros [[[[[[Ha Hz] Hn] Hm] Hg] Hc] Hu].
    pose proof (pieces_described tgt _ _ E) as HD.
    repeat split.
    - intros w Hw. apply (shape_nonneg _ ps HD Ha Hn w (from_zero_lower ps w Hz Hw)).
    - intros w1 w2 Hw1 Hle. apply (shape_monotone _ ps HD Ha Hm w1 w2 (from_zero_lower ps w1 Hz Hw1) Hle).
    - intros w Hw HG. apply (shape_zero_upto _ ps G HD Ha Hg w (from_zero_lower ps w Hz Hw) HG).
    - intros w Hw HC. apply (shape_const_from _ ps C _ HD Ha Hc w (from_zero_lower ps w Hz Hw) HC).
    - intros HU. exists ps. split; [exact HD|].
      destruct (shape_meets _ ps U _ HD Ha Hu (from_zero_lower ps U Hz HU)) as [H1 H2].
      split; [exact H1|]. intros Iv f Hin Ht. apply (H2 Iv f Hin Ht).
  Qed.

  (* employee + employer = total within the transition zone (G, U] *)
  Fixpoint pieces3_of (t1 t2 t3 : string) (Is : list itv1) : option (list piece3) :=
    match Is with
    | [] => Some []
    | Iv :: r =>
        match piece_of t1 Iv, piece_of t2 Iv, piece_of t3 Iv, pieces3_of t1 t2 t3 r with
        | Some p1, Some p2, Some p3, Some ps => Some ((Iv, (snd p1, snd p2, snd p3)) :: ps)
        | _, _, _, _ => None
        end
    end.

  Theorem pieces3_described t1 t2 t3 : forall Is ps, pieces3_of t1 t2 t3 Is = Some ps ->
    described3 (F t1) (F t2) (F t3) ps.
  Proof.
    induction Is as [|Iv r IH]; intros ps H; cbn [pieces3_of] in H.
    - injection H as <-. intros J f1 f2 f3 [].
    - destruct (piece_of t1 Iv) as [p1|] eqn:E1; [|discriminate]. destruct (piece_of t2 Iv) as [p2|] eqn:E2; [|discriminate].
      destruct (piece_of t3 Iv) as [p3|] eqn:E3; [|discriminate]. destruct (pieces3_of t1 t2 t3 r) as [ps'|] eqn:E4; [|discriminate].
      injection H as <-. intros J f1 f2 f3 [Hin|Hin] w Hw.
      + injection Hin as <- <- <- <-.
        destruct (piece_of_sound t1 Iv p1 E1) as [_ H1]. destruct (piece_of_sound t2 Iv p2 E2) as [_ H2].
        destruct (piece_of_sound t3 Iv p3 E3) as [_ H3]. repeat split; auto.
      + apply (IH ps' eq_refl J f1 f2 f3 Hin w Hw).
  Qed.

  Definition shares_sum_ok (t1 t2 t3 : string) (G U : Qc) (xs : list Qc) : bool :=
    match pieces3_of t1 t2 t3 (intervals_from 0 xs) with
    | Some ps => adjacent (proj1_3 ps) && from_zero (proj1_3 ps) && sums_band G U ps
    | None => false
    end.

  Theorem shares_sum_sound t1 t2 t3 G U xs : shares_sum_ok t1 t2 t3 G U xs = true ->
    (forall w, 0 <= w -> G < w -> w <= U ->
       exists y1 y2 y3, F t1 w = Some y1 /\ F t2 w = Some y2 /\ F t3 w = Some y3 /\ y1 + y2 = y3)%Qc.
  Proof.
    unfold shares_sum_ok. destruct (pieces3_of t1 t2 t3 (intervals_from 0 xs)) as [ps|] eqn:E; [|discriminate].
    rewrite !andb_true_iff. intros [[Ha Hz] Hs] w Hw HG HU.
    apply (shape_sum _ _ _ ps G U (pieces3_described t1 t2 t3 _ _ E) Ha Hs w (from_zero_lower _ w Hz Hw) HG HU).
  Qed.

End Generic.

Section At.
  Variable S : list dnode.
  Variable ft : ftable.
  Variable P : params.
  Variable binp : list (string * val).          (* the discrete inputs: region, children, ... *)
  Variable wage : string.                       (* the name of the symbolic input *)

  Definition sinp : senv := (wage, SA 1 0) :: map (fun xv => (fst xv, SC (snd xv))) binp.

  Lemma conc_env_sinp w : conc_env w sinp = (wage, VFloat (XFin w)) :: binp.
  Proof.
    unfold sinp. cbn [conc_env map fst snd conc]. f_equal.
    - do 3 f_equal. ring.
    - rewrite map_map. cbn [fst snd conc]. induction binp as [|[x v] r IH]; [reflexivity|]. cbn [map fst snd]. now rewrite IH.
  Qed.

  (* the chain as a function of the wage *)
  Definition F (tgt : string) (w : Qc) : option Qc :=
    match seval S ft P true ((wage, VFloat (XFin w)) :: binp) seval_fuel tgt with
    | Ok v => fin_of v
    | Err _ => None
    end.

  (* on a one-point interval the affine form is replaced by its value *)
  Definition is_point (Iv : itv1) : bool :=
    lo_in Iv && hi_in Iv && match hi Iv with Some h => Qceqb h (lo Iv) | None => false end.
  Definition norm_piece (Iv : itv1) (f : aff) : aff := if is_point Iv then (0%Qc, ev f (lo Iv)) else f.

  Lemma norm_piece_ev Iv f w : inI Iv w -> ev (norm_piece Iv f) w = ev f w.
  Proof.
    unfold norm_piece, is_point. intros [Hl Hu].
    destruct (lo_in Iv) eqn:E1; [|reflexivity]. destruct (hi_in Iv) eqn:E2; [|reflexivity].
    destruct (hi Iv) as [h|] eqn:E3; [|reflexivity]. cbn [andb]. destruct (Qceqb h (lo Iv)) eqn:E4; [|reflexivity].
    apply Qceqb_iff in E4. subst h.
    assert (w = lo Iv) by (apply Qcle_antisym; assumption). subst w. unfold ev. cbn [fst snd]. ring.
  Qed.

  Definition piece_of (tgt : string) (Iv : itv1) : option piece :=
    match sym_seval S ft P true Iv sinp seval_fuel tgt with
    | Some s => match aff_of s with Some f => Some (Iv, norm_piece Iv f) | None => None end
    | None => None
    end.

  Lemma piece_of_sound tgt Iv p : piece_of tgt Iv = Some p ->
    fst p = Iv /\ forall w, inI Iv w -> F tgt w = Some (ev (snd p) w).
  Proof.
    unfold piece_of. destruct (sym_seval S ft P true Iv sinp seval_fuel tgt) as [s|] eqn:E; [|discriminate].
    destruct (aff_of s) as [[a b]|] eqn:Ea; [|discriminate]. intros [= <-]. split; [reflexivity|].
    intros w Hw. cbn [snd]. rewrite (norm_piece_ev Iv (a, b) w Hw). unfold F. rewrite <- conc_env_sinp.
    rewrite (sym_seval_sound S ft P true Iv sinp w Hw seval_fuel tgt s E).
    destruct (aff_num w s a b Ea) as (n & Hn & Hx & _). unfold fin_of. rewrite Hn, Hx. reflexivity.
  Qed.

  Definition employee_ok_at := employee_shape_ok F piece_of.
  Definition shares_ok_at := shares_sum_ok piece_of.

  Theorem employee_ok_at_sound tgt G U C xs : employee_ok_at tgt G U C xs = true ->
    (forall w, 0 <= w -> exists y, F tgt w = Some y /\ 0 <= y)%Qc /\
    (forall w1 w2, 0 <= w1 -> w1 <= w2 -> exists y1 y2, F tgt w1 = Some y1 /\ F tgt w2 = Some y2 /\ y1 <= y2)%Qc /\
    (forall w, 0 <= w -> w <= G -> F tgt w = Some 0)%Qc /\
    (forall w, 0 <= w -> C <= w -> F tgt w = Some (val_at F tgt C))%Qc /\
    ((0 <= U)%Qc -> exists ps, described (F tgt) ps /\ F tgt U = Some (val_at F tgt U) /\
        forall Iv f, In (Iv, f) ps -> touches Iv U = true -> ev f U = val_at F tgt U).
  Proof. exact (employee_shape_sound F piece_of piece_of_sound tgt G U C xs). Qed.

  Theorem shares_ok_at_sound t1 t2 t3 G U xs : shares_ok_at t1 t2 t3 G U xs = true ->
    (forall w, 0 <= w -> G < w -> w <= U ->
       exists y1 y2 y3, F t1 w = Some y1 /\ F t2 w = Some y2 /\ F t3 w = Some y3 /\ y1 + y2 = y3)%Qc.
  Proof. exact (shares_sum_sound F piece_of piece_of_sound t1 t2 t3 G U xs). Qed.

  (* diagnostics *)
  Definition show_piece (o : option piece) : string :=
    match o with
    | Some (Iv, (a, b)) => show_q (lo Iv) ++ (if lo_in Iv then "[" else "(") ++ ": " ++ show_q a ++ "*w+" ++ show_q b
    | None => "NONE"
    end.
  Definition show_pieces (tgt : string) (xs : list Qc) : string :=
    String.concat " | " (map (fun Iv => show_piece (piece_of tgt Iv)) (intervals_from 0 xs)).
End At.

(* boundaries read off the model: sorted, without duplicates *)
Fixpoint qinsert (x : Qc) (l : list Qc) : list Qc :=
  match l with
  | [] => [x]
  | y :: r => if Qcltb x y then x :: l else if Qceqb x y then l else y :: qinsert x r
  end.
Definition qsort (l : list Qc) : list Qc := fold_right qinsert [] l.

(* ---------------------------------------------------------------- *)
(* the four insurance branches on one dumped graph, for the discrete configurations below *)
Definition base_inputs (cfg : bool * Z * Z) : list (string * val) :=
  let '(ost, kids, age) := cfg in
  [("wohnort_ost", VBool ost); ("selbstständig", VBool false); ("in_priv_krankenv", VBool false);
   ("eink_selbst_m", VFloat (XFin 0)); ("ges_pflegev_hat_kinder", VBool (Z.ltb 0 kids)); ("alter", VInt age);
   ("sum_ges_rente_priv_rente_m", VFloat (XFin 0)); ("ges_pflegev_anz_kinder_bis_24", VInt kids);
   ("geburtsjahr", VInt (2024 - age))].

Definition configs : list (bool * Z * Z) :=
  flat_map (fun ost => [(ost, 0, 35); (ost, 0, 20); (ost, 1, 35); (ost, 2, 35); (ost, 4, 35); (ost, 6, 35)]%Z) [false; true].

(* employee share, employer share, total of the transition zone, assessment ceiling *)
Definition branches : list (string * string * string * string) :=
  [("ges_rentenv_beitr_arbeitnehmer_m", "ges_rentenv_beitr_arbeitgeber_m", "_ges_rentenv_beitr_midijob_sum_arbeitnehmer_arbeitgeber_m", "_ges_rentenv_beitr_bemess_grenze_m");
   ("arbeitsl_v_beitr_arbeitnehmer_m", "arbeitsl_v_beitr_arbeitgeber_m", "_arbeitsl_v_beitr_midijob_sum_arbeitnehmer_arbeitgeber_m", "_ges_rentenv_beitr_bemess_grenze_m");
   ("ges_krankenv_beitr_arbeitnehmer_m", "ges_krankenv_beitr_arbeitgeber_m", "_ges_krankenv_beitr_midijob_sum_arbeitnehmer_arbeitgeber_m", "_ges_krankenv_beitr_bemess_grenze_m");
   ("ges_pflegev_beitr_arbeitnehmer_m", "ges_pflegev_beitr_arbeitgeber_m", "_ges_pflegev_beitr_midijob_sum_arbeitnehmer_arbeitgeber_m", "_ges_krankenv_beitr_bemess_grenze_m")].

Definition wage_name : string := "bruttolohn_m".

Definition cfg_t := (bool * Z * Z)%type.

Section GenericGraph.
  Variable Fc : cfg_t -> string -> Qc -> option Qc.
  Variable G_of : cfg_t -> Qc.
  Variable U_of : Qc.
  Variable node0 : cfg_t -> string -> Qc.
  Variable bounds_of : cfg_t -> list Qc.
  Variable emp_ok : cfg_t -> string -> Qc -> Qc -> Qc -> list Qc -> bool.
  Variable sh_ok : cfg_t -> string -> string -> string -> Qc -> Qc -> list Qc -> bool.
  Hypothesis emp_sound : forall cfg tgt G U C xs, emp_ok cfg tgt G U C xs = true ->
    (forall w, 0 <= w -> exists y, Fc cfg tgt w = Some y /\ 0 <= y)%Qc /\
    (forall w1 w2, 0 <= w1 -> w1 <= w2 -> exists y1 y2, Fc cfg tgt w1 = Some y1 /\ Fc cfg tgt w2 = Some y2 /\ y1 <= y2)%Qc /\
    (forall w, 0 <= w -> w <= G -> Fc cfg tgt w = Some 0)%Qc /\
    (forall w, 0 <= w -> C <= w -> Fc cfg tgt w = Some (val_at (Fc cfg) tgt C))%Qc /\
    ((0 <= U)%Qc -> exists ps, described (Fc cfg tgt) ps /\ Fc cfg tgt U = Some (val_at (Fc cfg) tgt U) /\
        forall Iv f, In (Iv, f) ps -> touches Iv U = true -> ev f U = val_at (Fc cfg) tgt U).
  Hypothesis sh_sound : forall cfg t1 t2 t3 G U xs, sh_ok cfg t1 t2 t3 G U xs = true ->
    (forall w, 0 <= w -> G < w -> w <= U ->
       exists y1 y2 y3, Fc cfg t1 w = Some y1 /\ Fc cfg t2 w = Some y2 /\ Fc cfg t3 w = Some y3 /\ y1 + y2 = y3)%Qc.

  Definition gen_branch_ok (cfg : cfg_t) (br : string * string * string * string) : bool :=
    let '(an, ag, tot, ceil) := br in
    Qcltb 0 (G_of cfg) && Qcltb (G_of cfg) U_of
    && emp_ok cfg an (G_of cfg) U_of (node0 cfg ceil) (bounds_of cfg)
    && sh_ok cfg an ag tot (G_of cfg) U_of (bounds_of cfg).

  Definition gen_ok : bool := forallb (fun cfg => forallb (gen_branch_ok cfg) branches) configs.

  (* what an accepted graph satisfies, for EVERY wage *)
  Theorem gen_sound : gen_ok = true ->
    forall cfg an ag tot ceil, In cfg configs -> In (an, ag, tot, ceil) branches ->
    (0 < G_of cfg /\ G_of cfg < U_of)%Qc /\
    (forall w, 0 <= w -> exists y, Fc cfg an w = Some y /\ 0 <= y)%Qc /\
    (forall w1 w2, 0 <= w1 -> w1 <= w2 -> exists y1 y2, Fc cfg an w1 = Some y1 /\ Fc cfg an w2 = Some y2 /\ y1 <= y2)%Qc /\
    (forall w, 0 <= w -> w <= G_of cfg -> Fc cfg an w = Some 0)%Qc /\
    (forall w, 0 <= w -> node0 cfg ceil <= w -> Fc cfg an w = Some (val_at (Fc cfg) an (node0 cfg ceil)))%Qc /\
    (exists ps, described (Fc cfg an) ps /\ Fc cfg an U_of = Some (val_at (Fc cfg) an U_of) /\
        forall Iv f, In (Iv, f) ps -> touches Iv U_of = true -> ev f U_of = val_at (Fc cfg) an U_of) /\
    (forall w, 0 <= w -> G_of cfg < w -> w <= U_of ->
       exists y1 y2 y3, Fc cfg an w = Some y1 /\ Fc cfg ag w = Some y2 /\ Fc cfg tot w = Some y3 /\ y1 + y2 = y3)%Qc.
  Proof.
    unfold gen_ok. intros H cfg an ag tot ceil Hc Hb.
    rewrite forallb_forall in H. specialize (H cfg Hc). rewrite forallb_forall in H. specialize (H _ Hb).
    unfold gen_branch_ok in H. rewrite !andb_true_iff in H. destruct H as [[[H0 H1] H2] H3].
    apply Qcltb_iff in H0, H1.
    destruct (emp_sound cfg an _ _ _ _ H2) as (A & B & C0 & D & E).
    split; [split; assumption|]. split; [exact A|]. split; [exact B|]. split; [exact C0|]. split; [exact D|].
    split; [apply E; qlra|].
    apply (sh_sound cfg an ag tot _ _ _ H3).
  Qed.
End GenericGraph.

Section Graph.
  Variable S : list dnode.
  Variable ft : ftable.
  Variable P : params.

  Definition Fc (cfg : cfg_t) := F S ft P (base_inputs cfg) wage_name.
  Definition node0 (cfg : cfg_t) (n : string) : Qc := val_at (F S ft P (base_inputs cfg) wage_name) n 0.
  Definition G_of cfg := node0 cfg "minijob_grenze".
  Definition U_of : Qc :=
    match pget "sozialv_beitr" P with
    | Some gv => match path_get gv [KStr "geringfügige_eink_grenzen_m"; KStr "midijob"] with
                 | Ok v => match fin_of v with Some q => q | None => 0%Qc end
                 | Err _ => 0%Qc end
    | None => 0%Qc
    end.
  Definition bounds_of cfg : list Qc :=
    qsort [G_of cfg; U_of; node0 cfg "_ges_rentenv_beitr_bemess_grenze_m"; node0 cfg "_ges_krankenv_beitr_bemess_grenze_m"].

  Definition c19_aff_ok : bool :=
    gen_ok G_of U_of node0 bounds_of
      (fun cfg => employee_ok_at S ft P (base_inputs cfg) wage_name)
      (fun cfg => shares_ok_at S ft P (base_inputs cfg) wage_name).

  Definition c19_aff_sound :=
    gen_sound (fun cfg => F S ft P (base_inputs cfg) wage_name) G_of U_of node0 bounds_of
      (fun cfg => employee_ok_at S ft P (base_inputs cfg) wage_name)
      (fun cfg => shares_ok_at S ft P (base_inputs cfg) wage_name)
      (fun cfg => employee_ok_at_sound S ft P (base_inputs cfg) wage_name)
      (fun cfg => shares_ok_at_sound S ft P (base_inputs cfg) wage_name).

  Definition c19_aff_diag : string :=
    String.concat "; " (flat_map (fun cfg => flat_map (fun br =>
        if gen_branch_ok G_of U_of node0 bounds_of
             (fun cfg => employee_ok_at S ft P (base_inputs cfg) wage_name)
             (fun cfg => shares_ok_at S ft P (base_inputs cfg) wage_name) cfg br then [] else
          let '(an, ag, tot, ceil) := br in let '(ost, kids, age) := cfg in
          [an ++ (if ost then " east" else " west") ++ " kids=" ++ show_z kids ++ " age=" ++ show_z age ++ " G=" ++ show_q (G_of cfg) ++ " U=" ++ show_q U_of
           ++ " C=" ++ show_q (node0 cfg ceil) ++ " employee: " ++ show_pieces S ft P (base_inputs cfg) wage_name an (bounds_of cfg)
           ++ " employer: " ++ show_pieces S ft P (base_inputs cfg) wage_name ag (bounds_of cfg)
           ++ " total: " ++ show_pieces S ft P (base_inputs cfg) wage_name tot (bounds_of cfg)]) branches) configs).
End Graph.
