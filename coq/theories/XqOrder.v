(* XqOrder.v — max / min on extended rationals are commutative and associative (needed for the
   order independence of group maxima / minima). *)
From Coq Require Import ZArith QArith Qcanon Bool List Lia.
From GettsimModel Require Import Num NumTac Val Aggregation.

Ltac xq_cases :=
  repeat match goal with
  | |- context [Qcltb ?a ?b] => let E := fresh "E" in destruct (Qcltb a b) eqn:E; [apply Qcltb_iff in E | apply Qcltb_false_iff in E]
  end.

Lemma qfin_eq (a b : Qc) : (a <= b)%Qc -> (b <= a)%Qc -> XFin a = XFin b.
Proof. intros H1 H2. f_equal. apply Qcle_antisym; assumption. Qed.

Lemma xq_max_comm a b : xq_max a b = xq_max b a.
Proof.
  destruct a as [|p| |], b as [|q| |]; cbn; try reflexivity.
  xq_cases; try reflexivity; try (exfalso; qlra). apply qfin_eq; qlra.
Qed.

Lemma xq_min_comm a b : xq_min a b = xq_min b a.
Proof.
  destruct a as [|p| |], b as [|q| |]; cbn; try reflexivity.
  xq_cases; try reflexivity; try (exfalso; qlra). apply qfin_eq; qlra.
Qed.

Lemma xq_max_assoc a b c : xq_max (xq_max a b) c = xq_max a (xq_max b c).
Proof.
  destruct a as [|p| |], b as [|q| |], c as [|r| |]; cbn; try reflexivity;
    xq_cases; cbn; try reflexivity; xq_cases; try reflexivity; try (exfalso; qlra); try (apply qfin_eq; qlra).
Qed.

Lemma xq_min_assoc a b c : xq_min (xq_min a b) c = xq_min a (xq_min b c).
Proof.
  destruct a as [|p| |], b as [|q| |], c as [|r| |]; cbn; try reflexivity;
    xq_cases; cbn; try reflexivity; xq_cases; try reflexivity; try (exfalso; qlra); try (apply qfin_eq; qlra).
Qed.
