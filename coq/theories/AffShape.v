(* AffShape.v — the shape of a function given by verified affine pieces.
   A function F : Qc -> option Qc is DESCRIBED by a list of pieces (interval, a, b) when on every interval
   F w = Some (a*w + b).  The pieces are produced by AffEval.sym_seval from the real rule chains, so
   [described] is a theorem about the model evaluator; this file proves what decidable checks on the
   pieces imply for F on the whole half-line w >= 0: non-negative, non-decreasing, zero up to a threshold,
   constant from a ceiling on, continuous at a boundary, and additivity of three described functions. *)
From Coq Require Import ZArith QArith Qcanon Bool String List Lia.
From GettsimModel Require Import Num NumTac Val AffEval.
Import ListNotations.
Open Scope Qc_scope.

Definition aff := (Qc * Qc)%type.
Definition ev (f : aff) (w : Qc) : Qc := fst f * w + snd f.
Definition piece := (itv1 * aff)%type.

Definition lower_ok (Iv : itv1) (w : Qc) : Prop := if lo_in Iv then lo Iv <= w else lo Iv < w.
Definition upper_ok (Iv : itv1) (w : Qc) : Prop :=
  match hi Iv with None => True | Some h => if hi_in Iv then w <= h else w < h end.

Lemma inI_split Iv w : inI Iv w <-> lower_ok Iv w /\ upper_ok Iv w.
Proof. reflexivity. Qed.

Definition described (F : Qc -> option Qc) (ps : list piece) : Prop :=
  forall Iv f, In (Iv, f) ps -> forall w, inI Iv w -> F w = Some (ev f w).

(* consecutive pieces share their end point, exactly one of them contains it; the last one is unbounded *)
Fixpoint adjacent (ps : list piece) : bool :=
  match ps with
  | [] => false
  | (Iv, _) :: r =>
      match r with
      | [] => match hi Iv with None => true | Some _ => false end
      | (J, _) :: _ =>
          match hi Iv with
          | Some h => Qceqb h (lo J) && Bool.eqb (hi_in Iv) (negb (lo_in J)) && adjacent r
          | None => false
          end
      end
  end.

Definition first_lower (ps : list piece) (w : Qc) : Prop :=
  match ps with [] => False | (Iv, _) :: _ => lower_ok Iv w end.

Lemma upper_dec Iv w : {upper_ok Iv w} + {exists h, hi Iv = Some h /\ (if hi_in Iv then h < w else h <= w)}.
Proof.
  unfold upper_ok. destruct (hi Iv) as [h|]; [|left; exact Logic.I].
  destruct (hi_in Iv).
  - destruct (Qclt_le_dec h w) as [H|H]; [right; eauto|left; exact H].
  - destruct (Qclt_le_dec w h) as [H|H]; [left; exact H|right; eauto].
Qed.

Lemma adjacent_step Iv f J g r : adjacent ((Iv, f) :: (J, g) :: r) = true ->
  exists h, hi Iv = Some h /\ h = lo J /\ hi_in Iv = negb (lo_in J) /\ adjacent ((J, g) :: r) = true.
Proof.
  cbn [adjacent]. destruct (hi Iv) as [h|]; [|discriminate].
  rewrite !andb_true_iff. intros [[H1 H2] H3]. exists h. repeat split.
  - now apply Qceqb_iff.
  - now apply Bool.eqb_prop.
  - exact H3.
Qed.

Lemma next_lower Iv f J g r w : adjacent ((Iv, f) :: (J, g) :: r) = true ->
  (exists h, hi Iv = Some h /\ (if hi_in Iv then h < w else h <= w)) -> lower_ok J w.
Proof.
  intros Ha (h & Hh & Hw). destruct (adjacent_step _ _ _ _ _ Ha) as (h' & Hh' & Hl & Hin & _).
  rewrite Hh in Hh'. injection Hh' as <-. unfold lower_ok. rewrite <- Hl.
  destruct (lo_in J); cbn in Hin; rewrite Hin in Hw; exact Hw.
Qed.

Theorem cover ps : adjacent ps = true -> forall w, first_lower ps w -> exists Iv f, In (Iv, f) ps /\ inI Iv w.
Proof.
  induction ps as [|[Iv f] r IH]; [discriminate|]. intros Ha w Hl. cbn [first_lower] in Hl.
  destruct (upper_dec Iv w) as [Hu|Hn].
  - exists Iv, f. split; [now left|split; assumption].
  - destruct r as [|[J g] r'].
    + exfalso. cbn [adjacent] in Ha. destruct Hn as (h & Hh & _). rewrite Hh in Ha. discriminate.
    + destruct (adjacent_step _ _ _ _ _ Ha) as (_ & _ & _ & _ & Ha').
      destruct (IH Ha' w (next_lower _ _ _ _ _ _ Ha Hn)) as (K & k & Hin & Hw).
      exists K, k. split; [now right|exact Hw].
Qed.

(* ---------------------------------------------------------------- *)
(* non-negative *)
Definition nonneg_pieces (ps : list piece) : bool :=
  forallb (fun p => nonneg_on (fst p) (fst (snd p)) (snd (snd p))) ps.

Theorem shape_nonneg F ps : described F ps -> adjacent ps = true -> nonneg_pieces ps = true ->
  forall w, first_lower ps w -> exists y, F w = Some y /\ 0 <= y.
Proof.
  intros HD Ha Hn w Hw. destruct (cover ps Ha w Hw) as (Iv & f & Hin & HI).
  exists (ev f w). split; [apply (HD Iv f Hin w HI)|].
  unfold nonneg_pieces in Hn. rewrite forallb_forall in Hn. specialize (Hn (Iv, f) Hin). cbn in Hn.
  apply (nonneg_on_sound Iv _ _ w Hn HI).
Qed.

(* ---------------------------------------------------------------- *)
(* non-decreasing: slopes >= 0, intervals non-empty, and no drop at a junction *)
Definition wf_itv (Iv : itv1) : bool := match hi Iv with Some h => Qcleb (lo Iv) h | None => true end.

Fixpoint junctions_up (ps : list piece) : bool :=
  match ps with
  | (Iv, f) :: r =>
      match r with
      | (J, g) :: _ => match hi Iv with Some h => Qcleb (ev f h) (ev g h) | None => false end && junctions_up r
      | [] => true
      end
  | [] => true
  end.

Definition mono_pieces (ps : list piece) : bool :=
  forallb (fun p => Qcleb 0 (fst (snd p)) && wf_itv (fst p)) ps && junctions_up ps.

Lemma ev_mono f x y : 0 <= fst f -> x <= y -> ev f x <= ev f y.
Proof. unfold ev. intros. qnra. Qed.

Lemma lower_le Iv w : lower_ok Iv w -> lo Iv <= w.
Proof. unfold lower_ok. destruct (lo_in Iv); intro H; qlra. Qed.
Lemma upper_le Iv w h : hi Iv = Some h -> upper_ok Iv w -> w <= h.
Proof. unfold upper_ok. intros ->. destruct (hi_in Iv); intro H; qlra. Qed.

Lemma mono_head Iv f r : mono_pieces ((Iv, f) :: r) = true -> 0 <= fst f /\ wf_itv Iv = true.
Proof.
  unfold mono_pieces. cbn [forallb fst snd]. rewrite !andb_true_iff. intros [[[H1 H2] _] _].
  apply Qcleb_iff in H1. split; assumption.
Qed.

Lemma mono_tail Iv f J g r : mono_pieces ((Iv, f) :: (J, g) :: r) = true ->
  mono_pieces ((J, g) :: r) = true /\ exists h, hi Iv = Some h /\ ev f h <= ev g h.
Proof.
  unfold mono_pieces. cbn [forallb junctions_up]. destruct (hi Iv) as [h|].
  - rewrite !andb_true_iff. intros [[_ Hall] [Hj Hjs]]. split.
    + split; [exact Hall|exact Hjs].
    + exists h. split; [reflexivity|now apply Qcleb_iff].
  - rewrite !andb_true_iff. intros [_ [Hj _]]. discriminate.
Qed.

(* from a point at or below the upper end of the first piece to any point of a later piece *)
Lemma later_ge : forall ps Iv f, adjacent ((Iv, f) :: ps) = true -> mono_pieces ((Iv, f) :: ps) = true ->
  forall x h, hi Iv = Some h -> x <= h ->
  forall J g w, In (J, g) ps -> inI J w -> ev f x <= ev g w.
Proof.
  induction ps as [|[K k] r IH]; intros Iv f Ha Hm x h Hh Hx J g w Hin HJ; [contradiction|].
  destruct (adjacent_step _ _ _ _ _ Ha) as (h' & Hh' & Hl & _ & Ha').
  rewrite Hh in Hh'. injection Hh' as <-.
  destruct (mono_head _ _ _ Hm) as [Hf _].
  destruct (mono_tail _ _ _ _ _ Hm) as (Hm' & h2 & Hh2 & Hj). rewrite Hh in Hh2. injection Hh2 as <-.
  destruct (mono_head _ _ _ Hm') as [Hk Hwf].
  assert (S1 : ev f x <= ev k h) by (pose proof (ev_mono f x h Hf Hx); qlra).
  destruct Hin as [E|Hin].
  - injection E as <- <-. destruct HJ as [HJl _]. apply lower_le in HJl. rewrite <- Hl in HJl.
    pose proof (ev_mono k h w Hk HJl). qlra.
  - destruct r as [|[L l] r']; [contradiction|].
    destruct (adjacent_step _ _ _ _ _ Ha') as (hK & HhK & _ & _ & _).
    assert (HhK' : h <= hK).
    { unfold wf_itv in Hwf. rewrite HhK in Hwf. apply Qcleb_iff in Hwf. rewrite Hl. exact Hwf. }
    pose proof (IH K k Ha' Hm' h hK HhK HhK' J g w Hin HJ). qlra.
Qed.

Theorem shape_monotone_pieces : forall ps, adjacent ps = true -> mono_pieces ps = true ->
  forall w1 w2, first_lower ps w1 -> w1 <= w2 ->
  exists Iv f J g, In (Iv, f) ps /\ In (J, g) ps /\ inI Iv w1 /\ inI J w2 /\ ev f w1 <= ev g w2.
Proof.
  induction ps as [|[Iv f] r IH]; [discriminate|]. intros Ha Hm w1 w2 Hl Hle. cbn [first_lower] in Hl.
  destruct (mono_head _ _ _ Hm) as [Hf _].
  destruct (upper_dec Iv w2) as [Hu2|Hn2].
  - (* both in the first piece *)
    assert (Hu1 : upper_ok Iv w1).
    { unfold upper_ok in *. destruct (hi Iv) as [h|]; [|exact Logic.I]. destruct (hi_in Iv); qlra. }
    assert (Hl2 : lower_ok Iv w2) by (unfold lower_ok in *; destruct (lo_in Iv); qlra).
    exists Iv, f, Iv, f.
    split; [now left|split; [now left|split; [split; assumption|split; [split; assumption|apply ev_mono; assumption]]]].
  - destruct r as [|[J g] r'].
    + exfalso. cbn [adjacent] in Ha. destruct Hn2 as (h & Hh & _). rewrite Hh in Ha. discriminate.
    + destruct (adjacent_step _ _ _ _ _ Ha) as (h & Hh & HlJ & Hin & Ha').
      destruct (mono_tail _ _ _ _ _ Hm) as (Hm' & _).
      pose proof (next_lower _ _ _ _ _ _ Ha Hn2) as HlJ2.
      destruct (upper_dec Iv w1) as [Hu1|Hn1].
      * (* w1 in the first piece, w2 later *)
        destruct (cover _ Ha' w2 HlJ2) as (K & k & HinK & HK).
        exists Iv, f, K, k.
        split; [now left|split; [now right|split; [split; assumption|split; [exact HK|]]]].
        apply (later_ge ((J, g) :: r') Iv f Ha Hm w1 h Hh (upper_le Iv w1 h Hh Hu1) K k w2 HinK HK).
      * (* both later *)
        pose proof (next_lower _ _ _ _ _ _ Ha Hn1) as HlJ1.
        destruct (IH Ha' Hm' w1 w2 HlJ1 Hle) as (K & k & L & l & H1 & H2 & H3 & H4 & H5).
        exists K, k, L, l. split; [now right|split; [now right|split; [exact H3|split; [exact H4|exact H5]]]].
Qed.

Theorem shape_monotone F ps : described F ps -> adjacent ps = true -> mono_pieces ps = true ->
  forall w1 w2, first_lower ps w1 -> w1 <= w2 ->
  exists y1 y2, F w1 = Some y1 /\ F w2 = Some y2 /\ y1 <= y2.
Proof.
  intros HD Ha Hm w1 w2 Hl Hle.
  destruct (shape_monotone_pieces ps Ha Hm w1 w2 Hl Hle) as (Iv & f & J & g & H1 & H2 & H3 & H4 & H5).
  exists (ev f w1), (ev g w2). repeat split; [apply (HD Iv f H1 w1 H3)|apply (HD J g H2 w2 H4)|exact H5].
Qed.

(* ---------------------------------------------------------------- *)
(* zero up to (and including) a threshold G: every piece is identically zero or lies above G *)
Definition above (Iv : itv1) (G : Qc) : bool := if lo_in Iv then Qcltb G (lo Iv) else Qcleb G (lo Iv).

Definition zero_upto (G : Qc) (ps : list piece) : bool :=
  forallb (fun p => (Qceqb (fst (snd p)) 0 && Qceqb (snd (snd p)) 0) || above (fst p) G) ps.

Theorem shape_zero_upto F ps G : described F ps -> adjacent ps = true -> zero_upto G ps = true ->
  forall w, first_lower ps w -> w <= G -> F w = Some 0.
Proof.
  intros HD Ha Hz w Hl HG. destruct (cover ps Ha w Hl) as (Iv & f & Hin & HI).
  rewrite (HD Iv f Hin w HI). unfold zero_upto in Hz. rewrite forallb_forall in Hz. specialize (Hz (Iv, f) Hin).
  cbn [fst snd] in Hz. apply orb_true_iff in Hz as [Hz|Hz].
  - apply andb_true_iff in Hz as [H1 H2]. apply Qceqb_iff in H1, H2. unfold ev. rewrite H1, H2. f_equal; try ring.
  - exfalso. destruct HI as [HIl _]. unfold above in Hz. unfold lower_ok in HIl. destruct (lo_in Iv).
    + apply Qcltb_iff in Hz. qlra.
    + apply Qcleb_iff in Hz. qlra.
Qed.

(* constant from a ceiling C on: every piece is the constant K or lies below C *)
Definition below (Iv : itv1) (C : Qc) : bool :=
  match hi Iv with Some h => if hi_in Iv then Qcltb h C else Qcleb h C | None => false end.

Definition const_from (C K : Qc) (ps : list piece) : bool :=
  forallb (fun p => (Qceqb (fst (snd p)) 0 && Qceqb (snd (snd p)) K) || below (fst p) C) ps.

Theorem shape_const_from F ps C K : described F ps -> adjacent ps = true -> const_from C K ps = true ->
  forall w, first_lower ps w -> C <= w -> F w = Some K.
Proof.
  intros HD Ha Hz w Hl HC. destruct (cover ps Ha w Hl) as (Iv & f & Hin & HI).
  rewrite (HD Iv f Hin w HI). unfold const_from in Hz. rewrite forallb_forall in Hz. specialize (Hz (Iv, f) Hin).
  cbn [fst snd] in Hz. apply orb_true_iff in Hz as [Hz|Hz].
  - apply andb_true_iff in Hz as [H1 H2]. apply Qceqb_iff in H1, H2. unfold ev. rewrite H1, H2. f_equal; try ring.
  - exfalso. destruct HI as [_ HIu]. unfold below in Hz. unfold upper_ok in HIu. destruct (hi Iv) as [h|]; [|discriminate].
    destruct (hi_in Iv).
    + apply Qcltb_iff in Hz. qlra.
    + apply Qcleb_iff in Hz. qlra.
Qed.

(* continuity at a boundary U: every piece that touches U takes there the value V *)
Definition touches (Iv : itv1) (U : Qc) : bool :=
  Qcleb (lo Iv) U && match hi Iv with Some h => Qcleb U h | None => true end.

Definition meets_at (U V : Qc) (ps : list piece) : bool :=
  forallb (fun p => negb (touches (fst p) U) || Qceqb (ev (snd p) U) V) ps.

Theorem shape_meets F ps U V : described F ps -> adjacent ps = true -> meets_at U V ps = true ->
  first_lower ps U ->
  F U = Some V /\
  forall Iv f, In (Iv, f) ps -> touches Iv U = true -> ev f U = V /\ forall w, inI Iv w -> F w = Some (ev f w).
Proof.
  intros HD Ha Hm Hl. unfold meets_at in Hm. rewrite forallb_forall in Hm. split.
  - destruct (cover ps Ha U Hl) as (Iv & f & Hin & HI). rewrite (HD Iv f Hin U HI). f_equal.
    specialize (Hm (Iv, f) Hin). cbn [fst snd] in Hm. apply orb_true_iff in Hm as [Hm|Hm]; [|now apply Qceqb_iff].
    exfalso. apply negb_true_iff in Hm. unfold touches in Hm. destruct HI as [H1 H2].
    apply lower_le in H1. apply Qcleb_iff in H1. rewrite H1 in Hm. cbn [andb] in Hm.
    unfold upper_ok in H2. destruct (hi Iv) as [h|]; [|discriminate].
    assert (U <= h) by (destruct (hi_in Iv); qlra). apply Qcleb_iff in H. congruence.
  - intros Iv f Hin Ht. split; [|intros w HI; apply (HD Iv f Hin w HI)].
    specialize (Hm (Iv, f) Hin). cbn [fst snd] in Hm. rewrite Ht in Hm. cbn in Hm. now apply Qceqb_iff.
Qed.

(* additivity of three described functions on a band (G, U]: on common intervals *)
Definition piece3 := (itv1 * (aff * aff * aff))%type.

Definition described3 (F1 F2 F3 : Qc -> option Qc) (ps : list piece3) : Prop :=
  forall Iv f1 f2 f3, In (Iv, (f1, f2, f3)) ps -> forall w, inI Iv w ->
    F1 w = Some (ev f1 w) /\ F2 w = Some (ev f2 w) /\ F3 w = Some (ev f3 w).

Definition proj1_3 (ps : list piece3) : list piece := map (fun p => (fst p, fst (fst (snd p)))) ps.

Definition outside_band (Iv : itv1) (G U : Qc) : bool :=
  match hi Iv with Some h => Qcleb h G | None => false end || above Iv U.

Definition sums_band (G U : Qc) (ps : list piece3) : bool :=
  forallb (fun p => let '(Iv, (f1, f2, f3)) := p in
                    outside_band Iv G U || (Qceqb (fst f1 + fst f2) (fst f3) && Qceqb (snd f1 + snd f2) (snd f3))) ps.

Theorem shape_sum F1 F2 F3 ps G U : described3 F1 F2 F3 ps -> adjacent (proj1_3 ps) = true -> sums_band G U ps = true ->
  forall w, first_lower (proj1_3 ps) w -> G < w -> w <= U ->
  exists y1 y2 y3, F1 w = Some y1 /\ F2 w = Some y2 /\ F3 w = Some y3 /\ y1 + y2 = y3.
Proof.
  intros HD Ha Hs w Hl HG HU. destruct (cover _ Ha w Hl) as (Iv & f & Hin & HI).
  unfold proj1_3 in Hin. apply in_map_iff in Hin as ([Iv' [[f1 f2] f3]] & E & Hin). cbn in E. injection E as -> ->.
  destruct (HD Iv f f2 f3 Hin w HI) as (H1 & H2 & H3).
  exists (ev f w), (ev f2 w), (ev f3 w). repeat split; try assumption.
  unfold sums_band in Hs. rewrite forallb_forall in Hs. specialize (Hs _ Hin). cbn in Hs.
  apply orb_true_iff in Hs as [Hs|Hs].
  - exfalso. unfold outside_band in Hs. apply orb_true_iff in Hs as [Hs|Hs].
    + destruct HI as [_ HIu]. unfold upper_ok in HIu. destruct (hi Iv) as [h|]; [|discriminate].
      apply Qcleb_iff in Hs. destruct (hi_in Iv); qlra.
    + destruct HI as [HIl _]. unfold above in Hs. unfold lower_ok in HIl. destruct (lo_in Iv).
      * apply Qcltb_iff in Hs. qlra.
      * apply Qcleb_iff in Hs. qlra.
  - apply andb_true_iff in Hs as [Ha' Hb']. apply Qceqb_iff in Ha', Hb'. unfold ev. rewrite <- Ha', <- Hb'. ring.
Qed.
