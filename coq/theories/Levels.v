(* Levels.v — property C15: columns carrying a group suffix are constant within the group.
   (1) a general theorem: along any evaluation, the set K of columns that are constant on the
       classes of an equivalence E is preserved by pointwise nodes all of whose arguments are
       in K, and by nodes that are constant by construction (aggregates over a coarser group);
   (2) a dataflow analysis on the regenerated dependency graph computing, per grouping level g,
       the set of nodes that (1) proves constant on g, and the list of nodes named *_g that are
       NOT in it together with the argument that breaks constancy. *)
From Coq Require Import ZArith Bool String List Lia.
From GettsimModel Require Import Val Engine Dag TimeConv.
Import ListNotations.
Open Scope string_scope.

Section GroupConstant.
  Variable A : Type.
  Notation col := (list A).
  Variable E : nat -> nat -> Prop.          (* "row i and row j are in the same group" *)

  Definition econst (c : col) : Prop := forall i j, E i j -> nth_error c i = nth_error c j.

  (* the result at a row depends only on the arguments at that row (numpy.vectorize of a scalar
     rule, time-unit conversion) *)
  Definition pointwise (op : list col -> res col) : Prop :=
    forall cs out, op cs = Ok out -> forall i j,
      (forall c, In c cs -> nth_error c i = nth_error c j) -> nth_error out i = nth_error out j.

  (* constant by construction (aggregate over the group or a coarser one) *)
  Definition always_const (op : list col -> res col) : Prop :=
    forall cs out, op cs = Ok out -> econst out.

  Lemma pointwise_const op cs out :
    pointwise op -> (forall c, In c cs -> econst c) -> op cs = Ok out -> econst out.
  Proof.
    intros Hp Hc Ho i j Hij. apply (Hp cs out Ho i j). intros c Hin. apply (Hc c Hin i j Hij).
  Qed.

  Lemma get_all_in K (e : tbl col) : forall xs cs,
    (forall x c, K x = true -> tget col x e = Some c -> econst c) ->
    (forall a, In a xs -> K a = true) -> get_all col xs e = Ok cs ->
    forall c, In c cs -> econst c.
  Proof.
    induction xs as [|x r IH]; intros cs He Hk Hg c Hin; cbn in Hg.
    - injection Hg as <-. contradiction.
    - destruct (tget col x e) as [cx|] eqn:Ex; [|discriminate].
      destruct (get_all col r e) as [cr|] eqn:Er; [|discriminate]. cbn in Hg. injection Hg as <-.
      destruct Hin as [<-|Hin].
      + apply (He x cx (Hk x (or_introl eq_refl)) Ex).
      + apply (IH cr He (fun a Ha => Hk a (or_intror Ha)) eq_refl c Hin).
  Qed.

  Theorem group_constant (K : string -> bool) : forall (S : list (node col)) e t,
    (forall n, In n S -> K (nm col n) = true ->
       (pointwise (nop col n) /\ forall a, In a (nargs col n) -> K a = true) \/ always_const (nop col n)) ->
    (forall x c, K x = true -> tget col x e = Some c -> econst c) ->
    run col S e = Ok t ->
    forall x c, K x = true -> tget col x t = Some c -> econst c.
  Proof.
    induction S as [|n r IH]; intros e t Hn He Hr x c Hx Hc; cbn in Hr.
    - injection Hr as <-. apply (He x c Hx Hc).
    - unfold step in Hr at 1. cbn [bind] in Hr.
      destruct (get_all col (nargs col n) e) as [cs|] eqn:G; [|discriminate]. cbn [bind] in Hr.
      destruct (nop col n cs) as [cn|] eqn:O; [|discriminate]. cbn [bind] in Hr.
      apply (IH _ t (fun m Hm => Hn m (or_intror Hm))) with (x := x) (c := c) in Hr; auto.
      intros y cy Hy Hcy. cbn in Hcy. destruct (String.eqb y (nm col n)) eqn:Ey.
      + apply String.eqb_eq in Ey. subst y. injection Hcy as <-.
        destruct (Hn n (or_introl eq_refl) Hy) as [[Hp Ha]|Hac].
        * apply (pointwise_const _ cs cn Hp); [|exact O]. apply (get_all_in K e _ cs He Ha G).
        * apply (Hac cs cn O).
      + apply (He y cy Hy Hcy).
  Qed.
End GroupConstant.

(* ---------------------------------------------------------------- *)
(* dataflow on the regenerated graph                                  *)

Definition groups : list string := ["hh"; "wthh"; "fg"; "bg"; "eg"; "ehe"; "sn"].

(* g is finer than or equal to g' (classes of g lie inside classes of g'):
   bg < fg < hh ; eg < fg ; ehe < eg ; sn < ehe ; bg < wthh < hh   (C12) *)
Definition finer_eq (g g' : string) : bool :=
  String.eqb g g' ||
  existsb (fun p => String.eqb g (fst p) && String.eqb g' (snd p))
    [("bg", "fg"); ("fg", "hh"); ("bg", "hh"); ("eg", "fg"); ("eg", "hh"); ("ehe", "eg"); ("ehe", "fg");
     ("ehe", "hh"); ("sn", "ehe"); ("sn", "eg"); ("sn", "fg"); ("sn", "hh"); ("bg", "wthh"); ("wthh", "hh")].

(* the grouping level a NAME announces: suffix _g, or g_id *)
Definition level_of_name (s : string) : option string :=
  match strip_suffix "_id" s with
  | Some g => if smem g groups then Some g else None
  | None =>
      fold_left (fun acc g => match acc with
                              | Some _ => acc
                              | None => match strip_suffix ("_" ++ g) s with Some _ => Some g | None => None end
                              end) groups None
  end.

(* is a data column constant on g by its documented level? *)
Definition data_const (g : string) (c : string) : bool :=
  match level_of_name c with Some g' => finer_eq g g' | None => false end.

(* nodes proved constant on g, scanning in topological order *)
Fixpoint const_on (g : string) (data : list string) (S : list dnode) (acc : list string) : list string :=
  match S with
  | [] => acc
  | n :: r =>
      let arg_ok := fun a => smem a acc || (smem a data && data_const g a) in
      let ok :=
        match d_kind n with
        | KRule _ _ _ => forallb arg_ok (d_args n)
        | KTimeConv _ _ => forallb arg_ok (d_args n)
        | KGroupAgg _ => match level_of_name (d_name n) with Some g' => finer_eq g g' | None => false end
        | KGrouping => match level_of_name (d_name n) with Some g' => finer_eq g g' | None => false end
        | KPidAgg _ => false
        | KJoin _ _ _ _ _ => false
        end in
      if ok then const_on g data r (d_name n :: acc) else const_on g data r acc
  end.

(* nodes named *_g (rules and conversions) that the analysis cannot prove constant on g, with the
   first argument that is not constant on g *)
Definition level_offenders (data : list string) (S : list dnode) : list (string * string) :=
  flat_map (fun g =>
    let K := const_on g data S [] in
    flat_map (fun n =>
      match level_of_name (d_name n), d_kind n with
      | Some g', KRule _ _ _ | Some g', KTimeConv _ _ =>
          if String.eqb g g' && negb (smem (d_name n) K) && negb (String.eqb (d_name n) (g ++ "_id")) then
            match filter (fun a => negb (smem a K || (smem a data && data_const g a))) (d_args n) with
            | [] => [(d_name n, "<?>")]
            | l => map (fun a => (d_name n, a)) l
            end
          else []
      | _, _ => []
      end) S) groups.

(* root offenders: the offending argument is not itself an offending group-level node *)
Definition root_offenders (offs : list (string * string)) : list (string * string) :=
  filter (fun p => negb (existsb (fun q => String.eqb (fst q) (snd p)) offs)) offs.

Definition pair_mem (p : string * string) (l : list (string * string)) : bool :=
  existsb (fun q => String.eqb (fst p) (fst q) && String.eqb (snd p) (snd q)) l.

(* every group-level node of the graph is proved constant on its group, except downstream of the
   listed (node, argument) pairs *)
Definition levels_ok_except (known : list (string * string)) (data : list string) (S : list dnode) : bool :=
  forallb (fun p => pair_mem p known) (root_offenders (level_offenders data S)).

Definition show_pairs (l : list (string * string)) : string :=
  String.concat ";" (map (fun p => fst p ++ "<-" ++ snd p) l).

Example level_examples :
  level_of_name "arbeitsl_geld_2_m_bg" = Some "bg" /\ level_of_name "hh_id" = Some "hh"
  /\ level_of_name "bruttolohn_m" = None /\ level_of_name "p_id" = None
  /\ finer_eq "bg" "hh" = true /\ finer_eq "hh" "bg" = false /\ finer_eq "eg" "bg" = false.
Proof. vm_compute. repeat split; reflexivity. Qed.
