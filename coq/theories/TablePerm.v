(* TablePerm.v — property C01, end to end on the model: the concrete engine Table.run_table commutes
   with every permutation of the rows.  If the run on a table succeeds, the run on the row-permuted
   table succeeds and every computed column is the permuted column.  Proved node kind by node kind
   (rules with their declared dtype and statutory rounding, unit conversions, group reductions,
   joins, sums by person pointer); the id builders renumber groups in row order and are covered
   by C12 instead (partitions), so here the id columns are supplied. *)
From Coq Require Import ZArith QArith Qcanon Bool String List Lia Permutation.
From GettsimModel Require Import Num NumTac Val Ast Eval PolicyEnv Rounding Column Aggregation Groupings
     Engine Dag Scalar Perm Table XqOrder SbpPerm.
Import ListNotations.
Open Scope string_scope.

Lemma pack_perm_ok t p vs c : perm_of p (length vs) -> pack t vs = Ok c -> pack t (pl VNone p vs) = Ok (permute_col p c).
Proof.
  intros Hp H. pose proof (pack_perm t p vs Hp) as R. rewrite H in R. unfold res_rel in R.
  destruct (pack t (pl VNone p vs)); [subst; reflexivity | contradiction].
Qed.


Lemma combine_pl {A B} (da : A) (db : B) p (la : list A) (lb : list B) : length la = length lb ->
  (forall j, In j p -> (j < length la)%nat) -> combine (pl da p la) (pl db p lb) = pl (da, db) p (combine la lb).
Proof.
  intros Hl Hlt. unfold pl. induction p as [|j q IH]; cbn; [reflexivity|]. f_equal.
  - symmetry. apply combine_nth. exact Hl.
  - apply IH. intros k Hk. apply Hlt. right. exact Hk.
Qed.

Lemma grouped_total_perm {A} (op : A -> A -> A) (d dl : A) p (g : list Z) (l : list A) :
  (forall a b, op a b = op b a) -> (forall a b c, op (op a b) c = op a (op b c)) ->
  length g = length l -> perm_of p (length g) ->
  grouped_total op d (pl 0%Z p g) (pl dl p l) = pl dl p (grouped_total op d g l).
Proof.
  intros Hc Ha Hlen Hp. destruct Hp as (Hl & Hlt & Hsur).
  unfold grouped_total, grouped.
  rewrite (combine_pl 0%Z dl p g l Hlen Hlt).
  assert (Hperm : Permutation (combine g l) (pl (0%Z, dl) p (combine g l))).
  { apply pl_permutation. rewrite combine_length, <- Hlen, Nat.min_id. repeat split; assumption. }
  rewrite map_map.
  transitivity (map (fun k => match alookup k (accumulate op (combine g l)) with Some a => a | None => d end) (pl 0%Z p g)).
  - apply map_ext. intro k. rewrite (group_entry_order_free op Hc Ha k _ _ (Permutation_sym Hperm)). reflexivity.
  - rewrite map_map. unfold pl. rewrite !map_map. apply map_ext_in. intros j Hj.
    rewrite (nth_indep (map _ g) dl ((fun k => match alookup k (accumulate op (combine g l)) with Some a => a | None => d end) 0%Z))
      by (rewrite map_length; apply Hlt; exact Hj).
    symmetry. apply (map_nth (fun k => match alookup k (accumulate op (combine g l)) with Some a => a | None => d end) g 0%Z j).
Qed.


(* ---- nodup_z, index_of under permutations ---- *)
Lemma nodup_z_iff l : nodup_z l = true <-> NoDup l.
Proof.
  induction l as [|x r IH]; cbn; [split; [constructor | reflexivity]|].
  rewrite andb_true_iff, negb_true_iff, IH. split.
  - intros [H1 H2]. constructor; [|exact H2]. intro Hin. assert (E : existsb (Z.eqb x) r = true) by (apply existsb_exists; exists x; split; [exact Hin | apply Z.eqb_refl]). congruence.
  - intro H. inversion H as [|? ? Hn Hr]; subst. split; [|exact Hr].
    destruct (existsb (Z.eqb x) r) eqn:E; [|reflexivity]. apply existsb_exists in E. destruct E as (y & Hy & Ey). apply Z.eqb_eq in Ey. subst. contradiction.
Qed.

Lemma in_pl {A} (d : A) p l x : (forall j, In j p -> (j < length l)%nat) -> In x (pl d p l) -> In x l.
Proof. intros Hlt H. unfold pl in H. apply in_map_iff in H. destruct H as (j & <- & Hj). apply nth_In. apply Hlt. exact Hj. Qed.

Lemma in_pl_rev {A} (d : A) p l x : perm_of p (length l) -> In x l -> In x (pl d p l).
Proof. intros Hp H. apply (Permutation_in x (pl_permutation d p l Hp) H). Qed.

Lemma existsb_eq_pl p l k : perm_of p (length l) -> existsb (Z.eqb k) (pl 0%Z p l) = existsb (Z.eqb k) l.
Proof.
  intro Hp. destruct (existsb (Z.eqb k) l) eqn:E.
  - apply existsb_exists in E. destruct E as (y & Hy & Ey). apply existsb_exists. exists y. split; [apply in_pl_rev; assumption | exact Ey].
  - destruct (existsb (Z.eqb k) (pl 0%Z p l)) eqn:E2; [|reflexivity]. apply existsb_exists in E2. destruct E2 as (y & Hy & Ey).
    assert (existsb (Z.eqb k) l = true) by (apply existsb_exists; exists y; split; [apply (in_pl 0%Z p l y (proj1 (proj2 Hp)) Hy) | exact Ey]). congruence.
Qed.

Lemma index_of_in k l : forall i, In k l -> exists j, index_of k l i = Some j.
Proof.
  induction l as [|x r IH]; intros i H; [contradiction|]. cbn. destruct (k =? x)%Z eqn:E; [eexists; reflexivity|].
  destruct H as [<-|H]; [rewrite Z.eqb_refl in E; discriminate | apply IH; exact H].
Qed.

(* the joined value of key k does not depend on the row order of the primary keys *)
Lemma join_pick_perm {A} (dflt : A) p pk (target : list A) k : NoDup pk -> length target = length pk -> perm_of p (length pk) ->
  match index_of k (pl 0%Z p pk) 0 with Some j => nth j (pl dflt p target) dflt | None => dflt end =
  match index_of k pk 0 with Some j => nth j target dflt | None => dflt end.
Proof.
  intros Hnd Hlen Hp. destruct (index_of k pk 0) as [j|] eqn:E.
  - destruct (index_of_spec k pk 0 j E) as [Hj _]. rewrite Nat.sub_0_r in Hj.
    assert (Hin : In k (pl 0%Z p pk)) by (apply in_pl_rev; [exact Hp | apply (nth_error_In _ _ Hj)]).
    destruct (index_of_in k (pl 0%Z p pk) 0 Hin) as (j' & E'). rewrite E'.
    destruct (index_of_spec k _ 0 j' E') as [Hj' _]. rewrite Nat.sub_0_r in Hj'.
    assert (Hlt' : (j' < length p)%nat) by (rewrite <- (pl_length 0%Z p pk); apply nth_error_Some; congruence).
    unfold pl in Hj'. rewrite nth_error_map in Hj'. destruct (nth_error p j') as [q|] eqn:Eq; [|discriminate]. cbn in Hj'. injection Hj' as Hq.
    assert (Hq_lt : (q < length pk)%nat) by (apply (proj1 (proj2 Hp)); apply (nth_error_In _ _ Eq)).
    assert (q = j).
    { apply (proj1 (NoDup_nth pk 0%Z) Hnd); [exact Hq_lt | apply nth_error_Some; congruence |].
      rewrite Hq. symmetry. apply nth_error_nth. exact Hj. }
    subst q. unfold pl. rewrite (nth_indep (map _ p) dflt ((fun i => nth i target dflt) 0%nat)) by (rewrite map_length; exact Hlt').
    rewrite (map_nth (fun i => nth i target dflt) p 0%nat j'). rewrite (nth_error_nth p j' 0%nat Eq). reflexivity.
  - pose proof (index_of_none k pk 0 E) as Hn.
    destruct (index_of k (pl 0%Z p pk) 0) as [j'|] eqn:E'; [|reflexivity]. exfalso. apply Hn.
    destruct (index_of_spec k _ 0 j' E') as [Hj' _]. rewrite Nat.sub_0_r in Hj'. apply (in_pl 0%Z p pk k (proj1 (proj2 Hp))). apply (nth_error_In _ _ Hj').
Qed.

Lemma join_list_perm {A} (dflt : A) p fk pk (target : list A) out :
  length fk = length pk -> length target = length pk -> perm_of p (length pk) ->
  join_list fk pk target dflt = Ok out ->
  join_list (pl 0%Z p fk) (pl 0%Z p pk) (pl dflt p target) dflt = Ok (pl dflt p out) /\ length out = length fk.
Proof.
  intros Lf Lt Hp H. unfold join_list in *.
  destruct (nodup_z pk) eqn:End; cbn [negb] in *; [|discriminate].
  destruct (existsb _ fk) eqn:Eb; [discriminate|]. injection H as <-.
  assert (Hnd : NoDup pk) by (apply nodup_z_iff; exact End).
  assert (End' : nodup_z (pl 0%Z p pk) = true).
  { apply nodup_z_iff. apply (Permutation_NoDup (pl_permutation 0%Z p pk Hp) Hnd). }
  rewrite End'. cbn [negb].
  assert (Eb' : existsb (fun k => (0 <=? k)%Z && negb (existsb (Z.eqb k) (pl 0%Z p pk))) (pl 0%Z p fk) = false).
  { destruct (existsb _ (pl 0%Z p fk)) eqn:E2; [|reflexivity]. apply existsb_exists in E2. destruct E2 as (k & Hk & Ek).
    rewrite (existsb_eq_pl p pk k Hp) in Ek.
    assert (existsb (fun k0 => (0 <=? k0)%Z && negb (existsb (Z.eqb k0) pk)) fk = true).
    { apply existsb_exists. exists k. split; [|exact Ek]. apply (in_pl 0%Z p fk k); [rewrite Lf; exact (proj1 (proj2 Hp)) | exact Hk]. }
    congruence. }
  rewrite Eb'. split; [|apply map_length]. f_equal.
  transitivity (map (fun k => match index_of k pk 0 with Some j => nth j target dflt | None => dflt end) (pl 0%Z p fk)).
  - apply map_ext. intro k. apply (join_pick_perm dflt p pk target k Hnd Lt Hp).
  - symmetry. apply pl_map_any. intros j Hj. rewrite Lf. apply (proj1 (proj2 Hp)). exact Hj.
Qed.

Lemma get_all_cons_inv x r e cs : get_all column (x :: r) e = Ok cs ->
  exists c cr, cs = c :: cr /\ tget column x e = Some c /\ get_all column r e = Ok cr.
Proof.
  cbn. destruct (tget column x e) as [c|]; [|discriminate]. destruct (get_all column r e) as [cr|]; cbn; [|discriminate].
  intro H. injection H as <-. exists c, cr. auto.
Qed.

Lemma perm_of_lt p n j : perm_of p n -> In j p -> (j < n)%nat.
Proof. intros (_ & H & _). apply H. Qed.

Section TP.
  Variable ft : ftable.
  Variable P : params.
  Variable rounding : bool.
  Variable nrows : nat.
  Variable p : list nat.
  Hypothesis Hp : perm_of p nrows.

  Definition pc (c : column) : column := permute_col p c.

  Definition tab_rel (e1 e2 : tbl column) : Prop :=
    forall x, match tget column x e1 with
              | Some c1 => col_len c1 = nrows /\ tget column x e2 = Some (pc c1)
              | None => tget column x e2 = None
              end.

  (* the p_id column has no duplicates (the engine validates it); sums by person pointer read it as their third argument *)
  Definition pid_inv (e : tbl column) : Prop :=
    forall c ids, tget column "p_id" e = Some c -> col_ints c = Ok ids -> NoDup ids.

  Definition pid_arg (n : dnode) : Prop :=
    match d_kind n with KPidAgg _ => nth_error (d_args n) 2 = Some "p_id" | _ => True end.

  Definition node_perm (n : dnode) : Prop := forall e cs c,
    pid_inv e -> get_all column (d_args n) e = Ok cs ->
    Forall (fun c0 => col_len c0 = nrows) cs -> sem ft P rounding nrows n cs = Ok c ->
    col_len c = nrows /\ sem ft P rounding nrows n (map pc cs) = Ok (pc c).

  Lemma get_all_rel xs : forall e1 e2 cs, tab_rel e1 e2 -> get_all column xs e1 = Ok cs ->
    get_all column xs e2 = Ok (map pc cs) /\ Forall (fun c0 => col_len c0 = nrows) cs.
  Proof.
    induction xs as [|x r IH]; intros e1 e2 cs Hr H; cbn in H.
    - injection H as <-. split; [reflexivity | constructor].
    - specialize (Hr x) as Hx. destruct (tget column x e1) as [c|] eqn:E; [|discriminate].
      destruct (get_all column r e1) as [cr|] eqn:Er; cbn in H; [|discriminate]. injection H as <-.
      destruct Hx as [Hl Hx]. destruct (IH e1 e2 cr Hr Er) as [H1 H2]. cbn. rewrite Hx, H1. cbn.
      split; [reflexivity | constructor; assumption].
  Qed.

  Lemma tab_rel_cons e1 e2 x c : tab_rel e1 e2 -> col_len c = nrows -> tab_rel ((x, c) :: e1) ((x, pc c) :: e2).
  Proof.
    intros Hr Hl y. cbn. destruct (String.eqb y x); [split; [exact Hl | reflexivity] | apply Hr].
  Qed.

  Theorem table_perm : forall S e1 e2 t1,
    (forall n, In n S -> node_perm n) -> (forall n, In n S -> d_name n <> "p_id") -> pid_inv e1 -> tab_rel e1 e2 ->
    run column (to_sys column (sem ft P rounding nrows) S) e1 = Ok t1 ->
    exists t2, run column (to_sys column (sem ft P rounding nrows) S) e2 = Ok t2 /\ tab_rel t1 t2.
  Proof.
    induction S as [|n r IH]; intros e1 e2 t1 HS Hnm Hinv Hr H; cbn in H.
    - injection H as <-. exists e2. split; [reflexivity | exact Hr].
    - unfold step in H at 1. cbn [nargs nop nm to_node] in H.
      destruct (get_all column (d_args n) e1) as [cs|] eqn:Eg; cbn [bind] in H; [|discriminate].
      destruct (sem ft P rounding nrows n cs) as [c|] eqn:Es; cbn [bind] in H; [|discriminate].
      destruct (get_all_rel _ e1 e2 cs Hr Eg) as [Eg2 Hlen].
      destruct (HS n (or_introl eq_refl) e1 cs c Hinv Eg Hlen Es) as [Hl Es2].
      destruct (IH ((d_name n, c) :: e1) ((d_name n, pc c) :: e2) t1) as (t2 & Hr2 & Ht2);
        [intros m Hm; apply HS; right; exact Hm | intros m Hm; apply Hnm; right; exact Hm | | apply tab_rel_cons; assumption | exact H |].
      { intros c' ids Ht. cbn [tget] in Ht. destruct (String.eqb "p_id" (d_name n)) eqn:E; [|apply Hinv; exact Ht].
        apply String.eqb_eq in E. exfalso. apply (Hnm n (or_introl eq_refl)). symmetry. exact E. }
      exists t2. split; [|exact Ht2]. cbn. unfold step at 1. cbn [nargs nop nm to_node]. rewrite Eg2. cbn [bind]. rewrite Es2. cbn [bind]. exact Hr2.
  Qed.

  (* ---- columns computed cell by cell (unit conversion, rounding) ---- *)
  Lemma col_vals_pc c : col_len c = nrows -> col_vals (pc c) = pl VNone p (col_vals c).
  Proof. intro H. apply col_vals_permute. intros j Hj. rewrite H. apply (perm_of_lt p nrows j Hp Hj). Qed.

  Lemma cellwise_perm (g : val -> res val) t c vs c' : col_len c = nrows ->
    mapM_res g (col_vals c) = Ok vs -> pack t vs = Ok c' ->
    mapM_res g (col_vals (pc c)) = Ok (pl VNone p vs) /\ pack t (pl VNone p vs) = Ok (pc c') /\ col_len c' = nrows.
  Proof.
    intros Hl Hm Hk. rewrite (col_vals_pc c Hl).
    assert (Lv : length vs = nrows) by (rewrite (mapM_res_length _ _ _ Hm), col_vals_length; exact Hl).
    split; [|split].
    - apply (mapM_res_perm_ok g VNone VNone p (col_vals c) vs); [|exact Hm].
      intros j Hj. rewrite col_vals_length, Hl. apply (perm_of_lt p nrows j Hp Hj).
    - apply pack_perm_ok; [rewrite Lv; exact Hp | exact Hk].
    - destruct (pack_inv t vs c' Hk) as (_ & ws & Hws & Hcv). rewrite <- col_vals_length, Hcv, (mapM_res_length _ _ _ Hws). exact Lv.
  Qed.

  Lemma node_perm_timeconv n num den : d_kind n = KTimeConv num den -> node_perm n.
  Proof.
    intros Hk e cs c _ _ Hlen Es. unfold sem in *. rewrite Hk in *.
    destruct cs as [|c1 [|? ?]]; try discriminate. pose proof (Forall_inv Hlen) as Hl1. cbn beta in Hl1.
    destruct (mapM_res _ (col_vals c1)) as [vs|] eqn:Em; cbn [bind] in Es; [|discriminate].
    destruct (cellwise_perm _ TFloat c1 vs c Hl1 Em Es) as (H1 & H2 & H3).
    split; [exact H3|]. cbn [map]. rewrite H1. cbn [bind]. exact H2.
  Qed.

  Lemma round_column_perm g name c c' : col_len c = nrows -> round_column P g name c = Ok c' ->
    round_column P g name (pc c) = Ok (pc c') /\ col_len c' = nrows.
  Proof.
    intros Hl H. unfold round_column in *.
    destruct (mapM_res (apply_rounding P g name) (col_vals c)) as [vs|] eqn:Em; cbn [bind] in H; [|discriminate].
    destruct (cellwise_perm _ TFloat c vs c' Hl Em H) as (H1 & H2 & H3). rewrite H1. cbn [bind]. split; assumption.
  Qed.

  (* ---- rule nodes ---- *)
  Lemma pl_repeat_gen {A} (d v : A) n : forall q, (forall j, In j q -> (j < n)%nat) -> pl d q (repeat v n) = repeat v (length q).
  Proof.
    induction q as [|j q IH]; intro H; cbn; [reflexivity|]. f_equal.
    - rewrite (nth_indep (repeat v n) d v) by (rewrite repeat_length; apply H; left; reflexivity). apply nth_repeat.
    - apply IH. intros k Hk. apply H. right. exact Hk.
  Qed.

  Lemma pl_repeat {A} (d v : A) : pl d p (repeat v nrows) = repeat v nrows.
  Proof.
    destruct Hp as (Hl & Hlt & _). rewrite (pl_repeat_gen d v nrows p Hlt), Hl. reflexivity.
  Qed.

  Lemma pc_const t v c : pack t (repeat v nrows) = Ok c -> pc c = c.
  Proof.
    intro H. assert (Hp' : perm_of p (length (repeat v nrows))) by (rewrite repeat_length; exact Hp).
    pose proof (pack_perm_ok t p (repeat v nrows) c Hp' H) as H2. rewrite pl_repeat in H2. rewrite H in H2. injection H2 as H2. symmetry. exact H2.
  Qed.

  Definition rule_declared (n : dnode) : Prop :=
    match d_kind n with
    | KRule py _ _ => match flookup py ft with Some f => annot_otype (f_ret f) <> None | None => True end
    | _ => True
    end.

  Lemma node_perm_rule n py skipvec rd : d_kind n = KRule py skipvec rd -> rule_declared n -> node_perm n.
  Proof.
    intros Hk Hd e cs c _ _ Hlen Es. unfold rule_declared in Hd. rewrite Hk in Hd. unfold sem in *. rewrite Hk in *.
    destruct skipvec; [discriminate|].
    destruct (flookup py ft) as [f|]; cbn [of_option bind] in *; [|discriminate].
    destruct (annot_otype (f_ret f)) as [t|] eqn:Et; [|exfalso; apply Hd; reflexivity].
    assert (Core : forall c0,
      match cs with
      | [] => do args <- row_args P f (d_args n) []; do v <- call_rule ft f args; pack t (repeat v nrows)
      | _ :: _ => vectorize_gen (Some t) (fun row => do args <- row_args P f (d_args n) row; call_rule ft f args) nrows cs
      end = Ok c0 ->
      col_len c0 = nrows /\
      match map pc cs with
      | [] => do args <- row_args P f (d_args n) []; do v <- call_rule ft f args; pack t (repeat v nrows)
      | _ :: _ => vectorize_gen (Some t) (fun row => do args <- row_args P f (d_args n) row; call_rule ft f args) nrows (map pc cs)
      end = Ok (pc c0)).
    { intros c0 H0. destruct cs as [|c1 cr]; cbn [map].
      - destruct (row_args P f (d_args n) []) as [args|]; cbn [bind] in *; [|discriminate].
        destruct (call_rule ft f args) as [v|]; cbn [bind] in *; [|discriminate].
        rewrite (pc_const t v c0 H0). split; [|exact H0].
        destruct (pack_inv t _ c0 H0) as (_ & ws & Hws & Hcv). rewrite <- col_vals_length, Hcv, (mapM_res_length _ _ _ Hws). apply repeat_length.
      - assert (Hal : all_len nrows (c1 :: cr)) by (intros c' Hc'; rewrite Forall_forall in Hlen; apply Hlen; exact Hc').
        pose proof (vectorize_declared_perm t (fun row => do args <- row_args P f (d_args n) row; call_rule ft f args) p nrows (c1 :: cr) Hp Hal) as R.
        rewrite H0 in R. unfold res_rel in R. cbn [map] in R.
        destruct (vectorize_gen (Some t) _ nrows (permute_col p c1 :: map (permute_col p) cr)) as [c2|] eqn:E2; [|contradiction].
        subst c2. split; [|exact E2].
        unfold vectorize_gen in H0. destruct (mapM_res _ (rows_of nrows (c1 :: cr))) as [vs|] eqn:Em; cbn [bind] in H0; [|discriminate].
        destruct (pack_inv t vs c0 H0) as (_ & ws & Hws & Hcv). rewrite <- col_vals_length, Hcv.
        rewrite (mapM_res_length _ _ _ Hws), (mapM_res_length _ _ _ Em). apply rows_of_length. }
    destruct (match cs with
              | [] => do args <- row_args P f (d_args n) []; do v <- call_rule ft f args; pack t (repeat v nrows)
              | _ :: _ => vectorize_gen (Some t) (fun row => do args <- row_args P f (d_args n) row; call_rule ft f args) nrows cs
              end) as [c0|] eqn:E0; cbn [bind] in Es; [|discriminate].
    destruct (Core c0 eq_refl) as [Hl0 E0'].
    assert (Shape : match map pc cs with
      | [] => do args <- row_args P f (d_args n) []; do v <- call_rule ft f args;
              pack (match Some t with Some t0 => t0 | None => type_of v end) (repeat v nrows)
      | _ :: _ => vectorize_gen (Some t) (fun row => do args <- row_args P f (d_args n) row; call_rule ft f args) nrows (map pc cs)
      end = Ok (pc c0)) by exact E0'.
    rewrite Shape. cbn [bind].
    destruct rd as [g|].
    - destruct rounding.
      + destruct (round_column_perm g (d_name n) c0 c Hl0 Es) as [H1 H2]. split; assumption.
      + injection Es as <-. split; [exact Hl0 | reflexivity].
    - injection Es as <-. split; [exact Hl0 | reflexivity].
  Qed.

  (* ---- group aggregates ---- *)
  Lemma Hlt : forall j, In j p -> (j < nrows)%nat.
  Proof. intros j Hj. apply (perm_of_lt p nrows j Hp Hj). Qed.

  Lemma len_p : length p = nrows.
  Proof. exact (proj1 Hp). Qed.

  Lemma col_ints_pc c ids : col_len c = nrows -> col_ints c = Ok ids -> col_ints (pc c) = Ok (pl 0%Z p ids) /\ length ids = nrows.
  Proof.
    intros Hl H. destruct c as [l|l|l|l]; try discriminate; cbn in *; injection H as <-.
    - split; [reflexivity | exact Hl].
    - split; [|rewrite map_length; exact Hl]. f_equal. unfold permute_list. symmetry.
      apply (pl_map_any b2z false 0%Z p l). intros j Hj. rewrite Hl. apply Hlt. exact Hj.
  Qed.

  Lemma keys_ok_pl g : length g = nrows -> keys_ok g = true -> keys_ok (pl 0%Z p g) = true.
  Proof.
    intros Hl H. unfold keys_ok in *. rewrite forallb_forall in *. intros k Hk. unfold pl in Hk. apply in_map_iff in Hk.
    destruct Hk as (j & <- & Hj). apply H. apply nth_In. rewrite Hl. apply Hlt. exact Hj.
  Qed.

  Lemma guard_split {A} g n (k : res A) r : guard g n k = Ok r -> length g = n /\ keys_ok g = true /\ k = Ok r.
  Proof.
    unfold guard. destruct (Nat.eqb (length g) n) eqn:E; cbn; [|discriminate]. destruct (keys_ok g) eqn:Ek; cbn; [|discriminate].
    intro H. repeat split; [apply Nat.eqb_eq; exact E | exact H].
  Qed.

  Lemma guard_build {A} g n (k : res A) : length g = n -> keys_ok g = true -> guard g n k = k.
  Proof. intros Hl Hk. unfold guard. rewrite Hl, Nat.eqb_refl, Hk. reflexivity. Qed.

  Lemma pl_len {A} (d : A) l : length (pl d p l) = nrows.
  Proof. rewrite pl_length. exact len_p. Qed.

  (* the generic step: a typed group reduction commutes with the permutation *)
  Lemma gt_perm {A} (op : A -> A -> A) (d dl : A) g l :
    (forall a b, op a b = op b a) -> (forall a b c, op (op a b) c = op a (op b c)) ->
    length g = nrows -> length l = nrows ->
    grouped_total op d (pl 0%Z p g) (pl dl p l) = pl dl p (grouped_total op d g l).
  Proof.
    intros Hc Ha Hg Hl. apply grouped_total_perm; [exact Hc | exact Ha | lia | rewrite Hg; exact Hp].
  Qed.

  Lemma gt_len {A} (op : A -> A -> A) d g (l : list A) : length (grouped_total op d g l) = length g.
  Proof. unfold grouped_total. rewrite map_length. apply grouped_length. Qed.

  Lemma zmax_assoc a b c : Z.max (Z.max a b) c = Z.max a (Z.max b c). Proof. lia. Qed.
  Lemma zmin_assoc a b c : Z.min (Z.min a b) c = Z.min a (Z.min b c). Proof. lia. Qed.

  Ltac to_pl := repeat match goal with |- context [permute_list ?d p ?l] => change (permute_list d p l) with (pl d p l) end.

  Ltac agg_case H Hl Hids Lids Kids :=
    destruct (guard_split _ _ _ _ H) as (Hg & Hk & Hr); cbn [col_len] in *; injection Hr as <-;
    rewrite guard_build; [| rewrite pl_len; cbn [pc permute_col col_len]; unfold permute_list; rewrite ?pl_length, ?len_p; reflexivity
                          | apply keys_ok_pl; [exact Lids | exact Hk]].

  Lemma grouped_sum_perm c ids out : col_len c = nrows -> length ids = nrows -> grouped_sum c ids = Ok out ->
    grouped_sum (pc c) (pl 0%Z p ids) = Ok (pc out) /\ col_len out = nrows.
  Proof.
    intros Hl Lids H. unfold grouped_sum in *. destruct c as [l|l|l|l]; try discriminate; cbn [pc permute_col].
    - destruct (guard_split _ _ _ _ H) as (Hg & Hk & Hr). cbn [col_len] in *. injection Hr as <-.
      rewrite guard_build; [| rewrite pl_len; symmetry; rewrite <- len_p; exact (col_len_permute p (CInt l)) | apply keys_ok_pl; assumption].
      split; [|cbn [col_len]; rewrite gt_len; exact Lids]. cbn [pc permute_col]. f_equal. f_equal. to_pl.
      apply (gt_perm Z.add 0%Z 0%Z ids l Z.add_comm (fun a b c => eq_sym (Z.add_assoc a b c)) Lids Hl).
    - destruct (guard_split _ _ _ _ H) as (Hg & Hk & Hr). cbn [col_len] in *. injection Hr as <-.
      rewrite guard_build; [| rewrite pl_len; symmetry; rewrite <- len_p; exact (col_len_permute p (CFloat l)) | apply keys_ok_pl; assumption].
      split; [|cbn [col_len]; rewrite gt_len; exact Lids]. cbn [pc permute_col]. f_equal. f_equal. to_pl.
      apply (gt_perm xq_add (xz 0) XNaN ids l xq_add_comm xq_add_assoc Lids Hl).
    - destruct (guard_split _ _ _ _ H) as (Hg & Hk & Hr). cbn [col_len] in *. injection Hr as <-.
      rewrite guard_build; [| rewrite pl_len; symmetry; rewrite <- len_p; exact (col_len_permute p (CBool l)) | apply keys_ok_pl; assumption].
      split; [|cbn [col_len]; rewrite gt_len; exact Lids]. cbn [pc permute_col]. f_equal. f_equal. to_pl.
      rewrite <- (pl_map_any b2z false 0%Z p l) by (intros j Hj; rewrite Hl; apply Hlt; exact Hj).
      apply (gt_perm Z.add 0%Z 0%Z ids (map b2z l) Z.add_comm (fun a b c => eq_sym (Z.add_assoc a b c)) Lids). rewrite map_length. exact Hl.
  Qed.

  Ltac agg_step H c0 Lids :=
    let Hg := fresh "Hg" in let Hk := fresh "Hk" in let Hr := fresh "Hr" in
    destruct (guard_split _ _ _ _ H) as (Hg & Hk & Hr); cbn [col_len] in *; injection Hr as <-;
    rewrite guard_build; [| rewrite pl_len; symmetry; rewrite <- len_p; exact (col_len_permute p c0) | apply keys_ok_pl; assumption];
    split; [|cbn [col_len]; rewrite gt_len; exact Lids]; cbn [pc permute_col]; f_equal; f_equal; to_pl.

  Lemma grouped_max_perm c ids out : col_len c = nrows -> length ids = nrows -> grouped_max c ids = Ok out ->
    grouped_max (pc c) (pl 0%Z p ids) = Ok (pc out) /\ col_len out = nrows.
  Proof.
    intros Hl Lids H. unfold grouped_max in *. destruct c as [l|l|l|l]; try discriminate; cbn [pc permute_col].
    - agg_step H (CInt l) Lids. apply (gt_perm Z.max 0%Z 0%Z ids l Z.max_comm zmax_assoc Lids Hl).
    - agg_step H (CFloat l) Lids. apply (gt_perm xq_max (xz 0) XNaN ids l xq_max_comm xq_max_assoc Lids Hl).
    - agg_step H (CDate l) Lids. apply (gt_perm Z.max 0%Z 0%Z ids l Z.max_comm zmax_assoc Lids Hl).
  Qed.

  Lemma grouped_min_perm c ids out : col_len c = nrows -> length ids = nrows -> grouped_min c ids = Ok out ->
    grouped_min (pc c) (pl 0%Z p ids) = Ok (pc out) /\ col_len out = nrows.
  Proof.
    intros Hl Lids H. unfold grouped_min in *. destruct c as [l|l|l|l]; try discriminate; cbn [pc permute_col].
    - agg_step H (CInt l) Lids. apply (gt_perm Z.min 0%Z 0%Z ids l Z.min_comm zmin_assoc Lids Hl).
    - agg_step H (CFloat l) Lids. apply (gt_perm xq_min (xz 0) XNaN ids l xq_min_comm xq_min_assoc Lids Hl).
    - agg_step H (CDate l) Lids. apply (gt_perm Z.min 0%Z 0%Z ids l Z.min_comm zmin_assoc Lids Hl).
  Qed.

  Lemma grouped_any_perm c ids out : col_len c = nrows -> length ids = nrows -> grouped_any c ids = Ok out ->
    grouped_any (pc c) (pl 0%Z p ids) = Ok (pc out) /\ col_len out = nrows.
  Proof.
    intros Hl Lids H. unfold grouped_any in *. destruct c as [l|l|l|l]; try discriminate; cbn [pc permute_col].
    - agg_step H (CInt l) Lids.
      rewrite <- (pl_map_any (fun z => negb (z =? 0)%Z) 0%Z false p l) by (intros j Hj; rewrite Hl; apply Hlt; exact Hj).
      apply (gt_perm orb false false ids _ orb_comm (fun a b c => eq_sym (orb_assoc a b c)) Lids). rewrite map_length. exact Hl.
    - agg_step H (CBool l) Lids. apply (gt_perm orb false false ids l orb_comm (fun a b c => eq_sym (orb_assoc a b c)) Lids Hl).
  Qed.

  Lemma grouped_all_perm c ids out : col_len c = nrows -> length ids = nrows -> grouped_all c ids = Ok out ->
    grouped_all (pc c) (pl 0%Z p ids) = Ok (pc out) /\ col_len out = nrows.
  Proof.
    intros Hl Lids H. unfold grouped_all in *. destruct c as [l|l|l|l]; try discriminate; cbn [pc permute_col].
    - agg_step H (CInt l) Lids.
      rewrite <- (pl_map_any (fun z => negb (z =? 0)%Z) 0%Z false p l) by (intros j Hj; rewrite Hl; apply Hlt; exact Hj).
      apply (gt_perm andb true false ids _ andb_comm (fun a b c => eq_sym (andb_assoc a b c)) Lids). rewrite map_length. exact Hl.
    - agg_step H (CBool l) Lids. apply (gt_perm andb true false ids l andb_comm (fun a b c => eq_sym (andb_assoc a b c)) Lids Hl).
  Qed.

  Lemma ones_pl g : length g = nrows -> map (fun _ : Z => 1%Z) (pl 0%Z p g) = pl 0%Z p (map (fun _ : Z => 1%Z) g).
  Proof. intro Hg. symmetry. apply (pl_map_any (fun _ : Z => 1%Z) 0%Z 0%Z p g). intros j Hj. rewrite Hg. apply Hlt. exact Hj. Qed.

  Lemma grouped_count_perm ids out : length ids = nrows -> grouped_count ids = Ok out ->
    grouped_count (pl 0%Z p ids) = Ok (pc out) /\ col_len out = nrows.
  Proof.
    intros Lids H. unfold grouped_count in *.
    destruct (guard_split _ _ _ _ H) as (Hg & Hk & Hr). injection Hr as <-.
    rewrite guard_build; [| reflexivity | apply keys_ok_pl; assumption].
    split; [|cbn [col_len]; rewrite map_length, gt_len; exact Lids]. cbn [pc permute_col]. f_equal. f_equal. to_pl.
    rewrite (ones_pl ids Lids).
    rewrite (gt_perm Z.add 0%Z 0%Z ids _ Z.add_comm (fun a b c => eq_sym (Z.add_assoc a b c)) Lids) by (rewrite map_length; exact Lids).
    symmetry. apply (pl_map_any xz 0%Z XNaN p). intros j Hj. rewrite gt_len, Lids. apply Hlt. exact Hj.
  Qed.

  Lemma grouped_mean_perm c ids out : col_len c = nrows -> length ids = nrows -> grouped_mean c ids = Ok out ->
    grouped_mean (pc c) (pl 0%Z p ids) = Ok (pc out) /\ col_len out = nrows.
  Proof.
    intros Hl Lids H. unfold grouped_mean in *. destruct c as [l|l|l|l]; try discriminate; cbn [pc permute_col].
    destruct (guard_split _ _ _ _ H) as (Hg & Hk & Hr). cbn [col_len] in *. cbv zeta in Hr. injection Hr as <-.
    rewrite guard_build; [| rewrite pl_len; symmetry; rewrite <- len_p; exact (col_len_permute p (CFloat l)) | apply keys_ok_pl; assumption].
    cbv zeta. split; [|cbn [col_len]; rewrite map_length, combine_length, !gt_len, Lids; lia].
    cbn [pc permute_col]. f_equal. f_equal. to_pl.
    rewrite (gt_perm xq_add (xz 0) XNaN ids l xq_add_comm xq_add_assoc Lids Hl).
    rewrite (ones_pl ids Lids).
    rewrite (gt_perm Z.add 0%Z 0%Z ids _ Z.add_comm (fun a b c => eq_sym (Z.add_assoc a b c)) Lids) by (rewrite map_length; exact Lids).
    rewrite (combine_pl XNaN 0%Z p) by (rewrite ?gt_len; try reflexivity; intros j Hj; rewrite Lids; apply Hlt; exact Hj).
    symmetry. apply (pl_map_any (fun sn : xq * Z => xq_div_tot (fst sn) (xz (snd sn))) (XNaN, 0%Z) XNaN p).
    intros j Hj. rewrite combine_length, !gt_len, Lids, Nat.min_id. apply Hlt. exact Hj.
  Qed.

  Lemma node_perm_groupagg n aggr : d_kind n = KGroupAgg aggr -> node_perm n.
  Proof.
    intros Hk e cs c _ _ Hlen Es. unfold sem in *. rewrite Hk in *.
    destruct cs as [|c1 [|c2 [|? ?]]]; try discriminate; cbn [map].
    - pose proof (Forall_inv Hlen) as L1. cbn beta in L1.
      destruct (col_ints c1) as [ids|] eqn:Ei; cbn [bind] in Es; [|discriminate].
      destruct (col_ints_pc c1 ids L1 Ei) as [Ei' Lids]. rewrite Ei'. cbn [bind].
      destruct (String.eqb aggr "count"); [|discriminate].
      destruct (grouped_count_perm ids c Lids Es) as [H1 H2]. split; assumption.
    - pose proof (Forall_inv Hlen) as L1. pose proof (Forall_inv (Forall_inv_tail Hlen)) as L2. cbn beta in L1, L2.
      destruct (col_ints c2) as [ids|] eqn:Ei; cbn [bind] in Es; [|discriminate].
      destruct (col_ints_pc c2 ids L2 Ei) as [Ei' Lids]. rewrite Ei'. cbn [bind].
      destruct (String.eqb aggr "sum"); [destruct (grouped_sum_perm c1 ids c L1 Lids Es); split; assumption|].
      destruct (String.eqb aggr "mean"); [destruct (grouped_mean_perm c1 ids c L1 Lids Es); split; assumption|].
      destruct (String.eqb aggr "max"); [destruct (grouped_max_perm c1 ids c L1 Lids Es); split; assumption|].
      destruct (String.eqb aggr "min"); [destruct (grouped_min_perm c1 ids c L1 Lids Es); split; assumption|].
      destruct (String.eqb aggr "any"); [destruct (grouped_any_perm c1 ids c L1 Lids Es); split; assumption|].
      destruct (String.eqb aggr "all"); [destruct (grouped_all_perm c1 ids c L1 Lids Es); split; assumption|].
      discriminate.
  Qed.

  (* ---- joins ---- *)
  Lemma pl_indep {A} (d d' : A) l : length l = nrows -> pl d p l = pl d' p l.
  Proof. intro Hl. unfold pl. apply map_ext_in. intros j Hj. apply nth_indep. rewrite Hl. apply Hlt. exact Hj. Qed.

  Lemma get2_map names cs x c : get2 names cs x = Ok c -> get2 names (map pc cs) x = Ok (pc c).
  Proof.
    unfold get2. destruct (index_of_name x names 0); [|discriminate]. rewrite nth_error_map.
    destruct (nth_error cs n); cbn; [|discriminate]. intro H. injection H as <-. reflexivity.
  Qed.

  Lemma get2_len names cs x c : Forall (fun c0 => col_len c0 = nrows) cs -> get2 names cs x = Ok c -> col_len c = nrows.
  Proof.
    intros F. unfold get2. destruct (index_of_name x names 0); [|discriminate].
    destruct (nth_error cs n) eqn:E; cbn; [|discriminate]. intro H. injection H as <-.
    rewrite Forall_forall in F. apply F. apply (nth_error_In _ _ E).
  Qed.

  Lemma col_dtype_pc c : col_dtype (pc c) = col_dtype c.
  Proof. destruct c; reflexivity. Qed.

  Lemma node_perm_join n fk pk tgt dflt cmp : d_kind n = KJoin fk pk tgt dflt cmp -> node_perm n.
  Proof.
    intros Hk e cs c _ _ Hlen Es. unfold sem in *. rewrite Hk in *.
    destruct (get2 (d_args n) cs fk) as [cf|] eqn:Ef; cbn [bind] in Es; [|discriminate].
    destruct (col_ints cf) as [fkl|] eqn:Efl; cbn [bind] in Es; [|discriminate].
    destruct (get2 (d_args n) cs pk) as [cp|] eqn:Ep; cbn [bind] in Es; [|discriminate].
    destruct (col_ints cp) as [pkl|] eqn:Epl; cbn [bind] in Es; [|discriminate].
    destruct (get2 (d_args n) cs tgt) as [ct|] eqn:Et; cbn [bind] in Es; [|discriminate].
    destruct (join_list fkl pkl (col_vals ct) dflt) as [jl|] eqn:Ej; cbn [bind] in Es; [|discriminate].
    rewrite (get2_map _ _ _ _ Ef). cbn [bind].
    destruct (col_ints_pc cf fkl (get2_len _ _ _ _ Hlen Ef) Efl) as [Efl' Lfk]. rewrite Efl'. cbn [bind].
    rewrite (get2_map _ _ _ _ Ep). cbn [bind].
    destruct (col_ints_pc cp pkl (get2_len _ _ _ _ Hlen Ep) Epl) as [Epl' Lpk]. rewrite Epl'. cbn [bind].
    rewrite (get2_map _ _ _ _ Et). cbn [bind].
    pose proof (get2_len _ _ _ _ Hlen Et) as Lct.
    assert (Ltv : length (col_vals ct) = nrows) by (rewrite col_vals_length; exact Lct).
    rewrite (col_vals_pc ct Lct), (pl_indep VNone dflt (col_vals ct) Ltv).
    destruct (join_list_perm dflt p fkl pkl (col_vals ct) jl) as [Ej' Ljl]; [lia | lia | rewrite Lpk; exact Hp | exact Ej |].
    rewrite Ej'. cbn [bind].
    assert (Ljl' : length jl = nrows) by lia.
    destruct cmp as [[ng other]|].
    - destruct (get2 (d_args n) cs other) as [co|] eqn:Eo; cbn [bind] in Es; [|discriminate].
      rewrite (get2_map _ _ _ _ Eo). cbn [bind].
      pose proof (get2_len _ _ _ _ Hlen Eo) as Lco.
      destruct (mapM_res _ (combine jl (col_vals co))) as [bs|] eqn:Em; cbn [bind] in Es; [|discriminate].
      rewrite (col_vals_pc co Lco), (pl_indep dflt VNone jl Ljl').
      rewrite (combine_pl VNone VNone p jl (col_vals co)) by (rewrite ?col_vals_length; try lia; intros j Hj; rewrite Ljl'; apply Hlt; exact Hj).
      assert (Lc : length (combine jl (col_vals co)) = nrows) by (rewrite combine_length, col_vals_length; lia).
      rewrite (mapM_res_perm_ok _ (VNone, VNone) VNone p _ bs) by (try exact Em; intros j Hj; rewrite Lc; apply Hlt; exact Hj).
      cbn [bind].
      assert (Lb : length bs = nrows) by (rewrite (mapM_res_length _ _ _ Em); exact Lc).
      split; [|apply pack_perm_ok; [rewrite Lb; exact Hp | exact Es]].
      destruct (pack_inv TBool bs c Es) as (_ & ws & Hws & Hcv). rewrite <- col_vals_length, Hcv, (mapM_res_length _ _ _ Hws). exact Lb.
    - rewrite col_dtype_pc, (pl_indep dflt VNone jl Ljl').
      split; [|apply pack_perm_ok; [rewrite Ljl'; exact Hp | exact Es]].
      destruct (pack_inv _ jl c Es) as (_ & ws & Hws & Hcv). rewrite <- col_vals_length, Hcv, (mapM_res_length _ _ _ Hws). exact Ljl'.
  Qed.

  (* ---- sums by person pointer ---- *)
  Lemma sum_by_p_id_perm c ptr pids out : col_len c = nrows -> length ptr = nrows -> length pids = nrows -> NoDup pids ->
    sum_by_p_id c ptr pids = Ok out -> sum_by_p_id (pc c) (pl 0%Z p ptr) (pl 0%Z p pids) = Ok (pc out) /\ col_len out = nrows.
  Proof.
    intros Hl Lp Li Hnd H. unfold sum_by_p_id in *.
    destruct (negb (Nat.eqb (length ptr) (col_len c))) eqn:E0; [discriminate|].
    assert (E0' : negb (Nat.eqb (length (pl 0%Z p ptr)) (col_len (pc c))) = false).
    { rewrite pl_len. unfold pc. rewrite col_len_permute, len_p, Nat.eqb_refl. reflexivity. }
    rewrite E0'. assert (Hp' : perm_of p (length pids)) by (rewrite Li; exact Hp).
    destruct c as [l|l|l|l]; try discriminate; cbn [pc permute_col col_len] in *; to_pl.
    - destruct (sum_by_p_id_list Z.add 0%Z l ptr pids) as [o|] eqn:E; cbn [bind] in H; [|discriminate]. injection H as <-.
      rewrite (sum_by_p_id_list_perm Z.add 0%Z Z.add_comm (fun a b c => eq_sym (Z.add_assoc a b c)) 0%Z p l ptr pids o Hnd) by (try exact E; try exact Hp'; lia).
      cbn [bind]. split; [reflexivity|]. cbn [col_len].
      destruct (sum_by_p_id_spec Z.add 0%Z l ptr pids o Hnd E) as [Lo _]. lia.
    - destruct (sum_by_p_id_list xq_add (xz 0) l ptr pids) as [o|] eqn:E; cbn [bind] in H; [|discriminate]. injection H as <-.
      rewrite (sum_by_p_id_list_perm xq_add (xz 0) xq_add_comm xq_add_assoc XNaN p l ptr pids o Hnd) by (try exact E; try exact Hp'; lia).
      cbn [bind]. split; [reflexivity|]. cbn [col_len].
      destruct (sum_by_p_id_spec xq_add (xz 0) l ptr pids o Hnd E) as [Lo _]. lia.
    - destruct (sum_by_p_id_list Z.add 0%Z (map b2z l) ptr pids) as [o|] eqn:E; cbn [bind] in H; [|discriminate]. injection H as <-.
      rewrite <- (pl_map_any b2z false 0%Z p l) by (intros j Hj; rewrite Hl; apply Hlt; exact Hj).
      rewrite (sum_by_p_id_list_perm Z.add 0%Z Z.add_comm (fun a b c => eq_sym (Z.add_assoc a b c)) 0%Z p (map b2z l) ptr pids o Hnd)
        by (try exact E; try exact Hp'; rewrite ?map_length; lia).
      cbn [bind]. split; [reflexivity|]. cbn [col_len].
      destruct (sum_by_p_id_spec Z.add 0%Z (map b2z l) ptr pids o Hnd E) as [Lo _]. lia.
  Qed.

  Lemma node_perm_pidagg n aggr : d_kind n = KPidAgg aggr -> pid_arg n -> node_perm n.
  Proof.
    intros Hk Ha e cs c Hinv Eg Hlen Es. unfold pid_arg in Ha. rewrite Hk in Ha. unfold sem in *. rewrite Hk in *.
    destruct cs as [|c1 [|c2 [|c3 [|? ?]]]]; try discriminate; cbn [map].
    destruct (String.eqb aggr "sum"); [|discriminate].
    pose proof (Forall_inv Hlen) as L1. pose proof (Forall_inv (Forall_inv_tail Hlen)) as L2.
    pose proof (Forall_inv (Forall_inv_tail (Forall_inv_tail Hlen))) as L3. cbn beta in L1, L2, L3.
    destruct (col_ints c2) as [ptr|] eqn:Ep; cbn [bind] in Es; [|discriminate].
    destruct (col_ints c3) as [ids|] eqn:Ei; cbn [bind] in Es; [|discriminate].
    destruct (col_ints_pc c2 ptr L2 Ep) as [Ep' Lp]. destruct (col_ints_pc c3 ids L3 Ei) as [Ei' Li].
    rewrite Ep', Ei'. cbn [bind].
    assert (Hnd : NoDup ids).
    { destruct (d_args n) as [|a1 [|a2 [|a3 r]]]; try discriminate. cbn in Ha. injection Ha as ->.
      destruct (get_all_cons_inv a1 (a2 :: "p_id" :: r) e _ Eg) as (x1 & r1 & E1 & _ & Eg1). injection E1 as <- <-.
      destruct (get_all_cons_inv a2 ("p_id" :: r) e _ Eg1) as (x2 & r2 & E2 & _ & Eg2). injection E2 as <- <-.
      destruct (get_all_cons_inv "p_id" r e _ Eg2) as (x3 & r3 & E3 & Ht & _). injection E3 as <- _.
      apply (Hinv c3 ids Ht Ei). }
    destruct (sum_by_p_id_perm c1 ptr ids c L1 Lp Li Hnd Es) as [H1 H2]. split; assumption.
  Qed.

  (* ---- every node kind except the id builders ---- *)
  Definition perm_ready (n : dnode) : Prop :=
    rule_declared n /\ pid_arg n /\ d_kind n <> KGrouping.

  Theorem every_node_perm n : perm_ready n -> node_perm n.
  Proof.
    intros (Hd & Ha & Hg). destruct (d_kind n) eqn:Hk.
    - apply (node_perm_rule n _ _ _ Hk Hd).
    - apply (node_perm_groupagg n _ Hk).
    - apply (node_perm_pidagg n _ Hk Ha).
    - apply (node_perm_timeconv n _ _ Hk).
    - exfalso. apply Hg. reflexivity.
    - apply (node_perm_join n _ _ _ _ _ Hk).
  Qed.

  (* THE theorem: the engine commutes with the permutation of the rows *)
  Theorem run_perm S e1 e2 t1 :
    (forall n, In n S -> perm_ready n) -> (forall n, In n S -> d_name n <> "p_id") -> pid_inv e1 -> tab_rel e1 e2 ->
    run column (to_sys column (sem ft P rounding nrows) S) e1 = Ok t1 ->
    exists t2, run column (to_sys column (sem ft P rounding nrows) S) e2 = Ok t2 /\ tab_rel t1 t2.
  Proof.
    intros Hr. apply table_perm. intros n Hn. apply every_node_perm. apply Hr. exact Hn.
  Qed.

  (* decidable version of the side conditions, evaluated on the regenerated graphs *)
  Definition perm_ready_b (n : dnode) : bool :=
    match d_kind n with
    | KRule py _ _ => match flookup py ft with
                      | Some f => match annot_otype (f_ret f) with Some _ => true | None => false end
                      | None => true end
    | KPidAgg _ => match nth_error (d_args n) 2 with Some a => String.eqb a "p_id" | None => false end
    | KGrouping => false
    | _ => true
    end.

  Lemma perm_ready_b_sound n : perm_ready_b n = true -> perm_ready n.
  Proof.
    unfold perm_ready_b, perm_ready, rule_declared, pid_arg. destruct (d_kind n); intro H; repeat split; try discriminate; auto.
    - destruct (flookup pyname ft); [|exact I]. destruct (annot_otype (f_ret f)); [discriminate | discriminate].
    - destruct (nth_error (d_args n) 2) as [a|]; [|discriminate]. apply String.eqb_eq in H. subst. reflexivity.
  Qed.

  Corollary run_perm_b S e1 e2 t1 :
    forallb perm_ready_b S = true -> forallb (fun n => negb (String.eqb (d_name n) "p_id")) S = true -> pid_inv e1 -> tab_rel e1 e2 ->
    run column (to_sys column (sem ft P rounding nrows) S) e1 = Ok t1 ->
    exists t2, run column (to_sys column (sem ft P rounding nrows) S) e2 = Ok t2 /\ tab_rel t1 t2.
  Proof.
    intros H1 H2. apply run_perm.
    - intros n Hn. apply perm_ready_b_sound. rewrite forallb_forall in H1. apply H1. exact Hn.
    - intros n Hn E. rewrite forallb_forall in H2. specialize (H2 n Hn). rewrite E in H2. discriminate.
  Qed.
End TP.



