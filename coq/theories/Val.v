(* Val.v — Python values of the restricted rule language and their arithmetic. *)
From Coq Require Import ZArith QArith Qcanon Bool String List Lia.
From GettsimModel Require Import Num.
Import ListNotations.
Open Scope string_scope.

Inductive err :=
| EKey | EZeroDiv | ENotImpl | EType | EUnbound | EFuel | EValue | EIndex.

Inductive res (A : Type) := Ok (a : A) | Err (e : err).
Arguments Ok {A} a.
Arguments Err {A} e.

Definition bind {A B} (r : res A) (f : A -> res B) : res B :=
  match r with Ok a => f a | Err e => Err e end.
Notation "'do' x <- r ; k" := (bind r (fun x => k))
  (at level 200, x name, r at level 100, k at level 200).

Definition of_option {A} (e : err) (o : option A) : res A :=
  match o with Some a => Ok a | None => Err e end.

Inductive pkey := KInt (z : Z) | KStr (s : string) | KDate (d : Z).

Definition pkey_eqb (a b : pkey) : bool :=
  match a, b with
  | KInt x, KInt y => Z.eqb x y
  | KStr x, KStr y => String.eqb x y
  | KDate x, KDate y => Z.eqb x y
  | _, _ => false
  end.

Lemma pkey_eqb_eq a b : pkey_eqb a b = true <-> a = b.
Proof.
  destruct a, b; simpl; try (split; congruence).
  - rewrite Z.eqb_eq. split; congruence.
  - rewrite String.eqb_eq. split; congruence.
  - rewrite Z.eqb_eq. split; congruence.
Qed.

Inductive val :=
| VInt (z : Z)
| VFloat (x : xq)
| VBool (b : bool)
| VDate (d : Z)                   (* numpy datetime64[D]: days since 1970-01-01 *)
| VStr (s : string)
| VNone
| VList (l : list val)
| VDict (l : list (pkey * val)).

Inductive dtype := TInt | TFloat | TBool | TDate | TOther.

Definition dtype_eqb (a b : dtype) : bool :=
  match a, b with
  | TInt, TInt | TFloat, TFloat | TBool, TBool | TDate, TDate | TOther, TOther => true
  | _, _ => false
  end.

Lemma dtype_eqb_eq a b : dtype_eqb a b = true <-> a = b.
Proof. destruct a, b; simpl; split; congruence. Qed.

Definition type_of (v : val) : dtype :=
  match v with
  | VInt _ => TInt | VFloat _ => TFloat | VBool _ => TBool | VDate _ => TDate
  | _ => TOther
  end.

(* ---- numeric view ---- *)
Inductive num := NI (z : Z) | NF (x : xq).

Definition as_num (v : val) : option num :=
  match v with
  | VInt z => Some (NI z)
  | VBool b => Some (NI (if b then 1 else 0)%Z)
  | VFloat x => Some (NF x)
  | _ => None
  end.

Definition num_x (n : num) : xq :=
  match n with NI z => xz z | NF x => x end.

Inductive binop := Add | Sub | Mul | Div | FloorDiv | Mod | Pow.
Inductive cmpop := Lt | LtE | Gt | GtE | Eq | NotEq.

Definition arith (op : binop) (a b : val) : res val :=
  match as_num a, as_num b with
  | Some x, Some y =>
      match op with
      | Add => match x, y with
               | NI p, NI q => Ok (VInt (p + q))
               | _, _ => Ok (VFloat (xq_add (num_x x) (num_x y))) end
      | Sub => match x, y with
               | NI p, NI q => Ok (VInt (p - q))
               | _, _ => Ok (VFloat (xq_sub (num_x x) (num_x y))) end
      | Mul => match x, y with
               | NI p, NI q => Ok (VInt (p * q))
               | _, _ => Ok (VFloat (xq_mul (num_x x) (num_x y))) end
      | Div => match xq_div (num_x x) (num_x y) with
               | Some r => Ok (VFloat r)
               | None => Err EZeroDiv end
      | FloorDiv => match x, y with
               | NI p, NI q => if Z.eqb q 0 then Err EZeroDiv else Ok (VInt (p / q))
               | _, _ => Err EType end
      | Mod => match x, y with
               | NI p, NI q => if Z.eqb q 0 then Err EZeroDiv else Ok (VInt (p mod q))
               | _, _ => Err EType end
      | Pow => match x, y with
               | NI p, NI q => if Z.ltb q 0 then Err EType else Ok (VInt (p ^ q))
               | NF (XFin p), NI q =>
                   if Z.ltb q 0 then Err EType else Ok (VFloat (XFin (qpow p (Z.to_nat q))))
               | _, _ => Err EType end
      end
  | _, _ => Err EType
  end.

Definition neg (a : val) : res val :=
  match as_num a with
  | Some (NI z) => Ok (VInt (- z))
  | Some (NF x) => Ok (VFloat (xq_neg x))
  | None => Err EType
  end.

Definition num_cmp (op : cmpop) (x y : num) : bool :=
  match x, y with
  | NI p, NI q =>
      match op with
      | Lt => Z.ltb p q | LtE => Z.leb p q | Gt => Z.ltb q p | GtE => Z.leb q p
      | Eq => Z.eqb p q | NotEq => negb (Z.eqb p q)
      end
  | _, _ =>
      let a := num_x x in let b := num_x y in
      match op with
      | Lt => xq_ltb a b | LtE => xq_leb a b | Gt => xq_ltb b a | GtE => xq_leb b a
      | Eq => xq_eqb a b | NotEq => negb (xq_eqb a b)
      end
  end.

Definition compare (op : cmpop) (a b : val) : res val :=
  match as_num a, as_num b with
  | Some x, Some y => Ok (VBool (num_cmp op x y))
  | _, _ =>
      match a, b with
      | VDate p, VDate q => Ok (VBool (num_cmp op (NI p) (NI q)))
      | VStr p, VStr q =>
          match op with
          | Eq => Ok (VBool (String.eqb p q))
          | NotEq => Ok (VBool (negb (String.eqb p q)))
          | _ => Err EType
          end
      | _, _ =>
          match op with
          | Eq => Ok (VBool false)          (* different kinds are unequal *)
          | NotEq => Ok (VBool true)
          | _ => Err EType
          end
      end
  end.

Definition truthy (v : val) : bool :=
  match v with
  | VBool b => b
  | VInt z => negb (Z.eqb z 0)
  | VFloat x => negb (xq_eqb x (xz 0))
  | VDate _ => true
  | VStr s => negb (String.eqb s "")
  | VNone => false
  | VList l => match l with [] => false | _ => true end
  | VDict l => match l with [] => false | _ => true end
  end.

(* Python's max/min keep the FIRST extremal item and its type *)
Definition lt_val (a b : val) : res bool :=
  match compare Lt a b with
  | Ok (VBool r) => Ok r
  | Ok _ => Err EType
  | Err e => Err e
  end.

Fixpoint fold_best (better : val -> val -> res bool) (best : val) (l : list val) : res val :=
  match l with
  | [] => Ok best
  | x :: r =>
      do b <- better x best;
      fold_best better (if b then x else best) r
  end.

Definition py_max (l : list val) : res val :=
  match l with
  | [] => Err EValue
  | x :: r => fold_best (fun item best => lt_val best item) x r
  end.

Definition py_min (l : list val) : res val :=
  match l with
  | [] => Err EValue
  | x :: r => fold_best (fun item best => lt_val item best) x r
  end.

Definition py_float (v : val) : res val :=
  match as_num v with
  | Some n => Ok (VFloat (num_x n))
  | None => Err EType
  end.

Definition qtrunc (q : Qc) : Z :=
  if Qcltb q 0 then (- qfloor (- q))%Z else qfloor q.

Definition py_int (v : val) : res val :=
  match as_num v with
  | Some (NI z) => Ok (VInt z)
  | Some (NF (XFin q)) => Ok (VInt (qtrunc q))
  | Some (NF _) => Err EValue
  | None => Err EType
  end.

Fixpoint py_sum (acc : val) (l : list val) : res val :=
  match l with
  | [] => Ok acc
  | x :: r => do a <- arith Add acc x; py_sum a r
  end.

(* list indexing with Python's negative indices *)
Definition list_index {A} (l : list A) (i : Z) : res A :=
  let n := Z.of_nat (length l) in
  let j := if Z.ltb i 0 then (n + i)%Z else i in
  if Z.ltb j 0 then Err EIndex
  else of_option EIndex (nth_error l (Z.to_nat j)).

Fixpoint dict_get (k : pkey) (l : list (pkey * val)) : option val :=
  match l with
  | [] => None
  | (k', v) :: r => if pkey_eqb k k' then Some v else dict_get k r
  end.

Definition as_key (v : val) : option pkey :=
  match v with
  | VInt z => Some (KInt z)
  | VBool b => Some (KInt (if b then 1 else 0)%Z)
  | VStr s => Some (KStr s)
  | VDate d => Some (KDate d)
  | VFloat (XFin q) =>              (* float keys hash like the equal int *)
      let z := qfloor q in if Qceqb q (qz z) then Some (KInt z) else None
  | _ => None
  end.

Definition key_val (k : pkey) : val :=
  match k with KInt z => VInt z | KStr s => VStr s | KDate d => VDate d end.

Definition subscript (c k : val) : res val :=
  match c with
  | VDict l =>
      match as_key k with
      | Some key => of_option EKey (dict_get key l)
      | None => Err EKey
      end
  | VList l =>
      match k with
      | VInt i => list_index l i
      | VBool b => list_index l (if b then 1 else 0)%Z
      | _ => Err EType
      end
  | _ => Err EType
  end.

(* numpy casts used by numpy.vectorize when it forces the first row's dtype *)
Definition cast (t : dtype) (v : val) : res val :=
  match t, v with
  | TInt, VInt _ | TFloat, VFloat _ | TBool, VBool _ | TDate, VDate _ => Ok v
  | TInt, VBool b => Ok (VInt (if b then 1 else 0)%Z)
  | TInt, VFloat (XFin q) => Ok (VInt (qtrunc q))
  | TInt, VFloat _ => Err EValue
  | TFloat, VInt z => Ok (VFloat (xz z))
  | TFloat, VBool b => Ok (VFloat (xz (if b then 1 else 0)%Z))
  | TBool, v => Ok (VBool (truthy v))
  | _, _ => Err EType
  end.
