(* Ast.v — deep embedding of the restricted scalar Python in which gettsim's
   policy rules are written.  GenRules.v (regenerated from /repo on every run)
   is a list of [fundef]s in this syntax. *)
From Coq Require Import ZArith QArith Qcanon Bool String List.
From GettsimModel Require Import Num Val.
Import ListNotations.

Inductive builtin :=
| BMin | BMax | BSum | BAny | BAll | BFloat | BInt | BLen | BSorted
| BList          (* list(d): keys of a dict / copy of a list *)
| BRange         (* range(a, b) *)
| BKeys | BValues
| BIsInt         (* isinstance(x, int) *)
| BSearchRight | BSearchLeft      (* numpy.searchsorted(a, v, side=...) *)
| BConcat        (* [*a, *b] *)
| BGet           (* d.get(k, default) *)
| BPiecewise     (* piecewise_polynomial(x, thresholds, rates, intercepts) *)
| BPiecewiseMult (* ... with rates_multiplier *)
| BNpArray       (* numpy.array(list): identity on nested lists *)
| BRepeat        (* [v] * n *)
| BAbs
(* array-form primitives produced by vectorization.Transformer (strict: all arguments are evaluated) *)
| BWhere | BLogAnd | BLogOr | BLogNot.

Inductive expr :=
| EInt (z : Z)
| EFloat (q : Qc)
| EInf
| EBool (b : bool)
| EStr (s : string)
| ENone
| EVar (x : string)
| EBin (op : binop) (a b : expr)
| ENeg (a : expr)
| ENot (a : expr)
| EAnd (a b : expr)
| EOr (a b : expr)
| ECmp (op : cmpop) (a b : expr)
| EIn (neg : bool) (a d : expr)
| EIfE (c a b : expr)
| ESub (e k : expr)
| ECall (f : string) (args : exprs)
| EBuiltin (b : builtin) (args : exprs)
| EListLit (args : exprs)
| EComp (body : expr) (x : string) (iter : expr) (cond : expr)
with exprs :=
| ENil
| ECons (e : expr) (es : exprs).

Scheme expr_mut := Induction for expr Sort Prop
with exprs_mut := Induction for exprs Sort Prop.
Combined Scheme expr_exprs_ind from expr_mut, exprs_mut.

Inductive stmt :=
| SSkip
| SSeq (s1 s2 : stmt)
| SAssign (x : string) (e : expr)
| SAug (x : string) (op : binop) (e : expr)
| SIf (c : expr) (s1 s2 : stmt)
| SReturn (e : expr)
| SRaise (e : err).

(* annotations as written in the source *)
Inductive annot := AInt | AFloat | ABool | ADate | ADict | AArr (a : annot) | AOther.

Definition annot_dtype (a : annot) : dtype :=
  match a with
  | AInt => TInt | AFloat => TFloat | ABool => TBool | ADate => TDate
  | AArr AInt => TInt | AArr AFloat => TFloat | AArr ABool => TBool | AArr ADate => TDate
  | _ => TOther
  end.

Record fundef := {
  f_name : string;                          (* Python function name *)
  f_args : list (string * option annot);
  f_ret : option annot;
  f_body : option stmt                      (* None = Opaque to the translator *)
}.

(* one @policy_info(...) record (or a plain undecorated function) *)
Record reginfo := {
  r_fun : string;            (* Python function name *)
  r_module : string;
  r_dag : string;            (* name_in_dag (= r_fun when not given) *)
  r_start : Z;               (* proleptic Gregorian ordinal, date.toordinal() *)
  r_end : Z;
  r_round : option string;   (* params_key_for_rounding *)
  r_skipvec : bool;
  r_timedep : bool           (* has a policy_info decorator at all *)
}.

Fixpoint exprs_to_list (es : exprs) : list expr :=
  match es with ENil => [] | ECons e r => e :: exprs_to_list r end.
