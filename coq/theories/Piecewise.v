(* Piecewise.v — model of _gettsim.piecewise_functions.piecewise_polynomial
   (evaluation) over extended exact rationals. *)
From Coq Require Import ZArith QArith Qcanon Bool String List Lia.
From GettsimModel Require Import Num Val.
Import ListNotations.

Record sched := {
  thr : list xq;             (* n+1 thresholds, -inf ... +inf *)
  rates : list (list xq);    (* degree rows of n rates *)
  icpt : list xq             (* n intercepts at the lower thresholds *)
}.

(* numpy.searchsorted(a, x, side="right") on a sorted array: number of a_i <= x.
   side="left": number of a_i < x. *)
Definition search_right (x : xq) (l : list xq) : nat :=
  length (filter (fun t => xq_leb t x) l).
Definition search_left (x : xq) (l : list xq) : nat :=
  length (filter (fun t => xq_ltb t x) l).

Fixpoint xq_pow (x : xq) (n : nat) : xq :=
  match n with O => xz 1 | S O => x | S k => xq_mul x (xq_pow x k) end.

(* rates[pol-1][bin] for pol = 1..deg, accumulated as in the Python loop *)
Fixpoint add_terms (rs : list (list xq)) (pol : nat) (bin : Z) (mult : xq)
         (incr : xq) (out : xq) : res xq :=
  match rs with
  | [] => Ok out
  | row :: rest =>
      do r <- list_index row bin;
      add_terms rest (S pol) bin mult incr
        (xq_add out (xq_mul (xq_mul r mult) (xq_pow incr pol)))
  end.

(* the rates_multiplier branch: rebuild the intercept from the lower pieces *)
Fixpoint mult_icpt_pols (rs : list (list xq)) (pol : nat) (i : Z) (mult : xq)
         (tincr : xq) (out : xq) : res xq :=
  match rs with
  | [] => Ok out
  | row :: rest =>
      do r <- list_index row (i - 1);
      mult_icpt_pols rest (S pol) i mult tincr
        (xq_add out (xq_mul (xq_mul mult r) (xq_pow tincr pol)))
  end.

Fixpoint mult_icpt (s : sched) (is : list Z) (bin : Z) (mult : xq) (out : xq) : res xq :=
  match is with
  | [] => Ok out
  | i :: rest =>
      do ti <- list_index (thr s) i;
      do tp <- list_index (thr s) (i - 1);
      do out' <- (if Z.leb i bin
                  then mult_icpt_pols (rates s) 1 i mult (xq_sub ti tp) out
                  else Ok out);
      mult_icpt s rest bin mult out'
  end.

Definition zrange (a b : Z) : list Z :=
  map (fun k => (a + Z.of_nat k)%Z) (seq 0 (Z.to_nat (b - a))).

Definition pp_impl (s : sched) (x : xq) (mult : option xq) : res xq :=
  let n := (Z.of_nat (length (thr s)) - 1)%Z in
  let bin := (Z.of_nat (search_right x (thr s)) - 1)%Z in
  do threshold <- list_index (thr s) bin;
  let incr := xq_sub x threshold in
  do out0 <- match mult with
             | None => list_index (icpt s) bin
             | Some m =>
                 do i0 <- list_index (icpt s) 0;
                 mult_icpt s (zrange 2 n) bin m i0
             end;
  let m := match mult with None => xz 1 | Some m => m end in
  if Z.ltb 0 bin then add_terms (rates s) 1 bin m incr out0 else Ok out0.

(* ---------------------------------------------------------------- *)
(* The mathematical value of a schedule on piece k at finite x.      *)

Fixpoint poly_terms (rs : list (list xq)) (pol : nat) (k : nat) (d : xq) : xq :=
  match rs with
  | [] => xz 0
  | row :: rest =>
      xq_add (xq_mul (nth k row XNaN) (xq_pow d pol)) (poly_terms rest (S pol) k d)
  end.

(* piece 0 is constant (its lower threshold is -inf) *)
Definition piece_value (s : sched) (k : nat) (x : xq) : xq :=
  match k with
  | O => nth 0 (icpt s) XNaN
  | _ => xq_add (nth k (icpt s) XNaN)
                (poly_terms (rates s) 1 k (xq_sub x (nth k (thr s) XNaN)))
  end.

(* well-formedness: what check_thresholds / get_piecewise_parameters promise *)
Fixpoint strictly_increasing (l : list xq) : bool :=
  match l with
  | a :: ((b :: _) as r) => xq_ltb a b && strictly_increasing r
  | _ => true
  end.

Definition wf_sched (s : sched) : bool :=
  match thr s with
  | XNegInf :: _ =>
      let n := (length (thr s) - 1)%nat in
      xq_same (last (thr s) XNaN) XPosInf
      && strictly_increasing (thr s)
      && Nat.eqb (length (icpt s)) n
      && Nat.ltb 0 n
      && forallb (fun row => Nat.eqb (length row) n) (rates s)
      && forallb xq_is_fin (icpt s)
      && forallb (forallb xq_is_fin) (rates s)
  | _ => false
  end.
