(* Column.v — numpy arrays as typed columns; numpy.vectorize as used by
   functions_loader._vectorize_func (no otypes: the dtype of the whole column is the
   type of the FIRST row's result, every row is then cast to it). *)
From Coq Require Import ZArith QArith Qcanon Bool String List Lia.
From GettsimModel Require Import Num Val.
Import ListNotations.

Inductive column :=
| CInt (l : list Z)
| CFloat (l : list xq)
| CBool (l : list bool)
| CDate (l : list Z).

Definition col_len (c : column) : nat :=
  match c with
  | CInt l => length l | CFloat l => length l | CBool l => length l | CDate l => length l
  end.

Definition col_dtype (c : column) : dtype :=
  match c with CInt _ => TInt | CFloat _ => TFloat | CBool _ => TBool | CDate _ => TDate end.

Definition col_vals (c : column) : list val :=
  match c with
  | CInt l => map VInt l | CFloat l => map VFloat l
  | CBool l => map VBool l | CDate l => map VDate l
  end.

Lemma col_vals_length c : length (col_vals c) = col_len c.
Proof. destruct c; simpl; apply map_length. Qed.

Fixpoint mapM_res {A B} (f : A -> res B) (l : list A) : res (list B) :=
  match l with
  | [] => Ok []
  | x :: r => do y <- f x; do ys <- mapM_res f r; Ok (y :: ys)
  end.

Definition un_int (v : val) : res Z := match v with VInt z => Ok z | _ => Err EType end.
Definition un_float (v : val) : res xq := match v with VFloat z => Ok z | _ => Err EType end.
Definition un_bool (v : val) : res bool := match v with VBool z => Ok z | _ => Err EType end.
Definition un_date (v : val) : res Z := match v with VDate z => Ok z | _ => Err EType end.

(* numpy: asanyarray(list_of_python_objects, dtype=t) *)
Definition pack (t : dtype) (vs : list val) : res column :=
  match t with
  | TInt => do l <- mapM_res (fun v => do w <- cast TInt v; un_int w) vs; Ok (CInt l)
  | TFloat => do l <- mapM_res (fun v => do w <- cast TFloat v; un_float w) vs; Ok (CFloat l)
  | TBool => do l <- mapM_res (fun v => do w <- cast TBool v; un_bool w) vs; Ok (CBool l)
  | TDate => do l <- mapM_res (fun v => do w <- cast TDate v; un_date w) vs; Ok (CDate l)
  | TOther => Err EType
  end.

(* rows of a table given as a list of equally long columns *)
Fixpoint transpose (n : nat) (cols : list (list val)) : list (list val) :=
  match n with
  | O => []
  | S k => map (fun c => hd VNone c) cols :: transpose k (map (@tl val) cols)
  end.

Definition rows_of (n : nat) (args : list column) : list (list val) :=
  transpose n (map col_vals args).

(* numpy.vectorize(func) applied to the argument columns, n rows *)
Definition vectorize (f : list val -> res val) (n : nat) (args : list column) : res column :=
  match rows_of n args with
  | [] => Err EValue                        (* size-0 inputs: numpy.vectorize raises *)
  | (r0 :: _) as rows =>
      do v0 <- f r0;
      do vs <- mapM_res f rows;
      pack (type_of v0) vs
  end.

(* out[i] = c[p[i]] *)
Definition permute_list {A} (d : A) (p : list nat) (l : list A) : list A :=
  map (fun i => nth i l d) p.

Definition permute_col (p : list nat) (c : column) : column :=
  match c with
  | CInt l => CInt (permute_list 0%Z p l)
  | CFloat l => CFloat (permute_list XNaN p l)
  | CBool l => CBool (permute_list false p l)
  | CDate l => CDate (permute_list 0%Z p l)
  end.

Definition is_perm (p : list nat) (n : nat) : Prop :=
  length p = n /\ NoDup p /\ forall i, In i p -> (i < n)%nat.
