(* Column.v — numpy arrays as typed columns; numpy.vectorize as used by
   functions_loader._vectorize_func (no otypes: the dtype of the whole column is the
   type of the FIRST row's result, every row is then cast to it). *)
From Coq Require Import ZArith QArith Qcanon Bool String List Lia.
From GettsimModel Require Import Num Val.
Import ListNotations.

Inductive column :=
| CInt (l : list Z)
| CFloat (l : list xq)
| CBool (l : list bool)
| CDate (l : list Z).

Definition col_len (c : column) : nat :=
  match c with
  | CInt l => length l | CFloat l => length l | CBool l => length l | CDate l => length l
  end.

Definition col_dtype (c : column) : dtype :=
  match c with CInt _ => TInt | CFloat _ => TFloat | CBool _ => TBool | CDate _ => TDate end.

Definition col_vals (c : column) : list val :=
  match c with
  | CInt l => map VInt l | CFloat l => map VFloat l
  | CBool l => map VBool l | CDate l => map VDate l
  end.

Lemma col_vals_length c : length (col_vals c) = col_len c.
Proof. destruct c; simpl; apply map_length. Qed.

Fixpoint mapM_res {A B} (f : A -> res B) (l : list A) : res (list B) :=
  match l with
  | [] => Ok []
  | x :: r => do y <- f x; do ys <- mapM_res f r; Ok (y :: ys)
  end.

Definition un_int (v : val) : res Z := match v with VInt z => Ok z | _ => Err EType end.
Definition un_float (v : val) : res xq := match v with VFloat z => Ok z | _ => Err EType end.
Definition un_bool (v : val) : res bool := match v with VBool z => Ok z | _ => Err EType end.
Definition un_date (v : val) : res Z := match v with VDate z => Ok z | _ => Err EType end.

(* numpy: asanyarray(list_of_python_objects, dtype=t) *)
Definition pack (t : dtype) (vs : list val) : res column :=
  match t with
  | TInt => do l <- mapM_res (fun v => do w <- cast TInt v; un_int w) vs; Ok (CInt l)
  | TFloat => do l <- mapM_res (fun v => do w <- cast TFloat v; un_float w) vs; Ok (CFloat l)
  | TBool => do l <- mapM_res (fun v => do w <- cast TBool v; un_bool w) vs; Ok (CBool l)
  | TDate => do l <- mapM_res (fun v => do w <- cast TDate v; un_date w) vs; Ok (CDate l)
  | TOther => Err EType
  end.

(* rows of a table given as a list of equally long columns: row i takes element i of each *)
Definition row_at (cols : list (list val)) (i : nat) : list val := map (fun c => nth i c VNone) cols.

Definition rows_of (n : nat) (args : list column) : list (list val) :=
  map (row_at (map col_vals args)) (seq 0 n).

(* numpy.vectorize(func) applied to the argument columns, n rows *)
Definition vectorize (f : list val -> res val) (n : nat) (args : list column) : res column :=
  match rows_of n args with
  | [] => Err EValue                        (* size-0 inputs: numpy.vectorize raises *)
  | (r0 :: _) as rows =>
      do v0 <- f r0;
      do vs <- mapM_res f rows;
      pack (type_of v0) vs
  end.

(* out[i] = c[p[i]] *)
Definition permute_list {A} (d : A) (p : list nat) (l : list A) : list A :=
  map (fun i => nth i l d) p.

Definition permute_col (p : list nat) (c : column) : column :=
  match c with
  | CInt l => CInt (permute_list 0%Z p l)
  | CFloat l => CFloat (permute_list XNaN p l)
  | CBool l => CBool (permute_list false p l)
  | CDate l => CDate (permute_list 0%Z p l)
  end.

Definition is_perm (p : list nat) (n : nat) : Prop :=
  length p = n /\ NoDup p /\ forall i, In i p -> (i < n)%nat.

(* ---------------------------------------------------------------- *)
(* numpy.vectorize(func, otypes=[t]) — the dtype is fixed by the rule's declared result
   type; [None] = no otypes (dtype inferred from the first row's result, the behaviour of
   functions_loader._vectorize_func before the repair and still for undeclared types) *)

Definition vectorize_gen (ot : option dtype) (f : list val -> res val) (n : nat) (args : list column)
  : res column :=
  let rows := rows_of n args in
  match ot with
  | Some t => do vs <- mapM_res f rows; pack t vs
  | None => vectorize f n args
  end.

Lemma mapM_res_nth {A B} (f : A -> res B) l ys :
  mapM_res f l = Ok ys -> forall i x, nth_error l i = Some x ->
  exists y, f x = Ok y /\ nth_error ys i = Some y.
Proof.
  revert ys. induction l as [|a r IH]; intros ys H i x Hi; [destruct i; discriminate|].
  cbn in H. destruct (f a) as [b|] eqn:Ea; [|discriminate]. cbn in H.
  destruct (mapM_res f r) as [bs|] eqn:Er; [|discriminate]. cbn in H. injection H as <-.
  destruct i as [|i]; cbn in *.
  - injection Hi as <-. exists b. auto.
  - apply (IH bs eq_refl i x Hi).
Qed.

Lemma mapM_res_length {A B} (f : A -> res B) l ys : mapM_res f l = Ok ys -> length ys = length l.
Proof.
  revert ys. induction l as [|a r IH]; intros ys H; cbn in H.
  - injection H as <-. reflexivity.
  - destruct (f a); [|discriminate]. cbn in H. destruct (mapM_res f r) eqn:E; [|discriminate].
    cbn in H. injection H as <-. cbn. f_equal. apply IH. reflexivity.
Qed.

Lemma pack_inv t vs c : pack t vs = Ok c ->
  col_dtype c = t /\
  exists ws, mapM_res (cast t) vs = Ok ws /\ col_vals c = ws.
Proof.
  assert (G : forall (A : Type) (un : val -> res A) (mk : A -> val) tt,
            (forall w a, un w = Ok a -> w = mk a) ->
            forall l, mapM_res (fun v => do w <- cast tt v; un w) vs = Ok l ->
            mapM_res (cast tt) vs = Ok (map mk l)).
  { intros A un mk tt Hun. induction vs as [|v r IH]; intros l H; cbn in *.
    - injection H as <-. reflexivity.
    - destruct (cast tt v) as [w|] eqn:Ec; [|discriminate]. cbn in H.
      destruct (un w) as [a|] eqn:Eu; [|discriminate]. cbn in H.
      destruct (mapM_res (fun v0 => do w0 <- cast tt v0; un w0) r) as [l'|] eqn:Er; [|discriminate].
      cbn in H. injection H as <-. rewrite (IH l' eq_refl). cbn. rewrite (Hun w a Eu). reflexivity. }
  unfold pack. destruct t; try discriminate.
  - destruct (mapM_res (fun v => do w <- cast TInt v; un_int w) vs) as [l|] eqn:E; [|discriminate].
    cbn. intro H. injection H as <-. split; [reflexivity|]. exists (map VInt l). split; [|reflexivity].
    apply (G Z un_int VInt TInt); [|exact E]. intros w a Hw. destruct w; try discriminate. cbn in Hw. congruence.
  - destruct (mapM_res (fun v => do w <- cast TFloat v; un_float w) vs) as [l|] eqn:E; [|discriminate].
    cbn. intro H. injection H as <-. split; [reflexivity|]. exists (map VFloat l). split; [|reflexivity].
    apply (G xq un_float VFloat TFloat); [|exact E]. intros w a Hw. destruct w; try discriminate. cbn in Hw. congruence.
  - destruct (mapM_res (fun v => do w <- cast TBool v; un_bool w) vs) as [l|] eqn:E; [|discriminate].
    cbn. intro H. injection H as <-. split; [reflexivity|]. exists (map VBool l). split; [|reflexivity].
    apply (G bool un_bool VBool TBool); [|exact E]. intros w a Hw. destruct w; try discriminate. cbn in Hw. congruence.
  - destruct (mapM_res (fun v => do w <- cast TDate v; un_date w) vs) as [l|] eqn:E; [|discriminate].
    cbn. intro H. injection H as <-. split; [reflexivity|]. exists (map VDate l). split; [|reflexivity].
    apply (G Z un_date VDate TDate); [|exact E]. intros w a Hw. destruct w; try discriminate. cbn in Hw. congruence.
Qed.

(* with a declared dtype, the column's dtype is the declared one whatever the data, and every
   cell is the rule's value for that row cast to the declared type *)
Theorem vectorize_declared t f n args c :
  vectorize_gen (Some t) f n args = Ok c ->
  col_dtype c = t /\
  forall i row, nth_error (rows_of n args) i = Some row ->
    exists v w, f row = Ok v /\ cast t v = Ok w /\ nth_error (col_vals c) i = Some w.
Proof.
  unfold vectorize_gen. destruct (mapM_res f (rows_of n args)) as [vs|] eqn:E; [|discriminate].
  cbn. intro H. destruct (pack_inv _ _ _ H) as (Hd & ws & Hws & Hc). split; [exact Hd|].
  intros i row Hi. destruct (mapM_res_nth _ _ _ E i row Hi) as (v & Hv & Hn).
  destruct (mapM_res_nth _ _ _ Hws i v Hn) as (w & Hw & Hnw). exists v, w. rewrite Hc. auto.
Qed.

(* the cast is the identity when the rule returns a value of its declared type ... *)
Theorem cast_same_type t v : type_of v = t -> t <> TOther -> cast t v = Ok v.
Proof. intros <- Hn. destruct v; cbn in *; try reflexivity; congruence. Qed.

(* ... and int / bool results of a float rule are widened without changing the number *)
Theorem cast_widen_lossless v :
  (exists z, v = VInt z /\ cast TFloat v = Ok (VFloat (xz z)))
  \/ (exists b, v = VBool b /\ cast TFloat v = Ok (VFloat (xz (if b then 1 else 0)%Z)))
  \/ (forall z, v <> VInt z) /\ (forall b, v <> VBool b).
Proof.
  destruct v; try (right; right; split; intros; discriminate).
  - left. eauto.
  - right. left. eauto.
Qed.

(* without a declared dtype the first row decides: a rule returning the int literal 0 on the first
   row and 0.35 on the second yields the int column [0; 0] (the value 0.35 is truncated) *)
Definition unstable_rule (row : list val) : res val :=
  match row with
  | [VBool true] => Ok (VInt 0%Z)
  | _ => Ok (VFloat (XFin (qfrac 7 20)))
  end.

Theorem vectorize_inferred_refuted :
  vectorize_gen None unstable_rule 2 [CBool [true; false]] = Ok (CInt [0%Z; 0%Z])
  /\ vectorize_gen None unstable_rule 2 [CBool [false; true]] = Ok (CFloat [XFin (qfrac 7 20); xz 0])
  /\ vectorize_gen (Some TFloat) unstable_rule 2 [CBool [true; false]] = Ok (CFloat [xz 0; XFin (qfrac 7 20)]).
Proof. vm_compute. repeat split; reflexivity. Qed.
