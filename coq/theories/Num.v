(* Num.v — the numeric domain of the model.
   Python int  = Z.
   Python float = extended exact rational  xq ::= -inf | Fin q | +inf | nan
   with q : Qc (canonical rationals, Leibniz equality).
   Floating-point rounding error, overflow, -0.0 and denormals are NOT modelled
   (stated in the trusted base). *)
From Coq Require Import ZArith QArith Qcanon Qround Qabs Bool List Lia Lra.
Import ListNotations.

Open Scope Qc_scope.

Definition qz (z : Z) : Qc := Q2Qc (inject_Z z).
Definition qfrac (n : Z) (d : positive) : Qc := Q2Qc (n # d).

Definition Qcleb (x y : Qc) : bool := Qle_bool x y.
Definition Qcltb (x y : Qc) : bool := negb (Qle_bool y x).
Definition Qceqb (x y : Qc) : bool := Qeq_bool x y.

Lemma Qcleb_iff x y : Qcleb x y = true <-> x <= y.
Proof. unfold Qcleb, Qcle. apply Qle_bool_iff. Qed.

Lemma Qcltb_iff x y : Qcltb x y = true <-> x < y.
Proof.
  unfold Qcltb, Qclt. rewrite negb_true_iff.
  split; intro H.
  - apply Qnot_le_lt. intro H1. apply Qle_bool_iff in H1. congruence.
  - destruct (Qle_bool y x) eqn:E; auto. apply Qle_bool_iff in E.
    exfalso. apply (Qlt_not_le _ _ H E).
Qed.

Lemma Qceqb_iff x y : Qceqb x y = true <-> x = y.
Proof.
  unfold Qceqb. rewrite Qeq_bool_iff. split; intro H.
  - apply Qc_is_canon; exact H.
  - subst; reflexivity.
Qed.

Lemma Qcleb_false_iff x y : Qcleb x y = false <-> y < x.
Proof.
  rewrite <- Qcltb_iff. unfold Qcltb, Qcleb.
  destruct (Qle_bool x y); simpl; split; congruence.
Qed.

Lemma Qcltb_false_iff x y : Qcltb x y = false <-> y <= x.
Proof.
  rewrite <- Qcleb_iff. unfold Qcltb, Qcleb.
  destruct (Qle_bool y x); simpl; split; congruence.
Qed.

(* Bridge Qc -> Q, so that lra/nra can close arithmetic goals. *)
Lemma this_plus x y : (this (x + y) == this x + this y)%Q.
Proof. unfold Qcplus, Q2Qc; cbn [this]; apply Qred_correct. Qed.
Lemma this_mult x y : (this (x * y) == this x * this y)%Q.
Proof. unfold Qcmult, Q2Qc; cbn [this]; apply Qred_correct. Qed.
Lemma this_opp x : (this (- x) == - this x)%Q.
Proof. unfold Qcopp, Q2Qc; cbn [this]; apply Qred_correct. Qed.
Lemma this_minus x y : (this (x - y) == this x - this y)%Q.
Proof. unfold Qcminus. rewrite this_plus, this_opp. reflexivity. Qed.
Lemma this_inv x : (this (/ x) == / this x)%Q.
Proof. unfold Qcinv, Q2Qc; cbn [this]; apply Qred_correct. Qed.
Lemma this_div x y : (this (x / y) == this x / this y)%Q.
Proof. unfold Qcdiv. rewrite this_mult, this_inv. reflexivity. Qed.
Lemma this_Q2Qc q : (this (Q2Qc q) == q)%Q.
Proof. unfold Q2Qc; cbn [this]; apply Qred_correct. Qed.
Lemma this_qz z : (this (qz z) == inject_Z z)%Q.
Proof. apply this_Q2Qc. Qed.

Lemma Qc_eq_this x y : x = y <-> (this x == this y)%Q.
Proof. split; intro H; [subst; reflexivity | apply Qc_is_canon; exact H]. Qed.
Lemma Qc_le_this x y : x <= y <-> (this x <= this y)%Q.
Proof. reflexivity. Qed.
Lemma Qc_lt_this x y : x < y <-> (this x < this y)%Q.
Proof. reflexivity. Qed.

(* qc_lra: push a Qc goal with Qc hypotheses to Q and call lra / nra. *)
Ltac qc_push :=
  repeat match goal with
  | H : @eq Qc _ _ |- _ => apply Qc_eq_this in H
  | H : Qcle _ _ |- _ => apply Qc_le_this in H
  | H : Qclt _ _ |- _ => apply Qc_lt_this in H
  | H : ~ @eq Qc _ _ |- _ => rewrite Qc_eq_this in H
  | H : Qcleb _ _ = true |- _ => apply Qcleb_iff in H
  | H : Qcltb _ _ = true |- _ => apply Qcltb_iff in H
  | H : Qcleb _ _ = false |- _ => apply Qcleb_false_iff in H
  | H : Qcltb _ _ = false |- _ => apply Qcltb_false_iff in H
  | H : Qceqb _ _ = true |- _ => apply Qceqb_iff in H
  | |- @eq Qc _ _ => apply Qc_eq_this
  | |- Qcle _ _ => apply Qc_le_this
  | |- Qclt _ _ => apply Qc_lt_this
  | |- ~ @eq Qc _ _ => rewrite Qc_eq_this
  end;
  repeat (rewrite ?this_plus, ?this_mult, ?this_opp, ?this_minus, ?this_inv,
                  ?this_div, ?this_qz, ?this_Q2Qc in * ).

Ltac qc_lra := qc_push; lra.
Ltac qc_nra := qc_push; nra.

(* ---------------------------------------------------------------- *)
(* floor / ceil / round-half-even on Qc                              *)

Definition qfloor (x : Qc) : Z := Qfloor x.
Definition qceil (x : Qc) : Z := Qceiling x.

(* numpy.round: nearest, ties to even *)
Definition qround_even (x : Qc) : Z :=
  let f := qfloor x in
  let d := x - qz f in            (* 0 <= d < 1 *)
  let half := qfrac 1 2 in
  if Qcltb d half then f
  else if Qcltb half d then (f + 1)%Z
  else if Z.even f then f else (f + 1)%Z.

Lemma qfloor_le x : qz (qfloor x) <= x.
Proof.
  unfold qfloor. apply Qc_le_this. rewrite this_qz. apply Qfloor_le.
Qed.
Lemma qfloor_lt x : x < qz (qfloor x + 1).
Proof.
  unfold qfloor. apply Qc_lt_this. rewrite this_qz. apply Qlt_floor.
Qed.
Lemma qceil_ge x : x <= qz (qceil x).
Proof.
  unfold qceil. apply Qc_le_this. rewrite this_qz. apply Qle_ceiling.
Qed.
Lemma qceil_lt x : qz (qceil x - 1) < x.
Proof.
  unfold qceil. apply Qc_lt_this. rewrite this_qz. apply Qceiling_lt.
Qed.

Lemma qz_plus a b : qz (a + b) = qz a + qz b.
Proof. apply Qc_eq_this. rewrite this_plus, !this_qz, inject_Z_plus. reflexivity. Qed.
Lemma qz_mult a b : qz (a * b) = qz a * qz b.
Proof. apply Qc_eq_this. rewrite this_mult, !this_qz, inject_Z_mult. reflexivity. Qed.
Lemma qz_opp a : qz (- a) = - qz a.
Proof. apply Qc_eq_this. rewrite this_opp, !this_qz, inject_Z_opp. reflexivity. Qed.
Lemma qz_le a b : (a <= b)%Z <-> qz a <= qz b.
Proof. rewrite Qc_le_this, !this_qz, <- Zle_Qle. reflexivity. Qed.
Lemma qz_lt a b : (a < b)%Z <-> qz a < qz b.
Proof. rewrite Qc_lt_this, !this_qz, <- Zlt_Qlt. reflexivity. Qed.
Lemma qz_inj a b : qz a = qz b -> a = b.
Proof. rewrite Qc_eq_this, !this_qz. intro H. rewrite inject_Z_injective in H. exact H. Qed.

Lemma qfloor_qz z : qfloor (qz z) = z.
Proof.
  unfold qfloor.
  assert (H : (this (qz z) == inject_Z z)%Q) by apply this_qz.
  rewrite (Qfloor_comp _ _ H). apply Qfloor_Z.
Qed.
Lemma qceil_qz z : qceil (qz z) = z.
Proof.
  unfold qceil.
  assert (H : (this (qz z) == inject_Z z)%Q) by apply this_qz.
  rewrite (Qceiling_comp _ _ H). apply Qceiling_Z.
Qed.

(* ---------------------------------------------------------------- *)
(* extended rationals                                                 *)

Inductive xq := XNegInf | XFin (q : Qc) | XPosInf | XNaN.

Definition xz (z : Z) : xq := XFin (qz z).

Definition xq_eqb (a b : xq) : bool :=
  match a, b with
  | XNegInf, XNegInf | XPosInf, XPosInf => true
  | XFin p, XFin q => Qceqb p q
  | _, _ => false               (* nan <> nan *)
  end.

(* structural equality (nan = nan): used for comparing model outputs *)
Definition xq_same (a b : xq) : bool :=
  match a, b with
  | XNaN, XNaN => true
  | _, _ => xq_eqb a b
  end.

Definition xq_ltb (a b : xq) : bool :=
  match a, b with
  | XNaN, _ | _, XNaN => false
  | XNegInf, XNegInf => false
  | XNegInf, _ => true
  | _, XNegInf => false
  | XPosInf, _ => false
  | _, XPosInf => true
  | XFin p, XFin q => Qcltb p q
  end.

Definition xq_leb (a b : xq) : bool :=
  match a, b with
  | XNaN, _ | _, XNaN => false
  | XNegInf, _ => true
  | _, XNegInf => false
  | _, XPosInf => true
  | XPosInf, _ => false
  | XFin p, XFin q => Qcleb p q
  end.

Definition q_sign (q : Qc) : comparison := (q ?= 0).

Definition xq_neg (a : xq) : xq :=
  match a with
  | XNegInf => XPosInf | XPosInf => XNegInf | XNaN => XNaN
  | XFin q => XFin (- q)
  end.

Definition xq_add (a b : xq) : xq :=
  match a, b with
  | XNaN, _ | _, XNaN => XNaN
  | XPosInf, XNegInf | XNegInf, XPosInf => XNaN
  | XPosInf, _ | _, XPosInf => XPosInf
  | XNegInf, _ | _, XNegInf => XNegInf
  | XFin p, XFin q => XFin (p + q)
  end.

Definition xq_sub (a b : xq) : xq := xq_add a (xq_neg b).

Definition inf_times (pos : bool) (q : Qc) : xq :=
  match q_sign q with
  | Eq => XNaN
  | Gt => if pos then XPosInf else XNegInf
  | Lt => if pos then XNegInf else XPosInf
  end.

Definition xq_mul (a b : xq) : xq :=
  match a, b with
  | XNaN, _ | _, XNaN => XNaN
  | XFin p, XFin q => XFin (p * q)
  | XPosInf, XPosInf | XNegInf, XNegInf => XPosInf
  | XPosInf, XNegInf | XNegInf, XPosInf => XNegInf
  | XPosInf, XFin q | XFin q, XPosInf => inf_times true q
  | XNegInf, XFin q | XFin q, XNegInf => inf_times false q
  end.

(* Python float division: a zero divisor raises (None). *)
Definition xq_div (a b : xq) : option xq :=
  match b with
  | XFin q =>
      if Qceqb q 0 then None
      else match a with
           | XFin p => Some (XFin (p / q))
           | XNaN => Some XNaN
           | XPosInf => Some (inf_times true q)
           | XNegInf => Some (inf_times false q)
           end
  | XNaN => Some XNaN
  | XPosInf | XNegInf =>
      match a with
      | XFin _ => Some (XFin 0)
      | _ => Some XNaN
      end
  end.

Definition xq_is_fin (a : xq) : bool :=
  match a with XFin _ => true | _ => false end.

Fixpoint qpow (q : Qc) (n : nat) : Qc :=
  match n with O => 1 | S k => q * qpow q k end.
