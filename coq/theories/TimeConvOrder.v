(* TimeConvOrder.v — property C13, order side: every conversion factor is strictly positive, so a
   conversion is an order isomorphism of the rationals: it preserves <, <=, the sign and zero, and is
   injective (two distinct values never collapse, a non-negative flow never becomes negative). *)
From Coq Require Import ZArith QArith Qcanon Bool List Lia.
From GettsimModel Require Import Num NumTac Val Dag TimeConv.
Open Scope Qc_scope.

Lemma per_year_pos u : 0 < per_year u.
Proof. destruct u; vm_compute; reflexivity. Qed.

Theorem factor_pos u v : 0 < factor u v.
Proof. destruct u, v; vm_compute; reflexivity. Qed.

Theorem conv_injective u v x y : conv u v x = conv u v y -> x = y.
Proof.
  intro H. rewrite <- (conv_roundtrip u v x), <- (conv_roundtrip u v y). rewrite H. reflexivity.
Qed.

Theorem conv_mono u v x y : x <= y -> conv u v x <= conv u v y.
Proof.
  intro H. unfold conv. apply Qcmult_le_compat_r; [exact H|]. apply Qclt_le_weak. apply factor_pos.
Qed.

Theorem conv_mono_iff u v x y : x <= y <-> conv u v x <= conv u v y.
Proof.
  split; [apply conv_mono|]. intro H. apply (conv_mono v u) in H. rewrite !conv_roundtrip in H. exact H.
Qed.

Theorem conv_strict_mono u v x y : x < y <-> conv u v x < conv u v y.
Proof.
  split; intro H.
  - apply Qcnot_le_lt. intro L. apply (proj2 (conv_mono_iff u v y x)) in L. apply Qcle_not_lt in L. exact (L H).
  - apply Qcnot_le_lt. intro L. apply (conv_mono u v) in L. apply Qcle_not_lt in L. exact (L H).
Qed.

Theorem conv_zero u v : conv u v 0 = 0.
Proof. unfold conv. ring. Qed.

Theorem conv_nonneg u v x : 0 <= x <-> 0 <= conv u v x.
Proof. rewrite <- (conv_zero u v) at 2. apply conv_mono_iff. Qed.

Theorem conv_zero_iff u v x : x = 0 <-> conv u v x = 0.
Proof.
  split; intro H; [subst; apply conv_zero|]. apply (conv_injective u v). rewrite conv_zero. exact H.
Qed.
