(* AggClosed.v — closure of predicates under the aggregation models of Aggregation.v:
   whatever holds for every source value and is preserved by the reduction holds for every cell
   of the aggregated column (group reductions, sums by person pointer, joins). *)
From Coq Require Import ZArith Bool List Lia.
From GettsimModel Require Import Num Val Aggregation.
Import ListNotations.
Open Scope Z_scope.

Lemma fold_left_closed {A} (op : A -> A -> A) (Q : A -> Prop) :
  (forall x y, Q x -> Q y -> Q (op x y)) -> forall r x, Q x -> Forall Q r -> Q (fold_left op r x).
Proof.
  intros Hop. induction r as [|y r IH]; intros x Hx F; cbn; [exact Hx|].
  inversion F as [|? ? Fy Fr]; subst. apply IH; [apply Hop; assumption | exact Fr].
Qed.

Lemma select_in {A} k (rows : list (Z * A)) v : In v (select k rows) -> exists k', In (k', v) rows.
Proof.
  unfold select. intro H. apply in_map_iff in H. destruct H as ([k' w] & <- & Hf). apply filter_In in Hf.
  exists k'. exact (proj1 Hf).
Qed.

Lemma in_combine_r' {A B} (l : list A) (l' : list B) a b : In (a, b) (combine l l') -> In b l'.
Proof. apply in_combine_r. Qed.

(* every cell of a group reduction satisfies Q when every source value does and op preserves Q *)
Theorem grouped_total_closed {A} (op : A -> A -> A) dflt (g : list Z) (l : list A) (Q : A -> Prop) :
  length g = length l -> Forall Q l -> (forall x y, Q x -> Q y -> Q (op x y)) ->
  Forall Q (grouped_total op dflt g l) /\ length (grouped_total op dflt g l) = length g.
Proof.
  intros Hlen F Hop. split.
  - apply Forall_forall. intros y Hy. apply In_nth_error in Hy. destruct Hy as [i Hi].
    assert (Hig : (i < length g)%nat).
    { unfold grouped_total in Hi. assert (Hs : nth_error (map (fun o => match o with Some a => a | None => dflt end) (grouped op g l)) i <> None) by congruence.
      apply nth_error_Some in Hs. rewrite map_length, grouped_length in Hs. exact Hs. }
    destruct (nth_error g i) as [k|] eqn:Ek; [|apply nth_error_None in Ek; lia].
    destruct (nth_error l i) as [v|] eqn:Ev; [|apply nth_error_None in Ev; lia].
    destruct (grouped_total_value op dflt g l i k v Ek Ev) as (x & r & Es & Hv). rewrite Hi in Hv. injection Hv as ->.
    rewrite Forall_forall in F.
    assert (Hall : forall w, In w (x :: r) -> Q w).
    { intros w Hw. rewrite <- Es in Hw. destruct (select_in k _ w Hw) as (k' & Hk'). apply F. apply (in_combine_r g l k' w Hk'). }
    apply fold_left_closed; [exact Hop | apply Hall; left; reflexivity | apply Forall_forall; intros w Hw; apply Hall; right; exact Hw].
  - unfold grouped_total. rewrite map_length. apply grouped_length.
Qed.

(* the group of a row contains the row: counts are at least 1 *)
Lemma grouped_count_ge1 g : Forall (fun z => 1 <= z) (grouped_total Z.add 0 g (map (fun _ => 1) g)).
Proof.
  apply Forall_forall. intros y Hy. apply In_nth_error in Hy. destruct Hy as [i Hi].
  assert (Hig : (i < length g)%nat).
  { unfold grouped_total in Hi. assert (Hs : nth_error (map (fun o => match o with Some a => a | None => 0 end) (grouped Z.add g (map (fun _ => 1) g))) i <> None) by congruence.
    apply nth_error_Some in Hs. rewrite map_length, grouped_length in Hs. exact Hs. }
  destruct (nth_error g i) as [k|] eqn:Ek; [|apply nth_error_None in Ek; lia].
  rewrite (grouped_count_spec g i k Ek) in Hi. injection Hi as <-.
  assert (In k (filter (fun k' => k =? k') g)) by (apply filter_In; split; [apply (nth_error_In _ _ Ek) | apply Z.eqb_refl]).
  destruct (filter (fun k' => k =? k') g); [contradiction | cbn; lia].
Qed.

(* sums by person pointer *)
Section Sbp.
  Context {A : Type}.
  Variable add : A -> A -> A.
  Variable zero : A.
  Variable Q : A -> Prop.       (* accumulated values *)
  Variable Qc : A -> Prop.      (* source values *)
  Hypothesis Hadd : forall a c, Q a -> Qc c -> Q (add a c).

  Lemma upd_nth_forall n c l : Qc c -> Forall Q l -> Forall Q (upd_nth n (fun a => add a c) l).
  Proof.
    intros Hc. revert n. induction l as [|x r IH]; intros n F; destruct n; cbn; try exact F.
    - inversion F; subst. constructor; [apply Hadd; assumption | assumption].
    - inversion F; subst. constructor; [assumption | apply IH; assumption].
  Qed.

  Lemma sbp_loop_closed pids : forall rows out res_,
    Forall (fun pc => Qc (snd pc)) rows -> Forall Q out -> sbp_loop add rows pids out = Ok res_ -> Forall Q res_ /\ length res_ = length out.
  Proof.
    induction rows as [|[ptr c] r IH]; intros out res_ Fr Fo H; cbn [sbp_loop] in H.
    - injection H as <-. split; [exact Fo | reflexivity].
    - inversion Fr as [|? ? Hc Fr']; subst. cbn in Hc.
      destruct (0 <=? ptr).
      + destruct (pos_of ptr pids 0) as [j|]; [|discriminate].
        destruct (IH _ _ Fr' (upd_nth_forall j c out Hc Fo) H) as [F L]. split; [exact F | rewrite L; apply upd_nth_length].
      + apply (IH _ _ Fr' Fo H).
  Qed.

  Theorem sum_by_p_id_closed col ptr pids out : Q zero -> Forall Qc col -> sum_by_p_id_list add zero col ptr pids = Ok out ->
    Forall Q out /\ length out = length pids.
  Proof.
    intros Hz Fc H. unfold sum_by_p_id_list in H.
    destruct (sbp_loop_closed pids (combine ptr col) (map (fun _ => zero) pids) out) as [F L].
    - apply Forall_forall. intros [p c] Hpc. cbn. rewrite Forall_forall in Fc. apply Fc. apply (in_combine_r ptr col p c Hpc).
    - apply Forall_forall. intros y Hy. apply in_map_iff in Hy. destruct Hy as (? & <- & _). exact Hz.
    - exact H.
    - split; [exact F | rewrite L; apply map_length].
  Qed.
End Sbp.

(* joins: every cell is a target value or the default *)
Theorem join_list_closed {A} (fk pk : list Z) (target : list A) dflt out (Q : A -> Prop) :
  Forall Q target -> Q dflt -> join_list fk pk target dflt = Ok out -> Forall Q out /\ length out = length fk.
Proof.
  intros F Hd H. unfold join_list in H. destruct (negb (nodup_z pk)); [discriminate|].
  destruct (existsb _ fk); [discriminate|]. injection H as <-. split; [|apply map_length].
  apply Forall_forall. intros y Hy. apply in_map_iff in Hy. destruct Hy as (k & <- & _).
  destruct (index_of k pk 0) as [j|]; [|exact Hd].
  destruct (nth_in_or_default j target dflt) as [Hin| ->]; [rewrite Forall_forall in F; apply F; exact Hin | exact Hd].
Qed.
