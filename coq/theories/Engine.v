(* Engine.v — the evaluation core of compute_taxes_and_transfers, abstractly:
   a system is a list of nodes in topological order; a node reads the columns named by
   its arguments from the environment (data columns and columns computed so far) and adds
   its own column.  Column type and node operations are abstract, so the theorems hold for
   every rule base, every population and every reform:
     - run_closed_subset   (C04)  pruning to any argument-closed set of names (e.g. the
                                  ancestors of the targets) does not change those columns;
     - run_taint           (C06)  replacing the operations of a set F of nodes changes only
                                  columns that depend on F through the arguments;
     - run_override        (C05)  removing node n and supplying its computed column as data
                                  changes nothing. *)
From Coq Require Import Bool String List Lia.
From GettsimModel Require Import Val.
Import ListNotations.
Open Scope string_scope.

Section Engine.
  Variable col : Type.

  Record node := { nm : string; nargs : list string; nop : list col -> res col }.
  Definition tbl := list (string * col).

  Fixpoint tget (x : string) (e : tbl) : option col :=
    match e with
    | [] => None
    | (y, c) :: r => if String.eqb x y then Some c else tget x r
    end.

  Fixpoint get_all (xs : list string) (e : tbl) : res (list col) :=
    match xs with
    | [] => Ok []
    | x :: r => match tget x e with
                | Some c => do cs <- get_all r e; Ok (c :: cs)
                | None => Err EKey
                end
    end.

  Definition step (e : tbl) (n : node) : res tbl :=
    do cs <- get_all (nargs n) e; do c <- nop n cs; Ok ((nm n, c) :: e).

  Fixpoint run (S : list node) (e : tbl) : res tbl :=
    match S with
    | [] => Ok e
    | n :: r => do e' <- step e n; run r e'
    end.

  Definition mem (x : string) (l : list string) : bool := existsb (String.eqb x) l.

  Lemma mem_In x l : mem x l = true <-> In x l.
  Proof.
    unfold mem. rewrite existsb_exists. split.
    - intros [y [Hy E]]. apply String.eqb_eq in E. subst. exact Hy.
    - intro H. exists x. split; [exact H | apply String.eqb_refl].
  Qed.

  (* two environments agree on a set of names *)
  Definition agree (K : string -> bool) (e1 e2 : tbl) : Prop :=
    forall x, K x = true -> tget x e1 = tget x e2.

  Lemma get_all_agree K xs e1 e2 :
    agree K e1 e2 -> (forall x, In x xs -> K x = true) -> get_all xs e1 = get_all xs e2.
  Proof.
    intros Ha. induction xs as [|x r IH]; intro Hk; cbn; [reflexivity|].
    rewrite (Ha x (Hk x (or_introl eq_refl))). rewrite IH; [reflexivity|].
    intros y Hy. apply Hk. right. exact Hy.
  Qed.

  Lemma agree_cons K e1 e2 x c : agree K e1 e2 -> agree K ((x, c) :: e1) ((x, c) :: e2).
  Proof. intros H y Hy. cbn. destruct (String.eqb y x); [reflexivity | apply H; exact Hy]. Qed.

  Lemma agree_cons_l K e1 e2 x c : K x = false -> agree K e1 e2 -> agree K ((x, c) :: e1) e2.
  Proof.
    intros Hx H y Hy. cbn. destruct (String.eqb y x) eqn:E; [|apply H; exact Hy].
    apply String.eqb_eq in E. subst. congruence.
  Qed.

  (* ---------------------------------------------------------------- *)
  (* C04: pruning to an argument-closed set of names                    *)

  Definition closed (K : string -> bool) (S : list node) : Prop :=
    forall n, In n S -> K (nm n) = true -> forall a, In a (nargs n) -> K a = true.

  Definition prune (K : string -> bool) (S : list node) : list node :=
    filter (fun n => K (nm n)) S.

  Theorem run_closed_subset K : forall S e1 e2 t,
    closed K S -> agree K e1 e2 -> run S e1 = Ok t ->
    exists t', run (prune K S) e2 = Ok t' /\ agree K t t'.
  Proof.
    induction S as [|n r IH]; intros e1 e2 t Hc Ha Hr; cbn in *.
    - injection Hr as <-. exists e2. split; [reflexivity | exact Ha].
    - unfold step in Hr at 1. cbn [bind] in Hr.
      destruct (get_all (nargs n) e1) as [cs|] eqn:Eg; [|discriminate]. cbn [bind] in Hr.
      destruct (nop n cs) as [c|] eqn:Eo; [|discriminate]. cbn [bind] in Hr.
      assert (Hc' : closed K r) by (intros m Hm; apply Hc; right; exact Hm).
      destruct (K (nm n)) eqn:Ek.
      + cbn [run]. unfold step at 1.
        rewrite <- (get_all_agree K (nargs n) e1 e2 Ha (Hc n (or_introl eq_refl) Ek)), Eg. cbn [bind].
        rewrite Eo. cbn [bind].
        apply (IH _ _ t Hc' (agree_cons K e1 e2 (nm n) c Ha) Hr).
      + apply (IH _ _ t Hc' (agree_cons_l K e1 e2 (nm n) c Ek Ha) Hr).
  Qed.

  (* the user-level corollary: a target has the same value whatever other targets are requested,
     provided both target sets are evaluated through argument-closed node sets containing it *)
  Corollary target_independent K1 K2 S e t1 t2 x :
    closed K1 S -> closed K2 S -> K1 x = true -> K2 x = true ->
    run (prune K1 S) e = Ok t1 -> run (prune K2 S) e = Ok t2 ->
    forall t, run S e = Ok t -> tget x t1 = tget x t2.
  Proof.
    intros C1 C2 X1 X2 R1 R2 t Rt.
    destruct (run_closed_subset K1 S e e t C1 (fun _ _ => eq_refl) Rt) as (t1' & R1' & A1).
    destruct (run_closed_subset K2 S e e t C2 (fun _ _ => eq_refl) Rt) as (t2' & R2' & A2).
    rewrite R1 in R1'. injection R1' as <-. rewrite R2 in R2'. injection R2' as <-.
    rewrite <- (A1 x X1), <- (A2 x X2). reflexivity.
  Qed.

  (* ---------------------------------------------------------------- *)
  (* C06: reform locality                                               *)

  (* names that depend on a changed node: F itself and everything with a tainted argument *)
  Fixpoint tainted (F : string -> bool) (S : list node) (acc : list string) : list string :=
    match S with
    | [] => acc
    | n :: r =>
        if F (nm n) || existsb (fun a => mem a acc) (nargs n)
        then tainted F r (nm n :: acc) else tainted F r acc
    end.

  (* S2 is S1 with the operations of the nodes in F replaced by anything *)
  Inductive reform_of (F : string -> bool) : list node -> list node -> Prop :=
  | RNil : reform_of F [] []
  | RCons n1 n2 r1 r2 :
      nm n1 = nm n2 -> nargs n1 = nargs n2 ->
      (F (nm n1) = false -> nop n1 = nop n2) ->
      reform_of F r1 r2 -> reform_of F (n1 :: r1) (n2 :: r2).

  Lemma get_all_clean acc xs e1 e2 :
    (forall x, mem x acc = false -> tget x e1 = tget x e2) ->
    existsb (fun a => mem a acc) xs = false -> get_all xs e1 = get_all xs e2.
  Proof.
    intros Ha. induction xs as [|x r IH]; intro Hx; cbn in *; [reflexivity|].
    apply orb_false_iff in Hx. destruct Hx as [H1 H2].
    rewrite (Ha x H1), (IH H2). reflexivity.
  Qed.

  Theorem run_taint F : forall S1 S2, reform_of F S1 S2 ->
    forall acc e1 e2 t1 t2,
      (forall x, mem x acc = false -> tget x e1 = tget x e2) ->
      run S1 e1 = Ok t1 -> run S2 e2 = Ok t2 ->
      forall x, mem x (tainted F S1 acc) = false -> tget x t1 = tget x t2.
  Proof.
    induction 1 as [|n1 n2 r1 r2 Hn Ha Ho Hr IH]; intros acc e1 e2 t1 t2 He R1 R2 x Hx;
      cbn [run bind] in R1, R2; cbn [tainted] in Hx.
    - injection R1 as <-. injection R2 as <-. apply He. exact Hx.
    - unfold step in R1 at 1, R2 at 1. cbn [bind] in R1, R2.
      destruct (get_all (nargs n1) e1) as [cs1|] eqn:G1; [|discriminate]. cbn [bind] in R1.
      destruct (nop n1 cs1) as [c1|] eqn:O1; [|discriminate]. cbn [bind] in R1.
      destruct (get_all (nargs n2) e2) as [cs2|] eqn:G2; [|discriminate]. cbn [bind] in R2.
      destruct (nop n2 cs2) as [c2|] eqn:O2; [|discriminate]. cbn [bind] in R2.
      destruct (F (nm n1) || existsb (fun a => mem a acc) (nargs n1)) eqn:Et.
      + (* tainted: the new column may differ; it joins the tainted set *)
        apply (IH (nm n1 :: acc) ((nm n1, c1) :: e1) ((nm n2, c2) :: e2) t1 t2); [|exact R1|exact R2|exact Hx].
        intros y Hy. unfold mem in Hy. cbn [existsb] in Hy. apply orb_false_iff in Hy. destruct Hy as [Hy1 Hy2].
        cbn [tget]. rewrite <- Hn. rewrite Hy1. apply He. exact Hy2.
      + apply orb_false_iff in Et. destruct Et as [Ef Ea].
        assert (E : cs1 = cs2).
        { rewrite <- Ha in G2. rewrite (get_all_clean acc _ e1 e2 He Ea) in G1. congruence. }
        subst cs2. rewrite (Ho Ef) in O1. rewrite O1 in O2. injection O2 as <-.
        apply (IH acc ((nm n1, c1) :: e1) ((nm n2, c1) :: e2) t1 t2); [|exact R1|exact R2|exact Hx].
        intros y Hy. cbn [tget]. rewrite <- Hn. destruct (String.eqb y (nm n1)); [reflexivity | apply He; exact Hy].
  Qed.

  (* ---------------------------------------------------------------- *)
  (* C05: supplying a computed column as data                           *)

  Definition names (S : list node) : list string := map nm S.

  (* S without the node called x *)
  Definition without (x : string) (S : list node) : list node :=
    filter (fun n => negb (String.eqb (nm n) x)) S.

  (* e2 is e1 plus the binding (x, c), where x is not yet bound in e1 *)
  Definition plus (x : string) (c : col) (e1 e2 : tbl) : Prop :=
    forall y, tget y e2 = if String.eqb y x then Some c else tget y e1.

  (* Formulation that avoids the side condition: track that x is unbound in e1 until its node runs *)
  Lemma get_all_plus x c xs e1 e2 cs :
    plus x c e1 e2 -> tget x e1 = None -> get_all xs e1 = Ok cs -> get_all xs e2 = Ok cs.
  Proof.
    intros Hp Hn. revert cs. induction xs as [|y r IH]; intros cs H; cbn in *; [exact H|].
    destruct (tget y e1) as [cy|] eqn:E1; [|discriminate].
    destruct (get_all r e1) as [cr|] eqn:Er; [|discriminate]. cbn in H. injection H as <-.
    rewrite (Hp y). destruct (String.eqb y x) eqn:Eyx.
    - apply String.eqb_eq in Eyx. subst y. congruence.
    - rewrite E1. rewrite (IH cr eq_refl). reflexivity.
  Qed.

  Lemma get_all_same xs e1 e2 : (forall y, tget y e2 = tget y e1) -> get_all xs e2 = get_all xs e1.
  Proof.
    intro H. induction xs as [|y r IH]; cbn; [reflexivity|]. rewrite H, IH. reflexivity.
  Qed.

  (* after x's node has run in S (or if S never defines x), both environments coincide *)
  Lemma run_same : forall S e1 e2 t,
    (forall y, tget y e2 = tget y e1) -> run S e1 = Ok t ->
    exists t', run S e2 = Ok t' /\ forall y, tget y t' = tget y t.
  Proof.
    induction S as [|n r IH]; intros e1 e2 t He R; cbn in *.
    - injection R as <-. exists e2. auto.
    - unfold step in R at 1. cbn [bind] in R.
      destruct (get_all (nargs n) e1) as [cs|] eqn:G; [|discriminate]. cbn [bind] in R.
      destruct (nop n cs) as [c|] eqn:O; [|discriminate]. cbn [bind] in R.
      unfold step at 1. rewrite (get_all_same _ e1 e2 He), G. cbn [bind]. rewrite O. cbn [bind].
      apply (IH ((nm n, c) :: e1) ((nm n, c) :: e2) t); [|exact R]. intro y. cbn. rewrite He. reflexivity.
  Qed.

  Theorem run_override x c : forall S e1 e2 t,
    NoDup (names S) ->
    plus x c e1 e2 -> tget x e1 = None ->
    run S e1 = Ok t -> tget x t = Some c ->
    exists t', run (without x S) e2 = Ok t' /\ forall y, tget y t' = tget y t.
  Proof.
    induction S as [|n r IH]; intros e1 e2 t Hnd Hp Hn R Hx.
    - cbn in R. injection R as <-. congruence.
    - cbn [run] in R. unfold without. cbn [filter]. fold (without x r). cbn [names map] in Hnd.
      unfold step in R at 1. cbn [bind] in R.
      destruct (get_all (nargs n) e1) as [cs|] eqn:G; [|discriminate]. cbn [bind] in R.
      destruct (nop n cs) as [cn|] eqn:O; [|discriminate]. cbn [bind] in R.
      inversion Hnd as [|? ? Hnotin Hnd']; subst.
      destruct (String.eqb (nm n) x) eqn:Enx; cbn [negb run].
      + (* this is x's node: it is dropped; its value must be c *)
        apply String.eqb_eq in Enx. subst x.
        assert (Hc : cn = c).
        { (* later nodes have other names, so the binding of nm n in t is cn *)
          assert (forall S' e t', ~ In (nm n) (names S') -> run S' e = Ok t' -> tget (nm n) t' = tget (nm n) e) as Keep.
          { induction S' as [|m r' IH']; intros e t' Hni R'; cbn in *.
            - injection R' as <-. reflexivity.
            - unfold step in R' at 1. cbn [bind] in R'.
              destruct (get_all (nargs m) e) as [cs'|]; [|discriminate]. cbn [bind] in R'.
              destruct (nop m cs') as [cm|]; [|discriminate]. cbn [bind] in R'.
              rewrite (IH' _ _ (fun H => Hni (or_intror H)) R'). cbn.
              destruct (String.eqb (nm n) (nm m)) eqn:E; [|reflexivity].
              apply String.eqb_eq in E. exfalso. apply Hni. left. symmetry. exact E. }
          rewrite (Keep r _ t Hnotin R) in Hx. cbn in Hx. rewrite String.eqb_refl in Hx. congruence. }
        subst cn.
        assert (Hw : without (nm n) r = r).
        { unfold without. clear - Hnotin. induction r as [|m r IH]; cbn; [reflexivity|].
          destruct (String.eqb (nm m) (nm n)) eqn:E.
          - apply String.eqb_eq in E. exfalso. apply Hnotin. left. exact E.
          - cbn. f_equal. apply IH. intro H. apply Hnotin. right. exact H. }
        rewrite Hw. apply (run_same r ((nm n, c) :: e1) e2 t); [|exact R].
        intro y. rewrite (Hp y). cbn. reflexivity.
      + unfold step at 1. rewrite (get_all_plus x c _ e1 e2 cs Hp Hn G). cbn [bind]. rewrite O. cbn [bind].
        apply (IH ((nm n, cn) :: e1) ((nm n, cn) :: e2) t Hnd'); [| |exact R|exact Hx].
        * intro y. cbn. rewrite (Hp y).
          destruct (String.eqb y (nm n)) eqn:Ey; [|reflexivity].
          apply String.eqb_eq in Ey. subst y. rewrite Enx. reflexivity.
        * cbn. rewrite String.eqb_sym, Enx. exact Hn.
  Qed.

  (* ---------------------------------------------------------------- *)
  (* the generic relation lemma (C01, C02, C13, C15 are instances)        *)

  Section RunRel.
    Variable R : string -> col -> col -> Prop.

    Definition env_rel (e1 e2 : tbl) : Prop :=
      forall x, match tget x e1, tget x e2 with
                | Some a, Some b => R x a b
                | None, None => True
                | _, _ => False
                end.

    (* argument lists related name by name *)
    Fixpoint args_rel (xs : list string) (cs1 cs2 : list col) : Prop :=
      match xs, cs1, cs2 with
      | [], [], [] => True
      | x :: r, a :: r1, b :: r2 => R x a b /\ args_rel r r1 r2
      | _, _, _ => False
      end.

    Definition outcome_rel (x : string) (r1 r2 : res col) : Prop :=
      match r1, r2 with
      | Ok a, Ok b => R x a b
      | Err _, Err _ => True
      | _, _ => False
      end.

    (* one step: related inputs give related outputs, or both runs fail *)
    Definition node_ok (n : node) : Prop :=
      forall cs1 cs2, args_rel (nargs n) cs1 cs2 -> outcome_rel (nm n) (nop n cs1) (nop n cs2).

    Lemma get_all_rel xs e1 e2 : env_rel e1 e2 ->
      match get_all xs e1, get_all xs e2 with
      | Ok cs1, Ok cs2 => args_rel xs cs1 cs2
      | Err _, Err _ => True
      | _, _ => False
      end.
    Proof.
      intro He. induction xs as [|x r IH]; cbn; [exact I|].
      specialize (He x). destruct (tget x e1) as [a|], (tget x e2) as [b|]; try contradiction; [|exact I].
      destruct (get_all r e1) as [cs1|], (get_all r e2) as [cs2|]; try contradiction; cbn; auto.
    Qed.

    Lemma env_rel_cons e1 e2 x a b : env_rel e1 e2 -> R x a b -> env_rel ((x, a) :: e1) ((x, b) :: e2).
    Proof.
      intros He Hr y. cbn. destruct (String.eqb y x) eqn:E; [|apply He].
      apply String.eqb_eq in E. subst y. exact Hr.
    Qed.

    Theorem run_rel : forall S e1 e2,
      (forall n, In n S -> node_ok n) -> env_rel e1 e2 ->
      match run S e1, run S e2 with
      | Ok t1, Ok t2 => env_rel t1 t2
      | Err _, Err _ => True
      | _, _ => False
      end.
    Proof.
      induction S as [|n r IH]; intros e1 e2 Hn He; cbn [run]; [exact He|].
      unfold step. pose proof (get_all_rel (nargs n) e1 e2 He) as Hg.
      destruct (get_all (nargs n) e1) as [cs1|], (get_all (nargs n) e2) as [cs2|]; try contradiction; cbn [bind]; [|exact I].
      pose proof (Hn n (or_introl eq_refl) cs1 cs2 Hg) as Ho. unfold outcome_rel in Ho.
      destruct (nop n cs1) as [a|], (nop n cs2) as [b|]; try contradiction; cbn [bind]; [|exact I].
      apply IH; [intros m Hm; apply Hn; right; exact Hm | apply env_rel_cons; assumption].
    Qed.
  End RunRel.
End Engine.
