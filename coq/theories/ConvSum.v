(* ConvSum.v — property C13 on the model: converting the time unit (multiplying by the fixed factor)
   commutes with summation within groups, for every assignment of rows to groups and every finite
   column (exact rationals). *)
From Coq Require Import ZArith QArith Qcanon Bool List Lia.
From GettsimModel Require Import Num NumTac Val Aggregation.
Import ListNotations.

Definition scale (f : Qc) (x : xq) : xq := xq_mul x (XFin f).

Definition all_fin (l : list xq) : Prop := Forall (fun x => exists q, x = XFin q) l.

Lemma scale_add f a b : (exists p, a = XFin p) -> (exists q, b = XFin q) -> scale f (xq_add a b) = xq_add (scale f a) (scale f b).
Proof. intros [p ->] [q ->]. cbn. f_equal. ring. Qed.

Lemma add_fin a b : (exists p, a = XFin p) -> (exists q, b = XFin q) -> exists r, xq_add a b = XFin r.
Proof. intros [p ->] [q ->]. eexists. reflexivity. Qed.

Lemma fold_scale f : forall r x, (exists p, x = XFin p) -> all_fin r ->
  fold_left xq_add (map (scale f) r) (scale f x) = scale f (fold_left xq_add r x) /\ exists s, fold_left xq_add r x = XFin s.
Proof.
  induction r as [|y r IH]; intros x Hx Hr; cbn.
  - split; [reflexivity | exact Hx].
  - inversion Hr as [|? ? Hy Hr']; subst. rewrite <- (scale_add f x y Hx Hy). apply IH; [apply add_fin; assumption | exact Hr'].
Qed.

Lemma select_map {A B} (h : A -> B) k g (l : list A) : select k (combine g (map h l)) = map h (select k (combine g l)).
Proof.
  unfold select. revert l. induction g as [|k0 g IH]; intros [|x l]; cbn; try reflexivity.
  destruct (k =? k0)%Z; cbn; [f_equal|]; apply IH.
Qed.

Lemma select_subset {A} k g (l : list A) v : In v (select k (combine g l)) -> In v l.
Proof.
  unfold select. intro H. apply in_map_iff in H. destruct H as ([k' w] & <- & Hf). apply filter_In in Hf. apply (in_combine_r g l k' w (proj1 Hf)).
Qed.

(* THE lemma: scaling commutes with the group sums *)
Theorem grouped_sum_scale f g l : length g = length l -> all_fin l ->
  grouped_total xq_add (xz 0) g (map (scale f) l) = map (scale f) (grouped_total xq_add (xz 0) g l).
Proof.
  intros Hlen Hfin. apply nth_ext with (d := XNaN) (d' := XNaN).
  - unfold grouped_total. rewrite !map_length, !grouped_length. reflexivity.
  - intros i Hi. unfold grouped_total in Hi. rewrite map_length, grouped_length in Hi.
    destruct (nth_error g i) as [k|] eqn:Ek; [|apply nth_error_None in Ek; lia].
    destruct (nth_error l i) as [v|] eqn:Ev; [|apply nth_error_None in Ev; lia].
    assert (Ev' : nth_error (map (scale f) l) i = Some (scale f v)) by (rewrite nth_error_map, Ev; reflexivity).
    destruct (grouped_total_value xq_add (xz 0) g l i k v Ek Ev) as (x & r & Es & H1).
    destruct (grouped_total_value xq_add (xz 0) g (map (scale f) l) i k (scale f v) Ek Ev') as (x' & r' & Es' & H1').
    rewrite select_map, Es in Es'. cbn [map] in Es'. injection Es' as <- <-.
    assert (Hall : forall w, In w (x :: r) -> exists q, w = XFin q).
    { intros w Hw. rewrite <- Es in Hw. unfold all_fin in Hfin. rewrite Forall_forall in Hfin. apply Hfin. apply (select_subset k g l w Hw). }
    destruct (fold_scale f r x (Hall x (or_introl eq_refl))) as [Hf _]; [apply Forall_forall; intros w Hw; apply Hall; right; exact Hw|].
    rewrite (nth_error_nth _ i XNaN H1'), Hf.
    rewrite (nth_indep _ XNaN (scale f XNaN)) by (rewrite map_length; unfold grouped_total; rewrite map_length, grouped_length; exact Hi).
    rewrite map_nth, (nth_error_nth _ i XNaN H1). reflexivity.
Qed.
