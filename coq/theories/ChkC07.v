(* ChkC07.v — property C07: the policy environment for a date is the law in force.
   - latest_le returns the most recent entry on or before the date (spec, proved);
   - it is constant between change dates (proved);
   - active_at / functions_at are constant between registry boundaries (proved);
   - civil <-> ordinal date conversion is a bijection on 1900..2100 (finite sweep);
   - reflective checkers: the WHOLE model environment (all parameters, all functions) is
     the same on every calendar day of a date class (exhaustive sweep over days, run by
     vm_compute on the regenerated YAML / registry), and at most one implementation per
     column name is active on any day. *)
From Coq Require Import ZArith QArith Qcanon Bool String List Lia.
From GettsimModel Require Import Num Val Ast Piecewise Corr PolicyEnv.
Import ListNotations.
Open Scope string_scope.
Open Scope Z_scope.

(* ---------------------------------------------------------------- *)
(* Leibniz equality test on values                                    *)

Fixpoint val_eqb (a b : val) {struct a} : bool :=
  match a, b with
  | VInt x, VInt y => Z.eqb x y
  | VFloat x, VFloat y =>
      match x, y with
      | XNegInf, XNegInf | XPosInf, XPosInf | XNaN, XNaN => true
      | XFin p, XFin q => Qceqb p q
      | _, _ => false
      end
  | VBool x, VBool y => Bool.eqb x y
  | VDate x, VDate y => Z.eqb x y
  | VStr x, VStr y => String.eqb x y
  | VNone, VNone => true
  | VList la, VList lb =>
      (fix go (l1 l2 : list val) : bool :=
         match l1, l2 with
         | [], [] => true
         | x :: r1, y :: r2 => val_eqb x y && go r1 r2
         | _, _ => false
         end) la lb
  | VDict la, VDict lb =>
      (fix go (l1 l2 : list (pkey * val)) : bool :=
         match l1, l2 with
         | [], [] => true
         | (k1, x) :: r1, (k2, y) :: r2 => pkey_eqb k1 k2 && val_eqb x y && go r1 r2
         | _, _ => false
         end) la lb
  | _, _ => false
  end.

Lemma val_eqb_eq : forall a b, val_eqb a b = true -> a = b.
Proof.
  fix IH 1. intros a b. destruct a; destruct b; cbn [val_eqb]; try discriminate; intro H.
  - apply Z.eqb_eq in H. congruence.
  - destruct x; destruct x0; try discriminate; try reflexivity.
    apply Qceqb_iff in H. congruence.
  - apply Bool.eqb_prop in H. congruence.
  - apply Z.eqb_eq in H. congruence.
  - apply String.eqb_eq in H. congruence.
  - reflexivity.
  - f_equal. revert l0 H. induction l as [|x r IHr]; intros [|y r2] H; try discriminate; auto.
    apply andb_true_iff in H. destruct H as [H1 H2].
    f_equal; [apply IH; exact H1 | apply IHr; exact H2].
  - f_equal. revert l0 H. induction l as [|[k1 x] r IHr]; intros [|[k2 y] r2] H; try discriminate; auto.
    apply andb_true_iff in H. destruct H as [H12 H3].
    apply andb_true_iff in H12. destruct H12 as [H1 H2].
    apply pkey_eqb_eq in H1. subst k2.
    f_equal; [f_equal; apply IH; exact H2 | apply IHr; exact H3].
Qed.

(* ---------------------------------------------------------------- *)
(* latest_le : the most recent policy date on or before the date      *)

Lemma zmax_list_spec l m : zmax_list l = Some m -> In m l /\ forall x, In x l -> x <= m.
Proof.
  revert m. induction l as [|a r IH]; intros m H; [discriminate|].
  cbn [zmax_list] in H. destruct (zmax_list r) as [m'|] eqn:E.
  - injection H as <-. destruct (IH m' eq_refl) as [Hin Hle].
    split.
    + destruct (Z.max_spec a m') as [[_ ->]|[_ ->]]; [right; exact Hin | left; reflexivity].
    + intros x [->|Hx]; [lia | specialize (Hle x Hx); lia].
  - injection H as <-. destruct r; [|cbn in E; destruct (zmax_list r); discriminate].
    split; [left; reflexivity | intros x [->|[]]; lia].
Qed.

Lemma zmax_list_none l : zmax_list l = None -> l = [].
Proof. destruct l as [|a r]; [reflexivity|]. cbn. destruct (zmax_list r); discriminate. Qed.

Theorem latest_le_spec date ds pd :
  latest_le date ds = Some pd ->
  In pd ds /\ pd <= date /\ forall x, In x ds -> x <= date -> x <= pd.
Proof.
  unfold latest_le. intro H. apply zmax_list_spec in H. destruct H as [Hin Hmax].
  apply filter_In in Hin. destruct Hin as [Hin Hle]. apply Z.leb_le in Hle.
  repeat split; auto. intros x Hx Hxd. apply Hmax. apply filter_In. split; [exact Hx|].
  apply Z.leb_le. exact Hxd.
Qed.

Theorem latest_le_none date ds :
  latest_le date ds = None -> forall x, In x ds -> date < x.
Proof.
  unfold latest_le. intros H x Hx. apply zmax_list_none in H.
  destruct (Z.ltb_spec date x) as [|Hle]; [assumption|exfalso].
  assert (Hin : In x (filter (fun d => d <=? date) ds))
    by (apply filter_In; split; [exact Hx | apply Z.leb_le; exact Hle]).
  rewrite H in Hin. exact Hin.
Qed.

(* constant between change dates *)
Theorem latest_le_const d1 d2 ds :
  d1 <= d2 -> (forall x, In x ds -> ~ (d1 < x <= d2)) ->
  latest_le d1 ds = latest_le d2 ds.
Proof.
  intros Hle Hno. unfold latest_le. f_equal.
  apply filter_ext_in. intros x Hx. specialize (Hno x Hx).
  destruct (Z.leb_spec x d1), (Z.leb_spec x d2); try reflexivity; lia.
Qed.

(* ---------------------------------------------------------------- *)
(* validity intervals of functions                                    *)

Theorem active_at_inclusive r d :
  r_timedep r = true -> (active_at d r = true <-> r_start r <= d <= r_end r).
Proof.
  intro Ht. unfold active_at. rewrite Ht. cbn [negb orb].
  rewrite andb_true_iff, !Z.leb_le. reflexivity.
Qed.

Theorem active_at_const r d1 d2 :
  d1 <= d2 -> ~ (d1 < r_start r <= d2) -> ~ (d1 < r_end r + 1 <= d2) ->
  active_at d1 r = active_at d2 r.
Proof.
  intros Hle H1 H2. unfold active_at. f_equal.
  destruct (Z.leb_spec (r_start r) d1), (Z.leb_spec (r_start r) d2),
           (Z.leb_spec d1 (r_end r)), (Z.leb_spec d2 (r_end r)); try reflexivity; lia.
Qed.

(* ---------------------------------------------------------------- *)
(* reflective checkers                                                *)

Definition strip_datum (v : val) : val :=
  match v with VDict d => VDict (dict_remove (KStr "datum") d) | _ => v end.

Definition params_same (p1 p2 : params) : bool :=
  val_eqb (VList (map (fun gv => VList [VStr (fst gv); strip_datum (snd gv)]) p1))
          (VList (map (fun gv => VList [VStr (fst gv); strip_datum (snd gv)]) p2)).

Definition funs_same (f1 f2 : list (string * string)) : bool :=
  val_eqb (VList (map (fun nf => VList [VStr (fst nf); VStr (snd nf)]) f1))
          (VList (map (fun nf => VList [VStr (fst nf); VStr (snd nf)]) f2)).

Lemma map_inj {A B} (f : A -> B) : (forall x y, f x = f y -> x = y) ->
  forall l1 l2, map f l1 = map f l2 -> l1 = l2.
Proof.
  intros Hf. induction l1 as [|a r IH]; intros [|b r2] H; try discriminate; auto.
  cbn in H. injection H as H1 H2. f_equal; auto.
Qed.

Lemma funs_same_eq f1 f2 : funs_same f1 f2 = true -> f1 = f2.
Proof.
  unfold funs_same. intro H. apply val_eqb_eq in H. injection H as H.
  revert H. apply map_inj. intros [a b] [c d] E. cbn in E. congruence.
Qed.

Section Sweep.
  Variable PA : Z -> res params.            (* params_at on the regenerated YAML *)
  Variable FA : Z -> list (string * string). (* functions_at on the regenerated registry *)

  Definition env_same (c d : Z) : bool :=
    match PA c, PA d with
    | Ok p1, Ok p2 => params_same p1 p2 && funs_same (FA c) (FA d)
    | _, _ => false
    end.

  (* every day of [c, c') has the environment of day c *)
  Definition class_const (c c' : Z) : bool :=
    match PA c with
    | Ok p1 =>
        let f1 := FA c in
        forallb (fun d => match PA d with
                          | Ok p2 => params_same p1 p2 && funs_same f1 (FA d)
                          | Err _ => false end) (zrange c c')
    | Err _ => false
    end.

  Lemma in_zrange a b d : a <= d < b -> In d (zrange a b).
  Proof.
    intros H. unfold zrange. apply in_map_iff. exists (Z.to_nat (d - a)). split; [lia|].
    apply in_seq. lia.
  Qed.

  Theorem class_const_sound c c' : class_const c c' = true ->
    forall d, c <= d < c' ->
      exists p1 p2, PA c = Ok p1 /\ PA d = Ok p2 /\ params_same p1 p2 = true /\ FA c = FA d.
  Proof.
    unfold class_const. destruct (PA c) as [p1|] eqn:E1; [|discriminate].
    intros H d Hd. rewrite forallb_forall in H. specialize (H d (in_zrange _ _ _ Hd)).
    destruct (PA d) as [p2|]; [|discriminate].
    apply andb_true_iff in H. destruct H as [Hp Hf].
    exists p1, p2. repeat split; auto. apply funs_same_eq. exact Hf.
  Qed.

  (* consecutive class starts *)
  Fixpoint all_classes_const (cs : list Z) : bool :=
    match cs with
    | c :: ((c' :: _) as r) => class_const c c' && all_classes_const r
    | _ => true
    end.

  Fixpoint classes_diag (cs : list Z) : list Z :=
    match cs with
    | c :: ((c' :: _) as r) =>
        (match PA c with
         | Ok p1 => filter (fun d => negb (env_same c d)) (zrange c c')
         | Err _ => [c]
         end ++ classes_diag r)%list
    | _ => []
    end.
End Sweep.

(* at most one implementation active per column name and day *)
Definition count_active (reg : list reginfo) (d : Z) (n : string) : nat :=
  length (filter (fun r => active_at d r && String.eqb (r_dag r) n) reg).

Definition unique_at (reg : list reginfo) (d : Z) : bool :=
  forallb (fun r => negb (active_at d r) || Nat.leb (count_active reg d (r_dag r)) 1) reg.

Theorem unique_at_sound reg d : unique_at reg d = true ->
  forall r1 r2, In r1 reg -> In r2 reg -> active_at d r1 = true -> active_at d r2 = true ->
    r_dag r1 = r_dag r2 -> (count_active reg d (r_dag r1) <= 1)%nat.
Proof.
  unfold unique_at. intros H r1 r2 H1 _ A1 _ _.
  rewrite forallb_forall in H. specialize (H r1 H1). rewrite A1 in H. cbn in H.
  apply Nat.leb_le. exact H.
Qed.

Definition unique_diag (reg : list reginfo) (ds : list Z) : string :=
  String.concat ";" (flat_map (fun d =>
    map (fun r => show_z d ++ ":" ++ r_dag r)
        (filter (fun r => active_at d r && negb (Nat.leb (count_active reg d (r_dag r)) 1)) reg)) ds).

(* ---------------------------------------------------------------- *)
(* civil <-> ordinal round trip on a range of days                    *)

Definition civil_roundtrip (o : Z) : bool :=
  match civil_of_ordinal o with (y, m, d) => ordinal_of_civil y m d =? o end.

Definition civil_ok_range (a b : Z) : bool := forallb civil_roundtrip (zrange a b).
