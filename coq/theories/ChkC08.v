(* ChkC08.v — property C08 (completeness): every parameter path with constant keys that a rule
   reachable from the default targets can read — in ANY branch — exists in the environment of the
   date; every rounded reachable rule has a rounding specification; the graph is acyclic with
   documented inputs as leaves (Dag.topo_ok). *)
From Coq Require Import ZArith QArith Qcanon Bool Ascii String List Lia.
From GettsimModel Require Import Num Val Ast Piecewise Eval Corr PolicyEnv Dag TimeConv.
Import ListNotations.
Open Scope string_scope.

(* a chain of constant subscripts on a variable:  x["a"]["b"][3]  |->  (x, [a; b; 3]) *)
Fixpoint path_of (e : expr) : option (string * list pkey) :=
  match e with
  | EVar x => Some (x, [])
  | ESub a (EStr k) => match path_of a with Some (r, ks) => Some (r, ks ++ [KStr k])%list | None => None end
  | ESub a (EInt z) => match path_of a with Some (r, ks) => Some (r, ks ++ [KInt z])%list | None => None end
  | _ => None
  end.

Definition is_params_name (s : string) : bool :=
  match strip_suffix "_params" s with Some _ => true | None => false end.

Definition group_of (s : string) : string :=
  match strip_suffix "_params" s with Some g => g | None => s end.

(* all constant-key parameter paths occurring anywhere in an expression / statement *)
Fixpoint paths_e (e : expr) : list (string * list pkey) :=
  let here := match path_of e with
              | Some (r, (_ :: _) as ks) => if is_params_name r then [(r, ks)] else []
              | _ => [] end in
  (here ++
  match e with
  | EBin _ a b | EAnd a b | EOr a b | ECmp _ a b | EIn _ a b | ESub a b => paths_e a ++ paths_e b
  | ENeg a | ENot a => paths_e a
  | EIfE c a b => paths_e c ++ paths_e a ++ paths_e b
  | ECall _ args | EBuiltin _ args | EListLit args => paths_es args
  | EComp body _ iter cond => paths_e body ++ paths_e iter ++ paths_e cond
  | _ => []
  end)%list
with paths_es (es : exprs) : list (string * list pkey) :=
  match es with
  | ENil => []
  | ECons e r => (paths_e e ++ paths_es r)%list
  end.

Fixpoint pkeys_prefix (a b : list pkey) : bool :=
  match a, b with
  | [], _ => true
  | x :: r, y :: t => pkey_eqb x y && pkeys_prefix r t
  | _ :: _, [] => false
  end.

(* `if "k" in params[...]:` — the branch is selected by the PARAMETERS, not by the data: reads below
   that key inside the branch are guarded *)
Definition guard_of (c : expr) : option (string * list pkey) :=
  match c with
  | EIn false (EStr k) d =>
      match path_of d with Some (r, ks) => Some (r, ks ++ [KStr k])%list | None => None end
  | _ => None
  end.

Definition drop_guarded (g : option (string * list pkey)) (l : list (string * list pkey)) :=
  match g with
  | Some (r, ks) => filter (fun p => negb (String.eqb (fst p) r && pkeys_prefix ks (snd p))) l
  | None => l
  end.

Fixpoint paths_s (s : stmt) : list (string * list pkey) :=
  match s with
  | SSkip | SRaise _ => []
  | SSeq a b => (paths_s a ++ paths_s b)%list
  | SAssign _ e | SAug _ _ e | SReturn e => paths_e e
  | SIf c a b => (paths_e c ++ drop_guarded (guard_of c) (paths_s a) ++ paths_s b)%list
  end.

(* only ARGUMENTS named *_params are parameter groups (local aliases are not) *)
Definition paths_f (f : fundef) : list (string * list pkey) :=
  match f_body f with
  | Some b => filter (fun p => existsb (fun a => String.eqb (fst a) (fst p)) (f_args f)) (paths_s b)
  | None => []
  end.

(* the soundness of reading such a path: if the path exists in the value bound to the root,
   evaluating the subscript chain cannot raise *)
Lemma path_get_app v ks k :
  path_get v (ks ++ [k]) = match path_get v ks with Ok w => path_get w [k] | Err e => Err e end.
Proof.
  revert v. induction ks as [|a r IH]; intro v; cbn [app].
  - cbn [path_get]. reflexivity.
  - cbn [path_get]. destruct v; try reflexivity.
    + destruct a; try reflexivity. destruct (list_index l z); cbn [bind]; [apply IH | reflexivity].
    + destruct (dict_get a l); cbn [of_option bind]; [apply IH | reflexivity].
Qed.

Theorem static_read_cannot_fail (call : string -> list val -> res val) rho : forall e r ks v w,
  path_of e = Some (r, ks) -> lookup r rho = Some v -> path_get v ks = Ok w ->
  eval call rho e = Ok w.
Proof.
  induction e; intros r ks v w Hp Hl Hg; cbn [path_of] in Hp; try discriminate.
  - injection Hp as <- <-. cbn [eval]. rewrite Hl. cbn in *. congruence.
  - destruct e2; try discriminate.
    + (* EInt *)
      destruct (path_of e1) as [[r1 ks1]|] eqn:E1; [|discriminate]. injection Hp as <- <-.
      rewrite path_get_app in Hg. destruct (path_get v ks1) as [w1|] eqn:G1; [|discriminate].
      cbn [eval]. rewrite (IHe1 r1 ks1 v w1 eq_refl Hl G1). cbn [bind].
      cbn [path_get] in Hg. unfold subscript. destruct w1; try discriminate.
      * destruct (list_index l z) eqn:El; cbn [bind] in Hg; [|discriminate]. injection Hg as <-. reflexivity.
      * cbn [as_key]. destruct (dict_get (KInt z) l); cbn in *; congruence.
    + (* EStr *)
      destruct (path_of e1) as [[r1 ks1]|] eqn:E1; [|discriminate]. injection Hp as <- <-.
      rewrite path_get_app in Hg. destruct (path_get v ks1) as [w1|] eqn:G1; [|discriminate].
      cbn [eval]. rewrite (IHe1 r1 ks1 v w1 eq_refl Hl G1). cbn [bind].
      cbn [path_get] in Hg. unfold subscript. destruct w1; try discriminate.
      cbn [as_key]. destruct (dict_get (KStr s) l); cbn in *; congruence.
Qed.

(* ---------------------------------------------------------------- *)
(* the check for one date                                              *)

Definition rule_pynames (S : list dnode) : list (string * option string * string) :=
  flat_map (fun n => match d_kind n with KRule py _ rd => [(py, rd, d_name n)] | _ => [] end) S.

(* transitive helper callees of a function body (module-local helpers called by ECall) *)
Fixpoint calls_e (e : expr) : list string :=
  match e with
  | ECall f args => f :: calls_es args
  | EBuiltin _ args | EListLit args => calls_es args
  | EBin _ a b | EAnd a b | EOr a b | ECmp _ a b | EIn _ a b | ESub a b => calls_e a ++ calls_e b
  | ENeg a | ENot a => calls_e a
  | EIfE c a b => calls_e c ++ calls_e a ++ calls_e b
  | EComp body _ iter cond => calls_e body ++ calls_e iter ++ calls_e cond
  | _ => []
  end%list
with calls_es (es : exprs) : list string :=
  match es with ENil => [] | ECons e r => (calls_e e ++ calls_es r)%list end.

Fixpoint calls_s (s : stmt) : list string :=
  match s with
  | SSkip | SRaise _ => []
  | SSeq a b => (calls_s a ++ calls_s b)%list
  | SAssign _ e | SAug _ _ e | SReturn e => calls_e e
  | SIf c a b => (calls_e c ++ calls_s a ++ calls_s b)%list
  end.

Definition show_path (rk : string * list pkey) : string :=
  fst rk ++ String.concat "" (map (fun k => "[" ++ show_key k ++ "]") (snd rk)).

Definition rounding_problem (p : params) (py dag : string) (rd : option string) : list (string * string) :=
  match rd with
  | Some g =>
      match pget g p with
      | Some gv => match path_get gv [KStr "rounding"; KStr dag] with
                   | Ok (VDict spec) => if shas "base" spec && shas "direction" spec then []
                                        else [(py, "rounding spec incomplete: " ++ g ++ "." ++ dag)]
                   | _ => [(py, "rounding spec missing: " ++ g ++ "[rounding][" ++ dag ++ "]")] end
      | None => [(py, "rounding group missing: " ++ g)]
      end
  | None => []
  end.

Definition missing_paths (ft : ftable) (p : params) (S : list dnode) : list (string * string) :=
  flat_map (fun t =>
    match t with (py, rd, dag) =>
      match flookup py ft with
      | None => []
      | Some f =>
          let direct := paths_f f in
          let helpers := match f_body f with Some b => calls_s b | None => [] end in
          let hpaths := flat_map (fun h => match flookup h ft with Some hf => paths_f hf | None => [] end) helpers in
          (map (fun rk => (py, show_path rk))
               (filter (fun rk => match pget (group_of (fst rk)) p with
                                  | Some gv => match path_get gv (snd rk) with Ok _ => false | Err _ => true end
                                  | None => true end) (direct ++ hpaths))
           ++ rounding_problem p py dag rd)%list
      end
    end) (rule_pynames S).

Definition c08_diag (ft : ftable) (PA : Z -> res params) (data targets : list string) (od : Z * list dnode) : string :=
  let S := subgraph (snd od) targets in
  let dz := show_z (fst od) in
  let g := if topo_ok data [] S then [] else
             map (fun p => dz ++ ":graph:" ++ fst p ++ " reads " ++ snd p) (topo_offenders data [] S) in
  let m := match PA (fst od) with
           | Ok p => map (fun m => dz ++ ":param:" ++ fst m ++ ":" ++ snd m) (missing_paths ft p S)
           | Err e => [dz ++ ":env:" ++ show_err e]
           end in
  String.concat ";" (List.app g m).

Definition c08_ok_at (ft : ftable) (PA : Z -> res params) (data targets : list string) (od : Z * list dnode) : bool :=
  let S := subgraph (snd od) targets in
  topo_ok data [] S &&
  match PA (fst od) with
  | Ok p => match missing_paths ft p S with [] => true | _ => false end
  | Err _ => false
  end.

(* the same check, accepting the listed known (rule, path) pairs *)
Definition pair_known (known : list (string * string)) (m : string * string) : bool :=
  existsb (fun q => String.eqb (fst m) (fst q) && String.eqb (snd m) (snd q)) known.

Definition c08_ok_at_except (known : list (string * string)) (ft : ftable) (PA : Z -> res params)
           (data targets : list string) (od : Z * list dnode) : bool :=
  let S := subgraph (snd od) targets in
  topo_ok data [] S &&
  match PA (fst od) with
  | Ok p => forallb (pair_known known) (missing_paths ft p S)
  | Err _ => false
  end.

Definition c08_diag_except (known : list (string * string)) (ft : ftable) (PA : Z -> res params)
           (data targets : list string) (od : Z * list dnode) : string :=
  let S := subgraph (snd od) targets in
  let dz := show_z (fst od) in
  let g := if topo_ok data [] S then [] else
             map (fun p => dz ++ ":graph:" ++ fst p ++ " reads " ++ snd p) (topo_offenders data [] S) in
  let m := match PA (fst od) with
           | Ok p => map (fun m => dz ++ ":param:" ++ fst m ++ ":" ++ snd m)
                         (filter (fun m => negb (pair_known known m)) (missing_paths ft p S))
           | Err e => [dz ++ ":env:" ++ show_err e]
           end in
  String.concat ";" (List.app g m).

(* how many (rule, path) reads were checked (non-vacuity) *)
Definition c08_count (ft : ftable) (S : list dnode) : nat :=
  length (flat_map (fun t => match flookup (fst (fst t)) ft with Some f => paths_f f | None => [] end) (rule_pynames S)).
