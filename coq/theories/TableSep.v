(* TableSep.v — property C02, end to end on the model: for the concrete engine Table.sem, simulating
   two unrelated populations TOGETHER gives, column by column, the concatenation of what simulating
   them SEPARATELY gives.  "Unrelated": the group ids used as keys of group reductions do not occur in
   both, the p_ids are unique overall, and every person pointer / foreign key points into the own
   population (or is negative).  Proved node kind by node kind; the id builders are excluded as in
   C01 (ids supplied). *)
From Coq Require Import ZArith QArith Qcanon Bool String List Lia Permutation.
From GettsimModel Require Import Num Val Ast Eval PolicyEnv Rounding Column Aggregation Engine Dag Scalar Perm Table SbpPerm XqOrder TableSound.
Import ListNotations.
Open Scope string_scope.
Open Scope list_scope.

(* concatenation of two columns of the same dtype *)
Definition capp (a b : column) : option column :=
  match a, b with
  | CInt x, CInt y => Some (CInt (x ++ y))
  | CFloat x, CFloat y => Some (CFloat (x ++ y))
  | CBool x, CBool y => Some (CBool (x ++ y))
  | CDate x, CDate y => Some (CDate (x ++ y))
  | _, _ => None
  end.

Lemma capp_vals a b c : capp a b = Some c -> col_vals c = col_vals a ++ col_vals b.
Proof. destruct a, b; cbn; try discriminate; intro H; injection H as <-; cbn; apply map_app. Qed.

Lemma capp_len a b c : capp a b = Some c -> col_len c = (col_len a + col_len b)%nat.
Proof. destruct a, b; cbn; try discriminate; intro H; injection H as <-; cbn; apply app_length. Qed.

Lemma capp_dtype a b c : capp a b = Some c -> col_dtype a = col_dtype b /\ col_dtype c = col_dtype a.
Proof. destruct a, b; cbn; try discriminate; intro H; injection H as <-; split; reflexivity. Qed.

Lemma mapM_res_app {A B} (f : A -> res B) l1 l2 y1 y2 : mapM_res f l1 = Ok y1 -> mapM_res f l2 = Ok y2 -> mapM_res f (l1 ++ l2) = Ok (y1 ++ y2).
Proof.
  revert y1. induction l1 as [|a r IH]; intros y1 H1 H2; cbn in *.
  - injection H1 as <-. exact H2.
  - destruct (f a) as [b|]; cbn in *; [|discriminate]. destruct (mapM_res f r) as [bs|] eqn:E; cbn in *; [|discriminate].
    injection H1 as <-. rewrite (IH bs eq_refl H2). reflexivity.
Qed.

(* packing a concatenation of values = concatenation of the packed columns *)
Lemma pack_app t v1 v2 c1 c2 : pack t v1 = Ok c1 -> pack t v2 = Ok c2 -> exists c, pack t (v1 ++ v2) = Ok c /\ capp c1 c2 = Some c.
Proof.
  intros H1 H2. unfold pack in *. destruct t; try discriminate.
  - destruct (mapM_res _ v1) as [l1|] eqn:E1; cbn in H1; [|discriminate]. destruct (mapM_res _ v2) as [l2|] eqn:E2; cbn in H2; [|discriminate].
    injection H1 as <-. injection H2 as <-. rewrite (mapM_res_app _ v1 v2 l1 l2 E1 E2). cbn. eexists; split; reflexivity.
  - destruct (mapM_res _ v1) as [l1|] eqn:E1; cbn in H1; [|discriminate]. destruct (mapM_res _ v2) as [l2|] eqn:E2; cbn in H2; [|discriminate].
    injection H1 as <-. injection H2 as <-. rewrite (mapM_res_app _ v1 v2 l1 l2 E1 E2). cbn. eexists; split; reflexivity.
  - destruct (mapM_res _ v1) as [l1|] eqn:E1; cbn in H1; [|discriminate]. destruct (mapM_res _ v2) as [l2|] eqn:E2; cbn in H2; [|discriminate].
    injection H1 as <-. injection H2 as <-. rewrite (mapM_res_app _ v1 v2 l1 l2 E1 E2). cbn. eexists; split; reflexivity.
  - destruct (mapM_res _ v1) as [l1|] eqn:E1; cbn in H1; [|discriminate]. destruct (mapM_res _ v2) as [l2|] eqn:E2; cbn in H2; [|discriminate].
    injection H1 as <-. injection H2 as <-. rewrite (mapM_res_app _ v1 v2 l1 l2 E1 E2). cbn. eexists; split; reflexivity.
Qed.


(* ---- group reductions over disjoint key sets ---- *)
Lemma select_app_disjoint_l {A} (k : Z) (rowsA rowsB : list (Z * A)) :
  (forall kv, In kv rowsA -> fst kv <> k) -> select k (rowsA ++ rowsB) = select k rowsB.
Proof.
  intro H. unfold select. rewrite filter_app, map_app.
  assert (E : filter (fun kv => (k =? fst kv)%Z) rowsA = []).
  { induction rowsA as [|x r IH]; [reflexivity|]. cbn.
    destruct (k =? fst x)%Z eqn:Ek.
    - apply Z.eqb_eq in Ek. exfalso. apply (H x (or_introl eq_refl)). symmetry. exact Ek.
    - apply IH. intros kv Hkv. apply H. right. exact Hkv. }
  rewrite E. reflexivity.
Qed.

Lemma combine_app_eq {A B} (a1 a2 : list A) (b1 b2 : list B) : length a1 = length b1 ->
  combine (a1 ++ a2) (b1 ++ b2) = combine a1 b1 ++ combine a2 b2.
Proof.
  revert b1. induction a1 as [|x r IH]; intros [|y q] H; cbn in *; try discriminate; [reflexivity|]. f_equal. apply IH. lia.
Qed.

Definition keys_disjoint (gA gB : list Z) : Prop := forall k, In k gA -> In k gB -> False.

Lemma grouped_total_app {A} (op : A -> A -> A) d gA gB (lA lB : list A) :
  length gA = length lA -> length gB = length lB -> keys_disjoint gA gB ->
  grouped_total op d (gA ++ gB) (lA ++ lB) = grouped_total op d gA lA ++ grouped_total op d gB lB.
Proof.
  intros LA LB Hd. unfold grouped_total, grouped. rewrite (combine_app_eq gA gB lA lB LA). rewrite !map_map, map_app. f_equal.
  - apply map_ext_in. intros k Hk. rewrite !alookup_accumulate.
    rewrite (select_app_disjoint k (combine gA lA) (combine gB lB)); [reflexivity|].
    intros [k' v] Hin E. cbn in E. subst k'. apply (Hd k Hk). apply (in_combine_l _ _ _ _ Hin).
  - apply map_ext_in. intros k Hk. rewrite !alookup_accumulate.
    rewrite (select_app_disjoint_l k (combine gA lA) (combine gB lB)); [reflexivity|].
    intros [k' v] Hin E. cbn in E. subst k'. apply (Hd k); [apply (in_combine_l _ _ _ _ Hin) | exact Hk].
Qed.


(* ---- joins over concatenated key lists ---- *)
Lemma index_of_shift k l : forall i, index_of k l (S i) = option_map S (index_of k l i).
Proof.
  induction l as [|x r IH]; intro i; cbn; [reflexivity|]. destruct (k =? x)%Z; [reflexivity | apply IH].
Qed.

Lemma index_of_plus k l n : index_of k l n = option_map (Nat.add n) (index_of k l 0).
Proof.
  induction n as [|n IH]; [destruct (index_of k l 0); reflexivity|].
  rewrite index_of_shift, IH. destruct (index_of k l 0); reflexivity.
Qed.

Lemma index_of_app k l1 l2 : index_of k (l1 ++ l2) 0 =
  match index_of k l1 0 with Some j => Some j | None => option_map (Nat.add (length l1)) (index_of k l2 0) end.
Proof.
  assert (G : forall i, index_of k (l1 ++ l2) i = match index_of k l1 i with Some j => Some j | None => index_of k l2 (i + length l1) end).
  { induction l1 as [|x r IH]; intro i; cbn.
    - rewrite Nat.add_0_r. reflexivity.
    - destruct (k =? x)%Z; [reflexivity|]. rewrite IH. destruct (index_of k r (S i)); [reflexivity|]. f_equal. lia. }
  rewrite G. destruct (index_of k l1 0); [reflexivity|]. cbn. apply index_of_plus.
Qed.

Lemma index_of_lt k l j : index_of k l 0 = Some j -> (j < length l)%nat.
Proof.
  intro H. destruct (index_of_spec k l 0 j H) as [Hn _]. rewrite Nat.sub_0_r in Hn. apply nth_error_Some. congruence.
Qed.

Lemma nodup_z_true_iff l : nodup_z l = true <-> NoDup l.
Proof.
  induction l as [|x r IH]; cbn; [split; [constructor | reflexivity]|].
  rewrite andb_true_iff, negb_true_iff, IH. split.
  - intros [H1 H2]. constructor; [|exact H2]. intro Hin. assert (E : existsb (Z.eqb x) r = true) by (apply existsb_exists; exists x; split; [exact Hin | apply Z.eqb_refl]). congruence.
  - intro H. inversion H as [|? ? Hn Hr]; subst. split; [|exact Hr].
    destruct (existsb (Z.eqb x) r) eqn:E; [|reflexivity]. apply existsb_exists in E. destruct E as (y & Hy & Ey). apply Z.eqb_eq in Ey. subst. contradiction.
Qed.

Lemma NoDup_app_disjoint (l1 l2 : list Z) : NoDup l1 -> NoDup l2 -> keys_disjoint l1 l2 -> NoDup (l1 ++ l2).
Proof.
  intros H1 H2 Hd. induction l1 as [|x r IH]; cbn; [exact H2|]. inversion H1; subst. constructor.
  - intro Hin. apply in_app_or in Hin. destruct Hin as [Hin|Hin]; [contradiction | apply (Hd x (or_introl eq_refl) Hin)].
  - apply IH; [assumption|]. intros k Hk Hk2. apply (Hd k (or_intror Hk) Hk2).
Qed.

Lemma join_valid_inv fk pk k : existsb (fun k0 => (0 <=? k0)%Z && negb (existsb (Z.eqb k0) pk)) fk = false -> In k fk -> (0 <= k)%Z -> In k pk.
Proof.
  intros H Hin Hk. destruct (existsb (Z.eqb k) pk) eqn:E.
  - apply existsb_exists in E. destruct E as (y & Hy & Ey). apply Z.eqb_eq in Ey. subst. exact Hy.
  - exfalso. assert (existsb (fun k0 => (0 <=? k0)%Z && negb (existsb (Z.eqb k0) pk)) fk = true).
    { apply existsb_exists. exists k. split; [exact Hin|]. rewrite E. cbn. rewrite andb_true_r. apply Z.leb_le. exact Hk. }
    congruence.
Qed.

Lemma join_list_app {A} (dflt : A) fkA fkB pkA pkB (tA tB : list A) oA oB :
  length tA = length pkA -> keys_disjoint pkA pkB -> keys_disjoint fkA pkB -> keys_disjoint fkB pkA ->
  join_list fkA pkA tA dflt = Ok oA -> join_list fkB pkB tB dflt = Ok oB ->
  join_list (fkA ++ fkB) (pkA ++ pkB) (tA ++ tB) dflt = Ok (oA ++ oB).
Proof.
  intros Lt Hpp Hab Hba HA HB. unfold join_list in *.
  destruct (nodup_z pkA) eqn:NA; cbn [negb] in HA; [|discriminate]. destruct (nodup_z pkB) eqn:NB; cbn [negb] in HB; [|discriminate].
  destruct (existsb _ fkA) eqn:VA; [discriminate|]. destruct (existsb _ fkB) eqn:VB; [discriminate|].
  injection HA as <-. injection HB as <-.
  assert (Nab : nodup_z (pkA ++ pkB) = true).
  { apply nodup_z_true_iff. apply NoDup_app_disjoint; [apply nodup_z_true_iff; exact NA | apply nodup_z_true_iff; exact NB | exact Hpp]. }
  rewrite Nab. cbn [negb].
  assert (Vab : existsb (fun k => (0 <=? k)%Z && negb (existsb (Z.eqb k) (pkA ++ pkB))) (fkA ++ fkB) = false).
  { destruct (existsb _ (fkA ++ fkB)) eqn:E; [|reflexivity]. apply existsb_exists in E. destruct E as (k & Hk & Ek).
    apply andb_true_iff in Ek. destruct Ek as [E0 En]. apply Z.leb_le in E0. apply negb_true_iff in En.
    assert (Hin : In k (pkA ++ pkB)).
    { apply in_app_or in Hk. apply in_or_app. destruct Hk as [Hk|Hk]; [left; apply (join_valid_inv fkA pkA k VA Hk E0) | right; apply (join_valid_inv fkB pkB k VB Hk E0)]. }
    assert (existsb (Z.eqb k) (pkA ++ pkB) = true) by (apply existsb_exists; exists k; split; [exact Hin | apply Z.eqb_refl]). congruence. }
  rewrite Vab. f_equal. rewrite map_app. f_equal.
  - apply map_ext_in. intros k Hk. rewrite index_of_app. destruct (index_of k pkA 0) as [j|] eqn:Ej.
    + apply app_nth1. rewrite Lt. apply (index_of_lt k pkA j Ej).
    + destruct (index_of k pkB 0) as [j|] eqn:Ejb; [|reflexivity]. exfalso.
      destruct (index_of_spec k pkB 0 j Ejb) as [Hn _]. rewrite Nat.sub_0_r in Hn. apply (Hab k Hk (nth_error_In _ _ Hn)).
  - apply map_ext_in. intros k Hk. rewrite index_of_app. destruct (index_of k pkA 0) as [j|] eqn:Ej.
    + exfalso. destruct (index_of_spec k pkA 0 j Ej) as [Hn _]. rewrite Nat.sub_0_r in Hn. apply (Hba k Hk (nth_error_In _ _ Hn)).
    + destruct (index_of k pkB 0) as [j|]; cbn; [|reflexivity]. rewrite app_nth2 by lia. f_equal. lia.
Qed.


(* ---- sums by person pointer over concatenated populations ---- *)
Lemma filter_nil {A} (f : A -> bool) l : (forall x, In x l -> f x = false) -> filter f l = [].
Proof. induction l as [|x r IH]; intro H; cbn; [reflexivity|]. rewrite (H x (or_introl eq_refl)). apply IH. intros y Hy. apply H. right. exact Hy. Qed.

Lemma NoDup_app_not_both (l1 l2 : list Z) k : NoDup (l1 ++ l2) -> In k l1 -> In k l2 -> False.
Proof.
  induction l1 as [|x r IH]; intros Hnd H1 H2; [contradiction|]. cbn in Hnd. inversion Hnd as [|? ? Hx Hr]; subst.
  destruct H1 as [<-|H1]; [apply Hx; apply in_or_app; right; exact H2 | apply (IH Hr H1 H2)].
Qed.

Lemma sum_by_p_id_list_app {A} (add : A -> A -> A) (zero : A) colA colB ptrA ptrB pidsA pidsB oA oB :
  NoDup (pidsA ++ pidsB) -> length ptrA = length colA ->
  sum_by_p_id_list add zero colA ptrA pidsA = Ok oA -> sum_by_p_id_list add zero colB ptrB pidsB = Ok oB ->
  sum_by_p_id_list add zero (colA ++ colB) (ptrA ++ ptrB) (pidsA ++ pidsB) = Ok (oA ++ oB).
Proof.
  intros Hnd Lpa HA HB.
  assert (HndA : NoDup pidsA).
  { clear -Hnd. induction pidsA as [|x r IH]; [constructor|]. cbn in Hnd. inversion Hnd as [|? ? Hx Hr]; subst.
    constructor; [intro Hin; apply Hx; apply in_or_app; left; exact Hin | apply IH; exact Hr]. }
  assert (HndB : NoDup pidsB).
  { clear -Hnd. induction pidsA as [|x r IH]; [exact Hnd|]. cbn in Hnd. inversion Hnd; subst. apply IH. assumption. }
  destruct (sum_by_p_id_spec add zero colA ptrA pidsA oA HndA HA) as [LoA HvA].
  destruct (sum_by_p_id_spec add zero colB ptrB pidsB oB HndB HB) as [LoB HvB].
  pose proof (sbp_loop_ptrs add pidsA _ _ _ HA) as CA. pose proof (sbp_loop_ptrs add pidsB _ _ _ HB) as CB.
  assert (Ecomb : combine (ptrA ++ ptrB) (colA ++ colB) = combine ptrA colA ++ combine ptrB colB) by (apply combine_app_eq; exact Lpa).
  assert (Htot : exists o, sum_by_p_id_list add zero (colA ++ colB) (ptrA ++ ptrB) (pidsA ++ pidsB) = Ok o).
  { unfold sum_by_p_id_list. apply sbp_loop_total. intros q c Hin Hq. rewrite Ecomb in Hin. apply in_app_or in Hin. apply in_or_app.
    destruct Hin as [Hin|Hin]; [left; apply (CA q c Hin Hq) | right; apply (CB q c Hin Hq)]. }
  destruct Htot as [o Ho]. rewrite Ho. f_equal.
  destruct (sum_by_p_id_spec add zero _ _ _ o Hnd Ho) as [Lo Hv].
  apply nth_error_ext_len; [rewrite Lo, !app_length; lia|].
  intros i Hi. rewrite Lo, app_length in Hi.
  destruct (Nat.lt_ge_cases i (length pidsA)) as [Hia|Hia].
  - destruct (nth_error pidsA i) as [id|] eqn:Eid; [|apply nth_error_None in Eid; lia].
    rewrite (Hv i id) by (rewrite nth_error_app1 by exact Hia; exact Eid).
    rewrite nth_error_app1 by lia. rewrite (HvA i id Eid). f_equal. rewrite Ecomb, filter_app, map_app.
    rewrite (filter_nil _ (combine ptrB colB)); [rewrite app_nil_r; reflexivity|].
    intros [q c] Hin. cbn [fst]. destruct (0 <=? q)%Z eqn:E0; [|reflexivity]. cbn [andb].
    destruct (q =? id)%Z eqn:Eq; [|reflexivity]. apply Z.eqb_eq in Eq. subst q. exfalso.
    apply (NoDup_app_not_both pidsA pidsB id Hnd (nth_error_In _ _ Eid)). apply (CB id c Hin). apply Z.leb_le. exact E0.
  - destruct (nth_error pidsB (i - length pidsA)) as [id|] eqn:Eid; [|apply nth_error_None in Eid; lia].
    rewrite (Hv i id) by (rewrite nth_error_app2 by exact Hia; exact Eid).
    rewrite nth_error_app2 by lia. rewrite LoA. rewrite (HvB _ id Eid). f_equal. rewrite Ecomb, filter_app, map_app.
    rewrite (filter_nil _ (combine ptrA colA)); [reflexivity|].
    intros [q c] Hin. cbn [fst]. destruct (0 <=? q)%Z eqn:E0; [|reflexivity]. cbn [andb].
    destruct (q =? id)%Z eqn:Eq; [|reflexivity]. apply Z.eqb_eq in Eq. subst q. exfalso.
    apply (NoDup_app_not_both pidsA pidsB id Hnd); [apply (CA id c Hin); apply Z.leb_le; exact E0 | apply (nth_error_In _ _ Eid)].
Qed.

Lemma seq_shift_n n len : map (Nat.add n) (seq 0 len) = seq n len.
Proof.
  revert n. induction len as [|k IH]; intro n; cbn; [reflexivity|]. f_equal; [lia|].
  rewrite <- (IH (S n)). rewrite <- seq_shift, map_map. apply map_ext. intros; lia.
Qed.

Section TSep.
  Variable ft : ftable.
  Variable P : params.
  Variable rounding : bool.
  Variable nA nB : nat.

  (* three tables: A, B and their concatenation *)
  Definition tab3 (eA eB eAB : tbl column) : Prop :=
    forall x, match tget column x eA, tget column x eB with
              | Some a, Some b => col_len a = nA /\ col_len b = nB /\ exists c, capp a b = Some c /\ tget column x eAB = Some c
              | None, None => tget column x eAB = None
              | _, _ => False
              end.

  (* cell-wise columns: unit conversion, rounding *)
  Lemma cellwise_app (g : val -> res val) t a b ab va vb ca cb : capp a b = Some ab ->
    mapM_res g (col_vals a) = Ok va -> pack t va = Ok ca -> mapM_res g (col_vals b) = Ok vb -> pack t vb = Ok cb ->
    exists vab cab, mapM_res g (col_vals ab) = Ok vab /\ pack t vab = Ok cab /\ capp ca cb = Some cab.
  Proof.
    intros Hab Ha Hpa Hb Hpb. rewrite (capp_vals a b ab Hab).
    destruct (pack_app t va vb ca cb Hpa Hpb) as (cab & Hp & Hc).
    exists (va ++ vb), cab. split; [apply mapM_res_app; assumption | split; assumption].
  Qed.

  (* lists of columns, pairwise concatenated *)
  Fixpoint capps (a b : list column) : option (list column) :=
    match a, b with
    | [], [] => Some []
    | x :: r, y :: q => match capp x y, capps r q with Some c, Some cs => Some (c :: cs) | _, _ => None end
    | _, _ => None
    end.

  Definition lensA (cs : list column) : Prop := Forall (fun c => col_len c = nA) cs.
  Definition lensB (cs : list column) : Prop := Forall (fun c => col_len c = nB) cs.

  Lemma get_all3 xs : forall eA eB eAB csA csB, tab3 eA eB eAB ->
    get_all column xs eA = Ok csA -> get_all column xs eB = Ok csB ->
    exists csAB, get_all column xs eAB = Ok csAB /\ capps csA csB = Some csAB /\ lensA csA /\ lensB csB.
  Proof.
    induction xs as [|x r IH]; intros eA eB eAB csA csB H3 HA HB; cbn in HA, HB.
    - injection HA as <-. injection HB as <-. exists []. repeat split; constructor.
    - pose proof (H3 x) as Hx.
      destruct (tget column x eA) as [a|]; [|discriminate]. destruct (tget column x eB) as [b|]; [|discriminate].
      destruct (get_all column r eA) as [ra|] eqn:Ea; cbn in HA; [|discriminate]. destruct (get_all column r eB) as [rb|] eqn:Eb; cbn in HB; [|discriminate].
      injection HA as <-. injection HB as <-. destruct Hx as (La & Lb & c & Hc & Ht).
      destruct (IH eA eB eAB ra rb H3 Ea Eb) as (rab & Hg & Hcs & HlA & HlB).
      exists (c :: rab). cbn. rewrite Ht, Hg. cbn. rewrite Hc, Hcs. repeat split; try reflexivity; constructor; assumption.
  Qed.

  Lemma row_at_app : forall csA csB csAB, capps csA csB = Some csAB -> lensA csA -> lensB csB ->
    (forall i, (i < nA)%nat -> row_at (map col_vals csAB) i = row_at (map col_vals csA) i) /\
    (forall k, (k < nB)%nat -> row_at (map col_vals csAB) (nA + k) = row_at (map col_vals csB) k).
  Proof.
    induction csA as [|a ra IH]; intros [|b rb] csAB Hc HA HB; cbn in Hc; try discriminate.
    - injection Hc as <-. split; intros; reflexivity.
    - destruct (capp a b) as [c|] eqn:Ec; [|discriminate]. destruct (capps ra rb) as [cs|] eqn:Ecs; [|discriminate]. injection Hc as <-.
      pose proof (Forall_inv HA) as La. pose proof (Forall_inv HB) as Lb. cbn beta in La, Lb.
      destruct (IH rb cs Ecs (Forall_inv_tail HA) (Forall_inv_tail HB)) as [H1 H2].
      unfold row_at in *. cbn [map]. rewrite (capp_vals a b c Ec). split.
      + intros i Hi. f_equal; [apply app_nth1; rewrite col_vals_length, La; exact Hi | apply H1; exact Hi].
      + intros k Hk. f_equal; [|apply H2; exact Hk]. rewrite app_nth2 by (rewrite col_vals_length, La; lia).
        rewrite col_vals_length, La. f_equal. lia.
  Qed.

  Lemma rows_of_app csA csB csAB : capps csA csB = Some csAB -> lensA csA -> lensB csB ->
    rows_of (nA + nB) csAB = rows_of nA csA ++ rows_of nB csB.
  Proof.
    intros Hc HA HB. destruct (row_at_app csA csB csAB Hc HA HB) as [H1 H2].
    unfold rows_of. rewrite seq_app, map_app. f_equal.
    - apply map_ext_in. intros i Hi. apply in_seq in Hi. apply H1. lia.
    - replace (seq (0 + nA) nB) with (map (Nat.add nA) (seq 0 nB)) by (rewrite seq_shift_n; reflexivity). rewrite map_map. apply map_ext_in. intros k Hk. apply in_seq in Hk. apply H2. lia.
  Qed.

  Definition semA := sem ft P rounding nA.
  Definition semB := sem ft P rounding nB.
  Definition semAB := sem ft P rounding (nA + nB).

  (* what a node lemma says: from the two separate results, the joint result *)
  Definition sep_concl (n : dnode) (csAB : list column) (cA cB : column) : Prop :=
    exists cAB, semAB n csAB = Ok cAB /\ capp cA cB = Some cAB /\ col_len cA = nA /\ col_len cB = nB.

  Lemma pack_len t vs c : pack t vs = Ok c -> col_len c = length vs.
  Proof. intro H. destruct (pack_inv t vs c H) as (_ & ws & Hws & Hcv). rewrite <- col_vals_length, Hcv. apply (mapM_res_length _ _ _ Hws). Qed.

  Lemma round_column_app g name a b ab ca cb : capp a b = Some ab ->
    round_column P g name a = Ok ca -> round_column P g name b = Ok cb ->
    exists cab, round_column P g name ab = Ok cab /\ capp ca cb = Some cab /\ col_len ca = col_len a /\ col_len cb = col_len b.
  Proof.
    intros Hab Ha Hb. unfold round_column in *.
    destruct (mapM_res (apply_rounding P g name) (col_vals a)) as [va|] eqn:Ea; cbn [bind] in Ha; [|discriminate].
    destruct (mapM_res (apply_rounding P g name) (col_vals b)) as [vb|] eqn:Eb; cbn [bind] in Hb; [|discriminate].
    destruct (cellwise_app _ TFloat a b ab va vb ca cb Hab Ea Ha Eb Hb) as (vab & cab & H1 & H2 & H3).
    exists cab. rewrite H1. cbn [bind]. repeat split; try assumption.
    - rewrite (pack_len _ _ _ Ha), (mapM_res_length _ _ _ Ea). apply col_vals_length.
    - rewrite (pack_len _ _ _ Hb), (mapM_res_length _ _ _ Eb). apply col_vals_length.
  Qed.

  Lemma node_sep_timeconv n num den csA csB csAB cA cB : d_kind n = KTimeConv num den ->
    capps csA csB = Some csAB -> lensA csA -> lensB csB -> semA n csA = Ok cA -> semB n csB = Ok cB -> sep_concl n csAB cA cB.
  Proof.
    intros Hk Hc HA HB EA EB. unfold sep_concl, semA, semB, semAB, sem in *. rewrite Hk in *.
    destruct csA as [|a [|? ?]]; try discriminate. destruct csB as [|b [|? ?]]; try discriminate.
    cbn in Hc. destruct (capp a b) as [ab|] eqn:Eab; [|discriminate]. injection Hc as <-.
    destruct (mapM_res _ (col_vals a)) as [va|] eqn:Ea; cbn [bind] in EA; [|discriminate].
    destruct (mapM_res _ (col_vals b)) as [vb|] eqn:Eb; cbn [bind] in EB; [|discriminate].
    destruct (cellwise_app _ TFloat a b ab va vb cA cB Eab Ea EA Eb EB) as (vab & cab & H1 & H2 & H3).
    exists cab. rewrite H1. cbn [bind]. repeat split; try assumption.
    - rewrite (pack_len _ _ _ EA), (mapM_res_length _ _ _ Ea), col_vals_length. apply (Forall_inv HA).
    - rewrite (pack_len _ _ _ EB), (mapM_res_length _ _ _ Eb), col_vals_length. apply (Forall_inv HB).
  Qed.

  Definition declared_rule (n : dnode) : bool :=
    match d_kind n with
    | KRule py _ _ => match flookup py ft with
                      | Some f => match annot_otype (f_ret f) with Some _ => true | None => false end
                      | None => true end
    | _ => true
    end.

  Lemma capps_nil_l csB csAB : capps [] csB = Some csAB -> csB = [] /\ csAB = [].
  Proof. destruct csB; cbn; [intro H; injection H as <-; auto | discriminate]. Qed.

  Lemma node_sep_rule n py skipvec rd csA csB csAB cA cB : d_kind n = KRule py skipvec rd -> declared_rule n = true ->
    capps csA csB = Some csAB -> lensA csA -> lensB csB -> semA n csA = Ok cA -> semB n csB = Ok cB -> sep_concl n csAB cA cB.
  Proof.
    intros Hk Hd Hc HA HB EA EB. unfold declared_rule in Hd. rewrite Hk in Hd.
    unfold sep_concl, semA, semB, semAB, sem in *. rewrite Hk in *.
    destruct skipvec; [discriminate|].
    destruct (flookup py ft) as [f|]; cbn [of_option bind] in *; [|discriminate].
    destruct (annot_otype (f_ret f)) as [t|]; [|discriminate].
    set (F := fun row => do args <- row_args P f (d_args n) row; call_rule ft f args) in *.
    (* the columns before rounding *)
    assert (Core : forall a0 b0,
      match csA with [] => do args <- row_args P f (d_args n) []; do v <- call_rule ft f args; pack t (repeat v nA)
                   | _ :: _ => vectorize_gen (Some t) F nA csA end = Ok a0 ->
      match csB with [] => do args <- row_args P f (d_args n) []; do v <- call_rule ft f args; pack t (repeat v nB)
                   | _ :: _ => vectorize_gen (Some t) F nB csB end = Ok b0 ->
      exists ab0, match csAB with [] => do args <- row_args P f (d_args n) []; do v <- call_rule ft f args; pack t (repeat v (nA + nB))
                                | _ :: _ => vectorize_gen (Some t) F (nA + nB) csAB end = Ok ab0
                  /\ capp a0 b0 = Some ab0 /\ col_len a0 = nA /\ col_len b0 = nB).
    { intros a0 b0 H1 H2. destruct csA as [|a ra].
      - destruct (capps_nil_l csB csAB Hc) as [-> ->].
        destruct (row_args P f (d_args n) []) as [args|]; cbn [bind] in *; [|discriminate].
        destruct (call_rule ft f args) as [v|]; cbn [bind] in *; [|discriminate].
        destruct (pack_app t _ _ a0 b0 H1 H2) as (c & Hp & Hcc). rewrite <- repeat_app in Hp.
        exists c. repeat split; try assumption; [rewrite (pack_len _ _ _ H1) | rewrite (pack_len _ _ _ H2)]; apply repeat_length.
      - destruct csB as [|b rb]; [discriminate|]. destruct csAB as [|ab rab]; [cbn in Hc; destruct (capp a b), (capps ra rb); discriminate|].
        unfold vectorize_gen in *.
        destruct (mapM_res F (rows_of nA (a :: ra))) as [va|] eqn:Ea; cbn [bind] in H1; [|discriminate].
        destruct (mapM_res F (rows_of nB (b :: rb))) as [vb|] eqn:Eb; cbn [bind] in H2; [|discriminate].
        rewrite (rows_of_app _ _ _ Hc HA HB), (mapM_res_app F _ _ va vb Ea Eb). cbn [bind].
        destruct (pack_app t va vb a0 b0 H1 H2) as (c & Hp & Hcc). exists c. repeat split; try assumption.
        + rewrite (pack_len _ _ _ H1), (mapM_res_length _ _ _ Ea). unfold rows_of. rewrite map_length, seq_length. reflexivity.
        + rewrite (pack_len _ _ _ H2), (mapM_res_length _ _ _ Eb). unfold rows_of. rewrite map_length, seq_length. reflexivity. }
    destruct (match csA with [] => _ | _ :: _ => _ end) as [a0|] eqn:E0A; cbn [bind] in EA; [|discriminate].
    destruct (match csB with [] => _ | _ :: _ => _ end) as [b0|] eqn:E0B; cbn [bind] in EB; [|discriminate].
    destruct (Core a0 b0 eq_refl eq_refl) as (ab0 & E0 & Hcap & La & Lb).
    assert (Shape : match csAB with
      | [] => do args <- row_args P f (d_args n) []; do v <- call_rule ft f args;
              pack (match Some t with Some t0 => t0 | None => type_of v end) (repeat v (nA + nB))
      | _ :: _ => vectorize_gen (Some t) F (nA + nB) csAB end = Ok ab0) by exact E0.
    rewrite Shape. cbn [bind].
    destruct rd as [g|].
    - destruct rounding.
      + destruct (round_column_app g (d_name n) a0 b0 ab0 cA cB Hcap EA EB) as (cab & H1 & H2 & H3 & H4).
        exists cab. repeat split; try assumption; congruence.
      + injection EA as <-. injection EB as <-. exists ab0. repeat split; assumption.
    - injection EA as <-. injection EB as <-. exists ab0. repeat split; assumption.
  Qed.

  (* ---- group aggregates ---- *)
  Lemma col_ints_app a b ab ia ib : capp a b = Some ab -> col_ints a = Ok ia -> col_ints b = Ok ib -> col_ints ab = Ok (ia ++ ib).
  Proof.
    destruct a, b; cbn; try discriminate; intros H Ha Hb; injection H as <-; injection Ha as <-; injection Hb as <-; cbn; try reflexivity.
    rewrite map_app. reflexivity.
  Qed.

  Lemma col_ints_len2 c ids : col_ints c = Ok ids -> length ids = col_len c.
  Proof. destruct c; cbn; try discriminate; intro H; injection H as <-; [reflexivity | apply map_length]. Qed.

  Lemma guard_split2 {A} g n (k : res A) r : guard g n k = Ok r -> length g = n /\ keys_ok g = true /\ k = Ok r.
  Proof.
    unfold guard. destruct (Nat.eqb (length g) n) eqn:E; cbn; [|discriminate]. destruct (keys_ok g) eqn:Ek; cbn; [|discriminate].
    intro H. repeat split; [apply Nat.eqb_eq; exact E | exact H].
  Qed.

  Lemma guard_app {A} gA gB n m (k : res A) : length gA = n -> length gB = m -> keys_ok gA = true -> keys_ok gB = true -> guard (gA ++ gB) (n + m) k = k.
  Proof.
    intros H1 H2 K1 K2. unfold guard. rewrite app_length, H1, H2, Nat.eqb_refl. unfold keys_ok in *. rewrite forallb_app, K1, K2. reflexivity.
  Qed.

  Lemma gt_len3 {A} (op : A -> A -> A) d g (l : list A) : length (grouped_total op d g l) = length g.
  Proof. unfold grouped_total. rewrite map_length. apply grouped_length. Qed.

  (* one typed reduction *)
  Ltac sep_case HA HB :=
    let LA := fresh "LA" in let KA := fresh "KA" in let RA := fresh "RA" in
    let LB := fresh "LB" in let KB := fresh "KB" in let RB := fresh "RB" in
    destruct (guard_split2 _ _ _ _ HA) as (LA & KA & RA); destruct (guard_split2 _ _ _ _ HB) as (LB & KB & RB);
    cbn [col_len] in *; injection RA as <-; injection RB as <-;
    rewrite app_length; rewrite (guard_app _ _ _ _ _ LA LB KA KB); eexists; split; [reflexivity|].

  Lemma grouped_sum_app a b ab ia ib ca cb : capp a b = Some ab -> keys_disjoint ia ib ->
    grouped_sum a ia = Ok ca -> grouped_sum b ib = Ok cb ->
    exists cab, grouped_sum ab (ia ++ ib) = Ok cab /\ capp ca cb = Some cab /\ col_len ca = length ia /\ col_len cb = length ib.
  Proof.
    intros Hab Hd HA HB. unfold grouped_sum in *.
    destruct a as [la|la|la|la], b as [lb|lb|lb|lb]; try discriminate; cbn in Hab; injection Hab as <-.
    - sep_case HA HB. rewrite (grouped_total_app Z.add 0%Z ia ib la lb) by assumption. cbn. repeat split; rewrite gt_len3; reflexivity.
    - sep_case HA HB. rewrite (grouped_total_app xq_add (xz 0) ia ib la lb) by assumption. cbn. repeat split; rewrite gt_len3; reflexivity.
    - sep_case HA HB. rewrite map_app, (grouped_total_app Z.add 0%Z ia ib (map b2z la) (map b2z lb)) by (rewrite ?map_length; assumption).
      cbn. repeat split; rewrite gt_len3; reflexivity.
  Qed.

  Lemma grouped_max_app a b ab ia ib ca cb : capp a b = Some ab -> keys_disjoint ia ib ->
    grouped_max a ia = Ok ca -> grouped_max b ib = Ok cb ->
    exists cab, grouped_max ab (ia ++ ib) = Ok cab /\ capp ca cb = Some cab /\ col_len ca = length ia /\ col_len cb = length ib.
  Proof.
    intros Hab Hd HA HB. unfold grouped_max in *.
    destruct a as [la|la|la|la], b as [lb|lb|lb|lb]; try discriminate; cbn in Hab; injection Hab as <-.
    - sep_case HA HB. rewrite (grouped_total_app Z.max 0%Z ia ib la lb) by assumption. cbn. repeat split; rewrite gt_len3; reflexivity.
    - sep_case HA HB. rewrite (grouped_total_app xq_max (xz 0) ia ib la lb) by assumption. cbn. repeat split; rewrite gt_len3; reflexivity.
    - sep_case HA HB. rewrite (grouped_total_app Z.max 0%Z ia ib la lb) by assumption. cbn. repeat split; rewrite gt_len3; reflexivity.
  Qed.

  Lemma grouped_min_app a b ab ia ib ca cb : capp a b = Some ab -> keys_disjoint ia ib ->
    grouped_min a ia = Ok ca -> grouped_min b ib = Ok cb ->
    exists cab, grouped_min ab (ia ++ ib) = Ok cab /\ capp ca cb = Some cab /\ col_len ca = length ia /\ col_len cb = length ib.
  Proof.
    intros Hab Hd HA HB. unfold grouped_min in *.
    destruct a as [la|la|la|la], b as [lb|lb|lb|lb]; try discriminate; cbn in Hab; injection Hab as <-.
    - sep_case HA HB. rewrite (grouped_total_app Z.min 0%Z ia ib la lb) by assumption. cbn. repeat split; rewrite gt_len3; reflexivity.
    - sep_case HA HB. rewrite (grouped_total_app xq_min (xz 0) ia ib la lb) by assumption. cbn. repeat split; rewrite gt_len3; reflexivity.
    - sep_case HA HB. rewrite (grouped_total_app Z.min 0%Z ia ib la lb) by assumption. cbn. repeat split; rewrite gt_len3; reflexivity.
  Qed.

  Lemma grouped_any_app a b ab ia ib ca cb : capp a b = Some ab -> keys_disjoint ia ib ->
    grouped_any a ia = Ok ca -> grouped_any b ib = Ok cb ->
    exists cab, grouped_any ab (ia ++ ib) = Ok cab /\ capp ca cb = Some cab /\ col_len ca = length ia /\ col_len cb = length ib.
  Proof.
    intros Hab Hd HA HB. unfold grouped_any in *.
    destruct a as [la|la|la|la], b as [lb|lb|lb|lb]; try discriminate; cbn in Hab; injection Hab as <-.
    - sep_case HA HB. rewrite map_app, (grouped_total_app orb false ia ib _ _) by (rewrite ?map_length; assumption). cbn. repeat split; rewrite gt_len3; reflexivity.
    - sep_case HA HB. rewrite (grouped_total_app orb false ia ib la lb) by assumption. cbn. repeat split; rewrite gt_len3; reflexivity.
  Qed.

  Lemma grouped_all_app a b ab ia ib ca cb : capp a b = Some ab -> keys_disjoint ia ib ->
    grouped_all a ia = Ok ca -> grouped_all b ib = Ok cb ->
    exists cab, grouped_all ab (ia ++ ib) = Ok cab /\ capp ca cb = Some cab /\ col_len ca = length ia /\ col_len cb = length ib.
  Proof.
    intros Hab Hd HA HB. unfold grouped_all in *.
    destruct a as [la|la|la|la], b as [lb|lb|lb|lb]; try discriminate; cbn in Hab; injection Hab as <-.
    - sep_case HA HB. rewrite map_app, (grouped_total_app andb true ia ib _ _) by (rewrite ?map_length; assumption). cbn. repeat split; rewrite gt_len3; reflexivity.
    - sep_case HA HB. rewrite (grouped_total_app andb true ia ib la lb) by assumption. cbn. repeat split; rewrite gt_len3; reflexivity.
  Qed.

  Lemma grouped_count_app ia ib ca cb : keys_disjoint ia ib -> grouped_count ia = Ok ca -> grouped_count ib = Ok cb ->
    exists cab, grouped_count (ia ++ ib) = Ok cab /\ capp ca cb = Some cab /\ col_len ca = length ia /\ col_len cb = length ib.
  Proof.
    intros Hd HA HB. unfold grouped_count in *.
    destruct (guard_split2 _ _ _ _ HA) as (_ & KA & RA). destruct (guard_split2 _ _ _ _ HB) as (_ & KB & RB). injection RA as <-. injection RB as <-.
    rewrite app_length, (guard_app ia ib _ _ _ eq_refl eq_refl KA KB). eexists. split; [reflexivity|].
    rewrite map_app, (grouped_total_app Z.add 0%Z ia ib _ _) by (rewrite ?map_length; auto). rewrite map_app. cbn.
    repeat split; rewrite map_length, gt_len3; reflexivity.
  Qed.

  Lemma grouped_mean_app a b ab ia ib ca cb : capp a b = Some ab -> keys_disjoint ia ib ->
    grouped_mean a ia = Ok ca -> grouped_mean b ib = Ok cb ->
    exists cab, grouped_mean ab (ia ++ ib) = Ok cab /\ capp ca cb = Some cab /\ col_len ca = length ia /\ col_len cb = length ib.
  Proof.
    intros Hab Hd HA HB. unfold grouped_mean in *.
    destruct a as [la|la|la|la], b as [lb|lb|lb|lb]; try discriminate; cbn in Hab; injection Hab as <-.
    destruct (guard_split2 _ _ _ _ HA) as (LA & KA & RA). destruct (guard_split2 _ _ _ _ HB) as (LB & KB & RB).
    cbn [col_len] in *. cbv zeta in RA, RB. injection RA as <-. injection RB as <-.
    rewrite app_length, (guard_app ia ib _ _ _ LA LB KA KB). cbv zeta. eexists. split; [reflexivity|].
    rewrite (grouped_total_app xq_add (xz 0) ia ib la lb) by assumption.
    rewrite map_app, (grouped_total_app Z.add 0%Z ia ib _ _) by (rewrite ?map_length; auto).
    rewrite combine_app_eq by (rewrite !gt_len3; reflexivity). rewrite map_app. cbn.
    repeat split; rewrite map_length, combine_length, !gt_len3; lia.
  Qed.

  Lemma capps_length : forall a b c, capps a b = Some c -> length a = length b.
  Proof.
    induction a as [|x r IH]; intros [|y q] c H; cbn in H; try discriminate; [reflexivity|].
    destruct (capp x y); [|discriminate]. destruct (capps r q) eqn:E; [|discriminate]. cbn. f_equal. apply (IH q l E).
  Qed.

  Lemma node_sep_groupagg n aggr csA csB csAB cA cB : d_kind n = KGroupAgg aggr ->
    capps csA csB = Some csAB -> lensA csA -> lensB csB ->
    (forall gA gB iA iB, last csA gA = gA -> last csB gB = gB -> col_ints gA = Ok iA -> col_ints gB = Ok iB -> keys_disjoint iA iB) ->
    semA n csA = Ok cA -> semB n csB = Ok cB -> sep_concl n csAB cA cB.
  Proof.
    intros Hk Hc HA HB Hdis EA EB. unfold sep_concl, semA, semB, semAB, sem in *. rewrite Hk in *.
    pose proof (capps_length _ _ _ Hc) as Hlen.
    destruct csA as [|a1 [|a2 [|? ?]]]; try discriminate; destruct csB as [|b1 [|b2 [|? ?]]]; try discriminate; cbn in Hlen; try discriminate; cbn in Hc.
    - destruct (capp a1 b1) as [g|] eqn:Eg; [|discriminate]. injection Hc as <-.
      destruct (col_ints a1) as [iA|] eqn:EiA; cbn [bind] in EA; [|discriminate]. destruct (col_ints b1) as [iB|] eqn:EiB; cbn [bind] in EB; [|discriminate].
      rewrite (col_ints_app a1 b1 g iA iB Eg EiA EiB). cbn [bind].
      assert (Hd : keys_disjoint iA iB) by (apply (Hdis a1 b1 iA iB); auto).
      destruct (String.eqb aggr "count"); [|discriminate].
      destruct (grouped_count_app iA iB cA cB Hd EA EB) as (cab & H1 & H2 & H3 & H4). exists cab. repeat split; try assumption.
      + rewrite H3, (col_ints_len2 a1 iA EiA). apply (Forall_inv HA).
      + rewrite H4, (col_ints_len2 b1 iB EiB). apply (Forall_inv HB).
    - destruct (capp a1 b1) as [src|] eqn:Es; [|discriminate]. destruct (capp a2 b2) as [g|] eqn:Eg; [|discriminate]. injection Hc as <-.
      destruct (col_ints a2) as [iA|] eqn:EiA; cbn [bind] in EA; [|discriminate]. destruct (col_ints b2) as [iB|] eqn:EiB; cbn [bind] in EB; [|discriminate].
      rewrite (col_ints_app a2 b2 g iA iB Eg EiA EiB). cbn [bind].
      assert (Hd : keys_disjoint iA iB) by (apply (Hdis a2 b2 iA iB); auto).
      assert (LiA : length iA = nA) by (rewrite (col_ints_len2 a2 iA EiA); apply (Forall_inv (Forall_inv_tail HA))).
      assert (LiB : length iB = nB) by (rewrite (col_ints_len2 b2 iB EiB); apply (Forall_inv (Forall_inv_tail HB))).
      destruct (String.eqb aggr "sum"); [destruct (grouped_sum_app a1 b1 src iA iB cA cB Es Hd EA EB) as (cab & H1 & H2 & H3 & H4); exists cab; repeat split; try assumption; congruence|].
      destruct (String.eqb aggr "mean"); [destruct (grouped_mean_app a1 b1 src iA iB cA cB Es Hd EA EB) as (cab & H1 & H2 & H3 & H4); exists cab; repeat split; try assumption; congruence|].
      destruct (String.eqb aggr "max"); [destruct (grouped_max_app a1 b1 src iA iB cA cB Es Hd EA EB) as (cab & H1 & H2 & H3 & H4); exists cab; repeat split; try assumption; congruence|].
      destruct (String.eqb aggr "min"); [destruct (grouped_min_app a1 b1 src iA iB cA cB Es Hd EA EB) as (cab & H1 & H2 & H3 & H4); exists cab; repeat split; try assumption; congruence|].
      destruct (String.eqb aggr "any"); [destruct (grouped_any_app a1 b1 src iA iB cA cB Es Hd EA EB) as (cab & H1 & H2 & H3 & H4); exists cab; repeat split; try assumption; congruence|].
      destruct (String.eqb aggr "all"); [destruct (grouped_all_app a1 b1 src iA iB cA cB Es Hd EA EB) as (cab & H1 & H2 & H3 & H4); exists cab; repeat split; try assumption; congruence|].
      discriminate.
  Qed.

  (* ---- sums by person pointer ---- *)
  Lemma sum_by_p_id_app a b ab pa pb ia ib ca cb : capp a b = Some ab -> NoDup (ia ++ ib) ->
    sum_by_p_id a pa ia = Ok ca -> sum_by_p_id b pb ib = Ok cb ->
    exists cab, sum_by_p_id ab (pa ++ pb) (ia ++ ib) = Ok cab /\ capp ca cb = Some cab /\ col_len ca = length ia /\ col_len cb = length ib.
  Proof.
    intros Hab Hnd HA HB. unfold sum_by_p_id in *.
    destruct (Nat.eqb (length pa) (col_len a)) eqn:La; cbn [negb] in HA; [|discriminate].
    destruct (Nat.eqb (length pb) (col_len b)) eqn:Lb; cbn [negb] in HB; [|discriminate].
    apply Nat.eqb_eq in La. apply Nat.eqb_eq in Lb.
    assert (Lab : Nat.eqb (length (pa ++ pb)) (col_len ab) = true) by (apply Nat.eqb_eq; rewrite app_length, (capp_len a b ab Hab); lia).
    rewrite Lab. cbn [negb].
    assert (HndA : NoDup ia).
    { clear -Hnd. induction ia as [|x r IH]; [constructor|]. cbn in Hnd. inversion Hnd as [|? ? Hx Hr]; subst.
      constructor; [intro Hin; apply Hx; apply in_or_app; left; exact Hin | apply IH; exact Hr]. }
    assert (HndB : NoDup ib).
    { clear -Hnd. induction ia as [|x r IH]; [exact Hnd|]. cbn in Hnd. inversion Hnd; subst. apply IH. assumption. }
    destruct a as [la|la|la|la], b as [lb|lb|lb|lb]; try discriminate; cbn in Hab; injection Hab as <-; cbn [col_len] in *.
    - destruct (sum_by_p_id_list Z.add 0%Z la pa ia) as [oa|] eqn:Ea; cbn [bind] in HA; [|discriminate].
      destruct (sum_by_p_id_list Z.add 0%Z lb pb ib) as [ob|] eqn:Eb; cbn [bind] in HB; [|discriminate]. injection HA as <-. injection HB as <-.
      rewrite (sum_by_p_id_list_app Z.add 0%Z la lb pa pb ia ib oa ob Hnd La Ea Eb). cbn [bind]. eexists. split; [reflexivity|]. cbn.
      destruct (sum_by_p_id_spec Z.add 0%Z la pa ia oa HndA Ea) as [L1 _]. destruct (sum_by_p_id_spec Z.add 0%Z lb pb ib ob HndB Eb) as [L2 _]. auto.
    - destruct (sum_by_p_id_list xq_add (xz 0) la pa ia) as [oa|] eqn:Ea; cbn [bind] in HA; [|discriminate].
      destruct (sum_by_p_id_list xq_add (xz 0) lb pb ib) as [ob|] eqn:Eb; cbn [bind] in HB; [|discriminate]. injection HA as <-. injection HB as <-.
      rewrite (sum_by_p_id_list_app xq_add (xz 0) la lb pa pb ia ib oa ob Hnd La Ea Eb). cbn [bind]. eexists. split; [reflexivity|]. cbn.
      destruct (sum_by_p_id_spec xq_add (xz 0) la pa ia oa HndA Ea) as [L1 _]. destruct (sum_by_p_id_spec xq_add (xz 0) lb pb ib ob HndB Eb) as [L2 _]. auto.
    - destruct (sum_by_p_id_list Z.add 0%Z (map b2z la) pa ia) as [oa|] eqn:Ea; cbn [bind] in HA; [|discriminate].
      destruct (sum_by_p_id_list Z.add 0%Z (map b2z lb) pb ib) as [ob|] eqn:Eb; cbn [bind] in HB; [|discriminate]. injection HA as <-. injection HB as <-.
      rewrite map_app, (sum_by_p_id_list_app Z.add 0%Z (map b2z la) (map b2z lb) pa pb ia ib oa ob Hnd) by (rewrite ?map_length; assumption).
      cbn [bind]. eexists. split; [reflexivity|]. cbn.
      destruct (sum_by_p_id_spec Z.add 0%Z _ pa ia oa HndA Ea) as [L1 _]. destruct (sum_by_p_id_spec Z.add 0%Z _ pb ib ob HndB Eb) as [L2 _]. auto.
  Qed.

  Lemma node_sep_pidagg n aggr csA csB csAB cA cB : d_kind n = KPidAgg aggr ->
    capps csA csB = Some csAB -> lensA csA -> lensB csB ->
    (forall a1 a2 a3 b1 b2 b3 iA iB, csA = [a1; a2; a3] -> csB = [b1; b2; b3] -> col_ints a3 = Ok iA -> col_ints b3 = Ok iB -> NoDup (iA ++ iB)) ->
    semA n csA = Ok cA -> semB n csB = Ok cB -> sep_concl n csAB cA cB.
  Proof.
    intros Hk Hc HA HB Hnd EA EB. unfold sep_concl, semA, semB, semAB, sem in *. rewrite Hk in *.
    destruct csA as [|a1 [|a2 [|a3 [|? ?]]]]; try discriminate. destruct csB as [|b1 [|b2 [|b3 [|? ?]]]]; try discriminate.
    cbn in Hc. destruct (capp a1 b1) as [c1|] eqn:E1; [|discriminate]. destruct (capp a2 b2) as [c2|] eqn:E2; [|discriminate].
    destruct (capp a3 b3) as [c3|] eqn:E3; [|discriminate]. injection Hc as <-.
    destruct (String.eqb aggr "sum"); [|discriminate].
    destruct (col_ints a2) as [pa|] eqn:Epa; cbn [bind] in EA; [|discriminate]. destruct (col_ints a3) as [ia|] eqn:Eia; cbn [bind] in EA; [|discriminate].
    destruct (col_ints b2) as [pb|] eqn:Epb; cbn [bind] in EB; [|discriminate]. destruct (col_ints b3) as [ib|] eqn:Eib; cbn [bind] in EB; [|discriminate].
    rewrite (col_ints_app a2 b2 c2 pa pb E2 Epa Epb), (col_ints_app a3 b3 c3 ia ib E3 Eia Eib). cbn [bind].
    destruct (sum_by_p_id_app a1 b1 c1 pa pb ia ib cA cB E1 (Hnd _ _ _ _ _ _ ia ib eq_refl eq_refl Eia Eib) EA EB) as (cab & H1 & H2 & H3 & H4).
    exists cab. repeat split; try assumption.
    - rewrite H3, (col_ints_len2 a3 ia Eia). apply (Forall_inv (Forall_inv_tail (Forall_inv_tail HA))).
    - rewrite H4, (col_ints_len2 b3 ib Eib). apply (Forall_inv (Forall_inv_tail (Forall_inv_tail HB))).
  Qed.

  (* ---- joins ---- *)
  Lemma get2_capps names : forall csA csB csAB x a b, capps csA csB = Some csAB ->
    get2 names csA x = Ok a -> get2 names csB x = Ok b -> exists ab, get2 names csAB x = Ok ab /\ capp a b = Some ab.
  Proof.
    intros csA csB csAB x a b Hc HA HB. unfold get2 in *. destruct (index_of_name x names 0) as [i|]; [|discriminate].
    revert csB csAB i Hc HA HB. induction csA as [|ca ra IH]; intros [|cb rb] csAB i Hc HA HB; cbn in Hc; try discriminate.
    - destruct i; discriminate.
    - destruct (capp ca cb) as [c|] eqn:Ec; [|discriminate]. destruct (capps ra rb) as [cs|] eqn:Ecs; [|discriminate]. injection Hc as <-.
      destruct i as [|i]; cbn in *.
      + injection HA as <-. injection HB as <-. exists c. auto.
      + apply (IH rb cs i Ecs HA HB).
  Qed.

  Lemma get2_lenA names cs x c : lensA cs -> get2 names cs x = Ok c -> col_len c = nA.
  Proof.
    intros F. unfold get2. destruct (index_of_name x names 0); [|discriminate].
    destruct (nth_error cs n) eqn:E; cbn; [|discriminate]. intro H. injection H as <-.
    unfold lensA in F. rewrite Forall_forall in F. apply F. apply (nth_error_In _ _ E).
  Qed.
  Lemma get2_lenB names cs x c : lensB cs -> get2 names cs x = Ok c -> col_len c = nB.
  Proof.
    intros F. unfold get2. destruct (index_of_name x names 0); [|discriminate].
    destruct (nth_error cs n) eqn:E; cbn; [|discriminate]. intro H. injection H as <-.
    unfold lensB in F. rewrite Forall_forall in F. apply F. apply (nth_error_In _ _ E).
  Qed.

  Lemma combine_vals_app (jA jB : list val) a b ab : capp a b = Some ab -> length jA = col_len a ->
    combine (jA ++ jB) (col_vals ab) = combine jA (col_vals a) ++ combine jB (col_vals b).
  Proof. intros Hab L. rewrite (capp_vals a b ab Hab). apply combine_app_eq. rewrite col_vals_length. exact L. Qed.

  Lemma node_sep_join n fk pk tgt dflt cmp csA csB csAB cA cB : d_kind n = KJoin fk pk tgt dflt cmp ->
    capps csA csB = Some csAB -> lensA csA -> lensB csB ->
    (forall fa pa fb pb ifa ipa ifb ipb, get2 (d_args n) csA fk = Ok fa -> get2 (d_args n) csA pk = Ok pa ->
       get2 (d_args n) csB fk = Ok fb -> get2 (d_args n) csB pk = Ok pb ->
       col_ints fa = Ok ifa -> col_ints pa = Ok ipa -> col_ints fb = Ok ifb -> col_ints pb = Ok ipb ->
       keys_disjoint ipa ipb /\ keys_disjoint ifa ipb /\ keys_disjoint ifb ipa) ->
    semA n csA = Ok cA -> semB n csB = Ok cB -> sep_concl n csAB cA cB.
  Proof.
    intros Hk Hc HA HB Hkeys EA EB. unfold sep_concl, semA, semB, semAB, sem in *. rewrite Hk in *.
    destruct (get2 (d_args n) csA fk) as [fa|] eqn:Efa; cbn [bind] in EA; [|discriminate].
    destruct (col_ints fa) as [ifa|] eqn:Eifa; cbn [bind] in EA; [|discriminate].
    destruct (get2 (d_args n) csA pk) as [pa|] eqn:Epa; cbn [bind] in EA; [|discriminate].
    destruct (col_ints pa) as [ipa|] eqn:Eipa; cbn [bind] in EA; [|discriminate].
    destruct (get2 (d_args n) csA tgt) as [ta|] eqn:Eta; cbn [bind] in EA; [|discriminate].
    destruct (join_list ifa ipa (col_vals ta) dflt) as [jA|] eqn:EjA; cbn [bind] in EA; [|discriminate].
    destruct (get2 (d_args n) csB fk) as [fb|] eqn:Efb; cbn [bind] in EB; [|discriminate].
    destruct (col_ints fb) as [ifb|] eqn:Eifb; cbn [bind] in EB; [|discriminate].
    destruct (get2 (d_args n) csB pk) as [pb|] eqn:Epb; cbn [bind] in EB; [|discriminate].
    destruct (col_ints pb) as [ipb|] eqn:Eipb; cbn [bind] in EB; [|discriminate].
    destruct (get2 (d_args n) csB tgt) as [tb|] eqn:Etb; cbn [bind] in EB; [|discriminate].
    destruct (join_list ifb ipb (col_vals tb) dflt) as [jB|] eqn:EjB; cbn [bind] in EB; [|discriminate].
    destruct (Hkeys fa pa fb pb ifa ipa ifb ipb eq_refl eq_refl eq_refl eq_refl Eifa Eipa Eifb Eipb) as (D1 & D2 & D3).
    destruct (get2_capps _ _ _ _ fk fa fb Hc Efa Efb) as (fab & Gf & Cf).
    destruct (get2_capps _ _ _ _ pk pa pb Hc Epa Epb) as (pab & Gp & Cp).
    destruct (get2_capps _ _ _ _ tgt ta tb Hc Eta Etb) as (tab & Gt & Ct).
    rewrite Gf. cbn [bind]. rewrite (col_ints_app fa fb fab ifa ifb Cf Eifa Eifb). cbn [bind].
    rewrite Gp. cbn [bind]. rewrite (col_ints_app pa pb pab ipa ipb Cp Eipa Eipb). cbn [bind].
    rewrite Gt. cbn [bind]. rewrite (capp_vals ta tb tab Ct).
    assert (Ltp : length (col_vals ta) = length ipa).
    { rewrite col_vals_length, (get2_lenA _ _ _ _ HA Eta), (col_ints_len2 pa ipa Eipa), (get2_lenA _ _ _ _ HA Epa). reflexivity. }
    rewrite (join_list_app dflt ifa ifb ipa ipb (col_vals ta) (col_vals tb) jA jB Ltp D1 D2 D3 EjA EjB). cbn [bind].
    assert (LjA : length jA = nA).
    { unfold join_list in EjA. destruct (negb (nodup_z ipa)); [discriminate|]. destruct (existsb _ ifa); [discriminate|]. injection EjA as <-.
      rewrite map_length, (col_ints_len2 fa ifa Eifa). apply (get2_lenA _ _ _ _ HA Efa). }
    assert (LjB : length jB = nB).
    { unfold join_list in EjB. destruct (negb (nodup_z ipb)); [discriminate|]. destruct (existsb _ ifb); [discriminate|]. injection EjB as <-.
      rewrite map_length, (col_ints_len2 fb ifb Eifb). apply (get2_lenB _ _ _ _ HB Efb). }
    destruct cmp as [[ng other]|].
    - destruct (get2 (d_args n) csA other) as [oa|] eqn:Eoa; cbn [bind] in EA; [|discriminate].
      destruct (get2 (d_args n) csB other) as [ob|] eqn:Eob; cbn [bind] in EB; [|discriminate].
      destruct (get2_capps _ _ _ _ other oa ob Hc Eoa Eob) as (oab & Go & Co). rewrite Go. cbn [bind].
      destruct (mapM_res _ (combine jA (col_vals oa))) as [bA|] eqn:EmA; cbn [bind] in EA; [|discriminate].
      destruct (mapM_res _ (combine jB (col_vals ob))) as [bB|] eqn:EmB; cbn [bind] in EB; [|discriminate].
      rewrite (combine_vals_app jA jB oa ob oab Co) by (rewrite LjA; symmetry; apply (get2_lenA _ _ _ _ HA Eoa)).
      rewrite (mapM_res_app _ _ _ bA bB EmA EmB). cbn [bind].
      destruct (pack_app TBool bA bB cA cB EA EB) as (c & Hp & Hcc). exists c. repeat split; try assumption.
      + rewrite (pack_len _ _ _ EA), (mapM_res_length _ _ _ EmA), combine_length, col_vals_length, (get2_lenA _ _ _ _ HA Eoa). lia.
      + rewrite (pack_len _ _ _ EB), (mapM_res_length _ _ _ EmB), combine_length, col_vals_length, (get2_lenB _ _ _ _ HB Eob). lia.
    - destruct (capp_dtype ta tb tab Ct) as [Dt1 Dt2]. rewrite Dt2. rewrite <- Dt1 in EB.
      destruct (pack_app (col_dtype ta) jA jB cA cB EA EB) as (c & Hp & Hcc). exists c. repeat split; try assumption.
      + rewrite (pack_len _ _ _ EA). exact LjA.
      + rewrite (pack_len _ _ _ EB). exact LjB.
  Qed.
  (* ---- the side conditions, stated on the SUPPLIED key columns (by name) ---- *)
  Definition ints_of (e : tbl column) (x : string) : option (list Z) :=
    match tget column x e with Some c => match col_ints c with Ok l => Some l | Err _ => None end | None => None end.

  Definition knames (n : dnode) : list string :=
    match d_kind n with
    | KGroupAgg _ => match d_args n with [g] => [g] | [_; g] => [g] | _ => [] end
    | KPidAgg _ => match d_args n with [_; _; pid] => [pid] | _ => [] end
    | KJoin fk pk _ _ _ => [fk; pk]
    | _ => []
    end.

  Definition side (eA eB : tbl column) (n : dnode) : Prop :=
    match d_kind n with
    | KGroupAgg _ => forall g, In g (knames n) -> forall iA iB, ints_of eA g = Some iA -> ints_of eB g = Some iB -> keys_disjoint iA iB
    | KPidAgg _ => forall pid, In pid (knames n) -> forall iA iB, ints_of eA pid = Some iA -> ints_of eB pid = Some iB -> NoDup (iA ++ iB)
    | KJoin fk pk _ _ _ => forall ifa ipa ifb ipb, ints_of eA fk = Some ifa -> ints_of eA pk = Some ipa -> ints_of eB fk = Some ifb -> ints_of eB pk = Some ipb ->
                            keys_disjoint ipa ipb /\ keys_disjoint ifa ipb /\ keys_disjoint ifb ipa
    | _ => True
    end.

  Lemma ints_of_cons e x c k : k <> x -> ints_of ((x, c) :: e) k = ints_of e k.
  Proof. intro H. unfold ints_of. cbn [tget]. destruct (String.eqb k x) eqn:E; [apply String.eqb_eq in E; contradiction | reflexivity]. Qed.

  Lemma side_cons eA eB n x a b : (forall k, In k (knames n) -> k <> x) -> side eA eB n -> side ((x, a) :: eA) ((x, b) :: eB) n.
  Proof.
    intros Hk H. unfold side in *. destruct (d_kind n) eqn:Ek; try exact I.
    - intros g Hg iA iB HA HB. rewrite ints_of_cons in HA by (apply Hk; exact Hg). rewrite ints_of_cons in HB by (apply Hk; exact Hg). apply (H g Hg iA iB HA HB).
    - intros g Hg iA iB HA HB. rewrite ints_of_cons in HA by (apply Hk; exact Hg). rewrite ints_of_cons in HB by (apply Hk; exact Hg). apply (H g Hg iA iB HA HB).
    - assert (K1 : fk <> x) by (apply Hk; unfold knames; rewrite Ek; left; reflexivity).
      assert (K2 : pk <> x) by (apply Hk; unfold knames; rewrite Ek; right; left; reflexivity).
      intros ifa ipa ifb ipb H1 H2 H3 H4. rewrite ints_of_cons in H1, H2, H3, H4 by assumption. apply (H ifa ipa ifb ipb H1 H2 H3 H4).
  Qed.

  Lemma get2_tget2 names e cs x c : get_all column names e = Ok cs -> get2 names cs x = Ok c -> tget column x e = Some c.
  Proof.
    intros Hg H. unfold get2 in H. destruct (index_of_name x names 0) as [i|] eqn:Ei; [|discriminate].
    destruct (index_of_name_spec x names 0 i Ei) as [_ Hn]. rewrite Nat.sub_0_r in Hn.
    destruct (get_all_nth names e cs i x Hg Hn) as (c' & Hc & Ht). rewrite Hc in H. cbn in H. injection H as <-. exact Ht.
  Qed.

  Lemma ints_of_get e x c l : tget column x e = Some c -> col_ints c = Ok l -> ints_of e x = Some l.
  Proof. intros H1 H2. unfold ints_of. rewrite H1, H2. reflexivity. Qed.

  Definition sep_ready (n : dnode) : Prop := declared_rule n = true /\ d_kind n <> KGrouping.

  Lemma node_sep n eA eB csA csB csAB cA cB : sep_ready n -> side eA eB n ->
    get_all column (d_args n) eA = Ok csA -> get_all column (d_args n) eB = Ok csB ->
    capps csA csB = Some csAB -> lensA csA -> lensB csB -> semA n csA = Ok cA -> semB n csB = Ok cB -> sep_concl n csAB cA cB.
  Proof.
    intros [Hd Hg] Hs GA GB Hc HA HB EA EB. unfold side in Hs. destruct (d_kind n) eqn:Ek.
    - apply (node_sep_rule n _ _ _ csA csB csAB cA cB Ek Hd Hc HA HB EA EB).
    - apply (node_sep_groupagg n _ csA csB csAB cA cB Ek Hc HA HB); [|exact EA | exact EB].
      intros gA gB iA iB LA LB IA IB. unfold knames in Hs. rewrite Ek in Hs.
      destruct (d_args n) as [|x1 [|x2 [|? ?]]] eqn:Ea.
      + cbn in GA. injection GA as <-. unfold semA, sem in EA. rewrite Ek in EA. discriminate.
      + cbn in GA, GB. destruct (tget column x1 eA) as [a|] eqn:TA; [|discriminate]. destruct (tget column x1 eB) as [b|] eqn:TB; [|discriminate].
        cbn in GA, GB. injection GA as <-. injection GB as <-. cbn in LA, LB. subst gA gB.
        apply (Hs x1 (or_introl eq_refl) iA iB (ints_of_get eA x1 a iA TA IA) (ints_of_get eB x1 b iB TB IB)).
      + cbn in GA, GB. destruct (tget column x1 eA) as [a1|]; [|discriminate]. destruct (tget column x2 eA) as [a|] eqn:TA; [|discriminate].
        destruct (tget column x1 eB) as [b1|]; [|discriminate]. destruct (tget column x2 eB) as [b|] eqn:TB; [|discriminate].
        cbn in GA, GB. injection GA as <-. injection GB as <-. cbn in LA, LB. subst gA gB.
        apply (Hs x2 (or_introl eq_refl) iA iB (ints_of_get eA x2 a iA TA IA) (ints_of_get eB x2 b iB TB IB)).
      + pose proof (get_all_length _ _ _ GA) as L. unfold semA, sem in EA. rewrite Ek in EA.
        destruct csA as [|? [|? [|? ?]]]; cbn in L; try discriminate; try lia.
    - apply (node_sep_pidagg n _ csA csB csAB cA cB Ek Hc HA HB); [|exact EA | exact EB].
      intros a1 a2 a3 b1 b2 b3 iA iB -> -> IA IB. unfold knames in Hs. rewrite Ek in Hs.
      pose proof (get_all_length _ _ _ GA) as L. destruct (d_args n) as [|x1 [|x2 [|x3 [|? ?]]]] eqn:Ea; cbn in L; try discriminate.
      cbn in GA, GB. destruct (tget column x1 eA); [|discriminate]. destruct (tget column x2 eA); [|discriminate]. destruct (tget column x3 eA) as [a|] eqn:TA; [|discriminate].
      destruct (tget column x1 eB); [|discriminate]. destruct (tget column x2 eB); [|discriminate]. destruct (tget column x3 eB) as [b|] eqn:TB; [|discriminate].
      cbn in GA, GB. injection GA as _ _ <-. injection GB as _ _ <-.
      apply (Hs x3 (or_introl eq_refl) iA iB (ints_of_get eA x3 a iA TA IA) (ints_of_get eB x3 b iB TB IB)).
    - apply (node_sep_timeconv n _ _ csA csB csAB cA cB Ek Hc HA HB EA EB).
    - exfalso. apply Hg. reflexivity.
    - apply (node_sep_join n _ _ _ _ _ csA csB csAB cA cB Ek Hc HA HB); [|exact EA | exact EB].
      intros fa pa fb pb ifa ipa ifb ipb G1 G2 G3 G4 I1 I2 I3 I4.
      apply (Hs ifa ipa ifb ipb (ints_of_get eA _ fa ifa (get2_tget2 _ eA csA _ fa GA G1) I1) (ints_of_get eA _ pa ipa (get2_tget2 _ eA csA _ pa GA G2) I2)
                (ints_of_get eB _ fb ifb (get2_tget2 _ eB csB _ fb GB G3) I3) (ints_of_get eB _ pb ipb (get2_tget2 _ eB csB _ pb GB G4) I4)).
  Qed.

  Lemma tab3_cons eA eB eAB x a b ab : tab3 eA eB eAB -> capp a b = Some ab -> col_len a = nA -> col_len b = nB ->
    tab3 ((x, a) :: eA) ((x, b) :: eB) ((x, ab) :: eAB).
  Proof.
    intros H3 Hc La Lb y. cbn [tget]. destruct (String.eqb y x); [|apply H3].
    split; [exact La | split; [exact Lb | exists ab; split; [exact Hc | reflexivity]]].
  Qed.

  (* THE theorem: simulating A and B together = concatenating the separate simulations *)
  Theorem run_separable : forall S eA eB eAB tA tB,
    (forall n, In n S -> sep_ready n) ->
    (forall n, In n S -> side eA eB n) ->
    (forall m n k, In m S -> In n S -> In k (knames n) -> k <> d_name m) ->
    tab3 eA eB eAB ->
    run column (to_sys column semA S) eA = Ok tA -> run column (to_sys column semB S) eB = Ok tB ->
    exists tAB, run column (to_sys column semAB S) eAB = Ok tAB /\ tab3 tA tB tAB.
  Proof.
    induction S as [|n r IH]; intros eA eB eAB tA tB Hr Hs Hk H3 RA RB; cbn in RA, RB.
    - injection RA as <-. injection RB as <-. exists eAB. split; [reflexivity | exact H3].
    - unfold step in RA at 1. unfold step in RB at 1. cbn [nargs nop nm to_node] in RA, RB.
      destruct (get_all column (d_args n) eA) as [csA|] eqn:GA; cbn [bind] in RA; [|discriminate].
      destruct (semA n csA) as [cA|] eqn:EA; cbn [bind] in RA; [|discriminate].
      destruct (get_all column (d_args n) eB) as [csB|] eqn:GB; cbn [bind] in RB; [|discriminate].
      destruct (semB n csB) as [cB|] eqn:EB; cbn [bind] in RB; [|discriminate].
      destruct (get_all3 _ eA eB eAB csA csB H3 GA GB) as (csAB & GAB & Hc & HlA & HlB).
      destruct (node_sep n eA eB csA csB csAB cA cB (Hr n (or_introl eq_refl)) (Hs n (or_introl eq_refl)) GA GB Hc HlA HlB EA EB) as (cAB & EAB & Hcap & La & Lb).
      destruct (IH ((d_name n, cA) :: eA) ((d_name n, cB) :: eB) ((d_name n, cAB) :: eAB) tA tB) as (tAB & RAB & H3');
        [intros m Hm; apply Hr; right; exact Hm | | intros m1 m2 k Hm1 Hm2; apply Hk; right; assumption | apply tab3_cons; assumption | exact RA | exact RB |].
      { intros m Hm. apply side_cons; [|apply Hs; right; exact Hm]. intros k Hkk. apply (Hk n m k (or_introl eq_refl) (or_intror Hm) Hkk). }
      exists tAB. split; [|exact H3']. cbn. unfold step at 1. cbn [nargs nop nm to_node]. rewrite GAB. cbn [bind]. rewrite EAB. cbn [bind]. exact RAB.
  Qed.
  (* decidable side conditions on the graph *)
  Definition sep_ready_b (n : dnode) : bool :=
    declared_rule n && match d_kind n with KGrouping => false | _ => true end.

  Lemma sep_ready_b_sound n : sep_ready_b n = true -> sep_ready n.
  Proof.
    unfold sep_ready_b, sep_ready. intro H. apply andb_true_iff in H. destruct H as [H1 H2]. split; [exact H1|].
    destruct (d_kind n); try discriminate; intro E; discriminate.
  Qed.

  Definition keys_fresh_b (S : list dnode) : bool :=
    forallb (fun n => forallb (fun k => forallb (fun m => negb (String.eqb k (d_name m))) S) (knames n)) S.

  Lemma keys_fresh_b_sound S : keys_fresh_b S = true -> forall m n k, In m S -> In n S -> In k (knames n) -> k <> d_name m.
  Proof.
    unfold keys_fresh_b. intros H m n k Hm Hn Hk E. rewrite forallb_forall in H. specialize (H n Hn). rewrite forallb_forall in H.
    specialize (H k Hk). rewrite forallb_forall in H. specialize (H m Hm). rewrite E, String.eqb_refl in H. discriminate.
  Qed.

  Corollary run_separable_b S eA eB eAB tA tB :
    forallb sep_ready_b S = true -> keys_fresh_b S = true -> (forall n, In n S -> side eA eB n) -> tab3 eA eB eAB ->
    run column (to_sys column semA S) eA = Ok tA -> run column (to_sys column semB S) eB = Ok tB ->
    exists tAB, run column (to_sys column semAB S) eAB = Ok tAB /\ tab3 tA tB tAB.
  Proof.
    intros H1 H2 Hs. apply run_separable; [|exact Hs | apply keys_fresh_b_sound; exact H2].
    intros n Hn. apply sep_ready_b_sound. rewrite forallb_forall in H1. apply H1. exact Hn.
  Qed.
End TSep.


