(* TableRound.v — C10 at the level of the concrete model engine Table.sem: statutory rounding is applied exactly once.
   - a rule node marked for rounding: the column with rounding on is the column with rounding off, rounded cell by cell
     with the specification loaded for that rule (sem_rounded);
   - every other node (unmarked rules, unit conversions, group reductions, pointer sums, joins, id builders) is computed
     from its argument columns in the same way whether rounding is on or off: a column derived from a rounded column is
     not rounded again (sem_not_rounded);
   - a marked rule without a specification in the loaded parameters fails on every non-empty table (missing_spec_is_error). *)
From Coq Require Import ZArith QArith Qcanon Bool String List Lia.
From GettsimModel Require Import Num Val Ast Eval PolicyEnv Rounding Column Aggregation Engine Dag Scalar Table.
Import ListNotations.
Open Scope string_scope.

Definition marked (n : dnode) : option string :=
  match d_kind n with KRule _ false (Some g) => Some g | _ => None end.

Theorem sem_not_rounded ft P nrows n cols : marked n = None ->
  sem ft P true nrows n cols = sem ft P false nrows n cols.
Proof.
  unfold marked, sem. destruct (d_kind n) as [py sk rd| | | | |? ? ? ? ?]; try reflexivity.
  destruct sk; [reflexivity|]. destruct rd as [g|]; [discriminate|reflexivity].
Qed.

Theorem sem_rounded ft P nrows n cols g : marked n = Some g ->
  sem ft P true nrows n cols = (do c <- sem ft P false nrows n cols; round_column P g (d_name n) c).
Proof.
  unfold marked, sem. destruct (d_kind n) as [py sk rd| | | | |? ? ? ? ?]; try discriminate.
  destruct sk; [discriminate|]. destruct rd as [g'|]; [|discriminate]. intros [= ->].
  destruct (of_option EUnbound (flookup py ft)) as [f|e]; [|reflexivity]. cbn [bind].
  match goal with |- (do c <- ?X; _) = _ => destruct X as [c|e]; reflexivity end.
Qed.

(* cell by cell: the rounded column holds the rounded cells of the unrounded one *)
Theorem round_column_cells P g name c c' : round_column P g name c = Ok c' ->
  col_dtype c' = TFloat /\ col_len c' = col_len c /\
  forall i v, nth_error (col_vals c) i = Some v ->
    exists r w, apply_rounding P g name v = Ok r /\ cast TFloat r = Ok w /\ nth_error (col_vals c') i = Some w.
Proof.
  unfold round_column. destruct (mapM_res (apply_rounding P g name) (col_vals c)) as [vs|] eqn:E; [|discriminate].
  cbn [bind]. intros Hp. destruct (pack_inv TFloat vs c' Hp) as (Hd & ws & Hc & Hv).
  split; [exact Hd|]. split.
  - rewrite <- !col_vals_length, Hv, (mapM_res_length _ _ _ Hc), (mapM_res_length _ _ _ E). reflexivity.
  - intros i v Hi. destruct (mapM_res_nth _ _ _ E i v Hi) as (r & Hr & Hri).
    destruct (mapM_res_nth _ _ _ Hc i r Hri) as (w & Hw & Hwi). exists r, w. rewrite Hv. auto.
Qed.

(* a marked rule without a specification: an error, never a silent no-op *)
Lemma no_spec_cell P g name v :
  (forall gv, pget g P = Some gv -> forall spec, path_get gv [KStr "rounding"; KStr name] <> Ok (VDict spec)) ->
  apply_rounding P g name v = Err EKey.
Proof.
  intros H. unfold apply_rounding. destruct (pget g P) as [gv|] eqn:E; [|reflexivity].
  specialize (H gv eq_refl). destruct (path_get gv [KStr "rounding"; KStr name]) as [[ | | | | | | |spec]|e]; try reflexivity.
  exfalso. now apply (H spec).
Qed.

Theorem missing_spec_is_error P g name c :
  (forall gv, pget g P = Some gv -> forall spec, path_get gv [KStr "rounding"; KStr name] <> Ok (VDict spec)) ->
  col_vals c <> [] -> round_column P g name c = Err EKey.
Proof.
  intros H Hne. unfold round_column. destruct (col_vals c) as [|v r]; [contradiction|].
  cbn [mapM_res]. rewrite (no_spec_cell P g name v H). reflexivity.
Qed.
