(* Sign.v — property C16: a verified analysis proving that a rule returns a FINITE, NON-NEGATIVE
   value.  [fnn v] = v is an int >= 0, a finite float >= 0, or a bool.  The analysis [nn_e G P e]
   says: whenever every variable listed in G holds an fnn value, and e evaluates successfully,
   its value is fnn.  It is deliberately small: anything outside the fragment is answered
   [false] (not proved), never guessed.  Parameter leaves reached through constant subscripts
   are looked up in the concrete parameter environment of the date. *)
From Coq Require Import ZArith QArith Qcanon Bool String List Lia.
From GettsimModel Require Import Num NumTac Val Ast Piecewise Eval PolicyEnv ChkC08.
Import ListNotations.
Open Scope string_scope.

Definition fnn (v : val) : Prop :=
  match v with
  | VInt z => (0 <= z)%Z
  | VFloat (XFin q) => (0 <= q)%Qc
  | VBool _ => True
  | _ => False
  end.

Definition fnn_b (v : val) : bool :=
  match v with
  | VInt z => (0 <=? z)%Z
  | VFloat (XFin q) => Qcleb 0 q
  | VBool _ => true
  | _ => false
  end.

Lemma fnn_b_sound v : fnn_b v = true -> fnn v.
Proof.
  destruct v as [z|x|b| | | | |]; cbn; try discriminate; auto.
  - apply Z.leb_le.
  - destruct x; try discriminate. apply Qcleb_iff.
Qed.

Definition smem (x : string) (l : list string) : bool := existsb (String.eqb x) l.

Section Analysis.
  Variable P : list (string * val).      (* parameter groups bound to the *_params arguments *)

  (* value of a constant-key parameter path *)
  Definition param_leaf_ok (e : expr) : bool :=
    match path_of e with
    | Some (r, ks) =>
        match lookup r P with
        | Some v => match path_get v ks with Ok w => fnn_b w | Err _ => false end
        | None => false
        end
    | None => false
    end.

  Definition fin_b (v : val) : bool :=
    match v with VInt _ | VBool _ | VFloat (XFin _) => true | _ => false end.

  Definition param_leaf_fin (e : expr) : bool :=
    match path_of e with
    | Some (r, ks) =>
        match lookup r P with
        | Some v => match path_get v ks with Ok w => fin_b w | Err _ => false end
        | None => false
        end
    | None => false
    end.

  (* finite (any sign): arithmetic over variables known finite-non-negative and finite parameter leaves *)
  Fixpoint fin_e (G : list string) (e : expr) : bool :=
    match e with
    | EInt _ | EFloat _ | EBool _ => true
    | EVar x => smem x G
    | EBin Add a b | EBin Sub a b | EBin Mul a b | EBin Div a b => fin_e G a && fin_e G b
    | ENeg a => fin_e G a
    | ECmp _ _ _ | ENot _ => true
    | EIfE _ a b => fin_e G a && fin_e G b
    | ESub _ _ => param_leaf_fin e
    | _ => false
    end.

  Definition two_args (es : exprs) : bool :=
    match es with ECons _ (ECons _ ENil) => true | _ => false end.

  Fixpoint nn_e (G : list string) (e : expr) : bool :=
    match e with
    | EInt z => (0 <=? z)%Z
    | EFloat q => Qcleb 0 q
    | EBool _ => true
    | EVar x => smem x G
    | EBin Add a b | EBin Mul a b | EBin Div a b => nn_e G a && nn_e G b
    | ECmp _ _ _ => true
    | ENot _ => true
    | EAnd a b | EOr a b => nn_e G a && nn_e G b
    | EIfE _ a b => nn_e G a && nn_e G b
    | ESub _ _ => param_leaf_ok e
    | EBuiltin BMax (ECons a (ECons b ENil)) => (nn_e G a && (nn_e G b || fin_e G b)) || (fin_e G a && nn_e G b)
    | EBuiltin BMin args => two_args args && nn_es G args
    | _ => false
    end
  with nn_es (G : list string) (es : exprs) : bool :=
    match es with
    | ENil => true
    | ECons e r => nn_e G e && nn_es G r
    end.

  (* statements: the set of variables known fnn after the statement, and whether every `return`
     met so far returns an fnn value *)
  Definition inter (a b : list string) : list string := filter (fun x => smem x b) a.

  Fixpoint nn_s (G : list string) (s : stmt) : list string * bool :=
    match s with
    | SSkip => (G, true)
    | SSeq a b => let '(G1, r1) := nn_s G a in let '(G2, r2) := nn_s G1 b in (G2, r1 && r2)
    | SAssign x e => if smem x (map fst P) then ([], false)
                     else if nn_e G e then (x :: G, true) else (filter (fun y => negb (String.eqb y x)) G, true)
    | SAug x op e =>
        if smem x (map fst P) then ([], false) else
        match op with
        | Add | Mul => if smem x G && nn_e G e then (G, true) else (filter (fun y => negb (String.eqb y x)) G, true)
        | _ => (filter (fun y => negb (String.eqb y x)) G, true)
        end
    | SIf _ a b => let '(G1, r1) := nn_s G a in let '(G2, r2) := nn_s G b in (inter G1 G2, r1 && r2)
    | SReturn e => (G, nn_e G e)
    | SRaise _ => (G, true)
    end.
End Analysis.

(* ---------------------------------------------------------------- *)
(* soundness                                                           *)

Definition env_ok (G : list string) (rho : env) : Prop :=
  forall x, smem x G = true -> exists v, lookup x rho = Some v /\ fnn v.

Lemma smem_In x l : smem x l = true <-> In x l.
Proof.
  unfold smem. rewrite existsb_exists. split.
  - intros [y [Hy E]]. apply String.eqb_eq in E. subst. exact Hy.
  - intro H. exists x. split; [exact H | apply String.eqb_refl].
Qed.

(* arithmetic on finite non-negative values stays finite and non-negative *)
Lemma qz_nonneg z : (0 <= z)%Z -> (0 <= qz z)%Qc.
Proof. intro H. replace 0%Qc with (qz 0) by (apply Qc_is_canon; reflexivity). apply (proj1 (qz_le 0 z)). exact H. Qed.

Definition fq (v : val) : option Qc :=
  match v with
  | VInt z => Some (qz z)
  | VFloat (XFin q) => Some q
  | VBool b => Some (qz (if b then 1 else 0))
  | _ => None
  end.

Lemma fnn_fq v : fnn v -> exists q, fq v = Some q /\ (0 <= q)%Qc.
Proof.
  destruct v as [z|x|b| | | | |]; cbn; try contradiction.
  - intro H. exists (qz z). split; [reflexivity | apply qz_nonneg; exact H].
  - destruct x; try contradiction. intro H. exists q. auto.
  - intros _. exists (qz (if b then 1 else 0)). split; [reflexivity|]. apply qz_nonneg. destruct b; lia.
Qed.

Lemma arith_add_fnn a b v : fnn a -> fnn b -> arith Add a b = Ok v -> fnn v.
Proof.
  intros Ha Hb. destruct a as [x|[|p| |]|x| | | | |], b as [y|[|q| |]|y| | | | |]; cbn in *; try contradiction;
    intro H; try discriminate; injection H as <-; cbn;
    repeat match goal with |- context [if ?c then _ else _] => destruct c end;
    try lia; try (pose proof (qz_nonneg _ Ha)); try (pose proof (qz_nonneg _ Hb));
    try (unfold xz in *; cbn);
    try (assert (0 <= qz 1)%Qc by (apply qz_nonneg; lia)); try (assert (0 <= qz 0)%Qc by (apply qz_nonneg; lia));
    try qlra.
Qed.

Lemma arith_mul_fnn a b v : fnn a -> fnn b -> arith Mul a b = Ok v -> fnn v.
Proof.
  intros Ha Hb. destruct a as [x|[|p| |]|x| | | | |], b as [y|[|q| |]|y| | | | |]; cbn in *; try contradiction;
    intro H; try discriminate; injection H as <-; cbn;
    repeat match goal with |- context [if ?c then _ else _] => destruct c end;
    try nia; try (pose proof (qz_nonneg _ Ha)); try (pose proof (qz_nonneg _ Hb));
    try (unfold xz in *; cbn);
    try (assert (0 <= qz 1)%Qc by (apply qz_nonneg; lia)); try (assert (0 <= qz 0)%Qc by (apply qz_nonneg; lia));
    try qnra.
Qed.

Lemma qdiv_nonneg (p q : Qc) : (0 <= p)%Qc -> (0 <= q)%Qc -> q <> 0%Qc -> (0 <= p / q)%Qc.
Proof.
  intros Hp Hq Hn. assert (Hpos : (0 < q)%Qc).
  { destruct (Qclt_le_dec 0 q) as [H|H]; [exact H|]. exfalso. apply Hn. apply Qcle_antisym; assumption. }
  assert (Hi : (0 < / q)%Qc).
  { destruct (Qclt_le_dec 0 (/ q)) as [H|H]; [exact H|exfalso].
    assert (E : (q * / q = 1)%Qc) by (apply Qcmult_inv_r; exact Hn).
    assert ((q * / q <= 0)%Qc) by qnra. rewrite E in H0. qlra. }
  unfold Qcdiv. set (i := / q) in *. clearbody i. qnra.
Qed.

Lemma arith_div_fnn a b v : fnn a -> fnn b -> arith Div a b = Ok v -> fnn v.
Proof.
  intros Ha Hb H. destruct (fnn_fq a Ha) as (p & Ep & Hp). destruct (fnn_fq b Hb) as (q & Eq & Hq).
  unfold arith in H.
  assert (Na : exists n, as_num a = Some n /\ num_x n = XFin p).
  { destruct a as [x|[|p'| |]|x| | | | |]; cbn in *; try discriminate; injection Ep as <-; eexists; split; reflexivity. }
  assert (Nb : exists n, as_num b = Some n /\ num_x n = XFin q).
  { destruct b as [x|[|q'| |]|x| | | | |]; cbn in *; try discriminate; injection Eq as <-; eexists; split; reflexivity. }
  destruct Na as (na & Ea & Xa). destruct Nb as (nb & Eb & Xb). rewrite Ea, Eb, Xa, Xb in H.
  cbn [xq_div] in H. destruct (Qceqb q 0) eqn:E0; [discriminate|]. injection H as <-. cbn.
  apply qdiv_nonneg; try assumption. intro E. apply Qceqb_iff in E. congruence.
Qed.

(* max / min of two finite non-negative values is one of them *)
Lemma fold_best2 better a b v : fold_best better a [b] = Ok v -> v = a \/ v = b.
Proof.
  cbn. destruct (better b a) as [c|]; cbn; [|discriminate]. destruct c; intro H; injection H as <-; auto.
Qed.

Definition finv (v : val) : Prop :=
  match v with VInt _ | VBool _ | VFloat (XFin _) => True | _ => False end.

Lemma fnn_finv v : fnn v -> finv v.
Proof. destruct v as [z|[|q| |]|b| | | | |]; cbn; auto. Qed.

Lemma fin_b_sound v : (match v with VInt _ | VBool _ | VFloat (XFin _) => true | _ => false end) = true -> finv v.
Proof. destruct v as [z|[|q| |]|b| | | | |]; cbn; auto; discriminate. Qed.

Lemma arith_fin op a b v :
  (op = Add \/ op = Sub \/ op = Mul \/ op = Div) -> finv a -> finv b -> arith op a b = Ok v -> finv v.
Proof.
  intros Hop Ha Hb H.
  destruct a as [x|[|p| |]|x| | | | |]; try contradiction; destruct b as [y|[|q| |]|y| | | | |]; try contradiction;
    destruct Hop as [->|[->|[->| ->]]]; cbn in H;
    repeat match type of H with context [if ?c then _ else _] => destruct c end;
    try discriminate; injection H as <-; exact I.
Qed.

Lemma neg_fin a v : finv a -> neg a = Ok v -> finv v.
Proof. destruct a as [x|[|p| |]|x| | | | |]; try contradiction; cbn; intros _ H; injection H as <-; exact I. Qed.

(* comparison of finite numbers is comparison of their rational values *)
Lemma fq_finv v : finv v -> exists q, fq v = Some q.
Proof. destruct v as [z|[|q| |]|b| | | | |]; try contradiction; intros _; eexists; reflexivity. Qed.

Lemma Zltb_qz p q : Z.ltb p q = Qcltb (qz p) (qz q).
Proof.
  destruct (Z.ltb_spec p q) as [H|H].
  - symmetry. apply Qcltb_iff. apply (proj1 (qz_lt p q)). exact H.
  - symmetry. apply Qcltb_false_iff. apply (proj1 (qz_le q p)). exact H.
Qed.

Lemma lt_val_fin x y qx qy : fq x = Some qx -> fq y = Some qy -> lt_val x y = Ok (Qcltb qx qy).
Proof.
  destruct x as [p|[|p| |]|p| | | | |]; try discriminate; destruct y as [q|[|q| |]|q| | | | |]; try discriminate;
    cbn; intros Hx Hy; injection Hx as <-; injection Hy as <-; unfold lt_val; cbn; try reflexivity;
    try (rewrite Zltb_qz; reflexivity).
Qed.

Lemma fq_fnn v q : fq v = Some q -> (0 <= q)%Qc -> fnn v.
Proof.
  destruct v as [z|[|p| |]|b| | | | |]; try discriminate; cbn; intro H; injection H as <-; intro Hq; auto.
  apply (proj2 (qz_le 0 z)). replace (qz 0) with 0%Qc by (apply Qc_is_canon; reflexivity). exact Hq.
Qed.

(* max(x, y) with one operand finite-non-negative and the other finite is finite-non-negative *)
Lemma max2_fnn x y r :
  apply_builtin BMax [x; y] = Ok r -> (fnn x /\ finv y) \/ (finv x /\ fnn y) -> fnn r.
Proof.
  intros H Hc.
  assert (Fx : finv x) by (destruct Hc as [[H1 _]|[H1 _]]; [apply fnn_finv|]; assumption).
  assert (Fy : finv y) by (destruct Hc as [[_ H1]|[_ H1]]; [|apply fnn_finv]; assumption).
  destruct (fq_finv x Fx) as [qx Ex]. destruct (fq_finv y Fy) as [qy Ey].
  cbn [apply_builtin py_max fold_best] in H. rewrite (lt_val_fin x y qx qy Ex Ey) in H. cbn [bind] in H.
  destruct (Qcltb qx qy) eqn:E; injection H as <-.
  - (* result y, x < y *)
    apply Qcltb_iff in E. destruct Hc as [[Hx _]|[_ Hy]]; [|exact Hy].
    destruct (fnn_fq x Hx) as (q & Eq & Hq). rewrite Ex in Eq. injection Eq as <-.
    apply (fq_fnn y qy Ey). qlra.
  - (* result x, y <= x *)
    apply Qcltb_false_iff in E. destruct Hc as [[Hx _]|[_ Hy]]; [exact Hx|].
    destruct (fnn_fq y Hy) as (q & Eq & Hq). rewrite Ey in Eq. injection Eq as <-.
    apply (fq_fnn x qx Ex). qlra.
Qed.

Section Sound.
  Variable call : string -> list val -> res val.
  Variable P : list (string * val).

  Lemma param_leaf_sound rho e v :
    (forall r pv, lookup r P = Some pv -> lookup r rho = Some pv) ->
    param_leaf_ok P e = true -> eval call rho e = Ok v -> fnn v.
  Proof.
    intros HP H Hev. unfold param_leaf_ok in H.
    destruct (path_of e) as [[r ks]|] eqn:Ep; [|discriminate].
    destruct (lookup r P) as [pv|] eqn:El; [|discriminate].
    destruct (path_get pv ks) as [w|] eqn:Eg; [|discriminate].
    rewrite (static_read_cannot_fail call rho e r ks pv w Ep (HP r pv El) Eg) in Hev.
    injection Hev as <-. apply fnn_b_sound. exact H.
  Qed.

  Lemma param_leaf_fin_sound rho e v :
    (forall r pv, lookup r P = Some pv -> lookup r rho = Some pv) ->
    param_leaf_fin P e = true -> eval call rho e = Ok v -> finv v.
  Proof.
    intros HP H Hev. unfold param_leaf_fin in H.
    destruct (path_of e) as [[r ks]|] eqn:Ep; [|discriminate].
    destruct (lookup r P) as [pv|] eqn:El; [|discriminate].
    destruct (path_get pv ks) as [w|] eqn:Eg; [|discriminate].
    rewrite (static_read_cannot_fail call rho e r ks pv w Ep (HP r pv El) Eg) in Hev.
    injection Hev as <-. apply fin_b_sound. exact H.
  Qed.

  Lemma eval_bin rho op a b : eval call rho (EBin op a b) = do x <- eval call rho a; do y <- eval call rho b; arith op x y.
  Proof. reflexivity. Qed.
  Lemma eval_builtin rho b args : eval call rho (EBuiltin b args) = do vs <- evals call rho args; apply_builtin b vs.
  Proof. reflexivity. Qed.
  Lemma evals_cons rho e r : evals call rho (ECons e r) = do v <- eval call rho e; do vs <- evals call rho r; Ok (v :: vs).
  Proof. reflexivity. Qed.

  Theorem fin_e_sound : forall e G rho v,
    (forall r pv, lookup r P = Some pv -> lookup r rho = Some pv) ->
    env_ok G rho -> fin_e P G e = true -> eval call rho e = Ok v -> finv v.
  Proof.
    induction e using expr_mut with (P0 := fun _ => True); try (intros; exact I); intros G rho v HP HG Hn Hev; cbn [fin_e] in Hn; try discriminate; auto.
    - cbn in Hev. injection Hev as <-. exact I.
    - cbn in Hev. injection Hev as <-. exact I.
    - cbn in Hev. injection Hev as <-. exact I.
    - cbn in Hev. destruct (HG x Hn) as (w & Hl & Hw). rewrite Hl in Hev. cbn in Hev. injection Hev as <-. apply fnn_finv. exact Hw.
    - rewrite eval_bin in Hev.
      destruct op; try discriminate; apply andb_true_iff in Hn; destruct Hn as [Ha Hb];
        destruct (eval call rho e1) as [x|] eqn:E1; try discriminate; cbn [bind] in Hev;
        destruct (eval call rho e2) as [y|] eqn:E2; try discriminate; cbn [bind] in Hev;
        (eapply arith_fin; [| apply (IHe1 G rho x HP HG Ha E1) | apply (IHe2 G rho y HP HG Hb E2) | exact Hev]); auto.
    - change (eval call rho (ENeg e)) with (do x <- eval call rho e; neg x) in Hev.
      destruct (eval call rho e) as [x|] eqn:E1; [|discriminate]. cbn [bind] in Hev.
      apply (neg_fin x v (IHe G rho x HP HG Hn E1) Hev).
    - change (eval call rho (ENot e)) with (do x <- eval call rho e; Ok (VBool (negb (truthy x)))) in Hev.
      destruct (eval call rho e); [|discriminate]. cbn in Hev. injection Hev as <-. exact I.
    - change (eval call rho (ECmp op e1 e2)) with (do x <- eval call rho e1; do y <- eval call rho e2; compare op x y) in Hev.
      destruct (eval call rho e1) as [x|]; [|discriminate]. cbn [bind] in Hev.
      destruct (eval call rho e2) as [y|]; [|discriminate]. cbn [bind] in Hev.
      unfold compare in Hev.
      destruct (as_num x), (as_num y); try (injection Hev as <-; exact I);
        destruct x, y; try discriminate; try (injection Hev as <-; exact I);
        destruct op; try discriminate; try (injection Hev as <-; exact I).
    - apply andb_true_iff in Hn. destruct Hn as [Ha Hb].
      change (eval call rho (EIfE e1 e2 e3)) with (do x <- eval call rho e1; if truthy x then eval call rho e2 else eval call rho e3) in Hev.
      destruct (eval call rho e1) as [c|]; [|discriminate]. cbn [bind] in Hev.
      destruct (truthy c); [apply (IHe2 G rho v HP HG Ha Hev) | apply (IHe3 G rho v HP HG Hb Hev)].
    - apply (param_leaf_fin_sound rho (ESub e1 e2) v HP Hn Hev).
  Qed.

  Definition sound_e (e : expr) : Prop := forall G rho v,
    (forall r pv, lookup r P = Some pv -> lookup r rho = Some pv) ->
    env_ok G rho -> nn_e P G e = true -> eval call rho e = Ok v -> fnn v.

  Fixpoint all_sound (es : exprs) : Prop :=
    match es with ENil => True | ECons e r => sound_e e /\ all_sound r end.

  Lemma all_sound_es es : all_sound es -> forall G rho vs,
    (forall r pv, lookup r P = Some pv -> lookup r rho = Some pv) ->
    env_ok G rho -> nn_es P G es = true -> evals call rho es = Ok vs -> Forall fnn vs.
  Proof.
    induction es as [|e r IH]; intros Hs G rho vs HP HG Hn Hev.
    - cbn in Hev. injection Hev as <-. constructor.
    - destruct Hs as [He Hr]. cbn [nn_es] in Hn. apply andb_true_iff in Hn. destruct Hn as [H1 H2].
      rewrite evals_cons in Hev. destruct (eval call rho e) as [x|] eqn:E1; [|discriminate]. cbn [bind] in Hev.
      destruct (evals call rho r) as [xs|] eqn:E2; [|discriminate]. cbn in Hev. injection Hev as <-.
      constructor; [apply (He G rho x HP HG H1 E1) | apply (IH Hr G rho xs HP HG H2 E2)].
  Qed.

  Theorem nn_sound : (forall e, sound_e e) /\ (forall es, all_sound es).
  Proof.
    apply expr_exprs_ind; unfold sound_e;
      try (intros; cbn [nn_e] in *; discriminate).
    - (* EInt *) intros z G rho v _ _ Hn Hev. cbn in Hev. injection Hev as <-. cbn. apply Z.leb_le. exact Hn.
    - (* EFloat *) intros q G rho v _ _ Hn Hev. cbn in Hev. injection Hev as <-. cbn. apply Qcleb_iff. exact Hn.
    - (* EBool *) intros b G rho v _ _ _ Hev. cbn in Hev. injection Hev as <-. exact I.
    - (* EVar *) intros x G rho v _ HG Hn Hev. cbn in Hn, Hev. destruct (HG x Hn) as (w & Hl & Hw). rewrite Hl in Hev.
      cbn in Hev. injection Hev as <-. exact Hw.
    - (* EBin *)
      intros op a IHa b IHb G rho v HP HG Hn Hev. rewrite eval_bin in Hev.
      destruct op; cbn [nn_e] in Hn; try discriminate; apply andb_true_iff in Hn; destruct Hn as [Ha Hb];
        destruct (eval call rho a) as [x|] eqn:E1; try discriminate; cbn [bind] in Hev;
        destruct (eval call rho b) as [y|] eqn:E2; try discriminate; cbn [bind] in Hev;
        pose proof (IHa G rho x HP HG Ha E1) as Fx; pose proof (IHb G rho y HP HG Hb E2) as Fy.
      + apply (arith_add_fnn x y v Fx Fy Hev).
      + apply (arith_mul_fnn x y v Fx Fy Hev).
      + apply (arith_div_fnn x y v Fx Fy Hev).
    - (* ENot *)
      intros a _ G rho v _ _ _ Hev.
      change (eval call rho (ENot a)) with (do x <- eval call rho a; Ok (VBool (negb (truthy x)))) in Hev.
      destruct (eval call rho a); [|discriminate]. cbn in Hev. injection Hev as <-. exact I.
    - (* EAnd *)
      intros a IHa b IHb G rho v HP HG Hn Hev. cbn [nn_e] in Hn. apply andb_true_iff in Hn. destruct Hn as [Ha Hb].
      change (eval call rho (EAnd a b)) with (do x <- eval call rho a; if truthy x then eval call rho b else Ok x) in Hev.
      destruct (eval call rho a) as [x|] eqn:E1; [|discriminate]. cbn [bind] in Hev.
      destruct (truthy x); [apply (IHb G rho v HP HG Hb Hev) | injection Hev as <-; apply (IHa G rho x HP HG Ha E1)].
    - (* EOr *)
      intros a IHa b IHb G rho v HP HG Hn Hev. cbn [nn_e] in Hn. apply andb_true_iff in Hn. destruct Hn as [Ha Hb].
      change (eval call rho (EOr a b)) with (do x <- eval call rho a; if truthy x then Ok x else eval call rho b) in Hev.
      destruct (eval call rho a) as [x|] eqn:E1; [|discriminate]. cbn [bind] in Hev.
      destruct (truthy x); [injection Hev as <-; apply (IHa G rho x HP HG Ha E1) | apply (IHb G rho v HP HG Hb Hev)].
    - (* ECmp *)
      intros op a _ b _ G rho v _ _ _ Hev.
      change (eval call rho (ECmp op a b)) with (do x <- eval call rho a; do y <- eval call rho b; compare op x y) in Hev.
      destruct (eval call rho a) as [x|]; [|discriminate]. cbn [bind] in Hev.
      destruct (eval call rho b) as [y|]; [|discriminate]. cbn [bind] in Hev.
      unfold compare in Hev.
      destruct (as_num x), (as_num y); try (injection Hev as <-; exact I);
        destruct x, y; try discriminate; try (injection Hev as <-; exact I);
        destruct op; try discriminate; try (injection Hev as <-; exact I).
    - (* EIfE *)
      intros c _ a IHa b IHb G rho v HP HG Hn Hev. cbn [nn_e] in Hn. apply andb_true_iff in Hn. destruct Hn as [Ha Hb].
      change (eval call rho (EIfE c a b)) with (do x <- eval call rho c; if truthy x then eval call rho a else eval call rho b) in Hev.
      destruct (eval call rho c) as [vc|]; [|discriminate]. cbn [bind] in Hev.
      destruct (truthy vc); [apply (IHa G rho v HP HG Ha Hev) | apply (IHb G rho v HP HG Hb Hev)].
    - (* ESub *)
      intros a _ k _ G rho v HP _ Hn Hev. apply (param_leaf_sound rho (ESub a k) v HP Hn Hev).
    - (* EBuiltin *)
      intros b args IH G rho v HP HG Hn Hev. rewrite eval_builtin in Hev.
      destruct (evals call rho args) as [vs|] eqn:Ev; [|discriminate]. cbn [bind] in Hev.
      destruct b; cbn [nn_e] in Hn; try discriminate.
      + (* BMin: both non-negative *)
        apply andb_true_iff in Hn. destruct Hn as [H2 Hn].
        pose proof (all_sound_es args IH G rho vs HP HG Hn Ev) as F.
        destruct args as [|a1 [|a2 [|? ?]]]; try discriminate.
        rewrite !evals_cons in Ev.
        destruct (eval call rho a1) as [x|]; try discriminate; cbn [bind] in Ev.
        destruct (eval call rho a2) as [y|]; try discriminate; cbn in Ev. injection Ev as <-.
        inversion F as [|? ? Fx F']; subst. inversion F' as [|? ? Fy _]; subst.
        cbn [apply_builtin py_min] in Hev.
        destruct (fold_best2 _ x y v Hev) as [->| ->]; assumption.
      + (* BMax: one operand non-negative, the other finite *)
        destruct args as [|a1 [|a2 [|? ?]]]; try discriminate.
        destruct IH as [S1 [S2 _]].
        rewrite !evals_cons in Ev.
        destruct (eval call rho a1) as [x|] eqn:E1; try discriminate; cbn [bind] in Ev.
        destruct (eval call rho a2) as [y|] eqn:E2; try discriminate; cbn in Ev. injection Ev as <-.
        apply (max2_fnn x y v Hev).
        apply orb_true_iff in Hn. destruct Hn as [Hn|Hn]; apply andb_true_iff in Hn; destruct Hn as [Ha Hb].
        * left. split; [apply (S1 G rho x HP HG Ha E1)|].
          apply orb_true_iff in Hb. destruct Hb as [Hb|Hb];
            [apply fnn_finv; apply (S2 G rho y HP HG Hb E2) | apply (fin_e_sound a2 G rho y HP HG Hb E2)].
        * right. split; [apply (fin_e_sound a1 G rho x HP HG Ha E1) | apply (S2 G rho y HP HG Hb E2)].
    - (* ENil *) exact I.
    - (* ECons *) intros e IHe r IHr. split; assumption.
  Qed.
End Sound.

Section SoundStmt.
  Variable call : string -> list val -> res val.
  Variable P : list (string * val).

  Definition params_bound (rho : env) : Prop := forall r pv, lookup r P = Some pv -> lookup r rho = Some pv.

  Lemma lookup_P_dom r pv : lookup r P = Some pv -> smem r (map fst P) = true.
  Proof.
    unfold smem. induction P as [|[k v] t IH]; cbn [lookup map fst existsb]; [discriminate|].
    destruct (String.eqb r k) eqn:E; [intros _; reflexivity|].
    intro H. rewrite (IH H). reflexivity.
  Qed.

  Lemma env_ok_filter G rho x v :
    env_ok G rho -> env_ok (filter (fun y => negb (String.eqb y x)) G) ((x, v) :: rho).
  Proof.
    intros H y Hy. apply smem_In in Hy. apply filter_In in Hy. destruct Hy as [Hy Hne].
    destruct (H y (proj2 (smem_In y G) Hy)) as (w & Hl & Hw). exists w. split; [|exact Hw].
    cbn. apply negb_true_iff in Hne. rewrite Hne. exact Hl.
  Qed.

  Lemma env_ok_cons G rho x v : env_ok G rho -> fnn v -> env_ok (x :: G) ((x, v) :: rho).
  Proof.
    intros H Hv y Hy. cbn. destruct (String.eqb y x) eqn:E.
    - exists v. auto.
    - cbn in Hy. rewrite E in Hy. cbn in Hy. apply H. exact Hy.
  Qed.

  Lemma params_bound_cons rho x v : params_bound rho -> smem x (map fst P) = false -> params_bound ((x, v) :: rho).
  Proof.
    intros H Hx r pv Hr. cbn. destruct (String.eqb r x) eqn:E; [|apply H; exact Hr].
    apply String.eqb_eq in E. subst. rewrite (lookup_P_dom x pv Hr) in Hx. discriminate.
  Qed.

  Lemma env_ok_inter G1 G2 rho : env_ok G1 rho -> env_ok (inter G1 G2) rho.
  Proof.
    intros H y Hy. apply smem_In in Hy. unfold inter in Hy. apply filter_In in Hy. destruct Hy as [Hy _].
    apply H. apply smem_In. exact Hy.
  Qed.

  Lemma env_ok_inter_r G1 G2 rho : env_ok G2 rho -> env_ok (inter G1 G2) rho.
  Proof.
    intros H y Hy. apply smem_In in Hy. unfold inter in Hy. apply filter_In in Hy. destruct Hy as [_ Hy]. apply H. exact Hy.
  Qed.

  (* every value a rule returns is finite and non-negative when the analysis says so *)
  Theorem nn_s_sound : forall s G rho G' ,
    params_bound rho -> env_ok G rho -> nn_s P G s = (G', true) ->
    match exec call rho s with
    | OReturn v => fnn v
    | ONormal rho' => env_ok G' rho' /\ params_bound rho'
    | OError _ => True
    end.
  Proof.
    induction s as [|a IHa b IHb|x e|x op e|c a IHa b IHb|e|er]; intros G rho G' HP HG Hn; cbn [nn_s] in Hn; cbn [exec].
    - injection Hn as <-. auto.
    - destruct (nn_s P G a) as [G1 r1] eqn:Ea. destruct (nn_s P G1 b) as [G2 r2] eqn:Eb.
      injection Hn as <- Hr. apply andb_true_iff in Hr. destruct Hr as [-> ->].
      specialize (IHa G rho G1 HP HG Ea). destruct (exec call rho a) as [rho1|v|er]; auto.
      destruct IHa as [HG1 HP1]. apply (IHb G1 rho1 G2 HP1 HG1 Eb).
    - destruct (smem x (map fst P)) eqn:Ex; [discriminate|].
      destruct (eval call rho e) as [v|] eqn:Ev; [|exact I].
      destruct (nn_e P G e) eqn:Ee; injection Hn as <-.
      + split; [|apply params_bound_cons; assumption]. apply env_ok_cons; [exact HG|].
        apply (proj1 (nn_sound call P) e G rho v HP HG Ee Ev).
      + split; [apply env_ok_filter; exact HG | apply params_bound_cons; assumption].
    - destruct (smem x (map fst P)) eqn:Ex; [discriminate|].
      destruct (lookup x rho) as [old|] eqn:El; [|exact I].
      destruct (eval call rho e) as [v|] eqn:Ev; [|exact I].
      destruct (arith op old v) as [r|] eqn:Ea; [|exact I].
      assert (Keep : forall Gx, Gx = filter (fun y => negb (String.eqb y x)) G -> env_ok Gx ((x, r) :: rho) /\ params_bound ((x, r) :: rho)).
      { intros Gx ->. split; [apply env_ok_filter; exact HG | apply params_bound_cons; assumption]. }
      destruct op; try (injection Hn as <-; apply Keep; reflexivity).
      + destruct (smem x G && nn_e P G e) eqn:Ec; injection Hn as <-; [|apply Keep; reflexivity].
        apply andb_true_iff in Ec. destruct Ec as [Hx He].
        destruct (HG x Hx) as (w & Hl & Hw). rewrite El in Hl. injection Hl as <-.
        pose proof (proj1 (nn_sound call P) e G rho v HP HG He Ev) as Fv.
        split; [|apply params_bound_cons; assumption].
        intros y Hy. cbn. destruct (String.eqb y x) eqn:E; [exists r; split; [reflexivity | apply (arith_add_fnn old v r Hw Fv Ea)] | apply HG; exact Hy].
      + destruct (smem x G && nn_e P G e) eqn:Ec; injection Hn as <-; [|apply Keep; reflexivity].
        apply andb_true_iff in Ec. destruct Ec as [Hx He].
        destruct (HG x Hx) as (w & Hl & Hw). rewrite El in Hl. injection Hl as <-.
        pose proof (proj1 (nn_sound call P) e G rho v HP HG He Ev) as Fv.
        split; [|apply params_bound_cons; assumption].
        intros y Hy. cbn. destruct (String.eqb y x) eqn:E; [exists r; split; [reflexivity | apply (arith_mul_fnn old v r Hw Fv Ea)] | apply HG; exact Hy].
    - destruct (nn_s P G a) as [G1 r1] eqn:Ea. destruct (nn_s P G b) as [G2 r2] eqn:Eb.
      injection Hn as <- Hr. apply andb_true_iff in Hr. destruct Hr as [-> ->].
      destruct (eval call rho c) as [vc|]; [|exact I].
      destruct (truthy vc).
      + specialize (IHa G rho G1 HP HG Ea). destruct (exec call rho a) as [rho1|v|er]; auto.
        destruct IHa as [H1 H2]. split; [apply env_ok_inter; exact H1 | exact H2].
      + specialize (IHb G rho G2 HP HG Eb). destruct (exec call rho b) as [rho1|v|er]; auto.
        destruct IHb as [H1 H2]. split; [apply env_ok_inter_r; exact H1 | exact H2].
    - injection Hn as <- He. destruct (eval call rho e) as [v|] eqn:Ev; [|exact I].
      apply (proj1 (nn_sound call P) e G rho v HP HG He Ev).
    - exact I.
  Qed.
End SoundStmt.

(* a rule is proved finite-non-negative when its body is, starting from the arguments known to be *)
Definition rule_nn (P : list (string * val)) (G : list string) (f : fundef) : bool :=
  match f_body f with
  | Some b => snd (nn_s P G b)
  | None => false
  end.
