(* PiecewiseProofs.v — the mathematical meaning of a piecewise-polynomial
   schedule, the proof that [pp_impl] (the model of
   _gettsim.piecewise_functions.piecewise_polynomial) computes it at every
   finite point (thresholds included), and reflective shape checkers
   (Lipschitz/monotone, zero below the first threshold, convex, below a line)
   with soundness theorems. *)
From Coq Require Import ZArith QArith Qcanon Bool List Lia.
From GettsimModel Require Import Num Val Piecewise.
(* NumTac: the working Qc -> Q bridge tactics qc2q / qlra / qnra (exports Lqa) *)
From GettsimModel Require Import NumTac.
Import ListNotations.
Open Scope Qc_scope.

(* ================================================================== *)
(* 1. The mathematical schedule                                        *)

(* lower threshold, intercept there, rates by degree *)
Record qpiece := { p_t : Qc; p_c : Qc; p_rs : list Qc }.

Fixpoint qpoly (rs : list Qc) (pol : nat) (u : Qc) : Qc :=
  match rs with
  | [] => 0
  | r :: rest => r * qpow u pol + qpoly rest (S pol) u
  end.

Definition pval (p : qpiece) (x : Qc) : Qc :=
  p_c p + qpoly (p_rs p) 1 (x - p_t p).

(* the value of the piece whose half-open interval [t_k, t_{k+1}) contains x *)
Fixpoint ev (cur : qpiece) (rest : list qpiece) (x : Qc) : Qc :=
  match rest with
  | [] => pval cur x
  | p :: r => if Qcleb (p_t p) x then ev p r x else pval cur x
  end.

Definition ev0 (c0 : Qc) (ps : list qpiece) (x : Qc) : Qc :=
  match ps with
  | [] => c0
  | p :: r => if Qcleb (p_t p) x then ev p r x else c0
  end.

(* strictly increasing lower thresholds *)
Fixpoint pieces_sorted (ps : list qpiece) : bool :=
  match ps with
  | a :: ((b :: _) as r) => Qcltb (p_t a) (p_t b) && pieces_sorted r
  | _ => true
  end.

(* ================================================================== *)
(* 2. Computable conversion  sched -> (c0, pieces)                      *)

Fixpoint fin_list (l : list xq) : option (list Qc) :=
  match l with
  | [] => Some []
  | XFin q :: r =>
      match fin_list r with Some qs => Some (q :: qs) | None => None end
  | _ => None
  end.

Fixpoint fin_rows (l : list (list xq)) : option (list (list Qc)) :=
  match l with
  | [] => Some []
  | row :: r =>
      match fin_list row, fin_rows r with
      | Some q, Some qs => Some (q :: qs)
      | _, _ => None
      end
  end.

(* [t_1; ...; t_{n-1}; +inf]  |->  [t_1; ...; t_{n-1}] *)
Fixpoint parse_thr (l : list xq) : option (list Qc) :=
  match l with
  | XPosInf :: [] => Some []
  | XFin t :: r =>
      match parse_thr r with Some ts => Some (t :: ts) | None => None end
  | _ => None
  end.

(* piece j+1 (j = 0 .. n-2): lower threshold t_{j+1}, intercept icpt[j+1],
   rates rates[.][j+1] *)
Definition mk_piece (ts cs : list Qc) (rows : list (list Qc)) (j : nat) : qpiece :=
  {| p_t := nth j ts 0;
     p_c := nth (S j) cs 0;
     p_rs := map (fun row => nth (S j) row 0) rows |}.

Definition to_pieces (s : sched) : option (Qc * list qpiece) :=
  match thr s with
  | XNegInf :: tl =>
      match parse_thr tl, fin_list (icpt s), fin_rows (rates s) with
      | Some ts, Some cs, Some rows =>
          if Nat.eqb (length cs) (S (length ts))
             && forallb (fun row => Nat.eqb (length row) (S (length ts))) rows
          then Some (nth 0 cs 0, map (mk_piece ts cs rows) (seq 0 (length ts)))
          else None
      | _, _, _ => None
      end
  | _ => None
  end.

(* ---- inversion of the conversion ---- *)

Lemma fin_list_spec : forall l qs, fin_list l = Some qs -> l = map XFin qs.
Proof.
  induction l as [|a l IH]; intros qs H.
  - cbn in H. injection H as <-. reflexivity.
  - cbn [fin_list] in H. destruct a; try discriminate.
    destruct (fin_list l) as [qs'|]; try discriminate.
    injection H as <-. cbn [map]. f_equal. apply IH. reflexivity.
Qed.

Lemma fin_rows_spec : forall l rows, fin_rows l = Some rows -> l = map (map XFin) rows.
Proof.
  induction l as [|a l IH]; intros rows H.
  - cbn in H. injection H as <-. reflexivity.
  - cbn [fin_rows] in H.
    destruct (fin_list a) as [q|] eqn:Ea; try discriminate.
    destruct (fin_rows l) as [qs|]; try discriminate.
    injection H as <-. cbn [map]. f_equal.
    + apply fin_list_spec. exact Ea.
    + apply IH. reflexivity.
Qed.

Lemma parse_thr_spec : forall l ts, parse_thr l = Some ts -> l = map XFin ts ++ [XPosInf].
Proof.
  induction l as [|a l IH]; intros ts H.
  - cbn in H. discriminate.
  - cbn [parse_thr] in H. destruct a; try discriminate.
    + destruct (parse_thr l) as [ts'|]; try discriminate.
      injection H as <-. cbn [map app]. f_equal. apply IH. reflexivity.
    + destruct l; try discriminate. injection H as <-. reflexivity.
Qed.

Lemma to_pieces_inv s c0 ps :
  to_pieces s = Some (c0, ps) ->
  exists ts cs rows,
    thr s = XNegInf :: map XFin ts ++ [XPosInf]
    /\ icpt s = map XFin cs
    /\ rates s = map (map XFin) rows
    /\ length cs = S (length ts)
    /\ Forall (fun row => length row = S (length ts)) rows
    /\ c0 = nth 0 cs 0
    /\ ps = map (mk_piece ts cs rows) (seq 0 (length ts)).
Proof.
  unfold to_pieces. intro H.
  destruct (thr s) as [|a tl] eqn:Et; try discriminate.
  destruct a; try discriminate.
  destruct (parse_thr tl) as [ts|] eqn:Ep; try discriminate.
  destruct (fin_list (icpt s)) as [cs|] eqn:Ec; try discriminate.
  destruct (fin_rows (rates s)) as [rows|] eqn:Er; try discriminate.
  destruct (Nat.eqb (length cs) (S (length ts))
            && forallb (fun row => Nat.eqb (length row) (S (length ts))) rows) eqn:Eb;
    try discriminate.
  injection H as <- <-.
  apply andb_true_iff in Eb. destruct Eb as [E1 E2].
  apply Nat.eqb_eq in E1.
  exists ts, cs, rows.
  repeat split; try reflexivity.
  - f_equal. apply parse_thr_spec. exact Ep.
  - apply fin_list_spec. exact Ec.
  - apply fin_rows_spec. exact Er.
  - exact E1.
  - apply Forall_forall. intros row Hin.
    rewrite forallb_forall in E2. apply Nat.eqb_eq. apply E2. exact Hin.
Qed.

(* ================================================================== *)
(* 3. pp_impl computes ev0                                              *)

Definition cnt (ts : list Qc) (x : Qc) : nat :=
  length (filter (fun t => Qcleb t x) ts).
Definition cntp (ps : list qpiece) (x : Qc) : nat :=
  length (filter (fun p => Qcleb (p_t p) x) ps).

Lemma cnt_map_pt ps x : cnt (map p_t ps) x = cntp ps x.
Proof.
  unfold cnt, cntp. induction ps as [|p ps IH]; [reflexivity|].
  cbn [map filter]. destruct (Qcleb (p_t p) x); cbn [length]; congruence.
Qed.

Lemma cnt_le_length ts x : (cnt ts x <= length ts)%nat.
Proof.
  unfold cnt. induction ts as [|t ts IH]; [apply Nat.le_refl|].
  cbn [filter]. destruct (Qcleb t x); cbn [length]; lia.
Qed.

Lemma sorted_tail p r : pieces_sorted (p :: r) = true -> pieces_sorted r = true.
Proof.
  destruct r as [|q r]; [reflexivity|].
  cbn [pieces_sorted]. intro H. apply andb_true_iff in H. apply H.
Qed.

Lemma sorted_head p q r : pieces_sorted (p :: q :: r) = true -> p_t p < p_t q.
Proof.
  cbn [pieces_sorted]. intro H. apply andb_true_iff in H.
  apply Qcltb_iff. apply H.
Qed.

Lemma sorted_cnt0 x : forall r p,
  pieces_sorted (p :: r) = true -> x < p_t p -> cntp r x = 0%nat.
Proof.
  induction r as [|q r IH]; intros p Hs Hx; [reflexivity|].
  pose proof (sorted_head _ _ _ Hs) as Hpq.
  pose proof (sorted_tail _ _ Hs) as Hs'.
  assert (Hxq : x < p_t q) by (eapply Qclt_trans; eassumption).
  unfold cntp. cbn [filter].
  assert (E : Qcleb (p_t q) x = false) by (apply Qcleb_false_iff; exact Hxq).
  rewrite E. apply (IH q Hs' Hxq).
Qed.

Lemma ev_cnt x d : forall rest cur,
  pieces_sorted (cur :: rest) = true ->
  ev cur rest x = pval (nth (cntp rest x) (cur :: rest) d) x.
Proof.
  induction rest as [|p r IH]; intros cur Hs.
  - reflexivity.
  - cbn [ev]. unfold cntp. cbn [filter].
    destruct (Qcleb (p_t p) x) eqn:E.
    + cbn [length nth]. apply IH. apply (sorted_tail _ _ Hs).
    + apply Qcleb_false_iff in E.
      pose proof (sorted_cnt0 x r p (sorted_tail _ _ Hs) E) as H0.
      unfold cntp in H0. rewrite H0. reflexivity.
Qed.

Lemma ev0_cnt c0 ps x d :
  pieces_sorted ps = true ->
  ev0 c0 ps x = match cntp ps x with
                | O => c0
                | S j => pval (nth j ps d) x
                end.
Proof.
  intro Hs. destruct ps as [|p r]; [reflexivity|].
  cbn [ev0]. unfold cntp. cbn [filter].
  destruct (Qcleb (p_t p) x) eqn:E.
  - cbn [length]. apply ev_cnt. exact Hs.
  - apply Qcleb_false_iff in E.
    pose proof (sorted_cnt0 x r p Hs E) as H0.
    unfold cntp in H0. rewrite H0. reflexivity.
Qed.

Lemma list_index_nat {A} (l : list A) k d :
  (k < length l)%nat -> list_index l (Z.of_nat k) = Ok (nth k l d).
Proof.
  intro Hk. unfold list_index.
  assert (E : (Z.of_nat k <? 0)%Z = false) by (apply Z.ltb_ge; lia).
  rewrite E, E. rewrite Nat2Z.id.
  rewrite (nth_error_nth' l d Hk). reflexivity.
Qed.

Lemma search_right_thr x ts :
  search_right (XFin x) (XNegInf :: map XFin ts ++ [XPosInf]) = S (cnt ts x).
Proof.
  unfold search_right, cnt. cbn [filter xq_leb length]. f_equal.
  rewrite filter_app, app_length. cbn [filter xq_leb length].
  rewrite Nat.add_0_r.
  induction ts as [|t ts IH]; [reflexivity|].
  cbn [map filter xq_leb]. destruct (Qcleb t x); cbn [length]; congruence.
Qed.

Lemma qz_1 : qz 1 = 1.
Proof. reflexivity. Qed.

Lemma xq_pow_fin u : forall n, xq_pow (XFin u) n = XFin (qpow u n).
Proof.
  induction n as [|n IH].
  - reflexivity.
  - destruct n as [|n].
    + cbn [xq_pow qpow]. f_equal. ring.
    + change (xq_pow (XFin u) (S (S n))) with (xq_mul (XFin u) (xq_pow (XFin u) (S n))).
      rewrite IH. reflexivity.
Qed.

Lemma add_terms_fin k u : forall rows pol out,
  Forall (fun row => (k < length row)%nat) rows ->
  add_terms (map (map XFin) rows) pol (Z.of_nat k) (xz 1) (XFin u) (XFin out)
  = Ok (XFin (out + qpoly (map (fun row => nth k row 0) rows) pol u)).
Proof.
  induction rows as [|row rows IH]; intros pol out HF.
  - cbn [map add_terms qpoly]. do 2 f_equal. ring.
  - inversion HF as [|? ? Hk HF']; subst.
    cbn [map add_terms].
    rewrite (list_index_nat (map XFin row) k (XFin 0)) by (rewrite map_length; exact Hk).
    cbn [bind].
    rewrite (map_nth XFin row 0 k).
    rewrite xq_pow_fin. unfold xz. cbn [xq_mul xq_add].
    rewrite (IH _ _ HF'). cbn [qpoly]. do 2 f_equal. rewrite qz_1. ring.
Qed.

Lemma map_nth_seq {A} (d : A) : forall l : list A,
  map (fun j => nth j l d) (seq 0 (length l)) = l.
Proof.
  induction l as [|a l IH]; [reflexivity|].
  cbn [length seq map nth]. f_equal.
  rewrite <- seq_shift, map_map. exact IH.
Qed.

Lemma map_pt_mk ts cs rows :
  map p_t (map (mk_piece ts cs rows) (seq 0 (length ts))) = ts.
Proof.
  rewrite map_map. cbn [mk_piece p_t]. apply map_nth_seq.
Qed.

Lemma nth_mk ts cs rows j :
  (j < length ts)%nat ->
  nth j (map (mk_piece ts cs rows) (seq 0 (length ts))) (mk_piece ts cs rows 0)
  = mk_piece ts cs rows j.
Proof.
  intro Hj. rewrite (map_nth (mk_piece ts cs rows)).
  rewrite seq_nth by exact Hj. reflexivity.
Qed.

(* THE KEY THEOREM: evaluation returns the mathematical value at every
   finite point, thresholds included. *)
Theorem pp_impl_eq_spec : forall s c0 ps,
  to_pieces s = Some (c0, ps) -> pieces_sorted ps = true ->
  forall x : Qc, pp_impl s (XFin x) None = Ok (XFin (ev0 c0 ps x)).
Proof.
  intros s c0 ps Hto Hs x.
  destruct (to_pieces_inv _ _ _ Hto)
    as (ts & cs & rows & Hthr & Hic & Hra & Hlc & Hrows & Hc0 & Hps).
  rewrite (ev0_cnt c0 ps x (mk_piece ts cs rows 0) Hs).
  assert (Hcnt : cntp ps x = cnt ts x).
  { rewrite <- cnt_map_pt. rewrite Hps, map_pt_mk. reflexivity. }
  rewrite Hcnt.
  pose proof (cnt_le_length ts x) as Hle.
  unfold pp_impl. rewrite Hthr, Hic, Hra, search_right_thr.
  set (k := cnt ts x) in *.
  replace (Z.of_nat (S k) - 1)%Z with (Z.of_nat k) by lia.
  rewrite (list_index_nat (XNegInf :: map XFin ts ++ [XPosInf]) k (XFin 0))
    by (cbn [length]; rewrite app_length, map_length; cbn [length]; lia).
  cbn [bind].
  rewrite (list_index_nat (map XFin cs) k (XFin 0))
    by (rewrite map_length; lia).
  cbn [bind].
  rewrite (map_nth XFin cs 0 k).
  destruct k as [|j].
  - cbn [Z.of_nat Z.ltb Z.compare]. rewrite Hc0. reflexivity.
  - assert (E : (0 <? Z.of_nat (S j))%Z = true) by (apply Z.ltb_lt; lia).
    rewrite E.
    cbn [nth].
    rewrite app_nth1 by (rewrite map_length; lia).
    rewrite (map_nth XFin ts 0 j).
    cbn [xq_sub xq_neg xq_add].
    rewrite add_terms_fin.
    + rewrite Hps, nth_mk by lia. reflexivity.
    + eapply Forall_impl; [|exact Hrows].
      intros row Hr. cbn beta in Hr. lia.
Qed.
Print Assumptions pp_impl_eq_spec.

(* a concrete schedule: thresholds [-inf, 972, 1340.69, inf],
   rates [[0, 1/5, 11/200]], intercepts [0, 0, 73.738] *)
Definition ex_sched : sched :=
  {| thr := [XNegInf; XFin (qfrac 972 1); XFin (qfrac 134069 100); XPosInf];
     rates := [[XFin 0; XFin (qfrac 1 5); XFin (qfrac 11 200)]];
     icpt := [XFin 0; XFin 0; XFin (qfrac 36869 500)] |}.

Definition agree_at (s : sched) (x : Qc) : bool :=
  match to_pieces s with
  | Some (c0, ps) =>
      pieces_sorted ps
      && match pp_impl s (XFin x) None with
         | Ok v => xq_same v (XFin (ev0 c0 ps x))
         | Err _ => false
         end
  | None => false
  end.

Example ex_sched_agree :
  forallb (agree_at ex_sched)
    [qfrac 972 1; qfrac 1000 1; qfrac 134069 100; qfrac 2000 1; 0; qfrac (-5) 1] = true.
Proof. vm_compute. reflexivity. Qed.

Example ex_sched_values :
  match to_pieces ex_sched with
  | Some (c0, ps) =>
      Qceqb (ev0 c0 ps (qfrac 972 1)) 0
      && Qceqb (ev0 c0 ps (qfrac 1000 1)) (qfrac 28 5)
      && Qceqb (ev0 c0 ps (qfrac 134069 100)) (qfrac 36869 500)
      && Qceqb (ev0 c0 ps (qfrac 2000 1)) (qfrac 36869 500 + qfrac 11 200 * (qfrac 2000 1 - qfrac 134069 100))
      && Qceqb (ev0 c0 ps 0) 0
  | None => false
  end = true.
Proof. vm_compute. reflexivity. Qed.

(* ================================================================== *)
(* 4. Shape checkers for pieces of degree <= 2                          *)

Local Notation q2 := (1 + 1) (only parsing).

(* linear and quadratic rate (a missing rate counts as 0) *)
Definition p_r1 (p : qpiece) : Qc := nth 0 (p_rs p) 0.
Definition p_r2 (p : qpiece) : Qc := nth 1 (p_rs p) 0.
Definition deg2 (p : qpiece) : bool := Nat.leb (length (p_rs p)) 2.
Definition deg1 (p : qpiece) : bool := Nat.leb (length (p_rs p)) 1.

(* derivative of the piece at offset u from its lower threshold *)
Definition dsl (p : qpiece) (u : Qc) : Qc := p_r1 p + q2 * p_r2 p * u.

Lemma pval_quad p x :
  deg2 p = true ->
  pval p x = p_c p + p_r1 p * (x - p_t p) + p_r2 p * ((x - p_t p) * (x - p_t p)).
Proof.
  unfold deg2, pval, p_r1, p_r2. intro H. apply Nat.leb_le in H.
  destruct (p_rs p) as [|a [|b [|c l]]]; cbn [length] in H; try lia;
    cbn [qpoly qpow nth]; ring.
Qed.

Lemma pval_lin p x :
  deg1 p = true -> pval p x = p_c p + p_r1 p * (x - p_t p).
Proof.
  unfold deg1, pval, p_r1. intro H. apply Nat.leb_le in H.
  destruct (p_rs p) as [|a [|b l]]; cbn [length] in H; try lia;
    cbn [qpoly qpow nth]; ring.
Qed.

Lemma qpoly_0 : forall rs k, qpoly rs (S k) 0 = 0.
Proof.
  induction rs as [|r rs IH]; intro k; cbn [qpoly qpow]; [reflexivity|].
  rewrite IH. ring.
Qed.

Lemma pval_start p : pval p (p_t p) = p_c p.
Proof.
  unfold pval. replace (p_t p - p_t p) with 0 by ring.
  rewrite qpoly_0. ring.
Qed.

Lemma ev_start p r : pieces_sorted (p :: r) = true -> ev p r (p_t p) = p_c p.
Proof.
  intro Hs. destruct r as [|q r]; cbn [ev]; [apply pval_start|].
  pose proof (sorted_head _ _ _ Hs) as Hpq.
  assert (E : Qcleb (p_t q) (p_t p) = false) by (apply Qcleb_false_iff; exact Hpq).
  rewrite E. apply pval_start.
Qed.

(* ------------------------------------------------------------------ *)
(* 4.1 continuous, non-decreasing, marginal rate <= R                   *)

Fixpoint lip_pieces (R : Qc) (cur : qpiece) (rest : list qpiece) : bool :=
  deg2 cur && Qcleb 0 (p_r1 cur) && Qcleb (p_r1 cur) R &&
  match rest with
  | [] => Qceqb (p_r2 cur) 0
  | p :: r =>
      Qceqb (pval cur (p_t p)) (p_c p)
      && Qcleb 0 (dsl cur (p_t p - p_t cur))
      && Qcleb (dsl cur (p_t p - p_t cur)) R
      && lip_pieces R p r
  end.

Definition lipschitz_chk (R : Qc) (c0 : Qc) (ps : list qpiece) : bool :=
  Qcleb 0 R &&
  match ps with
  | [] => true
  | p :: r => Qceqb c0 (p_c p) && lip_pieces R p r
  end.

Lemma slope_between (a b w W lo hi : Qc) :
  0 <= w -> w <= W -> lo <= a -> a <= hi -> lo <= a + b * W -> a + b * W <= hi ->
  lo <= a + b * w /\ a + b * w <= hi.
Proof.
  intros Hw HwW Hlo Hhi HloW HhiW.
  destruct (Qclt_le_dec b 0) as [Hb|Hb]; split; qnra.
Qed.

Lemma quad_incr_bounds (c a b t L R x y : Qc) :
  t <= x -> x <= y -> y <= t + L ->
  0 <= a -> a <= R -> 0 <= a + q2 * b * L -> a + q2 * b * L <= R ->
  0 <= (c + a * (y - t) + b * ((y - t) * (y - t)))
       - (c + a * (x - t) + b * ((x - t) * (x - t)))
  /\ (c + a * (y - t) + b * ((y - t) * (y - t)))
       - (c + a * (x - t) + b * ((x - t) * (x - t))) <= R * (y - x).
Proof.
  intros Htx Hxy HyL Ha0 HaR HL0 HLR.
  assert (E : (c + a * (y - t) + b * ((y - t) * (y - t)))
              - (c + a * (x - t) + b * ((x - t) * (x - t)))
              = (y - x) * (a + b * ((x - t) + (y - t)))) by ring.
  rewrite E. clear E.
  assert (Hw0 : 0 <= (x - t) + (y - t)) by qlra.
  assert (HwW : (x - t) + (y - t) <= q2 * L) by qlra.
  assert (HL0' : 0 <= a + b * (q2 * L)) by (replace (a + b * (q2 * L)) with (a + q2 * b * L) by ring; exact HL0).
  assert (HLR' : a + b * (q2 * L) <= R) by (replace (a + b * (q2 * L)) with (a + q2 * b * L) by ring; exact HLR).
  destruct (slope_between a b _ _ 0 R Hw0 HwW Ha0 HaR HL0' HLR') as [S0 SR].
  set (sl := a + b * ((x - t) + (y - t))) in *.
  clearbody sl. clear Hw0 HwW HL0' HLR' HL0 HLR.
  split; qnra.
Qed.

Lemma piece_lip R cur L x y :
  deg2 cur = true -> 0 <= p_r1 cur -> p_r1 cur <= R ->
  0 <= dsl cur L -> dsl cur L <= R ->
  p_t cur <= x -> x <= y -> y <= p_t cur + L ->
  0 <= pval cur y - pval cur x /\ pval cur y - pval cur x <= R * (y - x).
Proof.
  intros Hd Ha0 HaR HL0 HLR Hx Hxy Hy.
  rewrite !pval_quad by exact Hd. unfold dsl in *.
  apply (quad_incr_bounds _ _ _ _ L); assumption.
Qed.

Lemma lip_ev R : forall rest cur,
  lip_pieces R cur rest = true -> pieces_sorted (cur :: rest) = true ->
  forall x y, p_t cur <= x -> x <= y ->
  0 <= ev cur rest y - ev cur rest x /\ ev cur rest y - ev cur rest x <= R * (y - x).
Proof.
  induction rest as [|p r IH]; intros cur Hc Hs x y Hx Hxy.
  - cbn [lip_pieces] in Hc. repeat rewrite andb_true_iff in Hc.
    destruct Hc as [[[Hd Ha0] HaR] Hb].
    apply Qceqb_iff in Hb. apply Qcleb_iff in Ha0. apply Qcleb_iff in HaR.
    cbn [ev]. rewrite !pval_quad by exact Hd. rewrite Hb.
    set (a := p_r1 cur) in *. clearbody a.
    split; qnra.
  - cbn [lip_pieces] in Hc. repeat rewrite andb_true_iff in Hc.
    destruct Hc as [[[Hd Ha0] HaR] [[[Hcont HL0] HLR] Hrec]].
    apply Qceqb_iff in Hcont. apply Qcleb_iff in Ha0. apply Qcleb_iff in HaR.
    apply Qcleb_iff in HL0. apply Qcleb_iff in HLR.
    pose proof (sorted_tail _ _ Hs) as Hs'.
    pose proof (sorted_head _ _ _ Hs) as Hlt.
    cbn [ev].
    destruct (Qcleb (p_t p) x) eqn:Ex; destruct (Qcleb (p_t p) y) eqn:Ey.
    + apply Qcleb_iff in Ex. apply (IH p Hrec Hs' x y Ex Hxy).
    + exfalso. apply Qcleb_iff in Ex. apply Qcleb_false_iff in Ey. qlra.
    + apply Qcleb_false_iff in Ex. apply Qcleb_iff in Ey.
      destruct (IH p Hrec Hs' (p_t p) y (Qcle_refl _) Ey) as [I0 IR].
      rewrite (ev_start p r Hs') in I0, IR. rewrite <- Hcont in I0, IR.
      assert (Hxt : x <= p_t p) by (apply Qclt_le_weak; exact Ex).
      assert (HtL : p_t p <= p_t cur + (p_t p - p_t cur)) by qlra.
      destruct (piece_lip R cur (p_t p - p_t cur) x (p_t p) Hd Ha0 HaR HL0 HLR Hx Hxt HtL)
        as [P0 PR].
      split; qlra.
    + apply Qcleb_false_iff in Ey.
      assert (HyL : y <= p_t cur + (p_t p - p_t cur)) by qlra.
      apply (piece_lip R cur (p_t p - p_t cur) x y Hd Ha0 HaR HL0 HLR Hx Hxy HyL).
Qed.

Theorem lipschitz_sound : forall R c0 ps,
  lipschitz_chk R c0 ps = true -> pieces_sorted ps = true ->
  forall x y, x <= y ->
  0 <= ev0 c0 ps y - ev0 c0 ps x /\ ev0 c0 ps y - ev0 c0 ps x <= R * (y - x).
Proof.
  intros R c0 ps Hc Hs x y Hxy.
  unfold lipschitz_chk in Hc. apply andb_true_iff in Hc. destruct Hc as [HR Hc].
  apply Qcleb_iff in HR.
  destruct ps as [|p r].
  - cbn [ev0]. split; qnra.
  - apply andb_true_iff in Hc. destruct Hc as [Hc0 Hc].
    apply Qceqb_iff in Hc0.
    cbn [ev0].
    destruct (Qcleb (p_t p) x) eqn:Ex; destruct (Qcleb (p_t p) y) eqn:Ey.
    + apply Qcleb_iff in Ex. apply (lip_ev R r p Hc Hs x y Ex Hxy).
    + exfalso. apply Qcleb_iff in Ex. apply Qcleb_false_iff in Ey. qlra.
    + apply Qcleb_false_iff in Ex. apply Qcleb_iff in Ey.
      destruct (lip_ev R r p Hc Hs (p_t p) y (Qcle_refl _) Ey) as [I0 IR].
      rewrite (ev_start p r Hs) in I0, IR. rewrite <- Hc0 in I0, IR.
      split; [exact I0|]. qnra.
    + split; qnra.
Qed.
Print Assumptions lipschitz_sound.

(* ------------------------------------------------------------------ *)
(* 4.2 zero up to and including the first threshold                     *)

(* NOTE: at x = t_1 the value is that of piece 1 at its own lower threshold,
   which is its intercept only if t_1 < t_2; since the requested soundness
   statement has no sortedness hypothesis, the checker tests [pieces_sorted]
   itself. *)
Definition zero_below_chk (c0 : Qc) (ps : list qpiece) : bool :=
  Qceqb c0 0 && pieces_sorted ps &&
  match ps with
  | [] => true
  | p :: _ => Qceqb (p_c p) 0
  end.

Theorem zero_below_sound : forall c0 ps,
  zero_below_chk c0 ps = true ->
  forall x, (match ps with [] => True | p :: _ => x <= p_t p end) ->
  ev0 c0 ps x = 0.
Proof.
  intros c0 ps Hc x Hx. unfold zero_below_chk in Hc.
  repeat rewrite andb_true_iff in Hc. destruct Hc as [[Hc0 Hs] Hp].
  apply Qceqb_iff in Hc0.
  destruct ps as [|p r]; cbn [ev0]; [exact Hc0|].
  apply Qceqb_iff in Hp.
  destruct (Qcleb (p_t p) x) eqn:Ex; [|exact Hc0].
  apply Qcleb_iff in Ex.
  assert (E : x = p_t p) by (apply Qcle_antisym; assumption).
  rewrite E, (ev_start p r Hs). exact Hp.
Qed.
Print Assumptions zero_below_sound.

(* ------------------------------------------------------------------ *)
(* 4.3 convexity                                                        *)

Fixpoint cvx_pieces (cur : qpiece) (rest : list qpiece) : bool :=
  deg2 cur && Qcleb 0 (p_r2 cur) &&
  match rest with
  | [] => true
  | p :: r =>
      Qceqb (pval cur (p_t p)) (p_c p)
      && Qcleb (dsl cur (p_t p - p_t cur)) (p_r1 p)
      && cvx_pieces p r
  end.

Definition convex_chk (c0 : Qc) (ps : list qpiece) : bool :=
  match ps with
  | [] => true
  | p :: r => Qceqb c0 (p_c p) && Qcleb 0 (p_r1 p) && cvx_pieces p r
  end.

(* right derivative *)
Fixpoint dev (cur : qpiece) (rest : list qpiece) (x : Qc) : Qc :=
  match rest with
  | [] => dsl cur (x - p_t cur)
  | p :: r => if Qcleb (p_t p) x then dev p r x else dsl cur (x - p_t cur)
  end.

Definition dev0 (ps : list qpiece) (x : Qc) : Qc :=
  match ps with
  | [] => 0
  | p :: r => if Qcleb (p_t p) x then dev p r x else 0
  end.

Lemma dsl_0 p : dsl p (p_t p - p_t p) = p_r1 p.
Proof. unfold dsl. ring. Qed.

Lemma dev_start p r : pieces_sorted (p :: r) = true -> dev p r (p_t p) = p_r1 p.
Proof.
  intro Hs. destruct r as [|q r]; cbn [dev]; [apply dsl_0|].
  pose proof (sorted_head _ _ _ Hs) as Hpq.
  assert (E : Qcleb (p_t q) (p_t p) = false) by (apply Qcleb_false_iff; exact Hpq).
  rewrite E. apply dsl_0.
Qed.

(* on one convex quadratic piece the tangent at y lies below the graph:
   q(w) - q(y) - q'(y)(w-y) = p_r2 (w-y)^2 *)
Lemma piece_tangent cur y w :
  deg2 cur = true -> 0 <= p_r2 cur ->
  dsl cur (y - p_t cur) * (w - y) <= pval cur w - pval cur y.
Proof.
  intros Hd Hb. rewrite !pval_quad by exact Hd. unfold dsl.
  set (a := p_r1 cur). set (b := p_r2 cur) in *. set (t := p_t cur). set (c := p_c cur).
  clearbody a b t c.
  assert (E : (c + a * (w - t) + b * ((w - t) * (w - t)))
              - (c + a * (y - t) + b * ((y - t) * (y - t)))
              - (a + q2 * b * (y - t)) * (w - y) = b * ((w - y) * (w - y))) by ring.
  assert (Hsq : 0 <= b * ((w - y) * (w - y))).
  { set (d := w - y). clearbody d. qnra. }
  rewrite <- E in Hsq. clear E. qlra.
Qed.

Lemma dsl_mono cur u v :
  0 <= p_r2 cur -> u <= v -> dsl cur u <= dsl cur v.
Proof. intros Hb Huv. unfold dsl. set (b := p_r2 cur) in *. clearbody b. qnra. Qed.

(* the derivative never drops below its value at the start of a piece *)
Lemma dev_ge_start : forall rest cur,
  cvx_pieces cur rest = true -> pieces_sorted (cur :: rest) = true ->
  forall y, p_t cur <= y -> p_r1 cur <= dev cur rest y.
Proof.
  induction rest as [|p r IH]; intros cur Hc Hs y Hy.
  - cbn [cvx_pieces] in Hc. repeat rewrite andb_true_iff in Hc.
    destruct Hc as [[Hd Hb] _]. apply Qcleb_iff in Hb.
    cbn [dev]. rewrite <- (dsl_0 cur). apply dsl_mono; [exact Hb|qlra].
  - cbn [cvx_pieces] in Hc. repeat rewrite andb_true_iff in Hc.
    destruct Hc as [[Hd Hb] [[Hcont Hjump] Hrec]].
    apply Qcleb_iff in Hb. apply Qcleb_iff in Hjump.
    pose proof (sorted_tail _ _ Hs) as Hs'.
    pose proof (sorted_head _ _ _ Hs) as Hlt.
    cbn [dev]. destruct (Qcleb (p_t p) y) eqn:Ey.
    + apply Qcleb_iff in Ey.
      pose proof (IH p Hrec Hs' y Ey) as H1.
      assert (H2 : dsl cur (p_t cur - p_t cur) <= dsl cur (p_t p - p_t cur))
        by (apply dsl_mono; [exact Hb|qlra]).
      rewrite dsl_0 in H2. qlra.
    + rewrite <- (dsl_0 cur) at 1. apply dsl_mono; [exact Hb|qlra].
Qed.

(* supporting line, w to the right of y *)
Lemma cvx_fwd : forall rest cur,
  cvx_pieces cur rest = true -> pieces_sorted (cur :: rest) = true ->
  forall y w, p_t cur <= y -> y <= w ->
  dev cur rest y * (w - y) <= ev cur rest w - ev cur rest y.
Proof.
  induction rest as [|p r IH]; intros cur Hc Hs y w Hy Hyw.
  - cbn [cvx_pieces] in Hc. repeat rewrite andb_true_iff in Hc.
    destruct Hc as [[Hd Hb] _]. apply Qcleb_iff in Hb.
    cbn [dev ev]. apply piece_tangent; assumption.
  - cbn [cvx_pieces] in Hc. repeat rewrite andb_true_iff in Hc.
    destruct Hc as [[Hd Hb] [[Hcont Hjump] Hrec]].
    apply Qcleb_iff in Hb. apply Qcleb_iff in Hjump. apply Qceqb_iff in Hcont.
    pose proof (sorted_tail _ _ Hs) as Hs'.
    cbn [dev ev].
    destruct (Qcleb (p_t p) y) eqn:Ey; destruct (Qcleb (p_t p) w) eqn:Ew.
    + apply Qcleb_iff in Ey. apply (IH p Hrec Hs' y w Ey Hyw).
    + exfalso. apply Qcleb_iff in Ey. apply Qcleb_false_iff in Ew. qlra.
    + apply Qcleb_false_iff in Ey. apply Qcleb_iff in Ew.
      pose proof (IH p Hrec Hs' (p_t p) w (Qcle_refl _) Ew) as H1.
      rewrite (dev_start p r Hs'), (ev_start p r Hs'), <- Hcont in H1.
      pose proof (piece_tangent cur y (p_t p) Hd Hb) as H2.
      assert (H3 : dsl cur (y - p_t cur) <= dsl cur (p_t p - p_t cur))
        by (apply dsl_mono; [exact Hb|qlra]).
      set (dy := dsl cur (y - p_t cur)) in *. clearbody dy.
      set (dL := dsl cur (p_t p - p_t cur)) in *. clearbody dL.
      set (a' := p_r1 p) in *. clearbody a'.
      set (t := p_t p) in *. clearbody t.
      set (fw := ev p r w) in *. clearbody fw.
      set (ft := pval cur t) in *. clearbody ft.
      set (fy := pval cur y) in *. clearbody fy.
      clear - Ey Ew H1 H2 H3 Hjump.
      qnra.
    + apply piece_tangent; assumption.
Qed.

(* supporting line, w to the left of y *)
Lemma cvx_bwd : forall rest cur,
  cvx_pieces cur rest = true -> pieces_sorted (cur :: rest) = true ->
  forall w y, p_t cur <= w -> w <= y ->
  ev cur rest y - ev cur rest w <= dev cur rest y * (y - w).
Proof.
  induction rest as [|p r IH]; intros cur Hc Hs w y Hw Hwy.
  - cbn [cvx_pieces] in Hc. repeat rewrite andb_true_iff in Hc.
    destruct Hc as [[Hd Hb] _]. apply Qcleb_iff in Hb.
    cbn [dev ev]. pose proof (piece_tangent cur y w Hd Hb) as H.
    set (dy := dsl cur (y - p_t cur)) in *. clearbody dy. qnra.
  - pose proof Hc as Hc'.
    cbn [cvx_pieces] in Hc. repeat rewrite andb_true_iff in Hc.
    destruct Hc as [[Hd Hb] [[Hcont Hjump] Hrec]].
    apply Qcleb_iff in Hb. apply Qcleb_iff in Hjump. apply Qceqb_iff in Hcont.
    pose proof (sorted_tail _ _ Hs) as Hs'.
    cbn [dev ev].
    destruct (Qcleb (p_t p) w) eqn:Ew; destruct (Qcleb (p_t p) y) eqn:Ey.
    + apply Qcleb_iff in Ew. apply (IH p Hrec Hs' w y Ew Hwy).
    + exfalso. apply Qcleb_iff in Ew. apply Qcleb_false_iff in Ey. qlra.
    + apply Qcleb_false_iff in Ew. apply Qcleb_iff in Ey.
      pose proof (IH p Hrec Hs' (p_t p) y (Qcle_refl _) Ey) as H1.
      rewrite (ev_start p r Hs'), <- Hcont in H1.
      pose proof (piece_tangent cur (p_t p) w Hd Hb) as H2.
      pose proof (dev_ge_start r p Hrec Hs' y Ey) as H3.
      set (dy := dev p r y) in *. clearbody dy.
      set (dL := dsl cur (p_t p - p_t cur)) in *. clearbody dL.
      set (a' := p_r1 p) in *. clearbody a'.
      set (t := p_t p) in *. clearbody t.
      set (fy := ev p r y) in *. clearbody fy.
      set (ft := pval cur t) in *. clearbody ft.
      set (fw := pval cur w) in *. clearbody fw.
      clear - Ey Ew H1 H2 H3 Hjump.
      qnra.
    + pose proof (piece_tangent cur y w Hd Hb) as H.
      set (dy := dsl cur (y - p_t cur)) in *. clearbody dy. qnra.
Qed.

(* supporting line through (y, f y) with slope the right derivative at y *)
Lemma cvx_support c0 ps :
  convex_chk c0 ps = true -> pieces_sorted ps = true ->
  forall y w, dev0 ps y * (w - y) <= ev0 c0 ps w - ev0 c0 ps y.
Proof.
  intros Hc Hs y w. destruct ps as [|p r].
  - cbn [dev0 ev0]. qnra.
  - unfold convex_chk in Hc. repeat rewrite andb_true_iff in Hc.
    destruct Hc as [[Hc0 Ha] Hc]. apply Qceqb_iff in Hc0. apply Qcleb_iff in Ha.
    cbn [dev0 ev0].
    destruct (Qcleb (p_t p) y) eqn:Ey; destruct (Qcleb (p_t p) w) eqn:Ew.
    + apply Qcleb_iff in Ey. apply Qcleb_iff in Ew.
      destruct (Qclt_le_dec w y) as [Hwy|Hyw].
      * assert (Hwy' : w <= y) by (apply Qclt_le_weak; exact Hwy).
        pose proof (cvx_bwd r p Hc Hs w y Ew Hwy') as H.
        set (dy := dev p r y) in *. clearbody dy. qnra.
      * apply (cvx_fwd r p Hc Hs y w Ey Hyw).
    + apply Qcleb_iff in Ey. apply Qcleb_false_iff in Ew.
      pose proof (cvx_bwd r p Hc Hs (p_t p) y (Qcle_refl _) Ey) as H1.
      rewrite (ev_start p r Hs), <- Hc0 in H1.
      pose proof (dev_ge_start r p Hc Hs y Ey) as H2.
      set (dy := dev p r y) in *. clearbody dy.
      set (fy := ev p r y) in *. clearbody fy.
      set (t := p_t p) in *. clearbody t.
      set (a := p_r1 p) in *. clearbody a.
      clear - Ey Ew H1 H2 Ha. qnra.
    + apply Qcleb_false_iff in Ey. apply Qcleb_iff in Ew.
      pose proof (cvx_fwd r p Hc Hs (p_t p) w (Qcle_refl _) Ew) as H1.
      rewrite (dev_start p r Hs), (ev_start p r Hs), <- Hc0 in H1.
      set (fw := ev p r w) in *. clearbody fw.
      set (t := p_t p) in *. clearbody t.
      set (a := p_r1 p) in *. clearbody a.
      clear - Ey Ew H1 Ha. qnra.
    + qnra.
Qed.

Theorem convex_sound : forall c0 ps,
  convex_chk c0 ps = true -> pieces_sorted ps = true ->
  forall x y z, x < y -> y < z ->
  (ev0 c0 ps y - ev0 c0 ps x) * (z - y) <= (ev0 c0 ps z - ev0 c0 ps y) * (y - x).
Proof.
  intros c0 ps Hc Hs x y z Hxy Hyz.
  pose proof (cvx_support c0 ps Hc Hs y x) as H1.
  pose proof (cvx_support c0 ps Hc Hs y z) as H2.
  set (d := dev0 ps y) in *. clearbody d.
  set (fx := ev0 c0 ps x) in *. clearbody fx.
  set (fy := ev0 c0 ps y) in *. clearbody fy.
  set (fz := ev0 c0 ps z) in *. clearbody fz.
  clear - Hxy Hyz H1 H2.
  qc2q.
  assert (P1 : (0 <= ((this fx - this fy) - this d * (this x - this y)) * (this z - this y))%Q) by nra.
  assert (P2 : (0 <= ((this fz - this fy) - this d * (this z - this y)) * (this y - this x))%Q) by nra.
  nra.
Qed.
Print Assumptions convex_sound.

(* ------------------------------------------------------------------ *)
(* 4.4 piecewise LINEAR schedule below the line r*x + eps on x >= 0     *)

Definition qcmax (a b : Qc) : Qc := if Qcleb a b then b else a.

Lemma qcmax_lub a b x : a <= x -> b <= x -> qcmax a b <= x.
Proof. intros Ha Hb. unfold qcmax. destruct (Qcleb a b); assumption. Qed.

(* For the piece [cur] with next threshold t: nothing to check if t <= 0
   (the piece has no point x >= 0); otherwise the piece meets [0, inf) in
   [a, t) with a = max(0, p_t cur), and being linear it is below the line
   iff it is at a and (in the limit) at t.  The last piece is below the line
   on [a, inf) iff it is at a and its slope is <= r. *)
Fixpoint lin_pieces (r eps : Qc) (cur : qpiece) (rest : list qpiece) : bool :=
  deg1 cur &&
  match rest with
  | [] =>
      Qcleb (pval cur (qcmax 0 (p_t cur))) (r * qcmax 0 (p_t cur) + eps)
      && Qcleb (p_r1 cur) r
  | p :: rr =>
      (if Qcleb (p_t p) 0 then true
       else Qcleb (pval cur (qcmax 0 (p_t cur))) (r * qcmax 0 (p_t cur) + eps)
            && Qcleb (pval cur (p_t p)) (r * p_t p + eps))
      && lin_pieces r eps p rr
  end.

Definition le_linear_chk (r eps : Qc) (c0 : Qc) (ps : list qpiece) : bool :=
  match ps with
  | [] => Qcleb c0 eps && Qcleb 0 r
  | p :: rr =>
      (if Qcleb (p_t p) 0 then true
       else Qcleb c0 eps && Qcleb c0 (r * p_t p + eps))
      && lin_pieces r eps p rr
  end.

Lemma piece_lin_le r eps cur a t x :
  deg1 cur = true -> a <= x -> x <= t ->
  pval cur a <= r * a + eps -> pval cur t <= r * t + eps ->
  pval cur x <= r * x + eps.
Proof.
  intros Hd Hax Hxt. rewrite !pval_lin by exact Hd.
  set (c := p_c cur). set (s := p_r1 cur). set (t0 := p_t cur). clearbody c s t0.
  intros Ha Ht.
  destruct (Qclt_le_dec r s) as [Hrs|Hrs]; qnra.
Qed.

Lemma piece_lin_le_last r eps cur a x :
  deg1 cur = true -> a <= x ->
  pval cur a <= r * a + eps -> p_r1 cur <= r ->
  pval cur x <= r * x + eps.
Proof.
  intros Hd Hax. rewrite !pval_lin by exact Hd.
  set (c := p_c cur). set (s := p_r1 cur). set (t0 := p_t cur). clearbody c s t0.
  intros Ha Hs. qnra.
Qed.

Lemma lin_ev r eps : forall rest cur,
  lin_pieces r eps cur rest = true ->
  forall x, 0 <= x -> p_t cur <= x -> ev cur rest x <= r * x + eps.
Proof.
  induction rest as [|p rr IH]; intros cur Hc x Hx0 Hx.
  - cbn [lin_pieces] in Hc. repeat rewrite andb_true_iff in Hc.
    destruct Hc as [Hd [Ha Hs]]. apply Qcleb_iff in Ha. apply Qcleb_iff in Hs.
    cbn [ev].
    apply (piece_lin_le_last r eps cur (qcmax 0 (p_t cur)) x Hd
             (qcmax_lub _ _ _ Hx0 Hx) Ha Hs).
  - cbn [lin_pieces] in Hc. repeat rewrite andb_true_iff in Hc.
    destruct Hc as [Hd [Hchk Hrec]].
    cbn [ev]. destruct (Qcleb (p_t p) x) eqn:Ex.
    + apply Qcleb_iff in Ex. apply (IH p Hrec x Hx0 Ex).
    + apply Qcleb_false_iff in Ex.
      assert (E0 : Qcleb (p_t p) 0 = false) by (apply Qcleb_false_iff; qlra).
      rewrite E0 in Hchk. apply andb_true_iff in Hchk. destruct Hchk as [Ha Ht].
      apply Qcleb_iff in Ha. apply Qcleb_iff in Ht.
      apply (piece_lin_le r eps cur (qcmax 0 (p_t cur)) (p_t p) x Hd
               (qcmax_lub _ _ _ Hx0 Hx) (Qclt_le_weak _ _ Ex) Ha Ht).
Qed.

(* The sortedness hypothesis is kept for uniformity with the other soundness
   theorems; the proof does not need it. *)
Theorem le_linear_sound : forall r eps c0 ps,
  le_linear_chk r eps c0 ps = true -> pieces_sorted ps = true ->
  forall x, 0 <= x -> ev0 c0 ps x <= r * x + eps.
Proof.
  intros r eps c0 ps Hc _ x Hx0. destruct ps as [|p rr].
  - unfold le_linear_chk in Hc. apply andb_true_iff in Hc. destruct Hc as [Hc0 Hr].
    apply Qcleb_iff in Hc0. apply Qcleb_iff in Hr. cbn [ev0]. qnra.
  - unfold le_linear_chk in Hc. apply andb_true_iff in Hc. destruct Hc as [Hchk Hrec].
    cbn [ev0]. destruct (Qcleb (p_t p) x) eqn:Ex.
    + apply Qcleb_iff in Ex. apply (lin_ev r eps rr p Hrec x Hx0 Ex).
    + apply Qcleb_false_iff in Ex.
      assert (E0 : Qcleb (p_t p) 0 = false) by (apply Qcleb_false_iff; qlra).
      rewrite E0 in Hchk. apply andb_true_iff in Hchk. destruct Hchk as [Ha Ht].
      apply Qcleb_iff in Ha. apply Qcleb_iff in Ht.
      set (t := p_t p) in *. clearbody t.
      destruct (Qclt_le_dec r 0) as [Hr|Hr]; qnra.
Qed.
Print Assumptions le_linear_sound.

(* ================================================================== *)
(* 5. The checkers run (by vm_compute) on concrete schedules            *)

Definition run_chk (s : sched) (chk : Qc -> list qpiece -> bool) : bool :=
  match to_pieces s with
  | Some (c0, ps) => pieces_sorted ps && chk c0 ps
  | None => false
  end.

(* ex_sched: linear pieces with rates 0, 1/5, 11/200 (continuous, concave kink) *)
Example ex_sched_checks :
  run_chk ex_sched (lipschitz_chk (qfrac 1 5)) = true
  /\ run_chk ex_sched (lipschitz_chk (qfrac 1 10)) = false
  /\ run_chk ex_sched zero_below_chk = true
  /\ run_chk ex_sched convex_chk = false
  /\ run_chk ex_sched (le_linear_chk (qfrac 1 5) 0) = true
  /\ run_chk ex_sched (le_linear_chk (qfrac 1 10) 0) = true
  /\ run_chk ex_sched (le_linear_chk (qfrac 1 20) 0) = false
  /\ run_chk ex_sched (le_linear_chk (qfrac 1 20) (qfrac 7 1)) = false   (* last slope 11/200 > 1/20 *)
  /\ run_chk ex_sched (le_linear_chk (qfrac 11 200) 1) = true
  /\ run_chk ex_sched (le_linear_chk (qfrac 11 200) 0) = false.
Proof. vm_compute. repeat split; reflexivity. Qed.

(* a convex schedule with quadratic pieces and one piece below 0:
   thresholds [-inf, -5, 0, 10, 20, inf]
   f = 0 on (-inf,0), u^2/100 on [0,10), 1 + u/5 + u^2/200 on [10,20),
   7/2 + 3u/10 on [20, inf) *)
Definition ex_quad : sched :=
  {| thr := [XNegInf; XFin (qfrac (-5) 1); XFin 0; XFin (qfrac 10 1); XFin (qfrac 20 1); XPosInf];
     rates := [[XFin 0; XFin 0; XFin 0; XFin (qfrac 1 5); XFin (qfrac 3 10)];
               [XFin 0; XFin 0; XFin (qfrac 1 100); XFin (qfrac 1 200); XFin 0]];
     icpt := [XFin 0; XFin 0; XFin 0; XFin 1; XFin (qfrac 7 2)] |}.

Example ex_quad_checks :
  forallb (agree_at ex_quad)
    [qfrac (-7) 1; qfrac (-5) 1; qfrac (-1) 1; 0; qfrac 5 1; qfrac 10 1;
     qfrac 15 1; qfrac 20 1; qfrac 30 1] = true
  /\ run_chk ex_quad (lipschitz_chk (qfrac 3 10)) = true
  /\ run_chk ex_quad (lipschitz_chk (qfrac 1 4)) = false
  /\ run_chk ex_quad zero_below_chk = true
  /\ run_chk ex_quad convex_chk = true
  /\ run_chk ex_quad (le_linear_chk (qfrac 3 10) 0) = false   (* not piecewise linear *)
  /\ run_chk ex_quad (fun c0 ps => Qceqb (ev0 c0 ps (qfrac 15 1)) (qfrac 17 8)) = true.
Proof. vm_compute. repeat split; reflexivity. Qed.

(* ill-shaped inputs are rejected by the conversion *)
Example to_pieces_rejects :
  to_pieces {| thr := [XNegInf; XFin 0; XPosInf]; rates := [[XFin 0]]; icpt := [XFin 0; XFin 0] |} = None
  /\ to_pieces {| thr := [XNegInf; XFin 0; XPosInf]; rates := [[XFin 0; XFin 0]]; icpt := [XFin 0] |} = None
  /\ to_pieces {| thr := [XFin 0; XPosInf]; rates := [[XFin 0]]; icpt := [XFin 0] |} = None
  /\ to_pieces {| thr := [XNegInf; XFin 0]; rates := [[XFin 0]]; icpt := [XFin 0] |} = None
  /\ to_pieces {| thr := [XNegInf; XFin 0; XPosInf]; rates := [[XFin 0; XNaN]]; icpt := [XFin 0; XFin 0] |} = None
  /\ to_pieces {| thr := [XNegInf; XPosInf]; rates := [[XFin 0]]; icpt := [XFin 1] |} = Some (1, []).
Proof. vm_compute. repeat split; reflexivity. Qed.

(* pieces lying entirely below 0 are ignored by le_linear_chk:
   f = 50 on (-inf,-20), 50 - 5u on [-20,-10), 0 on [-10,5), u/2 on [5,inf) *)
Definition ex_neg : sched :=
  {| thr := [XNegInf; XFin (qfrac (-20) 1); XFin (qfrac (-10) 1); XFin (qfrac 5 1); XPosInf];
     rates := [[XFin 0; XFin (qfrac (-5) 1); XFin 0; XFin (qfrac 1 2)]];
     icpt := [XFin (qfrac 50 1); XFin (qfrac 50 1); XFin 0; XFin 0] |}.

Example ex_neg_checks :
  forallb (agree_at ex_neg)
    [qfrac (-30) 1; qfrac (-20) 1; qfrac (-15) 1; qfrac (-10) 1; 0; qfrac 5 1; qfrac 9 1] = true
  /\ run_chk ex_neg (le_linear_chk (qfrac 1 2) 0) = true
  /\ run_chk ex_neg (le_linear_chk (qfrac 1 4) 0) = false
  /\ run_chk ex_neg zero_below_chk = false
  /\ run_chk ex_neg (lipschitz_chk (qfrac 1 2)) = false.
Proof. vm_compute. repeat split; reflexivity. Qed.
