(* TableSound.v — property C16, end to end on the model: the dataflow of the abstract interpreter
   over the graph (ChkC16.a_nodes) is SOUND for the concrete engine (Table.run_table):
   if every supplied column has the documented length and its cells are described by the class of
   an input, then every cell of every computed column is described by the class the dataflow
   assigns to its node — in particular finite (a_fin) resp. finite and non-negative (a_nn) and
   within the proved bounds. *)
From Coq Require Import ZArith QArith Qcanon Bool String List Lia.
From GettsimModel Require Import Num NumTac Val Ast Piecewise Eval PolicyEnv Rounding Column Aggregation Groupings
     Engine Dag TimeConv ChkC08 Scalar Sign Itv Absint Table ChkC16 AggClosed.
Import ListNotations.
Open Scope string_scope.

Definition col_ok (a : aval) (c : column) : Prop := Forall (arel a) (col_vals c).

(* ---------------------------------------------------------------- *)
(* helpers                                                             *)

Lemma mapM_res_forall {A B} (f : A -> res B) (Pa : A -> Prop) (Pb : B -> Prop) :
  (forall a b, Pa a -> f a = Ok b -> Pb b) -> forall l ys, Forall Pa l -> mapM_res f l = Ok ys -> Forall Pb ys /\ length ys = length l.
Proof.
  intros Hf. induction l as [|a r IH]; intros ys F H; cbn in H.
  - injection H as <-. split; [constructor | reflexivity].
  - inversion F as [|? ? Fa Fr]; subst. destruct (f a) as [b|] eqn:Ea; cbn in H; [|discriminate].
    destruct (mapM_res f r) as [bs|] eqn:Er; cbn in H; [|discriminate]. injection H as <-.
    destruct (IH bs Fr eq_refl) as [F1 L1]. split; [constructor; [apply (Hf a b Fa Ea) | exact F1] | cbn; f_equal; exact L1].
Qed.

Lemma pack_col_ok t (B B' : aval) vs c :
  (forall v w, arel B v -> cast t v = Ok w -> arel B' w) ->
  pack t vs = Ok c -> Forall (arel B) vs -> col_ok B' c /\ col_len c = length vs.
Proof.
  intros Hc Hp F. destruct (pack_inv t vs c Hp) as (_ & ws & Hws & Hcv).
  destruct (mapM_res_forall (cast t) (arel B) (arel B') Hc vs ws F Hws) as [F' L].
  unfold col_ok. rewrite Hcv. split; [exact F'|]. rewrite <- col_vals_length, Hcv. exact L.
Qed.

Lemma get_all_cons x r e cs : get_all column (x :: r) e = Ok cs ->
  exists c cr, cs = c :: cr /\ tget column x e = Some c /\ get_all column r e = Ok cr.
Proof.
  cbn. destruct (tget column x e) as [c|]; [|discriminate]. destruct (get_all column r e) as [cr|]; cbn; [|discriminate].
  intro H. injection H as <-. exists c, cr. auto.
Qed.

Lemma get_all_nil e cs : get_all column [] e = Ok cs -> cs = [].
Proof. cbn. intro H. injection H as <-. reflexivity. Qed.


Lemma index_of_name_spec x : forall l i j, index_of_name x l i = Some j -> (i <= j)%nat /\ nth_error l (j - i) = Some x.
Proof.
  induction l as [|y r IH]; intros i j H; cbn in H; [discriminate|].
  destruct (String.eqb x y) eqn:E.
  - injection H as <-. apply String.eqb_eq in E. subst. rewrite Nat.sub_diag. split; [lia | reflexivity].
  - destruct (IH _ _ H) as [H1 H2]. split; [lia|]. replace (j - i)%nat with (Datatypes.S (j - Datatypes.S i)) by lia. exact H2.
Qed.

Lemma get_all_nth xs : forall e cs i x, get_all column xs e = Ok cs -> nth_error xs i = Some x ->
  exists c, nth_error cs i = Some c /\ tget column x e = Some c.
Proof.
  induction xs as [|y r IH]; intros e cs i x H Hi; [destruct i; discriminate|].
  destruct (get_all_cons y r e cs H) as (c & cr & -> & Hy & Hr).
  destruct i as [|i]; cbn in Hi.
  - injection Hi as <-. exists c. split; [reflexivity | exact Hy].
  - apply (IH e cr i x Hr Hi).
Qed.

Lemma get_all_length xs : forall e cs, get_all column xs e = Ok cs -> length cs = length xs.
Proof.
  induction xs as [|y r IH]; intros e cs H.
  - rewrite (get_all_nil e cs H). reflexivity.
  - destruct (get_all_cons y r e cs H) as (c & cr & -> & _ & Hr). cbn. f_equal. apply (IH e cr Hr).
Qed.

(* numpy's cast to the declared dtype, abstractly *)
Lemma cast_cls_sound t a v w : arel a v -> cast t v = Ok w -> arel (cast_cls t a) w.
Proof.
  intros Ha H. destruct t; cbn [cast_cls]; try exact I.
  - (* TInt *)
    destruct (itv_of a) as [i|] eqn:Ei; [|exact I]. destruct (itv_of_sound a i v Ei Ha) as (q & Eq & Hq).
    assert (Hz : exists z, w = VInt z /\ (0 <= q -> qz (qfloor q) <= qz z /\ qz z <= q)%Qc).
    { destruct v as [z|[|u| |]|b| | | | |]; try discriminate; cbn in Eq; injection Eq as <-; cbn in H; injection H as <-.
      - exists z. split; [reflexivity|]. intros _. rewrite qfloor_qz. split; qlra.
      - exists (qtrunc u). split; [reflexivity|]. intro Hu. unfold qtrunc.
        destruct (Qcltb u 0) eqn:E; [apply Qcltb_iff in E; exfalso; qlra|]. split; [qlra | apply qfloor_le].
      - exists (if b then 1 else 0)%Z. split; [reflexivity|]. intros _. rewrite qfloor_qz. split; qlra. }
    destruct Hz as (z & -> & Hz).
    destruct (nonneg i) eqn:En; [|exists (qz z); split; [reflexivity | apply inb_top]].
    pose proof (nonneg_ok i q En Hq) as Hq0. destruct (Hz Hq0) as [H1 H2].
    exists (qz z). split; [reflexivity|]. destruct Hq as [Hlo Hhi]. split; cbn.
    + unfold ole in *. destruct (lo i) as [l|]; cbn; [|exact I].
      pose proof (proj1 (qz_le _ _) (Qfloor_mono_c l q Hlo)). qlra.
    + unfold oge in *. destruct (hi i) as [h|]; [qlra | exact I].
  - (* TFloat *) apply (cast_float_keeps a v w); [|exact H].
    unfold norm. destruct (itv_of a) as [i|] eqn:Ei; [|exact I]. apply (itv_of_sound a i v Ei Ha).
  - (* TBool *) apply (cast_bool_is_bool v w H).
Qed.

Lemma round_to_nonneg0 base dir off x : (0 <= base -> 0 <= off -> 0 <= x -> 0 <= Rounding.round_to base dir off x)%Qc.
Proof.
  intros Hb Ho Hx. destruct (Qclt_le_dec 0 base) as [H|H]; [apply Rounding.round_nonneg; assumption|].
  assert (base = 0%Qc) by (apply Qcle_antisym; assumption). subst. unfold Rounding.round_to.
  replace (0 * qz (Rounding.round_steps dir (x / 0)) + off)%Qc with off by ring. exact Ho.
Qed.

Lemma spec_num_fnn b q : spec_num b = Some q -> fnn_b b = true -> (0 <= q)%Qc.
Proof.
  destruct b as [z|[|u| |]|bb| | | | |]; cbn; try discriminate; intros H F; injection H as <-.
  - apply qz_nonneg. apply Z.leb_le. exact F.
  - apply Qcleb_iff. exact F.
Qed.


(* ---- value-level closure facts used by the aggregate nodes ---- *)
Definition sum_out (i : itv) : aval := if nonneg i then AItv {| lo := lo i; hi := None |} else AFin.

Lemma sum_out_contains a i v : itv_of a = Some i -> arel a v -> arel (sum_out i) v.
Proof.
  intros Ei Ha. destruct (itv_of_sound a i v Ei Ha) as (q & Eq & Hq). unfold sum_out.
  destruct (nonneg i); exists q; (split; [exact Eq|]); [split; [exact (proj1 Hq) | exact I] | apply inb_top].
Qed.

Lemma sum_out_add i u w r : arel (sum_out i) u -> arel (sum_out i) w -> arith Add u w = Ok r -> arel (sum_out i) r.
Proof.
  unfold sum_out. destruct (nonneg i) eqn:En.
  - intros (p & Ep & Hp) (q & Eq & Hq) H. exists (p + q)%Qc. split; [apply (arith_fq_add u w r p q Ep Eq H)|].
    split; [|exact I]. cbn in *. unfold nonneg in En. destruct Hp as [Hp _]. destruct Hq as [Hq _].
    unfold ole in *. cbn in *. destruct (lo i) as [a|]; [|discriminate]. apply Qcleb_iff in En. qlra.
  - intros (p & Ep & _) (q & Eq & _) H. exists (p + q)%Qc. split; [apply (arith_fq_add u w r p q Ep Eq H) | apply inb_top].
Qed.

Lemma sum_out_zero_int i : arel (if nonneg i then ANN else AFin) (VInt 0).
Proof. destruct (nonneg i); exists (qz 0); (split; [reflexivity|]); [split; [cbn; apply qz_nonneg; lia | exact I] | apply inb_top]. Qed.

Lemma xq_max_sel a b : xq_max a b = a \/ xq_max a b = b.
Proof. destruct a, b; cbn; auto; destruct (Qcltb _ _); auto. Qed.
Lemma xq_min_sel a b : xq_min a b = a \/ xq_min a b = b.
Proof. destruct a, b; cbn; auto; destruct (Qcltb _ _); auto. Qed.
Lemma zmax_sel a b : Z.max a b = a \/ Z.max a b = b. Proof. lia. Qed.
Lemma zmin_sel a b : Z.min a b = a \/ Z.min a b = b. Proof. lia. Qed.

Lemma col_ints_length c l : col_ints c = Ok l -> length l = col_len c.
Proof. destruct c; cbn; try discriminate; intro H; injection H as <-; [reflexivity | apply map_length]. Qed.

Lemma guard_inv {A} g n (k : res A) r : guard g n k = Ok r -> length g = n /\ k = Ok r.
Proof.
  unfold guard. destruct (Nat.eqb (length g) n) eqn:E; cbn; [|discriminate]. destruct (keys_ok g); cbn; [|discriminate].
  intro H. split; [apply Nat.eqb_eq; exact E | exact H].
Qed.

Lemma forall_map {A B} (f : A -> B) (Q : B -> Prop) l : Forall (fun x => Q (f x)) l -> Forall Q (map f l).
Proof. intro F. apply Forall_forall. intros y Hy. apply in_map_iff in Hy. destruct Hy as (x & <- & Hx). rewrite Forall_forall in F. apply F. exact Hx. Qed.

Lemma forall_unmap {A B} (f : A -> B) (Q : B -> Prop) l : Forall Q (map f l) -> Forall (fun x => Q (f x)) l.
Proof. intro F. apply Forall_forall. intros x Hx. rewrite Forall_forall in F. apply F. apply in_map. exact Hx. Qed.


(* ---- lengths of the id builders ---- *)
Lemma couple_loop_length : forall rows m next, length (couple_loop rows m next) = length rows.
Proof.
  induction rows as [|[p q] r IH]; intros m next; cbn; [reflexivity|].
  destruct (if (0 <=? q)%Z then dget q m else None); cbn; f_equal; apply IH.
Qed.

Lemma sn_loop_length : forall rows m next l, sn_loop rows m next = Ok l -> length l = length rows.
Proof.
  induction rows as [|[[p q] gv] r IH]; intros m next l H; cbn in H.
  - injection H as <-. reflexivity.
  - destruct (if (0 <=? q)%Z then dget q m else None) as [[id gvq]|].
    + destruct (negb (Bool.eqb gv gvq)); [discriminate|]. destruct gv.
      * destruct (sn_loop r m next) as [rest|] eqn:E; cbn in H; [|discriminate]. injection H as <-. cbn. f_equal. apply (IH _ _ _ E).
      * destruct (sn_loop r _ _) as [rest|] eqn:E; cbn in H; [|discriminate]. injection H as <-. cbn. f_equal. apply (IH _ _ _ E).
    + destruct (sn_loop r _ _) as [rest|] eqn:E; cbn in H; [|discriminate]. injection H as <-. cbn. f_equal. apply (IH _ _ _ E).
Qed.

Lemma bg_loop_length : forall rows cnt, length (bg_loop rows cnt) = length rows.
Proof.
  induction rows as [|[[fg al] eb] r IH]; intro cnt; cbn; [reflexivity|].
  destruct ((al <? 25)%Z && eb); cbn; f_equal; apply IH.
Qed.

Lemma col_bools_length c l : col_bools c = Ok l -> length l = col_len c.
Proof. destruct c; cbn; try discriminate; intro H; injection H as <-; [apply map_length | reflexivity]. Qed.

Lemma col_ok_fin_int l : col_ok AFin (CInt l).
Proof. unfold col_ok. cbn. apply forall_map. apply Forall_forall. intros z _. exists (qz z). split; [reflexivity | apply inb_top]. Qed.

Lemma arel_top v : arel ATop v. Proof. exact I. Qed.

Lemma col_ok_top c : col_ok ATop c.
Proof. unfold col_ok. apply Forall_forall. intros; exact I. Qed.

Lemma norm_itv i : norm (AItv i) = AItv i. Proof. reflexivity. Qed.


Section TS.
  Variable ft : ftable.
  Variable P : params.
  Variable rounding : bool.
  Variable nrows : nat.
  Variable data : list string.

  (* every column of the table is described by the class of its name; columns with a class other
     than ATop have the length of the table *)
  Definition tab_ok (acc : list (string * aval)) (e : tbl column) : Prop :=
    forall x c, tget column x e = Some c ->
      col_ok (class_of data acc x) c /\ (class_of data acc x <> ATop -> col_len c = nrows).

  Definition node_sound (n : dnode) : Prop := forall acc e cs c,
    tab_ok acc e -> get_all column (d_args n) e = Ok cs -> sem ft P rounding nrows n cs = Ok c ->
    col_ok (node_aval ft P data acc n) c /\ (node_aval ft P data acc n <> ATop -> col_len c = nrows).

  Lemma class_of_cons_eq acc x a : class_of data ((x, a) :: acc) x = a.
  Proof. unfold class_of. cbn. rewrite String.eqb_refl. reflexivity. Qed.

  Lemma class_of_cons_neq acc x y a : String.eqb y x = false -> class_of data ((x, a) :: acc) y = class_of data acc y.
  Proof. intro H. unfold class_of. cbn. rewrite H. reflexivity. Qed.

  Theorem table_sound : forall S acc e t,
    (forall n, In n S -> node_sound n) -> tab_ok acc e ->
    run column (to_sys column (sem ft P rounding nrows) S) e = Ok t ->
    tab_ok (a_nodes ft P data S acc) t.
  Proof.
    induction S as [|n r IH]; intros acc e t HS He Hr; cbn in Hr.
    - injection Hr as <-. exact He.
    - unfold step in Hr at 1. cbn [nargs nop nm to_node] in Hr.
      destruct (get_all column (d_args n) e) as [cs|] eqn:Eg; cbn [bind] in Hr; [|discriminate].
      destruct (sem ft P rounding nrows n cs) as [c|] eqn:Es; cbn [bind] in Hr; [|discriminate].
      cbn [a_nodes]. apply (IH _ ((d_name n, c) :: e) t); [intros m Hm; apply HS; right; exact Hm | | exact Hr].
      destruct (HS n (or_introl eq_refl) acc e cs c He Eg Es) as [Hok Hlen].
      intros x c' Hx. cbn in Hx. destruct (String.eqb x (d_name n)) eqn:E.
      + apply String.eqb_eq in E. subst x. injection Hx as <-. rewrite class_of_cons_eq. split; assumption.
      + rewrite (class_of_cons_neq _ _ _ _ E). apply He. exact Hx.
  Qed.

  (* ---- unit conversion ---- *)
  Lemma node_sound_timeconv n num den : d_kind n = KTimeConv num den -> Sign.smem (d_name n) data = false -> node_sound n.
  Proof.
    intros Hk Hd acc e cs c He Eg Es. unfold node_aval. rewrite Hd, Hk. unfold sem in Es. rewrite Hk in Es.
    destruct (d_args n) as [|a [|? ?]]; try (split; [apply col_ok_top | intro H; contradiction]).
    destruct (get_all_cons a [] e cs Eg) as (ca & cr & -> & Ha & Hr). rewrite (get_all_nil e cr Hr) in *.
    destruct (itv_of (class_of data acc a)) as [i|] eqn:Ei; [|split; [apply col_ok_top | intro H; contradiction]].
    destruct (He a ca Ha) as [Hok Hlen].
    destruct (mapM_res (fun v => arith Mul v (VFloat (XFin (qfrac num den)))) (col_vals ca)) as [vs|] eqn:Em; cbn [bind] in Es; [|discriminate].
    destruct (mapM_res_forall _ (arel (class_of data acc a)) (arel (AItv (iscale (qfrac num den) i)))
               (fun v w Hv Hw => timeconv_scales num den i v w (itv_of_sound _ i v Ei Hv) Hw) (col_vals ca) vs Hok Em) as [F L].
    destruct (pack_col_ok TFloat (AItv (iscale (qfrac num den) i)) (AItv (iscale (qfrac num den) i)) vs c
                (fun v w Hv Hw => cast_float_keeps (AItv (iscale (qfrac num den) i)) v w Hv Hw) Es F) as [Hc Lc].
    split; [exact Hc|]. intros _. rewrite Lc, L, col_vals_length. apply Hlen. intro E. rewrite E in Ei. discriminate.
  Qed.

  (* ---- rounding of a column ---- *)
  Lemma round_cls_weaker g name a v : arel a v -> arel (round_cls P g name a) v.
  Proof.
    intro H. unfold round_cls. destruct (itv_of a) as [i|] eqn:Ei; [|exact I].
    destruct (itv_of_sound a i v Ei H) as (q & Eq & Hq).
    destruct (nonneg i && rounding_keeps_nonneg P g name) eqn:E.
    - apply andb_true_iff in E. destruct E as [En _]. exists q. split; [exact Eq | split; [apply (nonneg_ok i q En Hq) | exact I]].
    - destruct (rounding_keeps_fin P g name); [|exact I]. exists q. split; [exact Eq | apply inb_top].
  Qed.

  Lemma apply_rounding_sound g name a v w : arel a v -> apply_rounding P g name v = Ok w -> arel (round_cls P g name a) w.
  Proof.
    intros Ha H. unfold round_cls. destruct (itv_of a) as [i|] eqn:Ei; [|exact I].
    destruct (itv_of_sound a i v Ei Ha) as (q & Eq & Hq).
    unfold apply_rounding in H. unfold rounding_keeps_nonneg, rounding_keeps_fin.
    destruct (pget g P) as [gv|]; [|discriminate].
    destruct (path_get gv [KStr "rounding"; KStr name]) as [[| | | | | | |spec]|]; try discriminate.
    destruct (sget "base" spec) as [b|]; [|discriminate].
    destruct (sget "direction" spec) as [[| | | |dir| | |]|]; try discriminate.
    destruct (spec_num b) as [base|] eqn:Eb; [|discriminate]. destruct (parse_direction dir) as [d|]; [|discriminate].
    set (off := match sget "to_add_after_rounding" spec with
                | Some o => match spec_num o with Some q0 => q0 | None => 0%Qc end
                | None => 0%Qc end) in *.
    unfold Rounding.round_val in H.
    assert (N : exists n, as_num v = Some n /\ num_x n = XFin q).
    { destruct v as [z|[|u| |]|bb| | | | |]; try discriminate; cbn in Eq; injection Eq as <-; eexists; split; reflexivity. }
    destruct N as (n & En & Xn). rewrite En, Xn in H. cbn in H. injection H as <-.
    destruct (nonneg i && (fnn_b b && negb match b with VInt 0%Z => true | _ => false end &&
                           match sget "to_add_after_rounding" spec with Some o => fnn_b o | None => true end)) eqn:E.
    - apply andb_true_iff in E. destruct E as [Enn E]. apply andb_true_iff in E. destruct E as [E Eo].
      apply andb_true_iff in E. destruct E as [Efb _].
      exists (Rounding.round_to base d off q). split; [reflexivity|]. split; [|exact I]. cbn.
      apply round_to_nonneg0; [apply (spec_num_fnn b base Eb Efb) | | apply (nonneg_ok i q Enn Hq)].
      unfold off. destruct (sget "to_add_after_rounding" spec) as [o|]; [|qlra].
      destruct (spec_num o) as [qo|] eqn:Eqo; [apply (spec_num_fnn o qo Eqo Eo) | qlra].
    - destruct (fin_bv b && negb match b with VInt 0%Z => true | _ => false end &&
                match sget "to_add_after_rounding" spec with Some o => fin_bv o | None => true end); [|exact I].
      exists (Rounding.round_to base d off q). split; [reflexivity | apply inb_top].
  Qed.

  Lemma round_column_sound g name a c c' : col_ok a c -> round_column P g name c = Ok c' ->
    col_ok (round_cls P g name a) c' /\ col_len c' = col_len c.
  Proof.
    intros Hc H. unfold round_column in H.
    destruct (mapM_res (apply_rounding P g name) (col_vals c)) as [vs|] eqn:Em; cbn [bind] in H; [|discriminate].
    destruct (mapM_res_forall _ (arel a) (arel (round_cls P g name a)) (apply_rounding_sound g name a) (col_vals c) vs Hc Em) as [F L].
    assert (Hcast : forall v w, arel (round_cls P g name a) v -> cast TFloat v = Ok w -> arel (round_cls P g name a) w).
    { intros v w Hv Hw. unfold round_cls in *. destruct (itv_of a) as [i|]; [|exact I].
      destruct (nonneg i && rounding_keeps_nonneg P g name); [apply (cast_float_keeps ANN v w Hv Hw)|].
      destruct (rounding_keeps_fin P g name); [apply (cast_float_keeps AFin v w Hv Hw) | exact I]. }
    destruct (pack_col_ok TFloat _ _ vs c' Hcast H F) as [Hok Lc].
    split; [exact Hok | rewrite Lc, L, col_vals_length; reflexivity].
  Qed.

  (* ---- rule nodes ---- *)
  Definition row_rel (acc : list (string * aval)) (names : list string) (row : list val) : Prop :=
    forall i x v, nth_error names i = Some x -> nth_error row i = Some v -> arel (class_of data acc x) v.

  Lemma row_args_rel acc f names row args : row_rel acc names row -> row_args P f names row = Ok args ->
    Forall2 arel (map (fun a => if is_params_name (fst a)
                                then match pget (group_of (fst a)) P with Some v => APar v | None => ATop end
                                else class_of data acc (fst a)) (f_args f)) args.
  Proof.
    intros Hr. unfold row_args. generalize (f_args f). intros l. revert args.
    induction l as [|a r IH]; intros args H; cbn in H.
    - injection H as <-. constructor.
    - destruct (is_params_name (fst a)) eqn:Ep.
      + destruct (pget (group_of (fst a)) P) as [pv|] eqn:Eg; cbn in H; [|discriminate].
        destruct (mapM_res _ r) as [vs|] eqn:Er; cbn in H; [|discriminate]. injection H as <-.
        cbn [map]. rewrite Ep, Eg. constructor; [reflexivity | apply IH; reflexivity].
      + destruct (index_of_name (fst a) names 0) as [i|] eqn:Ei; [|discriminate].
        destruct (nth_error row i) as [v|] eqn:En; cbn in H; [|discriminate].
        destruct (mapM_res _ r) as [vs|] eqn:Er; cbn in H; [|discriminate]. injection H as <-.
        cbn [map]. rewrite Ep. constructor; [|apply IH; reflexivity].
        destruct (index_of_name_spec (fst a) names 0 i Ei) as [_ Hn]. rewrite Nat.sub_0_r in Hn.
        apply (Hr i (fst a) v Hn En).
  Qed.

  Lemma rows_rel acc e names cols : tab_ok acc e -> get_all column names e = Ok cols ->
    forall k row, nth_error (rows_of nrows cols) k = Some row -> row_rel acc names row.
  Proof.
    intros He Hg k row Hk i x v Hx Hv. unfold rows_of in Hk. rewrite nth_error_map in Hk.
    destruct (nth_error (seq 0 nrows) k) as [k'|] eqn:Es; [|discriminate]. cbn in Hk. injection Hk as <-.
    assert (Hk' : (k' < nrows)%nat) by (apply nth_error_In in Es; apply in_seq in Es; lia).
    unfold row_at in Hv. rewrite nth_error_map in Hv. rewrite nth_error_map in Hv.
    destruct (get_all_nth names e cols i x Hg Hx) as (c & Hc & Ht). rewrite Hc in Hv. cbn in Hv. injection Hv as <-.
    destruct (He x c Ht) as [Hok Hlen].
    destruct (class_of data acc x) eqn:Ecl; try exact I;
      (assert (Hl : col_len c = nrows) by (apply Hlen; discriminate);
       unfold col_ok in Hok; rewrite Forall_forall in Hok; apply Hok; apply nth_In; rewrite col_vals_length; lia).
  Qed.

  Lemma node_sound_rule n py skipvec rd : d_kind n = KRule py skipvec rd -> Sign.smem (d_name n) data = false -> node_sound n.
  Proof.
    intros Hk Hd acc e cs c He Eg Es. unfold node_aval. rewrite Hd, Hk. unfold sem in Es. rewrite Hk in Es.
    destruct skipvec; [discriminate|].
    destruct (flookup py ft) as [f|]; cbn [of_option bind] in Es; [|discriminate].
    destruct (annot_otype (f_ret f)) as [t|] eqn:Et; [|split; [apply col_ok_top | intro H; contradiction]].
    set (l := map (fun a => if is_params_name (fst a)
                            then match pget (group_of (fst a)) P with Some v => APar v | None => ATop end
                            else class_of data acc (fst a)) (f_args f)) in *.
    (* the column before rounding *)
    assert (Core : forall c0,
      match cs with
      | [] => do args <- row_args P f (d_args n) []; do v <- call_rule ft f args; pack t (repeat v nrows)
      | _ :: _ => vectorize_gen (Some t) (fun row => do args <- row_args P f (d_args n) row; call_rule ft f args) nrows cs
      end = Ok c0 -> col_ok (cast_cls t (rule_aval ft f l)) c0 /\ col_len c0 = nrows).
    { intros c0 H0. destruct cs as [|c1 cr].
      - destruct (row_args P f (d_args n) []) as [args|] eqn:Ea; cbn [bind] in H0; [|discriminate].
        destruct (call_rule ft f args) as [v|] eqn:Ev; cbn [bind] in H0; [|discriminate].
        assert (Hrel : Forall2 arel l args).
        { apply (row_args_rel acc f (d_args n) [] args); [|exact Ea]. intros i x w _ Hw. destruct i; discriminate. }
        pose proof (rule_aval_sound ft f l args v Hrel Ev) as Hv.
        destruct (pack_col_ok t _ _ (repeat v nrows) c0 (cast_cls_sound t (rule_aval ft f l)) H0) as [Hok Lc].
        { apply Forall_forall. intros w Hw. apply repeat_spec in Hw. subst. exact Hv. }
        split; [exact Hok | rewrite Lc; apply repeat_length].
      - destruct (vectorize_declared t _ nrows (c1 :: cr) c0 H0) as [_ Hcells].
        assert (Hlen : col_len c0 = nrows).
        { unfold vectorize_gen in H0. destruct (mapM_res _ (rows_of nrows (c1 :: cr))) as [vs|] eqn:Em; cbn [bind] in H0; [|discriminate].
          destruct (pack_inv t vs c0 H0) as (_ & ws & Hws & Hcv). rewrite <- col_vals_length, Hcv.
          rewrite (mapM_res_length _ _ _ Hws), (mapM_res_length _ _ _ Em). unfold rows_of. rewrite map_length, seq_length. reflexivity. }
        split; [|exact Hlen]. unfold col_ok. apply Forall_forall. intros w Hw.
        apply In_nth_error in Hw. destruct Hw as [k Hkw].
        assert (Hkn : (k < nrows)%nat) by (rewrite <- Hlen, <- col_vals_length; apply nth_error_Some; rewrite Hkw; discriminate).
        destruct (nth_error (rows_of nrows (c1 :: cr)) k) as [row|] eqn:Er.
        + destruct (Hcells k row Er) as (v & w' & Hf & Hc & Hn). rewrite Hkw in Hn. injection Hn as <-.
          destruct (row_args P f (d_args n) row) as [args|] eqn:Ea; cbn [bind] in Hf; [|discriminate].
          pose proof (row_args_rel acc f (d_args n) row args (rows_rel acc e (d_args n) (c1 :: cr) He Eg k row Er) Ea) as Hrel.
          apply (cast_cls_sound t _ v w (rule_aval_sound ft f l args v Hrel Hf) Hc).
        + exfalso. apply nth_error_None in Er. unfold rows_of in Er. rewrite map_length, seq_length in Er. lia. }

    destruct (match cs with
              | [] => do args <- row_args P f (d_args n) []; do v <- call_rule ft f args; pack t (repeat v nrows)
              | _ :: _ => vectorize_gen (Some t) (fun row => do args <- row_args P f (d_args n) row; call_rule ft f args) nrows cs
              end) as [c0|] eqn:E0; cbn [bind] in Es; [|discriminate].
    destruct (Core c0 eq_refl) as [Hok0 Hlen0].
    destruct rd as [g|].
    - destruct rounding.
      + destruct (round_column_sound g (d_name n) _ c0 c Hok0 Es) as [Hok Hl]. split; [exact Hok | intros _; rewrite Hl; exact Hlen0].
      + injection Es as <-. split; [|intros _; exact Hlen0].
        unfold col_ok in *. eapply Forall_impl; [|exact Hok0]. intros v Hv. apply round_cls_weaker. exact Hv.
    - injection Es as <-. split; [exact Hok0 | intros _; exact Hlen0].
  Qed.

  (* ---- group aggregates ---- *)
  Lemma known_len acc e x c : tab_ok acc e -> tget column x e = Some c -> a_known (class_of data acc x) = true -> col_len c = nrows.
  Proof. intros He Ht Hk. apply (proj2 (He x c Ht)). intro E. rewrite E in Hk. discriminate. Qed.

  Lemma itv_len acc e x c i : tab_ok acc e -> tget column x e = Some c -> itv_of (class_of data acc x) = Some i -> col_len c = nrows.
  Proof. intros He Ht Hi. apply (proj2 (He x c Ht)). intro E. rewrite E in Hi. discriminate. Qed.

  Lemma grouped_sum_sound a i c g out : itv_of a = Some i -> col_ok a c -> grouped_sum c g = Ok out ->
    col_ok (sum_out i) out /\ col_len out = col_len c.
  Proof.
    intros Ei Hc H. unfold grouped_sum in H. unfold col_ok in *.
    destruct c as [l|l|l|l]; try discriminate; destruct (guard_inv _ _ _ _ H) as [Hlen Hk]; injection Hk as <-; cbn [col_vals col_len] in *.
    - destruct (grouped_total_closed Z.add 0 g l (fun z => arel (sum_out i) (VInt z)) Hlen) as [F L].
      + apply forall_unmap. eapply Forall_impl; [|exact Hc]. intros v Hv. apply (sum_out_contains a i v Ei Hv).
      + intros x y Hx Hy. apply (sum_out_add i (VInt x) (VInt y) (VInt (x + y)) Hx Hy eq_refl).
      + split; [apply forall_map; exact F | rewrite L; exact Hlen].
    - destruct (grouped_total_closed xq_add (xz 0) g l (fun z => arel (sum_out i) (VFloat z)) Hlen) as [F L].
      + apply forall_unmap. eapply Forall_impl; [|exact Hc]. intros v Hv. apply (sum_out_contains a i v Ei Hv).
      + intros x y Hx Hy. apply (sum_out_add i (VFloat x) (VFloat y) (VFloat (xq_add x y)) Hx Hy eq_refl).
      + split; [apply forall_map; exact F | rewrite L; exact Hlen].
    - destruct (grouped_total_closed Z.add 0 g (map b2z l) (fun z => arel (sum_out i) (VInt z))) as [F L].
      + rewrite map_length. exact Hlen.
      + apply forall_map. apply forall_unmap in Hc. eapply Forall_impl; [|exact Hc]. intros b Hb. cbn beta in *.
        pose proof (sum_out_contains a i (VBool b) Ei Hb) as Hs. unfold sum_out in *.
        destruct (nonneg i); destruct Hs as (q & Eq & Hq); exists q; (split; [destruct b; exact Eq | exact Hq]).
      + intros x y Hx Hy. apply (sum_out_add i (VInt x) (VInt y) (VInt (x + y)) Hx Hy eq_refl).
      + split; [apply forall_map; exact F | rewrite L; exact Hlen].
  Qed.

  Lemma grouped_sel_sound (sel_z : Z -> Z -> Z) (sel_x : xq -> xq -> xq) a c g out :
    (forall x y, sel_z x y = x \/ sel_z x y = y) -> (forall x y, sel_x x y = x \/ sel_x x y = y) ->
    col_ok a c ->
    match c with
    | CInt l => guard g (col_len c) (Ok (CInt (grouped_total sel_z 0%Z g l)))
    | CFloat l => guard g (col_len c) (Ok (CFloat (grouped_total sel_x (xz 0) g l)))
    | CDate l => guard g (col_len c) (Ok (CDate (grouped_total sel_z 0%Z g l)))
    | CBool _ => Err EType
    end = Ok out -> col_ok a out /\ col_len out = col_len c.
  Proof.
    intros Hz Hx Hc H. unfold col_ok in *.
    destruct c as [l|l|l|l]; try discriminate; destruct (guard_inv _ _ _ _ H) as [Hlen Hk]; injection Hk as <-; cbn [col_vals col_len] in *.
    - destruct (grouped_total_closed sel_z 0%Z g l (fun z => arel a (VInt z)) Hlen (forall_unmap _ _ _ Hc)) as [F L].
      + intros x y Px Py. destruct (Hz x y) as [-> | ->]; assumption.
      + split; [apply forall_map; exact F | rewrite L; exact Hlen].
    - destruct (grouped_total_closed sel_x (xz 0) g l (fun z => arel a (VFloat z)) Hlen (forall_unmap _ _ _ Hc)) as [F L].
      + intros x y Px Py. destruct (Hx x y) as [-> | ->]; assumption.
      + split; [apply forall_map; exact F | rewrite L; exact Hlen].
    - destruct (grouped_total_closed sel_z 0%Z g l (fun z => arel a (VDate z)) Hlen (forall_unmap _ _ _ Hc)) as [F L].
      + intros x y Px Py. destruct (Hz x y) as [-> | ->]; assumption.
      + split; [apply forall_map; exact F | rewrite L; exact Hlen].
  Qed.

  Lemma forall_combine {A B} (Pa : A -> Prop) (Pb : B -> Prop) : forall (s : list A) (n : list B),
    Forall Pa s -> Forall Pb n -> Forall (fun sn => Pa (fst sn) /\ Pb (snd sn)) (combine s n).
  Proof.
    induction s as [|x r IH]; intros n Fs Fn; cbn; [constructor|]. destruct n as [|y n']; [constructor|].
    inversion Fs; inversion Fn; subst. constructor; [split; assumption | apply IH; assumption].
  Qed.

  Definition mean_out (i : itv) : aval := if nonneg i then ANN else AFin.

  Lemma grouped_mean_sound a i c g out : itv_of a = Some i -> col_ok a c -> grouped_mean c g = Ok out ->
    col_ok (mean_out i) out /\ col_len out = col_len c.
  Proof.
    intros Ei Hc H. unfold grouped_mean in H. unfold col_ok in *.
    destruct c as [l|l|l|l]; try discriminate. destruct (guard_inv _ _ _ _ H) as [Hlen Hk]. cbv zeta in Hk. injection Hk as <-.
    cbn [col_vals col_len] in *.
    destruct (grouped_total_closed xq_add (xz 0) g l (fun z => arel (sum_out i) (VFloat z)) Hlen) as [Fs Ls].
    { apply forall_unmap. eapply Forall_impl; [|exact Hc]. intros v Hv. apply (sum_out_contains a i v Ei Hv). }
    { intros x y Hx Hy. apply (sum_out_add i (VFloat x) (VFloat y) (VFloat (xq_add x y)) Hx Hy eq_refl). }
    pose proof (grouped_count_ge1 g) as Fn.
    assert (Ln : length (grouped_total Z.add 0%Z g (map (fun _ => 1%Z) g)) = length g)
      by (unfold grouped_total; rewrite map_length; apply grouped_length).
    split.
    - apply forall_map. apply forall_map.
      eapply Forall_impl; [|apply (forall_combine _ _ _ _ Fs Fn)]. intros [sv nv] [Hs Hn]. cbn [fst snd] in *. cbn beta in Hn, Hs.
      assert (Hq : (0 < qz nv)%Qc).
      { assert (H1 : (qz 0 < qz nv)%Qc) by (apply (proj1 (qz_lt 0 nv)); lia). replace (qz 0) with 0%Qc in H1 by (apply Qc_is_canon; reflexivity). exact H1. }
      assert (Hne : Qceqb (qz nv) 0 = false).
      { destruct (Qceqb (qz nv) 0) eqn:E; [|reflexivity]. apply Qceqb_iff in E. rewrite E in Hq. exfalso. qlra. }
      unfold sum_out, mean_out in *. destruct (nonneg i) eqn:Enn.
      + destruct Hs as (p & Ep & Hp). destruct sv as [|p'| |]; try discriminate. cbn in Ep. injection Ep as ->.
        unfold xq_div_tot, xz. cbn [xq_div]. rewrite Hne. exists (p / qz nv)%Qc. split; [reflexivity|]. split; [|exact I]. cbn.
        assert (Hp0 : (0 <= p)%Qc) by (apply (nonneg_ok {| lo := lo i; hi := None |} p); [exact Enn | exact Hp]).
        apply qdiv_nonneg; [exact Hp0 | qlra | intro E; rewrite E in Hq; qlra].
      + destruct Hs as (p & Ep & _). destruct sv as [|p'| |]; try discriminate. cbn in Ep. injection Ep as ->.
        unfold xq_div_tot, xz. cbn [xq_div]. rewrite Hne. exists (p / qz nv)%Qc. split; [reflexivity | apply inb_top].
    - rewrite map_length, combine_length, Ls, Ln. lia.
  Qed.

  Lemma grouped_bool_len c g out (f : list bool -> list bool) :
    (forall l, length (f l) = length g) ->
    match c with
    | CBool l => guard g (col_len c) (Ok (CBool (f l)))
    | CInt l => guard g (col_len c) (Ok (CBool (f (map (fun z => negb (z =? 0)%Z) l))))
    | _ => Err EType
    end = Ok out -> col_ok ABool out /\ col_len out = col_len c.
  Proof.
    intros Hf H. destruct c as [l|l|l|l]; try discriminate; destruct (guard_inv _ _ _ _ H) as [Hlen Hk]; injection Hk as <-;
      (split; [unfold col_ok; cbn [col_vals]; apply forall_map; apply Forall_forall; intros b _; apply abool_rel | cbn [col_len] in *; rewrite Hf; exact Hlen]).
  Qed.

  Lemma grouped_count_sound g out : grouped_count g = Ok out ->
    col_ok (AItv {| lo := Some (qz 1); hi := None |}) out /\ col_len out = length g.
  Proof.
    intro H. unfold grouped_count in H. destruct (guard_inv _ _ _ _ H) as [_ Hk]. injection Hk as <-. split.
    - unfold col_ok. cbn [col_vals]. apply forall_map. apply forall_map. eapply Forall_impl; [|apply (grouped_count_ge1 g)].
      intros z Hz. exists (qz z). split; [reflexivity|]. split; [cbn; apply (proj1 (qz_le 1 z)); exact Hz | exact I].
    - cbn [col_len]. rewrite map_length. unfold grouped_total. rewrite map_length. apply grouped_length.
  Qed.

  Lemma grouped_total_len {A} (op : A -> A -> A) d (g : list Z) (l : list A) : length (grouped_total op d g l) = length g.
  Proof. unfold grouped_total. rewrite map_length. apply grouped_length. Qed.

  Lemma col_ok_norm a c : col_ok a c -> col_ok (norm a) c.
  Proof.
    unfold norm. destruct (itv_of a) as [i|] eqn:Ei; [|intros; apply col_ok_top]. cbn [of_oitv].
    unfold col_ok. intro H. eapply Forall_impl; [|exact H]. intros v Hv. apply (itv_of_sound a i v Ei Hv).
  Qed.

  Lemma node_sound_groupagg n aggr : d_kind n = KGroupAgg aggr -> Sign.smem (d_name n) data = false -> node_sound n.
  Proof.
    intros Hk Hd acc e cs c He Eg Es. unfold node_aval. rewrite Hd, Hk. unfold sem in Es. rewrite Hk in Es.
    destruct (d_args n) as [|x1 [|x2 [|? ?]]]; try (split; [apply col_ok_top | intro H; contradiction]).
    - (* count *)
      destruct (get_all_cons x1 [] e cs Eg) as (g & cr & -> & Hg & Hr). rewrite (get_all_nil e cr Hr) in *.
      destruct (String.eqb aggr "count") eqn:Ec; cbn [andb]; [|split; [apply col_ok_top | intro H; contradiction]].
      destruct (a_known (class_of data acc x1)) eqn:Ek; [|split; [apply col_ok_top | intro H; contradiction]].
      destruct (col_ints g) as [ids|] eqn:Ei; cbn [bind] in Es; [|discriminate].
      destruct (grouped_count_sound ids c Es) as [Hok Hl]. split; [exact Hok|]. intros _.
      rewrite Hl, (col_ints_length g ids Ei). apply (known_len acc e x1 g He Hg Ek).
    - (* column aggregates *)
      destruct (get_all_cons x1 [x2] e cs Eg) as (src & cr & -> & Hsrc & Hr).
      destruct (get_all_cons x2 [] e cr Hr) as (g & cr' & -> & Hg & Hr'). rewrite (get_all_nil e cr' Hr') in *.
      destruct (col_ints g) as [ids|] eqn:Ei; cbn [bind] in Es; [|discriminate].
      destruct (He x1 src Hsrc) as [Hok Hlen].
      destruct (String.eqb aggr "sum") eqn:E1.
      { apply String.eqb_eq in E1. subst aggr. cbn.
        destruct (itv_of (class_of data acc x1)) as [i|] eqn:Eit; [|split; [apply col_ok_top | intro H; contradiction]].
        destruct (grouped_sum_sound _ i src ids c Eit Hok Es) as [H1 H2].
        split; [exact H1 | intros _; rewrite H2; apply (itv_len acc e x1 src i He Hsrc Eit)]. }
      destruct (String.eqb aggr "mean") eqn:E2.
      { apply String.eqb_eq in E2. subst aggr. cbn.
        destruct (itv_of (class_of data acc x1)) as [i|] eqn:Eit; [|split; [apply col_ok_top | intro H; contradiction]].
        destruct (grouped_mean_sound _ i src ids c Eit Hok Es) as [H1 H2].
        split; [exact H1 | intros _; rewrite H2; apply (itv_len acc e x1 src i He Hsrc Eit)]. }
      destruct (String.eqb aggr "max") eqn:E3.
      { apply String.eqb_eq in E3. subst aggr. cbn.
        destruct (grouped_sel_sound Z.max xq_max _ src ids c zmax_sel xq_max_sel (col_ok_norm _ _ Hok) Es) as [H1 H2].
        split; [exact H1 | intro Hn; rewrite H2; apply Hlen; intro E; apply Hn; rewrite E; reflexivity]. }
      destruct (String.eqb aggr "min") eqn:E4.
      { apply String.eqb_eq in E4. subst aggr. cbn.
        destruct (grouped_sel_sound Z.min xq_min _ src ids c zmin_sel xq_min_sel (col_ok_norm _ _ Hok) Es) as [H1 H2].
        split; [exact H1 | intro Hn; rewrite H2; apply Hlen; intro E; apply Hn; rewrite E; reflexivity]. }
      destruct (String.eqb aggr "any") eqn:E5.
      { apply String.eqb_eq in E5. subst aggr. cbn.
        destruct (a_known (class_of data acc x1)) eqn:Ek; [|split; [apply col_ok_top | intro H; contradiction]].
        destruct (grouped_bool_len src ids c (grouped_total orb false ids) (grouped_total_len orb false ids) Es) as [H1 H2].
        split; [exact H1 | intros _; rewrite H2; apply (known_len acc e x1 src He Hsrc Ek)]. }
      destruct (String.eqb aggr "all") eqn:E6.
      { apply String.eqb_eq in E6. subst aggr. cbn.
        destruct (a_known (class_of data acc x1)) eqn:Ek; [|split; [apply col_ok_top | intro H; contradiction]].
        destruct (grouped_bool_len src ids c (grouped_total andb true ids) (grouped_total_len andb true ids) Es) as [H1 H2].
        split; [exact H1 | intros _; rewrite H2; apply (known_len acc e x1 src He Hsrc Ek)]. }
      discriminate.
  Qed.

  (* ---- sums by person pointer ---- *)
  Lemma mean_out_contains a i v : itv_of a = Some i -> arel a v -> arel (mean_out i) v.
  Proof.
    intros Ei Ha. destruct (itv_of_sound a i v Ei Ha) as (q & Eq & Hq). unfold mean_out.
    destruct (nonneg i) eqn:En; exists q; (split; [exact Eq|]); [split; [exact (nonneg_ok i q En Hq) | exact I] | apply inb_top].
  Qed.

  Lemma mean_out_add i u w r : arel (mean_out i) u -> arel (mean_out i) w -> arith Add u w = Ok r -> arel (mean_out i) r.
  Proof.
    unfold mean_out. destruct (nonneg i).
    - apply (sum_out_add inn u w r).
    - apply (sum_out_add itop u w r).
  Qed.

  Lemma mean_out_zero i : arel (mean_out i) (VInt 0) /\ arel (mean_out i) (VFloat (xz 0)).
  Proof.
    unfold mean_out. split; destruct (nonneg i); exists (qz 0); (split; [reflexivity|]);
      try apply inb_top; (split; [cbn; apply qz_nonneg; lia | exact I]).
  Qed.

  Lemma sum_by_p_id_sound a i c ptr pids out : itv_of a = Some i -> col_ok a c -> sum_by_p_id c ptr pids = Ok out ->
    col_ok (mean_out i) out /\ col_len out = length pids.
  Proof.
    intros Ei Hc H. unfold sum_by_p_id in H. destruct (negb (Nat.eqb (length ptr) (col_len c))); [discriminate|].
    unfold col_ok in *. destruct (mean_out_zero i) as [Z0 F0].
    destruct c as [l|l|l|l]; try discriminate; cbn [col_vals] in *.
    - destruct (sum_by_p_id_list Z.add 0%Z l ptr pids) as [o|] eqn:E; cbn [bind] in H; [|discriminate]. injection H as <-.
      destruct (sum_by_p_id_closed Z.add 0%Z (fun z => arel (mean_out i) (VInt z)) (fun z => arel (mean_out i) (VInt z))
                 (fun x y Hx Hy => mean_out_add i (VInt x) (VInt y) (VInt (x + y)) Hx Hy eq_refl) l ptr pids o Z0) as [F L]; [|exact E|].
      + apply forall_unmap. eapply Forall_impl; [|exact Hc]. intros v Hv. apply (mean_out_contains a i v Ei Hv).
      + split; [cbn [col_vals]; apply forall_map; exact F | exact L].
    - destruct (sum_by_p_id_list xq_add (xz 0) l ptr pids) as [o|] eqn:E; cbn [bind] in H; [|discriminate]. injection H as <-.
      destruct (sum_by_p_id_closed xq_add (xz 0) (fun z => arel (mean_out i) (VFloat z)) (fun z => arel (mean_out i) (VFloat z))
                 (fun x y Hx Hy => mean_out_add i (VFloat x) (VFloat y) (VFloat (xq_add x y)) Hx Hy eq_refl) l ptr pids o F0) as [F L]; [|exact E|].
      + apply forall_unmap. eapply Forall_impl; [|exact Hc]. intros v Hv. apply (mean_out_contains a i v Ei Hv).
      + split; [cbn [col_vals]; apply forall_map; exact F | exact L].
    - destruct (sum_by_p_id_list Z.add 0%Z (map b2z l) ptr pids) as [o|] eqn:E; cbn [bind] in H; [|discriminate]. injection H as <-.
      destruct (sum_by_p_id_closed Z.add 0%Z (fun z => arel (mean_out i) (VInt z)) (fun z => arel (mean_out i) (VInt z))
                 (fun x y Hx Hy => mean_out_add i (VInt x) (VInt y) (VInt (x + y)) Hx Hy eq_refl) (map b2z l) ptr pids o Z0) as [F L]; [|exact E|].
      + apply forall_map. apply forall_unmap in Hc. eapply Forall_impl; [|exact Hc]. intros b Hb. cbn beta in *.
        pose proof (mean_out_contains a i (VBool b) Ei Hb) as Hs. unfold mean_out in *.
        destruct (nonneg i); destruct Hs as (q & Eq & Hq); exists q; (split; [destruct b; exact Eq | exact Hq]).
      + split; [cbn [col_vals]; apply forall_map; exact F | exact L].
  Qed.

  Lemma node_sound_pidagg n aggr : d_kind n = KPidAgg aggr -> Sign.smem (d_name n) data = false -> node_sound n.
  Proof.
    intros Hk Hd acc e cs c He Eg Es. unfold node_aval. rewrite Hd, Hk. unfold sem in Es. rewrite Hk in Es.
    destruct (String.eqb aggr "sum") eqn:E1; [|split; [apply col_ok_top | intro H; contradiction]].
    destruct (d_args n) as [|x1 [|x2 [|x3 [|? ?]]]]; try (split; [apply col_ok_top | intro H; contradiction]).
    destruct (get_all_cons x1 [x2; x3] e cs Eg) as (src & cr & -> & Hsrc & Hr).
    destruct (get_all_cons x2 [x3] e cr Hr) as (ptr & cr' & -> & Hptr & Hr').
    destruct (get_all_cons x3 [] e cr' Hr') as (pid & cr'' & -> & Hpid & Hr''). rewrite (get_all_nil e cr'' Hr'') in *.
    destruct (a_known (class_of data acc x3)) eqn:Ek; [|split; [apply col_ok_top | intro H; contradiction]].
    destruct (itv_of (class_of data acc x1)) as [i|] eqn:Eit; [|split; [apply col_ok_top | intro H; contradiction]].
    destruct (col_ints ptr) as [p|] eqn:Ep; cbn [bind] in Es; [|discriminate].
    destruct (col_ints pid) as [ids|] eqn:Ei; cbn [bind] in Es; [|discriminate].
    destruct (sum_by_p_id_sound _ i src p ids c Eit (proj1 (He x1 src Hsrc)) Es) as [H1 H2].
    split; [exact H1 | intros _; rewrite H2, (col_ints_length pid ids Ei); apply (known_len acc e x3 pid He Hpid Ek)].
  Qed.

  (* ---- joins ---- *)
  Lemma get2_tget names e cols x c : get_all column names e = Ok cols -> get2 names cols x = Ok c -> tget column x e = Some c.
  Proof.
    intros Hg H. unfold get2 in H. destruct (index_of_name x names 0) as [i|] eqn:Ei; [|discriminate].
    destruct (index_of_name_spec x names 0 i Ei) as [_ Hn]. rewrite Nat.sub_0_r in Hn.
    destruct (get_all_nth names e cols i x Hg Hn) as (c' & Hc & Ht). rewrite Hc in H. cbn in H. injection H as <-. exact Ht.
  Qed.

  Lemma join_cls_cast a t v w : arel a v -> cast t v = Ok w -> arel (join_cls a) w.
  Proof.
    intros Ha H. unfold join_cls. destruct (itv_of a) as [i|] eqn:Ei; [|exact I].
    destruct (itv_of_sound a i v Ei Ha) as (q & Eq & Hq).
    assert (Hw : exists q', fq w = Some q' /\ (0 <= q -> 0 <= q' /\ (q' <= q \/ q' <= 1))%Qc).
    { destruct t; destruct v as [z|[|u| |]|b| | | | |]; try discriminate; cbn in Eq; injection Eq as <-; cbn in H; injection H as <-.
      - exists (qz z). split; [reflexivity|]. intro Hz. split; [exact Hz | left; qlra].
      - exists (qz (qtrunc u)). split; [reflexivity|]. intro Hu. destruct (qtrunc_nonneg u Hu) as [H1 H2]. split; [apply qz_nonneg; exact H1 | left; exact H2].
      - exists (qz (if b then 1 else 0)). split; [reflexivity|]. intro Hb. split; [exact Hb | left; qlra].
      - exists (qz z). split; [reflexivity|]. intro Hz. split; [exact Hz | left; qlra].
      - exists u. split; [reflexivity|]. intro Hu. split; [exact Hu | left; qlra].
      - exists (qz (if b then 1 else 0)). split; [reflexivity|]. intro Hb. split; [exact Hb | left; qlra].
      - exists (qz (if negb (z =? 0)%Z then 1 else 0)). split; [reflexivity|]. intros _.
        assert (H1 : qz 1 = 1%Qc) by (apply Qc_is_canon; reflexivity). assert (H0 : qz 0 = 0%Qc) by (apply Qc_is_canon; reflexivity).
        destruct (negb (z =? 0)%Z); rewrite ?H1, ?H0; split; try qlra; right; qlra.
      - exists (qz (if negb (xq_eqb (XFin u) (xz 0)) then 1 else 0)). split; [reflexivity|]. intros _.
        assert (H1 : qz 1 = 1%Qc) by (apply Qc_is_canon; reflexivity). assert (H0 : qz 0 = 0%Qc) by (apply Qc_is_canon; reflexivity).
        destruct (negb (xq_eqb (XFin u) (xz 0))); rewrite ?H1, ?H0; split; try qlra; right; qlra.
      - exists (qz (if b then 1 else 0)). split; [reflexivity|]. intro Hb. split; [exact Hb | left; qlra]. }
    destruct Hw as (q' & Eq' & Hq').
    destruct (nonneg i) eqn:En; [|exists q'; split; [exact Eq' | apply inb_top]].
    destruct (Hq' (nonneg_ok i q En Hq)) as [H0 H1]. exists q'. split; [exact Eq'|]. split; [exact H0|]. cbn.
    destruct Hq as [_ Hh]. unfold oge in *. destruct (hi i) as [h|]; cbn; [|exact I].
    unfold qmax. destruct (Qcleb h 1) eqn:E; [apply Qcleb_iff in E | apply Qcleb_false_iff in E]; destruct H1; qlra.
  Qed.

  Lemma node_sound_join n fk pk tgt dflt cmp : d_kind n = KJoin fk pk tgt dflt cmp -> Sign.smem (d_name n) data = false -> node_sound n.
  Proof.
    intros Hk Hd acc e cs c He Eg Es. unfold node_aval. rewrite Hd, Hk. unfold sem in Es. rewrite Hk in Es.
    destruct (a_known (class_of data acc fk)) eqn:Ekf; [|split; [apply col_ok_top | intro H; contradiction]].
    destruct (get2 (d_args n) cs fk) as [cf|] eqn:Ef; cbn [bind] in Es; [|discriminate].
    destruct (col_ints cf) as [fkl|] eqn:Efl; cbn [bind] in Es; [|discriminate].
    destruct (get2 (d_args n) cs pk) as [cp|] eqn:Ep; cbn [bind] in Es; [|discriminate].
    destruct (col_ints cp) as [pkl|] eqn:Epl; cbn [bind] in Es; [|discriminate].
    destruct (get2 (d_args n) cs tgt) as [ct|] eqn:Et; cbn [bind] in Es; [|discriminate].
    destruct (join_list fkl pkl (col_vals ct) dflt) as [jl|] eqn:Ej; cbn [bind] in Es; [|discriminate].
    pose proof (get2_tget _ e cs fk cf Eg Ef) as Hcf. pose proof (get2_tget _ e cs tgt ct Eg Et) as Hct.
    assert (Lfk : length fkl = nrows) by (rewrite (col_ints_length cf fkl Efl); apply (known_len acc e fk cf He Hcf Ekf)).
    set (J := join (class_of data acc tgt) (APar dflt)) in *.
    destruct (join_list_closed fkl pkl (col_vals ct) dflt jl (arel J)) as [Fj Lj]; [ | | exact Ej | ].
    { eapply Forall_impl; [|exact (proj1 (He tgt ct Hct))]. intros v Hv. apply join_l. exact Hv. }
    { apply join_r. exact eq_refl. }
    destruct cmp as [[ng other]|].
    - destruct (a_known (class_of data acc other)) eqn:Eko; [|split; [apply col_ok_top | intro H; contradiction]].
      destruct (get2 (d_args n) cs other) as [co|] eqn:Eo; cbn [bind] in Es; [|discriminate].
      destruct (mapM_res _ (combine jl (col_vals co))) as [bs|] eqn:Em; cbn [bind] in Es; [|discriminate].
      destruct (pack_col_ok TBool ATop ABool bs c (fun v w _ Hw => cast_bool_is_bool v w Hw) Es) as [Hok Lc].
      { apply Forall_forall. intros; exact I. }
      split; [exact Hok|]. intros _. rewrite Lc, (mapM_res_length _ _ _ Em), combine_length, Lj, Lfk, col_vals_length.
      rewrite (known_len acc e other co He (get2_tget _ e cs other co Eg Eo) Eko). lia.
    - destruct (pack_col_ok (col_dtype ct) J (join_cls J) jl c (fun v w Hv Hw => join_cls_cast J _ v w Hv Hw) Es Fj) as [Hok Lc].
      split; [exact Hok | intros _; rewrite Lc, Lj; exact Lfk].
  Qed.

  (* ---- id builders: int columns (finite); the class is claimed where the length is known ---- *)
  Lemma persons_of_length names cols ps : persons_of names cols nrows = Ok ps -> length ps = nrows.
  Proof.
    unfold persons_of. intro H.
    repeat match type of H with
           | bind ?x _ = Ok _ => destruct x; cbn [bind] in H; [|discriminate]
           end.
    injection H as <-. rewrite map_length, seq_length. reflexivity.
  Qed.

  Lemma node_sound_grouping n : d_kind n = KGrouping -> Sign.smem (d_name n) data = false -> node_sound n.
  Proof.
    intros Hk Hd acc e cs c He Eg Es. unfold node_aval. rewrite Hd, Hk. unfold sem in Es. rewrite Hk in Es.
    destruct (persons_of (d_args n) cs nrows) as [ps|] eqn:Ep; cbn [bind] in Es; [|discriminate].
    pose proof (persons_of_length _ _ _ Ep) as Lp.
    destruct (String.eqb (d_name n) "eg_id") eqn:E1.
    { injection Es as <-. cbn [orb]. split; [apply col_ok_fin_int | intros _; cbn [col_len]; unfold eg_id; rewrite couple_loop_length, map_length; exact Lp]. }
    destruct (String.eqb (d_name n) "ehe_id") eqn:E2.
    { injection Es as <-. cbn [orb]. split; [apply col_ok_fin_int | intros _; cbn [col_len]; unfold ehe_id; rewrite couple_loop_length, map_length; exact Lp]. }
    destruct (String.eqb (d_name n) "fg_id") eqn:E3.
    { injection Es as <-. cbn [orb]. split; [apply col_ok_fin_int | intros _; cbn [col_len]; unfold fg_id, fg_id_gen; rewrite map_length; exact Lp]. }
    destruct (String.eqb (d_name n) "sn_id") eqn:E4.
    { destruct (sn_id ps) as [l|] eqn:Esn; cbn [bind] in Es; [|discriminate]. injection Es as <-. cbn [orb].
      split; [apply col_ok_fin_int | intros _; cbn [col_len]; unfold sn_id in Esn; rewrite (sn_loop_length _ _ _ _ Esn), map_length; exact Lp]. }
    cbn [orb].
    destruct (String.eqb (d_name n) "bg_id") eqn:E5.
    { destruct (a_known (class_of data acc "fg_id")) eqn:Ek; [|split; [apply col_ok_top | intro H; contradiction]].
      destruct (get2 (d_args n) cs "fg_id") as [fg|] eqn:Ef; cbn [bind] in Es; [|discriminate].
      destruct (col_ints fg) as [fgl|] eqn:Efl; cbn [bind] in Es; [|discriminate]. injection Es as <-.
      split; [apply col_ok_fin_int|]. intros _. cbn [col_len]. unfold bg_id. rewrite bg_loop_length, map_length, combine_length, Lp.
      rewrite (col_ints_length fg fgl Efl), (known_len acc e "fg_id" fg He (get2_tget _ e cs "fg_id" fg Eg Ef) Ek). lia. }
    destruct (String.eqb (d_name n) "wthh_id") eqn:E6; [|discriminate].
    destruct (a_known (class_of data acc "hh_id") && a_known (class_of data acc "wohngeld_vorrang_bg") &&
              a_known (class_of data acc "wohngeld_kinderzuschl_vorrang_bg")) eqn:Ek; [|split; [apply col_ok_top | intro H; contradiction]].
    apply andb_true_iff in Ek. destruct Ek as [Ek Ek3]. apply andb_true_iff in Ek. destruct Ek as [Ek1 Ek2].
    destruct (get2 (d_args n) cs "hh_id") as [h|] eqn:Eh; cbn [bind] in Es; [|discriminate].
    destruct (col_ints h) as [hl|] eqn:Ehl; cbn [bind] in Es; [|discriminate].
    destruct (get2 (d_args n) cs "wohngeld_vorrang_bg") as [a|] eqn:Ea; cbn [bind] in Es; [|discriminate].
    destruct (col_bools a) as [al|] eqn:Eal; cbn [bind] in Es; [|discriminate].
    destruct (get2 (d_args n) cs "wohngeld_kinderzuschl_vorrang_bg") as [b|] eqn:Eb; cbn [bind] in Es; [|discriminate].
    destruct (col_bools b) as [bl|] eqn:Ebl; cbn [bind] in Es; [|discriminate]. injection Es as <-.
    split; [apply col_ok_fin_int|]. intros _. cbn [col_len].
    pose proof (known_len acc e _ h He (get2_tget _ e cs _ h Eg Eh) Ek1) as L1.
    pose proof (known_len acc e _ a He (get2_tget _ e cs _ a Eg Ea) Ek2) as L2.
    pose proof (known_len acc e _ b He (get2_tget _ e cs _ b Eg Eb) Ek3) as L3.
    rewrite wthh_length; rewrite ?(col_ints_length h hl Ehl), ?(col_bools_length a al Eal), ?(col_bools_length b bl Ebl); lia.
  Qed.

  (* ---- every node of the graph ---- *)
  Theorem every_node_sound n : Sign.smem (d_name n) data = false -> node_sound n.
  Proof.
    intro Hd. destruct (d_kind n) eqn:Hk.
    - apply (node_sound_rule n _ _ _ Hk Hd).
    - apply (node_sound_groupagg n _ Hk Hd).
    - apply (node_sound_pidagg n _ Hk Hd).
    - apply (node_sound_timeconv n _ _ Hk Hd).
    - apply (node_sound_grouping n Hk Hd).
    - apply (node_sound_join n _ _ _ _ _ Hk Hd).
  Qed.

  (* THE table-level theorem: on any table whose supplied columns are described by their input
     classes, every column the engine computes is described by the class the dataflow assigns *)
  Theorem a_nodes_sound S e t :
    (forall n, In n S -> Sign.smem (d_name n) data = false) -> tab_ok [] e ->
    run column (to_sys column (sem ft P rounding nrows) S) e = Ok t ->
    tab_ok (a_nodes ft P data S []) t.
  Proof.
    intros Hd He Hr. apply (table_sound S [] e t); [|exact He | exact Hr].
    intros n Hn. apply every_node_sound. apply Hd. exact Hn.
  Qed.

  (* the same for Table.run_table (the nodes the targets need, minus supplied columns) *)
  Definition live_sub (S : list dnode) (targets : list string) (dtab : list (string * column)) : list dnode :=
    subgraph (filter (fun n => negb (existsb (String.eqb (d_name n)) (map fst dtab))) S) targets.

  Theorem run_table_sound S targets dtab t :
    forallb (fun n => negb (Sign.smem (d_name n) data)) (live_sub S targets dtab) = true ->
    tab_ok [] dtab -> run_table ft P rounding nrows S targets dtab = Ok t ->
    tab_ok (a_nodes ft P data (live_sub S targets dtab) []) t.
  Proof.
    intros Hd He Hr. apply (a_nodes_sound (live_sub S targets dtab) dtab t); [|exact He | exact Hr].
    intros n Hn. rewrite forallb_forall in Hd. specialize (Hd n Hn). destruct (Sign.smem (d_name n) data); [discriminate | reflexivity].
  Qed.

  (* what it means for a column: finite / finite and non-negative cells *)
  Corollary column_finite K t x c : tab_ok K t -> tget column x t = Some c -> a_fin (class_of data K x) = true ->
    Forall finv (col_vals c).
  Proof.
    intros Ht Hx Hf. destruct (Ht x c Hx) as [Hok _]. eapply Forall_impl; [|exact Hok]. intros v Hv. apply (a_fin_sound _ v Hf Hv).
  Qed.

  Corollary column_nonneg K t x c : tab_ok K t -> tget column x t = Some c -> a_nn (class_of data K x) = true ->
    Forall fnn (col_vals c).
  Proof.
    intros Ht Hx Hf. destruct (Ht x c Hx) as [Hok _]. eapply Forall_impl; [|exact Hok]. intros v Hv. apply (a_nn_sound _ v Hf Hv).
  Qed.
End TS.




(* ---------------------------------------------------------------- *)
(* property C03 at the level of the engine: the column of a rule node without rounding has the
   declared dtype whatever the data, and each cell is the rule applied to that row's arguments
   (parameters partialled in by name), cast to the declared dtype *)
Theorem rule_node_cells ft P rounding nrows n py f t cs c :
  d_kind n = KRule py false None -> flookup py ft = Some f -> annot_otype (f_ret f) = Some t -> cs <> [] ->
  sem ft P rounding nrows n cs = Ok c ->
  col_dtype c = t /\
  forall i row, nth_error (rows_of nrows cs) i = Some row ->
    exists args v w, row_args P f (d_args n) row = Ok args /\ call_rule ft f args = Ok v /\ cast t v = Ok w /\ nth_error (col_vals c) i = Some w.
Proof.
  intros Hk Hf Ht Hne Es. unfold sem in Es. rewrite Hk, Hf in Es. cbn [of_option bind] in Es. rewrite Ht in Es.
  destruct cs as [|c1 cr]; [contradiction|].
  destruct (vectorize_gen (Some t) _ nrows (c1 :: cr)) as [c0|] eqn:E0; cbn [bind] in Es; [|discriminate]. injection Es as <-.
  destruct (vectorize_declared t _ nrows (c1 :: cr) c0 E0) as [Hd Hcells]. split; [exact Hd|].
  intros i row Hi. destruct (Hcells i row Hi) as (v & w & Hv & Hw & Hn).
  destruct (row_args P f (d_args n) row) as [args|] eqn:Ea; cbn [bind] in Hv; [|discriminate].
  exists args, v, w. auto.
Qed.
