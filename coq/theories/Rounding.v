(* Rounding.v — model of interface._add_rounding_to_one_function:
     rounded = base * ceil|floor|round(out / base) + to_add_after_rounding
   and the theorems of property C10 about it (for every base > 0, every offset,
   every value: on the grid, in the statutory direction, error below one step). *)
From Coq Require Import ZArith QArith Qcanon Qround Bool String List Lia.
From GettsimModel Require Import Num Val NumTac.
Import ListNotations.
Open Scope Qc_scope.

Ltac qcl := qlra.

Inductive direction := DUp | DDown | DNearest.

Definition round_steps (dir : direction) (q : Qc) : Z :=
  match dir with
  | DUp => qceil q
  | DDown => qfloor q
  | DNearest => qround_even q
  end.

Definition round_to (base : Qc) (dir : direction) (off : Qc) (x : Qc) : Qc :=
  base * qz (round_steps dir (x / base)) + off.

(* numpy semantics on non-finite values: floor/ceil/round keep inf and nan *)
Definition round_x (base : Qc) (dir : direction) (off : Qc) (x : xq) : xq :=
  match x with
  | XFin q => XFin (round_to base dir off q)
  | XPosInf => if Qcltb 0 base then XPosInf else if Qcltb base 0 then XNegInf else XNaN
  | XNegInf => if Qcltb 0 base then XNegInf else if Qcltb base 0 then XPosInf else XNaN
  | XNaN => XNaN
  end.

(* the value-level wrapper: ints and bools are divided by base first, so the result is float *)
Definition round_val (base : Qc) (dir : direction) (off : Qc) (v : val) : res val :=
  match as_num v with
  | Some n => Ok (VFloat (round_x base dir off (num_x n)))
  | None => Err EType
  end.

Definition parse_direction (s : string) : option direction :=
  if String.eqb s "up" then Some DUp
  else if String.eqb s "down" then Some DDown
  else if String.eqb s "nearest" then Some DNearest
  else None.

(* ------------------------------------------------------------------ *)

Lemma div_mul_base (base x : Qc) : ~ base = 0 -> base * (x / base) = x.
Proof. intro H. apply Qcmult_div_r. exact H. Qed.

Lemma pos_neq0 (b : Qc) : 0 < b -> ~ b = 0.
Proof. intros H E. subst. apply (Qclt_not_eq _ _ H). reflexivity. Qed.

Theorem on_grid base dir off x :
  exists k : Z, round_to base dir off x - off = base * qz k.
Proof.
  exists (round_steps dir (x / base)). unfold round_to. ring.
Qed.

Lemma scale_le (b u v : Qc) : 0 < b -> u <= v -> b * u <= b * v.
Proof.
  intros Hb H. rewrite (Qcmult_comm b u), (Qcmult_comm b v).
  apply Qcmult_le_compat_r; [exact H | apply Qclt_le_weak; exact Hb].
Qed.

Lemma scale_lt (b u v : Qc) : 0 < b -> u < v -> b * u < b * v.
Proof.
  intros Hb H. rewrite (Qcmult_comm b u), (Qcmult_comm b v).
  apply Qcmult_lt_compat_r; assumption.
Qed.

Theorem dir_down base off x : 0 < base ->
  let r := round_to base DDown off x in
  r - off <= x /\ x < r - off + base.
Proof.
  intros Hb r. subst r. unfold round_to. cbn [round_steps].
  assert (Hn := pos_neq0 _ Hb).
  pose proof (qfloor_le (x / base)) as H1.
  pose proof (qfloor_lt (x / base)) as H2.
  apply (scale_le base) in H1; [|exact Hb].
  apply (scale_lt base) in H2; [|exact Hb].
  rewrite div_mul_base in H1, H2 by exact Hn.
  rewrite qz_plus in H2.
  split.
  - replace (base * qz (qfloor (x / base)) + off - off) with (base * qz (qfloor (x / base))) by ring.
    exact H1.
  - replace (base * qz (qfloor (x / base)) + off - off + base)
      with (base * (qz (qfloor (x / base)) + qz 1)).
    + exact H2.
    + replace (qz 1) with 1 by (apply Qc_is_canon; reflexivity). ring.
Qed.

Theorem dir_up base off x : 0 < base ->
  let r := round_to base DUp off x in
  r - off - base < x /\ x <= r - off.
Proof.
  intros Hb r. subst r. unfold round_to. cbn [round_steps].
  assert (Hn := pos_neq0 _ Hb).
  pose proof (qceil_ge (x / base)) as H1.
  pose proof (qceil_lt (x / base)) as H2.
  apply (scale_le base) in H1; [|exact Hb].
  apply (scale_lt base) in H2; [|exact Hb].
  rewrite div_mul_base in H1, H2 by exact Hn.
  replace (qceil (x / base) - 1)%Z with (qceil (x / base) + (-1))%Z in H2 by lia.
  rewrite qz_plus in H2.
  split.
  - replace (base * qz (qceil (x / base)) + off - off - base)
      with (base * (qz (qceil (x / base)) + qz (-1))).
    + exact H2.
    + replace (qz (-1)) with (- (1)) by (apply Qc_is_canon; reflexivity). ring.
  - replace (base * qz (qceil (x / base)) + off - off) with (base * qz (qceil (x / base))) by ring.
    exact H1.
Qed.

(* nearest: |q - round_even q| <= 1/2 *)
Lemma qround_even_near (q : Qc) :
  qz (qround_even q) - qfrac 1 2 <= q /\ q <= qz (qround_even q) + qfrac 1 2.
Proof.
  unfold qround_even.
  pose proof (qfloor_le q) as Hlo.
  pose proof (qfloor_lt q) as Hhi.
  rewrite qz_plus in Hhi.
  assert (H1 : qz 1 = 1) by (apply Qc_is_canon; reflexivity).
  rewrite H1 in Hhi.
  set (f := qfloor q) in *.
  assert (Hh : qfrac 1 2 + qfrac 1 2 = 1) by (apply Qc_is_canon; reflexivity).
  destruct (Qcltb (q - qz f) (qfrac 1 2)) eqn:E1.
  - apply Qcltb_iff in E1. split; qcl.
  - apply Qcltb_false_iff in E1.
    destruct (Qcltb (qfrac 1 2) (q - qz f)) eqn:E2.
    + apply Qcltb_iff in E2. rewrite qz_plus, H1. split; qcl.
    + apply Qcltb_false_iff in E2.
      destruct (Z.even f).
      * split; qcl.
      * rewrite qz_plus, H1. split; qcl.
Qed.

Theorem dir_nearest base off x : 0 < base ->
  let r := round_to base DNearest off x in
  r - off - base * qfrac 1 2 <= x /\ x <= r - off + base * qfrac 1 2.
Proof.
  intros Hb r. subst r. unfold round_to. cbn [round_steps].
  assert (Hn := pos_neq0 _ Hb).
  destruct (qround_even_near (x / base)) as [H1 H2].
  apply (scale_le base) in H1; [|exact Hb].
  apply (scale_le base) in H2; [|exact Hb].
  rewrite div_mul_base in H1, H2 by exact Hn.
  split.
  - replace (base * qz (qround_even (x / base)) + off - off - base * qfrac 1 2)
      with (base * (qz (qround_even (x / base)) - qfrac 1 2)) by ring.
    exact H1.
  - replace (base * qz (qround_even (x / base)) + off - off + base * qfrac 1 2)
      with (base * (qz (qround_even (x / base)) + qfrac 1 2)) by ring.
    exact H2.
Qed.

(* the error is below one grid step, whatever the direction *)
Theorem err_lt_base base dir off x : 0 < base ->
  let r := round_to base dir off x in
  x - base < r - off /\ r - off < x + base.
Proof.
  intros Hb r. subst r. destruct dir.
  - destruct (dir_up base off x Hb) as [H1 H2]. split; qcl.
  - destruct (dir_down base off x Hb) as [H1 H2]. split; qcl.
  - destruct (dir_nearest base off x Hb) as [H1 H2].
    assert (Hh : base * qfrac 1 2 < base).
    { assert (E : base = base * qfrac 1 2 + base * qfrac 1 2).
      { transitivity (base * (qfrac 1 2 + qfrac 1 2)); [|ring].
        replace (qfrac 1 2 + qfrac 1 2) with 1 by (apply Qc_is_canon; reflexivity). ring. }
      assert (0 < base * qfrac 1 2).
      { replace 0 with (base * 0) by ring. apply scale_lt; [exact Hb|].
        unfold Qclt. simpl. reflexivity. }
      qcl. }
    split; qcl.
Qed.

Lemma qround_even_qz (k : Z) : qround_even (qz k) = k.
Proof.
  unfold qround_even. rewrite qfloor_qz.
  replace (qz k - qz k) with 0 by ring.
  reflexivity.
Qed.

(* values already on the grid are fixed points (offset 0) *)
Theorem idempotent_on_grid base dir (k : Z) : 0 < base ->
  round_to base dir 0 (base * qz k) = base * qz k.
Proof.
  intros Hb. assert (Hn := pos_neq0 _ Hb). unfold round_to.
  assert (E : base * qz k / base = qz k).
  { rewrite Qcmult_comm. apply Qcdiv_mult_l. exact Hn. }
  rewrite E.
  destruct dir; cbn [round_steps];
    rewrite ?qceil_qz, ?qfloor_qz, ?qround_even_qz; ring.
Qed.

(* rounding is monotone *)
Lemma Qfloor_mono_c (a b : Qc) : a <= b -> (qfloor a <= qfloor b)%Z.
Proof. intros H. unfold qfloor. apply Qfloor_resp_le. exact H. Qed.
Lemma Qceil_mono_c (a b : Qc) : a <= b -> (qceil a <= qceil b)%Z.
Proof. intros H. unfold qceil. apply Qceiling_resp_le. exact H. Qed.

Lemma div_le_compat (base a b : Qc) : 0 < base -> a <= b -> a / base <= b / base.
Proof.
  intros Hb H. unfold Qcdiv. apply Qcmult_le_compat_r; [exact H|].
  apply Qclt_le_weak.
  assert (Hn := pos_neq0 _ Hb).
  destruct (Qclt_le_dec 0 (/ base)) as [Hp | Hnp]; [exact Hp|exfalso].
  assert (E : base * / base = 1) by (apply Qcmult_inv_r; exact Hn).
  assert (base * / base <= base * 0) by (apply scale_le; assumption).
  rewrite E in H0. replace (base * 0) with 0 in H0 by ring.
  apply (Qcle_not_lt _ _ H0). unfold Qclt. simpl. reflexivity.
Qed.

Theorem round_monotone_updown base dir off a b : 0 < base -> dir <> DNearest ->
  a <= b -> round_to base dir off a <= round_to base dir off b.
Proof.
  intros Hb Hd H. unfold round_to.
  assert (Hq := div_le_compat base a b Hb H).
  assert (Hz : (round_steps dir (a / base) <= round_steps dir (b / base))%Z).
  { destruct dir; cbn [round_steps];
      [apply Qceil_mono_c | apply Qfloor_mono_c | congruence]; exact Hq. }
  apply qz_le in Hz. apply (scale_le base) in Hz; [|exact Hb]. qcl.
Qed.

(* rounding of a non-negative value stays non-negative for offset >= 0 *)
Theorem round_nonneg base dir off x : 0 < base -> 0 <= off -> 0 <= x ->
  0 <= round_to base dir off x.
Proof.
  intros Hb Ho Hx. unfold round_to.
  assert (Hq : 0 <= x / base).
  { replace 0 with (0 / base) by (unfold Qcdiv; ring). apply div_le_compat; assumption. }
  assert (Hz : (0 <= round_steps dir (x / base))%Z).
  { destruct dir; cbn [round_steps].
    - rewrite <- (qceil_qz 0). apply Qceil_mono_c.
      replace (qz 0) with 0 by (apply Qc_is_canon; reflexivity). exact Hq.
    - rewrite <- (qfloor_qz 0). apply Qfloor_mono_c.
      replace (qz 0) with 0 by (apply Qc_is_canon; reflexivity). exact Hq.
    - unfold qround_even.
      assert (Hf : (0 <= qfloor (x / base))%Z).
      { rewrite <- (qfloor_qz 0). apply Qfloor_mono_c.
        replace (qz 0) with 0 by (apply Qc_is_canon; reflexivity). exact Hq. }
      destruct (Qcltb _ _); [exact Hf|].
      destruct (Qcltb _ _); [lia|]. destruct (Z.even _); lia. }
  apply qz_le in Hz. replace (qz 0) with 0 in Hz by (apply Qc_is_canon; reflexivity).
  apply (scale_le base) in Hz; [|exact Hb]. qcl.
Qed.
