(* CorrAgg.v — rendering of columns for the correspondence checks (not part of any theorem). *)
From Coq Require Import ZArith QArith Qcanon Bool String List.
From GettsimModel Require Import Num Val Corr Column Aggregation.
Import ListNotations.
Open Scope string_scope.

Definition dtype_name (t : dtype) : string :=
  match t with TInt => "int" | TFloat => "float" | TBool => "bool" | TDate => "date" | TOther => "other" end.

(* {"s:t": "float", "s:v": [...]} in the key convention of json_val *)
Definition json_col (r : res column) : string :=
  match r with
  | Ok c => json_val (VDict [(KStr "t", VStr (dtype_name (col_dtype c))); (KStr "v", VList (col_vals c))])
  | Err e => json_res (Err e)
  end.
