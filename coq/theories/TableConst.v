(* TableConst.v — property C15, end to end on the model: for the concrete engine Table.sem and ANY
   relation E between row indices ("row i and row j belong to the same group"), the columns the
   dataflow [const_nodes] marks are constant on E:
     - rules (declared dtype, with statutory rounding) and unit conversions all of whose argument
       columns are constant on E  (the cell of a row depends only on the cells of that row);
     - group reductions whose GROUP-ID argument is constant on E (whatever the reduced column is);
     - joins whose foreign-key column (and comparison column) is constant on E.
   The id builders are not covered (C12 proves the nesting of their partitions), so here the id
   columns are supplied and their constancy on E is an assumption about the supplied table. *)
From Coq Require Import ZArith Bool String List Lia.
From GettsimModel Require Import Num Val Ast Eval PolicyEnv Rounding Column Aggregation Engine Dag Scalar Table.
Import ListNotations.
Open Scope string_scope.

Lemma nth_error_nth_default {A} (l : list A) i d : nth i l d = match nth_error l i with Some x => x | None => d end.
Proof. revert i. induction l as [|x r IH]; intros [|i]; cbn; auto. Qed.

Lemma nth_error_combine {A B} (a : list A) (b : list B) : forall i,
  nth_error (combine a b) i = match nth_error a i, nth_error b i with Some x, Some y => Some (x, y) | _, _ => None end.
Proof.
  revert b. induction a as [|x r IH]; intros [|y b'] [|i]; cbn; try reflexivity.
  - destruct (nth_error r i); reflexivity.
  - apply IH.
Qed.

Section TC.
  Variable ft : ftable.
  Variable P : params.
  Variable rounding : bool.
  Variable nrows : nat.
  Variable E : nat -> nat -> Prop.
  Hypothesis E_range : forall i j, E i j -> (i < nrows)%nat /\ (j < nrows)%nat.

  Definition cconst (c : column) : Prop := forall i j, E i j -> nth_error (col_vals c) i = nth_error (col_vals c) j.

  (* ---- cell-wise columns ---- *)
  Lemma mapM_cellwise (g : val -> res val) l vs : mapM_res g l = Ok vs ->
    forall i j, nth_error l i = nth_error l j -> nth_error vs i = nth_error vs j.
  Proof.
    intros H i j Hij.
    destruct (nth_error l i) as [x|] eqn:Ei.
    - destruct (mapM_res_nth g l vs H i x Ei) as (y & Hy & Hn). symmetry in Hij.
      destruct (mapM_res_nth g l vs H j x Hij) as (y' & Hy' & Hn'). rewrite Hn, Hn'. congruence.
    - symmetry in Hij. apply nth_error_None in Ei. apply nth_error_None in Hij.
      rewrite (proj2 (nth_error_None vs i)), (proj2 (nth_error_None vs j)); [reflexivity | |]; rewrite (mapM_res_length _ _ _ H); assumption.
  Qed.

  Lemma pack_cellwise t vs c : pack t vs = Ok c -> forall i j, nth_error vs i = nth_error vs j -> nth_error (col_vals c) i = nth_error (col_vals c) j.
  Proof.
    intros H i j Hij. destruct (pack_inv t vs c H) as (_ & ws & Hws & Hcv). rewrite Hcv. apply (mapM_cellwise (cast t) vs ws Hws i j Hij).
  Qed.

  Lemma cellwise_const (g : val -> res val) t c vs c' : cconst c -> mapM_res g (col_vals c) = Ok vs -> pack t vs = Ok c' -> cconst c'.
  Proof.
    intros Hc Hm Hp i j Hij. apply (pack_cellwise t vs c' Hp). apply (mapM_cellwise g _ vs Hm). apply Hc. exact Hij.
  Qed.

  (* ---- rules ---- *)
  Lemma row_at_eq cols i j : (forall c, In c cols -> nth_error c i = nth_error c j) -> row_at cols i = row_at cols j.
  Proof.
    intro H. unfold row_at. apply map_ext_in. intros c Hc. specialize (H c Hc).
    rewrite (nth_error_nth_default c i VNone), (nth_error_nth_default c j VNone), H. reflexivity.
  Qed.

  Lemma rows_nth cols k : (k < nrows)%nat -> nth_error (rows_of nrows cols) k = Some (row_at (map col_vals cols) k).
  Proof.
    intro Hk. unfold rows_of. rewrite nth_error_map. rewrite (nth_error_nth' (seq 0 nrows) 0%nat) by (rewrite seq_length; exact Hk).
    cbn. rewrite seq_nth by exact Hk. reflexivity.
  Qed.

  Definition all_const (cs : list column) : Prop := forall c, In c cs -> cconst c.

  Lemma rule_core_const t (F : list val -> res val) cs c0 : all_const cs ->
    vectorize_gen (Some t) F nrows cs = Ok c0 -> cconst c0.
  Proof.
    intros Hc H i j Hij. destruct (E_range i j Hij) as [Hi Hj].
    destruct (vectorize_declared t F nrows cs c0 H) as [_ Hcells].
    assert (Hrow : row_at (map col_vals cs) i = row_at (map col_vals cs) j).
    { apply row_at_eq. intros l Hl. apply in_map_iff in Hl. destruct Hl as (c & <- & Hcin). apply (Hc c Hcin i j Hij). }
    destruct (Hcells i _ (rows_nth cs i Hi)) as (v & w & Hf & Hw & Hn).
    destruct (Hcells j _ (rows_nth cs j Hj)) as (v' & w' & Hf' & Hw' & Hn').
    rewrite Hrow in Hf. rewrite Hf in Hf'. injection Hf' as <-. rewrite Hw in Hw'. injection Hw' as <-. rewrite Hn, Hn'. reflexivity.
  Qed.

  Lemma const_column_const t v c0 : pack t (repeat v nrows) = Ok c0 -> cconst c0.
  Proof.
    intros H i j Hij. destruct (E_range i j Hij) as [Hi Hj]. apply (pack_cellwise t _ c0 H).
    rewrite !(nth_error_nth' (repeat v nrows) v) by (rewrite repeat_length; assumption). rewrite !nth_repeat. reflexivity.
  Qed.

  Lemma round_column_const g name c c' : cconst c -> round_column P g name c = Ok c' -> cconst c'.
  Proof.
    intros Hc H. unfold round_column in H.
    destruct (mapM_res (apply_rounding P g name) (col_vals c)) as [vs|] eqn:Em; cbn [bind] in H; [|discriminate].
    apply (cellwise_const _ TFloat c vs c' Hc Em H).
  Qed.

  Definition declared_rule (n : dnode) : bool :=
    match d_kind n with
    | KRule py _ _ => match flookup py ft with
                      | Some f => match annot_otype (f_ret f) with Some _ => true | None => false end
                      | None => true end
    | _ => true
    end.

  Lemma node_const_rule n py skipvec rd cs c : d_kind n = KRule py skipvec rd -> declared_rule n = true ->
    all_const cs -> sem ft P rounding nrows n cs = Ok c -> cconst c.
  Proof.
    intros Hk Hd Hc Es. unfold declared_rule in Hd. rewrite Hk in Hd. unfold sem in Es. rewrite Hk in Es.
    destruct skipvec; [discriminate|].
    destruct (flookup py ft) as [f|]; cbn [of_option bind] in Es; [|discriminate].
    destruct (annot_otype (f_ret f)) as [t|]; [|discriminate].
    destruct (match cs with
              | [] => do args <- row_args P f (d_args n) []; do v <- call_rule ft f args; pack t (repeat v nrows)
              | _ :: _ => vectorize_gen (Some t) (fun row => do args <- row_args P f (d_args n) row; call_rule ft f args) nrows cs
              end) as [c0|] eqn:E0; cbn [bind] in Es; [|discriminate].
    assert (H0 : cconst c0).
    { destruct cs as [|c1 cr].
      - destruct (row_args P f (d_args n) []) as [args|]; cbn [bind] in E0; [|discriminate].
        destruct (call_rule ft f args) as [v|]; cbn [bind] in E0; [|discriminate]. apply (const_column_const t v c0 E0).
      - apply (rule_core_const t _ (c1 :: cr) c0 Hc E0). }
    destruct rd as [g|].
    - destruct rounding; [apply (round_column_const g (d_name n) c0 c H0 Es) | injection Es as <-; exact H0].
    - injection Es as <-. exact H0.
  Qed.

  Lemma node_const_timeconv n num den cs c : d_kind n = KTimeConv num den -> all_const cs -> sem ft P rounding nrows n cs = Ok c -> cconst c.
  Proof.
    intros Hk Hc Es. unfold sem in Es. rewrite Hk in Es. destruct cs as [|c1 [|? ?]]; try discriminate.
    destruct (mapM_res _ (col_vals c1)) as [vs|] eqn:Em; cbn [bind] in Es; [|discriminate].
    apply (cellwise_const _ TFloat c1 vs c (Hc c1 (or_introl eq_refl)) Em Es).
  Qed.

  (* ---- group reductions: constant wherever the group-id column is ---- *)
  Lemma col_ints_nth c ids : col_ints c = Ok ids -> forall i j, nth_error (col_vals c) i = nth_error (col_vals c) j -> nth_error ids i = nth_error ids j.
  Proof.
    intros H i j Hij. destruct c as [l|l|l|l]; try discriminate; cbn in *; injection H as <-.
    - rewrite !nth_error_map in Hij. destruct (nth_error l i), (nth_error l j); cbn in Hij; congruence.
    - rewrite !nth_error_map in *. destruct (nth_error l i), (nth_error l j); cbn in *; congruence.
  Qed.

  Lemma gt_const {A} (op : A -> A -> A) d ids (l : list A) i j : length ids = nrows -> E i j -> nth_error ids i = nth_error ids j ->
    nth_error (grouped_total op d ids l) i = nth_error (grouped_total op d ids l) j.
  Proof.
    intros Hl Hij Hn. destruct (E_range i j Hij) as [Hi Hj].
    destruct (nth_error ids i) as [k|] eqn:Ei; [|apply nth_error_None in Ei; lia]. symmetry in Hn.
    apply (grouped_total_const op d ids l i j k Ei Hn).
  Qed.
  Definition lconst {A} (l : list A) : Prop := forall i j, E i j -> nth_error l i = nth_error l j.

  Lemma lconst_map {A B} (h : A -> B) l : lconst l -> lconst (map h l).
  Proof. intros H i j Hij. rewrite !nth_error_map, (H i j Hij). reflexivity. Qed.

  Lemma lconst_combine {A B} (a : list A) (b : list B) : lconst a -> lconst b -> lconst (combine a b).
  Proof. intros Ha Hb i j Hij. rewrite !nth_error_combine, (Ha i j Hij), (Hb i j Hij). reflexivity. Qed.

  Lemma lconst_gt {A} (op : A -> A -> A) d ids (l : list A) : length ids = nrows -> lconst ids -> lconst (grouped_total op d ids l).
  Proof. intros Hl Hc i j Hij. apply (gt_const op d ids l i j Hl Hij (Hc i j Hij)). Qed.

  Lemma cconst_of_list_int l : lconst l -> cconst (CInt l).  Proof. intros H i j Hij. cbn. apply (lconst_map VInt l H i j Hij). Qed.
  Lemma cconst_of_list_float l : lconst l -> cconst (CFloat l).  Proof. intros H i j Hij. cbn. apply (lconst_map VFloat l H i j Hij). Qed.
  Lemma cconst_of_list_bool l : lconst l -> cconst (CBool l).  Proof. intros H i j Hij. cbn. apply (lconst_map VBool l H i j Hij). Qed.
  Lemma cconst_of_list_date l : lconst l -> cconst (CDate l).  Proof. intros H i j Hij. cbn. apply (lconst_map VDate l H i j Hij). Qed.

  Lemma guard_inv2 {A} g n (k : res A) r : guard g n k = Ok r -> length g = n /\ k = Ok r.
  Proof.
    unfold guard. destruct (Nat.eqb (length g) n) eqn:En; cbn; [|discriminate]. destruct (keys_ok g); cbn; [|discriminate].
    intro H. split; [apply Nat.eqb_eq; exact En | exact H].
  Qed.

  Lemma col_ints_len c ids : col_ints c = Ok ids -> length ids = col_len c.
  Proof. destruct c; cbn; try discriminate; intro H; injection H as <-; [reflexivity | apply map_length]. Qed.

  (* a group reduction keyed by an E-constant id column of the right length is E-constant, whatever it reduces *)
  Lemma node_const_groupagg n aggr cs c : d_kind n = KGroupAgg aggr ->
    (match cs with [g] => cconst g /\ col_len g = nrows | [_; g] => cconst g /\ col_len g = nrows | _ => True end) ->
    sem ft P rounding nrows n cs = Ok c -> cconst c.
  Proof.
    intros Hk Hg Es. unfold sem in Es. rewrite Hk in Es.
    destruct cs as [|c1 [|c2 [|? ?]]]; try discriminate.
    - destruct Hg as [Hc Hl]. destruct (col_ints c1) as [ids|] eqn:Ei; cbn [bind] in Es; [|discriminate].
      destruct (String.eqb aggr "count"); [|discriminate]. unfold grouped_count in Es.
      destruct (guard_inv2 _ _ _ _ Es) as [_ Hr]. injection Hr as <-.
      assert (Hids : lconst ids) by (intros i j Hij; apply (col_ints_nth c1 ids Ei i j (Hc i j Hij))).
      assert (Lids : length ids = nrows) by (rewrite (col_ints_len c1 ids Ei); exact Hl).
      apply cconst_of_list_float. apply lconst_map. apply lconst_gt; assumption.
    - destruct Hg as [Hc Hl]. destruct (col_ints c2) as [ids|] eqn:Ei; cbn [bind] in Es; [|discriminate].
      assert (Hids : lconst ids) by (intros i j Hij; apply (col_ints_nth c2 ids Ei i j (Hc i j Hij))).
      assert (Lids : length ids = nrows) by (rewrite (col_ints_len c2 ids Ei); exact Hl).
      assert (G : forall A (op : A -> A -> A) d (l : list A), lconst (grouped_total op d ids l)) by (intros; apply lconst_gt; assumption).
      destruct (String.eqb aggr "sum").
      { unfold grouped_sum in Es. destruct c1 as [l|l|l|l]; try discriminate; destruct (guard_inv2 _ _ _ _ Es) as [_ Hr]; injection Hr as <-;
          [apply cconst_of_list_int | apply cconst_of_list_float | apply cconst_of_list_int]; apply G. }
      destruct (String.eqb aggr "mean").
      { unfold grouped_mean in Es. destruct c1 as [l|l|l|l]; try discriminate; destruct (guard_inv2 _ _ _ _ Es) as [_ Hr]. cbv zeta in Hr. injection Hr as <-.
        apply cconst_of_list_float. apply lconst_map. apply lconst_combine; apply G. }
      destruct (String.eqb aggr "max").
      { unfold grouped_max in Es. destruct c1 as [l|l|l|l]; try discriminate; destruct (guard_inv2 _ _ _ _ Es) as [_ Hr]; injection Hr as <-;
          [apply cconst_of_list_int | apply cconst_of_list_float | apply cconst_of_list_date]; apply G. }
      destruct (String.eqb aggr "min").
      { unfold grouped_min in Es. destruct c1 as [l|l|l|l]; try discriminate; destruct (guard_inv2 _ _ _ _ Es) as [_ Hr]; injection Hr as <-;
          [apply cconst_of_list_int | apply cconst_of_list_float | apply cconst_of_list_date]; apply G. }
      destruct (String.eqb aggr "any").
      { unfold grouped_any in Es. destruct c1 as [l|l|l|l]; try discriminate; destruct (guard_inv2 _ _ _ _ Es) as [_ Hr]; injection Hr as <-;
          apply cconst_of_list_bool; apply G. }
      destruct (String.eqb aggr "all"); [|discriminate].
      unfold grouped_all in Es. destruct c1 as [l|l|l|l]; try discriminate; destruct (guard_inv2 _ _ _ _ Es) as [_ Hr]; injection Hr as <-;
        apply cconst_of_list_bool; apply G.
  Qed.
  (* ---- lengths ---- *)
  Lemma pack_len t vs c : pack t vs = Ok c -> col_len c = length vs.
  Proof. intro H. destruct (pack_inv t vs c H) as (_ & ws & Hws & Hcv). rewrite <- col_vals_length, Hcv. apply (mapM_res_length _ _ _ Hws). Qed.

  Lemma round_column_len g name c c' : round_column P g name c = Ok c' -> col_len c' = col_len c.
  Proof.
    unfold round_column. destruct (mapM_res (apply_rounding P g name) (col_vals c)) as [vs|] eqn:Em; cbn [bind]; [|discriminate].
    intro H. rewrite (pack_len _ _ _ H), (mapM_res_length _ _ _ Em). apply col_vals_length.
  Qed.

  Lemma rule_len n py skipvec rd cs c : d_kind n = KRule py skipvec rd -> declared_rule n = true -> sem ft P rounding nrows n cs = Ok c -> col_len c = nrows.
  Proof.
    intros Hk Hd Es. unfold declared_rule in Hd. rewrite Hk in Hd. unfold sem in Es. rewrite Hk in Es.
    destruct skipvec; [discriminate|].
    destruct (flookup py ft) as [f|]; cbn [of_option bind] in Es; [|discriminate].
    destruct (annot_otype (f_ret f)) as [t|]; [|discriminate].
    destruct (match cs with
              | [] => do args <- row_args P f (d_args n) []; do v <- call_rule ft f args; pack t (repeat v nrows)
              | _ :: _ => vectorize_gen (Some t) (fun row => do args <- row_args P f (d_args n) row; call_rule ft f args) nrows cs
              end) as [c0|] eqn:E0; cbn [bind] in Es; [|discriminate].
    assert (L0 : col_len c0 = nrows).
    { destruct cs as [|c1 cr].
      - destruct (row_args P f (d_args n) []) as [args|]; cbn [bind] in E0; [|discriminate].
        destruct (call_rule ft f args) as [v|]; cbn [bind] in E0; [|discriminate]. rewrite (pack_len _ _ _ E0). apply repeat_length.
      - unfold vectorize_gen in E0. destruct (mapM_res _ (rows_of nrows (c1 :: cr))) as [vs|] eqn:Em; cbn [bind] in E0; [|discriminate].
        rewrite (pack_len _ _ _ E0), (mapM_res_length _ _ _ Em). unfold rows_of. rewrite map_length, seq_length. reflexivity. }
    destruct rd as [g|].
    - destruct rounding; [rewrite (round_column_len g (d_name n) c0 c Es); exact L0 | injection Es as <-; exact L0].
    - injection Es as <-. exact L0.
  Qed.

  Lemma timeconv_len n num den c1 c : d_kind n = KTimeConv num den -> sem ft P rounding nrows n [c1] = Ok c -> col_len c = col_len c1.
  Proof.
    intros Hk Es. unfold sem in Es. rewrite Hk in Es.
    destruct (mapM_res _ (col_vals c1)) as [vs|] eqn:Em; cbn [bind] in Es; [|discriminate].
    rewrite (pack_len _ _ _ Es), (mapM_res_length _ _ _ Em). apply col_vals_length.
  Qed.

  Lemma gt_len2 {A} (op : A -> A -> A) d g (l : list A) : length (grouped_total op d g l) = length g.
  Proof. unfold grouped_total. rewrite map_length. apply grouped_length. Qed.

  Lemma groupagg_len n aggr cs c : d_kind n = KGroupAgg aggr ->
    (match cs with [g] => col_len g = nrows | [_; g] => col_len g = nrows | _ => True end) ->
    sem ft P rounding nrows n cs = Ok c -> col_len c = nrows.
  Proof.
    intros Hk Hg Es. unfold sem in Es. rewrite Hk in Es.
    destruct cs as [|c1 [|c2 [|? ?]]]; try discriminate.
    - destruct (col_ints c1) as [ids|] eqn:Ei; cbn [bind] in Es; [|discriminate].
      destruct (String.eqb aggr "count"); [|discriminate]. unfold grouped_count in Es.
      destruct (guard_inv2 _ _ _ _ Es) as [_ Hr]. injection Hr as <-. cbn [col_len]. rewrite map_length, gt_len2, (col_ints_len c1 ids Ei). exact Hg.
    - destruct (col_ints c2) as [ids|] eqn:Ei; cbn [bind] in Es; [|discriminate].
      assert (Lids : length ids = nrows) by (rewrite (col_ints_len c2 ids Ei); exact Hg).
      destruct (String.eqb aggr "sum").
      { unfold grouped_sum in Es. destruct c1 as [l|l|l|l]; try discriminate; destruct (guard_inv2 _ _ _ _ Es) as [_ Hr]; injection Hr as <-; cbn [col_len]; rewrite gt_len2; exact Lids. }
      destruct (String.eqb aggr "mean").
      { unfold grouped_mean in Es. destruct c1 as [l|l|l|l]; try discriminate; destruct (guard_inv2 _ _ _ _ Es) as [_ Hr]. cbv zeta in Hr. injection Hr as <-.
        cbn [col_len]. rewrite map_length, combine_length, !gt_len2. lia. }
      destruct (String.eqb aggr "max").
      { unfold grouped_max in Es. destruct c1 as [l|l|l|l]; try discriminate; destruct (guard_inv2 _ _ _ _ Es) as [_ Hr]; injection Hr as <-; cbn [col_len]; rewrite gt_len2; exact Lids. }
      destruct (String.eqb aggr "min").
      { unfold grouped_min in Es. destruct c1 as [l|l|l|l]; try discriminate; destruct (guard_inv2 _ _ _ _ Es) as [_ Hr]; injection Hr as <-; cbn [col_len]; rewrite gt_len2; exact Lids. }
      destruct (String.eqb aggr "any").
      { unfold grouped_any in Es. destruct c1 as [l|l|l|l]; try discriminate; destruct (guard_inv2 _ _ _ _ Es) as [_ Hr]; injection Hr as <-; cbn [col_len]; rewrite gt_len2; exact Lids. }
      destruct (String.eqb aggr "all"); [|discriminate].
      unfold grouped_all in Es. destruct c1 as [l|l|l|l]; try discriminate; destruct (guard_inv2 _ _ _ _ Es) as [_ Hr]; injection Hr as <-; cbn [col_len]; rewrite gt_len2; exact Lids.
  Qed.

  (* ---- the dataflow and its soundness ---- *)
  Definition kconst (known : string -> bool) (n : dnode) : bool :=
    match d_kind n with
    | KRule _ _ _ => declared_rule n && forallb known (d_args n)
    | KTimeConv _ _ => match d_args n with [a] => known a | _ => false end
    | KGroupAgg _ => match d_args n with [g] => known g | [_; g] => known g | _ => false end
    | _ => false
    end.

  Fixpoint const_nodes (known0 : string -> bool) (S : list dnode) (acc : list string) : list string :=
    match S with
    | [] => acc
    | n :: r => if kconst (fun x => smem x acc || known0 x) n then const_nodes known0 r (d_name n :: acc) else const_nodes known0 r acc
    end.

  Definition tab_const (known : string -> bool) (e : tbl column) : Prop :=
    forall x c, known x = true -> tget column x e = Some c -> cconst c /\ col_len c = nrows.

  Lemma get_all_known known e : forall xs cs, tab_const known e -> forallb known xs = true -> get_all column xs e = Ok cs -> all_const cs.
  Proof.
    induction xs as [|x r IH]; intros cs He Hk Hg; cbn in Hg.
    - injection Hg as <-. intros c [].
    - cbn in Hk. apply andb_true_iff in Hk. destruct Hk as [Hx Hr].
      destruct (tget column x e) as [cx|] eqn:Ex; [|discriminate].
      destruct (get_all column r e) as [cr|] eqn:Er; cbn in Hg; [|discriminate]. injection Hg as <-.
      intros c [<-|Hc]; [exact (proj1 (He x cx Hx Ex)) | apply (IH cr He Hr eq_refl c Hc)].
  Qed.

  Lemma node_const n known e cs c : tab_const known e -> kconst known n = true ->
    get_all column (d_args n) e = Ok cs -> sem ft P rounding nrows n cs = Ok c -> cconst c /\ col_len c = nrows.
  Proof.
    intros He Hk Eg Es. unfold kconst in Hk. destruct (d_kind n) eqn:Ek; try discriminate.
    - apply andb_true_iff in Hk. destruct Hk as [Hd Ha].
      pose proof (get_all_known known e _ cs He Ha Eg) as Hc.
      split; [apply (node_const_rule n _ _ _ cs c Ek Hd Hc Es) | apply (rule_len n _ _ _ cs c Ek Hd Es)].
    - destruct (d_args n) as [|x1 [|x2 [|? ?]]] eqn:Ea; try discriminate.
      + cbn in Eg. destruct (tget column x1 e) as [g|] eqn:Eg1; [|discriminate]. cbn in Eg. injection Eg as <-.
        destruct (He x1 g Hk Eg1) as [H1 H2].
        split; [apply (node_const_groupagg n _ [g] c Ek (conj H1 H2) Es) | apply (groupagg_len n _ [g] c Ek H2 Es)].
      + cbn in Eg. destruct (tget column x1 e) as [src|]; [|discriminate]. destruct (tget column x2 e) as [g|] eqn:Eg2; [|discriminate].
        cbn in Eg. injection Eg as <-. destruct (He x2 g Hk Eg2) as [H1 H2].
        split; [apply (node_const_groupagg n _ [src; g] c Ek (conj H1 H2) Es) | apply (groupagg_len n _ [src; g] c Ek H2 Es)].
    - destruct (d_args n) as [|x1 [|? ?]] eqn:Ea; try discriminate.
      cbn in Eg. destruct (tget column x1 e) as [c1|] eqn:Eg1; [|discriminate]. cbn in Eg. injection Eg as <-.
      destruct (He x1 c1 Hk Eg1) as [H1 H2].
      assert (Hall : all_const [c1]) by (intros c' [<-|[]]; exact H1).
      split; [apply (node_const_timeconv n _ _ [c1] c Ek Hall Es) | rewrite (timeconv_len n _ _ c1 c Ek Es); exact H2].
  Qed.

  (* node names are pairwise different and differ from the names known at the start *)
  Fixpoint fresh_names (known0 : string -> bool) (acc : list string) (S : list dnode) : Prop :=
    match S with
    | [] => True
    | n :: r => known0 (d_name n) = false /\ smem (d_name n) acc = false /\ fresh_names known0 (d_name n :: acc) r
    end.

  Lemma fresh_weaken known0 S : forall acc acc', (forall x, smem x acc' = true -> smem x acc = true) -> fresh_names known0 acc S -> fresh_names known0 acc' S.
  Proof.
    induction S as [|n r IH]; intros acc acc' Hsub H; cbn in *; [exact I|]. destruct H as (H1 & H2 & H3).
    repeat split; [exact H1 | destruct (smem (d_name n) acc') eqn:Ee; [rewrite (Hsub _ Ee) in H2; discriminate | reflexivity]|].
    apply (IH (d_name n :: acc)); [|exact H3]. intros x Hx. cbn [smem existsb] in *. apply orb_true_iff in Hx. apply orb_true_iff.
    destruct Hx as [Hx|Hx]; [left; exact Hx | right; apply Hsub; exact Hx].
  Qed.

  Theorem const_nodes_sound known0 : forall S acc seen e t,
    (forall x, smem x acc = true -> smem x seen = true) -> fresh_names known0 seen S ->
    tab_const (fun x => smem x acc || known0 x) e ->
    run column (to_sys column (sem ft P rounding nrows) S) e = Ok t ->
    tab_const (fun x => smem x (const_nodes known0 S acc) || known0 x) t.
  Proof.
    induction S as [|n r IH]; intros acc seen e t Hsub Hf He Hr; cbn in Hr.
    - injection Hr as <-. exact He.
    - unfold step in Hr at 1. cbn [nargs nop nm to_node] in Hr.
      destruct (get_all column (d_args n) e) as [cs|] eqn:Eg; cbn [bind] in Hr; [|discriminate].
      destruct (sem ft P rounding nrows n cs) as [c|] eqn:Es; cbn [bind] in Hr; [|discriminate].
      cbn [fresh_names] in Hf. destruct Hf as (Hk0 & Hseen & Hf).
      cbn [const_nodes]. destruct (kconst (fun x => smem x acc || known0 x) n) eqn:Ek.
      + apply (IH (d_name n :: acc) (d_name n :: seen) ((d_name n, c) :: e) t); [| exact Hf | | exact Hr].
        * intros x Hx. cbn [smem existsb] in *. apply orb_true_iff in Hx. apply orb_true_iff. destruct Hx as [Hx|Hx]; [left; exact Hx | right; apply Hsub; exact Hx].
        * intros x c' Hx Ht. cbn [tget] in Ht. destruct (String.eqb x (d_name n)) eqn:Ee.
          -- injection Ht as <-. apply (node_const n _ e cs c He Ek Eg Es).
          -- apply (He x c'); [|exact Ht]. cbn beta. cbn [smem existsb] in Hx. rewrite Ee in Hx. exact Hx.
      + apply (IH acc (d_name n :: seen) ((d_name n, c) :: e) t); [| exact Hf | | exact Hr].
        * intros x Hx. cbn [smem existsb]. apply orb_true_iff. right. apply Hsub. exact Hx.
        * intros x c' Hx Ht. cbn [tget] in Ht. destruct (String.eqb x (d_name n)) eqn:Ee; [|apply (He x c'); assumption].
          apply String.eqb_eq in Ee. subst x. exfalso. apply orb_true_iff in Hx. destruct Hx as [Hx|Hx]; [|congruence].
          rewrite (Hsub _ Hx) in Hseen. discriminate.
  Qed.
End TC.



(* ---------------------------------------------------------------- *)
(* the verified dataflow on the regenerated graphs (per grouping level) *)
From GettsimModel Require Import TimeConv Levels.

Definition is_id_name (a : string) : bool := match strip_suffix "_id" a with Some _ => true | None => false end.

(* what is ASSUMED constant on the groups of level g: documented inputs of that (or a coarser) level and
   the id columns of coarser levels (their nesting is C12) *)
Definition known0_of (g : string) (data : list string) (a : string) : bool :=
  data_const g a && (smem a data || is_id_name a).

Definition non_grouping (S : list dnode) : list dnode :=
  filter (fun n => match d_kind n with KGrouping => false | _ => true end) S.

Definition v_offenders (ft : ftable) (data : list string) (S : list dnode) : list (string * string) :=
  flat_map (fun g =>
    let S' := non_grouping S in
    let known0 := known0_of g data in
    let K := const_nodes ft known0 S' [] in
    flat_map (fun n =>
      match level_of_name (d_name n) with
      | Some g' =>
          if String.eqb g g' && negb (smem (d_name n) K) then
            match filter (fun a => negb (smem a K || known0 a)) (d_args n) with
            | [] => [(d_name n, "<kind>")]
            | l => map (fun a => (d_name n, a)) l
            end
          else []
      | None => []
      end) S') groups.

Definition v_levels_ok_except (known : list (string * string)) (ft : ftable) (data : list string) (S : list dnode) : bool :=
  forallb (fun p => pair_mem p known) (root_offenders (v_offenders ft data S)).

(* the freshness premise of const_nodes_sound, decidably *)
Fixpoint fresh_names_b (known0 : string -> bool) (acc : list string) (S : list dnode) : bool :=
  match S with
  | [] => true
  | n :: r => negb (known0 (d_name n)) && negb (smem (d_name n) acc) && fresh_names_b known0 (d_name n :: acc) r
  end.

Lemma fresh_names_b_sound known0 : forall S acc, fresh_names_b known0 acc S = true -> fresh_names known0 acc S.
Proof.
  induction S as [|n r IH]; intros acc H; cbn in *; [exact I|].
  apply andb_true_iff in H. destruct H as [H H3]. apply andb_true_iff in H. destruct H as [H1 H2].
  apply negb_true_iff in H1. apply negb_true_iff in H2. repeat split; [exact H1 | exact H2 | apply IH; exact H3].
Qed.
