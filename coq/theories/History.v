(* History.v — property C14: purity, determinism, independence of the process history,
   as a non-interference statement over an abstract process state.
   State = values at locations; the PERSISTENT locations are the ones a later call or the
   caller can observe (module namespaces, the function registry, the caller's data, parameter
   dictionary and function collection).  An operation may allocate and write scratch
   locations freely.  If no operation writes a persistent location and every result depends
   only on the operation itself and on persistent locations, then after ANY finite history
   every call returns what it returns in a fresh process, and the persistent locations are
   unchanged.  The write sets of the real operations are observed by the correspondence
   harness U10 (snapshots before / after every call); the two refutations below are the
   faithful models of the code before its repair. *)
From Coq Require Import Bool List.
Import ListNotations.

Section History.
  Variables (loc val out opn : Type).
  Variable P : loc -> Prop.
  Definition state := loc -> val.
  Variable step : opn -> state -> state * out.

  Hypothesis frame : forall o s l, P l -> fst (step o s) l = s l.
  Hypothesis reads_P : forall o s1 s2, (forall l, P l -> s1 l = s2 l) -> snd (step o s1) = snd (step o s2).

  Fixpoint run (h : list opn) (s : state) : state :=
    match h with [] => s | o :: r => run r (fst (step o s)) end.

  Lemma run_preserves h : forall s l, P l -> run h s l = s l.
  Proof.
    induction h as [|o r IH]; intros s l Hl; cbn; [reflexivity|].
    rewrite IH by exact Hl. apply frame. exact Hl.
  Qed.

  (* every call after any history = the same call in a fresh process; caller objects untouched *)
  Theorem history_independent h s0 o :
    snd (step o (run h s0)) = snd (step o s0) /\ forall l, P l -> run h s0 l = s0 l.
  Proof.
    split; [|intros l Hl; apply run_preserves; exact Hl].
    apply reads_P. intros l Hl. apply run_preserves. exact Hl.
  Qed.

  (* determinism: repeating a call gives the same result *)
  Corollary repeat_same s0 o : snd (step o (fst (step o s0))) = snd (step o s0).
  Proof. apply (proj1 (history_independent [o] s0 o)). Qed.
End History.

(* ---------------------------------------------------------------- *)
(* the two write-set violations of the code before its repair, as tiny instances:
   location 0 = the binding of a rule in its module namespace (persistent),
   location 1 = an entry of the caller's data dictionary (persistent) *)

Inductive op2 := Simulate | Rewrite | SimulateDict.

(* [rebinding]: Rewrite executes the rewritten source in the module's globals and so rebinds
   the rule; [dict_write]: Simulate with a dict writes the converted column back *)
Definition step2 (rebinding dict_write : bool) (o : op2) (s : nat -> nat) : (nat -> nat) * nat :=
  match o with
  | Simulate => (s, s 0)                                   (* the result uses the module's rule *)
  | Rewrite => ((fun l => if Nat.eqb l 0 then (if rebinding then 1 else s 0) else s l), 0)
  | SimulateDict => ((fun l => if Nat.eqb l 1 then (if dict_write then 1 else s 1) else s l), s 0)
  end.

Theorem rewrite_rebinding_refuted :
  let s0 := fun _ : nat => 0 in
  snd (step2 true false Simulate (fst (step2 true false Rewrite s0))) <> snd (step2 true false Simulate s0)
  /\ snd (step2 false false Simulate (fst (step2 false false Rewrite s0))) = snd (step2 false false Simulate s0).
Proof. cbn. split; [discriminate | reflexivity]. Qed.

Theorem dict_data_refuted :
  let s0 := fun _ : nat => 0 in
  fst (step2 false true SimulateDict s0) 1 <> s0 1 /\ fst (step2 false false SimulateDict s0) 1 = s0 1.
Proof. cbn. split; [discriminate | reflexivity]. Qed.
