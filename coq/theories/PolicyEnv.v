(* PolicyEnv.v — hand-written model of _gettsim.policy_environment:
   _load_parameter_group_from_yaml, _load_rounding_parameters, transfer_dictionary,
   add_progressionsfaktor, get_piecewise_parameters (with check_thresholds /
   check_rates / check_intercepts / create_intercepts), _parse_piecewise_parameters,
   the three date-derived parameters, and the selection of active functions.
   YAML trees are [val]s (GenYaml.v); dates are proleptic Gregorian ordinals. *)
From Coq Require Import ZArith QArith Qcanon Bool Ascii String List Lia.
From GettsimModel Require Import Num Val Ast Piecewise.
Import ListNotations.
Open Scope string_scope.
Open Scope Z_scope.

(* ---------------------------------------------------------------- *)
(* civil dates (Hinnant's algorithms), ordinal 1 = 0001-01-01        *)

Definition epoch_shift : Z := 719163.       (* ordinal of 1970-01-01 *)

Definition civil_of_ordinal (o : Z) : Z * Z * Z :=
  let z := o - epoch_shift + 719468 in
  let era := z / 146097 in
  let doe := z - era * 146097 in
  let yoe := (doe - doe / 1460 + doe / 36524 - doe / 146096) / 365 in
  let y := yoe + era * 400 in
  let doy := doe - (365 * yoe + yoe / 4 - yoe / 100) in
  let mp := (5 * doy + 2) / 153 in
  let d := doy - (153 * mp + 2) / 5 + 1 in
  let m := if mp <? 10 then mp + 3 else mp - 9 in
  ((if m <=? 2 then y + 1 else y), m, d).

Definition ordinal_of_civil (y m d : Z) : Z :=
  let y' := if m <=? 2 then y - 1 else y in
  let era := y' / 400 in
  let yoe := y' - era * 400 in
  let mp := if m >? 2 then m - 3 else m + 9 in
  let doy := (153 * mp + 2) / 5 + d - 1 in
  let doe := yoe * 365 + yoe / 4 - yoe / 100 + doy in
  era * 146097 + doe - 719468 + epoch_shift.

Definition year_of (o : Z) : Z := fst (fst (civil_of_ordinal o)).

Definition is_leap (y : Z) : bool :=
  ((y mod 4 =? 0) && negb (y mod 100 =? 0)) || (y mod 400 =? 0).

(* dt.replace(year=dt.year-1), falling back to day-1 on ValueError (29 Feb) *)
Definition subtract_one_year (o : Z) : Z :=
  match civil_of_ordinal o with
  | (y, m, d) =>
      if (m =? 2) && (d =? 29) && negb (is_leap (y - 1))
      then ordinal_of_civil (y - 1) m (d - 1)
      else ordinal_of_civil (y - 1) m d
  end.

Definition beginning_of_year (o : Z) : Z :=
  ordinal_of_civil (year_of o) 1 1.

(* ---------------------------------------------------------------- *)
(* dictionaries as ordered association lists                          *)

Definition dict := list (pkey * val).

Fixpoint dict_set (k : pkey) (v : val) (d : dict) : dict :=
  match d with
  | [] => [(k, v)]
  | (k', v') :: r => if pkey_eqb k k' then (k, v) :: r else (k', v') :: dict_set k v r
  end.

Fixpoint dict_remove (k : pkey) (d : dict) : dict :=
  match d with
  | [] => []
  | (k', v') :: r => if pkey_eqb k k' then dict_remove k r else (k', v') :: dict_remove k r
  end.

Definition dict_has (k : pkey) (d : dict) : bool :=
  match dict_get k d with Some _ => true | None => false end.

Definition sget (s : string) (d : dict) : option val := dict_get (KStr s) d.
Definition shas (s : string) (d : dict) : bool := dict_has (KStr s) d.

Definition as_dict (v : val) : res dict :=
  match v with VDict d => Ok d | _ => Err EType end.

Fixpoint date_keys (d : dict) : list Z :=
  match d with
  | [] => []
  | (KDate o, _) :: r => o :: date_keys r
  | _ :: r => date_keys r
  end.

Fixpoint int_keys (d : dict) : list Z :=
  match d with
  | [] => []
  | (KInt o, _) :: r => o :: int_keys r
  | _ :: r => int_keys r
  end.

Fixpoint zmax_list (l : list Z) : option Z :=
  match l with
  | [] => None
  | x :: r => match zmax_list r with None => Some x | Some m => Some (Z.max x m) end
  end.

Fixpoint zmin_list (l : list Z) : option Z :=
  match l with
  | [] => None
  | x :: r => match zmin_list r with None => Some x | Some m => Some (Z.min x m) end
  end.

(* the most recent policy date on or before [date] *)
Definition latest_le (date : Z) (ds : list Z) : option Z :=
  zmax_list (filter (fun d => d <=? date) ds).

(* "a.b" -> Some (a, b) *)
Fixpoint split_dot (s : string) : option (string * string) :=
  match s with
  | EmptyString => None
  | String c r =>
      if Ascii.eqb c "."%char then Some (EmptyString, r)
      else match split_dot r with
           | Some (a, b) => Some (String c a, b)
           | None => None
           end
  end.

(* ---------------------------------------------------------------- *)
(* transfer_dictionary / set_by_path                                  *)

(* set new_dict[path] := leaf ; all but the last key must exist *)
Fixpoint set_by_path (nd : val) (path : list pkey) (leaf : val) : res val :=
  match path with
  | [] => Ok leaf
  | [k] => match nd with
           | VDict d => Ok (VDict (dict_set k leaf d))
           | _ => Err EType
           end
  | k :: rest =>
      match nd with
      | VDict d =>
          match dict_get k d with
          | Some sub => do sub' <- set_by_path sub rest leaf; Ok (VDict (dict_set k sub' d))
          | None => Err EKey
          end
      | _ => Err EType
      end
  end.

(* overlay the leaves of [rem] onto [nd]; [rpath] is the key path so far, reversed *)
Fixpoint transfer (rem : val) (nd : val) (rpath : list pkey) {struct rem} : res val :=
  match rem with
  | VDict d =>
      (fix go (l : list (pkey * val)) (acc : val) : res val :=
         match l with
         | [] => Ok acc
         | (k, x) :: r => do acc' <- transfer x acc (k :: rpath); go r acc'
         end) d nd
  | leaf =>
      match rpath with
      | [] => Ok leaf
      | _ => set_by_path nd (rev rpath) leaf
      end
  end.

(* ---------------------------------------------------------------- *)
(* rounding section                                                   *)

Definition rounding_parameters : list string := ["direction"; "base"; "to_add_after_rounding"].

Definition load_rounding_one (date : Z) (spec_func : val) : res (option val) :=
  do d <- as_dict spec_func;
  match latest_le date (date_keys d) with
  | None => Ok None
  | Some pd =>
      do pol <- of_option EKey (dict_get (KDate pd) d);
      do pd' <- as_dict pol;
      Ok (Some (VDict (filter (fun kv => match fst kv with
                                         | KStr s => existsb (String.eqb s) rounding_parameters
                                         | _ => false end) pd')))
  end.

Fixpoint load_rounding (date : Z) (spec : dict) : res dict :=
  match spec with
  | [] => Ok []
  | (k, v) :: r =>
      do o <- load_rounding_one date v;
      do rest <- load_rounding date r;
      Ok (match o with Some x => (k, x) :: rest | None => rest end)
  end.

(* ---------------------------------------------------------------- *)
(* _load_parameter_group_from_yaml                                    *)

Definition not_trans_keys : list string :=
  ["note"; "reference"; "deviation_from"; "access_different_date"].
Definition add_trans_keys : list string := ["type"; "progressionsfaktor"].

Definition is_not_trans (k : pkey) : bool :=
  match k with KStr s => existsb (String.eqb s) not_trans_keys | _ => false end.

Definition scalar_value (v : val) : val :=
  match v with
  | VStr s => if String.eqb s "inf" then VFloat XPosInf else v
  | _ => v
  end.

Section Loader.
  Variable Y : list (string * val).       (* group name -> raw YAML tree *)

  Fixpoint glookup (g : string) (l : list (string * val)) : option val :=
    match l with
    | [] => None
    | (n, v) :: r => if String.eqb g n then Some v else glookup g r
    end.

  Fixpoint copy_keys (ks : list string) (src : dict) (acc : dict) : dict :=
    match ks with
    | [] => acc
    | k :: r => match sget k src with
                | Some v => copy_keys r src (dict_set (KStr k) v acc)
                | None => copy_keys r src acc
                end
    end.

  Fixpoint apply_value_keys (pol : dict) (keys : list pkey) (cur : val) (deviation : bool)
    : res val :=
    match keys with
    | [] => Ok cur
    | k :: r =>
        do pv <- of_option EKey (dict_get k pol);
        do cd <- as_dict cur;
        do nv <- (if deviation
                  then do old <- of_option EKey (dict_get k cd); transfer pv old []
                  else Ok pv);
        apply_value_keys pol r (VDict (dict_set k nv cd)) deviation
    end.

  (* load_group fuel date group parameters *)
  Fixpoint load_group (fuel : nat) (date : Z) (group : string) (parameters : option (list string))
    : res dict :=
    match fuel with
    | O => Err EFuel
    | S fuel' =>
        do rawv <- of_option EKey (glookup group Y);
        do raw <- as_dict rawv;
        let params :=
          match parameters with
          | Some ((_ :: _) as l) => l
          | _ => flat_map (fun kv => match fst kv with
                                     | KStr s => if String.eqb s "rounding" then [] else [s]
                                     | _ => [] end) raw
          end in
        do out <-
          (fix each (ps : list string) (out : dict) : res dict :=
             match ps with
             | [] => Ok out
             | param :: rest =>
                 do rpv <- of_option EKey (sget param raw);
                 do rp <- as_dict rpv;
                 let pdates := date_keys rp in
                 do out1 <-
                   match latest_le date pdates with
                   | None =>
                       match zmin_list pdates with
                       | None => Err EValue
                       | Some fd =>
                           do fpv <- of_option EKey (dict_get (KDate fd) rp);
                           do fp <- as_dict fpv;
                           match sget "deviation_from" fp with
                           | Some (VStr dv) =>
                               match split_dot dv with
                               | Some (g2, p2) =>
                                   do tmp <- load_group fuel' date g2 (Some [p2]);
                                   match sget p2 tmp with
                                   | Some v => Ok (dict_set (KStr param) v out)
                                   | None => Ok out
                                   end
                               | None => Ok out
                               end
                           | Some _ => Err EType
                           | None => Ok out
                           end
                       end
                   | Some pd =>
                       do polv <- of_option EKey (dict_get (KDate pd) rp);
                       do pol <- as_dict polv;
                       do out1 <-
                         match sget "scalar" pol with
                         | Some sv => Ok (dict_set (KStr param) (scalar_value sv) out)
                         | None =>
                             let base := VDict (copy_keys add_trans_keys rp []) in
                             let vkeys := filter (fun k => negb (is_not_trans k)) (map fst pol) in
                             match sget "deviation_from" pol with
                             | Some (VStr dv) =>
                                 do start <-
                                   (if String.eqb dv "previous"
                                    then do prev <- load_group fuel' (pd - 1) group (Some [param]);
                                         of_option EKey (sget param prev)
                                    else match split_dot dv with
                                         | Some (g2, p2) =>
                                             do oth <- load_group fuel' date g2 (Some [p2]);
                                             of_option EKey (sget p2 oth)
                                         | None => Ok base
                                         end);
                                 do v <- apply_value_keys pol vkeys start true;
                                 Ok (dict_set (KStr param) v out)
                             | Some _ => Err EType
                             | None =>
                                 do v <- apply_value_keys pol vkeys base false;
                                 Ok (dict_set (KStr param) v out)
                             end
                         end;
                       (* access_different_date *)
                       match sget "access_different_date" rp with
                       | None => Ok out1
                       | Some (VStr "vorjahr") =>
                           do ly <- load_group fuel' (subtract_one_year date) group (Some [param]);
                           match sget param ly with
                           | Some v => Ok (dict_set (KStr (param ++ "_vorjahr")) v out1)
                           | None => Ok out1
                           end
                       | Some (VStr "jahresanfang") =>
                           let b := beginning_of_year date in
                           if b =? date
                           then do cur <- of_option EKey (sget param out1);
                                Ok (dict_set (KStr (param ++ "_jahresanfang")) cur out1)
                           else
                             do by_ <- load_group fuel' b group (Some [param]);
                             match sget param by_ with
                             | Some v => Ok (dict_set (KStr (param ++ "_jahresanfang")) v out1)
                             | None => Ok out1
                             end
                       | Some _ => Err EValue
                       end
                   end;
                 each rest out1
             end) params [];
        let out := dict_set (KStr "datum") (VDate date) out in
        match sget "rounding" raw with
        | Some rv =>
            do rd <- as_dict rv;
            do r <- load_rounding date rd;
            Ok (dict_set (KStr "rounding") (VDict r) out)
        | None => Ok out
        end
    end.
End Loader.

(* ---------------------------------------------------------------- *)
(* piecewise parsing                                                  *)

Definition to_xq (v : val) : res xq :=
  match v with
  | VStr s => if String.eqb s "inf" then Ok XPosInf
              else if String.eqb s "-inf" then Ok XNegInf else Err EValue
  | _ => match as_num v with Some n => Ok (num_x n) | None => Err EType end
  end.

Definition sorted_int_keys (d : dict) : list Z :=
  (fix isort (l : list Z) : list Z :=
     match l with
     | [] => []
     | x :: r => (fix ins (x : Z) (l : list Z) : list Z :=
                    match l with
                    | [] => [x]
                    | y :: t => if x <=? y then x :: y :: t else y :: ins x t
                    end) x (isort r)
     end) (int_keys d).

Definition piece (d : dict) (i : Z) : res dict :=
  do v <- of_option EKey (dict_get (KInt i) d); as_dict v.

Definition piece_num (d : dict) (i : Z) (key : string) : res (option xq) :=
  do p <- piece d i;
  match sget key p with
  | Some v => do x <- to_xq v; Ok (Some x)
  | None => Ok None
  end.

Definition xq_abs (x : xq) : xq := if xq_ltb x (xz 0) then xq_neg x else x.

(* numpy.allclose(a, b): |a-b| <= 1e-8 + 1e-5*|b| ; equal infinities are close *)
Definition allclose1 (a b : xq) : bool :=
  if xq_same a b then true
  else match a, b with
       | XFin _, XFin _ =>
           xq_leb (xq_abs (xq_sub a b))
                  (xq_add (XFin (qfrac 1 100000000)) (xq_mul (XFin (qfrac 1 100000)) (xq_abs b)))
       | _, _ => false
       end.

Fixpoint allclose (a b : list xq) : bool :=
  match a, b with
  | [], [] => true
  | x :: r, y :: s => allclose1 x y && allclose r s
  | _, _ => false
  end.

Fixpoint mapM {A B} (f : A -> res B) (l : list A) : res (list B) :=
  match l with
  | [] => Ok []
  | x :: r => do y <- f x; do ys <- mapM f r; Ok (y :: ys)
  end.

Fixpoint xq_insert (x : xq) (l : list xq) : list xq :=
  match l with
  | [] => [x]
  | y :: r => if xq_ltb y x then y :: xq_insert x r else x :: y :: r
  end.
Definition xq_sort (l : list xq) : list xq := fold_right xq_insert [] l.

(* returns (lower, upper, thresholds) *)
Definition check_thresholds (d : dict) (keys : list Z) : res (list xq * list xq * list xq) :=
  match keys with
  | [] => Err EIndex
  | k0 :: _ =>
      let klast := last keys k0 in
      do l0 <- piece_num d 0 "lower_threshold";
      do l0 <- of_option EValue l0;
      do ul <- piece_num d klast "upper_threshold";
      do ul <- of_option EValue ul;
      if negb (xq_same ul XPosInf) || negb (xq_same l0 XNegInf) then Err EValue else
      do lowers <- mapM (fun i =>
                     do a <- piece_num d i "lower_threshold";
                     match a with
                     | Some x => Ok x
                     | None => do b <- piece_num d (i - 1) "upper_threshold";
                               of_option EValue b
                     end) (tl keys);
      do uppers <- mapM (fun i =>
                     do a <- piece_num d i "upper_threshold";
                     match a with
                     | Some x => Ok x
                     | None => do b <- piece_num d (i + 1) "lower_threshold";
                               of_option EValue b
                     end) (removelast keys);
      let lower := l0 :: lowers in
      let upper := (uppers ++ [ul])%list in
      if negb (allclose lowers uppers) then Err EValue
      else Ok (lower, upper, xq_sort (l0 :: upper))
  end.

Definition rate_row (d : dict) (keys : list Z) (names : list string) : res (list xq) :=
  mapM (fun i =>
          do p <- piece d i;
          (fix first (ns : list string) : res xq :=
             match ns with
             | [] => Err EValue
             | n :: r => match sget n p with
                         | Some v => to_xq v
                         | None => first r
                         end
             end) names) keys.

Definition check_rates (d : dict) (keys : list Z) (func_type : string) : res (list (list xq)) :=
  if String.eqb func_type "linear" then
    do r <- rate_row d keys ["rate"; "rate_linear"]; Ok [r]
  else if String.eqb func_type "quadratic" then
    do r1 <- rate_row d keys ["rate_linear"];
    do r2 <- rate_row d keys ["rate_quadratic"]; Ok [r1; r2]
  else if String.eqb func_type "cubic" then
    do r1 <- rate_row d keys ["rate_linear"];
    do r2 <- rate_row d keys ["rate_quadratic"];
    do r3 <- rate_row d keys ["rate_cubic"]; Ok [r1; r2; r3]
  else Err EValue.

Fixpoint poly_at (rs : list (list xq)) (pol : nat) (idx : nat) (incr : xq) (out : xq) : xq :=
  match rs with
  | [] => out
  | row :: rest =>
      poly_at rest (S pol) idx incr
              (xq_add out (xq_mul (nth idx row XNaN) (xq_pow incr pol)))
  end.

(* calculate_intercepts(x, ...) with the intercepts known so far (nan elsewhere) *)
Definition calculate_intercept (x : xq) (lower upper : list xq) (rs : list (list xq))
           (icpts : list xq) : xq :=
  if xq_ltb x (nth 0 lower XNaN) || xq_ltb (last upper XNaN) x
     || (match x with XNaN => true | _ => false end)
  then XNaN
  else
    let idx := search_left x upper in
    let ic := nth idx icpts XNaN in
    let lt := nth idx lower XNaN in
    if xq_same lt XNegInf then ic
    else poly_at rs 1 idx (xq_sub x lt) ic.

Fixpoint create_intercepts_go (ups : list xq) (lower upper : list xq) (rs : list (list xq))
         (done : list xq) (n : nat) : list xq :=
  match ups with
  | [] => done
  | u :: r =>
      let padded := (done ++ repeat XNaN (n - length done))%list in
      let v := calculate_intercept u lower upper rs padded in
      create_intercepts_go r lower upper rs (done ++ [v])%list n
  end.

Definition create_intercepts (lower upper : list xq) (rs : list (list xq)) (i0 : xq) : list xq :=
  create_intercepts_go (removelast upper) lower upper rs [i0] (length upper).

Definition check_intercepts (d : dict) (keys : list Z) (lower upper : list xq)
           (rs : list (list xq)) : res (list xq) :=
  do i0 <- piece_num d 0 "intercept_at_lower_threshold";
  do i0 <- of_option EValue i0;
  do others <- mapM (fun i => piece_num d i "intercept_at_lower_threshold") (tl keys);
  let supplied := filter (fun o => match o with Some _ => true | None => false end) others in
  let cnt := S (length supplied) in
  if Nat.ltb 1 cnt && negb (Nat.eqb cnt (length keys)) then Err EValue
  else if Nat.eqb cnt (length keys)
       then Ok (i0 :: map (fun o => match o with Some x => x | None => XNaN end) others)
       else Ok (create_intercepts lower upper rs i0).

Definition consecutive_from_zero (keys : list Z) : bool :=
  (fix go (l : list Z) (i : Z) : bool :=
     match l with
     | [] => true
     | x :: r => (x =? i) && go r (i + 1)
     end) keys 0.

Definition vfl (l : list xq) : val := VList (map VFloat l).

Definition get_piecewise_parameters (d : dict) (func_type : string) : res val :=
  let keys := sorted_int_keys d in
  if negb (consecutive_from_zero keys) then Err EValue else
  do ths <- check_thresholds d keys;
  match ths with
  | (lower, upper, thresholds) =>
      do rs <- check_rates d keys func_type;
      do ic <- check_intercepts d keys lower upper rs;
      Ok (VDict [(KStr "thresholds", vfl thresholds);
                 (KStr "rates", VList (map vfl rs));
                 (KStr "intercepts_at_lower_thresholds", vfl ic)])
  end.

Definition add_progressionsfaktor (d : dict) : res dict :=
  let keys := sorted_int_keys d in
  do ths <- check_thresholds d keys;
  match ths with
  | (lower, upper, _) =>
      (fix go (ks : list Z) (out : dict) : res dict :=
         match ks with
         | [] => Ok out
         | k :: r =>
             do p <- piece out k;
             if shas "rate_quadratic" p then go r out else
             do pn <- piece out (k + 1);
             do a <- of_option EKey (sget "rate_linear" pn);
             do b <- of_option EKey (sget "rate_linear" p);
             do df <- arith Sub a b;
             do lo <- list_index lower k;
             do up <- list_index upper k;
             do q <- arith Div df (VFloat (xq_mul (xz 2) (xq_sub up lo)));
             go r (dict_set (KInt k) (VDict (dict_set (KStr "rate_quadratic") q p)) out)
         end) keys d
  end.

(* "piecewise_quadratic" -> Some "quadratic" *)
Definition after_underscore (s : string) : option string :=
  (fix go (s : string) : option string :=
     match s with
     | EmptyString => None
     | String c r => if Ascii.eqb c "_"%char then Some r else go r
     end) s.

Fixpoint until_underscore (s : string) : string :=
  match s with
  | EmptyString => EmptyString
  | String c r => if Ascii.eqb c "_"%char then EmptyString else String c (until_underscore r)
  end.

Definition starts_with (p s : string) : bool := String.prefix p s.

Definition parse_piecewise_one (v : val) : res val :=
  match v with
  | VDict d =>
      do d' <-
        match sget "type" d with
        | Some (VStr ty) =>
            if starts_with "piecewise" ty then
              do d1 <- (match sget "progressionsfaktor" d with
                        | Some pf => if truthy pf then add_progressionsfaktor d else Ok d
                        | None => Ok d end);
              let ft := match after_underscore ty with
                        | Some r => until_underscore r | None => "" end in
              do pw <- get_piecewise_parameters d1 ft;
              as_dict pw
            else Ok d
        | Some _ => Err EType
        | None => Ok d
        end;
      Ok (VDict (dict_remove (KStr "progressionsfaktor") (dict_remove (KStr "type") d')))
  | _ => Ok v
  end.

Fixpoint parse_piecewise_parameters (d : dict) : res dict :=
  match d with
  | [] => Ok []
  | (k, v) :: r =>
      do v' <- parse_piecewise_one v;
      do r' <- parse_piecewise_parameters r;
      Ok ((k, v') :: r')
  end.

(* ---------------------------------------------------------------- *)
(* set_up_policy_environment: parameters                              *)

Definition params := list (string * val).

Fixpoint pget (g : string) (p : params) : option val :=
  match p with
  | [] => None
  | (n, v) :: r => if String.eqb g n then Some v else pget g r
  end.

Fixpoint pset (g : string) (v : val) (p : params) : params :=
  match p with
  | [] => [(g, v)]
  | (n, x) :: r => if String.eqb g n then (g, v) :: r else (n, x) :: pset g v r
  end.

Fixpoint path_get (v : val) (path : list pkey) : res val :=
  match path with
  | [] => Ok v
  | k :: r => match v with
              | VDict d => do x <- of_option EKey (dict_get k d); path_get x r
              | VList l => match k with KInt i => do x <- list_index l i; path_get x r
                                   | _ => Err EType end
              | _ => Err EType
              end
  end.

Definition pset_in (g : string) (k : string) (v : val) (p : params) : res params :=
  do gv <- of_option EKey (pget g p);
  do gd <- as_dict gv;
  Ok (pset g (VDict (dict_set (KStr k) v gd)) p).

Definition parse_kinderzuschl_max (date : Z) (p : params) : res params :=
  let y := year_of date in
  if (y <? 2023) && (2021 <=? y) then
    do kz <- of_option EKey (pget "kinderzuschl" p);
    do kg <- of_option EKey (pget "kindergeld" p);
    do a <- path_get kz [KStr "existenzminimum"; KStr "regelsatz"; KStr "kinder"];
    do b <- path_get kz [KStr "existenzminimum"; KStr "kosten_der_unterkunft"; KStr "kinder"];
    do c <- path_get kz [KStr "existenzminimum"; KStr "heizkosten"; KStr "kinder"];
    do k1 <- path_get kg [KStr "kindergeld"; KInt 1];
    do s1 <- arith Add a b;
    do s2 <- arith Add s1 c;
    do q <- arith Div s2 (VInt 12);
    do r <- arith Sub q k1;
    pset_in "kinderzuschl" "maximum" r p
  else Ok p.

Definition eval_sched_at (pv : val) (x : xq) : res val :=
  do t <- path_get pv [KStr "thresholds"];
  do r <- path_get pv [KStr "rates"];
  do i <- path_get pv [KStr "intercepts_at_lower_thresholds"];
  let as_row := fun v => match v with
                         | VList l => mapM (fun e => match e with VFloat y => Ok y
                                                             | _ => Err EType end) l
                         | _ => Err EType end in
  do tl <- as_row t;
  do il <- as_row i;
  do rl <- (match r with VList rows => mapM as_row rows | _ => Err EType end);
  do y <- pp_impl {| thr := tl; rates := rl; icpt := il |} x None;
  Ok (VFloat y).

Definition parse_year_derived (date : Z) (src dst : string) (p : params) : res params :=
  let y := year_of date in
  if 2005 <=? y then
    do g <- of_option EKey (pget "eink_st_abzuege" p);
    do pv <- path_get g [KStr src];
    do out <- eval_sched_at pv (xz y);
    pset_in "eink_st_abzuege" dst out p
  else Ok p.

Definition env_fuel : nat := 64.

Section Env.
  Variable Y : list (string * val).
  Variable groups : list string.

  Fixpoint load_all (date : Z) (gs : list string) : res params :=
    match gs with
    | [] => Ok []
    | g :: r =>
        do d <- load_group Y env_fuel date g None;
        do d' <- parse_piecewise_parameters d;
        do rest <- load_all date r;
        Ok ((g, VDict d') :: rest)
    end.

  Definition params_at (date : Z) : res params :=
    do p0 <- load_all date groups;
    do p1 <- parse_kinderzuschl_max date p0;
    do p2 <- parse_year_derived date "einführungsfaktor"
                                "einführungsfaktor_vorsorgeaufw_alter_ab_2005" p1;
    parse_year_derived date "vorsorgepauschale_rentenv_anteil"
                       "vorsorgepauschale_rentenv_anteil" p2.
End Env.

(* ---------------------------------------------------------------- *)
(* active functions at a date                                         *)

Definition active_at (date : Z) (r : reginfo) : bool :=
  negb (r_timedep r) || ((r_start r <=? date) && (date <=? r_end r)).

(* load_functions_for_date: later registrations overwrite earlier ones by name *)
Definition functions_at (reg : list reginfo) (date : Z) : list (string * string) :=
  fold_left (fun acc r =>
               if active_at date r
               then (fix set (l : list (string * string)) :=
                       match l with
                       | [] => [(r_dag r, r_fun r)]
                       | (n, f) :: t => if String.eqb n (r_dag r) then (n, r_fun r) :: t
                                        else (n, f) :: set t
                       end) acc
               else acc) reg [].
