(* Contrib.v — property C19: the statutory shape of social-insurance contributions in the wage,
   as closed forms over exact rationals, for ALL wages and ALL parameters satisfying the stated
   conditions.  The generated obligations of tools/props/c19.py prove that the regenerated ASTs of
   the straight-line rules equal these closed forms and that the parameters of every date class
   satisfy the conditions.

     w   gross wage           G  marginal-employment threshold (minijob_grenze)
     U   upper boundary of the transition zone (midijob_grenze)
     C   assessment ceiling   F  transition-zone factor        r  contribution rate (employee share) *)
From Coq Require Import ZArith QArith Qcanon Bool Lia.
From GettsimModel Require Import Num NumTac.
Open Scope Qc_scope.

Definition qmin (a b : Qc) : Qc := if Qcltb b a then b else a.

(* regular employment: r * min(w, C) *)
Definition regular (r C w : Qc) : Qc := r * qmin w C.

(* transition zone since 10/2022 (Sec. 20 (2a) SGB IV):
   total assessment base   BE(w) = F*G + (U/(U-G) - G/(U-G)*F) * (w - G)
   employee assessment base AN(w) = U/(U-G) * (w - G) *)
Definition be_new (F G U w : Qc) : Qc := F * G + (U / (U - G) - G / (U - G) * F) * (w - G).
Definition an_new (G U w : Qc) : Qc := U / (U - G) * (w - G).

(* transition zone until 9/2022: BE(w) = F*G + (U/(U-G) - G/(U-G)*F) * (w - G), employer pays r*w,
   employee pays the residual  2r*BE(w) - r*w *)
Definition an_old (r F G U w : Qc) : Qc := (1 + 1) * r * be_new F G U w - r * w.

(* the employee contribution as a function of the wage *)
Definition employee_new (r C F G U w : Qc) : Qc :=
  if Qcleb w G then 0 else if Qcleb w U then r * an_new G U w else regular r C w.
Definition employee_old (r C F G U w : Qc) : Qc :=
  if Qcleb w G then 0 else if Qcleb w U then an_old r F G U w else regular r C w.

Definition cond (r C F G U : Qc) : Prop :=
  0 <= r /\ 0 < G /\ G < U /\ U <= C /\ qfrac 1 2 <= F /\ F <= 1.

Lemma qmin_le_l a b : qmin a b <= a.
Proof. unfold qmin. destruct (Qcltb b a) eqn:E; [apply Qcltb_iff in E; qlra | qlra]. Qed.
Lemma qmin_mono a b c : a <= b -> qmin a c <= qmin b c.
Proof.
  intro H. unfold qmin. destruct (Qcltb c a) eqn:E1, (Qcltb c b) eqn:E2; qc2q; try lra.
Qed.
Lemma qmin_above a c : c <= a -> qmin a c = c.
Proof. intro H. unfold qmin. destruct (Qcltb c a) eqn:E; [reflexivity | apply Qcltb_false_iff in E; apply Qcle_antisym; assumption]. Qed.
Lemma qmin_le_U U C : U <= C -> qmin U C = U.
Proof. intro H. unfold qmin. destruct (Qcltb C U) eqn:E; [apply Qcltb_iff in E; qlra | reflexivity]. Qed.
Lemma qmin_nonneg a c : 0 <= a -> 0 <= c -> 0 <= qmin a c.
Proof. intros. unfold qmin. destruct (Qcltb c a); assumption. Qed.

(* ---- regular employment ---- *)
Theorem regular_nonneg r C w : 0 <= r -> 0 <= C -> 0 <= w -> 0 <= regular r C w.
Proof. intros Hr HC Hw. unfold regular. pose proof (qmin_nonneg w C Hw HC). qnra. Qed.

Theorem regular_monotone r C w1 w2 : 0 <= r -> w1 <= w2 -> regular r C w1 <= regular r C w2.
Proof. intros Hr H. unfold regular. pose proof (qmin_mono w1 w2 C H). qnra. Qed.

Theorem regular_flat_above_ceiling r C w : C <= w -> regular r C w = r * C.
Proof. intro H. unfold regular. rewrite (qmin_above w C H). reflexivity. Qed.

Theorem regular_bounded r C w : 0 <= r -> regular r C w <= r * C.
Proof.
  intro Hr. unfold regular. unfold qmin. destruct (Qcltb C w) eqn:E; [qlra|]. apply Qcltb_false_iff in E. qnra.
Qed.

(* ---- transition zone (since 10/2022) ---- *)
Lemma UG_pos G U : G < U -> 0 < U - G.
Proof. intro H. qlra. Qed.

Theorem an_new_at_lower G U : G < U -> an_new G U G = 0.
Proof. intro H. unfold an_new. replace (G - G) with 0 by ring. ring. Qed.

(* the reduced employee base meets the full wage at the upper boundary *)
Theorem an_new_meets_regular G U : G < U -> an_new G U U = U.
Proof.
  intro H. unfold an_new. assert (Hn : U - G <> 0) by (intro E; pose proof (UG_pos G U H); rewrite E in *; qlra).
  field. exact Hn.
Qed.

Theorem be_new_meets_regular F G U : G < U -> be_new F G U U = U.
Proof.
  intro H. unfold be_new. assert (Hn : U - G <> 0) by (intro E; pose proof (UG_pos G U H); rewrite E in *; qlra).
  field. exact Hn.
Qed.

Theorem be_new_at_lower F G U : be_new F G U G = F * G.
Proof. unfold be_new. replace (G - G) with 0 by ring. ring. Qed.

Lemma inv_pos (d : Qc) : 0 < d -> 0 < / d.
Proof.
  intro H. destruct (Qclt_le_dec 0 (/ d)) as [Hp|Hn]; [exact Hp|exfalso].
  assert (E : d * / d = 1) by (apply Qcmult_inv_r; intro E0; rewrite E0 in H; qlra).
  assert (d * / d <= 0) by qnra. rewrite E in H0. qlra.
Qed.

Theorem an_new_monotone G U w1 w2 : 0 < G -> G < U -> w1 <= w2 -> an_new G U w1 <= an_new G U w2.
Proof.
  intros HG H Hw. unfold an_new. pose proof (inv_pos (U - G) (UG_pos G U H)) as Hi.
  unfold Qcdiv. set (i := / (U - G)) in *. clearbody i.
  assert (Hc : 0 <= U * i) by qnra. set (c := U * i) in *. clearbody c. qnra.
Qed.

Theorem an_new_nonneg G U w : 0 < G -> G < U -> G <= w -> 0 <= an_new G U w.
Proof.
  intros HG H Hw. rewrite <- (an_new_at_lower G U H). apply an_new_monotone; assumption.
Qed.

(* below the upper boundary the reduced base is below the wage: the transition zone really reduces *)
Theorem an_new_le_wage G U w : 0 < G -> G < U -> G <= w -> w <= U -> an_new G U w <= w.
Proof.
  intros HG H Hw HwU. unfold an_new. pose proof (inv_pos (U - G) (UG_pos G U H)) as Hi.
  assert (E : (U - G) * / (U - G) = 1) by (apply Qcmult_inv_r; intro E0; pose proof (UG_pos G U H); rewrite E0 in *; qlra).
  unfold Qcdiv. set (i := / (U - G)) in *. clearbody i.
  (* U*i*(w-G) <= w  <=>  U*(w-G) <= w*(U-G)  <=>  G*(w-U) <= 0 *)
  assert (K : w - U * i * (w - G) = i * (G * (U - w))).
  { transitivity (w * ((U - G) * i) - U * i * (w - G)); [rewrite E; ring | ring]. }
  assert (P : 0 <= G * (U - w)) by qnra. set (g := G * (U - w)) in *. clearbody g.
  assert (0 <= i * g) by qnra. qlra.
Qed.

(* ---- the whole employee schedule (since 10/2022) ---- *)
Theorem employee_new_nonneg r C F G U w : cond r C F G U -> 0 <= w -> 0 <= employee_new r C F G U w.
Proof.
  intros (Hr & HG & HGU & HUC & _ & _) Hw. unfold employee_new.
  destruct (Qcleb w G) eqn:E1; [qlra|]. apply Qcleb_false_iff in E1.
  destruct (Qcleb w U) eqn:E2.
  - pose proof (an_new_nonneg G U w HG HGU) as H. assert (G <= w) by qlra. specialize (H H0). qnra.
  - apply regular_nonneg; qlra.
Qed.

Theorem employee_new_zero_for_marginal r C F G U w : w <= G -> employee_new r C F G U w = 0.
Proof. intro H. unfold employee_new. apply Qcleb_iff in H. rewrite H. reflexivity. Qed.

Theorem employee_new_flat_above_ceiling r C F G U w :
  cond r C F G U -> C <= w -> G < w -> U < w -> employee_new r C F G U w = r * C.
Proof.
  intros _ HC HG HU. unfold employee_new.
  assert (E1 : Qcleb w G = false) by (apply Qcleb_false_iff; exact HG).
  assert (E2 : Qcleb w U = false) by (apply Qcleb_false_iff; exact HU).
  rewrite E1, E2. apply regular_flat_above_ceiling. exact HC.
Qed.

(* the reduced contribution meets the regular one at the upper boundary *)
Theorem employee_new_meets_regular r C F G U : cond r C F G U ->
  r * an_new G U U = regular r C U.
Proof.
  intros (_ & _ & HGU & HUC & _ & _). rewrite (an_new_meets_regular G U HGU). unfold regular, qmin.
  destruct (Qcltb C U) eqn:E; [apply Qcltb_iff in E; qlra | reflexivity].
Qed.

Theorem employee_new_monotone r C F G U w1 w2 :
  cond r C F G U -> 0 <= w1 -> w1 <= w2 -> employee_new r C F G U w1 <= employee_new r C F G U w2.
Proof.
  intros Hc Hw1 Hw. pose proof Hc as (Hr & HG & HGU & HUC & _ & _). unfold employee_new.
  destruct (Qcleb w1 G) eqn:A1.
  - (* w1 marginal: 0 <= anything *)
    change (0 <= employee_new r C F G U w2). apply employee_new_nonneg; [exact Hc | apply Qcleb_iff in A1; qlra].
  - apply Qcleb_false_iff in A1.
    assert (B1 : Qcleb w2 G = false) by (apply Qcleb_false_iff; qlra). rewrite B1.
    destruct (Qcleb w1 U) eqn:A2.
    + apply Qcleb_iff in A2. destruct (Qcleb w2 U) eqn:B2.
      * pose proof (an_new_monotone G U w1 w2 HG HGU Hw). qnra.
      * apply Qcleb_false_iff in B2.
        (* r*AN(w1) <= r*AN(U) = r*U = regular U <= regular w2 *)
        pose proof (an_new_monotone G U w1 U HG HGU A2) as M. rewrite (an_new_meets_regular G U HGU) in M.
        pose proof (regular_monotone r C U w2 Hr) as R. assert (U <= w2) by qlra. specialize (R H).
        unfold regular in R at 1. rewrite (qmin_le_U U C HUC) in R. qnra.
    + apply Qcleb_false_iff in A2. assert (B2 : Qcleb w2 U = false) by (apply Qcleb_false_iff; qlra).
      rewrite B2. apply regular_monotone; assumption.
Qed.

(* ---- boolean form of the parameter conditions ---- *)
Definition cond_b (r C F G U : Qc) : bool :=
  Qcleb 0 r && Qcltb 0 G && Qcltb G U && Qcleb U C && Qcleb (qfrac 1 2) F && Qcleb F 1.

Lemma cond_b_sound r C F G U : cond_b r C F G U = true -> cond r C F G U.
Proof.
  unfold cond_b, cond. repeat rewrite andb_true_iff. intros [[[[[H1 H2] H3] H4] H5] H6].
  repeat split; first [apply Qcleb_iff; assumption | apply Qcltb_iff; assumption].
Qed.

(* ---- transition zone until 9/2022: the employee pays the residual 2 r BE(w) - r w ---- *)
Theorem an_old_meets_regular r F G U : G < U -> an_old r F G U U = r * U.
Proof. intro H. unfold an_old. rewrite (be_new_meets_regular F G U H). ring. Qed.

Theorem an_old_at_lower_nonneg r F G U : 0 <= r -> 0 < G -> qfrac 1 2 <= F -> 0 <= an_old r F G U G.
Proof.
  intros Hr HG HF. unfold an_old. rewrite be_new_at_lower.
  assert (E : (1 + 1) * r * (F * G) - r * G = r * (G * ((1 + 1) * F - 1))) by ring. rewrite E.
  assert (H2 : 0 <= (1 + 1) * F - 1) by (assert (K : qfrac 1 2 + qfrac 1 2 = 1) by (apply Qc_is_canon; reflexivity); qlra).
  assert (0 <= G * ((1 + 1) * F - 1)) by qnra. qnra.
Qed.

(* shares: employee residual + employer share r*w = total contribution 2 r BE(w) *)
Theorem old_shares_sum r F G U w : an_old r F G U w + r * w = (1 + 1) * r * be_new F G U w.
Proof. unfold an_old. ring. Qed.

(* since 10/2022: employer share := total - employee share, by definition of the residual rule *)
Theorem new_shares_sum (total employee : Qc) : employee + (total - employee) = total.
Proof. ring. Qed.

(* the slope of the residual is r (U + G - 2 G F) / (U - G) >= 0 *)
Theorem an_old_monotone r F G U w1 w2 :
  0 <= r -> 0 < G -> G < U -> F <= 1 -> w1 <= w2 -> an_old r F G U w1 <= an_old r F G U w2.
Proof.
  intros Hr HG HGU HF Hw. unfold an_old, be_new.
  pose proof (inv_pos (U - G) (UG_pos G U HGU)) as Hi.
  assert (E : (U - G) * / (U - G) = 1) by (apply Qcmult_inv_r; intro E0; pose proof (UG_pos G U HGU); rewrite E0 in *; qlra).
  unfold Qcdiv. set (i := / (U - G)) in *. clearbody i.
  (* difference = r (w2 - w1) (2 (U - G F) i - 1) and (U - G F) i >= (U - G) i = 1 *)
  assert (D : ((1 + 1) * r * (F * G + (U * i - G * i * F) * (w2 - G)) - r * w2)
              - ((1 + 1) * r * (F * G + (U * i - G * i * F) * (w1 - G)) - r * w1)
              = r * ((w2 - w1) * ((1 + 1) * ((U - G * F) * i) - 1))) by ring.
  assert (S1 : (U - G) * i <= (U - G * F) * i).
  { assert (U - G <= U - G * F) by qnra. set (a := U - G) in *. set (b := U - G * F) in *. clearbody a b. qnra. }
  rewrite E in S1.
  assert (S2 : 0 <= (1 + 1) * ((U - G * F) * i) - 1) by qlra.
  set (s := (1 + 1) * ((U - G * F) * i) - 1) in *. clearbody s.
  assert (S3 : 0 <= (w2 - w1) * s) by qnra. set (t := (w2 - w1) * s) in *. clearbody t.
  assert (0 <= r * t) by qnra. qlra.
Qed.
