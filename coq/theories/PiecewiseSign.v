(* PiecewiseSign.v — a reflective checker that a piecewise-polynomial schedule is non-negative
   (everywhere, or from a lower bound of the argument on), with its soundness theorem.  Used by the
   abstract interpreter (Absint.v) for calls of piecewise_polynomial with concrete parameters. *)
From Coq Require Import ZArith QArith Qcanon Bool List Lia.
From GettsimModel Require Import Num Val Piecewise NumTac PiecewiseProofs.
Import ListNotations.
Open Scope Qc_scope.

Definition rates_nonneg (p : qpiece) : bool := forallb (Qcleb 0) (p_rs p).

(* piece [cur] is non-negative on [p_t cur, p_t next): intercept >= 0 and either all rates >= 0,
   or the piece is linear and still >= 0 at the next threshold *)
Definition piece_ok (cur : qpiece) (next : option qpiece) : bool :=
  Qcleb 0 (p_c cur) &&
  (rates_nonneg cur || (deg1 cur && match next with Some p => Qcleb 0 (pval cur (p_t p)) | None => false end)).

(* a piece that ends at or before the lower bound of the argument is irrelevant *)
Definition skip (lo : option Qc) (p : qpiece) : bool :=
  match lo with Some l => Qcleb (p_t p) l | None => false end.

Fixpoint nn_pieces (lo : option Qc) (cur : qpiece) (rest : list qpiece) : bool :=
  match rest with
  | [] => piece_ok cur None
  | p :: r => (skip lo p || piece_ok cur (Some p)) && nn_pieces lo p r
  end.

Definition nn_chk (lo : option Qc) (c0 : Qc) (ps : list qpiece) : bool :=
  match ps with
  | [] => Qcleb 0 c0
  | p :: r => (skip lo p || Qcleb 0 c0) && nn_pieces lo p r
  end.

Definition above (lo : option Qc) (x : Qc) : Prop := match lo with Some l => l <= x | None => True end.

Lemma qpow_nonneg u : 0 <= u -> forall n, 0 <= qpow u n.
Proof. intros Hu. induction n as [|n IH]; cbn [qpow]; [qlra | qnra]. Qed.

Lemma qpoly_nonneg u : 0 <= u -> forall rs pol, forallb (Qcleb 0) rs = true -> 0 <= qpoly rs pol u.
Proof.
  intro Hu. induction rs as [|r rs IH]; intros pol H; cbn [qpoly]; [qlra|].
  cbn [forallb] in H. apply andb_true_iff in H. destruct H as [Hr Hrs]. apply Qcleb_iff in Hr.
  pose proof (qpow_nonneg u Hu pol) as Hp. specialize (IH (S pol) Hrs).
  set (a := qpow u pol) in *. set (b := qpoly rs (S pol) u) in *. clearbody a b. qnra.
Qed.

Lemma piece_ok_nonneg cur next x :
  piece_ok cur next = true -> p_t cur <= x ->
  (match next with Some p => x < p_t p | None => True end) -> 0 <= pval cur x.
Proof.
  intros H Hlo Hhi. unfold piece_ok in H. apply andb_true_iff in H. destruct H as [Hc H]. apply Qcleb_iff in Hc.
  apply orb_true_iff in H. destruct H as [H|H].
  - unfold pval. assert (Hu : 0 <= x - p_t cur) by qlra.
    pose proof (qpoly_nonneg (x - p_t cur) Hu (p_rs cur) 1%nat H) as Hq.
    set (b := qpoly (p_rs cur) 1 (x - p_t cur)) in *. clearbody b. qlra.
  - apply andb_true_iff in H. destruct H as [Hd Hn]. destruct next as [p|]; [|discriminate].
    apply Qcleb_iff in Hn. rewrite (pval_lin cur _ Hd) in Hn. rewrite (pval_lin cur x Hd).
    set (c := p_c cur) in *. set (r := p_r1 cur) in *. set (t := p_t cur) in *. set (T := p_t p) in *.
    clearbody c r t T. destruct (Qclt_le_dec r 0) as [Hr|Hr]; qnra.
Qed.

Lemma nn_pieces_sound lo x : above lo x -> forall rest cur,
  nn_pieces lo cur rest = true -> p_t cur <= x -> 0 <= ev cur rest x.
Proof.
  intro Hab. induction rest as [|p r IH]; intros cur H Hlo; cbn [ev nn_pieces] in *.
  - apply (piece_ok_nonneg cur None x H Hlo I).
  - apply andb_true_iff in H. destruct H as [H1 H2].
    destruct (Qcleb (p_t p) x) eqn:E.
    + apply Qcleb_iff in E. apply (IH p H2 E).
    + apply Qcleb_false_iff in E. apply orb_true_iff in H1. destruct H1 as [Hs|Hok].
      * exfalso. unfold skip in Hs. destruct lo as [l|]; [|discriminate]. apply Qcleb_iff in Hs. cbn in Hab. qlra.
      * apply (piece_ok_nonneg cur (Some p) x Hok Hlo E).
Qed.

Theorem nn_chk_sound lo c0 ps : nn_chk lo c0 ps = true -> forall x, above lo x -> 0 <= ev0 c0 ps x.
Proof.
  intros H x Hab. unfold nn_chk in H. destruct ps as [|p r]; cbn [ev0].
  - apply Qcleb_iff. exact H.
  - apply andb_true_iff in H. destruct H as [H1 H2].
    destruct (Qcleb (p_t p) x) eqn:E.
    + apply Qcleb_iff in E. apply (nn_pieces_sound lo x Hab r p H2 E).
    + apply Qcleb_false_iff in E. apply orb_true_iff in H1. destruct H1 as [Hs|Hc].
      * exfalso. unfold skip in Hs. destruct lo as [l|]; [|discriminate]. apply Qcleb_iff in Hs. cbn in Hab. qlra.
      * apply Qcleb_iff. exact Hc.
Qed.
