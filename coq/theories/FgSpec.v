(* FgSpec.v — UNBOUNDED specification of the family-unit builder fg_id (Groupings.fg_loop with the children of
   the partner visited): for a table of ANY size with unique non-negative person ids, symmetric co-resident
   partner pointers, eligible children (under 25, childless, living with a parent) without a partner and whose
   co-resident parents are one person or partners,
     - every person who is not an eligible child shares the id exactly with the own partner,
     - every eligible child has the id of its co-resident parent(s).
   Proved by an invariant over the dictionary loop (J1–J4 below); the right-hand sides do not mention row
   positions, so the partition does not depend on the row order. *)
From Coq Require Import ZArith Bool List Lia.
From GettsimModel Require Import Num Val Groupings CoupleSpec.
Import ListNotations.
Open Scope Z_scope.

(* ---- association lists ---- *)
Lemma dget_in {A} k (v : A) l : dget k l = Some v -> In (k, v) l.
Proof.
  induction l as [|[k' v'] r IH]; [discriminate|]. cbn [dget]. destruct (Z.eqb_spec k k') as [->|Hne].
  - intros [= ->]. now left.
  - intros H. right. now apply IH.
Qed.

Lemma dget_nodup {A} k (v : A) l : NoDup (map fst l) -> In (k, v) l -> dget k l = Some v.
Proof.
  induction l as [|[k' v'] r IH]; [contradiction|]. cbn [map fst]. intros Hnd [E|Hin].
  - injection E as -> ->. apply dget_cons_eq.
  - inversion Hnd as [|? ? Hnotin Hnd']; subst. cbn [dget]. destruct (Z.eqb_spec k k') as [->|Hne].
    + exfalso. apply Hnotin. change k' with (fst (k', v)). now apply in_map.
    + now apply IH.
Qed.

Definition is_parent_b (p : Z) (c : person) : bool :=
  ((0 <=? elt1 c) && (elt1 c =? p)) || ((0 <=? elt2 c) && (elt2 c =? p)).

Lemma children_of_in ps p k : In k (children_of ps p) <-> exists c, In c ps /\ pid c = k /\ is_parent_b p c = true.
Proof.
  unfold children_of. rewrite in_flat_map. split.
  - intros (c & Hc & Hk). exists c. split; [exact Hc|]. unfold is_parent_b. apply in_app_or in Hk as [Hk|Hk].
    + destruct ((0 <=? elt1 c) && (elt1 c =? p)) eqn:E; [|contradiction]. destruct Hk as [<-|[]]. split; [reflexivity|reflexivity].
    + destruct ((0 <=? elt2 c) && (elt2 c =? p)) eqn:E; [|contradiction]. destruct Hk as [<-|[]]. split; [reflexivity|apply orb_true_r].
  - intros (c & Hc & <- & Hp). exists c. split; [exact Hc|]. unfold is_parent_b in Hp. apply in_or_app.
    apply orb_true_iff in Hp as [Hp|Hp]; rewrite Hp; [left|right]; now left.
Qed.

Section Fg.
  Variable all : list person.
  Hypothesis Hnd : NoDup (map pid all).
  Hypothesis Hpos : forall x, In x all -> 0 <= pid x.

  Definition partner (x y : person) : Prop := 0 <= einst x /\ einst x = pid y.
  Definition co_parent (p c : person) : Prop := is_parent_b (pid p) c = true /\ hh p = hh c.
  Definition elig (c : person) : bool := is_elig_child all c.

  Hypothesis Hsym : forall x, In x all -> 0 <= einst x ->
    exists y, In y all /\ pid y = einst x /\ einst y = pid x /\ hh y = hh x.
  Hypothesis Hnopart : forall c, In c all -> elig c = true -> einst c < 0.
  Hypothesis Hpar : forall c p1 p2, In c all -> In p1 all -> In p2 all -> elig c = true ->
    co_parent p1 c -> co_parent p2 c -> pid p1 = pid p2 \/ partner p1 p2.

  Let idx := index_map all.

  Lemma pid_inj x y : In x all -> In y all -> pid x = pid y -> x = y.
  Proof.
    intros Hx Hy E. apply In_nth_error in Hx as [i Hi]. apply In_nth_error in Hy as [j Hj].
    assert (i = j).
    { apply (proj1 (NoDup_nth_error (map pid all)) Hnd).
      - rewrite map_length. apply nth_error_Some. congruence.
      - rewrite !nth_error_map, Hi, Hj. cbn. now rewrite E. }
    subst j. congruence.
  Qed.

  Lemma idx_lookup x : In x all -> dget (pid x) idx = Some x.
  Proof.
    intros Hx. unfold idx, index_map. apply dget_nodup.
    - rewrite <- map_rev, map_map. cbn [fst]. rewrite map_rev. apply NoDup_rev. exact Hnd.
    - rewrite <- in_rev. apply in_map_iff. exists x. split; [reflexivity|exact Hx].
  Qed.

  Lemma idx_sound c cx : dget c idx = Some cx -> In cx all /\ pid cx = c.
  Proof.
    intros H. apply dget_in in H. unfold idx, index_map in H. rewrite <- in_rev in H.
    apply in_map_iff in H as (x & E & Hx). injection E as <- <-. split; [exact Hx|reflexivity].
  Qed.

  Definition childless_b (c : person) : bool := match children_of all (pid c) with [] => true | _ => false end.

  Lemma eligible_child_row h cx : In cx all ->
    eligible_child all idx h (pid cx) = (hh cx =? h) && (alter cx <? 25) && childless_b cx.
  Proof. intros Hc. unfold eligible_child. rewrite (idx_lookup cx Hc). reflexivity. Qed.

  Lemma elig_iff c : elig c = true <->
    alter c < 25 /\ childless_b c = true /\ exists p, In p all /\ co_parent p c.
  Proof.
    unfold elig, is_elig_child, childless_b, co_parent, is_parent_b. rewrite !andb_true_iff, Z.ltb_lt, existsb_exists.
    split.
    - intros [[H1 H2] (p & Hp & H3)]. apply andb_true_iff in H3 as [H3 H4]. apply Z.eqb_eq in H4.
      repeat split; try assumption. exists p. repeat split; assumption.
    - intros (H1 & H2 & p & Hp & H3 & H4). repeat split; try assumption. exists p. split; [exact Hp|].
      rewrite H3, H4. cbn. apply Z.eqb_refl.
  Qed.

  (* a parent is never an eligible child *)
  Lemma parent_not_elig p c : In c all -> is_parent_b (pid p) c = true -> elig p = false.
  Proof.
    intros Hc Hp. destruct (elig p) eqn:E; [|reflexivity]. exfalso.
    apply elig_iff in E as (_ & Hcl & _). unfold childless_b in Hcl.
    assert (In (pid c) (children_of all (pid p))) by (apply children_of_in; exists c; auto).
    destruct (children_of all (pid p)); [contradiction|discriminate].
  Qed.

  (* ---- one step of the loop ---- *)
  Definition kids (x : person) : list Z :=
    (children_of all (pid x) ++ (if 0 <=? einst x then children_of all (einst x) else []))%list.

  Definition step_m (x : person) (m : list (Z * Z)) (next : Z) : list (Z * Z) :=
    fold_left (fun acc c => if eligible_child all idx (hh x) c then (c, next) :: acc else acc) (kids x)
              (if 0 <=? einst x then (einst x, next) :: (pid x, next) :: m else (pid x, next) :: m).

  Definition written (x : person) (k : Z) : bool :=
    (k =? pid x) || ((0 <=? einst x) && (k =? einst x))
    || existsb (fun c => (k =? c) && eligible_child all idx (hh x) c) (kids x).

  Lemma fold_dget (h next : Z) : forall l acc k,
    dget k (fold_left (fun acc c => if eligible_child all idx h c then (c, next) :: acc else acc) l acc)
    = if existsb (fun c => (k =? c) && eligible_child all idx h c) l then Some next else dget k acc.
  Proof.
    induction l as [|c r IH]; intros acc k; [reflexivity|]. cbn [fold_left existsb]. rewrite IH.
    destruct (existsb (fun c0 => (k =? c0) && eligible_child all idx h c0) r); [now rewrite orb_true_r|].
    rewrite orb_false_r. destruct (eligible_child all idx h c).
    - cbn [dget]. rewrite andb_true_r. destruct (k =? c); reflexivity.
    - rewrite andb_false_r. reflexivity.
  Qed.

  Lemma step_dget x m next k : dget k (step_m x m next) = if written x k then Some next else dget k m.
  Proof.
    unfold step_m, written. rewrite fold_dget.
    destruct (existsb (fun c => (k =? c) && eligible_child all idx (hh x) c) (kids x)); [now rewrite orb_true_r|].
    rewrite orb_false_r. destruct (0 <=? einst x); cbn [dget andb].
    - destruct (k =? einst x); [now rewrite orb_true_r|]. rewrite orb_false_r. destruct (k =? pid x); reflexivity.
    - rewrite orb_false_r. destruct (k =? pid x); reflexivity.
  Qed.

  Lemma fg_loop_cons x r m next :
    fg_loop true all idx (x :: r) m next =
    match dget (pid x) m with
    | Some _ => fg_loop true all idx r m next
    | None => fg_loop true all idx r (step_m x m next) (next + 1)
    end.
  Proof. reflexivity. Qed.

  (* which persons a step writes *)
  Lemma written_person x z : In x all -> In z all ->
    (written x (pid z) = true <->
     z = x \/ partner x z \/
     (elig z = true /\ hh z = hh x /\ (is_parent_b (pid x) z = true \/ (0 <= einst x /\ is_parent_b (einst x) z = true)))).
  Proof.
    intros Hx Hz. unfold written. rewrite !orb_true_iff, andb_true_iff, Z.leb_le, !Z.eqb_eq, existsb_exists. split.
    - intros [[H|[H0 H]]|(c & Hc & H)].
      + left. now apply pid_inj.
      + right. left. split; [exact H0|now symmetry].
      + apply andb_true_iff in H as [Hk He]. apply Z.eqb_eq in Hk. subst c.
        rewrite (eligible_child_row _ z Hz) in He. rewrite !andb_true_iff in He. destruct He as [[Hh Ha] Hcl].
        apply Z.eqb_eq in Hh. apply Z.ltb_lt in Ha.
        assert (Hpar' : is_parent_b (pid x) z = true \/ (0 <= einst x /\ is_parent_b (einst x) z = true)).
        { unfold kids in Hc. apply in_app_or in Hc as [Hc|Hc].
          - left. apply children_of_in in Hc as (c & Hcin & Hpc & Hp). now rewrite <- (pid_inj c z Hcin Hz Hpc).
          - right. destruct (0 <=? einst x) eqn:E0; [|contradiction]. apply Z.leb_le in E0. split; [exact E0|].
            apply children_of_in in Hc as (c & Hcin & Hpc & Hp). now rewrite <- (pid_inj c z Hcin Hz Hpc). }
        right. right. split; [|split; [exact Hh|exact Hpar']].
        apply elig_iff. split; [exact Ha|split; [exact Hcl|]].
        destruct Hpar' as [Hp|[H0 Hp]].
        * exists x. split; [exact Hx|]. split; [exact Hp|now symmetry].
        * destruct (Hsym x Hx H0) as (y & Hy & Hpy & _ & Hhy). exists y. split; [exact Hy|].
          split; [now rewrite Hpy|]. congruence.
    - intros [->|[[H0 H]|(He & Hh & Hp)]].
      + left. now left.
      + left. right. split; [exact H0|now symmetry].
      + right. exists (pid z). split.
        * unfold kids. apply in_or_app. destruct Hp as [Hp|[H0 Hp]].
          -- left. apply children_of_in. exists z. auto.
          -- right. apply Z.leb_le in H0. rewrite H0. apply children_of_in. exists z. auto.
        * rewrite Z.eqb_refl. cbn [andb]. rewrite (eligible_child_row _ z Hz).
          apply elig_iff in He as (Ha & Hcl & _). rewrite Hcl, andb_true_r. apply andb_true_iff. split; [now apply Z.eqb_eq|now apply Z.ltb_lt].
  Qed.

  (* ---- facts about partners ---- *)
  Lemma partner_sym x y : In x all -> In y all -> partner x y -> partner y x.
  Proof.
    intros Hx Hy [H0 H1]. destruct (Hsym x Hx H0) as (y' & Hy' & Hp & He & _).
    assert (y' = y) by (apply pid_inj; auto; congruence). subst y'. split; [rewrite He; now apply Hpos|exact He].
  Qed.

  Lemma partner_hh x y : In x all -> In y all -> partner x y -> hh y = hh x.
  Proof.
    intros Hx Hy [H0 H1]. destruct (Hsym x Hx H0) as (y' & Hy' & Hp & _ & Hh).
    assert (y' = y) by (apply pid_inj; auto; congruence). now subst y'.
  Qed.

  Lemma partner_adult x y : In x all -> partner x y -> elig x = false.
  Proof.
    intros Hx [H0 _]. destruct (elig x) eqn:E; [|reflexivity]. pose proof (Hnopart x Hx E). lia.
  Qed.

  Lemma partner_unique x y1 y2 : In y1 all -> In y2 all -> partner x y1 -> partner x y2 -> y1 = y2.
  Proof. intros H1 H2 [_ E1] [_ E2]. apply pid_inj; auto; congruence. Qed.

  (* ---- the invariant of the loop ---- *)
  Definition cid (m : list (Z * Z)) (z : person) : option Z := dget (pid z) m.

  Record Inv (done : list person) (m : list (Z * Z)) (next : Z) : Prop := mkInv {
    J1 : forall k id, dget k m = Some id -> id < next;
    J2 : forall z, In z all -> elig z = false ->
         (cid m z <> None <-> (In z done \/ exists y, In y done /\ partner z y));
    J3 : forall z1 z2 i, In z1 all -> In z2 all -> elig z1 = false -> elig z2 = false ->
         cid m z1 = Some i -> cid m z2 = Some i -> z1 = z2 \/ partner z1 z2;
    J3' : forall z1 z2, In z1 all -> In z2 all -> partner z1 z2 -> cid m z1 = cid m z2;
    J4 : forall c p, In c all -> In p all -> elig c = true -> co_parent p c -> cid m p <> None -> cid m c = cid m p
  }.

  Lemma inv_skip done m next x : (forall y, In y done -> In y all) ->
    Inv done m next -> In x all -> ~ In x done -> cid m x <> None -> Inv (done ++ [x]) m next.
  Proof.
    intros Hsub [I1 I2 I3 I3' I4] Hx Hnd' Hc. constructor; auto.
    intros z Hz Ha. rewrite (I2 z Hz Ha). split.
    - intros [H|(y & Hy & Hp)]; [left; apply in_or_app; now left|right; exists y; split; [apply in_or_app; now left|exact Hp]].
    - intros [H|(y & Hy & Hp)].
      + apply in_app_or in H as [H|[<-|[]]]; [now left|]. now apply (I2 x Hx Ha).
      + apply in_app_or in Hy as [Hy|[<-|[]]]; [right; eauto|].
        (* z's partner is x, which already has an id: z was processed *)
        pose proof (partner_sym z x Hz Hx Hp) as Hxz.
        pose proof (partner_adult x z Hx Hxz) as Hax.
        apply (I2 x Hx Hax) in Hc as [Hc|(y' & Hy' & Hp')]; [contradiction|].
        left. assert (y' = z); [|now subst y'].
        apply (partner_unique x); auto.
  Qed.

  (* for a person that is not an eligible child, a step writes exactly the head and the partner *)
  Lemma written_adult x z : In x all -> In z all -> elig z = false ->
    (written x (pid z) = true <-> z = x \/ partner x z).
  Proof.
    intros Hx Hz Ha. rewrite (written_person x z Hx Hz). split.
    - intros [H|[H|(He & _)]]; [now left|now right|congruence].
    - intros [H|H]; [now left|right; now left].
  Qed.

  Lemma cid_step x m next z : cid (step_m x m next) z = if written x (pid z) then Some next else cid m z.
  Proof. apply step_dget. Qed.

  Lemma inv_step_adult done m next x : (forall y, In y done -> In y all) ->
    Inv done m next -> In x all -> ~ In x done -> cid m x = None -> elig x = false ->
    Inv (done ++ [x]) (step_m x m next) (next + 1).
  Proof.
    intros Hsub [I1 I2 I3 I3' I4] Hx Hnd' Hc Hax. constructor.
    - (* J1 *) intros k id. rewrite step_dget. destruct (written x k); [intros [= <-]; lia|]. intros H. apply I1 in H. lia.
    - (* J2 *) intros z Hz Ha. rewrite cid_step. destruct (written x (pid z)) eqn:W.
      + apply (written_adult x z Hx Hz Ha) in W. split; [intros _|intros _; discriminate].
        destruct W as [->|Hp]; [left; apply in_or_app; right; now left|].
        right. exists x. split; [apply in_or_app; right; now left|now apply partner_sym].
      + rewrite (I2 z Hz Ha). split.
        * intros [H|(y & Hy & Hp)]; [left; apply in_or_app; now left|right; exists y; split; [apply in_or_app; now left|exact Hp]].
        * intros [H|(y & Hy & Hp)].
          -- apply in_app_or in H as [H|[<-|[]]]; [now left|].
             exfalso. assert (written x (pid x) = true) by (apply written_adult; auto). congruence.
          -- apply in_app_or in Hy as [Hy|[<-|[]]]; [right; eauto|].
             exfalso. assert (written x (pid z) = true) by (apply written_adult; auto; right; now apply partner_sym). congruence.
    - (* J3 *) intros z1 z2 i H1 H2 A1 A2. rewrite !cid_step.
      destruct (written x (pid z1)) eqn:W1, (written x (pid z2)) eqn:W2.
      + intros _ _. apply (written_adult x z1 Hx H1 A1) in W1. apply (written_adult x z2 Hx H2 A2) in W2.
        destruct W1 as [->|P1], W2 as [->|P2].
        * now left.
        * now right.
        * right. now apply partner_sym.
        * left. now apply (partner_unique x).
      + intros [= <-] H. apply I1 in H. lia.
      + intros H [= <-]. apply I1 in H. lia.
      + apply I3; assumption.
    - (* J3' *) intros z1 z2 H1 H2 P. rewrite !cid_step.
      pose proof (partner_adult z1 z2 H1 P) as A1.
      pose proof (partner_sym z1 z2 H1 H2 P) as P'. pose proof (partner_adult z2 z1 H2 P') as A2.
      destruct (written x (pid z1)) eqn:W1, (written x (pid z2)) eqn:W2; try reflexivity.
      + exfalso. apply (written_adult x z1 Hx H1 A1) in W1.
        assert (written x (pid z2) = true); [|congruence]. apply (written_adult x z2 Hx H2 A2).
        destruct W1 as [->|P1]; [now right|]. left.
        apply (partner_unique z1); auto. now apply partner_sym.
      + exfalso. apply (written_adult x z2 Hx H2 A2) in W2.
        assert (written x (pid z1) = true); [|congruence]. apply (written_adult x z1 Hx H1 A1).
        destruct W2 as [->|P2]; [now right|]. left.
        apply (partner_unique z2); auto. now apply partner_sym.
      + now apply I3'.
    - (* J4 *) intros c p Hc' Hp He Hcp. rewrite !cid_step.
      pose proof (parent_not_elig p c Hc' (proj1 Hcp)) as Ap.
      destruct (written x (pid p)) eqn:Wp.
      + intros _. apply (written_adult x p Hx Hp Ap) in Wp.
        assert (Wc : written x (pid c) = true).
        { apply (written_person x c Hx Hc'). right. right. split; [exact He|]. destruct Hcp as [Hpar' Hh].
          destruct Wp as [->|P]; [split; [now symmetry|now left]|].
          split; [rewrite <- Hh; now apply partner_hh|]. right. destruct P as [P0 P1]. split; [exact P0|now rewrite P1]. }
        now rewrite Wc.
      + intros Hcid. rewrite (I4 c p Hc' Hp He Hcp Hcid).
        destruct (written x (pid c)) eqn:Wc; [|reflexivity]. exfalso.
        apply (written_person x c Hx Hc') in Wc as [->|[P|(_ & Hh & Hq)]].
        * congruence.
        * pose proof (partner_sym x c Hx Hc' P) as P'. pose proof (partner_adult c x Hc' P'). congruence.
        * (* the writer's couple is a co-resident parent couple of c; so is p: p belongs to the couple *)
          assert (Hw : written x (pid p) = true); [|congruence]. apply (written_adult x p Hx Hp Ap).
          destruct Hq as [Hq|[Hq0 Hq]].
          -- assert (Hx_cp : co_parent x c) by (split; [exact Hq|now symmetry]).
             destruct (Hpar c p x Hc' Hp Hx He Hcp Hx_cp) as [E|P]; [left; now apply pid_inj|right; now apply partner_sym].
          -- destruct (Hsym x Hx Hq0) as (y & Hy & Hpy & Hey & Hhy).
             assert (Pxy : partner x y) by (split; [exact Hq0|now symmetry]).
             assert (Hy_cp : co_parent y c) by (split; [now rewrite Hpy|congruence]).
             destruct (Hpar c p y Hc' Hp Hy He Hcp Hy_cp) as [E|P].
             ++ right. assert (p = y) by now apply pid_inj. now subst p.
             ++ left. apply (partner_unique y); auto; now apply partner_sym.
  Qed.

  (* an eligible child that is processed before its parents only writes itself *)
  Lemma written_child x z : In x all -> In z all -> elig x = true -> (written x (pid z) = true <-> z = x).
  Proof.
    intros Hx Hz He. rewrite (written_person x z Hx Hz). split; [|now left].
    pose proof (Hnopart x Hx He) as Hn.
    intros [H|[[H0 _]|(_ & _ & [Hq|[H0 _]])]]; [exact H|lia| |lia].
    pose proof (parent_not_elig x z Hz Hq). congruence.
  Qed.

  Lemma inv_step_child done m next x : (forall y, In y done -> In y all) ->
    Inv done m next -> In x all -> ~ In x done -> cid m x = None -> elig x = true ->
    Inv (done ++ [x]) (step_m x m next) (next + 1).
  Proof.
    intros Hsub [I1 I2 I3 I3' I4] Hx Hnd' Hc Hex.
    assert (Wad : forall z, In z all -> elig z = false -> written x (pid z) = false).
    { intros z Hz Ha. destruct (written x (pid z)) eqn:W; [|reflexivity].
      apply (written_child x z Hx Hz Hex) in W. subst z. congruence. }
    constructor.
    - intros k id. rewrite step_dget. destruct (written x k); [intros [= <-]; lia|]. intros H. apply I1 in H. lia.
    - intros z Hz Ha. rewrite cid_step, (Wad z Hz Ha), (I2 z Hz Ha). split.
      + intros [H|(y & Hy & Hp)]; [left; apply in_or_app; now left|right; exists y; split; [apply in_or_app; now left|exact Hp]].
      + intros [H|(y & Hy & Hp)].
        * apply in_app_or in H as [H|[<-|[]]]; [now left|congruence].
        * apply in_app_or in Hy as [Hy|[<-|[]]]; [right; eauto|].
          exfalso. pose proof (partner_sym z x Hz Hx Hp) as P. pose proof (partner_adult x z Hx P). congruence.
    - intros z1 z2 i H1 H2 A1 A2. rewrite !cid_step, (Wad z1 H1 A1), (Wad z2 H2 A2). apply I3; assumption.
    - intros z1 z2 H1 H2 P. rewrite !cid_step.
      rewrite (Wad z1 H1 (partner_adult z1 z2 H1 P)), (Wad z2 H2 (partner_adult z2 z1 H2 (partner_sym z1 z2 H1 H2 P))).
      now apply I3'.
    - intros c p Hc' Hp He Hcp. rewrite !cid_step.
      rewrite (Wad p Hp (parent_not_elig p c Hc' (proj1 Hcp))). intros Hcid.
      destruct (written x (pid c)) eqn:Wc.
      + apply (written_child x c Hx Hc' Hex) in Wc. subst c. exfalso.
        rewrite <- (I4 x p Hx Hp He Hcp Hcid) in Hcid. contradiction.
      + now apply I4.
  Qed.

  (* ---- the whole loop ---- *)
  Lemma nodup_all : NoDup all.
  Proof. apply (NoDup_map_inv pid). exact Hnd. Qed.

  Lemma loop_inv : forall rest done m next, all = (done ++ rest)%list -> Inv done m next ->
    exists next', Inv all (fg_loop true all idx rest m next) next'.
  Proof.
    induction rest as [|x r IH]; intros done m next Hall HI.
    - rewrite app_nil_r in Hall. subst done. exists next. exact HI.
    - assert (Hsub : forall y, In y done -> In y all) by (intros y Hy; rewrite Hall; apply in_or_app; now left).
      assert (Hx : In x all) by (rewrite Hall; apply in_or_app; right; now left).
      assert (Hnx : ~ In x done).
      { pose proof nodup_all as N. rewrite Hall in N. apply NoDup_remove_2 in N. intro H. apply N. apply in_or_app. now left. }
      assert (Hall' : all = ((done ++ [x]) ++ r)%list) by (rewrite <- app_assoc; exact Hall).
      rewrite fg_loop_cons. destruct (dget (pid x) m) as [i|] eqn:E.
      + apply (IH (done ++ [x])%list m next Hall'). apply inv_skip; auto. unfold cid. congruence.
      + destruct (elig x) eqn:Ex.
        * apply (IH (done ++ [x])%list _ (next + 1) Hall'). now apply inv_step_child.
        * apply (IH (done ++ [x])%list _ (next + 1) Hall'). now apply inv_step_adult.
  Qed.

  Lemma inv_init : Inv [] [] 0.
  Proof.
    constructor; try (intros; discriminate).
    - intros z Hz Ha. split; [intros H; now contradiction H|]. intros [[]|(y & [] & _)].
    - intros; reflexivity.
    - intros c p _ _ _ _ H. now contradiction H.
  Qed.

  (* ---- the specification ---- *)
  Definition fg_final : list (Z * Z) := fg_loop true all idx all [] 0.

  Theorem fg_final_spec :
    (forall z, In z all -> elig z = false -> exists i, cid fg_final z = Some i) /\
    (forall z1 z2 i, In z1 all -> In z2 all -> elig z1 = false -> elig z2 = false ->
       cid fg_final z1 = Some i -> cid fg_final z2 = Some i -> z1 = z2 \/ partner z1 z2) /\
    (forall z1 z2, In z1 all -> In z2 all -> partner z1 z2 -> cid fg_final z1 = cid fg_final z2) /\
    (forall c p, In c all -> In p all -> elig c = true -> co_parent p c -> cid fg_final c = cid fg_final p).
  Proof.
    destruct (loop_inv all [] [] 0 eq_refl inv_init) as (next' & [I1 I2 I3 I3' I4]). fold fg_final in *.
    assert (Had : forall z, In z all -> elig z = false -> exists i, cid fg_final z = Some i).
    { intros z Hz Ha. destruct (cid fg_final z) as [i|] eqn:E; [now exists i|]. exfalso.
      apply (proj2 (I2 z Hz Ha)); [now left|exact E]. }
    repeat split; auto.
    intros c p Hc Hp He Hcp. apply I4; auto.
    destruct (Had p Hp (parent_not_elig p c Hc (proj1 Hcp))) as [i Hi]. congruence.
  Qed.

  (* the head of a person's family: the person, or a co-resident parent of an eligible child *)
  Definition head (x h : person) : Prop :=
    In h all /\ ((elig x = false /\ h = x) \/ (elig x = true /\ co_parent h x)).
  Definition same_family (a b : person) : Prop :=
    exists ha hb, head a ha /\ head b hb /\ (ha = hb \/ partner ha hb).

  Lemma head_exists x : In x all -> exists h, head x h.
  Proof.
    intros Hx. destruct (elig x) eqn:E.
    - destruct (proj1 (elig_iff x) E) as (_ & _ & p & Hp & Hcp). exists p. split; [exact Hp|right; auto].
    - exists x. split; [exact Hx|left; auto].
  Qed.

  Lemma head_adult x h : In x all -> head x h -> elig h = false.
  Proof.
    intros Hx [Hh [[E ->]|[E Hcp]]]; [exact E|]. apply (parent_not_elig h x Hx (proj1 Hcp)).
  Qed.

  Lemma head_cid x h : In x all -> head x h -> cid fg_final x = cid fg_final h.
  Proof.
    intros Hx [Hh [[E ->]|[E Hcp]]]; [reflexivity|].
    destruct fg_final_spec as (_ & _ & _ & S4). now apply S4.
  Qed.

  Theorem fg_same_id_iff a b : In a all -> In b all ->
    (cid fg_final a = cid fg_final b <-> same_family a b).
  Proof.
    intros Ha Hb. destruct fg_final_spec as (S1 & S2 & S3 & S4). split.
    - intros E. destruct (head_exists a Ha) as [ha Hha]. destruct (head_exists b Hb) as [hb Hhb].
      exists ha, hb. split; [exact Hha|split; [exact Hhb|]].
      pose proof (head_adult a ha Ha Hha) as Aa. pose proof (head_adult b hb Hb Hhb) as Ab.
      rewrite (head_cid a ha Ha Hha), (head_cid b hb Hb Hhb) in E.
      destruct (S1 ha (proj1 Hha) Aa) as [i Hi]. apply (S2 ha hb i); auto; [apply Hha|apply Hhb|congruence].
    - intros (ha & hb & Hha & Hhb & Hr). rewrite (head_cid a ha Ha Hha), (head_cid b hb Hb Hhb).
      destruct Hr as [->|P]; [reflexivity|]. apply S3; [apply Hha|apply Hhb|exact P].
  Qed.
End Fg.

(* ---------------------------------------------------------------- *)
(* the builder on tables *)
Definition fg_wf (all : list person) : Prop :=
  NoDup (map pid all) /\ (forall x, In x all -> 0 <= pid x) /\
  (forall x, In x all -> 0 <= einst x -> exists y, In y all /\ pid y = einst x /\ einst y = pid x /\ hh y = hh x) /\
  (forall c, In c all -> elig all c = true -> einst c < 0) /\
  (forall c p1 p2, In c all -> In p1 all -> In p2 all -> elig all c = true ->
     co_parent p1 c -> co_parent p2 c -> pid p1 = pid p2 \/ partner p1 p2).

Lemma fg_all_have_id all : fg_wf all -> forall z, In z all -> exists i, cid (fg_final all) z = Some i.
Proof.
  intros (Hnd & Hpos & Hsym & Hnp & Hpar) z Hz.
  destruct (fg_final_spec all Hnd Hpos Hsym Hnp Hpar) as (S1 & _ & _ & S4).
  destruct (elig all z) eqn:E; [|now apply S1].
  destruct (proj1 (elig_iff all z) E) as (_ & _ & p & Hp & Hcp).
  rewrite (S4 z p Hz Hp E Hcp). apply S1; [exact Hp|]. apply (parent_not_elig all p z Hz (proj1 Hcp)).
Qed.

Theorem fg_id_spec all : fg_wf all ->
  length (fg_id all) = length all /\
  forall i j a b, nth_error all i = Some a -> nth_error all j = Some b ->
    (nth_error (fg_id all) i = nth_error (fg_id all) j <-> same_family all a b).
Proof.
  intros Hwf. split; [unfold fg_id, fg_id_gen; now rewrite map_length|].
  intros i j a b Hi Hj.
  assert (Ha : In a all) by (eapply nth_error_In; eauto). assert (Hb : In b all) by (eapply nth_error_In; eauto).
  destruct Hwf as (Hnd & Hpos & Hsym & Hnp & Hpar).
  rewrite <- (fg_same_id_iff all Hnd Hpos Hsym Hnp Hpar a b Ha Hb).
  unfold fg_id, fg_id_gen. rewrite !nth_error_map, Hi, Hj. cbn [option_map].
  change (fg_loop true all (index_map all) all [] 0) with (fg_final all).
  destruct (fg_all_have_id all (conj Hnd (conj Hpos (conj Hsym (conj Hnp Hpar)))) a Ha) as [ia Ea].
  destruct (fg_all_have_id all (conj Hnd (conj Hpos (conj Hsym (conj Hnp Hpar)))) b Hb) as [ib Eb].
  unfold cid in *. rewrite Ea, Eb. split; congruence.
Qed.

(* ---------------------------------------------------------------- *)
(* decidable form of the hypotheses *)
Definition cop_b (p c : person) : bool := is_parent_b (pid p) c && (hh p =? hh c).

Definition fg_wf_b (all : list person) : bool :=
  nodup_zb (map pid all) && forallb (fun x => 0 <=? pid x) all
  && forallb (fun x => (einst x <? 0) || existsb (fun y => (pid y =? einst x) && (einst y =? pid x) && (hh y =? hh x)) all) all
  && forallb (fun c => negb (is_elig_child all c) || (einst c <? 0)) all
  && forallb (fun c => negb (is_elig_child all c) ||
        forallb (fun p1 => forallb (fun p2 => negb (cop_b p1 c && cop_b p2 c) || (pid p1 =? pid p2)
                                              || ((0 <=? einst p1) && (einst p1 =? pid p2))) all) all) all.

Lemma cop_b_iff p c : cop_b p c = true <-> co_parent p c.
Proof. unfold cop_b, co_parent. rewrite andb_true_iff, Z.eqb_eq. reflexivity. Qed.

Lemma fg_wf_b_sound all : fg_wf_b all = true -> fg_wf all.
Proof.
  unfold fg_wf_b. rewrite !andb_true_iff. intros [[[[H1 H2] H3] H4] H5].
  rewrite forallb_forall in H2, H3, H4, H5. repeat split.
  - now apply nodup_zb_sound.
  - intros x Hx. apply Z.leb_le. now apply H2.
  - intros x Hx H0. specialize (H3 x Hx). apply orb_true_iff in H3 as [H3|H3]; [apply Z.ltb_lt in H3; lia|].
    apply existsb_exists in H3 as (y & Hy & H3). rewrite !andb_true_iff, !Z.eqb_eq in H3. destruct H3 as [[A B] C].
    exists y. auto.
  - intros c Hc He. specialize (H4 c Hc). unfold elig in He. rewrite He in H4. cbn in H4. now apply Z.ltb_lt.
  - intros c p1 p2 Hc Hp1 Hp2 He C1 C2. specialize (H5 c Hc). unfold elig in He. rewrite He in H5. cbn in H5.
    rewrite forallb_forall in H5. specialize (H5 p1 Hp1). rewrite forallb_forall in H5. specialize (H5 p2 Hp2).
    apply cop_b_iff in C1, C2. rewrite C1, C2 in H5. cbn in H5.
    apply orb_true_iff in H5 as [H5|H5]; [left; now apply Z.eqb_eq|].
    right. apply andb_true_iff in H5 as [A B]. split; [now apply Z.leb_le|now apply Z.eqb_eq].
Qed.

(* ---------------------------------------------------------------- *)
(* row-order independence *)
From Coq Require Import Permutation.

Lemma children_of_perm ps ps' p : Permutation ps ps' -> Permutation (children_of ps p) (children_of ps' p).
Proof. intros H. unfold children_of. now apply Permutation_flat_map. Qed.

Lemma elig_perm ps ps' c : Permutation ps ps' -> is_elig_child ps c = is_elig_child ps' c.
Proof.
  intros H. unfold is_elig_child. f_equal; [f_equal|].
  - pose proof (children_of_perm ps ps' (pid c) H) as Hp.
    destruct (children_of ps (pid c)) as [|k r] eqn:E1, (children_of ps' (pid c)) as [|k' r'] eqn:E2; try reflexivity.
    + apply Permutation_nil in Hp. discriminate.
    + apply Permutation_sym, Permutation_nil in Hp. discriminate.
  - apply eq_true_iff_eq. rewrite !existsb_exists. split; intros (x & Hx & Hp); exists x; split; auto.
    + eapply Permutation_in; eauto.
    + eapply Permutation_in; [apply Permutation_sym|]; eauto.
Qed.

Lemma same_family_perm ps ps' a b : Permutation ps ps' -> same_family ps a b -> same_family ps' a b.
Proof.
  intros H (ha & hb & [Hha Ha] & [Hhb Hb] & Hr). exists ha, hb. unfold head, elig. rewrite <- !(elig_perm ps ps' _ H).
  repeat split; auto; eapply Permutation_in; eauto.
Qed.

Lemma fg_wf_perm ps ps' : Permutation ps ps' -> fg_wf ps -> fg_wf ps'.
Proof.
  intros H (Hnd & Hpos & Hsym & Hnp & Hpar).
  assert (Hin : forall x, In x ps' -> In x ps) by (intros x Hx; eapply Permutation_in; [apply Permutation_sym|]; eauto).
  repeat split.
  - eapply Permutation_NoDup; [apply Permutation_map; exact H|exact Hnd].
  - intros x Hx. apply Hpos. auto.
  - intros x Hx H0. destruct (Hsym x (Hin x Hx) H0) as (y & Hy & R). exists y. split; [eapply Permutation_in; eauto|exact R].
  - intros c Hc He. apply Hnp; auto. unfold elig in *. now rewrite (elig_perm ps ps' c H).
  - intros c p1 p2 Hc H1 H2 He. apply Hpar; auto. unfold elig in *. now rewrite (elig_perm ps ps' c H).
Qed.

Theorem fg_id_order_free ps ps' : fg_wf ps -> Permutation ps ps' ->
  forall i j i' j' a b,
    nth_error ps i = Some a -> nth_error ps j = Some b -> nth_error ps' i' = Some a -> nth_error ps' j' = Some b ->
    (nth_error (fg_id ps) i = nth_error (fg_id ps) j <-> nth_error (fg_id ps') i' = nth_error (fg_id ps') j').
Proof.
  intros Hwf Hp i j i' j' a b Hi Hj Hi' Hj'.
  destruct (fg_id_spec ps Hwf) as [_ H1]. destruct (fg_id_spec ps' (fg_wf_perm ps ps' Hp Hwf)) as [_ H2].
  rewrite (H1 i j a b Hi Hj), (H2 i' j' a b Hi' Hj'). split; apply same_family_perm; [exact Hp|now apply Permutation_sym].
Qed.

(* the hypotheses are satisfiable: a patchwork family (partners 1, 2; child 3 of 1 only; child 4 of 2 only, the row
   order in which the unrepaired builder failed), a single with an adult child who has a child, a child living elsewhere *)
Definition mkq (p h a e p1 p2 : Z) : person :=
  {| pid := p; hh := h; alter := a; einst := e; ehep := -1; elt1 := p1; elt2 := p2; eigenb := false; gemv := false |}.
Definition fg_demo : list person :=
  [mkq 3 0 10 (-1) 1 (-1); mkq 1 0 40 2 (-1) (-1); mkq 4 0 8 (-1) 2 (-1); mkq 2 0 38 1 (-1) (-1);
   mkq 5 1 60 (-1) (-1) (-1); mkq 6 1 24 (-1) 5 (-1); mkq 7 1 2 (-1) 6 (-1); mkq 8 2 12 (-1) 1 (-1)].

Example fg_demo_ok : fg_wf fg_demo /\ fg_id fg_demo = [1; 1; 1; 1; 2; 3; 3; 4].
Proof. split; [apply fg_wf_b_sound; reflexivity|reflexivity]. Qed.

(* ---------------------------------------------------------------- *)
(* nesting: family units lie within households, partner units within family units (any table size) *)
Lemma head_hh all x h : fg_wf all -> In x all -> head all x h -> hh h = hh x.
Proof. intros _ Hx [_ [[_ ->]|[_ [_ Hh]]]]; [reflexivity|exact Hh]. Qed.

Theorem fg_within_hh all : fg_wf all ->
  forall i j a b, nth_error all i = Some a -> nth_error all j = Some b ->
    nth_error (fg_id all) i = nth_error (fg_id all) j -> hh a = hh b.
Proof.
  intros Hwf i j a b Hi Hj E. destruct (fg_id_spec all Hwf) as [_ H]. apply (H i j a b Hi Hj) in E.
  destruct E as (ha & hb & Hha & Hhb & Hr).
  assert (Ha : In a all) by (eapply nth_error_In; eauto). assert (Hb : In b all) by (eapply nth_error_In; eauto).
  rewrite <- (head_hh all a ha Hwf Ha Hha), <- (head_hh all b hb Hwf Hb Hhb).
  destruct Hr as [->|P]; [reflexivity|]. destruct Hwf as (Hnd & Hpos & Hsym & Hnp & Hpar).
  symmetry. apply (partner_hh all Hnd Hsym ha hb); [apply Hha|apply Hhb|exact P].
Qed.

Theorem eg_within_fg all : fg_wf all -> couple_wf einst all ->
  forall i j a b, nth_error all i = Some a -> nth_error all j = Some b ->
    nth_error (eg_id all) i = nth_error (eg_id all) j -> nth_error (fg_id all) i = nth_error (fg_id all) j.
Proof.
  intros Hwf Hcw i j a b Hi Hj E. destruct (eg_id_spec all Hcw) as [_ H]. apply (H i j a b Hi Hj) in E.
  assert (Ha : In a all) by (eapply nth_error_In; eauto). assert (Hb : In b all) by (eapply nth_error_In; eauto).
  destruct E as [E|P].
  - destruct Hwf as (Hnd & R). assert (a = b) by (apply (pid_inj all Hnd); auto). subst b.
    assert (i = j); [|now subst j].
    apply (proj1 (NoDup_nth_error (map pid all)) Hnd).
    + rewrite map_length. apply nth_error_Some. congruence.
    + now rewrite !nth_error_map, Hi, Hj.
  - destruct (fg_id_spec all Hwf) as [_ H']. apply (H' i j a b Hi Hj).
    destruct Hwf as (Hnd & Hpos & Hsym & Hnp & Hpar).
    assert (Pab : partner a b) by exact P.
    pose proof (partner_adult all Hnp a b Ha Pab) as Aa.
    pose proof (partner_sym all Hnd Hpos Hsym a b Ha Hb Pab) as Pba.
    pose proof (partner_adult all Hnp b a Hb Pba) as Ab.
    exists a, b. split; [split; [exact Ha|left; auto]|split; [split; [exact Hb|left; auto]|right; exact Pab]].
Qed.
