(* Groupings.v — model of _gettsim.groupings: the six derived-id builders as folds over the
   rows in input order with association-list state (the Python dictionaries), reference
   partitions read off docs/gettsim_developer/hh_concepts.md, and
   - general theorems for the arithmetic builders (wthh, bg) and the nestings they give,
   - bounded exhaustive theorems (all pointer structures and all row orders up to a stated
     number of persons, by vm_compute) for the dictionary-scanning builders. *)
From Coq Require Import ZArith Bool List Lia Permutation.
From GettsimModel Require Import Num Val.
Import ListNotations.
Open Scope Z_scope.

Record person := {
  pid : Z; hh : Z; alter : Z;
  einst : Z;            (* p_id_einstandspartner *)
  ehep : Z;             (* p_id_ehepartner *)
  elt1 : Z; elt2 : Z;   (* p_id_elternteil_1/2 *)
  eigenb : bool;        (* eigenbedarf_gedeckt *)
  gemv : bool           (* gemeinsam_veranlagt *)
}.

(* Python dict: last binding for a key wins; we prepend, lookup finds the first *)
Fixpoint dget {A} (k : Z) (m : list (Z * A)) : option A :=
  match m with
  | [] => None
  | (k', v) :: r => if k =? k' then Some v else dget k r
  end.

(* ---------------------------------------------------------------- *)
(* eg_id / ehe_id (same algorithm on different pointer columns)       *)

Fixpoint couple_loop (rows : list (Z * Z)) (m : list (Z * Z)) (next : Z) : list Z :=
  match rows with
  | [] => []
  | (p, q) :: r =>
      match (if 0 <=? q then dget q m else None) with
      | Some id => id :: couple_loop r m next
      | None => next :: couple_loop r ((p, next) :: m) (next + 1)
      end
  end.

Definition eg_id (ps : list person) : list Z := couple_loop (map (fun x => (pid x, einst x)) ps) [] 0.
Definition ehe_id (ps : list person) : list Z := couple_loop (map (fun x => (pid x, ehep x)) ps) [] 0.

(* ---------------------------------------------------------------- *)
(* sn_id                                                              *)

Fixpoint sn_loop (rows : list (Z * Z * bool)) (m : list (Z * (Z * bool))) (next : Z) : res (list Z) :=
  match rows with
  | [] => Ok []
  | (p, q, gv) :: r =>
      match (if 0 <=? q then dget q m else None) with
      | Some (id, gvq) =>
          if negb (Bool.eqb gv gvq) then Err EValue
          else if gv then do rest <- sn_loop r m next; Ok (id :: rest)
          else do rest <- sn_loop r ((p, (next, gv)) :: m) (next + 1); Ok (next :: rest)
      | None => do rest <- sn_loop r ((p, (next, gv)) :: m) (next + 1); Ok (next :: rest)
      end
  end.

Definition sn_id (ps : list person) : res (list Z) :=
  sn_loop (map (fun x => (pid x, ehep x, gemv x)) ps) [] 0.

(* ---------------------------------------------------------------- *)
(* fg_id                                                              *)

(* p_id_to_index: last row with that p_id *)
Definition index_map (ps : list person) : list (Z * person) :=
  rev (map (fun x => (pid x, x)) ps).

(* children of a person, in row order (elternteil_1 entry before elternteil_2 of the same row) *)
Definition children_of (ps : list person) (p : Z) : list Z :=
  flat_map (fun x => (if (0 <=? elt1 x) && (elt1 x =? p) then [pid x] else []) ++
                     (if (0 <=? elt2 x) && (elt2 x =? p) then [pid x] else []))%list ps.

Definition eligible_child (ps : list person) (idx : list (Z * person)) (cur_hh : Z) (c : Z) : bool :=
  match dget c idx with
  | Some cx => (hh cx =? cur_hh) && (alter cx <? 25)
               && match children_of ps c with [] => true | _ => false end
  | None => false            (* cannot happen: children are rows *)
  end.

(* [with_partner_children]: the repaired algorithm also visits the children of the partner *)
Fixpoint fg_loop (partner_children : bool) (all : list person) (idx : list (Z * person))
         (rows : list person) (m : list (Z * Z)) (next : Z) : list (Z * Z) :=
  match rows with
  | [] => m
  | x :: r =>
      match dget (pid x) m with
      | Some _ => fg_loop partner_children all idx r m next
      | None =>
          let m1 := (pid x, next) :: m in
          let m2 := if 0 <=? einst x then (einst x, next) :: m1 else m1 in
          let kids := (children_of all (pid x) ++
                       (if partner_children && (0 <=? einst x) then children_of all (einst x) else []))%list in
          let m3 := fold_left (fun acc c => if eligible_child all idx (hh x) c then (c, next) :: acc else acc)
                              kids m2 in
          fg_loop partner_children all idx r m3 (next + 1)
      end
  end.

Definition fg_id_gen (partner_children : bool) (ps : list person) : list Z :=
  let m := fg_loop partner_children ps (index_map ps) ps [] 0 in
  map (fun x => match dget (pid x) m with Some i => i | None => -1 end) ps.

(* the builder as it is in /repo now (kept in step with the code by correspondence U3) *)
Definition fg_id := fg_id_gen true.
(* the builder before the repair (children of the partner not visited) *)
Definition fg_id_old := fg_id_gen false.

(* ---------------------------------------------------------------- *)
(* bg_id, wthh_id                                                     *)

Fixpoint bg_loop (rows : list (Z * Z * bool)) (cnt : list (Z * Z)) : list Z :=
  match rows with
  | [] => []
  | (fg, al, eb) :: r =>
      if (al <? 25) && eb then
        let c := match dget fg cnt with Some c => c + 1 | None => 1 end in
        (fg * 100 + c) :: bg_loop r ((fg, c) :: cnt)
      else (fg * 100) :: bg_loop r cnt
  end.

Definition bg_id (fg : list Z) (ps : list person) : list Z :=
  bg_loop (map (fun fx => (fst fx, alter (snd fx), eigenb (snd fx))) (combine fg ps)) [].

Definition wthh_id (hhs : list Z) (v1 v2 : list bool) : list Z :=
  map (fun t => match t with (h, (a, b)) => if a || b then h * 100 + 1 else h * 100 end)
      (combine hhs (combine v1 v2)).

(* ---------------------------------------------------------------- *)
(* partitions                                                         *)

Definition same_partition (a b : list Z) : bool :=
  Nat.eqb (length a) (length b) &&
  forallb (fun ij => Bool.eqb (fst (fst ij) =? fst (snd ij)) (snd (fst ij) =? snd (snd ij)))
          (list_prod (combine a b) (combine a b)).

(* refines a b : every class of a lies inside a class of b *)
Definition refines (a b : list Z) : bool :=
  Nat.eqb (length a) (length b) &&
  forallb (fun ij => negb (fst (fst ij) =? fst (snd ij)) || (snd (fst ij) =? snd (snd ij)))
          (list_prod (combine a b) (combine a b)).

(* connected components of a symmetric relation on row indices: labels = least reachable index *)
Definition comp_step (n : nat) (adj : nat -> nat -> bool) (lab : list nat) : list nat :=
  map (fun i => fold_left (fun m j => if (adj i j || adj j i) && Nat.ltb (nth j lab j) m then nth j lab j else m)
                          (seq 0 n) (nth i lab i)) (seq 0 n).

Fixpoint iter {A} (k : nat) (f : A -> A) (x : A) : A :=
  match k with O => x | S k' => iter k' f (f x) end.

Definition components (n : nat) (adj : nat -> nat -> bool) : list Z :=
  map Z.of_nat (iter n (comp_step n adj) (seq 0 n)).

Definition nthp (ps : list person) (i : nat) : option person := nth_error ps i.

(* the unit definitions, as relations between rows *)
Definition rel_couple (ptr : person -> Z) (ps : list person) (i j : nat) : bool :=
  match nthp ps i, nthp ps j with
  | Some a, Some b => (0 <=? ptr a) && (ptr a =? pid b)
  | _, _ => false
  end.

Definition rel_sn (ps : list person) (i j : nat) : bool :=
  match nthp ps i, nthp ps j with
  | Some a, Some b => (0 <=? ehep a) && (ehep a =? pid b) && gemv a && gemv b
  | _, _ => false
  end.

(* j is an eligible child of i or of i's partner: same household, under 25, childless *)
Definition rel_fg (ps : list person) (i j : nat) : bool :=
  match nthp ps i, nthp ps j with
  | Some a, Some b =>
      ((0 <=? einst a) && (einst a =? pid b))
      || ((((0 <=? elt1 b) && (elt1 b =? pid a)) || ((0 <=? elt2 b) && (elt2 b =? pid a)))
          && (hh b =? hh a) && (alter b <? 25)
          && match children_of ps (pid b) with [] => true | _ => false end)
  | _, _ => false
  end.

Definition eg_ref (ps : list person) := components (length ps) (rel_couple einst ps).
Definition ehe_ref (ps : list person) := components (length ps) (rel_couple ehep ps).
Definition sn_ref (ps : list person) := components (length ps) (rel_sn ps).
Definition fg_ref (ps : list person) := components (length ps) (rel_fg ps).

(* ---------------------------------------------------------------- *)
(* general theorems for the arithmetic builders                       *)

Lemma wthh_length hhs v1 v2 :
  length v1 = length hhs -> length v2 = length hhs -> length (wthh_id hhs v1 v2) = length hhs.
Proof.
  intros H1 H2. unfold wthh_id. rewrite map_length, !combine_length. lia.
Qed.

(* the part-household id determines the household: ids of different households never collide,
   and within a household the id separates exactly the two outcomes of the priority check *)
Theorem wthh_spec hhs v1 v2 i h a b :
  nth_error hhs i = Some h -> nth_error v1 i = Some a -> nth_error v2 i = Some b ->
  nth_error (wthh_id hhs v1 v2) i = Some (h * 100 + (if a || b then 1 else 0)).
Proof.
  revert v1 v2 i. induction hhs as [|h0 r IH]; intros [|a0 v1] [|b0 v2] [|i] Hh Ha Hb;
    try discriminate; cbn in *.
  - injection Hh as ->. injection Ha as ->. injection Hb as ->.
    destruct a, b; cbn; f_equal; lia.
  - apply (IH v1 v2 i Hh Ha Hb).
Qed.

Theorem wthh_within_hh hhs v1 v2 i j h1 h2 a1 b1 a2 b2 x :
  nth_error hhs i = Some h1 -> nth_error v1 i = Some a1 -> nth_error v2 i = Some b1 ->
  nth_error hhs j = Some h2 -> nth_error v1 j = Some a2 -> nth_error v2 j = Some b2 ->
  nth_error (wthh_id hhs v1 v2) i = Some x -> nth_error (wthh_id hhs v1 v2) j = Some x ->
  h1 = h2 /\ (a1 || b1) = (a2 || b2).
Proof.
  intros H1 H2 H3 H4 H5 H6 Hi Hj.
  rewrite (wthh_spec _ _ _ _ _ _ _ H1 H2 H3) in Hi.
  rewrite (wthh_spec _ _ _ _ _ _ _ H4 H5 H6) in Hj.
  injection Hi as Hi. injection Hj as Hj.
  destruct (a1 || b1), (a2 || b2); split; try reflexivity; lia.
Qed.

(* bg: the id is fg*100 + k with 0 <= k <= number of self-sufficient children seen so far *)
Lemma bg_loop_bounds : forall rows cnt bound, 0 <= bound ->
  (forall fg c, dget fg cnt = Some c -> 0 <= c <= bound) ->
  forall i fg al eb x,
    nth_error rows i = Some (fg, al, eb) -> nth_error (bg_loop rows cnt) i = Some x ->
    exists k, x = fg * 100 + k /\ 0 <= k <= bound + Z.of_nat (length rows).
Proof.
  induction rows as [|[[fg0 al0] eb0] r IH]; intros cnt bound Hb0 Hc i fg al eb x Hr Hx;
    [destruct i; discriminate|].
  cbn [bg_loop] in Hx. destruct ((al0 <? 25) && eb0) eqn:E.
  - destruct i as [|i]; cbn in Hr, Hx.
    + injection Hr as -> -> ->. injection Hx as <-.
      destruct (dget fg cnt) as [c|] eqn:Ec.
      * specialize (Hc _ _ Ec). exists (c + 1). cbn [length]. split; [reflexivity | lia].
      * exists 1. cbn [length]. split; [reflexivity | lia].
    + set (c := match dget fg0 cnt with Some c => c + 1 | None => 1 end) in *.
      assert (Hc' : forall fg1 c1, dget fg1 ((fg0, c) :: cnt) = Some c1 -> 0 <= c1 <= bound + 1).
      { intros fg1 c1 H. cbn in H. destruct (fg1 =? fg0).
        - injection H as <-. subst c. destruct (dget fg0 cnt) as [c0|] eqn:E0; [specialize (Hc _ _ E0)|]; lia.
        - specialize (Hc _ _ H). lia. }
      destruct (IH _ (bound + 1) ltac:(lia) Hc' i fg al eb x Hr Hx) as (k & -> & Hk).
      exists k. split; [reflexivity|]. cbn [length]. lia.
  - destruct i as [|i]; cbn in Hr, Hx.
    + injection Hr as -> -> ->. injection Hx as <-. exists 0. cbn [length]. split; lia.
    + destruct (IH _ _ Hb0 Hc i fg al eb x Hr Hx) as (k & -> & Hk).
      exists k. split; [reflexivity|]. cbn [length]. lia.
Qed.

(* needs units nest inside family units while fewer than 100 rows are involved:
   equal bg ids imply equal fg ids (ids of different families never collide) *)
Theorem bg_within_fg fg ps i j x fi fj :
  (length ps < 100)%nat -> length fg = length ps ->
  nth_error fg i = Some fi -> nth_error fg j = Some fj ->
  nth_error (bg_id fg ps) i = Some x -> nth_error (bg_id fg ps) j = Some x -> fi = fj.
Proof.
  intros Hn Hl Hi Hj Hxi Hxj. unfold bg_id in *.
  set (rows := map (fun fx => (fst fx, alter (snd fx), eigenb (snd fx))) (combine fg ps)) in *.
  assert (Hlen : length rows = length ps)
    by (unfold rows; rewrite map_length, combine_length; lia).
  assert (Hrow : forall n f, nth_error fg n = Some f -> nth_error (bg_loop rows []) n <> None ->
                 exists al eb, nth_error rows n = Some (f, al, eb)).
  { intros n f Hf Hne.
    assert (Hlt : (n < length ps)%nat).
    { rewrite <- Hl. apply nth_error_Some. congruence. }
    destruct (nth_error ps n) as [pn|] eqn:Ep; [|apply nth_error_None in Ep; lia].
    exists (alter pn), (eigenb pn). unfold rows. rewrite nth_error_map.
    assert (Hc : nth_error (combine fg ps) n = Some (f, pn)).
    { clear - Hf Ep. revert ps n Hf Ep. induction fg as [|a fg IH]; intros [|p ps] [|n] Hf Ep; try discriminate; cbn in *.
      - congruence.
      - apply IH; assumption. }
    rewrite Hc. reflexivity. }
  destruct (Hrow i fi Hi ltac:(congruence)) as (ai & ei & Ri).
  destruct (Hrow j fj Hj ltac:(congruence)) as (aj & ej & Rj).
  assert (H0 : forall f c, dget f (@nil (Z * Z)) = Some c -> 0 <= c <= 0) by (intros; discriminate).
  destruct (bg_loop_bounds rows [] 0 ltac:(lia) H0 i fi ai ei x Ri Hxi) as (k1 & E1 & B1).
  destruct (bg_loop_bounds rows [] 0 ltac:(lia) H0 j fj aj ej x Rj Hxj) as (k2 & E2 & B2).
  rewrite Hlen in B1, B2. lia.
Qed.

(* ---------------------------------------------------------------- *)
(* bounded exhaustive statements                                      *)

(* well-formed pointer structures: the class in which the unit definitions are unambiguous *)
Definition find_p (ps : list person) (id : Z) : option person :=
  find (fun x => pid x =? id) ps.

Definition is_elig_child (ps : list person) (c : person) : bool :=
  (alter c <? 25)
  && match children_of ps (pid c) with [] => true | _ => false end
  && existsb (fun p => (((0 <=? elt1 c) && (elt1 c =? pid p)) || ((0 <=? elt2 c) && (elt2 c =? pid p)))
                       && (hh p =? hh c)) ps.

Definition wf_pointers (ps : list person) : bool :=
  forallb (fun x =>
    (* pointers are not self-references and point to existing persons *)
    forallb (fun q => (q <? 0) || (negb (q =? pid x) && match find_p ps q with Some _ => true | None => false end))
            [einst x; ehep x; elt1 x; elt2 x]
    (* partner pointers symmetric and co-resident; spouses are partners *)
    && (if 0 <=? einst x then match find_p ps (einst x) with
                              | Some y => (einst y =? pid x) && (hh y =? hh x) | None => false end else true)
    && (if 0 <=? ehep x then (ehep x =? einst x)
                             && match find_p ps (ehep x) with Some y => (ehep y =? pid x) | None => false end else true)
    (* parents are older *)
    && forallb (fun q => if 0 <=? q then match find_p ps q with Some y => alter x + 14 <? alter y | None => false end
                         else true) [elt1 x; elt2 x]
    && negb ((0 <=? elt1 x) && (elt1 x =? elt2 x))
    (* an eligible child has no partner, and its co-resident parents are one person or partners *)
    && (if is_elig_child ps x then
          (einst x <? 0)
          && match find_p ps (elt1 x), find_p ps (elt2 x) with
             | Some a, Some b =>
                 if (0 <=? elt1 x) && (0 <=? elt2 x) && (hh a =? hh x) && (hh b =? hh x)
                 then einst a =? pid b else true
             | _, _ => true
             end
        else true)) ps.

Fixpoint perms {A} (l : list A) : list (list A) :=
  match l with
  | [] => [[]]
  | x :: r =>
      flat_map (fun p => map (fun k => firstn k p ++ x :: skipn k p) (seq 0 (S (length p)))) (perms r)
  end%list.

(* ids of a builder re-ordered by person id, so that partitions of different row orders compare *)
Definition by_pid (ps : list person) (ids : list Z) (order : list Z) : list Z :=
  map (fun p => match dget p (combine (map pid ps) ids) with Some i => i | None => -1 end) order.

Definition order_free_and_ref (build reference : list person -> list Z) (ps : list person) : bool :=
  let order := map pid ps in
  let want := reference ps in
  forallb (fun qs => same_partition (by_pid qs (build qs) order) want) (perms ps).

(* all structures of n persons over small option sets *)
Definition opt_ptrs (n : nat) (self : nat) : list Z :=
  (-1) :: map Z.of_nat (filter (fun j => negb (Nat.eqb j self)) (seq 0 n)).

Definition persons_at (n : nat) (i : nat) : list person :=
  flat_map (fun h => flat_map (fun a => flat_map (fun e => flat_map (fun p1 => map (fun p2 =>
    {| pid := Z.of_nat i; hh := h; alter := a; einst := e; ehep := -1; elt1 := p1; elt2 := p2;
       eigenb := false; gemv := false |})
    (if p1 <? 0 then [-1] else opt_ptrs n i)) (opt_ptrs n i)) (opt_ptrs n i)) [10; 30]) (if Nat.eqb i 0 then [0] else [0; 1]).

Fixpoint structs_from (n : nat) (k : nat) (i : nat) : list (list person) :=
  match k with
  | O => [[]]
  | S k' => flat_map (fun x => map (cons x) (structs_from n k' (S i))) (persons_at n i)
  end.

Definition structs (n : nat) : list (list person) := filter wf_pointers (structs_from n n 0).

Definition fg_ok_upto (n : nat) : bool :=
  forallb (fun k => forallb (order_free_and_ref fg_id fg_ref) (structs k)) (seq 1 n).
Definition eg_ok_upto (n : nat) : bool :=
  forallb (fun k => forallb (order_free_and_ref eg_id eg_ref) (structs k)) (seq 1 n).

(* what a passing bounded check means *)
Theorem ok_upto_sound (build reference : list person -> list Z) n :
  forallb (fun k => forallb (order_free_and_ref build reference) (structs k)) (seq 1 n) = true ->
  forall k ps qs, (1 <= k <= n)%nat -> In ps (structs k) -> In qs (perms ps) ->
    same_partition (by_pid qs (build qs) (map pid ps)) (reference ps) = true.
Proof.
  intros H k ps qs Hk Hps Hqs. rewrite forallb_forall in H.
  assert (Hin : In k (seq 1 n)) by (apply in_seq; lia).
  specialize (H k Hin). rewrite forallb_forall in H. specialize (H ps Hps).
  unfold order_free_and_ref in H. rewrite forallb_forall in H. exact (H qs Hqs).
Qed.

(* the unrepaired builder (children of the partner not visited) is order dependent:
   A-B partners, C is B's child only; row order [A;B;C] splits C off *)
Definition fg_witness : list person :=
  [ {| pid := 0; hh := 0; alter := 30; einst := 1; ehep := -1; elt1 := -1; elt2 := -1; eigenb := false; gemv := false |};
    {| pid := 1; hh := 0; alter := 30; einst := 0; ehep := -1; elt1 := -1; elt2 := -1; eigenb := false; gemv := false |};
    {| pid := 2; hh := 0; alter := 10; einst := -1; ehep := -1; elt1 := 1; elt2 := -1; eigenb := false; gemv := false |} ].

Theorem fg_old_refuted :
  wf_pointers fg_witness = true /\
  same_partition (fg_id_old fg_witness) (fg_ref fg_witness) = false /\
  same_partition (fg_id fg_witness) (fg_ref fg_witness) = true.
Proof. vm_compute. repeat split; reflexivity. Qed.

(* married variants of the enumerated structures: every partner pair is also a married pair,
   jointly assessed or not *)
Definition marry (gv : bool) (ps : list person) : list person :=
  map (fun x => if 0 <=? einst x
                then {| pid := pid x; hh := hh x; alter := alter x; einst := einst x; ehep := einst x;
                        elt1 := elt1 x; elt2 := elt2 x; eigenb := eigenb x; gemv := gv |}
                else x) ps.

Definition sn_id_tot (ps : list person) : list Z :=
  match sn_id ps with Ok l => l | Err _ => [] end.

Definition ehe_sn_ok_upto (n : nat) : bool :=
  forallb (fun k => forallb (fun ps =>
      forallb (fun gv =>
        order_free_and_ref ehe_id ehe_ref (marry gv ps)
        && order_free_and_ref sn_id_tot sn_ref (marry gv ps)
        && refines (sn_id_tot (marry gv ps)) (ehe_id (marry gv ps))      (* tax unit within marriage *)
        && refines (eg_id (marry gv ps)) (fg_id (marry gv ps)))          (* partners within family *)
      [true; false]) (structs k)) (seq 1 n).

(* contradictory joint-assessment flags are rejected *)
Example sn_contradiction_rejected :
  sn_id [ {| pid := 0; hh := 0; alter := 30; einst := 1; ehep := 1; elt1 := -1; elt2 := -1; eigenb := false; gemv := true |};
          {| pid := 1; hh := 0; alter := 30; einst := 0; ehep := 0; elt1 := -1; elt2 := -1; eigenb := false; gemv := false |} ]
  = Err EValue.
Proof. reflexivity. Qed.
