(* Scalar.v — end-to-end evaluation of the person-level part of the dependency graph for ONE
   person: rule nodes are evaluated with the regenerated rule ASTs (Eval.call_rule) on the
   values of their argument nodes, statutory rounding is applied as the engine does
   (Rounding.round_val with the specification loaded into the parameters), time-conversion
   nodes multiply by their factor.  Group / person-pointer aggregates and id builders are not
   evaluated here: their columns must be given as inputs. *)
From Coq Require Import ZArith QArith Qcanon Bool String List Lia.
From GettsimModel Require Import Num Val Ast Piecewise Eval PolicyEnv Rounding Dag TimeConv ChkC08.
Import ListNotations.
Open Scope string_scope.

Fixpoint find_node (name : string) (S : list dnode) : option dnode :=
  match S with
  | [] => None
  | n :: r => if String.eqb (d_name n) name then Some n else find_node name r
  end.

Definition spec_num (v : val) : option Qc :=
  match v with
  | VInt z => Some (qz z)
  | VFloat (XFin q) => Some q
  | _ => None
  end.

(* apply the rounding specification params[g]["rounding"][name] *)
Definition apply_rounding (P : params) (g name : string) (v : val) : res val :=
  match pget g P with
  | Some gv =>
      match path_get gv [KStr "rounding"; KStr name] with
      | Ok (VDict spec) =>
          match sget "base" spec, sget "direction" spec with
          | Some b, Some (VStr dir) =>
              match spec_num b, parse_direction dir with
              | Some base, Some d =>
                  let off := match sget "to_add_after_rounding" spec with
                             | Some o => match spec_num o with Some q => q | None => 0%Qc end
                             | None => 0%Qc end in
                  round_val base d off v
              | _, _ => Err EValue
              end
          | _, _ => Err EKey
          end
      | _ => Err EKey
      end
  | None => Err EKey
  end.

Section Seval.
  Variable S : list dnode.
  Variable ft : ftable.
  Variable P : params.
  Variable rounding : bool.
  Variable inp : list (string * val).

  Fixpoint seval (fuel : nat) (name : string) : res val :=
    match fuel with
    | O => Err EFuel
    | Datatypes.S f =>
        match lookup name inp with
        | Some v => Ok v
        | None =>
            match find_node name S with
            | None => Err EUnbound
            | Some n =>
                match d_kind n with
                | KRule py _ rd =>
                    do fd <- of_option EUnbound (flookup py ft);
                    do args <- (fix go (l : list (string * option annot)) : res (list val) :=
                                  match l with
                                  | [] => Ok []
                                  | (a, _) :: r =>
                                      do v <- (if is_params_name a
                                               then of_option EKey (pget (group_of a) P)
                                               else seval f a);
                                      do vs <- go r; Ok (v :: vs)
                                  end) (f_args fd);
                    do v <- call_rule ft fd args;
                    match rd with
                    | Some g => if rounding then apply_rounding P g name v else Ok v
                    | None => Ok v
                    end
                | KTimeConv num den =>
                    match d_args n with
                    | [a] => do x <- seval f a; arith Mul x (VFloat (XFin (qfrac num den)))
                    | _ => Err EType
                    end
                | _ => Err ENotImpl
                end
            end
        end
    end.
End Seval.

Definition seval_fuel : nat := 40.
