(* Priority.v — property C17: the means-tested benefits are mutually exclusive as the priority
   rules say.  The logical core, over per-person records:

     f1, f2, k   the three priority flags of the person's Bedarfsgemeinschaft
                 (wohngeld_vorrang_bg, wohngeld_kinderzuschl_vorrang_bg, kinderzuschl_vorrang_bg)
     r           erwachsene_alle_rentner_hh,  nr = anz_rentner_hh  (household level)
     hhid        household id;  wthh = hhid * 100 + (f1 || f2)      (Groupings.wthh_spec)
     A1, A2      the `any` aggregates of f1, f2 over the person's Wohngeld part-household

   and the final rules in the closed forms that the generated obligations prove equal to the
   regenerated rule ASTs (arbeitsl_geld_2_m_bg, wohngeld_m_wthh, kinderzuschl_m_bg). *)
From Coq Require Import ZArith QArith Qcanon Bool List Lia.
From GettsimModel Require Import Num Val.
Import ListNotations.
Open Scope Z_scope.

(* closed forms of the three final rules (values are model floats) *)
Definition alg2_spec (x : xq) (f1 k f2 r : bool) : xq := if f1 || k || f2 || r then xz 0 else x.
Definition wohngeld_spec (y : xq) (r a1 a2 : bool) : xq := if negb r && (a1 || a2) then y else xz 0.
Definition kiz_spec (z : xq) (k f2 : bool) (nr : Z) : xq :=
  if (negb k && negb f2) || (0 <? nr) then xz 0 else z.

Record person := {
  hhid : Z; f1 : bool; f2 : bool; k : bool; r : bool; nr : Z;
  x_alg2 : xq; y_wg : xq; z_kiz : xq
}.

Definition wthh (p : person) : Z := hhid p * 100 + (if f1 p || f2 p then 1 else 0).

(* `any` over the members of the part-household *)
Definition any_in (ps : list person) (flag : person -> bool) (p : person) : bool :=
  existsb (fun q => (wthh q =? wthh p) && flag q) ps.

Definition alg2 (p : person) : xq := alg2_spec (x_alg2 p) (f1 p) (k p) (f2 p) (r p).
Definition wohngeld (ps : list person) (p : person) : xq :=
  wohngeld_spec (y_wg p) (r p) (any_in ps f1 p) (any_in ps f2 p).
Definition kiz (p : person) : xq := kiz_spec (z_kiz p) (k p) (f2 p) (nr p).

Definition positive (v : xq) : Prop := v <> xz 0.

(* members of one part-household have the same outcome of the priority check *)
Lemma wthh_same_flag p q : wthh p = wthh q -> (f1 p || f2 p) = (f1 q || f2 q).
Proof. unfold wthh. destruct (f1 p || f2 p), (f1 q || f2 q); intro H; try reflexivity; lia. Qed.

(* no person receives ALG II / Buergergeld together with Wohngeld or Kinderzuschlag *)
Theorem alg2_excludes ps p : In p ps -> positive (alg2 p) -> wohngeld ps p = xz 0 /\ kiz p = xz 0.
Proof.
  intros Hin Hpos. unfold positive, alg2, alg2_spec in Hpos.
  destruct (f1 p || k p || f2 p || r p) eqn:E; [exfalso; apply Hpos; reflexivity|].
  repeat rewrite orb_false_iff in E. destruct E as [[[E1 Ek] E2] Er].
  split.
  - unfold wohngeld, wohngeld_spec.
    assert (A : forall flag, (forall q, flag q = true -> (f1 q || f2 q) = true) -> any_in ps flag p = false).
    { intros flag Hf. unfold any_in. apply not_true_is_false. intro H. apply existsb_exists in H.
      destruct H as [q [_ Hq]]. apply andb_true_iff in Hq. destruct Hq as [Hw Hfq]. apply Z.eqb_eq in Hw.
      pose proof (wthh_same_flag q p Hw) as S. rewrite (Hf q Hfq), E1, E2 in S. discriminate. }
    rewrite (A f1), (A f2).
    + rewrite andb_false_r. reflexivity.
    + intros q Hq. rewrite Hq. apply orb_true_r.
    + intros q Hq. rewrite Hq. reflexivity.
  - unfold kiz, kiz_spec. rewrite Ek, E2. reflexivity.
Qed.

(* Wohngeld and ALG II: conversely *)
Theorem wohngeld_excludes_alg2 ps p : positive (wohngeld ps p) -> alg2 p = xz 0.
Proof.
  unfold positive, wohngeld, wohngeld_spec. intro Hpos.
  destruct (negb (r p) && (any_in ps f1 p || any_in ps f2 p)) eqn:E; [|exfalso; apply Hpos; reflexivity].
  apply andb_true_iff in E. destruct E as [_ E].
  assert (F : (f1 p || f2 p) = true).
  { apply orb_true_iff in E. destruct E as [E|E]; unfold any_in in E; apply existsb_exists in E;
      destruct E as [q [_ Hq]]; apply andb_true_iff in Hq; destruct Hq as [Hw Hf]; apply Z.eqb_eq in Hw;
      rewrite <- (wthh_same_flag q p Hw), Hf; [reflexivity | apply orb_true_r]. }
  unfold alg2, alg2_spec. apply orb_true_iff in F. destruct F as [F|F]; rewrite F; [reflexivity|].
  rewrite !orb_true_r. destruct (f1 p || k p); reflexivity.
Qed.

(* Grundsicherung im Alter is only paid when all adults of the household are pensioners (rule
   grunds_im_alter_m_eg), and then there is a pensioner in the household: no ALG II, Wohngeld, Kinderzuschlag *)
Theorem grundsicherung_excludes ps p :
  r p = true -> 0 < nr p -> alg2 p = xz 0 /\ wohngeld ps p = xz 0 /\ kiz p = xz 0.
Proof.
  intros Hr Hn. unfold alg2, alg2_spec, wohngeld, wohngeld_spec, kiz, kiz_spec. rewrite Hr.
  assert (E : (0 <? nr p) = true) by (apply Z.ltb_lt; exact Hn). rewrite E.
  rewrite !orb_true_r. cbn. auto.
Qed.

(* all members of a Bedarfsgemeinschaft (same flags, same household) fall into one part-household *)
Theorem bg_within_wthh p q : hhid p = hhid q -> f1 p = f1 q -> f2 p = f2 q -> wthh p = wthh q.
Proof. intros H1 H2 H3. unfold wthh. rewrite H1, H2, H3. reflexivity. Qed.

(* Kinderzuschlag is only paid where it — alone or together with Wohngeld — covers the need *)
Theorem kiz_only_if_need_covered p : positive (kiz p) -> k p = true \/ f2 p = true.
Proof.
  unfold positive, kiz, kiz_spec. destruct (k p), (f2 p); auto.
Qed.

(* the flags in closed form (benefit_checks.py), proved equal to the regenerated ASTs *)
Definition geq_spec (a b : xq) : bool := xq_leb b a.
