(* AffEval.v — SYMBOLIC evaluation of the rule language in ONE real variable w ranging over an interval:
   a value is either a concrete value (independent of w) or the float a*w + b.  Comparisons of affine
   values are decided for the WHOLE interval (by the sign of an affine function at the end points) or
   the evaluation gives up.  Soundness (sym_eval_sound, sym_exec_sound, sym_call_fuel_sound,
   sym_seval_sound): whenever the symbolic evaluation returns s, the concrete interpreter (Eval / Scalar)
   returns exactly the value conc w s for EVERY w of the interval.  Used by C19: the contribution chains
   of the real graph are piecewise affine in the wage, and their statutory shape is decided on the pieces. *)
From Coq Require Import ZArith QArith Qcanon Bool String List Lia.
From GettsimModel Require Import Num NumTac Val Ast Piecewise Eval PolicyEnv Rounding Dag TimeConv ChkC08 Scalar Absint.
Import ListNotations.
Open Scope string_scope.

Inductive sval := SC (v : val) | SA (a b : Qc).

Definition conc (w : Qc) (s : sval) : val :=
  match s with SC v => v | SA a b => VFloat (XFin (a * w + b)%Qc) end.

Definition senv := list (string * sval).

Fixpoint slookup (x : string) (e : senv) : option sval :=
  match e with
  | [] => None
  | (y, v) :: r => if String.eqb x y then Some v else slookup x r
  end.

Definition conc_env (w : Qc) (se : senv) : env := map (fun xs => (fst xs, conc w (snd xs))) se.

Lemma lookup_conc w x se : lookup x (conc_env w se) = option_map (conc w) (slookup x se).
Proof.
  induction se as [|[y s] r IH]; [reflexivity|]. cbn [conc_env map fst snd lookup slookup].
  destruct (String.eqb x y); [reflexivity|exact IH].
Qed.

(* ---------------------------------------------------------------- *)
(* intervals with open / closed ends *)
Record itv1 := { lo : Qc; lo_in : bool; hi : option Qc; hi_in : bool }.

Definition inI (I : itv1) (w : Qc) : Prop :=
  (if lo_in I then lo I <= w else lo I < w)%Qc /\
  match hi I with None => True | Some h => if hi_in I then (w <= h)%Qc else (w < h)%Qc end.

Open Scope Qc_scope.

(* a*w + b < 0 on the whole interval *)
Definition neg_on (I : itv1) (a b : Qc) : bool :=
  if Qceqb a 0 then Qcltb b 0
  else if Qcltb 0 a then
    match hi I with
    | Some h => if hi_in I then Qcltb (a * h + b) 0 else Qcleb (a * h + b) 0
    | None => false
    end
  else if lo_in I then Qcltb (a * lo I + b) 0 else Qcleb (a * lo I + b) 0.

(* a*w + b <= 0 on the whole interval *)
Definition nonpos_on (I : itv1) (a b : Qc) : bool :=
  if Qceqb a 0 then Qcleb b 0
  else if Qcltb 0 a then
    match hi I with Some h => Qcleb (a * h + b) 0 | None => false end
  else Qcleb (a * lo I + b) 0.

Definition pos_on (I : itv1) (a b : Qc) : bool := neg_on I (- a) (- b).
Definition nonneg_on (I : itv1) (a b : Qc) : bool := nonpos_on I (- a) (- b).

Lemma neg_on_sound I a b w : neg_on I a b = true -> inI I w -> a * w + b < 0.
Proof.
  unfold neg_on, inI. intros H [Hlo Hhi].
  destruct (Qceqb a 0) eqn:Ea.
  - apply Qceqb_iff in Ea. subst a. apply Qcltb_iff in H. qlra.
  - destruct (Qcltb 0 a) eqn:Ep.
    + apply Qcltb_iff in Ep. destruct (hi I) as [h|]; [|discriminate].
      destruct (hi_in I).
      * apply Qcltb_iff in H. qnra.
      * apply Qcleb_iff in H. qnra.
    + apply Qcltb_false_iff in Ep.
      assert (Hn : a < 0).
      { destruct (Qclt_le_dec a 0) as [Hl|Hg]; [exact Hl|]. exfalso.
        assert (a = 0) by (apply Qcle_antisym; assumption). subst a.
        assert (Qceqb 0 0 = true) by (apply Qceqb_iff; reflexivity). congruence. }
      destruct (lo_in I).
      * apply Qcltb_iff in H. qnra.
      * apply Qcleb_iff in H. qnra.
Qed.

Lemma nonpos_on_sound I a b w : nonpos_on I a b = true -> inI I w -> a * w + b <= 0.
Proof.
  unfold nonpos_on, inI. intros H [Hlo Hhi].
  destruct (Qceqb a 0) eqn:Ea.
  - apply Qceqb_iff in Ea. subst a. apply Qcleb_iff in H. qlra.
  - destruct (Qcltb 0 a) eqn:Ep.
    + apply Qcltb_iff in Ep. destruct (hi I) as [h|]; [|discriminate].
      apply Qcleb_iff in H. destruct (hi_in I); qnra.
    + apply Qcltb_false_iff in Ep. apply Qcleb_iff in H. destruct (lo_in I); qnra.
Qed.

Lemma pos_on_sound I a b w : pos_on I a b = true -> inI I w -> 0 < a * w + b.
Proof. intros H Hw. pose proof (neg_on_sound I (- a) (- b) w H Hw). qlra. Qed.

Lemma nonneg_on_sound I a b w : nonneg_on I a b = true -> inI I w -> 0 <= a * w + b.
Proof. intros H Hw. pose proof (nonpos_on_sound I (- a) (- b) w H Hw). qlra. Qed.

(* ---------------------------------------------------------------- *)
(* the affine view of a symbolic value *)
Definition fin_of (v : val) : option Qc :=
  match as_num v with
  | Some n => match num_x n with XFin q => Some q | _ => None end
  | None => None
  end.

Definition aff_of (s : sval) : option (Qc * Qc) :=
  match s with
  | SA a b => Some (a, b)
  | SC v => match fin_of v with Some q => Some (0, q) | None => None end
  end.

Definition is_sa (s : sval) : bool := match s with SA _ _ => true | SC _ => false end.

Lemma aff_num w s a b : aff_of s = Some (a, b) ->
  exists n, as_num (conc w s) = Some n /\ num_x n = XFin (a * w + b) /\ (is_sa s = true -> exists x, n = NF x).
Proof.
  destruct s as [v|a' b']; cbn [aff_of conc is_sa].
  - unfold fin_of. destruct (as_num v) as [n|] eqn:E; [|discriminate].
    destruct (num_x n) as [|q| |] eqn:En; try discriminate. intros [= <- <-].
    exists n. split; [reflexivity|split; [|discriminate]]. rewrite En. f_equal. ring.
  - intros [= <- <-]. exists (NF (XFin (a' * w + b'))). split; [reflexivity|split; [reflexivity|]]. intros _. eauto.
Qed.

Definition sarith (op : binop) (s1 s2 : sval) : option sval :=
  match s1, s2 with
  | SC v1, SC v2 => match arith op v1 v2 with Ok v => Some (SC v) | Err _ => None end
  | _, _ =>
      match aff_of s1, aff_of s2 with
      | Some (a1, b1), Some (a2, b2) =>
          match op with
          | Add => Some (SA (a1 + a2) (b1 + b2))
          | Sub => Some (SA (a1 - a2) (b1 - b2))
          | Mul => if Qceqb a1 0 then Some (SA (b1 * a2) (b1 * b2))
                   else if Qceqb a2 0 then Some (SA (a1 * b2) (b1 * b2)) else None
          | Div => if Qceqb a2 0 && negb (Qceqb b2 0) then Some (SA (a1 / b2) (b1 / b2)) else None
          | _ => None
          end
      | _, _ => None
      end
  end.

Lemma arith_float op x y : (exists u, x = NF u) \/ (exists u, y = NF u) ->
  forall a b, as_num a = Some x -> as_num b = Some y ->
  arith op a b = match op with
                 | Add => Ok (VFloat (xq_add (num_x x) (num_x y)))
                 | Sub => Ok (VFloat (xq_sub (num_x x) (num_x y)))
                 | Mul => Ok (VFloat (xq_mul (num_x x) (num_x y)))
                 | Div => match xq_div (num_x x) (num_x y) with Some r => Ok (VFloat r) | None => Err EZeroDiv end
                 | _ => arith op a b
                 end.
Proof.
  intros Hf a b Ha Hb. unfold arith. rewrite Ha, Hb.
  destruct op; try reflexivity; destruct x, y; try reflexivity; exfalso; destruct Hf as [[u Hu]|[u Hu]]; discriminate.
Qed.

Lemma sarith_sound w op s1 s2 s : sarith op s1 s2 = Some s ->
  arith op (conc w s1) (conc w s2) = Ok (conc w s).
Proof.
  unfold sarith.
  assert (Gen : (is_sa s1 = true \/ is_sa s2 = true) ->
    match aff_of s1, aff_of s2 with
    | Some (a1, b1), Some (a2, b2) =>
        match op with
        | Add => Some (SA (a1 + a2) (b1 + b2))
        | Sub => Some (SA (a1 - a2) (b1 - b2))
        | Mul => if Qceqb a1 0 then Some (SA (b1 * a2) (b1 * b2))
                 else if Qceqb a2 0 then Some (SA (a1 * b2) (b1 * b2)) else None
        | Div => if Qceqb a2 0 && negb (Qceqb b2 0) then Some (SA (a1 / b2) (b1 / b2)) else None
        | _ => None
        end
    | _, _ => None
    end = Some s -> arith op (conc w s1) (conc w s2) = Ok (conc w s)).
  { intros Hsa H.
    destruct (aff_of s1) as [[a1 b1]|] eqn:A1; [|discriminate].
    destruct (aff_of s2) as [[a2 b2]|] eqn:A2; [|discriminate].
    destruct (aff_num w s1 a1 b1 A1) as (x & Hx & Nx & Fx).
    destruct (aff_num w s2 a2 b2 A2) as (y & Hy & Ny & Fy).
    assert (Hf : (exists u, x = NF u) \/ (exists u, y = NF u)) by (destruct Hsa; [left|right]; auto).
    rewrite (arith_float op x y Hf _ _ Hx Hy), Nx, Ny.
    destruct op; try discriminate.
    - injection H as <-. cbn. do 3 f_equal. ring.
    - injection H as <-. cbn. do 3 f_equal. ring.
    - cbn [xq_mul]. destruct (Qceqb a1 0) eqn:E1.
      + apply Qceqb_iff in E1. subst a1. injection H as <-. cbn. do 3 f_equal. ring.
      + destruct (Qceqb a2 0) eqn:E2; [|discriminate].
        apply Qceqb_iff in E2. subst a2. injection H as <-. cbn. do 3 f_equal. ring.
    - destruct (Qceqb a2 0) eqn:E2; [|discriminate]. destruct (Qceqb b2 0) eqn:E3; [discriminate|].
      cbn [andb negb] in H. injection H as <-.
      apply Qceqb_iff in E2. subst a2.
      assert (Hb2 : 0 * w + b2 = b2) by ring. rewrite Hb2. cbn [xq_div]. rewrite E3. cbn. do 3 f_equal.
      assert (Hn : b2 <> 0) by (intro E; subst b2; assert (Qceqb 0 0 = true) by (apply Qceqb_iff; reflexivity); congruence).
      field. exact Hn. }
  destruct s1 as [v1|a1 b1], s2 as [v2|a2 b2].
  - destruct (arith op v1 v2) as [v|] eqn:E; [|discriminate]. intros [= <-]. exact E.
  - apply Gen. now right.
  - apply Gen. now left.
  - apply Gen. now left.
Qed.

Definition sneg (s : sval) : option sval :=
  match s with
  | SC v => match neg v with Ok r => Some (SC r) | Err _ => None end
  | SA a b => Some (SA (- a) (- b))
  end.

Lemma sneg_sound w s r : sneg s = Some r -> neg (conc w s) = Ok (conc w r).
Proof.
  destruct s as [v|a b]; cbn [sneg conc].
  - destruct (neg v) eqn:E; [|discriminate]. intros [= <-]. reflexivity.
  - intros [= <-]. cbn. do 3 f_equal. ring.
Qed.

(* comparisons: decided for the whole interval or not at all *)
Definition decide (yes no : bool) (pos : bool) : option sval :=
  if yes then Some (SC (VBool pos)) else if no then Some (SC (VBool (negb pos))) else None.

Definition scompare (I : itv1) (op : cmpop) (s1 s2 : sval) : option sval :=
  match s1, s2 with
  | SC v1, SC v2 => match compare op v1 v2 with Ok v => Some (SC v) | Err _ => None end
  | _, _ =>
      match aff_of s1, aff_of s2 with
      | Some (a1, b1), Some (a2, b2) =>
          let a := a1 - a2 in let b := b1 - b2 in
          match op with
          | Lt => decide (neg_on I a b) (nonneg_on I a b) true
          | LtE => decide (nonpos_on I a b) (pos_on I a b) true
          | Gt => decide (pos_on I a b) (nonpos_on I a b) true
          | GtE => decide (nonneg_on I a b) (neg_on I a b) true
          | Eq => decide false (neg_on I a b || pos_on I a b) true
          | NotEq => decide (neg_on I a b || pos_on I a b) false true
          end
      | _, _ => None
      end
  end.

Lemma compare_float op x y : (exists u, x = NF u) \/ (exists u, y = NF u) ->
  forall a b p q, as_num a = Some x -> as_num b = Some y -> num_x x = XFin p -> num_x y = XFin q ->
  compare op a b = Ok (VBool (match op with
                              | Lt => Qcltb p q | LtE => Qcleb p q | Gt => Qcltb q p | GtE => Qcleb q p
                              | Eq => Qceqb p q | NotEq => negb (Qceqb p q)
                              end)).
Proof.
  intros Hf a b p q Ha Hb Hp Hq. unfold compare. rewrite Ha, Hb. f_equal. f_equal.
  destruct x as [zx|ux], y as [zy|uy]; cbn [num_x] in Hp, Hq;
    [exfalso; destruct Hf as [[u Hu]|[u Hu]]; discriminate| | |]; cbn [num_cmp num_x]; rewrite ?Hp, ?Hq; destruct op; reflexivity.
Qed.

Lemma scompare_sound I w op s1 s2 s : inI I w -> scompare I op s1 s2 = Some s ->
  compare op (conc w s1) (conc w s2) = Ok (conc w s).
Proof.
  intros Hw. unfold scompare.
  assert (Gen : (is_sa s1 = true \/ is_sa s2 = true) ->
    match aff_of s1, aff_of s2 with
    | Some (a1, b1), Some (a2, b2) =>
        let a := a1 - a2 in let b := b1 - b2 in
        match op with
        | Lt => decide (neg_on I a b) (nonneg_on I a b) true
        | LtE => decide (nonpos_on I a b) (pos_on I a b) true
        | Gt => decide (pos_on I a b) (nonpos_on I a b) true
        | GtE => decide (nonneg_on I a b) (neg_on I a b) true
        | Eq => decide false (neg_on I a b || pos_on I a b) true
        | NotEq => decide (neg_on I a b || pos_on I a b) false true
        end
    | _, _ => None
    end = Some s -> compare op (conc w s1) (conc w s2) = Ok (conc w s)).
  { intros Hsa H.
    destruct (aff_of s1) as [[a1 b1]|] eqn:A1; [|discriminate].
    destruct (aff_of s2) as [[a2 b2]|] eqn:A2; [|discriminate].
    destruct (aff_num w s1 a1 b1 A1) as (x & Hx & Nx & Fx).
    destruct (aff_num w s2 a2 b2 A2) as (y & Hy & Ny & Fy).
    assert (Hf : (exists u, x = NF u) \/ (exists u, y = NF u)) by (destruct Hsa; [left|right]; auto).
    rewrite (compare_float op x y Hf _ _ _ _ Hx Hy Nx Ny).
    cbn zeta in H. set (p := a1 * w + b1) in *. set (q := a2 * w + b2) in *.
    assert (D : (a1 - a2) * w + (b1 - b2) = p - q) by (unfold p, q; ring).
    pose proof (neg_on_sound I (a1 - a2) (b1 - b2) w) as Sneg.
    pose proof (nonpos_on_sound I (a1 - a2) (b1 - b2) w) as Snonpos.
    pose proof (pos_on_sound I (a1 - a2) (b1 - b2) w) as Spos.
    pose proof (nonneg_on_sound I (a1 - a2) (b1 - b2) w) as Snonneg.
    rewrite D in Sneg, Snonpos, Spos, Snonneg.
    assert (Tlt : p - q < 0 -> Qcltb p q = true) by (intros; apply Qcltb_iff; qlra).
    assert (Flt : 0 <= p - q -> Qcltb p q = false) by (intros; apply Qcltb_false_iff; qlra).
    assert (Tle : p - q <= 0 -> Qcleb p q = true) by (intros; apply Qcleb_iff; qlra).
    assert (Fle : 0 < p - q -> Qcleb p q = false) by (intros; apply Qcleb_false_iff; qlra).
    assert (Tgt : 0 < p - q -> Qcltb q p = true) by (intros; apply Qcltb_iff; qlra).
    assert (Fgt : p - q <= 0 -> Qcltb q p = false) by (intros; apply Qcltb_false_iff; qlra).
    assert (Tge : 0 <= p - q -> Qcleb q p = true) by (intros; apply Qcleb_iff; qlra).
    assert (Fge : p - q < 0 -> Qcleb q p = false) by (intros; apply Qcleb_false_iff; qlra).
    assert (Fne : p - q < 0 \/ 0 < p - q -> Qceqb p q = false).
    { intros Hd. destruct (Qceqb p q) eqn:E; [|reflexivity]. apply Qceqb_iff in E. rewrite E in Hd.
      destruct Hd as [Hd|Hd]; qlra. }
    unfold decide in H. destruct op.
    - destruct (neg_on I (a1 - a2) (b1 - b2)) eqn:E1; [injection H as <-; cbn; now rewrite Tlt by auto|].
      destruct (nonneg_on I (a1 - a2) (b1 - b2)) eqn:E2; [injection H as <-; cbn; now rewrite Flt by auto|discriminate].
    - destruct (nonpos_on I (a1 - a2) (b1 - b2)) eqn:E1; [injection H as <-; cbn; now rewrite Tle by auto|].
      destruct (pos_on I (a1 - a2) (b1 - b2)) eqn:E2; [injection H as <-; cbn; now rewrite Fle by auto|discriminate].
    - destruct (pos_on I (a1 - a2) (b1 - b2)) eqn:E1; [injection H as <-; cbn; now rewrite Tgt by auto|].
      destruct (nonpos_on I (a1 - a2) (b1 - b2)) eqn:E2; [injection H as <-; cbn; now rewrite Fgt by auto|discriminate].
    - destruct (nonneg_on I (a1 - a2) (b1 - b2)) eqn:E1; [injection H as <-; cbn; now rewrite Tge by auto|].
      destruct (neg_on I (a1 - a2) (b1 - b2)) eqn:E2; [injection H as <-; cbn; now rewrite Fge by auto|discriminate].
    - destruct (neg_on I (a1 - a2) (b1 - b2) || pos_on I (a1 - a2) (b1 - b2)) eqn:E1; [|discriminate].
      injection H as <-. cbn. rewrite Fne; [reflexivity|]. apply orb_true_iff in E1 as [E|E]; [left|right]; auto.
    - destruct (neg_on I (a1 - a2) (b1 - b2) || pos_on I (a1 - a2) (b1 - b2)) eqn:E1; [|discriminate].
      injection H as <-. cbn. rewrite Fne; [reflexivity|]. apply orb_true_iff in E1 as [E|E]; [left|right]; auto. }
  destruct s1 as [v1|a1 b1], s2 as [v2|a2 b2].
  - destruct (compare op v1 v2) as [v|] eqn:E; [|discriminate]. intros [= <-]. exact E.
  - apply Gen. now right.
  - apply Gen. now left.
  - apply Gen. now left.
Qed.

(* ---------------------------------------------------------------- *)
(* min / max over symbolic values: Python keeps the first extremal item *)
Fixpoint sfold_best (I : itv1) (is_min : bool) (best : sval) (l : list sval) : option sval :=
  match l with
  | [] => Some best
  | x :: r =>
      match (if is_min then scompare I Lt x best else scompare I Lt best x) with
      | Some (SC (VBool b)) => sfold_best I is_min (if b then x else best) r
      | _ => None
      end
  end.

Lemma sfold_best_sound I w is_min : inI I w -> forall l best s, sfold_best I is_min best l = Some s ->
  fold_best (if is_min then (fun item b => lt_val item b) else (fun item b => lt_val b item))
            (conc w best) (map (conc w) l) = Ok (conc w s).
Proof.
  intros Hw. induction l as [|x r IH]; intros best s H; cbn [sfold_best] in H.
  - injection H as <-. reflexivity.
  - cbn [map fold_best].
    destruct is_min.
    + destruct (scompare I Lt x best) as [[[ | |b| | | | |]|]|] eqn:E; try discriminate.
      apply (scompare_sound I w Lt x best _ Hw) in E. unfold lt_val. rewrite E. cbn [bind conc].
      rewrite <- (IH _ _ H). destruct b; reflexivity.
    + destruct (scompare I Lt best x) as [[[ | |b| | | | |]|]|] eqn:E; try discriminate.
      apply (scompare_sound I w Lt best x _ Hw) in E. unfold lt_val. rewrite E. cbn [bind conc].
      rewrite <- (IH _ _ H). destruct b; reflexivity.
Qed.

Fixpoint all_sc (l : list sval) : option (list val) :=
  match l with
  | [] => Some []
  | SC v :: r => match all_sc r with Some vs => Some (v :: vs) | None => None end
  | SA _ _ :: _ => None
  end.

Lemma all_sc_conc w l vs : all_sc l = Some vs -> map (conc w) l = vs.
Proof.
  revert vs. induction l as [|[v|a b] r IH]; intros vs H; cbn [all_sc] in H; [injection H as <-; reflexivity| |discriminate].
  destruct (all_sc r) as [vs'|]; [|discriminate]. injection H as <-. cbn [map conc]. now rewrite (IH vs').
Qed.

Definition sbuiltin (I : itv1) (b : builtin) (args : list sval) : option sval :=
  match all_sc args with
  | Some vs => match apply_builtin b vs with Ok v => Some (SC v) | Err _ => None end
  | None =>
      match b, args with
      | BMin, x :: y :: r => sfold_best I true x (y :: r)
      | BMax, x :: y :: r => sfold_best I false x (y :: r)
      | BFloat, [SA a c] => Some (SA a c)
      | _, _ => None
      end
  end.

Lemma sbuiltin_sound I w b args s : inI I w -> sbuiltin I b args = Some s ->
  apply_builtin b (map (conc w) args) = Ok (conc w s).
Proof.
  intros Hw. unfold sbuiltin. destruct (all_sc args) as [vs|] eqn:E.
  - rewrite (all_sc_conc w args vs E). destruct (apply_builtin b vs) eqn:Eb; [|discriminate]. intros [= <-]. reflexivity.
  - destruct b; try discriminate.
    + destruct args as [|x [|y r]]; try discriminate. intros H.
      apply (sfold_best_sound I w true Hw) in H. cbn [map] in *. exact H.
    + destruct args as [|x [|y r]]; try discriminate. intros H.
      apply (sfold_best_sound I w false Hw) in H. cbn [map] in *. exact H.
    + destruct args as [|[v|a c] [|y r]]; try discriminate. intros [= <-]. reflexivity.
Qed.

(* ---------------------------------------------------------------- *)
(* expressions and statements *)
Section SymCall.
  Variable I : itv1.
  Variable scall : string -> list sval -> option sval.

  Fixpoint sym_eval (se : senv) (e : expr) {struct e} : option sval :=
    match e with
    | EInt z => Some (SC (VInt z))
    | EFloat q => Some (SC (VFloat (XFin q)))
    | EInf => Some (SC (VFloat XPosInf))
    | EBool b => Some (SC (VBool b))
    | EStr s => Some (SC (VStr s))
    | ENone => Some (SC VNone)
    | EVar x => slookup x se
    | EBin op a b =>
        match sym_eval se a, sym_eval se b with Some x, Some y => sarith op x y | _, _ => None end
    | ENeg a => match sym_eval se a with Some x => sneg x | None => None end
    | ENot a => match sym_eval se a with Some (SC v) => Some (SC (VBool (negb (truthy v)))) | _ => None end
    | EAnd a b =>
        match sym_eval se a with
        | Some (SC v) => if truthy v then sym_eval se b else Some (SC v)
        | _ => None
        end
    | EOr a b =>
        match sym_eval se a with
        | Some (SC v) => if truthy v then Some (SC v) else sym_eval se b
        | _ => None
        end
    | ECmp op a b =>
        match sym_eval se a, sym_eval se b with Some x, Some y => scompare I op x y | _, _ => None end
    | EIn ng a d =>
        match sym_eval se a, sym_eval se d with
        | Some (SC x), Some (SC c) => match py_in ng x c with Ok v => Some (SC v) | Err _ => None end
        | _, _ => None
        end
    | EIfE c a b =>
        match sym_eval se c with
        | Some (SC v) => if truthy v then sym_eval se a else sym_eval se b
        | _ => None
        end
    | ESub a k =>
        match sym_eval se a, sym_eval se k with
        | Some (SC x), Some (SC y) => match subscript x y with Ok v => Some (SC v) | Err _ => None end
        | _, _ => None
        end
    | ECall f args => match sym_evals se args with Some ss => scall f ss | None => None end
    | EBuiltin b args => match sym_evals se args with Some ss => sbuiltin I b ss | None => None end
    | EListLit args =>
        match sym_evals se args with
        | Some ss => match all_sc ss with Some vs => Some (SC (VList vs)) | None => None end
        | None => None
        end
    | EComp _ _ _ _ => None
    end
  with sym_evals (se : senv) (es : exprs) {struct es} : option (list sval) :=
    match es with
    | ENil => Some []
    | ECons e r =>
        match sym_eval se e, sym_evals se r with Some s, Some ss => Some (s :: ss) | _, _ => None end
    end.

  Inductive soutcome := SoNormal (se : senv) | SoReturn (s : sval).

  Fixpoint sym_exec (se : senv) (s : stmt) : option soutcome :=
    match s with
    | SSkip => Some (SoNormal se)
    | SSeq a b =>
        match sym_exec se a with
        | Some (SoNormal se') => sym_exec se' b
        | o => o
        end
    | SAssign x e => match sym_eval se e with Some v => Some (SoNormal ((x, v) :: se)) | None => None end
    | SAug x op e =>
        match slookup x se, sym_eval se e with
        | Some old, Some v => match sarith op old v with Some r => Some (SoNormal ((x, r) :: se)) | None => None end
        | _, _ => None
        end
    | SIf c a b =>
        match sym_eval se c with
        | Some (SC v) => if truthy v then sym_exec se a else sym_exec se b
        | _ => None
        end
    | SReturn e => match sym_eval se e with Some v => Some (SoReturn v) | None => None end
    | SRaise _ => None
    end.

  Definition conc_out (w : Qc) (o : soutcome) : outcome :=
    match o with SoNormal se => ONormal (conc_env w se) | SoReturn s => OReturn (conc w s) end.

  Fixpoint sbind_args (ps : list (string * option annot)) (vs : list sval) : option senv :=
    match ps, vs with
    | [], [] => Some []
    | (p, _) :: pr, v :: vr => match sbind_args pr vr with Some r => Some ((p, v) :: r) | None => None end
    | _, _ => None
    end.

  Definition sym_run_body (fd : fundef) (ss : list sval) : option sval :=
    match f_body fd with
    | None => None
    | Some body =>
        match sbind_args (f_args fd) ss with
        | Some se =>
            match sym_exec se body with
            | Some (SoReturn s) => Some s
            | Some (SoNormal _) => Some (SC VNone)
            | None => None
            end
        | None => None
        end
    end.

  (* soundness, relative to a concrete [call] that the symbolic [scall] describes *)
  Variable call : string -> list val -> res val.
  Variable w : Qc.
  Hypothesis Hw : inI I w.
  Hypothesis Hcall : forall f ss s, scall f ss = Some s -> call f (map (conc w) ss) = Ok (conc w s).

  Definition sound_e (e : expr) : Prop := forall se s, sym_eval se e = Some s -> eval call (conc_env w se) e = Ok (conc w s).
  Definition sound_es (es : exprs) : Prop := forall se ss, sym_evals se es = Some ss -> evals call (conc_env w se) es = Ok (map (conc w) ss).

  Theorem sym_eval_sound : (forall e, sound_e e) /\ (forall es, sound_es es).
  Proof.
    apply expr_exprs_ind; unfold sound_e, sound_es.
    - intros z se s [= <-]. reflexivity.
    - intros q se s [= <-]. reflexivity.
    - intros se s [= <-]. reflexivity.
    - intros b se s [= <-]. reflexivity.
    - intros x se s [= <-]. reflexivity.
    - intros se s [= <-]. reflexivity.
    - (* EVar *) intros x se s H. cbn [sym_eval] in H. cbn [eval]. rewrite lookup_conc, H. reflexivity.
    - (* EBin *) intros op a IHa b IHb se s H. cbn [sym_eval] in H.
      destruct (sym_eval se a) as [x|] eqn:E1; [|discriminate]. destruct (sym_eval se b) as [y|] eqn:E2; [|discriminate].
      change (eval call (conc_env w se) (EBin op a b)) with (do x <- eval call (conc_env w se) a; do y <- eval call (conc_env w se) b; arith op x y).
      rewrite (IHa se x E1), (IHb se y E2). cbn [bind]. apply sarith_sound. exact H.
    - (* ENeg *) intros a IHa se s H. cbn [sym_eval] in H. destruct (sym_eval se a) as [x|] eqn:E1; [|discriminate].
      change (eval call (conc_env w se) (ENeg a)) with (do x <- eval call (conc_env w se) a; neg x).
      rewrite (IHa se x E1). cbn [bind]. apply sneg_sound. exact H.
    - (* ENot *) intros a IHa se s H. cbn [sym_eval] in H. destruct (sym_eval se a) as [[v|? ?]|] eqn:E1; try discriminate.
      injection H as <-.
      change (eval call (conc_env w se) (ENot a)) with (do x <- eval call (conc_env w se) a; Ok (VBool (negb (truthy x)))).
      rewrite (IHa se _ E1). reflexivity.
    - (* EAnd *) intros a IHa b IHb se s H. cbn [sym_eval] in H. destruct (sym_eval se a) as [[v|? ?]|] eqn:E1; try discriminate.
      change (eval call (conc_env w se) (EAnd a b)) with (do x <- eval call (conc_env w se) a; if truthy x then eval call (conc_env w se) b else Ok x).
      rewrite (IHa se _ E1). cbn [bind conc]. destruct (truthy v); [apply IHb; exact H|injection H as <-; reflexivity].
    - (* EOr *) intros a IHa b IHb se s H. cbn [sym_eval] in H. destruct (sym_eval se a) as [[v|? ?]|] eqn:E1; try discriminate.
      change (eval call (conc_env w se) (EOr a b)) with (do x <- eval call (conc_env w se) a; if truthy x then Ok x else eval call (conc_env w se) b).
      rewrite (IHa se _ E1). cbn [bind conc]. destruct (truthy v); [injection H as <-; reflexivity|apply IHb; exact H].
    - (* ECmp *) intros op a IHa b IHb se s H. cbn [sym_eval] in H.
      destruct (sym_eval se a) as [x|] eqn:E1; [|discriminate]. destruct (sym_eval se b) as [y|] eqn:E2; [|discriminate].
      change (eval call (conc_env w se) (ECmp op a b)) with (do x <- eval call (conc_env w se) a; do y <- eval call (conc_env w se) b; compare op x y).
      rewrite (IHa se x E1), (IHb se y E2). cbn [bind]. apply (scompare_sound I); assumption.
    - (* EIn *) intros ng a IHa d IHd se s H. cbn [sym_eval] in H.
      destruct (sym_eval se a) as [[x|? ?]|] eqn:E1; try discriminate. destruct (sym_eval se d) as [[c|? ?]|] eqn:E2; try discriminate.
      destruct (py_in ng x c) as [v|] eqn:E3; [|discriminate]. injection H as <-.
      change (eval call (conc_env w se) (EIn ng a d)) with (do u <- eval call (conc_env w se) a; do c <- eval call (conc_env w se) d; py_in ng u c).
      rewrite (IHa se _ E1), (IHd se _ E2). exact E3.
    - (* EIfE *) intros c IHc a IHa b IHb se s H. cbn [sym_eval] in H. destruct (sym_eval se c) as [[v|? ?]|] eqn:E1; try discriminate.
      change (eval call (conc_env w se) (EIfE c a b)) with (do x <- eval call (conc_env w se) c; if truthy x then eval call (conc_env w se) a else eval call (conc_env w se) b).
      rewrite (IHc se _ E1). cbn [bind conc]. destruct (truthy v); [apply IHa|apply IHb]; exact H.
    - (* ESub *) intros a IHa k IHk se s H. cbn [sym_eval] in H.
      destruct (sym_eval se a) as [[x|? ?]|] eqn:E1; try discriminate. destruct (sym_eval se k) as [[y|? ?]|] eqn:E2; try discriminate.
      destruct (subscript x y) as [v|] eqn:E3; [|discriminate]. injection H as <-.
      change (eval call (conc_env w se) (ESub a k)) with (do x <- eval call (conc_env w se) a; do y <- eval call (conc_env w se) k; subscript x y).
      rewrite (IHa se _ E1), (IHk se _ E2). exact E3.
    - (* ECall *) intros f args IH se s H. cbn [sym_eval] in H. destruct (sym_evals se args) as [ss|] eqn:E1; [|discriminate].
      change (eval call (conc_env w se) (ECall f args)) with (do vs <- evals call (conc_env w se) args; call f vs).
      rewrite (IH se ss E1). cbn [bind]. apply Hcall. exact H.
    - (* EBuiltin *) intros b args IH se s H. cbn [sym_eval] in H. destruct (sym_evals se args) as [ss|] eqn:E1; [|discriminate].
      change (eval call (conc_env w se) (EBuiltin b args)) with (do vs <- evals call (conc_env w se) args; apply_builtin b vs).
      rewrite (IH se ss E1). cbn [bind]. apply (sbuiltin_sound I); assumption.
    - (* EListLit *) intros args IH se s H. cbn [sym_eval] in H. destruct (sym_evals se args) as [ss|] eqn:E1; [|discriminate].
      destruct (all_sc ss) as [vs|] eqn:E2; [|discriminate]. injection H as <-.
      change (eval call (conc_env w se) (EListLit args)) with (do vs <- evals call (conc_env w se) args; Ok (VList vs)).
      rewrite (IH se ss E1). cbn [bind conc]. now rewrite (all_sc_conc w ss vs E2).
    - (* EComp *) intros body IHb x iter IHi cond IHc se s H. discriminate.
    - (* ENil *) intros se ss [= <-]. reflexivity.
    - (* ECons *) intros e IHe r IHr se ss H. cbn [sym_evals] in H.
      destruct (sym_eval se e) as [s|] eqn:E1; [|discriminate]. destruct (sym_evals se r) as [ss'|] eqn:E2; [|discriminate].
      injection H as <-.
      change (evals call (conc_env w se) (ECons e r)) with (do v <- eval call (conc_env w se) e; do vs <- evals call (conc_env w se) r; Ok (v :: vs)).
      rewrite (IHe se s E1), (IHr se ss' E2). reflexivity.
  Qed.

  Lemma sym_exec_sound : forall s se o, sym_exec se s = Some o -> exec call (conc_env w se) s = conc_out w o.
  Proof.
    destruct sym_eval_sound as [He _].
    induction s as [|a IHa b IHb|x e|x op e|c a IHa b IHb|e|er]; intros se o H; cbn [sym_exec] in H; cbn [exec].
    - injection H as <-. reflexivity.
    - destruct (sym_exec se a) as [[se'|r]|] eqn:E1; try discriminate.
      + rewrite (IHa se _ E1). cbn [conc_out]. apply IHb. exact H.
      + injection H as <-. rewrite (IHa se _ E1). reflexivity.
    - destruct (sym_eval se e) as [v|] eqn:E1; [|discriminate]. injection H as <-.
      rewrite (He e se v E1). reflexivity.
    - destruct (slookup x se) as [old|] eqn:E0; [|discriminate].
      destruct (sym_eval se e) as [v|] eqn:E1; [|discriminate].
      destruct (sarith op old v) as [r|] eqn:E2; [|discriminate]. injection H as <-.
      rewrite lookup_conc, E0. cbn [option_map]. rewrite (He e se v E1), (sarith_sound w op old v r E2). reflexivity.
    - destruct (sym_eval se c) as [[v|? ?]|] eqn:E1; try discriminate.
      rewrite (He c se _ E1). cbn [conc]. destruct (truthy v); [apply IHa|apply IHb]; exact H.
    - destruct (sym_eval se e) as [v|] eqn:E1; [|discriminate]. injection H as <-.
      rewrite (He e se v E1). reflexivity.
    - discriminate.
  Qed.

  Lemma sbind_args_sound : forall ps ss se, sbind_args ps ss = Some se ->
    bind_args ps (map (conc w) ss) = Ok (conc_env w se).
  Proof.
    induction ps as [|[p an] pr IH]; intros [|v vr] se H; cbn [sbind_args] in H; try discriminate.
    - injection H as <-. reflexivity.
    - destruct (sbind_args pr vr) as [r|] eqn:E; [|discriminate]. injection H as <-.
      cbn [map bind_args]. rewrite (IH vr r E). reflexivity.
  Qed.

  Lemma sym_run_body_sound fd ss s : sym_run_body fd ss = Some s ->
    run_body call fd (map (conc w) ss) = Ok (conc w s).
  Proof.
    unfold sym_run_body, run_body. destruct (f_body fd) as [body|]; [|discriminate].
    destruct (sbind_args (f_args fd) ss) as [se|] eqn:E1; [|discriminate].
    rewrite (sbind_args_sound _ _ _ E1). cbn [bind].
    destruct (sym_exec se body) as [[se'|r]|] eqn:E2; try discriminate; intros [= <-];
      rewrite (sym_exec_sound body se _ E2); reflexivity.
  Qed.
End SymCall.

(* ---------------------------------------------------------------- *)
(* helper calls with fuel, rules, and the person-level graph (mirrors Eval.call_fuel / Scalar.seval) *)
Fixpoint sym_call_fuel (I : itv1) (ft : ftable) (fuel : nat) (f : string) (ss : list sval) : option sval :=
  match fuel with
  | O => None
  | S n =>
      match flookup f ft with
      | None => None
      | Some fd => sym_run_body I (sym_call_fuel I ft n) fd ss
      end
  end.

Lemma sym_call_fuel_sound I ft w : inI I w -> forall fuel f ss s,
  sym_call_fuel I ft fuel f ss = Some s -> call_fuel ft fuel f (map (conc w) ss) = Ok (conc w s).
Proof.
  intros Hw. induction fuel as [|n IH]; intros f ss s H; cbn [sym_call_fuel] in H; [discriminate|].
  cbn [call_fuel]. destruct (flookup f ft) as [fd|]; [|discriminate].
  apply (sym_run_body_sound I (sym_call_fuel I ft n) (call_fuel ft n) w Hw IH). exact H.
Qed.

Definition sym_call_rule (I : itv1) (ft : ftable) (fd : fundef) (ss : list sval) : option sval :=
  match all_sc ss with
  | Some vs => match call_rule ft fd vs with Ok v => Some (SC v) | Err _ => None end
  | None => sym_run_body I (sym_call_fuel I ft default_fuel) fd ss
  end.

Lemma sym_call_rule_sound I ft w fd ss s : inI I w -> sym_call_rule I ft fd ss = Some s ->
  call_rule ft fd (map (conc w) ss) = Ok (conc w s).
Proof.
  intros Hw. unfold sym_call_rule. destruct (all_sc ss) as [vs|] eqn:E.
  - rewrite (all_sc_conc w ss vs E). destruct (call_rule ft fd vs) eqn:Ec; [|discriminate]. intros [= <-]. reflexivity.
  - intros H. unfold call_rule.
    apply (sym_run_body_sound I (sym_call_fuel I ft default_fuel) (call_fuel ft default_fuel) w Hw
             (sym_call_fuel_sound I ft w Hw default_fuel)). exact H.
Qed.

Section SymSeval.
  Variable S : list dnode.
  Variable ft : ftable.
  Variable P : params.
  Variable rounding : bool.
  Variable I : itv1.
  Variable sinp : senv.

  Definition sround (g name : string) (v : sval) : option sval :=
    match v with
    | SC c => match apply_rounding P g name c with Ok r => Some (SC r) | Err _ => None end
    | SA _ _ => None
    end.

  Fixpoint sym_seval (fuel : nat) (name : string) : option sval :=
    match fuel with
    | O => None
    | Datatypes.S f =>
        match slookup name sinp with
        | Some s => Some s
        | None =>
            match find_node name S with
            | None => None
            | Some n =>
                match d_kind n with
                | KRule py _ rd =>
                    match flookup py ft with
                    | None => None
                    | Some fd =>
                        match (fix go (l : list (string * option annot)) : option (list sval) :=
                                 match l with
                                 | [] => Some []
                                 | (a, _) :: r =>
                                     match (if is_params_name a
                                            then option_map SC (pget (group_of a) P)
                                            else sym_seval f a), go r with
                                     | Some v, Some vs => Some (v :: vs)
                                     | _, _ => None
                                     end
                                 end) (f_args fd) with
                        | None => None
                        | Some args =>
                            match sym_call_rule I ft fd args with
                            | None => None
                            | Some v =>
                                match rd with
                                | Some g => if rounding then sround g name v else Some v
                                | None => Some v
                                end
                            end
                        end
                    end
                | KTimeConv num den =>
                    match d_args n with
                    | [a] => match sym_seval f a with
                             | Some x => sarith Mul x (SC (VFloat (XFin (qfrac num den))))
                             | None => None
                             end
                    | _ => None
                    end
                | _ => None
                end
            end
        end
    end.

  Theorem sym_seval_sound w : inI I w -> forall fuel name s, sym_seval fuel name = Some s ->
    seval S ft P rounding (conc_env w sinp) fuel name = Ok (conc w s).
  Proof.
    intros Hw. induction fuel as [|f IH]; intros name s H; [discriminate|].
    cbn [sym_seval] in H. cbn [seval]. rewrite lookup_conc.
    destruct (slookup name sinp) as [s0|]; [injection H as <-; reflexivity|]. cbn [option_map].
    destruct (find_node name S) as [n|]; [|discriminate].
    destruct (d_kind n) as [py an rd| | |num den| |? ? ? ? ?]; try discriminate.
    - destruct (flookup py ft) as [fd|]; [|discriminate]. cbn [of_option bind].
      assert (Hgo : forall l args,
        (fix go (l : list (string * option annot)) : option (list sval) :=
           match l with
           | [] => Some []
           | (a, _) :: r =>
               match (if is_params_name a then option_map SC (pget (group_of a) P) else sym_seval f a), go r with
               | Some v, Some vs => Some (v :: vs)
               | _, _ => None
               end
           end) l = Some args ->
        (fix go (l : list (string * option annot)) : res (list val) :=
           match l with
           | [] => Ok []
           | (a, _) :: r =>
               do v <- (if is_params_name a then of_option EKey (pget (group_of a) P)
                        else seval S ft P rounding (conc_env w sinp) f a);
               do vs <- go r; Ok (v :: vs)
           end) l = Ok (map (conc w) args)).
      { induction l as [|[a an'] r IHl]; intros args Hl; [injection Hl as <-; reflexivity|].
        destruct (is_params_name a).
        - destruct (pget (group_of a) P) as [gv|]; [|discriminate]. cbn [option_map] in Hl.
          match type of Hl with match ?g with _ => _ end = _ => destruct g as [vs|] eqn:Eg; [|discriminate] end.
          injection Hl as <-. cbn [of_option bind]. rewrite (IHl vs eq_refl). reflexivity.
        - destruct (sym_seval f a) as [v|] eqn:Ev; [|discriminate].
          match type of Hl with match ?g with _ => _ end = _ => destruct g as [vs|] eqn:Eg; [|discriminate] end.
          injection Hl as <-. rewrite (IH a v Ev). cbn [bind]. rewrite (IHl vs eq_refl). reflexivity. }
      match type of H with match ?g with _ => _ end = _ => destruct g as [args|] eqn:Eg; [|discriminate] end.
      rewrite (Hgo _ _ Eg). cbn [bind].
      destruct (sym_call_rule I ft fd args) as [v|] eqn:Ec; [|discriminate].
      rewrite (sym_call_rule_sound I ft w fd args v Hw Ec). cbn [bind].
      destruct rd as [g|]; [|injection H as <-; reflexivity].
      destruct rounding; [|injection H as <-; reflexivity].
      unfold sround in H. destruct v as [c|a b]; [|discriminate].
      cbn [conc]. destruct (apply_rounding P g name c) eqn:Er; [|discriminate]. injection H as <-. reflexivity.
    - destruct (d_args n) as [|a [|? ?]]; try discriminate.
      destruct (sym_seval f a) as [x|] eqn:Ex; [|discriminate].
      rewrite (IH a x Ex). cbn [bind].
      apply (sarith_sound w Mul x (SC (VFloat (XFin (qfrac num den))))). exact H.
  Qed.
End SymSeval.
