(* BgSpec.v — needs units (bg_id = fg_id * 100 + running number of the self-sufficient children under 25 of THAT family):
   for tables of ANY size, ids of different family units never collide as long as no family has 100 or more
   self-sufficient children under 25 (the bound is per family, not per table), every self-sufficient child under 25
   forms a unit of its own and all other members of a family share the family's main unit. *)
From Coq Require Import ZArith Bool List Lia.
From GettsimModel Require Import Num Val Groupings CoupleSpec.
Import ListNotations.
Open Scope Z_scope.

Definition qual (r : Z * Z * bool) : bool := let '(_, al, eb) := r in (al <? 25) && eb.

Fixpoint qual_count (rows : list (Z * Z * bool)) (f : Z) : Z :=
  match rows with
  | [] => 0
  | (fg, al, eb) :: r => (if (fg =? f) && qual (fg, al, eb) then 1 else 0) + qual_count r f
  end.

Lemma qual_count_nonneg rows f : 0 <= qual_count rows f.
Proof. induction rows as [|[[fg al] eb] r IH]; cbn [qual_count]; [lia|]. destruct ((fg =? f) && qual (fg, al, eb)); lia. Qed.

Definition cval (cnt : list (Z * Z)) (f : Z) : Z := match dget f cnt with Some c => c | None => 0 end.

(* the id of a row is fg*100 + k: k = 0 for the main unit, otherwise the number of the child within its family *)
Lemma bg_loop_shape : forall rows cnt, (forall f c, dget f cnt = Some c -> 0 <= c) ->
  forall i fg al eb x, nth_error rows i = Some (fg, al, eb) -> nth_error (bg_loop rows cnt) i = Some x ->
    if qual (fg, al, eb)
    then exists k, x = fg * 100 + k /\ cval cnt fg < k <= cval cnt fg + qual_count rows fg
    else x = fg * 100.
Proof.
  induction rows as [|[[fg0 al0] eb0] r IH]; intros cnt Hc i fg al eb x Hr Hx; [destruct i; discriminate|].
  cbn [bg_loop] in Hx. cbn [qual_count].
  destruct ((al0 <? 25) && eb0) eqn:E.
  - set (c := match dget fg0 cnt with Some c => c + 1 | None => 1 end) in *.
    assert (Hcv : c = cval cnt fg0 + 1) by (unfold c, cval; destruct (dget fg0 cnt); lia).
    assert (Hc0 : 0 <= cval cnt fg0) by (unfold cval; destruct (dget fg0 cnt) eqn:Ed; [eapply Hc; eauto|lia]).
    destruct i as [|i]; cbn [nth_error] in Hr, Hx.
    + injection Hr as -> -> ->. injection Hx as <-. cbn [qual]. rewrite E.
      exists c. rewrite Z.eqb_refl. cbn [andb]. pose proof (qual_count_nonneg r fg). split; [reflexivity|lia].
    + assert (Hc' : forall f c0, dget f ((fg0, c) :: cnt) = Some c0 -> 0 <= c0).
      { intros f c0. cbn [dget]. destruct (f =? fg0); [intros [= <-]; lia|apply Hc]. }
      specialize (IH _ Hc' i fg al eb x Hr Hx).
      destruct (qual (fg, al, eb)) eqn:Q; [|exact IH].
      destruct IH as (k & -> & Hk). exists k. split; [reflexivity|].
      unfold cval in Hk at 1 2. cbn [dget] in Hk. cbn [qual]. rewrite E. rewrite Z.eqb_sym.
      destruct (fg =? fg0) eqn:Ef; cbn [andb].
      * apply Z.eqb_eq in Ef. subst fg0. fold (cval cnt fg) in *. lia.
      * fold (cval cnt fg) in Hk. lia.
  - destruct i as [|i]; cbn [nth_error] in Hr, Hx.
    + injection Hr as -> -> ->. injection Hx as <-. cbn [qual]. rewrite E. reflexivity.
    + specialize (IH _ Hc i fg al eb x Hr Hx).
      destruct (qual (fg, al, eb)) eqn:Q; [|exact IH].
      destruct IH as (k & -> & Hk). exists k. split; [reflexivity|].
      cbn [qual]. rewrite E, andb_false_r. lia.
Qed.

Definition bg_rows (fg : list Z) (ps : list person) : list (Z * Z * bool) :=
  map (fun fx => (fst fx, alter (snd fx), eigenb (snd fx))) (combine fg ps).

Lemma bg_rows_nth fg ps i f p : nth_error fg i = Some f -> nth_error ps i = Some p ->
  nth_error (bg_rows fg ps) i = Some (f, alter p, eigenb p).
Proof.
  intros Hf Hp. unfold bg_rows. rewrite nth_error_map.
  assert (Hc : nth_error (combine fg ps) i = Some (f, p)).
  { revert ps i Hf Hp. induction fg as [|a fg IH]; intros [|q ps] [|i] Hf Hp; try discriminate; cbn in *; [congruence|now apply IH]. }
  now rewrite Hc.
Qed.

(* any table size: needs-unit ids of different families never collide, provided no family has 100 or more
   self-sufficient children under 25 *)
Theorem bg_within_fg_any_size fg ps :
  (forall f, In f fg -> qual_count (bg_rows fg ps) f < 100) ->
  forall i j fi fj pi pj x,
    nth_error fg i = Some fi -> nth_error fg j = Some fj -> nth_error ps i = Some pi -> nth_error ps j = Some pj ->
    nth_error (bg_id fg ps) i = Some x -> nth_error (bg_id fg ps) j = Some x -> fi = fj.
Proof.
  intros Hq i j fi fj pi pj x Hi Hj Hpi Hpj Hxi Hxj. unfold bg_id in *. fold (bg_rows fg ps) in *.
  assert (H0 : forall f c, dget f (@nil (Z * Z)) = Some c -> 0 <= c) by (intros; discriminate).
  pose proof (bg_loop_shape _ [] H0 i fi _ _ x (bg_rows_nth fg ps i fi pi Hi Hpi) Hxi) as S1.
  pose proof (bg_loop_shape _ [] H0 j fj _ _ x (bg_rows_nth fg ps j fj pj Hj Hpj) Hxj) as S2.
  pose proof (Hq fi (nth_error_In _ _ Hi)) as Q1. pose proof (Hq fj (nth_error_In _ _ Hj)) as Q2. unfold cval in S1, S2. cbn [dget] in S1, S2.
  destruct (qual (fi, alter pi, eigenb pi)), (qual (fj, alter pj, eigenb pj)).
  - destruct S1 as (k1 & E1 & B1), S2 as (k2 & E2 & B2). lia.
  - destruct S1 as (k1 & E1 & B1). lia.
  - destruct S2 as (k2 & E2 & B2). lia.
  - lia.
Qed.

(* within a family: a self-sufficient child under 25 shares its unit with nobody; all other members share the main unit *)
Theorem bg_within_family fg ps :
  (forall f, In f fg -> qual_count (bg_rows fg ps) f < 100) ->
  forall i j f pi pj xi xj,
    nth_error fg i = Some f -> nth_error fg j = Some f -> nth_error ps i = Some pi -> nth_error ps j = Some pj ->
    nth_error (bg_id fg ps) i = Some xi -> nth_error (bg_id fg ps) j = Some xj ->
    qual (f, alter pi, eigenb pi) = false -> qual (f, alter pj, eigenb pj) = false -> xi = xj.
Proof.
  intros Hq i j f pi pj xi xj Hi Hj Hpi Hpj Hxi Hxj Q1 Q2. unfold bg_id in *. fold (bg_rows fg ps) in *.
  assert (H0 : forall f c, dget f (@nil (Z * Z)) = Some c -> 0 <= c) by (intros; discriminate).
  pose proof (bg_loop_shape _ [] H0 i f _ _ xi (bg_rows_nth fg ps i f pi Hi Hpi) Hxi) as S1.
  pose proof (bg_loop_shape _ [] H0 j f _ _ xj (bg_rows_nth fg ps j f pj Hj Hpj) Hxj) as S2.
  rewrite Q1 in S1. rewrite Q2 in S2. congruence.
Qed.

Theorem bg_child_own_unit fg ps :
  forall i j f pi pj x,
    nth_error fg i = Some f -> nth_error fg j = Some f -> nth_error ps i = Some pi -> nth_error ps j = Some pj ->
    nth_error (bg_id fg ps) i = Some x -> nth_error (bg_id fg ps) j = Some x ->
    qual (f, alter pi, eigenb pi) = true -> qual (f, alter pj, eigenb pj) = false -> False.
Proof.
  intros i j f pi pj x Hi Hj Hpi Hpj Hxi Hxj Q1 Q2. unfold bg_id in *. fold (bg_rows fg ps) in *.
  assert (H0 : forall f c, dget f (@nil (Z * Z)) = Some c -> 0 <= c) by (intros; discriminate).
  pose proof (bg_loop_shape _ [] H0 i f _ _ x (bg_rows_nth fg ps i f pi Hi Hpi) Hxi) as S1.
  pose proof (bg_loop_shape _ [] H0 j f _ _ x (bg_rows_nth fg ps j f pj Hj Hpj) Hxj) as S2.
  rewrite Q1 in S1. rewrite Q2 in S2. destruct S1 as (k & E & B). unfold cval in B. cbn [dget] in B. lia.
Qed.

(* decidable form of the hypothesis *)
Definition bg_ok_b (fg : list Z) (ps : list person) : bool :=
  forallb (fun f => qual_count (bg_rows fg ps) f <? 100) fg.

Lemma bg_ok_b_sound fg ps : bg_ok_b fg ps = true -> forall f, In f fg -> qual_count (bg_rows fg ps) f < 100.
Proof. unfold bg_ok_b. rewrite forallb_forall. intros H f Hf. apply Z.ltb_lt. now apply H. Qed.
