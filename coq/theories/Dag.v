(* Dag.v — the dependency graph as the real loader builds it (GenDag.v is regenerated from
   load_and_check_functions on every run), structural checkers on it, and their soundness
   with respect to Engine.v. *)
From Coq Require Import ZArith Bool String List Lia.
From GettsimModel Require Import Val Engine.
Import ListNotations.
Open Scope string_scope.

Inductive nkind :=
| KRule (pyname : string) (skipvec : bool) (round : option string)
| KGroupAgg (aggr : string)
| KPidAgg (aggr : string)
| KTimeConv (num : Z) (den : positive)
| KGrouping
(* array-level rule of the form  join(fk, pk, tgt, dflt)  or  join(...) ==/!= other  (cmp = Some (negated?, other)) *)
| KJoin (fk pk tgt : string) (dflt : val) (cmp : option (bool * string)).

Record dnode := { d_name : string; d_args : list string; d_params : list string; d_kind : nkind }.

Definition smem (x : string) (l : list string) : bool := existsb (String.eqb x) l.

(* every argument of every node is a data column or an EARLIER node; names are unique *)
Fixpoint topo_ok (data : list string) (seen : list string) (S : list dnode) : bool :=
  match S with
  | [] => true
  | n :: r =>
      forallb (fun a => smem a data || smem a seen) (d_args n)
      && negb (smem (d_name n) seen) && negb (smem (d_name n) data)
      && topo_ok data (d_name n :: seen) r
  end.

Fixpoint topo_offenders (data : list string) (seen : list string) (S : list dnode) : list (string * string) :=
  match S with
  | [] => []
  | n :: r =>
      (map (fun a => (d_name n, a)) (filter (fun a => negb (smem a data || smem a seen)) (d_args n))
       ++ (if smem (d_name n) seen || smem (d_name n) data then [(d_name n, "<duplicate>")] else [])
       ++ topo_offenders data (d_name n :: seen) r)%list
  end.

(* ancestors of a set of targets: scan from the last node to the first *)
Fixpoint ancestors_rev (rev_S : list dnode) (acc : list string) : list string :=
  match rev_S with
  | [] => acc
  | n :: r => if smem (d_name n) acc then ancestors_rev r (d_args n ++ acc) else ancestors_rev r acc
  end.

Definition ancestors (S : list dnode) (targets : list string) : list string :=
  ancestors_rev (rev S) targets.

(* the part of the graph the targets need *)
Definition subgraph (S : list dnode) (targets : list string) : list dnode :=
  let K := ancestors S targets in filter (fun n => smem (d_name n) K) S.

(* descendants of a set of changed names (C06), same scan as Engine.tainted *)
Fixpoint descendants (F : string -> bool) (S : list dnode) (acc : list string) : list string :=
  match S with
  | [] => acc
  | n :: r =>
      if F (d_name n) || existsb (fun a => smem a acc) (d_args n)
      then descendants F r (d_name n :: acc) else descendants F r acc
  end.

(* users of a parameter group: rules with a g_params argument or rounded through g *)
Definition uses_group (g : string) (n : dnode) : bool :=
  smem g (d_params n)
  || match d_kind n with KRule _ _ (Some r) => String.eqb r g | _ => false end.

(* ---------------------------------------------------------------- *)
(* soundness of the ancestor computation w.r.t. Engine.closed          *)

Section Sound.
  Variable col : Type.
  Variable sem : dnode -> list col -> res col.

  Definition to_node (n : dnode) : node col :=
    {| nm := d_name n; nargs := d_args n; nop := sem n |}.

  Definition to_sys (S : list dnode) : list (node col) := map to_node S.

  Lemma smem_In x l : smem x l = true <-> In x l.
  Proof.
    unfold smem. rewrite existsb_exists. split.
    - intros [y [Hy E]]. apply String.eqb_eq in E. subst. exact Hy.
    - intro H. exists x. split; [exact H | apply String.eqb_refl].
  Qed.

  Lemma ancestors_rev_mono rs : forall acc x, In x acc -> In x (ancestors_rev rs acc).
  Proof.
    induction rs as [|n r IH]; intros acc x Hx; cbn; [exact Hx|].
    destruct (smem (d_name n) acc); apply IH; [apply in_or_app; right|]; exact Hx.
  Qed.

  (* boolean closedness check (cheap, run reflectively on the regenerated graph) *)
  Definition closed_chk (K : list string) (S : list dnode) : bool :=
    forallb (fun n => negb (smem (d_name n) K) || forallb (fun a => smem a K) (d_args n)) S.

  Theorem closed_chk_sound K S :
    closed_chk K S = true -> closed col (fun x => smem x K) (to_sys S).
  Proof.
    unfold closed_chk, closed. intros H n Hn Hk a Ha.
    unfold to_sys in Hn. apply in_map_iff in Hn. destruct Hn as [d [<- Hd]].
    rewrite forallb_forall in H. specialize (H d Hd). cbn in Hk, Ha.
    rewrite Hk in H. cbn in H. rewrite forallb_forall in H. apply H. exact Ha.
  Qed.

  (* Dag.descendants is Engine.tainted on the translated system *)
  Lemma descendants_tainted F S : forall acc,
    descendants F S acc = tainted col F (to_sys S) acc.
  Proof.
    induction S as [|n r IH]; intro acc; cbn; [reflexivity|].
    change (existsb (fun a => smem a acc) (d_args n)) with (existsb (fun a => mem a acc) (d_args n)).
    destruct (F (d_name n) || existsb (fun a => mem a acc) (d_args n)); apply IH.
  Qed.

  (* topological order gives unique node names *)
  Lemma topo_ok_nodup data : forall S seen,
    topo_ok data seen S = true ->
    NoDup (map d_name S) /\ forall x, In x (map d_name S) -> ~ In x seen.
  Proof.
    induction S as [|n r IH]; intros seen H; cbn in *.
    - split; [constructor | intros x []].
    - repeat rewrite andb_true_iff in H. destruct H as [[[_ Hs] _] Hr].
      destruct (IH _ Hr) as [Hnd Hdis]. apply negb_true_iff in Hs.
      split.
      + constructor; [|exact Hnd]. intro Hin. apply (Hdis _ Hin). left. reflexivity.
      + intros x [<-|Hx] Hseen.
        * apply smem_In in Hseen. congruence.
        * apply (Hdis x Hx). right. exact Hseen.
  Qed.

  Lemma names_to_sys S : names col (to_sys S) = map d_name S.
  Proof. unfold names, to_sys. rewrite map_map. reflexivity. Qed.

  (* the ancestor set of any target list is argument-closed: checked, not assumed *)
  Definition ancestors_closed_chk (S : list dnode) (targets : list string) : bool :=
    closed_chk (ancestors S targets) S.
End Sound.
