(* NumTac.v — robust Qc -> Q bridge tactics (the ones in Num.v stop early because
   `apply ... in H` with a reflexive iff makes no visible progress). *)
From Coq Require Export ZArith QArith Qcanon Lia Lqa.
From GettsimModel Require Import Num.
Open Scope Qc_scope.

Lemma this_qfrac n d : (this (qfrac n d) == n # d)%Q.
Proof. apply this_Q2Qc. Qed.

Ltac qc_unfold_rel :=
  repeat match goal with
  | H : Qcle ?a ?b |- _ => change (Qle (this a) (this b)) in H
  | H : Qclt ?a ?b |- _ => change (Qlt (this a) (this b)) in H
  | H : Qcleb _ _ = true |- _ => apply Qcleb_iff in H
  | H : Qcltb _ _ = true |- _ => apply Qcltb_iff in H
  | H : Qcleb _ _ = false |- _ => apply Qcleb_false_iff in H
  | H : Qcltb _ _ = false |- _ => apply Qcltb_false_iff in H
  | H : Qceqb _ _ = true |- _ => apply Qceqb_iff in H
  | H : @eq Qc ?a ?b |- _ => apply (proj1 (Qc_eq_this a b)) in H
  | H : ~ @eq Qc ?a ?b |- _ =>
      let H' := fresh H in
      assert (H' : ~ (this a == this b)%Q) by (intro; apply H; apply Qc_is_canon; assumption);
      clear H
  | |- Qcle ?a ?b => change (Qle (this a) (this b))
  | |- Qclt ?a ?b => change (Qlt (this a) (this b))
  | |- @eq Qc ?a ?b => apply Qc_is_canon
  | |- ~ @eq Qc ?a ?b => let H := fresh in intro H; apply (proj1 (Qc_eq_this a b)) in H; revert H
  end.

Ltac qc_rw :=
  repeat (rewrite ?this_plus, ?this_mult, ?this_opp, ?this_minus, ?this_inv,
                  ?this_div, ?this_qz, ?this_qfrac, ?this_Q2Qc in * ).

Ltac qc2q := qc_unfold_rel; qc_rw.
Ltac qlra := qc2q; lra.
Ltac qnra := qc2q; nra.
