(* Perm.v — row permutations commute with the node operations (instances of Engine.run_rel
   for property C01): scalar rules vectorized with their declared dtype, group reductions,
   time-unit conversion. *)
From Coq Require Import ZArith QArith Qcanon Bool String List Lia Permutation.
From GettsimModel Require Import Num Val Column Aggregation.
Import ListNotations.
Open Scope nat_scope.

(* out[i] = l[p[i]] *)
Definition pl {A} (d : A) (p : list nat) (l : list A) : list A := map (fun j => nth j l d) p.

Definition perm_of (p : list nat) (n : nat) : Prop :=
  length p = n /\ (forall j, In j p -> j < n) /\ (forall j, j < n -> In j p).

Lemma pl_length {A} (d : A) p l : length (pl d p l) = length p.
Proof. apply map_length. Qed.

Lemma pl_map {A B} (g : A -> B) d p l : (forall j, In j p -> j < length l) ->
  pl (g d) p (map g l) = map g (pl d p l).
Proof.
  intro H. unfold pl. rewrite map_map. apply map_ext_in. intros j Hj. apply map_nth.
Qed.

Lemma pl_map_any {A B} (g : A -> B) d d' p l : (forall j, In j p -> j < length l) ->
  pl d' p (map g l) = map g (pl d p l).
Proof.
  intro H. unfold pl. rewrite map_map. apply map_ext_in. intros j Hj.
  rewrite (nth_indep (map g l) d' (g d)) by (rewrite map_length; auto). apply map_nth.
Qed.

(* ---- mapM over a permuted list ---- *)

Lemma mapM_res_fail_in {A B} (f : A -> res B) l x e :
  In x l -> f x = Err e -> exists e', mapM_res f l = Err e'.
Proof.
  induction l as [|a r IH]; intros Hin Hf; [contradiction|]. cbn.
  destruct Hin as [->|Hin].
  - rewrite Hf. cbn. eauto.
  - destruct (f a); cbn; [|eauto]. destruct (IH Hin Hf) as [e' ->]. cbn. eauto.
Qed.

Lemma mapM_res_err_witness {A B} (f : A -> res B) l e :
  mapM_res f l = Err e -> exists x e', In x l /\ f x = Err e'.
Proof.
  revert e. induction l as [|a r IH]; intro e; cbn; [discriminate|].
  destruct (f a) as [b|e0] eqn:Ea; cbn.
  - destruct (mapM_res f r) as [bs|e1] eqn:Er; cbn; [discriminate|].
    intros _. destruct (IH e1 eq_refl) as (x & e' & Hx & Hf). exists x, e'. split; [right; exact Hx | exact Hf].
  - intros _. exists a, e0. split; [left; reflexivity | exact Ea].
Qed.

Lemma mapM_res_all_ok {A B} (f : A -> res B) (g : A -> B) l :
  (forall x, In x l -> f x = Ok (g x)) -> mapM_res f l = Ok (map g l).
Proof.
  induction l as [|a r IH]; intro H; cbn; [reflexivity|].
  rewrite (H a (or_introl eq_refl)). cbn. rewrite IH; [reflexivity|].
  intros x Hx. apply H. right. exact Hx.
Qed.

Theorem mapM_res_perm_ok {A B} (f : A -> res B) d d' p l ys :
  (forall j, In j p -> j < length l) ->
  mapM_res f l = Ok ys -> mapM_res f (pl d p l) = Ok (pl d' p ys).
Proof.
  intros Hp H. unfold pl. induction p as [|j p IH]; cbn; [reflexivity|].
  assert (Hj : j < length l) by (apply Hp; left; reflexivity).
  destruct (nth_error l j) as [x|] eqn:Ex; [|apply nth_error_None in Ex; lia].
  destruct (mapM_res_nth f l ys H j x Ex) as (y & Hy & Hny).
  rewrite (nth_error_nth l j d Ex), Hy. cbn.
  rewrite IH by (intros k Hk; apply Hp; right; exact Hk). cbn.
  rewrite (nth_error_nth ys j d' Hny). reflexivity.
Qed.

Theorem mapM_res_perm_err {A B} (f : A -> res B) d p l e :
  (forall j, j < length l -> In j p) ->
  mapM_res f l = Err e -> exists e', mapM_res f (pl d p l) = Err e'.
Proof.
  intros Hs H. destruct (mapM_res_err_witness f l e H) as (x & e' & Hx & Hf).
  destruct (In_nth l x d Hx) as (j & Hj & Hn).
  apply (mapM_res_fail_in f (pl d p l) x e'); [|exact Hf].
  unfold pl. apply in_map_iff. exists j. split; [exact Hn | apply Hs; exact Hj].
Qed.

(* ---- permuting columns ---- *)

Lemma col_vals_permute p c : (forall j, In j p -> j < col_len c) ->
  col_vals (permute_col p c) = pl VNone p (col_vals c).
Proof.
  intro H. destruct c; cbn in *; unfold permute_list;
    symmetry; apply pl_map_any; exact H.
Qed.

Lemma col_len_permute p c : col_len (permute_col p c) = length p.
Proof. destruct c; cbn; unfold permute_list; apply map_length. Qed.

Definition all_len (n : nat) (args : list column) : Prop := forall c, In c args -> col_len c = n.

Lemma map_nth_seq_id {A} (d : A) : forall l : list A, map (fun i => nth i l d) (seq 0 (length l)) = l.
Proof.
  induction l as [|a r IH]; [reflexivity|]. cbn [length seq map nth]. f_equal.
  rewrite <- seq_shift, map_map. exact IH.
Qed.

Lemma rows_of_permute p n args : perm_of p n -> all_len n args ->
  rows_of n (map (permute_col p) args) = pl [] p (rows_of n args).
Proof.
  intros (Hl & Hlt & _) Hlen. unfold rows_of, pl.
  transitivity (map (fun i => row_at (map col_vals args) (nth i p 0)) (seq 0 n)).
  - apply map_ext_in. intros i Hi. apply in_seq in Hi.
    unfold row_at. rewrite !map_map. apply map_ext_in. intros c Hc.
    rewrite col_vals_permute by (intros j Hj; rewrite (Hlen c Hc); apply Hlt; exact Hj).
    unfold pl. rewrite (nth_indep _ VNone ((fun j => nth j (col_vals c) VNone) 0)) by (rewrite map_length; lia).
    rewrite (map_nth (fun j => nth j (col_vals c) VNone) p 0). reflexivity.
  - symmetry. rewrite <- (map_nth_seq_id 0 p) at 1. rewrite Hl, map_map. apply map_ext_in. intros i Hi. apply in_seq in Hi.
    assert (Hpi : nth i p 0 < n) by (apply Hlt; apply nth_In; lia).
    rewrite (nth_indep _ [] (row_at (map col_vals args) 0)) by (rewrite map_length, seq_length; lia).
    rewrite (map_nth (row_at (map col_vals args)) (seq 0 n) 0), seq_nth by lia. reflexivity.
Qed.

Lemma rows_of_length n args : length (rows_of n args) = n.
Proof. unfold rows_of. rewrite map_length, seq_length. reflexivity. Qed.

Lemma permute_list_pl {A} (d : A) p l : permute_list d p l = pl d p l.
Proof. reflexivity. Qed.

Definition res_rel {A} (Rel : A -> A -> Prop) (r1 r2 : res A) : Prop :=
  match r1, r2 with
  | Ok a, Ok b => Rel a b
  | Err _, Err _ => True
  | _, _ => False
  end.

Lemma pack_perm t p vs : perm_of p (length vs) ->
  res_rel (fun c1 c2 => c2 = permute_col p c1) (pack t vs) (pack t (pl VNone p vs)).
Proof.
  intros (Hl & Hlt & Hsur). unfold pack.
  assert (G : forall (A : Type) (g : val -> res A) (d : A),
            res_rel (fun l1 l2 => l2 = pl d p l1) (mapM_res g vs) (mapM_res g (pl VNone p vs))).
  { intros A g d. destruct (mapM_res g vs) as [l|e] eqn:E.
    - rewrite (mapM_res_perm_ok g VNone d p vs l Hlt E). reflexivity.
    - destruct (mapM_res_perm_err g VNone p vs e Hsur E) as [e' ->]. exact I. }
  destruct t; try exact I.
  - specialize (G Z (fun v => do w <- cast TInt v; un_int w) 0%Z).
    destruct (mapM_res _ vs), (mapM_res _ (pl VNone p vs)); cbn in *; try contradiction; try exact I. subst. reflexivity.
  - specialize (G xq (fun v => do w <- cast TFloat v; un_float w) XNaN).
    destruct (mapM_res _ vs), (mapM_res _ (pl VNone p vs)); cbn in *; try contradiction; try exact I. subst. reflexivity.
  - specialize (G bool (fun v => do w <- cast TBool v; un_bool w) false).
    destruct (mapM_res _ vs), (mapM_res _ (pl VNone p vs)); cbn in *; try contradiction; try exact I. subst. reflexivity.
  - specialize (G Z (fun v => do w <- cast TDate v; un_date w) 0%Z).
    destruct (mapM_res _ vs), (mapM_res _ (pl VNone p vs)); cbn in *; try contradiction; try exact I. subst. reflexivity.
Qed.

(* C01, scalar rules: computing on the permuted table gives the permuted column (or both runs
   fail) — for EVERY rule f: with the declared dtype no side condition on f is needed *)
Theorem vectorize_declared_perm t f p n args : perm_of p n -> all_len n args ->
  res_rel (fun c1 c2 => c2 = permute_col p c1)
          (vectorize_gen (Some t) f n args)
          (vectorize_gen (Some t) f n (map (permute_col p) args)).
Proof.
  intros Hp Hlen. unfold vectorize_gen. rewrite (rows_of_permute p n args Hp Hlen).
  destruct Hp as (Hl & Hlt & Hsur).
  pose proof (rows_of_length n args) as Hrl.
  destruct (mapM_res f (rows_of n args)) as [vs|e] eqn:E.
  - rewrite (mapM_res_perm_ok f [] VNone p (rows_of n args) vs) by (rewrite ?Hrl; auto).
    cbn [bind]. apply pack_perm.
    rewrite (mapM_res_length _ _ _ E), Hrl. repeat split; auto.
  - destruct (mapM_res_perm_err f [] p (rows_of n args) e) as [e' ->]; [rewrite Hrl; exact Hsur | exact E | exact I].
Qed.

(* without a declared dtype the statement is false: see Column.vectorize_inferred_refuted *)

(* C01, group reductions: the table entry of a group does not depend on the row order when the
   reduction is commutative and associative *)
Lemma select_perm {A} (k : Z) (rows1 rows2 : list (Z * A)) :
  Permutation rows1 rows2 -> Permutation (select k rows1) (select k rows2).
Proof.
  intro P. unfold select. apply Permutation_map.
  induction P as [|x l l' _ IH|x y l|l l' l'' _ IH1 _ IH2]; cbn.
  - constructor.
  - destruct (k =? fst x)%Z; [constructor|]; exact IH.
  - destruct (k =? fst y)%Z, (k =? fst x)%Z; try reflexivity. constructor.
  - eapply Permutation_trans; eassumption.
Qed.

Theorem group_entry_order_free {A} (op : A -> A -> A) :
  (forall a b, op a b = op b a) -> (forall a b c, op (op a b) c = op a (op b c)) ->
  forall k rows1 rows2, Permutation rows1 rows2 ->
    alookup k (accumulate op rows1) = alookup k (accumulate op rows2).
Proof.
  intros Hc Ha k rows1 rows2 P. rewrite !alookup_accumulate.
  apply fold1_perm; auto. apply select_perm. exact P.
Qed.

(* ---------------------------------------------------------------- *)
(* C02: other households' rows do not influence a closed sub-population *)

(* row-wise: the cells of the first rows do not depend on the rows appended after them *)
Theorem mapM_res_app_prefix {A B} (f : A -> res B) l1 l2 ys :
  mapM_res f (l1 ++ l2) = Ok ys -> mapM_res f l1 = Ok (firstn (length l1) ys).
Proof.
  revert ys. induction l1 as [|a r IH]; intros ys H; cbn in *; [reflexivity|].
  destruct (f a) as [b|]; [|discriminate]. cbn in *.
  destruct (mapM_res f (r ++ l2)) as [bs|] eqn:E; [|discriminate]. cbn in H. injection H as <-.
  rewrite (IH bs eq_refl). reflexivity.
Qed.

(* group reductions: the entry of a group none of whose ids occurs in the appended rows is unchanged *)
Theorem select_app_disjoint {A} (k : Z) (rowsA rowsB : list (Z * A)) :
  (forall kv, In kv rowsB -> fst kv <> k) -> select k (rowsA ++ rowsB) = select k rowsA.
Proof.
  intro H. unfold select. rewrite filter_app, map_app.
  assert (E : filter (fun kv => (k =? fst kv)%Z) rowsB = []).
  { induction rowsB as [|x r IH]; [reflexivity|]. cbn.
    destruct (k =? fst x)%Z eqn:Ek.
    - apply Z.eqb_eq in Ek. exfalso. apply (H x (or_introl eq_refl)). symmetry. exact Ek.
    - apply IH. intros kv Hkv. apply H. right. exact Hkv. }
  rewrite E. cbn. apply app_nil_r.
Qed.

Theorem group_entry_separable {A} (op : A -> A -> A) k (rowsA rowsB : list (Z * A)) :
  (forall kv, In kv rowsB -> fst kv <> k) ->
  alookup k (accumulate op (rowsA ++ rowsB)) = alookup k (accumulate op rowsA).
Proof. intro H. rewrite !alookup_accumulate, (select_app_disjoint k rowsA rowsB H). reflexivity. Qed.

(* relabelling group ids injectively does not change a group's entry *)
Theorem select_relabel {A} (rho : Z -> Z) (k : Z) (rows : list (Z * A)) :
  (forall a b, rho a = rho b -> a = b) ->
  select (rho k) (map (fun kv => (rho (fst kv), snd kv)) rows) = select k rows.
Proof.
  intro Hinj. unfold select. induction rows as [|x r IH]; [reflexivity|]. cbn [map filter fst snd].
  destruct (k =? fst x)%Z eqn:E.
  - apply Z.eqb_eq in E. rewrite E, Z.eqb_refl. cbn [map snd]. f_equal. rewrite <- E. exact IH.
  - destruct (rho k =? rho (fst x))%Z eqn:E2; [|exact IH].
    apply Z.eqb_eq in E2. apply Hinj in E2. rewrite E2, Z.eqb_refl in E. discriminate.
Qed.
