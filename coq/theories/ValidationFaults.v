(* ValidationFaults.v — property C20 in fault-injection form: whatever the rest of the table looks
   like and at whichever row the fault stands, a table carrying one of the enumerated faults is
   rejected (accept = false).  Contrapositives of Validation.accept_*, stated per fault class and
   per row position so that the quantifier of the property ("every eligible row / column") is
   visible in the statement. *)
From Coq Require Import ZArith QArith Qcanon Bool String List Lia.
From GettsimModel Require Import Num Val Validation.
Import ListNotations.
Open Scope string_scope.
Open Scope Z_scope.

Lemma not_true_false b : b <> true -> b = false.
Proof. destruct b; [intro H; exfalso; apply H; reflexivity | reflexivity]. Qed.

(* missing person identifier column *)
Theorem missing_pid_rejected t : find_col "p_id" t = None -> accept t = false.
Proof.
  intro H. apply not_true_false. intro A. destruct (accept_pid_unique t A) as [pc [E _]]. congruence.
Qed.

(* the same person identifier at two different rows i <> j, anywhere in the table *)
Theorem duplicate_pid_rejected t pc pids i j x :
  find_col "p_id" t = Some pc -> as_ints pc = Some pids ->
  i <> j -> nth_error pids i = Some x -> nth_error pids j = Some x -> accept t = false.
Proof.
  intros Hp Hi Hij Hxi Hxj. apply not_true_false. intro A.
  destruct (accept_pid_unique t A) as [pc' [E ND]]. rewrite Hp in E. inversion E; subst pc'.
  specialize (ND pids Hi). rewrite NoDup_nth_error in ND.
  apply Hij. apply ND; [apply nth_error_Some; congruence | congruence].
Qed.

(* a pointer (spouse, partner, parent, recipient ...) to a person who is not in the data, at any row *)
Theorem dangling_pointer_rejected t pc pids fk c ptrs i q :
  find_col "p_id" t = Some pc -> as_ints pc = Some pids ->
  In fk fk_names -> find_col fk t = Some c -> as_ints c = Some ptrs ->
  nth_error ptrs i = Some q -> q <> -1 -> ~ In q pids -> accept t = false.
Proof.
  intros Hp Hi Hfk Hc Hptr Hq Hn1 Hnin. apply not_true_false. intro A.
  destruct (accept_fks_valid t pc pids fk c ptrs A Hp Hi Hfk Hc Hptr) as [H _].
  destruct (H q (nth_error_In _ _ Hq)) as [E|E]; [exact (Hn1 E) | exact (Hnin E)].
Qed.

Lemma nth_error_combine {A B} (l : list A) (r : list B) : forall i a b,
  nth_error l i = Some a -> nth_error r i = Some b -> In (a, b) (combine l r).
Proof.
  revert r. induction l as [|x l IH]; intros r i a b Ha Hb; [destruct i; discriminate|].
  destruct r as [|y r]; [destruct i; discriminate|]. destruct i as [|i]; cbn in *.
  - left. congruence.
  - right. eapply IH; eassumption.
Qed.

(* a pointer to oneself, at any row *)
Theorem self_pointer_rejected t pc pids fk c ptrs i p :
  find_col "p_id" t = Some pc -> as_ints pc = Some pids ->
  In fk fk_names -> find_col fk t = Some c -> as_ints c = Some ptrs ->
  nth_error pids i = Some p -> nth_error ptrs i = Some p -> accept t = false.
Proof.
  intros Hp Hi Hfk Hc Hptr Hpi Hqi. apply not_true_false. intro A.
  destruct (accept_fks_valid t pc pids fk c ptrs A Hp Hi Hfk Hc Hptr) as [_ H].
  exact (H p p (nth_error_combine _ _ _ _ _ Hpi Hqi) eq_refl).
Qed.

(* a group-level input (name ending in _hh, _bg, ...) with two different values inside one group,
   at any two rows of that group *)
Theorem varying_group_input_rejected t level idc ids c i j g v w :
  In level group_levels -> find_col (level ++ "_id") t = Some idc -> as_ints idc = Some ids ->
  In c t -> ends_with ("_" ++ level) (rc_name c) = true ->
  nth_error ids i = Some g -> nth_error ids j = Some g ->
  nth_error (rc_vals c) i = Some v -> nth_error (rc_vals c) j = Some w ->
  raw_eqb v w = false -> accept t = false.
Proof.
  intros Hl Hid Hids Hc He Hgi Hgj Hv Hw Hne. apply not_true_false. intro A.
  pose proof (accept_group_constant t level idc ids c A Hl Hid Hids Hc He g g v w
                (nth_error_combine _ _ _ _ _ Hgi Hv) (nth_error_combine _ _ _ _ _ Hgj Hw) eq_refl) as H.
  congruence.
Qed.

(* two columns with the same name, anywhere *)
Theorem duplicate_column_rejected t : has_dup (map rc_name t) = true -> accept t = false.
Proof.
  intro H. apply not_true_false. intro A. pose proof (accept_no_duplicate_columns t A). congruence.
Qed.

(* pairs of faults: rejection is monotone — no second fault (nor any valid rows around it) can mask
   a first one, because each theorem above holds for EVERY table carrying its fault. *)

(* non-vacuity: a concrete three-row table is accepted, and each single fault injected into it is
   rejected by computation as the theorems predict *)
Definition mk n k vs : rcol := {| rc_name := n; rc_kind := k; rc_vals := vs |}.
Definition t_of (pids hh ehe wf : list raw) : list rcol :=
  [ mk "p_id" KI pids; mk "hh_id" KI hh; mk "p_id_ehepartner" KI ehe; mk "wohnfläche_hh" KF wf ].
Definition t_ok := t_of [RInt 10; RInt 11; RInt 12] [RInt 1; RInt 1; RInt 2] [RInt 11; RInt 10; RInt (-1)]
                        [RFloat (xz 50); RFloat (xz 50); RFloat (xz 70)].
Example t_ok_accepted : accept t_ok = true.
Proof. vm_compute. reflexivity. Qed.
Example faults_rejected :
  accept (t_of [RInt 10; RInt 11; RInt 10] [RInt 1; RInt 1; RInt 2] [RInt 11; RInt 10; RInt (-1)]
               [RFloat (xz 50); RFloat (xz 50); RFloat (xz 70)]) = false            (* duplicate p_id, rows 0 and 2 *)
  /\ accept (t_of [RInt 10; RInt 11; RInt 12] [RInt 1; RInt 1; RInt 2] [RInt 11; RInt 10; RInt 99]
               [RFloat (xz 50); RFloat (xz 50); RFloat (xz 70)]) = false            (* dangling pointer, last row *)
  /\ accept (t_of [RInt 10; RInt 11; RInt 12] [RInt 1; RInt 1; RInt 2] [RInt 11; RInt 10; RInt 12]
               [RFloat (xz 50); RFloat (xz 50); RFloat (xz 70)]) = false            (* self pointer, last row *)
  /\ accept (t_of [RInt 10; RInt 11; RInt 12] [RInt 1; RInt 1; RInt 2] [RInt 11; RInt 10; RInt (-1)]
               [RFloat (xz 50); RFloat (xz 51); RFloat (xz 70)]) = false            (* household input varies *)
  /\ accept (mk "hh_id" KI [RInt 1] :: t_ok) = false                               (* duplicate column *)
  /\ accept (tl t_ok) = false.                                                     (* no p_id *)
Proof. vm_compute. repeat split; reflexivity. Qed.
