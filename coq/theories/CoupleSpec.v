(* CoupleSpec.v — UNBOUNDED specification of the dictionary-scanning builders eg_id / ehe_id (Groupings.couple_loop)
   and sn_id (Groupings.sn_loop): for a table of ANY size with unique non-negative person ids and symmetric
   partner pointers, two rows get the same id exactly when they are the same row or point to each other.
   The right-hand side does not mention row positions: the partition is independent of the row order. *)
From Coq Require Import ZArith Bool List Lia.
From GettsimModel Require Import Num Val Groupings.
Import ListNotations.
Open Scope Z_scope.

Section Couple.

Definition keys_free (rows : list (Z * Z)) (m : list (Z * Z)) : Prop :=
  forall a, In a rows -> dget (fst a) m = None.
Definition ids_below (m : list (Z * Z)) (next : Z) : Prop :=
  forall k id, dget k m = Some id -> id < next.
Definition inj (m : list (Z * Z)) : Prop :=
  forall k k' id, dget k m = Some id -> dget k' m = Some id -> k = k'.

Definition found (q : Z) (m : list (Z * Z)) : option Z := if 0 <=? q then dget q m else None.

Lemma couple_loop_length : forall rows m next, length (couple_loop rows m next) = length rows.
Proof.
  induction rows as [|[p q] r IH]; intros m next; cbn [couple_loop length]; [reflexivity|].
  destruct (if 0 <=? q then dget q m else None); cbn [length]; now rewrite IH.
Qed.

Lemma dget_cons_ne {A} k k' (v : A) m : k <> k' -> dget k ((k', v) :: m) = dget k m.
Proof. intros H; cbn [dget]. destruct (Z.eqb_spec k k'); [contradiction|reflexivity]. Qed.

Lemma dget_cons_eq {A} k (v : A) m : dget k ((k, v) :: m) = Some v.
Proof. cbn [dget]. now rewrite Z.eqb_refl. Qed.

(* every output is the id found in the initial dictionary, or a new one *)
Lemma couple_out : forall rows m next,
  NoDup (map fst rows) -> keys_free rows m -> ids_below m next ->
  forall j b, nth_error rows j = Some b ->
    match found (snd b) m with
    | Some id => nth_error (couple_loop rows m next) j = Some id
    | None => exists id, nth_error (couple_loop rows m next) j = Some id /\ next <= id
    end.
Proof.
  induction rows as [|[p q] r IH]; intros m next Hnd Hfree Hlt j b Hj.
  - destruct j; discriminate.
  - cbn [map fst] in Hnd. inversion Hnd as [|? ? Hnotin Hnd']; subst.
    cbn [couple_loop]. fold (found q m).
    destruct j as [|j].
    + cbn [nth_error] in Hj. injection Hj as <-. cbn [snd].
      destruct (found q m) as [id|]; cbn [nth_error]; [reflexivity|].
      exists next. split; [reflexivity|lia].
    + cbn [nth_error] in Hj.
      assert (Hbr : In b r) by (eapply nth_error_In; eauto).
      destruct (found q m) as [id0|] eqn:Eq; cbn [nth_error].
      * apply IH; auto. intros a Ha. apply Hfree. now right.
      * assert (Hfree' : keys_free r ((p, next) :: m)).
        { intros a Ha. rewrite dget_cons_ne; [apply Hfree; now right|].
          intros E. apply Hnotin. rewrite <- E. now apply in_map. }
        assert (Hlt' : ids_below ((p, next) :: m) (next + 1)).
        { intros k id. cbn [dget]. destruct (k =? p); [intros [= <-]; lia|]. intros H. apply Hlt in H. lia. }
        specialize (IH ((p, next) :: m) (next + 1) Hnd' Hfree' Hlt' j b Hj).
        unfold found in IH |- *. revert IH. destruct (0 <=? snd b) eqn:Eb; intros IH.
        -- destruct (Z.eqb_spec (snd b) p) as [Hbp|Hne].
           ++ rewrite Hbp in *. rewrite dget_cons_eq in IH.
              assert (dget p m = None) by (apply (Hfree (p, q)); now left).
              rewrite H. exists next. split; [exact IH|lia].
           ++ rewrite dget_cons_ne in IH by exact Hne.
              destruct (dget (snd b) m); [exact IH|].
              destruct IH as (id & H1 & H2). exists id. split; [exact H1|lia].
        -- destruct IH as (id & H1 & H2). exists id. split; [exact H1|lia].
Qed.

Definition sym (rows : list (Z * Z)) : Prop :=
  forall a b, In a rows -> In b rows -> 0 <= snd a -> snd a = fst b -> snd b = fst a.

(* no two different rows point to the same key of the dictionary *)
Definition cross (rows : list (Z * Z)) (m : list (Z * Z)) : Prop :=
  forall i j a b, nth_error rows i = Some a -> nth_error rows j = Some b ->
    0 <= snd a -> snd a = snd b -> dget (snd a) m <> None -> i = j.

Lemma nodup_fst_index (rows : list (Z * Z)) : NoDup (map fst rows) ->
  forall i j a b, nth_error rows i = Some a -> nth_error rows j = Some b -> fst a = fst b -> i = j.
Proof.
  intros Hnd i j a b Hi Hj Hab.
  apply (proj1 (NoDup_nth_error (map fst rows)) Hnd).
  - rewrite map_length. apply nth_error_Some. congruence.
  - rewrite !nth_error_map, Hi, Hj. cbn. now rewrite Hab.
Qed.

Theorem couple_loop_spec : forall rows m next,
  NoDup (map fst rows) -> (forall a, In a rows -> 0 <= fst a) -> sym rows ->
  keys_free rows m -> ids_below m next -> inj m -> cross rows m ->
  forall i j a b, nth_error rows i = Some a -> nth_error rows j = Some b -> (i < j)%nat ->
    (nth_error (couple_loop rows m next) i = nth_error (couple_loop rows m next) j
     <-> 0 <= snd a /\ snd a = fst b).
Proof.
  induction rows as [|[p q] r IH]; intros m next Hnd Hpos Hsym Hfree Hlt Hinj Hcross i j a b Hi Hj Hij.
  - destruct i; discriminate.
  - assert (Hnd0 := Hnd). cbn [map fst] in Hnd. inversion Hnd as [|? ? Hnotin Hnd']; subst.
    assert (Hposr : forall a, In a r -> 0 <= fst a) by (intros; apply Hpos; now right).
    assert (Hsymr : sym r) by (intros x y Hx Hy; apply Hsym; now right).
    assert (Hfreer : keys_free r m) by (intros x Hx; apply Hfree; now right).
    destruct j as [|j]; [lia|]. cbn [nth_error] in Hj.
    assert (Hbr : In b r) by (eapply nth_error_In; eauto).
    assert (Hpm : dget p m = None) by (apply (Hfree (p, q)); now left).
    assert (Hfree' : keys_free r ((p, next) :: m)).
    { intros x Hx. rewrite dget_cons_ne; [apply Hfreer; exact Hx|].
      intros E. apply Hnotin. rewrite <- E. now apply in_map. }
    assert (Hlt' : ids_below ((p, next) :: m) (next + 1)).
    { intros k id. cbn [dget]. destruct (k =? p); [intros [= <-]; lia|]. intros H. apply Hlt in H. lia. }
    cbn [couple_loop]. fold (found q m).
    destruct i as [|i].
    + (* the head against a later row *)
      cbn [nth_error] in Hi. injection Hi as <-. cbn [snd fst].
      destruct (found q m) as [id0|] eqn:Eq; cbn [nth_error].
      * (* head re-uses an id of the dictionary: its partner is an earlier row, never a later one *)
        unfold found in Eq. destruct (0 <=? q) eqn:Eq0; [|discriminate].
        split.
        -- intros Heq.
           pose proof (couple_out r m next Hnd' Hfreer Hlt j b Hj) as Hout.
           destruct (found (snd b) m) as [id1|] eqn:Eb.
           ++ rewrite Hout in Heq. injection Heq as <-.
              unfold found in Eb. destruct (0 <=? snd b) eqn:Eb0; [|discriminate].
              assert (q = snd b) by (eapply Hinj; eauto).
              assert (O = S j); [|discriminate].
              apply (Hcross O (S j) (p, q) b); cbn [nth_error snd]; auto; try lia; congruence.
           ++ destruct Hout as (id & H1 & H2). rewrite H1 in Heq. injection Heq as <-.
              apply Hlt in Eq. lia.
        -- intros [_ Hqb]. exfalso. rewrite Hqb in Eq. rewrite (Hfreer b Hbr) in Eq. discriminate.
      * (* head gets a new id: later rows equal it exactly when they point to the head *)
        pose proof (couple_out r ((p, next) :: m) (next + 1) Hnd' Hfree' Hlt' j b Hj) as Hout.
        unfold found in Hout. split.
        -- intros Heq. destruct (0 <=? snd b) eqn:Eb0.
           ++ destruct (Z.eqb_spec (snd b) p) as [Hbp|Hne].
              ** assert (q = fst b).
                 { apply (Hsym b (p, q)); [now right|now left|lia|exact Hbp]. }
                 subst q. split; [apply Hposr; exact Hbr|reflexivity].
              ** rewrite dget_cons_ne in Hout by exact Hne.
                 destruct (dget (snd b) m) as [id1|] eqn:E1.
                 --- rewrite Hout in Heq. injection Heq as <-. apply Hlt in E1. lia.
                 --- destruct Hout as (id & H1 & H2). rewrite H1 in Heq. injection Heq as <-. lia.
           ++ destruct Hout as (id & H1 & H2). rewrite H1 in Heq. injection Heq as <-. lia.
        -- intros [Hq0 Hqb].
           assert (Hbp : snd b = p).
           { apply (Hsym (p, q) b); [now left|now right|exact Hq0|exact Hqb]. }
           assert (0 <=? snd b = true) by (apply Z.leb_le; rewrite Hbp; apply (Hpos (p, q)); now left).
           rewrite H, Hbp, dget_cons_eq in Hout. now rewrite Hout.
    + (* two later rows: induction *)
      cbn [nth_error] in Hi.
      destruct (found q m) as [id0|] eqn:Eq; cbn [nth_error].
      * apply IH; auto; try lia.
        intros i' j' a' b' Hi' Hj' H0 H1 H2.
        assert (S i' = S j') by (eapply Hcross; eauto). lia.
      * apply IH; auto; try lia.
        -- intros k k' id. cbn [dget].
           destruct (Z.eqb_spec k p) as [->|Hk]; destruct (Z.eqb_spec k' p) as [->|Hk']; auto.
           ++ intros [= <-] H. apply Hlt in H. lia.
           ++ intros H [= <-]. apply Hlt in H. lia.
           ++ apply Hinj.
        -- intros i' j' a' b' Hi' Hj' H0 H1 H2.
           destruct (Z.eqb_spec (snd a') p) as [Hap|Hne].
           ++ (* both point to the head: both are the head's partner *)
              assert (Ha'r : In a' r) by (eapply nth_error_In; eauto).
              assert (Hb'r : In b' r) by (eapply nth_error_In; eauto).
              assert (q = fst a') by (apply (Hsym a' (p, q)); [now right|now left|exact H0|exact Hap]).
              assert (q = fst b') by (apply (Hsym b' (p, q)); [now right|now left|lia|cbn; congruence]).
              eapply (nodup_fst_index r Hnd'); eauto. congruence.
           ++ rewrite dget_cons_ne in H2 by exact Hne.
              assert (S i' = S j') by (eapply Hcross; eauto). lia.
Qed.

End Couple.

(* ---------------------------------------------------------------- *)
(* the builders on person tables *)

Definition couple_wf (ptr : person -> Z) (ps : list person) : Prop :=
  NoDup (map pid ps) /\ (forall x, In x ps -> 0 <= pid x) /\
  (forall x y, In x ps -> In y ps -> 0 <= ptr x -> ptr x = pid y -> ptr y = pid x).

Lemma couple_ids_spec (ptr : person -> Z) (ps : list person) :
  couple_wf ptr ps ->
  let ids := couple_loop (map (fun x => (pid x, ptr x)) ps) [] 0 in
  length ids = length ps /\
  forall i j a b, nth_error ps i = Some a -> nth_error ps j = Some b ->
    (nth_error ids i = nth_error ids j <-> pid a = pid b \/ (0 <= ptr a /\ ptr a = pid b)).
Proof.
  intros (Hnd & Hpos & Hsym). cbn zeta.
  set (rows := map (fun x => (pid x, ptr x)) ps).
  split; [unfold rows; now rewrite couple_loop_length, map_length|].
  assert (Hnd' : NoDup (map fst rows)) by (unfold rows; rewrite map_map; exact Hnd).
  assert (Hpos' : forall a, In a rows -> 0 <= fst a).
  { unfold rows. intros a Ha. apply in_map_iff in Ha as (x & <- & Hx). now apply Hpos. }
  assert (Hsym' : sym rows).
  { unfold rows. intros a b Ha Hb. apply in_map_iff in Ha as (x & <- & Hx). apply in_map_iff in Hb as (y & <- & Hy).
    cbn. now apply Hsym. }
  assert (Hspec : forall i j a b, nth_error ps i = Some a -> nth_error ps j = Some b -> (i < j)%nat ->
            (nth_error (couple_loop rows [] 0) i = nth_error (couple_loop rows [] 0) j <-> 0 <= ptr a /\ ptr a = pid b)).
  { intros i j a b Hi Hj Hij.
    apply (couple_loop_spec rows [] 0 Hnd' Hpos' Hsym') with (a := (pid a, ptr a)) (b := (pid b, ptr b)); auto.
    - intros x _. reflexivity.
    - intros k id H. discriminate.
    - intros k k' id H. discriminate.
    - intros i' j' a' b' _ _ _ _ H. now contradiction H.
    - unfold rows. now rewrite nth_error_map, Hi.
    - unfold rows. now rewrite nth_error_map, Hj. }
  intros i j a b Hi Hj.
  destruct (Nat.lt_trichotomy i j) as [Hlt|[->|Hgt]].
  - rewrite (Hspec i j a b Hi Hj Hlt). split; [tauto|].
    intros [Hp|H]; [|exact H].
    assert (i = j); [|lia].
    apply (proj1 (NoDup_nth_error (map pid ps)) Hnd).
    + rewrite map_length. apply nth_error_Some. congruence.
    + rewrite !nth_error_map, Hi, Hj; cbn; now rewrite Hp.
  - rewrite Hi in Hj. injection Hj as <-. split; [now left|reflexivity].
  - split.
    + intros H. symmetry in H. apply (Hspec j i b a Hj Hi Hgt) in H as [H0 H1].
      right. assert (Hab : ptr a = pid b).
      { apply Hsym; [eapply nth_error_In; eauto|eapply nth_error_In; eauto|exact H0|exact H1]. }
      split; [rewrite Hab; apply Hpos; eapply nth_error_In; eauto|exact Hab].
    + intros [Hp|[H0 H1]].
      * assert (i = j); [|lia].
        apply (proj1 (NoDup_nth_error (map pid ps)) Hnd).
        -- rewrite map_length. apply nth_error_Some. congruence.
        -- rewrite !nth_error_map, Hi, Hj; cbn; now rewrite Hp.
      * symmetry. apply (Hspec j i b a Hj Hi Hgt).
        assert (Hba : ptr b = pid a).
        { apply Hsym; [eapply nth_error_In; eauto|eapply nth_error_In; eauto|exact H0|exact H1]. }
        split; [rewrite Hba; apply Hpos; eapply nth_error_In; eauto|exact Hba].
Qed.

Theorem eg_id_spec (ps : list person) : couple_wf einst ps ->
  length (eg_id ps) = length ps /\
  forall i j a b, nth_error ps i = Some a -> nth_error ps j = Some b ->
    (nth_error (eg_id ps) i = nth_error (eg_id ps) j <-> pid a = pid b \/ (0 <= einst a /\ einst a = pid b)).
Proof. exact (couple_ids_spec einst ps). Qed.

Theorem ehe_id_spec (ps : list person) : couple_wf ehep ps ->
  length (ehe_id ps) = length ps /\
  forall i j a b, nth_error ps i = Some a -> nth_error ps j = Some b ->
    (nth_error (ehe_id ps) i = nth_error (ehe_id ps) j <-> pid a = pid b \/ (0 <= ehep a /\ ehep a = pid b)).
Proof. exact (couple_ids_spec ehep ps). Qed.

(* ---------------------------------------------------------------- *)
(* sn_id: spouses with gemeinsam_veranlagt; contradictory flags are rejected *)

Section Sn.

Definition rows3 := list (Z * Z * bool).
Definition p3 (a : Z * Z * bool) := fst (fst a).
Definition q3 (a : Z * Z * bool) := snd (fst a).
Definition g3 (a : Z * Z * bool) := snd a.

Definition keys_free3 (rows : rows3) (m : list (Z * (Z * bool))) : Prop :=
  forall a, In a rows -> dget (p3 a) m = None.

Definition sym3 (rows : rows3) : Prop :=
  forall a b, In a rows -> In b rows -> 0 <= q3 a -> q3 a = p3 b -> q3 b = p3 a.

(* the flags of the two spouses agree; also against the rows already in the dictionary *)
Definition consistent (rows : rows3) (m : list (Z * (Z * bool))) : Prop :=
  (forall b id g, In b rows -> 0 <= q3 b -> dget (q3 b) m = Some (id, g) -> g = g3 b) /\
  (forall a b, In a rows -> In b rows -> 0 <= q3 b -> q3 b = p3 a -> g3 a = g3 b).

Definition mask (a : Z * Z * bool) : Z * Z := (p3 a, if g3 a then q3 a else -1).
Definition strip (m : list (Z * (Z * bool))) : list (Z * Z) := map (fun kv => (fst kv, fst (snd kv))) m.

Lemma dget_strip k m : dget k (strip m) = option_map fst (dget k m).
Proof.
  induction m as [|[k' [id g]] m IH]; [reflexivity|].
  cbn [strip map dget fst snd]. destruct (k =? k'); [reflexivity|exact IH].
Qed.

Lemma sn_consistent_ok : forall (rows : rows3) m next,
  NoDup (map p3 rows) -> keys_free3 rows m -> consistent rows m ->
  sn_loop rows m next = Ok (couple_loop (map mask rows) (strip m) next).
Proof.
  induction rows as [|[[p q] gv] r IH]; intros m next Hnd Hfree [Hc1 Hc2]; [reflexivity|].
  cbn [map] in Hnd. inversion Hnd as [|? ? Hnotin Hnd']; subst. cbn [p3 fst] in Hnotin.
  assert (Hfreer : keys_free3 r m) by (intros x Hx; apply Hfree; now right).
  assert (Hpm : dget p m = None) by (apply (Hfree (p, q, gv)); now left).
  assert (Hfree' : keys_free3 r ((p, (next, gv)) :: m)).
  { intros x Hx. rewrite dget_cons_ne; [apply Hfreer; exact Hx|].
    intros E. apply Hnotin. rewrite <- E. now apply in_map. }
  assert (Hcons_same : consistent r m).
  { split; [intros b id g Hb; apply Hc1; now right|intros a b Ha Hb; apply Hc2; now right]. }
  assert (Hcons_ext : consistent r ((p, (next, gv)) :: m)).
  { split.
    - intros b id g Hb H0. cbn [dget]. destruct (Z.eqb_spec (q3 b) p) as [E|E].
      + intros [= <- <-]. apply (Hc2 (p, q, gv) b); [now left|now right|exact H0|exact E].
      + intros H. eapply Hc1; eauto. now right.
    - intros a b Ha Hb; apply Hc2; now right. }
  cbn [sn_loop map mask p3 q3 g3 fst snd couple_loop].
  destruct gv.
  - (* jointly assessed *)
    destruct (0 <=? q) eqn:Eq0.
    + rewrite dget_strip. destruct (dget q m) as [[id g]|] eqn:Eq; cbn [option_map fst].
      * assert (g = true).
        { apply (Hc1 (p, q, true) id g); [now left|cbn; lia|exact Eq]. }
        subst g. cbn [Bool.eqb negb]. rewrite (IH m next Hnd' Hfreer Hcons_same). reflexivity.
      * rewrite (IH _ (next + 1) Hnd' Hfree' Hcons_ext). reflexivity.
    + rewrite (IH _ (next + 1) Hnd' Hfree' Hcons_ext). reflexivity.
  - (* separately assessed: always a new id *)
    assert (Hm : (if 0 <=? -1 then dget (-1) (strip m) else None) = None) by reflexivity.
    rewrite Hm.
    destruct (0 <=? q) eqn:Eq0.
    + destruct (dget q m) as [[id g]|] eqn:Eq.
      * assert (g = false).
        { apply (Hc1 (p, q, false) id g); [now left|cbn; lia|exact Eq]. }
        subst g. cbn [Bool.eqb negb]. rewrite (IH _ (next + 1) Hnd' Hfree' Hcons_ext). reflexivity.
      * rewrite (IH _ (next + 1) Hnd' Hfree' Hcons_ext). reflexivity.
    + rewrite (IH _ (next + 1) Hnd' Hfree' Hcons_ext). reflexivity.
Qed.

Lemma sn_ok_consistent : forall (rows : rows3) m next out,
  NoDup (map p3 rows) -> (forall a, In a rows -> 0 <= p3 a) -> sym3 rows -> keys_free3 rows m ->
  sn_loop rows m next = Ok out -> consistent rows m.
Proof.
  induction rows as [|[[p q] gv] r IH]; intros m next out Hnd Hpos Hsym Hfree Hok.
  - split; intros; contradiction.
  - cbn [map] in Hnd. inversion Hnd as [|? ? Hnotin Hnd']; subst. cbn [p3 fst] in Hnotin.
    assert (Hsymr : sym3 r) by (intros x y Hx Hy; apply Hsym; now right).
    assert (Hposr : forall a, In a r -> 0 <= p3 a) by (intros; apply Hpos; now right).
    assert (Hfreer : keys_free3 r m) by (intros x Hx; apply Hfree; now right).
    assert (Hpm : dget p m = None) by (apply (Hfree (p, q, gv)); now left).
    assert (Hfree' : keys_free3 r ((p, (next, gv)) :: m)).
    { intros x Hx. rewrite dget_cons_ne; [apply Hfreer; exact Hx|].
      intros E. apply Hnotin. rewrite <- E. now apply in_map. }
    (* what the head did *)
    assert (Hhead : (forall id g, 0 <= q -> dget q m = Some (id, g) -> g = gv) /\
                    ((exists out', sn_loop r ((p, (next, gv)) :: m) (next + 1) = Ok out') \/
                     (exists out' id, 0 <= q /\ dget q m = Some (id, gv) /\ sn_loop r m next = Ok out'))).
    { cbn [sn_loop] in Hok.
      destruct (0 <=? q) eqn:Eq0.
      - destruct (dget q m) as [[id g]|] eqn:Eq.
        + destruct (Bool.eqb gv g) eqn:Eg; cbn [negb] in Hok; [|discriminate].
          apply Bool.eqb_prop in Eg. subst g.
          split; [intros id' g' _ [= _ <-]; reflexivity|].
          destruct gv.
          * right. destruct (sn_loop r m next) as [o|e] eqn:E; [|discriminate]. exists o, id.
            split; [lia|split; [reflexivity|reflexivity]].
          * left. destruct (sn_loop r ((p, (next, false)) :: m) (next + 1)) as [o|e] eqn:E; [|discriminate]. now exists o.
        + split; [intros; discriminate|].
          left. destruct (sn_loop r ((p, (next, gv)) :: m) (next + 1)) as [o|e] eqn:E; [|discriminate]. now exists o.
      - split; [intros; lia|].
        left. destruct (sn_loop r ((p, (next, gv)) :: m) (next + 1)) as [o|e] eqn:E; [|discriminate]. now exists o. }
    destruct Hhead as [Hh1 Hh2].
    (* rows of r against the head *)
    assert (Hpoint : forall y, In y r -> 0 <= q3 y -> q3 y = p -> gv = g3 y).
    { intros y Hy Hy0 Hyp.
      destruct Hh2 as [(out' & Hr)|(out' & id & Hq0 & Hq & Hr)].
      - destruct (IH _ _ _ Hnd' Hposr Hsymr Hfree' Hr) as [Hc1 _].
        apply (Hc1 y next gv Hy Hy0). rewrite Hyp. apply dget_cons_eq.
      - exfalso.
        assert (q = p3 y).
        { apply (Hsym y (p, q, gv)); [now right|now left|exact Hy0|exact Hyp]. }
        subst q. rewrite (Hfreer y Hy) in Hq. discriminate. }
    assert (Hr : exists m', consistent r m' /\ (m' = m \/ m' = (p, (next, gv)) :: m)).
    { destruct Hh2 as [(out' & Hr)|(out' & id & Hq0 & Hq & Hr)].
      - exists ((p, (next, gv)) :: m). split; [eapply IH; eauto|now right].
      - exists m. split; [eapply IH; eauto|now left]. }
    destruct Hr as (m' & [Hc1 Hc2] & Hm').
    split.
    + intros b id g [<-|Hb] Hb0 Hd; cbn [q3 g3 fst snd] in *.
      * eapply Hh1; eauto.
      * apply (Hc1 b id g Hb Hb0).
        destruct Hm' as [->| ->]; [exact Hd|].
        rewrite dget_cons_ne; [exact Hd|].
        intros E. rewrite E, Hpm in Hd. discriminate.
    + intros a b [<-|Ha] [<-|Hb] Hb0 Hba; cbn [p3 q3 g3 fst snd] in *.
      * reflexivity.
      * now apply Hpoint.
      * assert (Hqa : q3 a = p) by (apply (Hsym (p, q, gv) a); [now left|now right|exact Hb0|exact Hba]).
        symmetry. apply Hpoint; [exact Ha| |exact Hqa].
        rewrite Hqa. apply (Hpos (p, q, gv)). now left.
      * now apply Hc2.
Qed.


Definition flags_agree (ps : list person) : Prop :=
  forall x y, In x ps -> In y ps -> 0 <= ehep x -> ehep x = pid y -> gemv x = gemv y.

Definition sn_ptr (x : person) : Z := if gemv x then ehep x else -1.

Lemma sn_rows_facts (ps : list person) : couple_wf ehep ps ->
  let rows := map (fun x => (pid x, ehep x, gemv x)) ps in
  NoDup (map p3 rows) /\ (forall a, In a rows -> 0 <= p3 a) /\ sym3 rows /\ keys_free3 rows [].
Proof.
  intros (Hnd & Hpos & Hsym). cbn zeta. repeat split.
  - rewrite map_map. exact Hnd.
  - intros a Ha. apply in_map_iff in Ha as (x & <- & Hx). now apply Hpos.
  - intros a b Ha Hb. apply in_map_iff in Ha as (x & <- & Hx). apply in_map_iff in Hb as (y & <- & Hy).
    cbn. now apply Hsym.
Qed.

(* consistent flags: accepted, and the ids are those of the couple builder on the masked pointer *)
Theorem sn_id_accepts (ps : list person) : couple_wf ehep ps -> flags_agree ps ->
  sn_id ps = Ok (couple_loop (map (fun x => (pid x, sn_ptr x)) ps) [] 0).
Proof.
  intros Hwf Hfl. destruct (sn_rows_facts ps Hwf) as (Hnd & Hpos & Hsym & Hfree).
  unfold sn_id. rewrite (sn_consistent_ok _ [] 0 Hnd Hfree).
  - cbn [strip map]. rewrite map_map. reflexivity.
  - split; [intros; discriminate|].
    intros a b Ha Hb. apply in_map_iff in Ha as (x & <- & Hx). apply in_map_iff in Hb as (y & <- & Hy).
    cbn. intros H0 H1. symmetry. now apply Hfl.
Qed.

(* contradictory flags of two spouses: rejected, wherever the two rows stand in the table *)
Theorem sn_id_rejects (ps : list person) : couple_wf ehep ps -> ~ flags_agree ps ->
  exists e, sn_id ps = Err e.
Proof.
  intros Hwf Hno. destruct (sn_rows_facts ps Hwf) as (Hnd & Hpos & Hsym & Hfree).
  unfold sn_id. destruct (sn_loop _ [] 0) as [out|e] eqn:E; [|now exists e].
  exfalso. apply Hno.
  destruct (sn_ok_consistent _ _ _ _ Hnd Hpos Hsym Hfree E) as [_ Hc2].
  intros x y Hx Hy H0 H1. symmetry.
  apply (Hc2 (pid y, ehep y, gemv y) (pid x, ehep x, gemv x)); cbn; auto;
    apply in_map_iff; eexists; split; eauto.
Qed.

Theorem sn_id_spec (ps : list person) ids : couple_wf ehep ps -> sn_id ps = Ok ids ->
  length ids = length ps /\
  forall i j a b, nth_error ps i = Some a -> nth_error ps j = Some b ->
    (nth_error ids i = nth_error ids j <->
     pid a = pid b \/ (0 <= ehep a /\ ehep a = pid b /\ gemv a = true /\ gemv b = true)).
Proof.
  intros Hwf Hok.
  assert (Hfl : flags_agree ps).
  { destruct (sn_rows_facts ps Hwf) as (Hnd & Hpos & Hsym & Hfree).
    destruct (sn_ok_consistent _ _ _ _ Hnd Hpos Hsym Hfree Hok) as [_ Hc2].
    intros x y Hx Hy H0 H1. symmetry.
    apply (Hc2 (pid y, ehep y, gemv y) (pid x, ehep x, gemv x)); cbn; auto;
      apply in_map_iff; eexists; split; eauto. }
  rewrite (sn_id_accepts ps Hwf Hfl) in Hok. injection Hok as <-.
  destruct Hwf as (Hnd & Hpos & Hsym).
  assert (Hwf' : couple_wf sn_ptr ps).
  { split; [exact Hnd|split; [exact Hpos|]].
    intros x y Hx Hy. unfold sn_ptr. destruct (gemv x) eqn:Gx; [|lia].
    intros H0 H1. rewrite <- (Hfl x y Hx Hy H0 H1), Gx. now apply Hsym. }
  destruct (couple_ids_spec sn_ptr ps Hwf') as [Hlen Hspec]. split; [exact Hlen|].
  intros i j a b Hi Hj. rewrite (Hspec i j a b Hi Hj). unfold sn_ptr.
  assert (Ha : In a ps) by (eapply nth_error_In; eauto).
  assert (Hb : In b ps) by (eapply nth_error_In; eauto).
  destruct (gemv a) eqn:Ga.
  - split; (intros [H|H]; [now left|right]).
    + destruct H as [H0 H1]. repeat split; auto. rewrite <- (Hfl a b Ha Hb H0 H1). exact Ga.
    + tauto.
  - split; (intros [H|H]; [now left|]); [lia|].
    destruct H as (_ & _ & H & _). discriminate.
Qed.

End Sn.

(* ---------------------------------------------------------------- *)
(* row-order independence, for tables of any size *)
From Coq Require Import Permutation.

Lemma couple_wf_perm ptr ps ps' : Permutation ps ps' -> couple_wf ptr ps -> couple_wf ptr ps'.
Proof.
  intros Hp (Hnd & Hpos & Hsym). repeat split.
  - eapply Permutation_NoDup; [apply Permutation_map; exact Hp|exact Hnd].
  - intros x Hx. apply Hpos. eapply Permutation_in; [apply Permutation_sym; exact Hp|exact Hx].
  - intros x y Hx Hy. apply Hsym; (eapply Permutation_in; [apply Permutation_sym; exact Hp|assumption]).
Qed.

Theorem couple_order_free ptr ps ps' : couple_wf ptr ps -> Permutation ps ps' ->
  let ids := couple_loop (map (fun x => (pid x, ptr x)) ps) [] 0 in
  let ids' := couple_loop (map (fun x => (pid x, ptr x)) ps') [] 0 in
  forall i j i' j' a b,
    nth_error ps i = Some a -> nth_error ps j = Some b -> nth_error ps' i' = Some a -> nth_error ps' j' = Some b ->
    (nth_error ids i = nth_error ids j <-> nth_error ids' i' = nth_error ids' j').
Proof.
  intros Hwf Hp. cbn zeta. intros i j i' j' a b Hi Hj Hi' Hj'.
  destruct (couple_ids_spec ptr ps Hwf) as [_ H1].
  destruct (couple_ids_spec ptr ps' (couple_wf_perm ptr ps ps' Hp Hwf)) as [_ H2].
  rewrite (H1 i j a b Hi Hj), (H2 i' j' a b Hi' Hj'). reflexivity.
Qed.

Theorem eg_id_order_free ps ps' : couple_wf einst ps -> Permutation ps ps' ->
  forall i j i' j' a b,
    nth_error ps i = Some a -> nth_error ps j = Some b -> nth_error ps' i' = Some a -> nth_error ps' j' = Some b ->
    (nth_error (eg_id ps) i = nth_error (eg_id ps) j <-> nth_error (eg_id ps') i' = nth_error (eg_id ps') j').
Proof. exact (couple_order_free einst ps ps'). Qed.

Theorem ehe_id_order_free ps ps' : couple_wf ehep ps -> Permutation ps ps' ->
  forall i j i' j' a b,
    nth_error ps i = Some a -> nth_error ps j = Some b -> nth_error ps' i' = Some a -> nth_error ps' j' = Some b ->
    (nth_error (ehe_id ps) i = nth_error (ehe_id ps) j <-> nth_error (ehe_id ps') i' = nth_error (ehe_id ps') j').
Proof. exact (couple_order_free ehep ps ps'). Qed.

Lemma flags_agree_perm ps ps' : Permutation ps ps' -> flags_agree ps -> flags_agree ps'.
Proof.
  intros Hp H x y Hx Hy. apply H; (eapply Permutation_in; [apply Permutation_sym; exact Hp|assumption]).
Qed.

(* acceptance does not depend on the row order, and neither does the partition *)
Theorem sn_id_order_free ps ps' ids : couple_wf ehep ps -> Permutation ps ps' -> sn_id ps = Ok ids ->
  exists ids', sn_id ps' = Ok ids' /\
  forall i j i' j' a b,
    nth_error ps i = Some a -> nth_error ps j = Some b -> nth_error ps' i' = Some a -> nth_error ps' j' = Some b ->
    (nth_error ids i = nth_error ids j <-> nth_error ids' i' = nth_error ids' j').
Proof.
  intros Hwf Hp Hok.
  assert (Hwf' := couple_wf_perm ehep ps ps' Hp Hwf).
  assert (Hfl : flags_agree ps).
  { destruct (sn_rows_facts ps Hwf) as (Hnd & Hpos & Hsym & Hfree).
    destruct (sn_ok_consistent _ _ _ _ Hnd Hpos Hsym Hfree Hok) as [_ Hc2].
    intros x y Hx Hy H0 H1. symmetry.
    apply (Hc2 (pid y, ehep y, gemv y) (pid x, ehep x, gemv x)); cbn; auto;
      apply in_map_iff; eexists; split; eauto. }
  eexists. split; [apply (sn_id_accepts ps' Hwf' (flags_agree_perm ps ps' Hp Hfl))|].
  intros i j i' j' a b Hi Hj Hi' Hj'.
  destruct (sn_id_spec ps ids Hwf Hok) as [_ H1].
  destruct (sn_id_spec ps' _ Hwf' (sn_id_accepts ps' Hwf' (flags_agree_perm ps ps' Hp Hfl))) as [_ H2].
  rewrite (H1 i j a b Hi Hj), (H2 i' j' a b Hi' Hj'). reflexivity.
Qed.

(* the hypotheses are satisfiable: a married couple, a single and a separately assessed couple *)
Definition mkp (p e s : Z) (g : bool) : person :=
  {| pid := p; hh := 0; alter := 40; einst := e; ehep := s; elt1 := -1; elt2 := -1; eigenb := false; gemv := g |}.
Definition demo : list person := [mkp 7 3 3 true; mkp 5 (-1) (-1) false; mkp 3 7 7 true; mkp 9 11 11 false; mkp 11 9 9 false].

Example demo_sn : sn_id demo = Ok [0; 1; 0; 2; 3] /\ eg_id demo = [0; 1; 0; 2; 2].
Proof. split; reflexivity. Qed.

(* ---------------------------------------------------------------- *)
(* decidable form of the hypotheses (evaluated on the generated populations of the correspondence) *)
Fixpoint nodup_zb (l : list Z) : bool :=
  match l with [] => true | x :: r => negb (existsb (Z.eqb x) r) && nodup_zb r end.

Lemma nodup_zb_sound l : nodup_zb l = true -> NoDup l.
Proof.
  induction l as [|x r IH]; cbn; [constructor|].
  rewrite andb_true_iff, negb_true_iff. intros [H1 H2]. constructor; [|now apply IH].
  intro Hin. assert (E : existsb (Z.eqb x) r = true) by (apply existsb_exists; exists x; split; [exact Hin|apply Z.eqb_refl]).
  congruence.
Qed.

Definition couple_wf_b (ptr : person -> Z) (ps : list person) : bool :=
  nodup_zb (map pid ps) && forallb (fun x => 0 <=? pid x) ps &&
  forallb (fun x => forallb (fun y => negb ((0 <=? ptr x) && (ptr x =? pid y)) || (ptr y =? pid x)) ps) ps.

Lemma couple_wf_b_sound ptr ps : couple_wf_b ptr ps = true -> couple_wf ptr ps.
Proof.
  unfold couple_wf_b. rewrite !andb_true_iff. intros [[H1 H2] H3]. repeat split.
  - now apply nodup_zb_sound.
  - intros x Hx. rewrite forallb_forall in H2. apply Z.leb_le. now apply H2.
  - intros x y Hx Hy H0 Hxy. rewrite forallb_forall in H3. specialize (H3 x Hx).
    rewrite forallb_forall in H3. specialize (H3 y Hy).
    apply orb_true_iff in H3 as [H|H]; [|now apply Z.eqb_eq].
    apply negb_true_iff, andb_false_iff in H as [H|H]; [apply Z.leb_gt in H; lia|apply Z.eqb_neq in H; contradiction].
Qed.

Definition flags_agree_b (ps : list person) : bool :=
  forallb (fun x => forallb (fun y => negb ((0 <=? ehep x) && (ehep x =? pid y)) || Bool.eqb (gemv x) (gemv y)) ps) ps.

Lemma flags_agree_b_sound ps : flags_agree_b ps = true -> flags_agree ps.
Proof.
  unfold flags_agree_b. intros H x y Hx Hy H0 Hxy. rewrite forallb_forall in H. specialize (H x Hx).
  rewrite forallb_forall in H. specialize (H y Hy).
  apply orb_true_iff in H as [H|H]; [|now apply Bool.eqb_prop].
  apply negb_true_iff, andb_false_iff in H as [H|H]; [apply Z.leb_gt in H; lia|apply Z.eqb_neq in H; contradiction].
Qed.

Lemma flags_agree_b_complete ps : flags_agree ps -> flags_agree_b ps = true.
Proof.
  intros H. unfold flags_agree_b. apply forallb_forall. intros x Hx. apply forallb_forall. intros y Hy.
  destruct (0 <=? ehep x) eqn:E0; [|reflexivity]. destruct (Z.eqb_spec (ehep x) (pid y)) as [E|E]; [|reflexivity].
  cbn. rewrite (H x y Hx Hy); [apply Bool.eqb_reflx|now apply Z.leb_le|exact E].
Qed.

(* the builder's verdict in closed form: accepted exactly when all spouses' flags agree *)
Theorem sn_id_accepts_iff ps : couple_wf ehep ps ->
  (exists ids, sn_id ps = Ok ids) <-> flags_agree_b ps = true.
Proof.
  intros Hwf. split.
  - intros [ids Hok]. destruct (flags_agree_b ps) eqn:E; [reflexivity|]. exfalso.
    destruct (sn_id_rejects ps Hwf) as [e He]; [|congruence].
    intros Hfl. apply flags_agree_b_complete in Hfl. congruence.
  - intros H. eexists. apply (sn_id_accepts ps Hwf). now apply flags_agree_b_sound.
Qed.

Example demo_wf : couple_wf ehep demo /\ couple_wf einst demo /\ flags_agree demo.
Proof.
  split; [apply couple_wf_b_sound; reflexivity|split; [apply couple_wf_b_sound; reflexivity|apply flags_agree_b_sound; reflexivity]].
Qed.
