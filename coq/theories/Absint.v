(* Absint.v — property C16: a verified abstract interpreter for the rule language.

   Abstract values:   APar v     the value is exactly v   (policy parameters, literals, and anything
                                 computed from them alone — evaluated concretely)
                      AOne l     the value is one of the values in l (a parameter table indexed by data)
                      AItv i     a FINITE number (int, bool, finite float) inside the interval i
                                 (rational bounds, either of them optional)
                      ATop       anything
   [aeval]/[aexec] interpret expressions / statements over abstract environments; helper calls are
   interpreted abstractly as well (fuel as in Eval.call_fuel).  Soundness ([rule_aval_sound]):
   whenever the concrete arguments are described by the abstract ones and the rule returns a
   value, that value is described by the abstract result — in particular it is finite, and within
   the computed bounds.  Anything outside the fragment is answered ATop, never guessed. *)
From Coq Require Import ZArith QArith Qcanon Bool String List Lia.
From GettsimModel Require Import Num NumTac Val Ast Piecewise PiecewiseProofs PiecewiseSign Eval ChkC07 Sign Itv.
Import ListNotations.
Open Scope string_scope.

Inductive aval := ATop | AItv (i : itv) | APar (v : val) | AOne (l : list val) | ABot | AListOf (a : aval).

Fixpoint arel (a : aval) (v : val) {struct a} : Prop :=
  match a with
  | ATop => True
  | AItv i => exists q, fq v = Some q /\ inb i q
  | APar w => v = w
  | AOne l => In v l
  | ABot => False            (* no value at all: an unbound name *)
  | AListOf b => exists l, v = VList l /\ Forall (arel b) l     (* a list whose elements are all described by b *)
  end.

Definition ANN : aval := AItv inn.
Definition AFin : aval := AItv itop.
Definition ABool : aval := AItv ibool.

Definition fin_bv (v : val) : bool :=
  match v with VInt _ | VBool _ | VFloat (XFin _) => true | _ => false end.

Fixpoint fqs (l : list val) : option (list Qc) :=
  match l with
  | [] => Some []
  | v :: r => match fq v, fqs r with Some q, Some qs => Some (q :: qs) | _, _ => None end
  end.

Lemma fqs_in l : forall qs v, fqs l = Some qs -> In v l -> exists q, fq v = Some q /\ In q qs.
Proof.
  induction l as [|x r IH]; intros qs v H Hin; [contradiction|].
  cbn in H. destruct (fq x) as [q|] eqn:E; [|discriminate]. destruct (fqs r) as [qr|] eqn:Er; [|discriminate].
  injection H as <-. destruct Hin as [<-|Hin].
  - exists q. split; [exact E | left; reflexivity].
  - destruct (IH qr v eq_refl Hin) as (q' & E' & Hq'). exists q'. split; [exact E' | right; exact Hq'].
Qed.

(* the interval view of an abstract value (None: not known to be a finite number) *)
Definition itv_of (a : aval) : option itv :=
  match a with
  | ATop => None
  | AItv i => Some i
  | APar v => match fq v with Some q => Some (ipoint q) | None => None end
  | AOne l => match fqs l with Some qs => hull_pts qs | None => None end
  | ABot | AListOf _ => None
  end.

Lemma itv_of_sound a i v : itv_of a = Some i -> arel a v -> exists q, fq v = Some q /\ inb i q.
Proof.
  destruct a as [|j|w|l| |?]; cbn; try discriminate.
  - intro H. injection H as <-. auto.
  - destruct (fq w) as [q|] eqn:E; [|discriminate]. intro H. injection H as <-. intros ->.
    exists q. split; [exact E | apply inb_point].
  - destruct (fqs l) as [qs|] eqn:E; [|discriminate]. intros H Hin.
    destruct (fqs_in l qs v E Hin) as (q & Eq & Hq). exists q. split; [exact Eq | apply (hull_pts_ok qs i q H Hq)].
Qed.

Definition a_nn (a : aval) : bool := match itv_of a with Some i => nonneg i | None => false end.
Definition a_fin (a : aval) : bool := match itv_of a with Some _ => true | None => false end.

Lemma fq_finv v q : fq v = Some q -> finv v.
Proof. destruct v as [z|[|p| |]|b| | | | |]; cbn; try discriminate; auto. Qed.

Lemma fq_finv_ex v : finv v -> exists q, fq v = Some q.
Proof. destruct v as [z|[|p| |]|b| | | | |]; cbn; try contradiction; intros _; eexists; reflexivity. Qed.

Lemma a_nn_sound a v : a_nn a = true -> arel a v -> fnn v.
Proof.
  unfold a_nn. destruct (itv_of a) as [i|] eqn:E; [|discriminate]. intros Hn Hr.
  destruct (itv_of_sound a i v E Hr) as (q & Eq & Hq). apply (fq_fnn v q Eq). apply (nonneg_ok i q Hn Hq).
Qed.

Lemma a_fin_sound a v : a_fin a = true -> arel a v -> finv v.
Proof.
  unfold a_fin. destruct (itv_of a) as [i|] eqn:E; [|discriminate]. intros _ Hr.
  destruct (itv_of_sound a i v E Hr) as (q & Eq & _). apply (fq_finv v q Eq).
Qed.

(* least upper bound in the interval view *)
Definition weaken (a b : aval) : aval :=
  match itv_of a, itv_of b with Some i, Some j => AItv (ihull i j) | _, _ => ATop end.

Lemma weaken_l a b v : arel a v -> arel (weaken a b) v.
Proof.
  intro H. unfold weaken. destruct (itv_of a) as [i|] eqn:E; [|exact I]. destruct (itv_of b) as [j|]; [|exact I].
  destruct (itv_of_sound a i v E H) as (q & Eq & Hq). exists q. split; [exact Eq | apply ihull_l; exact Hq].
Qed.

Lemma weaken_r a b v : arel b v -> arel (weaken a b) v.
Proof.
  intro H. unfold weaken. destruct (itv_of a) as [i|]; [|exact I]. destruct (itv_of b) as [j|] eqn:E; [|exact I].
  destruct (itv_of_sound b j v E H) as (q & Eq & Hq). exists q. split; [exact Eq | apply ihull_r; exact Hq].
Qed.

(* candidates view: a finite set of possible values *)
Definition cands (a : aval) : option (list val) :=
  match a with APar v => Some [v] | AOne l => Some l | _ => None end.

Lemma cands_sound a l v : cands a = Some l -> arel a v -> In v l.
Proof.
  destruct a; cbn; try discriminate; intro H; injection H as <-.
  - intros ->. left. reflexivity.
  - auto.
Qed.

Definition is_container (v : val) : bool := match v with VDict _ | VList _ => true | _ => false end.

Definition join (a b : aval) : aval :=
  match a, b with
  | ABot, _ => b
  | _, ABot => a
  | APar v, APar w => if val_eqb v w then a else if is_container v || is_container w then AOne [v; w] else weaken a b
  | _, _ =>
      match cands a, cands b with
      | Some l1, Some l2 => if existsb is_container (l1 ++ l2) then AOne (l1 ++ l2) else weaken a b
      | _, _ => weaken a b
      end
  end.

Lemma join_l a b v : arel a v -> arel (join a b) v.
Proof.
  intro H.
  assert (Gen : arel (match cands a, cands b with
      | Some l1, Some l2 => if existsb is_container (l1 ++ l2) then AOne (l1 ++ l2) else weaken a b
      | _, _ => weaken a b end) v).
  { destruct (cands a) as [l1|] eqn:E1; [|apply weaken_l; exact H]. destruct (cands b) as [l2|]; [|apply weaken_l; exact H].
    destruct (existsb is_container (l1 ++ l2)); [|apply weaken_l; exact H].
    cbn. apply in_or_app. left. apply (cands_sound a l1 v E1 H). }
  destruct a as [|i|x|l| |?]; [| | | |contradiction|];
    (destruct b as [|j|y|l'| |?]; [| | | |exact H|]); try exact Gen.
  cbn [join]. destruct (val_eqb x y); [exact H|].
  destruct (is_container x || is_container y); [cbn in H; subst; left; reflexivity | apply weaken_l; exact H].
Qed.

Lemma join_r a b v : arel b v -> arel (join a b) v.
Proof.
  intro H.
  assert (Gen : arel (match cands a, cands b with
      | Some l1, Some l2 => if existsb is_container (l1 ++ l2) then AOne (l1 ++ l2) else weaken a b
      | _, _ => weaken a b end) v).
  { destruct (cands a) as [l1|]; [|apply weaken_r; exact H]. destruct (cands b) as [l2|] eqn:E2; [|apply weaken_r; exact H].
    destruct (existsb is_container (l1 ++ l2)); [|apply weaken_r; exact H].
    cbn. apply in_or_app. right. apply (cands_sound b l2 v E2 H). }
  destruct b as [|j|y|l'| |?]; [| | | |contradiction|];
    (destruct a as [|i|x|l| |?]; [| | | |exact H|]); try exact Gen.
  cbn [join]. destruct (val_eqb x y) eqn:E; [apply val_eqb_eq in E; subst; exact H|].
  destruct (is_container x || is_container y); [cbn in H; subst; right; left; reflexivity | apply weaken_r; exact H].
Qed.

Fixpoint join_all (l : list aval) : aval :=
  match l with [] => ABot | a :: r => join a (join_all r) end.

Lemma join_all_in l : forall a v, In a l -> arel a v -> arel (join_all l) v.
Proof.
  induction l as [|x r IH]; intros a v Hin H; [contradiction|]. cbn [join_all].
  destruct Hin as [<-|Hin]; [apply join_l; exact H | apply join_r; apply (IH a v Hin H)].
Qed.

Fixpoint all_par (l : list aval) : option (list val) :=
  match l with
  | [] => Some []
  | APar v :: r => match all_par r with Some vs => Some (v :: vs) | None => None end
  | _ => None
  end.

Lemma all_par_sound l : forall ws vs, all_par l = Some ws -> Forall2 arel l vs -> vs = ws.
Proof.
  induction l as [|a r IH]; intros ws vs H F.
  - inversion F; subst. cbn in H. injection H as <-. reflexivity.
  - inversion F as [|? x ? vr Hx Fr]; subst. destruct a; try discriminate. cbn in H.
    destruct (all_par r) as [vs'|] eqn:E; [|discriminate]. injection H as <-.
    cbn in Hx. subst. f_equal. apply IH; [reflexivity | exact Fr].
Qed.

(* ---------------------------------------------------------------- *)
(* arithmetic on finite values is arithmetic on their rational values  *)

Lemma qz_minus a b : qz (a - b) = (qz a - qz b)%Qc.
Proof. unfold Z.sub. rewrite qz_plus, qz_opp. reflexivity. Qed.

Ltac fq_cases x y Hx Hy :=
  destruct x as [?z|[|?u| |]|?b| | | | |]; try discriminate Hx; destruct y as [?z|[|?u| |]|?b| | | | |]; try discriminate Hy;
  cbn in Hx, Hy; injection Hx as <-; injection Hy as <-.

Lemma arith_fq_add x y r p q : fq x = Some p -> fq y = Some q -> arith Add x y = Ok r -> fq r = Some (p + q)%Qc.
Proof. intros Hx Hy H. fq_cases x y Hx Hy; cbn in H; injection H as <-; cbn; unfold xz; rewrite ?qz_plus; reflexivity. Qed.

Lemma arith_fq_sub x y r p q : fq x = Some p -> fq y = Some q -> arith Sub x y = Ok r -> fq r = Some (p - q)%Qc.
Proof. intros Hx Hy H. fq_cases x y Hx Hy; cbn in H; injection H as <-; cbn; unfold xz; rewrite ?qz_minus; reflexivity. Qed.

Lemma arith_fq_mul x y r p q : fq x = Some p -> fq y = Some q -> arith Mul x y = Ok r -> fq r = Some (p * q)%Qc.
Proof. intros Hx Hy H. fq_cases x y Hx Hy; cbn in H; injection H as <-; cbn; unfold xz; rewrite ?qz_mult; reflexivity. Qed.

Lemma arith_fq_div x y r p q : fq x = Some p -> fq y = Some q -> arith Div x y = Ok r -> q <> 0%Qc /\ fq r = Some (p / q)%Qc.
Proof.
  intros Hx Hy H. unfold arith in H.
  assert (Nx : exists n, as_num x = Some n /\ num_x n = XFin p).
  { destruct x as [?z|[|?u| |]|?b| | | | |]; try discriminate; cbn in Hx; injection Hx as <-; eexists; split; reflexivity. }
  assert (Ny : exists n, as_num y = Some n /\ num_x n = XFin q).
  { destruct y as [?z|[|?u| |]|?b| | | | |]; try discriminate; cbn in Hy; injection Hy as <-; eexists; split; reflexivity. }
  destruct Nx as (nx & Ex & Xx). destruct Ny as (ny & Ey & Xy). rewrite Ex, Ey, Xx, Xy in H.
  cbn [xq_div] in H. destruct (Qceqb q 0) eqn:E0; [discriminate|]. injection H as <-.
  split; [intro E; apply Qceqb_iff in E; congruence | reflexivity].
Qed.

Lemma neg_fq x r p : fq x = Some p -> neg x = Ok r -> fq r = Some (- p)%Qc.
Proof.
  intros Hx H. destruct x as [?z|[|?u| |]|?b| | | | |]; try discriminate; cbn in Hx; injection Hx as <-; cbn in H; injection H as <-; cbn;
    rewrite ?qz_opp; reflexivity.
Qed.

(* ---------------------------------------------------------------- *)
(* abstract operations                                                 *)

Definition iop (op : binop) (i j : itv) : option itv :=
  match op with
  | Add => Some (iadd i j) | Sub => Some (isub i j) | Mul => Some (imul i j) | Div => Some (idiv i j)
  | _ => None
  end.

Definition abin (op : binop) (a b : aval) : aval :=
  match a, b with
  | APar v, APar w => match arith op v w with Ok r => APar r | Err _ => ATop end
  | _, _ =>
      match itv_of a, itv_of b with
      | Some i, Some j => match iop op i j with Some k => AItv k | None => ATop end
      | _, _ => ATop
      end
  end.

Lemma abin_sound op a b x y r : arel a x -> arel b y -> arith op x y = Ok r -> arel (abin op a b) r.
Proof.
  intros Ha Hb H.
  assert (Gen : arel (match itv_of a, itv_of b with
                      | Some i, Some j => match iop op i j with Some k => AItv k | None => ATop end
                      | _, _ => ATop end) r).
  { destruct (itv_of a) as [i|] eqn:Ei; [|exact I]. destruct (itv_of b) as [j|] eqn:Ej; [|exact I].
    destruct (itv_of_sound a i x Ei Ha) as (p & Ep & Hp). destruct (itv_of_sound b j y Ej Hb) as (q & Eq & Hq).
    destruct op; cbn [iop]; try exact I.
    - exists (p + q)%Qc. split; [apply (arith_fq_add x y r p q Ep Eq H) | apply iadd_ok; assumption].
    - exists (p - q)%Qc. split; [apply (arith_fq_sub x y r p q Ep Eq H) | apply isub_ok; assumption].
    - exists (p * q)%Qc. split; [apply (arith_fq_mul x y r p q Ep Eq H) | apply imul_ok; assumption].
    - destruct (arith_fq_div x y r p q Ep Eq H) as [Hn Er]. exists (p / q)%Qc. split; [exact Er | apply idiv_ok; assumption]. }
  destruct a as [|i|v|l| |?]; try exact Gen. destruct b as [|j|w|l| |?]; try exact Gen.
  cbn in Ha, Hb. subst. cbn [abin]. rewrite H. exact eq_refl.
Qed.

Definition aneg (a : aval) : aval :=
  match a with
  | APar v => match neg v with Ok r => APar r | Err _ => ATop end
  | _ => match itv_of a with Some i => AItv (ineg i) | None => ATop end
  end.

Lemma aneg_sound a x r : arel a x -> neg x = Ok r -> arel (aneg a) r.
Proof.
  intros Ha H.
  assert (Gen : arel (match itv_of a with Some i => AItv (ineg i) | None => ATop end) r).
  { destruct (itv_of a) as [i|] eqn:Ei; [|exact I].
    destruct (itv_of_sound a i x Ei Ha) as (p & Ep & Hp).
    exists (- p)%Qc. split; [apply (neg_fq x r p Ep H) | apply ineg_ok; exact Hp]. }
  destruct a as [|i|v|l| |?]; try exact Gen.
  cbn in Ha. subst. cbn [aneg]. rewrite H. exact eq_refl.
Qed.

Definition vals_of (v : val) : list val :=
  match v with VDict l => map snd l | VList l => l | _ => [] end.

Fixpoint subs_ok (cs : list val) (k : val) : list val :=
  match cs with
  | [] => []
  | c :: r => match subscript c k with Ok v => v :: subs_ok r k | Err _ => subs_ok r k end
  end.

Lemma subs_ok_in cs k : forall c v, In c cs -> subscript c k = Ok v -> In v (subs_ok cs k).
Proof.
  induction cs as [|x r IH]; intros c v Hin H; [contradiction|]. cbn.
  destruct Hin as [<-|Hin]; [rewrite H; left; reflexivity|].
  destruct (subscript x k); [right|]; apply (IH c v Hin H).
Qed.

(* values reachable with a NUMERIC key inside the interval i: int-keyed entries of a dict whose
   key lies in i; every element of a list *)
Definition vals_num (i : itv) (v : val) : list val :=
  match v with
  | VDict l => map snd (filter (fun kv => match fst kv with KInt z => inb_b i (qz z) | _ => false end) l)
  | VList l => l
  | _ => []
  end.

Lemma dict_get_in k l v : dict_get k l = Some v -> In v (map snd l).
Proof.
  induction l as [|[k' w] r IH]; cbn; [discriminate|].
  destruct (pkey_eqb k k'); [intro H; injection H as <-; left; reflexivity | intro H; right; apply IH; exact H].
Qed.

Lemma dict_get_in_pair k l v : dict_get k l = Some v -> In (k, v) l.
Proof.
  induction l as [|[k' w] r IH]; cbn; [discriminate|].
  destruct (pkey_eqb k k') eqn:E; [apply pkey_eqb_eq in E; subst; intro H; injection H as <-; left; reflexivity | intro H; right; apply IH; exact H].
Qed.

Lemma list_index_in (l : list val) i v : list_index l i = Ok v -> In v l.
Proof.
  unfold list_index. destruct (_ <? 0)%Z; [discriminate|].
  destruct (nth_error l _) eqn:E; cbn; [|discriminate]. intro H. injection H as <-. apply (nth_error_In _ _ E).
Qed.

Lemma subscript_in c k v : subscript c k = Ok v -> In v (vals_of c).
Proof.
  destruct c; try discriminate; cbn.
  - destruct k; try discriminate; apply list_index_in.
  - destruct (as_key k); [|discriminate]. destruct (dict_get p l) eqn:E; cbn; [|discriminate].
    intro H. injection H as <-. apply (dict_get_in _ _ _ E).
Qed.

Lemma as_key_num y q k : fq y = Some q -> as_key y = Some k -> exists z, k = KInt z /\ qz z = q.
Proof.
  destruct y as [z|[|u| |]|b| | | | |]; cbn; try discriminate; intros Hq Hk; injection Hq as <-.
  - injection Hk as <-. eexists; split; reflexivity.
  - destruct (Qceqb u (qz (qfloor u))) eqn:E; [|discriminate]. injection Hk as <-. apply Qceqb_iff in E.
    eexists; split; [reflexivity | symmetry; exact E].
  - injection Hk as <-. eexists; split; reflexivity.
Qed.

Lemma subscript_in_num c y q i v : fq y = Some q -> inb i q -> subscript c y = Ok v -> In v (vals_num i c).
Proof.
  intros Hq Hi. destruct c; try discriminate; cbn.
  - destruct y; try discriminate; apply list_index_in.
  - destruct (as_key y) as [k|] eqn:Ek; [|discriminate]. destruct (dict_get k l) as [w|] eqn:E; cbn; [|discriminate].
    intro H. injection H as ->. destruct (as_key_num y q k Hq Ek) as (z & -> & Hz).
    apply in_map_iff. exists (KInt z, v). split; [reflexivity|]. apply filter_In. split; [apply (dict_get_in_pair _ _ _ E)|].
    cbn. rewrite Hz. apply inb_b_complete. exact Hi.
Qed.

Definition asub (c k : aval) : aval :=
  match c, k with
  | APar cv, APar kv => match subscript cv kv with Ok r => APar r | Err _ => ATop end
  | AOne cs, APar kv => AOne (subs_ok cs kv)
  | _, _ =>
      match cands c with
      | Some cs => match itv_of k with
                   | Some i => AOne (flat_map (vals_num i) cs)
                   | None => AOne (flat_map vals_of cs) end
      | None => ATop
      end
  end.

Lemma asub_sound c k x y r : arel c x -> arel k y -> subscript x y = Ok r -> arel (asub c k) r.
Proof.
  intros Hc Hk H.
  assert (Gen : arel (match cands c with
      | Some cs => match itv_of k with
                   | Some i => AOne (flat_map (vals_num i) cs)
                   | None => AOne (flat_map vals_of cs) end
      | None => ATop end) r).
  { destruct (cands c) as [cs|] eqn:Ec; [|exact I]. pose proof (cands_sound c cs x Ec Hc) as Hin.
    destruct (itv_of k) as [i|] eqn:Ei.
    - destruct (itv_of_sound k i y Ei Hk) as (q & Eq & Hq). cbn. apply in_flat_map. exists x. split; [exact Hin|].
      apply (subscript_in_num x y q i r Eq Hq H).
    - cbn. apply in_flat_map. exists x. split; [exact Hin | apply (subscript_in _ _ _ H)]. }
  destruct c as [|?|cv|cs| |?]; try exact Gen.
  - destruct k as [|?|kv|?| |?]; try exact Gen. cbn in Hc, Hk. subst. unfold asub. rewrite H. exact eq_refl.
  - destruct k as [|?|kv|?| |?]; try exact Gen. cbn in Hc, Hk. subst y. cbn. apply (subs_ok_in cs kv x r Hc H).
Qed.

(* membership test, as in Eval.eval *)
Definition py_in (ng : bool) (x c : val) : res val :=
  match c with
  | VDict l =>
      let r := match as_key x with
               | Some k => match dict_get k l with Some _ => true | None => false end
               | None => false end in
      Ok (VBool (xorb ng r))
  | VList l =>
      let r := existsb (fun y => match compare Eq x y with
                                 | Ok (VBool true) => true | _ => false end) l in
      Ok (VBool (xorb ng r))
  | _ => Err EType
  end.

Lemma py_in_bool ng x c r : py_in ng x c = Ok r -> exists b, r = VBool b.
Proof. unfold py_in. destruct c; try discriminate; intro H; injection H as <-; eexists; reflexivity. Qed.

Lemma compare_bool op x y r : compare op x y = Ok r -> exists b, r = VBool b.
Proof.
  unfold compare. destruct (as_num x), (as_num y); try (intro H; injection H as <-; eexists; reflexivity);
    destruct x, y; try discriminate; try (intro H; injection H as <-; eexists; reflexivity);
    destruct op; try discriminate; intro H; injection H as <-; eexists; reflexivity.
Qed.

Lemma abool_rel b : arel ABool (VBool b).
Proof. exists (qz (if b then 1 else 0)). split; [reflexivity|]. destruct b; split; cbn; apply Qcleb_iff; reflexivity. Qed.

Lemma ann_of_nat n : arel ANN (VInt (Z.of_nat n)).
Proof. exists (qz (Z.of_nat n)). split; [reflexivity|]. split; [cbn; apply qz_nonneg; lia | exact I]. Qed.

(* max / min return one of their arguments *)
Lemma fold_best_in better : forall l best v, fold_best better best l = Ok v -> In v (best :: l).
Proof.
  induction l as [|x r IH]; intros best v H; cbn in H.
  - injection H as <-. left. reflexivity.
  - destruct (better x best) as [b|]; cbn in H; [|discriminate].
    apply IH in H. destruct H as [H|H]; [|right; right; exact H].
    destruct b; [right; left; exact H | left; exact H].
Qed.

Lemma py_max_in l v : py_max l = Ok v -> In v l.
Proof. destruct l; cbn; [discriminate|]. apply fold_best_in. Qed.
Lemma py_min_in l v : py_min l = Ok v -> In v l.
Proof. destruct l; cbn; [discriminate|]. apply fold_best_in. Qed.

(* hull of the interval views of a list of abstract values *)
Fixpoint pick_hull (l : list aval) : option itv :=
  match l with
  | [] => None
  | [a] => itv_of a
  | a :: r => match itv_of a, pick_hull r with Some i, Some j => Some (ihull i j) | _, _ => None end
  end.

Lemma pick_hull_in l : forall vs v k, Forall2 arel l vs -> In v vs -> pick_hull l = Some k -> exists q, fq v = Some q /\ inb k q.
Proof.
  induction l as [|a r IH]; intros vs v k F Hin H; [discriminate|].
  inversion F as [|? x ? vr Hax Fr]; subst.
  destruct r as [|b r'].
  - inversion Fr; subst. destruct Hin as [<-|[]]. apply (itv_of_sound a k x H Hax).
  - change (pick_hull (a :: b :: r')) with (match itv_of a, pick_hull (b :: r') with Some i, Some j => Some (ihull i j) | _, _ => None end) in H.
    destruct (itv_of a) as [i|] eqn:Ei; [|discriminate]. destruct (pick_hull (b :: r')) as [j|] eqn:Ej; [|discriminate].
    injection H as <-. destruct Hin as [<-|Hin].
    + destruct (itv_of_sound a i x Ei Hax) as (q & Eq & Hq). exists q. split; [exact Eq | apply ihull_l; exact Hq].
    + destruct (IH vr v j Fr Hin eq_refl) as (q & Eq & Hq). exists q. split; [exact Eq | apply ihull_r; exact Hq].
Qed.

Definition of_oitv (o : option itv) : aval := match o with Some i => AItv i | None => ATop end.

Definition amax (l : list aval) : aval :=
  match l with
  | [x; y] => match itv_of x, itv_of y with Some i, Some j => AItv (imax i j) | _, _ => ATop end
  | _ :: _ :: _ :: _ => of_oitv (pick_hull l)
  | _ => ATop
  end.

Definition amin (l : list aval) : aval :=
  match l with
  | [x; y] => match itv_of x, itv_of y with Some i, Some j => AItv (imin i j) | _, _ => ATop end
  | _ :: _ :: _ :: _ => of_oitv (pick_hull l)
  | _ => ATop
  end.

Lemma max2_fq x y r p q : fq x = Some p -> fq y = Some q -> apply_builtin BMax [x; y] = Ok r -> fq r = Some (qmax p q).
Proof.
  intros Ex Ey H. cbn [apply_builtin py_max fold_best] in H. rewrite (lt_val_fin x y p q Ex Ey) in H. cbn [bind] in H.
  unfold qmax. destruct (Qcltb p q) eqn:E; injection H as <-.
  - apply Qcltb_iff in E. destruct (Qcleb p q) eqn:E2; [exact Ey|]. apply Qcleb_false_iff in E2. exfalso. qlra.
  - apply Qcltb_false_iff in E. destruct (Qcleb p q) eqn:E2; [|exact Ex].
    apply Qcleb_iff in E2. assert (p = q) by (apply Qcle_antisym; assumption). subst. exact Ex.
Qed.

Lemma min2_fq x y r p q : fq x = Some p -> fq y = Some q -> apply_builtin BMin [x; y] = Ok r -> fq r = Some (qmin p q).
Proof.
  intros Ex Ey H. cbn [apply_builtin py_min fold_best] in H. rewrite (lt_val_fin y x q p Ey Ex) in H. cbn [bind] in H.
  unfold qmin. destruct (Qcltb q p) eqn:E; injection H as <-.
  - apply Qcltb_iff in E. destruct (Qcleb p q) eqn:E2; [|exact Ey]. apply Qcleb_iff in E2. exfalso. qlra.
  - apply Qcltb_false_iff in E. destruct (Qcleb p q) eqn:E2; [exact Ex|].
    apply Qcleb_false_iff in E2. exfalso. qlra.
Qed.

Lemma amax_sound l vs r : Forall2 arel l vs -> apply_builtin BMax vs = Ok r -> arel (amax l) r.
Proof.
  intros F H. destruct F as [|a x l1 vs1 Hax F1]; [exact I|].
  destruct F1 as [|b y l2 vs2 Hby F2]; [exact I|].
  destruct F2 as [|c z l3 vs3 Hcz F3].
  - cbn [amax]. destruct (itv_of a) as [i|] eqn:Ei; [|exact I]. destruct (itv_of b) as [j|] eqn:Ej; [|exact I].
    destruct (itv_of_sound a i x Ei Hax) as (p & Ep & Hp). destruct (itv_of_sound b j y Ej Hby) as (q & Eq & Hq).
    exists (qmax p q). split; [apply (max2_fq x y r p q Ep Eq H) | apply imax_ok; assumption].
  - change (amax (a :: b :: c :: l3)) with (of_oitv (pick_hull (a :: b :: c :: l3))).
    change (apply_builtin BMax (x :: y :: z :: vs3)) with (py_max (x :: y :: z :: vs3)) in H.
    destruct (pick_hull (a :: b :: c :: l3)) as [k|] eqn:Ek; [|exact I].
    apply (pick_hull_in (a :: b :: c :: l3) (x :: y :: z :: vs3) r k); [repeat constructor; assumption | apply py_max_in; exact H | exact Ek].
Qed.

Lemma amin_sound l vs r : Forall2 arel l vs -> apply_builtin BMin vs = Ok r -> arel (amin l) r.
Proof.
  intros F H. destruct F as [|a x l1 vs1 Hax F1]; [exact I|].
  destruct F1 as [|b y l2 vs2 Hby F2]; [exact I|].
  destruct F2 as [|c z l3 vs3 Hcz F3].
  - cbn [amin]. destruct (itv_of a) as [i|] eqn:Ei; [|exact I]. destruct (itv_of b) as [j|] eqn:Ej; [|exact I].
    destruct (itv_of_sound a i x Ei Hax) as (p & Ep & Hp). destruct (itv_of_sound b j y Ej Hby) as (q & Eq & Hq).
    exists (qmin p q). split; [apply (min2_fq x y r p q Ep Eq H) | apply imin_ok; assumption].
  - change (amin (a :: b :: c :: l3)) with (of_oitv (pick_hull (a :: b :: c :: l3))).
    change (apply_builtin BMin (x :: y :: z :: vs3)) with (py_min (x :: y :: z :: vs3)) in H.
    destruct (pick_hull (a :: b :: c :: l3)) as [k|] eqn:Ek; [|exact I].
    apply (pick_hull_in (a :: b :: c :: l3) (x :: y :: z :: vs3) r k); [repeat constructor; assumption | apply py_min_in; exact H | exact Ek].
Qed.

(* piecewise_polynomial with concrete schedule parameters *)
Definition apw (x : aval) (t r i : val) : aval :=
  match mk_sched t r i with
  | Ok s =>
      match to_pieces s with
      | Some (c0, ps) =>
          if pieces_sorted ps && a_fin x
          then if nn_chk None c0 ps || (a_nn x && nn_chk (Some 0%Qc) c0 ps) then ANN else AFin
          else ATop
      | None => ATop
      end
  | Err _ => ATop
  end.

Lemma as_xq_fq v : finv v -> exists q, fq v = Some q /\ as_xq v = Ok (XFin q).
Proof. destruct v as [z|[|q| |]|b| | | | |]; try contradiction; intros _; eexists; split; reflexivity. Qed.

Lemma apw_sound x t r i vx v : arel x vx -> apply_builtin BPiecewise [vx; t; r; i] = Ok v -> arel (apw x t r i) v.
Proof.
  intros Hx H. unfold apw. cbn [apply_builtin] in H.
  destruct (mk_sched t r i) as [s|]; cbn [bind] in H; [|exact I].
  destruct (to_pieces s) as [[c0 ps]|] eqn:Et; [|exact I].
  destruct (pieces_sorted ps && a_fin x) eqn:E; [|exact I].
  apply andb_true_iff in E. destruct E as [Es Ef].
  pose proof (a_fin_sound x vx Ef Hx) as Fx. destruct (as_xq_fq vx Fx) as (q & Eq & Ex).
  rewrite Ex in H. cbn [bind] in H. rewrite (pp_impl_eq_spec s c0 ps Et Es q) in H. cbn in H. injection H as <-.
  destruct (nn_chk None c0 ps || (a_nn x && nn_chk (Some 0%Qc) c0 ps)) eqn:En.
  - exists (ev0 c0 ps q). split; [reflexivity|]. split; [|exact I]. cbn.
    apply orb_true_iff in En. destruct En as [En|En].
    + apply (nn_chk_sound None c0 ps En q I).
    + apply andb_true_iff in En. destruct En as [Enn En].
      apply (nn_chk_sound (Some 0%Qc) c0 ps En q). cbn.
      destruct (fnn_fq vx (a_nn_sound x vx Enn Hx)) as (q' & Eq' & Hq'). rewrite Eq in Eq'. injection Eq' as <-. exact Hq'.
  - exists (ev0 c0 ps q). split; [reflexivity | apply inb_top].
Qed.

Definition apw_c (x t r i : aval) : aval :=
  match cands t, cands r, cands i with
  | Some ts, Some rs, Some is => join_all (flat_map (fun tv => flat_map (fun rv => map (fun iv => apw x tv rv iv) is) rs) ts)
  | _, _, _ => ATop
  end.

Lemma apw_c_sound x t r i vx tv rv iv v :
  arel x vx -> arel t tv -> arel r rv -> arel i iv -> apply_builtin BPiecewise [vx; tv; rv; iv] = Ok v -> arel (apw_c x t r i) v.
Proof.
  intros Hx Ht Hr Hi H. unfold apw_c.
  destruct (cands t) as [ts|] eqn:Et; [|exact I]. destruct (cands r) as [rs|] eqn:Er; [|exact I].
  destruct (cands i) as [is|] eqn:Ei; [|exact I].
  apply (join_all_in _ (apw x tv rv iv) v); [|apply (apw_sound x tv rv iv vx v Hx H)].
  apply in_flat_map. exists tv. split; [apply (cands_sound t ts tv Et Ht)|].
  apply in_flat_map. exists rv. split; [apply (cands_sound r rs rv Er Hr)|].
  apply in_map. apply (cands_sound i is iv Ei Hi).
Qed.

Definition afloat (x : aval) : aval := of_oitv (itv_of x).
Definition aint (x : aval) : aval :=
  match itv_of x with
  | Some i => if nonneg i then AItv {| lo := Some 0%Qc; hi := hi i |} else AFin
  | None => ATop
  end.
Definition aabs (x : aval) : aval :=
  match itv_of x with
  | Some i => if nonneg i then AItv i else ANN
  | None => ATop
  end.

Definition abuiltin_np (b : builtin) (l : list aval) : aval :=
  match b with
  | BMax => amax l
  | BMin => amin l
  | BFloat => match l with [x] => afloat x | _ => ATop end
  | BInt => match l with [x] => aint x | _ => ATop end
  | BAbs => match l with [x] => aabs x | _ => ATop end
  | BLen | BSearchRight | BSearchLeft => ANN
  | BAny | BAll | BIsInt | BLogAnd | BLogOr | BLogNot => ABool
  | BWhere => match l with [_; x; y] => join x y | _ => ATop end
  | BGet => match l with [APar (VDict d); _; dflt] => join (AOne (map snd d)) dflt | _ => ATop end
  | BPiecewise => match l with [x; t; r; i] => apw_c x t r i | _ => ATop end
  | BSum => match l with
            | [AListOf b] => match itv_of b with Some i => if nonneg i then ANN else AFin | None => ATop end
            | _ => ATop end
  | BRange => match l with
              | [x; y] => match itv_of x, itv_of y with
                          | Some i, Some j => AListOf (AItv {| lo := lo i; hi := omap (fun h => (h - 1)%Qc) (hi j) |})
                          | _, _ => ATop end
              | [y] => match itv_of y with
                       | Some j => AListOf (AItv {| lo := Some 0%Qc; hi := omap (fun h => (h - 1)%Qc) (hi j) |})
                       | None => ATop end
              | _ => ATop end
  | _ => ATop
  end.

Definition abuiltin (b : builtin) (l : list aval) : aval :=
  match all_par l with
  | Some vs => match apply_builtin b vs with Ok r => APar r | Err _ => ATop end
  | None => abuiltin_np b l
  end.

Lemma py_float_fq x r q : fq x = Some q -> py_float x = Ok r -> fq r = Some q.
Proof. intros E H. destruct x as [?z|[|?u| |]|?b| | | | |]; try discriminate; cbn in E; injection E as <-; cbn in H; injection H as <-; reflexivity. Qed.

Lemma qtrunc_nonneg q : (0 <= q)%Qc -> (0 <= qtrunc q)%Z /\ (qz (qtrunc q) <= q)%Qc.
Proof.
  intro H. unfold qtrunc. destruct (Qcltb q 0) eqn:E; [apply Qcltb_iff in E; exfalso; qlra|].
  pose proof (qfloor_lt q) as H1. pose proof (qfloor_le q) as H3.
  assert (H2 : (qz 0 < qz (qfloor q + 1))%Qc) by (replace (qz 0) with 0%Qc by (apply Qc_is_canon; reflexivity); qlra).
  apply qz_lt in H2. split; [lia | exact H3].
Qed.

Lemma aint_sound a x r : arel a x -> py_int x = Ok r -> arel (aint a) r.
Proof.
  intros Ha H. unfold aint. destruct (itv_of a) as [i|] eqn:Ei; [|exact I].
  destruct (itv_of_sound a i x Ei Ha) as (q & Eq & Hq).
  assert (Fin : exists z, r = VInt z /\ (0 <= q -> (0 <= z)%Z /\ qz z <= q)%Qc).
  { unfold py_int in H. destruct x as [?z|[|?u| |]|?b| | | | |]; try discriminate; cbn in Eq; injection Eq as <-; cbn in H; injection H as <-.
    - exists z. split; [reflexivity|]. intro Hz. split; [apply qz_le; replace (qz 0) with 0%Qc by (apply Qc_is_canon; reflexivity); exact Hz | qlra].
    - exists (qtrunc u). split; [reflexivity | apply qtrunc_nonneg].
    - exists (if b then 1 else 0)%Z. split; [reflexivity|]. intros _. split; [destruct b; lia | qlra]. }
  destruct Fin as (z & -> & Hz).
  destruct (nonneg i) eqn:En.
  - pose proof (nonneg_ok i q En Hq) as Hq0. destruct (Hz Hq0) as [Hz0 Hzq].
    exists (qz z). split; [reflexivity|]. split; cbn.
    + apply qz_nonneg. exact Hz0.
    + destruct Hq as [_ Hh]. unfold oge in *. destruct (hi i); [qlra | exact I].
  - exists (qz z). split; [reflexivity | apply inb_top].
Qed.

Lemma abs_cls x r : finv x -> apply_builtin BAbs [x] = Ok r -> fnn r.
Proof.
  intros F H. destruct x as [z|[|q| |]|bb| | | | |]; cbn in *; try contradiction; injection H as <-; cbn.
  - lia.
  - unfold xz. destruct (Qcltb q (qz 0)) eqn:E; cbn.
    + apply Qcltb_iff in E. replace (qz 0) with 0%Qc in E by (apply Qc_is_canon; reflexivity). qlra.
    + apply Qcltb_false_iff in E. replace (qz 0) with 0%Qc in E by (apply Qc_is_canon; reflexivity). exact E.
  - destruct bb; cbn; lia.
Qed.

Lemma aabs_sound a x r : arel a x -> apply_builtin BAbs [x] = Ok r -> arel (aabs a) r.
Proof.
  intros Ha H. unfold aabs. destruct (itv_of a) as [i|] eqn:Ei; [|exact I].
  destruct (itv_of_sound a i x Ei Ha) as (q & Eq & Hq).
  destruct (nonneg i) eqn:En.
  - pose proof (nonneg_ok i q En Hq) as Hq0. exists q. split; [|exact Hq].
    destruct x as [?z|[|?u| |]|?b| | | | |]; try discriminate; cbn in Eq; injection Eq as <-; cbn in H; injection H as <-; cbn.
    + f_equal. f_equal. apply Z.abs_eq. apply qz_le. replace (qz 0) with 0%Qc by (apply Qc_is_canon; reflexivity). exact Hq0.
    + unfold xz. destruct (Qcltb u (qz 0)) eqn:E; [|reflexivity]. apply Qcltb_iff in E.
      replace (qz 0) with 0%Qc in E by (apply Qc_is_canon; reflexivity). exfalso. qlra.
    + destruct b; reflexivity.
  - pose proof (abs_cls x r (fq_finv x q Eq) H) as F. destruct (fnn_fq r F) as (q' & Eq' & Hq').
    exists q'. split; [exact Eq' | split; [exact Hq' | exact I]].
Qed.

Lemma py_sum_fin : forall l acc r, Forall finv l -> finv acc -> py_sum acc l = Ok r -> finv r.
Proof.
  induction l as [|x xs IH]; intros acc r F Ha H; cbn in H.
  - injection H as <-. exact Ha.
  - inversion F as [|? ? Fx Fr]; subst. destruct (arith Add acc x) as [a|] eqn:E; cbn in H; [|discriminate].
    apply (IH a r Fr); [|exact H]. apply (arith_fin Add acc x a); auto.
Qed.

Lemma py_sum_nn : forall l acc r, Forall fnn l -> fnn acc -> py_sum acc l = Ok r -> fnn r.
Proof.
  induction l as [|x xs IH]; intros acc r F Ha H; cbn in H.
  - injection H as <-. exact Ha.
  - inversion F as [|? ? Fx Fr]; subst. destruct (arith Add acc x) as [a|] eqn:E; cbn in H; [|discriminate].
    apply (IH a r Fr); [|exact H]. apply (arith_add_fnn acc x a Ha Fx E).
Qed.

Lemma asum_sound b i l r : itv_of b = Some i -> Forall (arel b) l -> py_sum (VInt 0) l = Ok r ->
  arel (if nonneg i then ANN else AFin) r.
Proof.
  intros Ei F H. destruct (nonneg i) eqn:En.
  - assert (Fn : Forall fnn l).
    { eapply Forall_impl; [|exact F]. intros v Hv. apply (a_nn_sound b v); [unfold a_nn; rewrite Ei; exact En | exact Hv]. }
    pose proof (py_sum_nn l (VInt 0) r Fn (Z.le_refl 0) H) as Fr.
    destruct (fnn_fq r Fr) as (q & Eq & Hq). exists q. split; [exact Eq | split; [exact Hq | exact I]].
  - assert (Ff : Forall finv l).
    { eapply Forall_impl; [|exact F]. intros v Hv. apply (a_fin_sound b v); [unfold a_fin; rewrite Ei; reflexivity | exact Hv]. }
    pose proof (py_sum_fin l (VInt 0) r Ff I H) as Fr.
    destruct (fq_finv_ex r Fr) as (q & Eq). exists q. split; [exact Eq | apply inb_top].
Qed.

Lemma zrange_bounds a b z : In z (zrange a b) -> (a <= z < b)%Z.
Proof.
  unfold zrange. intro H. apply in_map_iff in H. destruct H as (k & <- & Hk). apply in_seq in Hk. lia.
Qed.

Lemma arange_sound lo1 hi2 a b :
  ole lo1 (qz a) -> oge hi2 (qz b) ->
  Forall (arel (AItv {| lo := lo1; hi := omap (fun h => (h - 1)%Qc) hi2 |})) (map VInt (zrange a b)).
Proof.
  intros Ha Hb. apply Forall_forall. intros v Hv. apply in_map_iff in Hv. destruct Hv as (z & <- & Hz).
  apply zrange_bounds in Hz. exists (qz z). split; [reflexivity|]. split; cbn.
  - unfold ole in *. destruct lo1 as [l|]; [|exact I]. pose proof (proj1 (qz_le a z) (proj1 Hz)). qlra.
  - unfold oge in *. destruct hi2 as [h|]; [|exact I]. cbn.
    assert (Hz1 : (z <= b - 1)%Z) by lia. pose proof (proj1 (qz_le z (b - 1)) Hz1) as H1. rewrite qz_minus in H1.
    replace (qz 1) with 1%Qc in H1 by (apply Qc_is_canon; reflexivity). qlra.
Qed.

Lemma abuiltin_np_sound b l vs r : Forall2 arel l vs -> apply_builtin b vs = Ok r -> arel (abuiltin_np b l) r.
Proof.
  intros F H. destruct b; cbn [abuiltin_np]; try exact I.
  - apply (amin_sound l vs r F H).
  - apply (amax_sound l vs r F H).
  - (* BSum *)
    destruct F as [|a x l1 vs1 Hax F1]; [exact I|]. destruct F1; [|destruct a; exact I].
    destruct a as [|?|?|?| |b0]; try exact I. destruct (itv_of b0) as [i|] eqn:Ei; [|exact I].
    cbn in Hax. destruct Hax as (lv & -> & Fl). cbn in H. apply (asum_sound b0 i lv r Ei Fl H).
  - (* BAny *) destruct vs as [|v [|? ?]]; try discriminate. cbn in H. destruct (as_list v); cbn in H; [|discriminate]. injection H as <-. apply abool_rel.
  - (* BAll *) destruct vs as [|v [|? ?]]; try discriminate. cbn in H. destruct (as_list v); cbn in H; [|discriminate]. injection H as <-. apply abool_rel.
  - (* BFloat *) destruct F as [|a x l1 vs1 Hax F1]; [exact I|]. destruct F1; [|exact I].
    unfold afloat. destruct (itv_of a) as [i|] eqn:Ei; [|exact I]. destruct (itv_of_sound a i x Ei Hax) as (q & Eq & Hq).
    exists q. split; [apply (py_float_fq x r q Eq H) | exact Hq].
  - (* BInt *) destruct F as [|a x l1 vs1 Hax F1]; [exact I|]. destruct F1; [|exact I]. apply (aint_sound a x r Hax H).
  - (* BLen *) destruct vs as [|v [|? ?]]; try discriminate. cbn in H. destruct v; try discriminate; injection H as <-; apply ann_of_nat.
  - (* BRange *)
    destruct F as [|a x l1 vs1 Hax F1]; [exact I|]. destruct F1 as [|b y l2 vs2 Hby F2].
    + destruct (itv_of a) as [j|] eqn:Ej; [|exact I]. destruct (itv_of_sound a j x Ej Hax) as (q & Eq & Hq).
      destruct x as [zb| | | | | | |]; try discriminate. cbn in H. injection H as <-. cbn in Eq. injection Eq as <-.
      cbn [arel]. exists (map VInt (zrange 0 zb)). split; [reflexivity|].
      apply (arange_sound (Some 0%Qc) (hi j) 0 zb); [cbn; replace (qz 0) with 0%Qc by (apply Qc_is_canon; reflexivity); qlra | exact (proj2 Hq)].
    + destruct F2; [|exact I].
      destruct (itv_of a) as [i|] eqn:Ei; [|exact I]. destruct (itv_of b) as [j|] eqn:Ej; [|exact I].
      destruct (itv_of_sound a i x Ei Hax) as (p & Ep & Hp). destruct (itv_of_sound b j y Ej Hby) as (q & Eq & Hq).
      destruct x as [za| | | | | | |]; try discriminate. destruct y as [zb| | | | | | |]; try discriminate.
      cbn in H. injection H as <-. cbn in Ep, Eq. injection Ep as <-. injection Eq as <-.
      cbn [arel]. exists (map VInt (zrange za zb)). split; [reflexivity|].
      apply (arange_sound (lo i) (hi j) za zb); [exact (proj1 Hp) | exact (proj2 Hq)].
  - (* BIsInt *) destruct vs as [|v [|? ?]]; try discriminate. cbn in H. injection H as <-. apply abool_rel.
  - (* BSearchRight *) destruct vs as [|v [|w [|? ?]]]; try discriminate. cbn in H.
    destruct (as_xq_row v); cbn in H; [|discriminate]. destruct (as_xq w); cbn in H; [|discriminate]. injection H as <-. apply ann_of_nat.
  - (* BSearchLeft *) destruct vs as [|v [|w [|? ?]]]; try discriminate. cbn in H.
    destruct (as_xq_row v); cbn in H; [|discriminate]. destruct (as_xq w); cbn in H; [|discriminate]. injection H as <-. apply ann_of_nat.
  - (* BGet *)
    destruct F as [|a x l1 vs1 Hax F1]; [exact I|]. destruct F1 as [|b y l2 vs2 Hby F2]; [destruct a as [|?|[]|?| |?]; exact I|].
    destruct F2 as [|c z l3 vs3 Hcz F3]; [destruct a as [|?|[]|?| |?]; exact I|].
    destruct F3; [|destruct a as [|?|[]|?| |?]; exact I].
    destruct a as [|?|av|?| |?]; try exact I. destruct av; try exact I. cbn in Hax. subst x.
    cbn in H. destruct (as_key y) as [k|].
    + destruct (dict_get k l) eqn:E; injection H as <-; [apply join_l; cbn; apply (dict_get_in _ _ _ E) | apply join_r; exact Hcz].
    + injection H as <-. apply join_r; exact Hcz.
  - (* BPiecewise *)
    destruct F as [|a x l1 vs1 Hax F1]; [exact I|]. destruct F1 as [|b y l2 vs2 Hby F2]; [exact I|].
    destruct F2 as [|c z l3 vs3 Hcz F3]; [exact I|].
    destruct F3 as [|d w l4 vs4 Hdw F4]; [exact I|].
    destruct F4; [|exact I]. apply (apw_c_sound a b c d x y z w r Hax Hby Hcz Hdw H).
  - (* BAbs *)
    destruct F as [|a x l1 vs1 Hax F1]; [exact I|]. destruct F1; [|exact I]. apply (aabs_sound a x r Hax H).
  - (* BWhere *)
    destruct F as [|a x l1 vs1 Hax F1]; [exact I|]. destruct F1 as [|b y l2 vs2 Hby F2]; [exact I|].
    destruct F2 as [|c z l3 vs3 Hcz F3]; [exact I|]. destruct F3; [|exact I].
    cbn in H. injection H as <-. destruct (truthy x); [apply join_l; exact Hby | apply join_r; exact Hcz].
  - (* BLogAnd *) destruct vs as [|v [|w [|? ?]]]; try discriminate. cbn in H. injection H as <-. apply abool_rel.
  - (* BLogOr *) destruct vs as [|v [|w [|? ?]]]; try discriminate. cbn in H. injection H as <-. apply abool_rel.
  - (* BLogNot *) destruct vs as [|v [|? ?]]; try discriminate. cbn in H. injection H as <-. apply abool_rel.
Qed.

Lemma abuiltin_sound b l vs r : Forall2 arel l vs -> apply_builtin b vs = Ok r -> arel (abuiltin b l) r.
Proof.
  intros F H. unfold abuiltin. destruct (all_par l) as [ws|] eqn:E.
  - rewrite (all_par_sound l ws vs E F) in H. rewrite H. exact eq_refl.
  - apply (abuiltin_np_sound b l vs r F H).
Qed.

(* ---------------------------------------------------------------- *)
(* abstract evaluation                                                 *)

Definition aenv := list (string * aval).

Fixpoint alookup (x : string) (e : aenv) : option aval :=
  match e with
  | [] => None
  | (y, a) :: r => if String.eqb x y then Some a else alookup x r
  end.

Definition aget (x : string) (e : aenv) : aval :=
  match alookup x e with Some a => a | None => ABot end.

Definition env_rel (ae : aenv) (rho : env) : Prop :=
  forall x v, lookup x rho = Some v -> arel (aget x ae) v.

Definition abool (a : aval) (f : val -> aval) (dflt : aval) : aval :=
  match a with APar v => f v | _ => dflt end.

(* ---- comprehensions over a concrete iterable whose body and condition mention only the bound
   variable are evaluated concretely ---- *)
Fixpoint only_var (x : string) (e : expr) {struct e} : bool :=
  match e with
  | EInt _ | EFloat _ | EInf | EBool _ | EStr _ | ENone => true
  | EVar y => String.eqb y x
  | EBin _ a b | EAnd a b | EOr a b | ECmp _ a b | EIn _ a b | ESub a b => only_var x a && only_var x b
  | ENeg a | ENot a => only_var x a
  | EIfE c a b => only_var x c && only_var x a && only_var x b
  | ECall _ args | EBuiltin _ args | EListLit args => only_vars x args
  | EComp _ _ _ _ => false
  end
with only_vars (x : string) (es : exprs) {struct es} : bool :=
  match es with ENil => true | ECons e r => only_var x e && only_vars x r end.

Section OnlyVar.
  Variable call : string -> list val -> res val.
  Variable x : string.

  Lemma only_var_agree :
    (forall e, only_var x e = true -> forall r1 r2, lookup x r1 = lookup x r2 -> eval call r1 e = eval call r2 e) /\
    (forall es, only_vars x es = true -> forall r1 r2, lookup x r1 = lookup x r2 -> evals call r1 es = evals call r2 es).
  Proof.
    apply expr_exprs_ind; try (intros; reflexivity).
    - (* EVar *) intros y H r1 r2 Hl. cbn in H. apply String.eqb_eq in H. subst y. cbn. rewrite Hl. reflexivity.
    - (* EBin *) intros op a IHa b IHb H r1 r2 Hl. cbn [only_var] in H. apply andb_true_iff in H. destruct H as [Ha Hb].
      change (eval call ?r (EBin op a b)) with (do u <- eval call r a; do w <- eval call r b; arith op u w).
      rewrite (IHa Ha r1 r2 Hl), (IHb Hb r1 r2 Hl). reflexivity.
    - (* ENeg *) intros a IHa H r1 r2 Hl. cbn [only_var] in H.
      change (eval call ?r (ENeg a)) with (do u <- eval call r a; neg u). rewrite (IHa H r1 r2 Hl). reflexivity.
    - (* ENot *) intros a IHa H r1 r2 Hl. cbn [only_var] in H.
      change (eval call ?r (ENot a)) with (do u <- eval call r a; Ok (VBool (negb (truthy u)))). rewrite (IHa H r1 r2 Hl). reflexivity.
    - (* EAnd *) intros a IHa b IHb H r1 r2 Hl. cbn [only_var] in H. apply andb_true_iff in H. destruct H as [Ha Hb].
      change (eval call ?r (EAnd a b)) with (do u <- eval call r a; if truthy u then eval call r b else Ok u).
      rewrite (IHa Ha r1 r2 Hl), (IHb Hb r1 r2 Hl). reflexivity.
    - (* EOr *) intros a IHa b IHb H r1 r2 Hl. cbn [only_var] in H. apply andb_true_iff in H. destruct H as [Ha Hb].
      change (eval call ?r (EOr a b)) with (do u <- eval call r a; if truthy u then Ok u else eval call r b).
      rewrite (IHa Ha r1 r2 Hl), (IHb Hb r1 r2 Hl). reflexivity.
    - (* ECmp *) intros op a IHa b IHb H r1 r2 Hl. cbn [only_var] in H. apply andb_true_iff in H. destruct H as [Ha Hb].
      change (eval call ?r (ECmp op a b)) with (do u <- eval call r a; do w <- eval call r b; compare op u w).
      rewrite (IHa Ha r1 r2 Hl), (IHb Hb r1 r2 Hl). reflexivity.
    - (* EIn *) intros ng a IHa b IHb H r1 r2 Hl. cbn [only_var] in H. apply andb_true_iff in H. destruct H as [Ha Hb].
      change (eval call ?r (EIn ng a b)) with (do u <- eval call r a; do w <- eval call r b; py_in ng u w).
      rewrite (IHa Ha r1 r2 Hl), (IHb Hb r1 r2 Hl). reflexivity.
    - (* EIfE *) intros c IHc a IHa b IHb H r1 r2 Hl. cbn [only_var] in H. apply andb_true_iff in H. destruct H as [H Hb].
      apply andb_true_iff in H. destruct H as [Hc Ha].
      change (eval call ?r (EIfE c a b)) with (do u <- eval call r c; if truthy u then eval call r a else eval call r b).
      rewrite (IHc Hc r1 r2 Hl), (IHa Ha r1 r2 Hl), (IHb Hb r1 r2 Hl). reflexivity.
    - (* ESub *) intros a IHa b IHb H r1 r2 Hl. cbn [only_var] in H. apply andb_true_iff in H. destruct H as [Ha Hb].
      change (eval call ?r (ESub a b)) with (do u <- eval call r a; do w <- eval call r b; subscript u w).
      rewrite (IHa Ha r1 r2 Hl), (IHb Hb r1 r2 Hl). reflexivity.
    - (* ECall *) intros f args IH H r1 r2 Hl. cbn [only_var] in H.
      change (eval call ?r (ECall f args)) with (do vs <- evals call r args; call f vs). rewrite (IH H r1 r2 Hl). reflexivity.
    - (* EBuiltin *) intros b args IH H r1 r2 Hl. cbn [only_var] in H.
      change (eval call ?r (EBuiltin b args)) with (do vs <- evals call r args; apply_builtin b vs). rewrite (IH H r1 r2 Hl). reflexivity.
    - (* EListLit *) intros args IH H r1 r2 Hl. cbn [only_var] in H.
      change (eval call ?r (EListLit args)) with (do vs <- evals call r args; Ok (VList vs)). rewrite (IH H r1 r2 Hl). reflexivity.
    - (* EComp *) intros; discriminate.
    - (* ECons *) intros e IHe r IHr H r1 r2 Hl. cbn [only_vars] in H. apply andb_true_iff in H. destruct H as [He Hr].
      change (evals call ?q (ECons e r)) with (do v <- eval call q e; do vr <- evals call q r; Ok (v :: vr)).
      rewrite (IHe He r1 r2 Hl), (IHr Hr r1 r2 Hl). reflexivity.
  Qed.
End OnlyVar.

(* the comprehension [body for x in items if cond], evaluated with x as the only variable *)
Definition comp_concrete (call : string -> list val -> res val) (body : expr) (x : string) (cond : expr) (items : list val) : res (list val) :=
  comp_go (fun v => let rho' := [(x, v)] in
                    do c <- eval call rho' cond;
                    if truthy c then do y <- eval call rho' body; Ok (Some y) else Ok None) items.

Lemma comp_go_ext (f g : val -> res (option val)) : (forall v, f v = g v) -> forall l, comp_go f l = comp_go g l.
Proof. intros H. induction l as [|v r IH]; cbn; [reflexivity|]. rewrite H, IH. reflexivity. Qed.

(* abstraction of the elements obtained by iterating over a value *)
Definition aelems (a : aval) : aval :=
  match a with
  | APar it => match as_list it with Ok items => AOne items | Err _ => ATop end
  | AListOf b => b
  | _ => ATop
  end.

Lemma aelems_sound a it items v : arel a it -> as_list it = Ok items -> In v items -> arel (aelems a) v.
Proof.
  intros Ha Hl Hin. destruct a as [|?|w|?| |b]; try exact I.
  - cbn in Ha. subst w. cbn. rewrite Hl. exact Hin.
  - cbn in Ha. destruct Ha as (l & -> & F). cbn in Hl. injection Hl as <-. cbn. rewrite Forall_forall in F. apply F. exact Hin.
Qed.

Lemma comp_go_forall (P : val -> Prop) (f : val -> res (option val)) : forall items l,
  (forall v y, In v items -> f v = Ok (Some y) -> P y) -> comp_go f items = Ok l -> Forall P l.
Proof.
  induction items as [|v r IH]; intros l Hf H; cbn in H.
  - injection H as <-. constructor.
  - destruct (f v) as [o|] eqn:E; cbn in H; [|discriminate].
    destruct (comp_go f r) as [ys|] eqn:Er; cbn in H; [|discriminate]. injection H as <-.
    assert (Fr : Forall P ys) by (apply IH; [intros w y Hw; apply Hf; right; exact Hw | reflexivity]).
    destruct o as [y|]; [constructor; [apply (Hf v y (or_introl eq_refl) E) | exact Fr] | exact Fr].
Qed.

Section AEval.
  Variable acall : string -> list aval -> aval.
  Variable ccall : string -> list val -> res val.     (* the concrete helper-call function, for concrete sub-evaluations *)

  Fixpoint aeval (ae : aenv) (e : expr) {struct e} : aval :=
    match e with
    | EInt z => APar (VInt z)
    | EFloat q => APar (VFloat (XFin q))
    | EInf => APar (VFloat XPosInf)
    | EBool b => APar (VBool b)
    | EStr s => APar (VStr s)
    | ENone => APar VNone
    | EVar x => aget x ae
    | EBin op a b => abin op (aeval ae a) (aeval ae b)
    | ENeg a => aneg (aeval ae a)
    | ENot a => match aeval ae a with APar v => APar (VBool (negb (truthy v))) | _ => ABool end
    | EAnd a b => match aeval ae a with
                  | APar v => if truthy v then aeval ae b else APar v
                  | x => join x (aeval ae b) end
    | EOr a b => match aeval ae a with
                 | APar v => if truthy v then APar v else aeval ae b
                 | x => join x (aeval ae b) end
    | ECmp op a b => match aeval ae a, aeval ae b with
                     | APar v, APar w => match compare op v w with Ok r => APar r | Err _ => ATop end
                     | _, _ => ABool end
    | EIn ng a d => match aeval ae a, aeval ae d with
                    | APar v, APar w => match py_in ng v w with Ok r => APar r | Err _ => ATop end
                    | _, _ => ABool end
    | EIfE c a b => match aeval ae c with
                    | APar v => if truthy v then aeval ae a else aeval ae b
                    | _ => join (aeval ae a) (aeval ae b) end
    | ESub a k => asub (aeval ae a) (aeval ae k)
    | ECall f args => acall f (aevals ae args)
    | EBuiltin b args => abuiltin b (aevals ae args)
    | EListLit args => match all_par (aevals ae args) with Some vs => APar (VList vs) | None => ATop end
    | EComp body x iter cond =>
        let ai := aeval ae iter in
        let gen := AListOf (aeval ((x, aelems ai) :: ae) body) in
        match ai with
        | APar it =>
            if only_var x body && only_var x cond
            then match as_list it with
                 | Ok items => match comp_concrete ccall body x cond items with Ok l => APar (VList l) | Err _ => gen end
                 | Err _ => gen end
            else gen
        | _ => gen
        end
    end
  with aevals (ae : aenv) (es : exprs) {struct es} : list aval :=
    match es with
    | ENil => []
    | ECons e r => aeval ae e :: aevals ae r
    end.

  (* pointwise join of abstract environments (over the names of the first) *)
  Definition join_env (a b : aenv) : aenv :=
    map (fun x => (x, join (aget x a) (aget x b))) (map fst a ++ map fst b).

  Definition join_oenv (a b : option aenv) : option aenv :=
    match a, b with
    | None, o | o, None => o
    | Some x, Some y => Some (join_env x y)
    end.

  Definition join_oret (a b : option aval) : option aval :=
    match a, b with
    | None, o | o, None => o
    | Some x, Some y => Some (join x y)
    end.

  (* result: abstract environment after the statement (None: the statement never completes
     normally) and the join of everything returned so far (None: no return) *)
  Fixpoint aexec (ae : aenv) (s : stmt) : option aenv * option aval :=
    match s with
    | SSkip => (Some ae, None)
    | SSeq a b =>
        match aexec ae a with
        | (Some ae1, r1) => let '(o2, r2) := aexec ae1 b in (o2, join_oret r1 r2)
        | (None, r1) => (None, r1)
        end
    | SAssign x e => (Some ((x, aeval ae e) :: ae), None)
    | SAug x op e => (Some ((x, abin op (aget x ae) (aeval ae e)) :: ae), None)
    | SIf c a b =>
        match aeval ae c with
        | APar v => if truthy v then aexec ae a else aexec ae b
        | _ => let '(o1, r1) := aexec ae a in let '(o2, r2) := aexec ae b in (join_oenv o1 o2, join_oret r1 r2)
        end
    | SReturn e => (None, Some (aeval ae e))
    | SRaise _ => (None, None)
    end.

  Fixpoint abind (ps : list (string * option annot)) (l : list aval) : aenv :=
    match ps, l with
    | (p, _) :: pr, a :: lr => (p, a) :: abind pr lr
    | _, _ => []
    end.

  Definition arun (fd : fundef) (l : list aval) : aval :=
    match f_body fd with
    | None => ATop
    | Some body =>
        match aexec (abind (f_args fd) l) body with
        | (None, Some a) => a
        | _ => ATop
        end
    end.
End AEval.

Fixpoint acall_fuel (ft : ftable) (fuel : nat) (f : string) (l : list aval) : aval :=
  match fuel with
  | O => ATop
  | S n =>
      match flookup f ft with
      | None => ATop
      | Some fd => arun (acall_fuel ft n) (call_fuel ft n) fd l
      end
  end.

Definition rule_aval (ft : ftable) (fd : fundef) (l : list aval) : aval :=
  arun (acall_fuel ft default_fuel) (call_fuel ft default_fuel) fd l.

(* ---------------------------------------------------------------- *)
(* soundness                                                           *)

Lemma aget_cons_eq x a ae : aget x ((x, a) :: ae) = a.
Proof. unfold aget. cbn. rewrite String.eqb_refl. reflexivity. Qed.

Lemma aget_cons_neq x y a ae : String.eqb x y = false -> aget x ((y, a) :: ae) = aget x ae.
Proof. intro H. unfold aget. cbn. rewrite H. reflexivity. Qed.

Lemma env_rel_cons ae rho x a v : env_rel ae rho -> arel a v -> env_rel ((x, a) :: ae) ((x, v) :: rho).
Proof.
  intros H Ha y w Hl. cbn in Hl. destruct (String.eqb y x) eqn:E.
  - apply String.eqb_eq in E. subst. injection Hl as <-. rewrite aget_cons_eq. exact Ha.
  - rewrite (aget_cons_neq y x a ae E). apply H. exact Hl.
Qed.

Lemma alookup_map (f : string -> aval) x : forall l,
  alookup x (map (fun y => (y, f y)) l) = if existsb (String.eqb x) l then Some (f x) else None.
Proof.
  induction l as [|y r IH]; cbn; [reflexivity|].
  destruct (String.eqb x y) eqn:E; [apply String.eqb_eq in E; subst; reflexivity | exact IH].
Qed.

Lemma alookup_names x a : alookup x a = None -> existsb (String.eqb x) (map fst a) = false.
Proof.
  induction a as [|[y u] r IH]; cbn; [reflexivity|]. destruct (String.eqb x y); [discriminate | exact IH].
Qed.

Lemma alookup_in_names x a u : alookup x a = Some u -> existsb (String.eqb x) (map fst a) = true.
Proof.
  induction a as [|[y w] r IH]; cbn; [discriminate|]. destruct (String.eqb x y); [reflexivity | exact IH].
Qed.

Lemma aget_join_env x a b :
  aget x (join_env a b) = if existsb (String.eqb x) (map fst a ++ map fst b) then join (aget x a) (aget x b) else ABot.
Proof.
  unfold aget at 1. unfold join_env. rewrite alookup_map.
  destruct (existsb (String.eqb x) (map fst a ++ map fst b)); reflexivity.
Qed.

Lemma env_rel_join_l a b rho : env_rel a rho -> env_rel (join_env a b) rho.
Proof.
  intros H x v Hl. rewrite aget_join_env. specialize (H x v Hl). rewrite existsb_app.
  destruct (alookup x a) as [u|] eqn:E.
  - rewrite (alookup_in_names x a u E). cbn. apply join_l. exact H.
  - unfold aget in H. rewrite E in H. contradiction.
Qed.

Lemma env_rel_join_r a b rho : env_rel b rho -> env_rel (join_env a b) rho.
Proof.
  intros H x v Hl. rewrite aget_join_env. specialize (H x v Hl). rewrite existsb_app.
  destruct (alookup x b) as [u|] eqn:E.
  - rewrite (alookup_in_names x b u E). rewrite orb_true_r. apply join_r. exact H.
  - unfold aget in H. rewrite E in H. contradiction.
Qed.

Section Sound.
  Variable call : string -> list val -> res val.
  Variable acall : string -> list aval -> aval.
  Hypothesis call_sound : forall f l vs v, Forall2 arel l vs -> call f vs = Ok v -> arel (acall f l) v.

  Lemma eval_in rho ng a d : eval call rho (EIn ng a d) = do x <- eval call rho a; do c <- eval call rho d; py_in ng x c.
  Proof. reflexivity. Qed.

  Definition sound_e (e : expr) : Prop := forall ae rho v,
    env_rel ae rho -> eval call rho e = Ok v -> arel (aeval acall call ae e) v.
  Definition sound_es (es : exprs) : Prop := forall ae rho vs,
    env_rel ae rho -> evals call rho es = Ok vs -> Forall2 arel (aevals acall call ae es) vs.

  Theorem aeval_sound : (forall e, sound_e e) /\ (forall es, sound_es es).
  Proof.
    apply expr_exprs_ind; unfold sound_e, sound_es.
    - intros z ae rho v _ H. cbn in H. injection H as <-. exact eq_refl.
    - intros q ae rho v _ H. cbn in H. injection H as <-. exact eq_refl.
    - intros ae rho v _ H. cbn in H. injection H as <-. exact eq_refl.
    - intros b ae rho v _ H. cbn in H. injection H as <-. exact eq_refl.
    - intros s ae rho v _ H. cbn in H. injection H as <-. exact eq_refl.
    - intros ae rho v _ H. cbn in H. injection H as <-. exact eq_refl.
    - (* EVar *) intros x ae rho v HR H. cbn in H. destruct (lookup x rho) as [w|] eqn:E; cbn in H; [|discriminate].
      injection H as <-. cbn [aeval]. apply (HR x w E).
    - (* EBin *) intros op a IHa b IHb ae rho v HR H.
      change (eval call rho (EBin op a b)) with (do x <- eval call rho a; do y <- eval call rho b; arith op x y) in H.
      destruct (eval call rho a) as [x|] eqn:E1; [|discriminate]. cbn [bind] in H.
      destruct (eval call rho b) as [y|] eqn:E2; [|discriminate]. cbn [bind] in H.
      cbn [aeval]. apply (abin_sound op _ _ x y v (IHa ae rho x HR E1) (IHb ae rho y HR E2) H).
    - (* ENeg *) intros a IHa ae rho v HR H.
      change (eval call rho (ENeg a)) with (do x <- eval call rho a; neg x) in H.
      destruct (eval call rho a) as [x|] eqn:E1; [|discriminate]. cbn [bind] in H.
      cbn [aeval]. apply (aneg_sound _ x v (IHa ae rho x HR E1) H).
    - (* ENot *) intros a IHa ae rho v HR H.
      change (eval call rho (ENot a)) with (do x <- eval call rho a; Ok (VBool (negb (truthy x)))) in H.
      destruct (eval call rho a) as [x|] eqn:E1; [|discriminate]. cbn in H. injection H as <-.
      cbn [aeval]. pose proof (IHa ae rho x HR E1) as R.
      destruct (aeval acall call ae a); try apply abool_rel. cbn in R. subst. exact eq_refl.
    - (* EAnd *) intros a IHa b IHb ae rho v HR H.
      change (eval call rho (EAnd a b)) with (do x <- eval call rho a; if truthy x then eval call rho b else Ok x) in H.
      destruct (eval call rho a) as [x|] eqn:E1; [|discriminate]. cbn [bind] in H.
      cbn [aeval]. pose proof (IHa ae rho x HR E1) as R.
      assert (Gen : forall u, arel u x -> arel (join u (aeval acall call ae b)) v).
      { intros u Hu. destruct (truthy x); [apply join_r; apply (IHb ae rho v HR H) | injection H as <-; apply join_l; exact Hu]. }
      destruct (aeval acall call ae a) as [|?|w|?| |?]; try (apply Gen; exact R).
      cbn in R. subst w. destruct (truthy x); [apply (IHb ae rho v HR H) | injection H as <-; exact eq_refl].
    - (* EOr *) intros a IHa b IHb ae rho v HR H.
      change (eval call rho (EOr a b)) with (do x <- eval call rho a; if truthy x then Ok x else eval call rho b) in H.
      destruct (eval call rho a) as [x|] eqn:E1; [|discriminate]. cbn [bind] in H.
      cbn [aeval]. pose proof (IHa ae rho x HR E1) as R.
      assert (Gen : forall u, arel u x -> arel (join u (aeval acall call ae b)) v).
      { intros u Hu. destruct (truthy x); [injection H as <-; apply join_l; exact Hu | apply join_r; apply (IHb ae rho v HR H)]. }
      destruct (aeval acall call ae a) as [|?|w|?| |?]; try (apply Gen; exact R).
      cbn in R. subst w. destruct (truthy x); [injection H as <-; exact eq_refl | apply (IHb ae rho v HR H)].
    - (* ECmp *) intros op a IHa b IHb ae rho v HR H.
      change (eval call rho (ECmp op a b)) with (do x <- eval call rho a; do y <- eval call rho b; compare op x y) in H.
      destruct (eval call rho a) as [x|] eqn:E1; [|discriminate]. cbn [bind] in H.
      destruct (eval call rho b) as [y|] eqn:E2; [|discriminate]. cbn [bind] in H.
      cbn [aeval]. pose proof (IHa ae rho x HR E1) as R1. pose proof (IHb ae rho y HR E2) as R2.
      assert (Gen : arel ABool v) by (destruct (compare_bool op x y v H) as [bb ->]; apply abool_rel).
      destruct (aeval acall call ae a) as [|?|w1|?| |?]; try exact Gen.
      destruct (aeval acall call ae b) as [|?|w2|?| |?]; try exact Gen.
      cbn in R1, R2. subst. rewrite H. exact eq_refl.
    - (* EIn *) intros ng a IHa d IHd ae rho v HR H. rewrite eval_in in H.
      destruct (eval call rho a) as [x|] eqn:E1; [|discriminate]. cbn [bind] in H.
      destruct (eval call rho d) as [y|] eqn:E2; [|discriminate]. cbn [bind] in H.
      cbn [aeval]. pose proof (IHa ae rho x HR E1) as R1. pose proof (IHd ae rho y HR E2) as R2.
      assert (Gen : arel ABool v) by (destruct (py_in_bool ng x y v H) as [bb ->]; apply abool_rel).
      destruct (aeval acall call ae a) as [|?|w1|?| |?]; try exact Gen.
      destruct (aeval acall call ae d) as [|?|w2|?| |?]; try exact Gen.
      cbn in R1, R2. subst. rewrite H. exact eq_refl.
    - (* EIfE *) intros c IHc a IHa b IHb ae rho v HR H.
      change (eval call rho (EIfE c a b)) with (do x <- eval call rho c; if truthy x then eval call rho a else eval call rho b) in H.
      destruct (eval call rho c) as [x|] eqn:E1; [|discriminate]. cbn [bind] in H.
      cbn [aeval]. pose proof (IHc ae rho x HR E1) as R.
      assert (Gen : arel (join (aeval acall call ae a) (aeval acall call ae b)) v).
      { destruct (truthy x); [apply join_l; apply (IHa ae rho v HR H) | apply join_r; apply (IHb ae rho v HR H)]. }
      destruct (aeval acall call ae c) as [|?|w|?| |?]; try exact Gen.
      cbn in R. subst w. destruct (truthy x); [apply (IHa ae rho v HR H) | apply (IHb ae rho v HR H)].
    - (* ESub *) intros a IHa k IHk ae rho v HR H.
      change (eval call rho (ESub a k)) with (do x <- eval call rho a; do y <- eval call rho k; subscript x y) in H.
      destruct (eval call rho a) as [x|] eqn:E1; [|discriminate]. cbn [bind] in H.
      destruct (eval call rho k) as [y|] eqn:E2; [|discriminate]. cbn [bind] in H.
      cbn [aeval]. apply (asub_sound _ _ x y v (IHa ae rho x HR E1) (IHk ae rho y HR E2) H).
    - (* ECall *) intros f args IH ae rho v HR H.
      change (eval call rho (ECall f args)) with (do vs <- evals call rho args; call f vs) in H.
      destruct (evals call rho args) as [vs|] eqn:E1; [|discriminate]. cbn [bind] in H.
      cbn [aeval]. apply (call_sound f _ vs v (IH ae rho vs HR E1) H).
    - (* EBuiltin *) intros b args IH ae rho v HR H.
      change (eval call rho (EBuiltin b args)) with (do vs <- evals call rho args; apply_builtin b vs) in H.
      destruct (evals call rho args) as [vs|] eqn:E1; [|discriminate]. cbn [bind] in H.
      cbn [aeval]. apply (abuiltin_sound b _ vs v (IH ae rho vs HR E1) H).
    - (* EListLit *) intros args IH ae rho v HR H.
      change (eval call rho (EListLit args)) with (do vs <- evals call rho args; Ok (VList vs)) in H.
      destruct (evals call rho args) as [vs|] eqn:E1; [|discriminate]. cbn in H. injection H as <-.
      change (aeval acall call ae (EListLit args)) with (match all_par (aevals acall call ae args) with Some vs => APar (VList vs) | None => ATop end).
      destruct (all_par (aevals acall call ae args)) as [ws|] eqn:E; [|exact I].
      rewrite (all_par_sound _ ws vs E (IH ae rho vs HR E1)). exact eq_refl.
    - (* EComp *) intros body IHb x iter IHi cond _ ae rho v HR H.
      change (eval call rho (EComp body x iter cond)) with
        (do it <- eval call rho iter; do items <- as_list it;
         do l <- comp_go (fun w => let rho' := (x, w) :: rho in
                                   do c <- eval call rho' cond;
                                   if truthy c then do y <- eval call rho' body; Ok (Some y) else Ok None) items;
         Ok (VList l)) in H.
      destruct (eval call rho iter) as [it|] eqn:E1; [|discriminate]. cbn [bind] in H.
      pose proof (IHi ae rho it HR E1) as R.
      change (aeval acall call ae (EComp body x iter cond)) with
        (let ai := aeval acall call ae iter in
         let gen := AListOf (aeval acall call ((x, aelems ai) :: ae) body) in
         match ai with
         | APar it =>
             if only_var x body && only_var x cond
             then match as_list it with
                  | Ok items => match comp_concrete call body x cond items with Ok l => APar (VList l) | Err _ => gen end
                  | Err _ => gen end
             else gen
         | _ => gen end).
      cbv zeta.
      destruct (as_list it) as [items|] eqn:El; cbn [bind] in H; [|discriminate].
      cbv zeta in H.
      destruct (comp_go (fun w => do c <- eval call ((x, w) :: rho) cond;
                                   if truthy c then do y <- eval call ((x, w) :: rho) body; Ok (Some y) else Ok None) items) as [l|] eqn:Ec;
        cbn in H; [|discriminate]. injection H as <-.
      assert (Gen : arel (AListOf (aeval acall call ((x, aelems (aeval acall call ae iter)) :: ae) body)) (VList l)).
      { cbn [arel]. exists l. split; [reflexivity|].
        refine (comp_go_forall _ _ items l _ Ec). cbv beta.
        intros w y Hw Hy. destruct (eval call ((x, w) :: rho) cond) as [c|]; cbn [bind] in Hy; [|discriminate].
        destruct (truthy c); [|discriminate].
        destruct (eval call ((x, w) :: rho) body) as [y'|] eqn:Eb; cbn in Hy; [|discriminate]. injection Hy as <-.
        apply (IHb _ ((x, w) :: rho) y'); [|exact Eb].
        apply env_rel_cons; [exact HR | apply (aelems_sound _ it items w R El Hw)]. }
      destruct (aeval acall call ae iter) as [|?|it'|?| |?] eqn:Ea; try exact Gen. cbn in R. subst it'.
      destruct (only_var x body && only_var x cond) eqn:Eo; [|exact Gen].
      apply andb_true_iff in Eo. destruct Eo as [Ob Oc]. rewrite El.
      assert (Ext : comp_go (fun w => do c <- eval call ((x, w) :: rho) cond;
                                   if truthy c then do y <- eval call ((x, w) :: rho) body; Ok (Some y) else Ok None) items
                    = comp_concrete call body x cond items).
      { unfold comp_concrete. apply comp_go_ext. intro w. cbn zeta.
        assert (Hl : lookup x ((x, w) :: rho) = lookup x [(x, w)]) by (cbn; rewrite String.eqb_refl; reflexivity).
        rewrite (proj1 (only_var_agree call x) cond Oc _ _ Hl), (proj1 (only_var_agree call x) body Ob _ _ Hl). reflexivity. }
      rewrite <- Ext, Ec. exact eq_refl.
    - (* ENil *) intros ae rho vs _ H. cbn in H. injection H as <-. constructor.
    - (* ECons *) intros e IHe r IHr ae rho vs HR H.
      change (evals call rho (ECons e r)) with (do v <- eval call rho e; do vr <- evals call rho r; Ok (v :: vr)) in H.
      destruct (eval call rho e) as [x|] eqn:E1; [|discriminate]. cbn [bind] in H.
      destruct (evals call rho r) as [xs|] eqn:E2; [|discriminate]. cbn in H. injection H as <-.
      cbn [aevals]. constructor; [apply (IHe ae rho x HR E1) | apply (IHr ae rho xs HR E2)].
  Qed.

  Definition oenv_rel (o : option aenv) (rho : env) : Prop :=
    match o with Some ae => env_rel ae rho | None => False end.
  Definition oret_rel (o : option aval) (v : val) : Prop :=
    match o with Some a => arel a v | None => False end.

  Lemma join_oenv_l a b rho : oenv_rel a rho -> oenv_rel (join_oenv a b) rho.
  Proof. destruct a as [x|]; [|contradiction]. destruct b as [y|]; cbn; [apply env_rel_join_l | auto]. Qed.
  Lemma join_oenv_r a b rho : oenv_rel b rho -> oenv_rel (join_oenv a b) rho.
  Proof. destruct b as [y|]; [|contradiction]. destruct a as [x|]; cbn; [apply env_rel_join_r | auto]. Qed.
  Lemma join_oret_l a b v : oret_rel a v -> oret_rel (join_oret a b) v.
  Proof. destruct a as [x|]; [|contradiction]. destruct b as [y|]; cbn; [apply join_l | auto]. Qed.
  Lemma join_oret_r a b v : oret_rel b v -> oret_rel (join_oret a b) v.
  Proof. destruct b as [y|]; [|contradiction]. destruct a as [x|]; cbn; [apply join_r | auto]. Qed.

  Definition out_rel (r : option aenv * option aval) (o : outcome) : Prop :=
    match o with
    | ONormal rho' => oenv_rel (fst r) rho'
    | OReturn v => oret_rel (snd r) v
    | OError _ => True
    end.

  Theorem aexec_sound : forall s ae rho, env_rel ae rho -> out_rel (aexec acall call ae s) (exec call rho s).
  Proof.
    induction s as [|a IHa b IHb|x e|x op e|c a IHa b IHb|e|er]; intros ae rho HR; cbn [aexec exec].
    - exact HR.
    - specialize (IHa ae rho HR). destruct (aexec acall call ae a) as [[ae1|] r1].
      + destruct (exec call rho a) as [rho1|v|er]; cbn in IHa.
        * specialize (IHb ae1 rho1 IHa). destruct (aexec acall call ae1 b) as [o2 r2].
          destruct (exec call rho1 b) as [rho2|v|er]; cbn in *; [exact IHb | apply join_oret_r; exact IHb | exact I].
        * destruct (aexec acall call ae1 b) as [o2 r2]. cbn. apply join_oret_l. exact IHa.
        * exact I.
      + destruct (exec call rho a) as [rho1|v|er]; cbn in *; [contradiction | exact IHa | exact I].
    - destruct (eval call rho e) as [v|] eqn:E; [|exact I]. cbn.
      apply env_rel_cons; [exact HR | apply (proj1 aeval_sound e ae rho v HR E)].
    - destruct (lookup x rho) as [old|] eqn:El; [|exact I].
      destruct (eval call rho e) as [v|] eqn:E; [|exact I].
      destruct (arith op old v) as [r|] eqn:Ea; [|exact I]. cbn.
      apply env_rel_cons; [exact HR|].
      apply (abin_sound op _ _ old v r (HR x old El) (proj1 aeval_sound e ae rho v HR E) Ea).
    - destruct (eval call rho c) as [vc|] eqn:E; [|destruct (aeval acall call ae c); try destruct (truthy _); try destruct (aexec acall call ae a), (aexec acall call ae b); exact I].
      pose proof (proj1 aeval_sound c ae rho vc HR E) as R.
      assert (Gen : out_rel (let '(o1, r1) := aexec acall call ae a in let '(o2, r2) := aexec acall call ae b in (join_oenv o1 o2, join_oret r1 r2))
                            (if truthy vc then exec call rho a else exec call rho b)).
      { specialize (IHa ae rho HR). specialize (IHb ae rho HR).
        destruct (aexec acall call ae a) as [o1 r1]. destruct (aexec acall call ae b) as [o2 r2].
        destruct (truthy vc).
        - destruct (exec call rho a) as [rho1|v|er]; cbn in *; [apply join_oenv_l; exact IHa | apply join_oret_l; exact IHa | exact I].
        - destruct (exec call rho b) as [rho1|v|er]; cbn in *; [apply join_oenv_r; exact IHb | apply join_oret_r; exact IHb | exact I]. }
      destruct (aeval acall call ae c) as [|?|w|?| |?]; try exact Gen.
      cbn in R. subst w. destruct (truthy vc); [apply IHa; exact HR | apply IHb; exact HR].
    - destruct (eval call rho e) as [v|] eqn:E; [|exact I]. cbn. apply (proj1 aeval_sound e ae rho v HR E).
    - exact I.
  Qed.

  Lemma abind_rel : forall ps l vs rho, Forall2 arel l vs -> bind_args ps vs = Ok rho -> env_rel (abind ps l) rho.
  Proof.
    induction ps as [|[p an] pr IH]; intros l vs rho F H.
    - destruct vs; cbn in H; [|discriminate]. injection H as <-. intros x v Hl. discriminate.
    - destruct vs as [|v vr]; cbn in H; [discriminate|].
      destruct (bind_args pr vr) as [r|] eqn:E; cbn in H; [|discriminate]. injection H as <-.
      inversion F as [|a ? lr ? Hav Fr]; subst. cbn [abind].
      apply env_rel_cons; [apply (IH lr vr r Fr E) | exact Hav].
  Qed.

  Theorem arun_sound fd l vs v : Forall2 arel l vs -> run_body call fd vs = Ok v -> arel (arun acall call fd l) v.
  Proof.
    intros F H. unfold run_body in H. unfold arun. destruct (f_body fd) as [body|]; [|exact I].
    destruct (bind_args (f_args fd) vs) as [rho|] eqn:E; cbn [bind] in H; [|discriminate].
    pose proof (aexec_sound body _ rho (abind_rel _ l vs rho F E)) as S.
    destruct (aexec acall call (abind (f_args fd) l) body) as [[ae'|] [a|]]; try exact I.
    destruct (exec call rho body) as [rho'|w|er]; cbn in S; try contradiction; try discriminate.
    injection H as <-. exact S.
  Qed.
End Sound.

Theorem acall_fuel_sound ft : forall n f l vs v,
  Forall2 arel l vs -> call_fuel ft n f vs = Ok v -> arel (acall_fuel ft n f l) v.
Proof.
  induction n as [|n IH]; intros f l vs v F H; [exact I|].
  cbn [call_fuel] in H. cbn [acall_fuel]. destruct (flookup f ft) as [fd|]; [|exact I].
  apply (arun_sound (call_fuel ft n) (acall_fuel ft n) IH fd l vs v F H).
Qed.

(* the abstract result of a rule describes every value the rule returns *)
Theorem rule_aval_sound ft fd l vs v :
  Forall2 arel l vs -> call_rule ft fd vs = Ok v -> arel (rule_aval ft fd l) v.
Proof.
  intros F H. unfold call_rule in H. unfold rule_aval.
  apply (arun_sound (call_fuel ft default_fuel) (acall_fuel ft default_fuel) (acall_fuel_sound ft default_fuel) fd l vs v F H).
Qed.
