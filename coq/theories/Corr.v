(* Corr.v — helpers for the correspondence check: comparing a model result with
   what the implementation produced (floats by the tolerance rule of DESIGN §4.2),
   and rendering values as text. Not part of any theorem. *)
From Coq Require Import ZArith QArith Qcanon Qabs Bool String List DecimalString.
From GettsimModel Require Import Num Val.
Import ListNotations.
Open Scope string_scope.

Inductive expect := XVal (v : val) | XErr (e : err) | XAnyErr.

Definition tol : Qc := qfrac 1 1000000000.

Definition qabs (q : Qc) : Qc := if Qcltb q 0 then (- q)%Qc else q.

Definition q_close (a b : Qc) : bool :=
  let m := if Qcltb (qabs b) 1 then 1%Qc else qabs b in
  Qcleb (qabs (a - b)) (tol * m).

Definition xq_close (y q : xq) : bool :=
  match y, q with
  | XFin a, XFin b => q_close a b
  | _, _ => xq_same y q
  end.

Definition err_eqb (a b : err) : bool :=
  match a, b with
  | EKey, EKey | EZeroDiv, EZeroDiv | ENotImpl, ENotImpl | EType, EType
  | EUnbound, EUnbound | EFuel, EFuel | EValue, EValue | EIndex, EIndex => true
  | _, _ => false
  end.

Fixpoint val_close (a b : val) {struct a} : bool :=
  match a, b with
  | VInt x, VInt y => Z.eqb x y
  | VFloat x, VFloat y => xq_close x y
  | VBool x, VBool y => Bool.eqb x y
  | VDate x, VDate y => Z.eqb x y
  | VStr x, VStr y => String.eqb x y
  | VNone, VNone => true
  | VList la, VList lb =>
      (fix go (l1 l2 : list val) : bool :=
         match l1, l2 with
         | [], [] => true
         | x :: r1, y :: r2 => val_close x y && go r1 r2
         | _, _ => false
         end) la lb
  | VDict la, VDict lb =>
      (fix go (l1 l2 : list (pkey * val)) : bool :=
         match l1, l2 with
         | [], [] => true
         | (k1, x) :: r1, (k2, y) :: r2 => pkey_eqb k1 k2 && val_close x y && go r1 r2
         | _, _ => false
         end) la lb
  | _, _ => false
  end.

Definition agrees (r : res val) (x : expect) : bool :=
  match r, x with
  | Ok v, XVal w => val_close w v
  | Err e, XErr e' => err_eqb e e'
  | Err _, XAnyErr => true
  | _, _ => false
  end.

(* ---- rendering ---- *)
Definition show_z (z : Z) : string := NilZero.string_of_int (Z.to_int z).

Definition show_q (q : Qc) : string :=
  show_z (Qnum q) ++ "/" ++ show_z (Zpos (Qden q)).

Definition show_xq (x : xq) : string :=
  match x with
  | XNegInf => "-inf" | XPosInf => "inf" | XNaN => "nan" | XFin q => show_q q
  end.

Definition show_err (e : err) : string :=
  match e with
  | EKey => "KeyError" | EZeroDiv => "ZeroDivisionError" | ENotImpl => "NotImplementedError"
  | EType => "TypeError" | EUnbound => "Unbound" | EFuel => "OutOfFuel"
  | EValue => "ValueError" | EIndex => "IndexError"
  end.

Definition show_key (k : pkey) : string :=
  match k with
  | KInt z => show_z z | KStr s => "'" ++ s ++ "'" | KDate d => "date:" ++ show_z d
  end.

Fixpoint show_val (v : val) : string :=
  match v with
  | VInt z => "int:" ++ show_z z
  | VFloat x => "float:" ++ show_xq x
  | VBool b => if b then "bool:True" else "bool:False"
  | VDate d => "date:" ++ show_z d
  | VStr s => "str:" ++ s
  | VNone => "None"
  | VList l => "[" ++ (fix go (l : list val) : string :=
                         match l with
                         | [] => ""
                         | x :: r => show_val x ++ "," ++ go r
                         end) l ++ "]"
  | VDict l => "{" ++ (fix go (l : list (pkey * val)) : string :=
                         match l with
                         | [] => ""
                         | (k, x) :: r => show_key k ++ ":" ++ show_val x ++ "," ++ go r
                         end) l ++ "}"
  end.

Definition show_res (r : res val) : string :=
  match r with Ok v => show_val v | Err e => "ERR:" ++ show_err e end.

(* ---- JSON rendering (parsed by the Python harness) ----
   ints {"i":"12"}, floats {"f":"n/d"|"inf"|"-inf"|"nan"}, dates {"d":"730851"},
   bools true/false, None null, strings "…", lists […], dicts {"s:key"|"i:3"|"d:N": …} *)
Definition json_key (k : pkey) : string :=
  match k with
  | KInt z => "i:" ++ show_z z | KStr s => "s:" ++ s | KDate d => "d:" ++ show_z d
  end.

Definition q1 : string := String (Ascii.ascii_of_nat 34) EmptyString.

Fixpoint json_val (v : val) : string :=
  match v with
  | VInt z => "{" ++ q1 ++ "i" ++ q1 ++ ":" ++ q1 ++ show_z z ++ q1 ++ "}"
  | VFloat x => "{" ++ q1 ++ "f" ++ q1 ++ ":" ++ q1 ++ show_xq x ++ q1 ++ "}"
  | VBool b => if b then "true" else "false"
  | VDate d => "{" ++ q1 ++ "d" ++ q1 ++ ":" ++ q1 ++ show_z d ++ q1 ++ "}"
  | VStr s => q1 ++ s ++ q1
  | VNone => "null"
  | VList l => "[" ++ (fix go (l : list val) : string :=
                         match l with
                         | [] => ""
                         | [x] => json_val x
                         | x :: r => json_val x ++ "," ++ go r
                         end) l ++ "]"
  | VDict l => "{" ++ (fix go (l : list (pkey * val)) : string :=
                         match l with
                         | [] => ""
                         | [(k, x)] => q1 ++ json_key k ++ q1 ++ ":" ++ json_val x
                         | (k, x) :: r => q1 ++ json_key k ++ q1 ++ ":" ++ json_val x ++ "," ++ go r
                         end) l ++ "}"
  end.

Definition json_res (r : res val) : string :=
  match r with
  | Ok v => json_val v
  | Err e => "{" ++ q1 ++ "err" ++ q1 ++ ":" ++ q1 ++ show_err e ++ q1 ++ "}"
  end.
