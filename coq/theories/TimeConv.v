(* TimeConv.v — time-unit conversion (property C13): the documented factors as exact rationals,
   their algebra, the naming convention parser, and a reflective check of every conversion
   node of the regenerated dependency graph. *)
From Coq Require Import ZArith QArith Qcanon Bool Ascii String List Lia.
From GettsimModel Require Import Num NumTac Val Dag.
Import ListNotations.
Open Scope string_scope.

Inductive tunit := UY | UM | UW | UD.

(* periods per year: 1, 12, 365.25/7, 365.25 *)
Definition per_year (u : tunit) : Qc :=
  match u with
  | UY => 1%Qc
  | UM => qfrac 12 1
  | UW => qfrac 36525 700
  | UD => qfrac 36525 100
  end.

(* value per [v]-period of a flow given per [u]-period *)
Definition factor (u v : tunit) : Qc := (per_year u / per_year v)%Qc.
Definition conv (u v : tunit) (x : Qc) : Qc := (x * factor u v)%Qc.

Lemma per_year_nonzero u : per_year u <> 0%Qc.
Proof. destruct u; intro H; apply Qc_eq_this in H; vm_compute in H; discriminate. Qed.

Open Scope Qc_scope.

Theorem conv_roundtrip u v x : conv v u (conv u v x) = x.
Proof.
  unfold conv, factor. pose proof (per_year_nonzero u). pose proof (per_year_nonzero v).
  field. split; assumption.
Qed.

Theorem conv_compose u v w x : conv v w (conv u v x) = conv u w x.
Proof.
  unfold conv, factor. pose proof (per_year_nonzero u). pose proof (per_year_nonzero v).
  pose proof (per_year_nonzero w). field. split; assumption.
Qed.

Theorem conv_self u x : conv u u x = x.
Proof. unfold conv, factor. pose proof (per_year_nonzero u). field. assumption. Qed.

(* linear: conversion commutes with sums (hence with group summation) *)
Theorem conv_add u v x y : conv u v (x + y) = conv u v x + conv u v y.
Proof. unfold conv. ring. Qed.

Theorem conv_sum u v (l : list Qc) :
  conv u v (fold_right Qcplus 0 l) = fold_right Qcplus 0 (map (conv u v) l).
Proof.
  induction l as [|a r IH]; cbn.
  - unfold conv. ring.
  - rewrite conv_add, IH. reflexivity.
Qed.

(* the documented constants *)
Theorem documented_factors :
  factor UY UM = qfrac 1 12 /\ factor UM UY = qfrac 12 1 /\
  factor UY UD = qfrac 100 36525 /\ factor UD UY = qfrac 36525 100 /\
  factor UY UW = qfrac 700 36525 /\ factor UW UY = qfrac 36525 700 /\
  factor UW UD = qfrac 1 7 /\ factor UD UW = qfrac 7 1.
Proof. repeat split; apply Qc_is_canon; reflexivity. Qed.

Close Scope Qc_scope.

(* ---------------------------------------------------------------- *)
(* the naming convention  (.*_)([ymwd])(_hh|_wthh|_fg|_bg|_eg|_ehe|_sn)?   *)

Definition unit_of_ascii (c : ascii) : option tunit :=
  if Ascii.eqb c "y" then Some UY else if Ascii.eqb c "m" then Some UM
  else if Ascii.eqb c "w" then Some UW else if Ascii.eqb c "d" then Some UD else None.

Definition tunit_eqb (a b : tunit) : bool :=
  match a, b with UY, UY | UM, UM | UW, UW | UD, UD => true | _, _ => false end.

Fixpoint rev_string (s acc : string) : string :=
  match s with EmptyString => acc | String c r => rev_string r (String c acc) end.

(* s = base ++ suffix ? *)
Definition strip_suffix (suffix s : string) : option string :=
  let rs := rev_string s "" in
  let rsuf := rev_string suffix "" in
  if String.prefix rsuf rs
  then Some (rev_string (String.substring (String.length rsuf) (String.length rs - String.length rsuf) rs) "")
  else None.

(* name without group suffix ends in "_" ++ unit *)
Definition parse_plain (s : string) : option (string * tunit) :=
  match rev_string s "" with
  | String c (String u r) =>
      if Ascii.eqb u "_" then
        match unit_of_ascii c with
        | Some t => Some (rev_string (String u r) "", t)     (* base includes the trailing "_" *)
        | None => None
        end
      else None
  | _ => None
  end.

Definition group_suffixes : list string := ["_hh"; "_wthh"; "_fg"; "_bg"; "_eg"; "_ehe"; "_sn"].

(* (base, unit, aggregation suffix) *)
Definition parse_name (s : string) : option (string * tunit * string) :=
  let with_group :=
    fold_left (fun acc g =>
      match acc with
      | Some _ => acc
      | None => match strip_suffix g s with
                | Some rest => match parse_plain rest with
                               | Some (b, u) => Some (b, u, g)
                               | None => None end
                | None => None
                end
      end) group_suffixes None in
  match with_group with
  | Some r => Some r
  | None => match parse_plain s with Some (b, u) => Some (b, u, "") | None => None end
  end.

(* a conversion node is right when its name and its single argument differ only in the unit and
   its factor is the documented one *)
Definition tc_node_ok (n : dnode) : bool :=
  match d_kind n with
  | KTimeConv num den =>
      match d_args n with
      | [a] =>
          match parse_name (d_name n), parse_name a with
          | Some (b1, u1, g1), Some (b2, u2, g2) =>
              String.eqb b1 b2 && String.eqb g1 g2 && negb (tunit_eqb u1 u2)
              && Qceqb (qfrac num den) (factor u2 u1)
          | _, _ => false
          end
      | _ => false
      end
  | _ => true
  end.

Definition tc_all_ok (S : list dnode) : bool := forallb tc_node_ok S.

Definition tc_offenders (S : list dnode) : list string :=
  map d_name (filter (fun n => negb (tc_node_ok n)) S).

Theorem tc_all_ok_sound S : tc_all_ok S = true ->
  forall n num den, In n S -> d_kind n = KTimeConv num den ->
  exists a b u1 u2 g, d_args n = [a] /\ parse_name (d_name n) = Some (b, u1, g) /\
                      parse_name a = Some (b, u2, g) /\ u1 <> u2 /\ qfrac num den = factor u2 u1.
Proof.
  unfold tc_all_ok. intros H n num den Hn Hk. rewrite forallb_forall in H. specialize (H n Hn).
  unfold tc_node_ok in H. rewrite Hk in H.
  destruct (d_args n) as [|a [|? ?]]; try discriminate.
  destruct (parse_name (d_name n)) as [[[b1 u1] g1]|] eqn:E1; [|discriminate].
  destruct (parse_name a) as [[[b2 u2] g2]|] eqn:E2; [|discriminate].
  repeat rewrite andb_true_iff in H. destruct H as [[[Hb Hg] Hu] Hf].
  apply String.eqb_eq in Hb. apply String.eqb_eq in Hg. apply Qceqb_iff in Hf. subst b2 g2.
  exists a, b1, u1, u2, g1.
  split; [reflexivity|]. split; [reflexivity|]. split; [exact E2|]. split; [|exact Hf].
  intro E. subst. destruct u2; discriminate.
Qed.

(* completeness: every flow name present as node or data column has all four unit variants
   available (as node or data column) *)
Definition variant (b : string) (u : tunit) (g : string) : string :=
  b ++ String (match u with UY => "y" | UM => "m" | UW => "w" | UD => "d" end)%char EmptyString ++ g.

Definition all_units_available (names : list string) : list string :=
  flat_map (fun s =>
    match parse_name s with
    | Some (b, _, g) => filter (fun v => negb (smem v names)) (map (fun u => variant b u g) [UY; UM; UW; UD])
    | None => []
    end) names.

Example parse_examples :
  parse_name "bruttolohn_m" = Some ("bruttolohn_", UM, "")
  /\ parse_name "eink_st_y_sn" = Some ("eink_st_", UY, "_sn")
  /\ parse_name "wohngeld_m_wthh" = Some ("wohngeld_", UM, "_wthh")
  /\ parse_name "hh_id" = None
  /\ parse_name "kind" = None
  /\ variant "eink_st_" UW "_sn" = "eink_st_w_sn".
Proof. vm_compute. repeat split; reflexivity. Qed.
