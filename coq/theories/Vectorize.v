(* Vectorize.v — property C09: the statement and expression shapes that
   vectorization.Transformer rewrites, their array-form counterparts (pointwise semantics with
   STRICT where / logical_* : every argument is evaluated), the proofs that the rewritten form
   agrees with the original whenever it succeeds, the refutations for the two shapes the
   Transformer accepts but gets wrong, and a syntactic checker classifying every `if` of a rule. *)
From Coq Require Import ZArith QArith Qcanon Bool String List Lia.
From GettsimModel Require Import Num Val Ast Piecewise Eval.
Import ListNotations.
Open Scope string_scope.

Definition ewhere (c a b : expr) : expr := EBuiltin BWhere (ECons c (ECons a (ECons b ENil))).
Definition eland (a b : expr) : expr := EBuiltin BLogAnd (ECons a (ECons b ENil)).
Definition elor (a b : expr) : expr := EBuiltin BLogOr (ECons a (ECons b ENil)).
Definition elnot (a : expr) : expr := EBuiltin BLogNot (ECons a ENil).

Section Sound.
  Variable call : string -> list val -> res val.
  Notation ev := (eval call).
  Notation ex := (exec call).

  Lemma evals_cons rho e r : evals call rho (ECons e r) = do v <- ev rho e; do vs <- evals call rho r; Ok (v :: vs).
  Proof. reflexivity. Qed.
  Lemma evals_nil rho : evals call rho ENil = Ok [].
  Proof. reflexivity. Qed.
  Lemma eval_builtin rho b args : ev rho (EBuiltin b args) = do vs <- evals call rho args; apply_builtin b vs.
  Proof. reflexivity. Qed.
  Lemma eval_ife rho c a b : ev rho (EIfE c a b) = do x <- ev rho c; if truthy x then ev rho a else ev rho b.
  Proof. reflexivity. Qed.
  Lemma eval_and rho a b : ev rho (EAnd a b) = do x <- ev rho a; if truthy x then ev rho b else Ok x.
  Proof. reflexivity. Qed.
  Lemma eval_or rho a b : ev rho (EOr a b) = do x <- ev rho a; if truthy x then Ok x else ev rho b.
  Proof. reflexivity. Qed.
  Lemma eval_not rho a : ev rho (ENot a) = do x <- ev rho a; Ok (VBool (negb (truthy x))).
  Proof. reflexivity. Qed.

  Lemma eval_var rho x : ev rho (EVar x) = of_option EUnbound (lookup x rho).
  Proof. reflexivity. Qed.

  Lemma ev_where rho c a b :
    ev rho (ewhere c a b) =
    do vc <- ev rho c; do va <- ev rho a; do vb <- ev rho b; Ok (if truthy vc then va else vb).
  Proof.
    unfold ewhere. rewrite eval_builtin, !evals_cons, evals_nil.
    destruct (ev rho c); cbn [bind]; [|reflexivity]. destruct (ev rho a); cbn [bind]; [|reflexivity].
    destruct (ev rho b); cbn [bind apply_builtin]; reflexivity.
  Qed.

  (* x if c else y  ~>  where(c, x, y) : if the strict form succeeds it is the original's value *)
  Theorem ifexp_to_where rho c a b v :
    ev rho (ewhere c a b) = Ok v -> ev rho (EIfE c a b) = Ok v.
  Proof.
    rewrite ev_where, eval_ife. destruct (ev rho c) as [vc|]; cbn [bind]; [|discriminate].
    destruct (ev rho a) as [va|]; cbn [bind]; [|discriminate].
    destruct (ev rho b) as [vb|]; cbn [bind]; [|discriminate].
    destruct (truthy vc); intro H; exact H.
  Qed.

  (* a and b / a or b / not a: equal as conditions (same truth value) *)
  Theorem and_to_logical_and rho a b v :
    ev rho (eland a b) = Ok v -> exists w, ev rho (EAnd a b) = Ok w /\ truthy w = truthy v.
  Proof.
    unfold eland. rewrite eval_builtin, !evals_cons, evals_nil, eval_and.
    destruct (ev rho a) as [va|]; cbn [bind]; [|discriminate].
    destruct (ev rho b) as [vb|]; cbn [bind apply_builtin]; [|discriminate]. intro H. injection H as <-.
    destruct (truthy va) eqn:E; [exists vb | exists va]; split; try reflexivity; cbn; rewrite ?E; reflexivity.
  Qed.

  Theorem or_to_logical_or rho a b v :
    ev rho (elor a b) = Ok v -> exists w, ev rho (EOr a b) = Ok w /\ truthy w = truthy v.
  Proof.
    unfold elor. rewrite eval_builtin, !evals_cons, evals_nil, eval_or.
    destruct (ev rho a) as [va|]; cbn [bind]; [|discriminate].
    destruct (ev rho b) as [vb|]; cbn [bind apply_builtin]; [|discriminate]. intro H. injection H as <-.
    destruct (truthy va) eqn:E; [exists va | exists vb]; split; try reflexivity; cbn; rewrite ?E; reflexivity.
  Qed.

  Theorem not_to_logical_not rho a v : ev rho (elnot a) = Ok v -> ev rho (ENot a) = Ok v.
  Proof.
    unfold elnot. rewrite eval_builtin, evals_cons, evals_nil, eval_not.
    destruct (ev rho a) as [va|]; cbn [bind apply_builtin]; intro H; exact H.
  Qed.

  (* if c: x = a else: x = b   ~>   x = where(c, a, b) *)
  Theorem if_assign_to_where rho c x a b rho' :
    ex rho (SAssign x (ewhere c a b)) = ONormal rho' ->
    ex rho (SIf c (SAssign x a) (SAssign x b)) = ONormal rho'.
  Proof.
    cbn [exec]. destruct (ev rho (ewhere c a b)) as [v|] eqn:E; [|discriminate].
    intro H. injection H as <-. apply ifexp_to_where in E. rewrite eval_ife in E.
    destruct (ev rho c) as [vc|]; cbn [bind] in E; [|discriminate].
    destruct (truthy vc); cbn [exec]; rewrite E; reflexivity.
  Qed.

  (* if c: return a else: return b   ~>   return where(c, a, b) *)
  Theorem if_return_to_where rho c a b v :
    ex rho (SReturn (ewhere c a b)) = OReturn v ->
    ex rho (SIf c (SReturn a) (SReturn b)) = OReturn v.
  Proof.
    cbn [exec]. destruct (ev rho (ewhere c a b)) as [w|] eqn:E; [|discriminate].
    intro H. injection H as <-. apply ifexp_to_where in E. rewrite eval_ife in E.
    destruct (ev rho c) as [vc|]; cbn [bind] in E; [|discriminate].
    destruct (truthy vc); cbn [exec]; rewrite E; reflexivity.
  Qed.

  (* if c: x = a   (no else)   ~>   x = where(c, a, x)  — sound when x is bound *)
  Theorem if_assign_noelse_to_where rho c x a rho' old :
    lookup x rho = Some old ->
    ex rho (SAssign x (ewhere c a (EVar x))) = ONormal rho' ->
    match ex rho (SIf c (SAssign x a) SSkip) with
    | ONormal rho'' => forall y, lookup y rho'' = lookup y rho'
    | _ => False
    end.
  Proof.
    intros Hold. cbn [exec]. rewrite ev_where.
    assert (Hx : ev rho (EVar x) = Ok old) by (rewrite eval_var, Hold; reflexivity). rewrite Hx.
    destruct (ev rho c) as [vc|]; cbn [bind]; [|discriminate].
    destruct (ev rho a) as [va|]; cbn [bind]; [|discriminate].
    intro H. injection H as <-. destruct (truthy vc); cbn [exec].
    - intro y. reflexivity.
    - intro y. cbn [lookup]. destruct (String.eqb y x) eqn:E; [|reflexivity].
      apply String.eqb_eq in E. subst. exact Hold.
  Qed.

  (* if c: x += a else: x += b   ~>   x += where(c, a, b) *)
  Theorem if_aug_to_where rho c x op a b rho' :
    ex rho (SAug x op (ewhere c a b)) = ONormal rho' ->
    ex rho (SIf c (SAug x op a) (SAug x op b)) = ONormal rho'.
  Proof.
    cbn [exec]. destruct (lookup x rho) as [old|] eqn:El; [|discriminate].
    destruct (ev rho (ewhere c a b)) as [v|] eqn:E; [|discriminate].
    apply ifexp_to_where in E. rewrite eval_ife in E.
    destruct (ev rho c) as [vc|]; cbn [bind] in E; [|discriminate].
    destruct (truthy vc); cbn [exec]; rewrite E; intro H; exact H.
  Qed.
End Sound.

(* ---- the two shapes the Transformer accepts and gets wrong ---- *)

Definition no_call : string -> list val -> res val := fun _ _ => Err EUnbound.

(* if c: x += v   (no else)   ~>   x += where(c, v, x)   doubles x when c is false *)
Theorem augassign_noelse_refuted :
  let rho := [("c", VBool false); ("x", VInt 1)] in
  exec no_call rho (SIf (EVar "c") (SAug "x" Add (EInt 5)) SSkip) = ONormal rho /\
  exec no_call rho (SAug "x" Add (ewhere (EVar "c") (EInt 5) (EVar "x"))) = ONormal (("x", VInt 2) :: rho).
Proof. vm_compute. split; reflexivity. Qed.

(* if c: x = a else: y = b   ~>   x = where(c, a, b) : y is never assigned, x gets b *)
Theorem mismatched_targets_refuted :
  let rho := [("c", VBool false); ("x", VInt 1); ("y", VInt 2)] in
  exec no_call rho (SIf (EVar "c") (SAssign "x" (EInt 10)) (SAssign "y" (EInt 20))) = ONormal (("y", VInt 20) :: rho) /\
  exec no_call rho (SAssign "x" (ewhere (EVar "c") (EInt 10) (EInt 20))) = ONormal (("x", VInt 20) :: rho).
Proof. vm_compute. split; reflexivity. Qed.

(* ---- classification of every `if` of a rule ---- *)

Inductive ifshape := ShReturn | ShAssign | ShAssignNoElse | ShAug | ShNested | ShRejected | ShMixed | ShAugNoElse | ShMismatch.

Definition shape_name (s : ifshape) : string :=
  match s with
  | ShReturn => "return/return" | ShAssign => "assign/assign same target" | ShAssignNoElse => "assign without else"
  | ShAug => "augassign/augassign same target and operator" | ShNested => "nested if in a branch"
  | ShRejected => "rejected by the Transformer (several statements / return without else)"
  | ShMixed => "assignment and augmented assignment to the same target in different branches (not classified)"
  | ShAugNoElse => "augmented assignment without else (silently wrong)"
  | ShMismatch => "branches assign different targets / mix statement kinds (silently wrong)"
  end.

Definition binop_eqb (a b : binop) : bool :=
  match a, b with
  | Add, Add | Sub, Sub | Mul, Mul | Div, Div | FloorDiv, FloorDiv | Mod, Mod | Pow, Pow => true
  | _, _ => false
  end.

Definition classify_if (s1 s2 : stmt) : ifshape :=
  match s1, s2 with
  | SReturn _, SReturn _ => ShReturn
  | SAssign x _, SAssign y _ => if String.eqb x y then ShAssign else ShMismatch
  | SAssign _ _, SSkip => ShAssignNoElse
  | SAug x o _, SAug y o' _ => if String.eqb x y && binop_eqb o o' then ShAug else ShMismatch
  | SAug _ _ _, SSkip => ShAugNoElse
  | SAssign x _, SAug y _ _ | SAug x _ _, SAssign y _ => if String.eqb x y then ShMixed else ShMismatch
  | SReturn _, SSkip => ShRejected
  | SSeq _ _, _ | _, SSeq _ _ => ShRejected
  | _, SIf _ _ _ => ShNested
  | SIf _ _ _, _ => ShNested
  | SRaise _, _ | _, SRaise _ => ShRejected
  | _, _ => ShMismatch
  end.

Fixpoint if_shapes (s : stmt) : list ifshape :=
  match s with
  | SSeq a b => (if_shapes a ++ if_shapes b)%list
  | SIf _ a b => (classify_if a b :: if_shapes a ++ if_shapes b)%list
  | _ => []
  end.

Definition shape_unsound (s : ifshape) : bool :=
  match s with ShAugNoElse | ShMismatch => true | _ => false end.

Definition rule_unsound_shapes (f : fundef) : list ifshape :=
  match f_body f with Some b => filter shape_unsound (if_shapes b) | None => [] end.

(* reductions applied to a LIST of columns: min([a, b]) becomes numpy.min([a, b]), which reduces
   over the rows as well (one number for the whole table) *)
Definition is_reduction (b : builtin) : bool :=
  match b with BMin | BMax | BSum | BAny | BAll => true | _ => false end.

Fixpoint list_reductions (e : expr) : nat :=
  match e with
  | EBuiltin b (ECons (EListLit items) ENil) =>
      ((if is_reduction b then 1 else 0) + list_reductions_es items)%nat
  | EBuiltin _ args | ECall _ args | EListLit args => list_reductions_es args
  | EBin _ a b | EAnd a b | EOr a b | ECmp _ a b | EIn _ a b | ESub a b => (list_reductions a + list_reductions b)%nat
  | ENeg a | ENot a => list_reductions a
  | EIfE c a b => (list_reductions c + list_reductions a + list_reductions b)%nat
  | EComp body _ iter cond => (list_reductions body + list_reductions iter + list_reductions cond)%nat
  | _ => 0%nat
  end
with list_reductions_es (es : exprs) : nat :=
  match es with ENil => 0%nat | ECons e r => (list_reductions e + list_reductions_es r)%nat end.

Fixpoint list_reductions_s (s : stmt) : nat :=
  match s with
  | SSkip | SRaise _ => 0%nat
  | SSeq a b => (list_reductions_s a + list_reductions_s b)%nat
  | SAssign _ e | SAug _ _ e | SReturn e => list_reductions e
  | SIf c a b => (list_reductions c + list_reductions_s a + list_reductions_s b)%nat
  end.

(* reasons for which the array form of a rule may silently differ *)
Definition rule_risks (f : fundef) : list string :=
  match f_body f with
  | Some b => (map shape_name (filter shape_unsound (if_shapes b))
               ++ (if Nat.ltb 0 (list_reductions_s b) then ["reduction over a list of columns"] else []))%list
  | None => []
  end.

Definition risky_rules (ft : list (string * fundef)) : list string :=
  map fst (filter (fun nf => match rule_risks (snd nf) with [] => false | _ => true end) ft).

Definition risks_ok_except (known : list string) (ft : list (string * fundef)) : bool :=
  forallb (fun n => existsb (String.eqb n) known) (risky_rules ft).
