(* Eval.v — big-step interpreter for the restricted rule language. *)
From Coq Require Import ZArith QArith Qcanon Bool String List Lia.
From GettsimModel Require Import Num Val Ast Piecewise.
Import ListNotations.
Open Scope string_scope.

Definition env := list (string * val).

Fixpoint lookup (x : string) (e : env) : option val :=
  match e with
  | [] => None
  | (y, v) :: r => if String.eqb x y then Some v else lookup x r
  end.

Definition ftable := list (string * fundef).

Fixpoint flookup (x : string) (ft : ftable) : option fundef :=
  match ft with
  | [] => None
  | (y, f) :: r => if String.eqb x y then Some f else flookup x r
  end.

(* ---- helpers on values ---- *)

Definition as_xq (v : val) : res xq :=
  match as_num v with Some n => Ok (num_x n) | None => Err EType end.

Fixpoint as_xq_list (l : list val) : res (list xq) :=
  match l with
  | [] => Ok []
  | v :: r => do x <- as_xq v; do xs <- as_xq_list r; Ok (x :: xs)
  end.

Definition as_list (v : val) : res (list val) :=
  match v with
  | VList l => Ok l
  | VDict d => Ok (map (fun kv => key_val (fst kv)) d)   (* iterating a dict yields keys *)
  | _ => Err EType
  end.

Definition as_xq_row (v : val) : res (list xq) :=
  do l <- as_list v; as_xq_list l.

Fixpoint as_xq_rows (l : list val) : res (list (list xq)) :=
  match l with
  | [] => Ok []
  | v :: r => do x <- as_xq_row v; do xs <- as_xq_rows r; Ok (x :: xs)
  end.

Definition mk_sched (t r i : val) : res sched :=
  do tl <- as_xq_row t;
  do rl0 <- as_list r;
  do rl <- as_xq_rows rl0;
  do il <- as_xq_row i;
  Ok {| thr := tl; rates := rl; icpt := il |}.

(* insertion sort on numbers (sorted(...) of ints / floats) *)
Fixpoint insert_sorted (x : val) (l : list val) : res (list val) :=
  match l with
  | [] => Ok [x]
  | y :: r =>
      do b <- lt_val x y;
      if b then Ok (x :: y :: r)
      else do r' <- insert_sorted x r; Ok (y :: r')
  end.

Fixpoint py_sorted (l : list val) : res (list val) :=
  match l with
  | [] => Ok []
  | x :: r => do r' <- py_sorted r; insert_sorted x r'
  end.

Definition apply_builtin (b : builtin) (args : list val) : res val :=
  match b, args with
  | BMin, [v] => do l <- as_list v; py_min l
  | BMin, _ => py_min args
  | BMax, [v] => do l <- as_list v; py_max l
  | BMax, _ => py_max args
  | BSum, [v] => do l <- as_list v; py_sum (VInt 0) l
  | BAny, [v] => do l <- as_list v; Ok (VBool (existsb truthy l))
  | BAll, [v] => do l <- as_list v; Ok (VBool (forallb truthy l))
  | BFloat, [v] => py_float v
  | BInt, [v] => py_int v
  | BAbs, [v] =>
      match as_num v with
      | Some (NI z) => Ok (VInt (Z.abs z))
      | Some (NF x) => Ok (VFloat (if xq_ltb x (xz 0) then xq_neg x else x))
      | None => Err EType
      end
  | BLen, [v] =>
      match v with
      | VList l => Ok (VInt (Z.of_nat (length l)))
      | VDict l => Ok (VInt (Z.of_nat (length l)))
      | _ => Err EType
      end
  | BSorted, [v] => do l <- as_list v; do s <- py_sorted l; Ok (VList s)
  | BList, [v] => do l <- as_list v; Ok (VList l)
  | BNpArray, [v] => do l <- as_list v; Ok (VList l)
  | BRange, [VInt a; VInt b] => Ok (VList (map VInt (zrange a b)))
  | BRange, [VInt b] => Ok (VList (map VInt (zrange 0 b)))
  | BKeys, [VDict d] => Ok (VList (map (fun kv => key_val (fst kv)) d))
  | BValues, [VDict d] => Ok (VList (map snd d))
  | BIsInt, [v] => Ok (VBool (match v with VInt _ => true | VBool _ => true | _ => false end))
  | BSearchRight, [a; v] =>
      do l <- as_xq_row a; do x <- as_xq v;
      Ok (VInt (Z.of_nat (search_right x l)))
  | BSearchLeft, [a; v] =>
      do l <- as_xq_row a; do x <- as_xq v;
      Ok (VInt (Z.of_nat (search_left x l)))
  | BConcat, [a; b0] => do la <- as_list a; do lb <- as_list b0; Ok (VList (la ++ lb))
  | BRepeat, [a; VInt n] => do la <- as_list a;
      Ok (VList (concat (repeat la (Z.to_nat n))))
  | BGet, [VDict d; k; dflt] =>
      match as_key k with
      | Some key => match dict_get key d with Some v => Ok v | None => Ok dflt end
      | None => Ok dflt
      end
  | BWhere, [c; a; b0] => Ok (if truthy c then a else b0)
  | BLogAnd, [a; b0] => Ok (VBool (truthy a && truthy b0))
  | BLogOr, [a; b0] => Ok (VBool (truthy a || truthy b0))
  | BLogNot, [a] => Ok (VBool (negb (truthy a)))
  | BPiecewise, [x; t; r; i] =>
      do s <- mk_sched t r i; do xx <- as_xq x;
      do y <- pp_impl s xx None; Ok (VFloat y)
  | BPiecewiseMult, [x; t; r; i; m] =>
      do s <- mk_sched t r i; do xx <- as_xq x; do mm <- as_xq m;
      do y <- pp_impl s xx (Some mm); Ok (VFloat y)
  | _, _ => Err EType
  end.

Fixpoint comp_go (f : val -> res (option val)) (l : list val) : res (list val) :=
  match l with
  | [] => Ok []
  | v :: r =>
      do o <- f v; do ys <- comp_go f r;
      Ok (match o with Some y => y :: ys | None => ys end)
  end.

Inductive outcome :=
| ONormal (e : env)
| OReturn (v : val)
| OError (e : err).

Section WithCall.
  (* how a module-local helper is called; instantiated by fuel below *)
  Variable call : string -> list val -> res val.

  Fixpoint eval (rho : env) (e : expr) {struct e} : res val :=
    match e with
    | EInt z => Ok (VInt z)
    | EFloat q => Ok (VFloat (XFin q))
    | EInf => Ok (VFloat XPosInf)
    | EBool b => Ok (VBool b)
    | EStr s => Ok (VStr s)
    | ENone => Ok VNone
    | EVar x => of_option EUnbound (lookup x rho)
    | EBin op a b => do x <- eval rho a; do y <- eval rho b; arith op x y
    | ENeg a => do x <- eval rho a; neg x
    | ENot a => do x <- eval rho a; Ok (VBool (negb (truthy x)))
    | EAnd a b => do x <- eval rho a; if truthy x then eval rho b else Ok x
    | EOr a b => do x <- eval rho a; if truthy x then Ok x else eval rho b
    | ECmp op a b => do x <- eval rho a; do y <- eval rho b; compare op x y
    | EIn ng a d =>
        do x <- eval rho a; do c <- eval rho d;
        match c with
        | VDict l =>
            let r := match as_key x with
                     | Some k => match dict_get k l with Some _ => true | None => false end
                     | None => false end in
            Ok (VBool (xorb ng r))
        | VList l =>
            let r := existsb (fun y => match compare Eq x y with
                                       | Ok (VBool true) => true | _ => false end) l in
            Ok (VBool (xorb ng r))
        | _ => Err EType
        end
    | EIfE c a b => do x <- eval rho c; if truthy x then eval rho a else eval rho b
    | ESub a k => do x <- eval rho a; do y <- eval rho k; subscript x y
    | ECall f args => do vs <- evals rho args; call f vs
    | EBuiltin b args => do vs <- evals rho args; apply_builtin b vs
    | EListLit args => do vs <- evals rho args; Ok (VList vs)
    | EComp body x iter cond =>
        do it <- eval rho iter;
        do items <- as_list it;
        do l <- comp_go (fun v =>
                 let rho' := (x, v) :: rho in
                 do c <- eval rho' cond;
                 if truthy c then do y <- eval rho' body; Ok (Some y) else Ok None)
               items;
        Ok (VList l)
    end
  with evals (rho : env) (es : exprs) {struct es} : res (list val) :=
    match es with
    | ENil => Ok []
    | ECons e r => do v <- eval rho e; do vs <- evals rho r; Ok (v :: vs)
    end.

  Fixpoint exec (rho : env) (s : stmt) : outcome :=
    match s with
    | SSkip => ONormal rho
    | SSeq a b =>
        match exec rho a with
        | ONormal rho' => exec rho' b
        | o => o
        end
    | SAssign x e =>
        match eval rho e with
        | Ok v => ONormal ((x, v) :: rho)
        | Err er => OError er
        end
    | SAug x op e =>
        match lookup x rho with
        | None => OError EUnbound
        | Some old =>
            match eval rho e with
            | Ok v => match arith op old v with
                      | Ok r => ONormal ((x, r) :: rho)
                      | Err er => OError er end
            | Err er => OError er
            end
        end
    | SIf c a b =>
        match eval rho c with
        | Ok v => if truthy v then exec rho a else exec rho b
        | Err er => OError er
        end
    | SReturn e =>
        match eval rho e with Ok v => OReturn v | Err er => OError er end
    | SRaise er => OError er
    end.

  Fixpoint bind_args (ps : list (string * option annot)) (vs : list val) : res env :=
    match ps, vs with
    | [], [] => Ok []
    | (p, _) :: pr, v :: vr => do r <- bind_args pr vr; Ok ((p, v) :: r)
    | _, _ => Err EType
    end.

  Definition run_body (fd : fundef) (vs : list val) : res val :=
    match f_body fd with
    | None => Err ENotImpl                 (* opaque to the translator *)
    | Some body =>
        do rho <- bind_args (f_args fd) vs;
        match exec rho body with
        | OReturn v => Ok v
        | ONormal _ => Ok VNone            (* fell off the end *)
        | OError er => Err er
        end
    end.
End WithCall.

Fixpoint call_fuel (ft : ftable) (fuel : nat) (f : string) (vs : list val) : res val :=
  match fuel with
  | O => Err EFuel
  | S n =>
      match flookup f ft with
      | None => Err EUnbound
      | Some fd => run_body (call_fuel ft n) fd vs
      end
  end.

Definition default_fuel : nat := 12.

(* call a rule of the function table on positional arguments *)
Definition call_rule (ft : ftable) (fd : fundef) (vs : list val) : res val :=
  run_body (call_fuel ft default_fuel) fd vs.
