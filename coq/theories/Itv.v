(* Itv.v — interval arithmetic over exact rationals with optional bounds (None = unbounded on that
   side), used by the abstract interpreter of Absint.v.  Every operation comes with its
   enclosure lemma. *)
From Coq Require Import ZArith QArith Qcanon Bool List Lia.
From GettsimModel Require Import Num NumTac.
Import ListNotations.
Open Scope Qc_scope.

Definition obound := option Qc.
Definition ole (l : obound) (q : Qc) : Prop := match l with Some a => a <= q | None => True end.
Definition oge (h : obound) (q : Qc) : Prop := match h with Some b => q <= b | None => True end.

Record itv := { lo : obound; hi : obound }.
Definition inb (i : itv) (q : Qc) : Prop := ole (lo i) q /\ oge (hi i) q.

Definition itop : itv := {| lo := None; hi := None |}.
Definition ipoint (q : Qc) : itv := {| lo := Some q; hi := Some q |}.
Definition inn : itv := {| lo := Some 0; hi := None |}.
Definition ibool : itv := {| lo := Some 0; hi := Some 1 |}.

Lemma inb_top q : inb itop q. Proof. split; exact I. Qed.
Lemma inb_point q : inb (ipoint q) q. Proof. split; cbn; qlra. Qed.

Definition o2 (f : Qc -> Qc -> Qc) (a b : obound) : obound :=
  match a, b with Some x, Some y => Some (f x y) | _, _ => None end.
Definition omap (f : Qc -> Qc) (a : obound) : obound := match a with Some x => Some (f x) | None => None end.

Definition qmin (a b : Qc) : Qc := if Qcleb a b then a else b.
Definition qmax (a b : Qc) : Qc := if Qcleb a b then b else a.

Ltac qcases :=
  repeat match goal with
  | |- context [Qcleb ?a ?b] => let E := fresh "E" in destruct (Qcleb a b) eqn:E; [apply Qcleb_iff in E | apply Qcleb_false_iff in E]
  | |- context [Qcltb ?a ?b] => let E := fresh "E" in destruct (Qcltb a b) eqn:E; [apply Qcltb_iff in E | apply Qcltb_false_iff in E]
  end.

Definition nonneg (i : itv) : bool := match lo i with Some a => Qcleb 0 a | None => false end.
Lemma nonneg_ok i q : nonneg i = true -> inb i q -> 0 <= q.
Proof. unfold nonneg, inb, ole. destruct (lo i); [|discriminate]. intros H [H1 _]. apply Qcleb_iff in H. qlra. Qed.

Definition is_point (i : itv) : option Qc :=
  match lo i, hi i with Some a, Some b => if Qceqb a b then Some a else None | _, _ => None end.
Lemma is_point_ok i c q : is_point i = Some c -> inb i q -> q = c.
Proof.
  unfold is_point, inb, ole, oge. destruct (lo i) as [a|], (hi i) as [b|]; try discriminate.
  destruct (Qceqb a b) eqn:E; [|discriminate]. intro H. injection H as <-. apply Qceqb_iff in E. subst b.
  intros [H1 H2]. apply Qcle_antisym; assumption.
Qed.

(* ---- addition, subtraction, negation ---- *)
Definition iadd (i j : itv) : itv := {| lo := o2 Qcplus (lo i) (lo j); hi := o2 Qcplus (hi i) (hi j) |}.
Lemma iadd_ok i j p q : inb i p -> inb j q -> inb (iadd i j) (p + q).
Proof.
  unfold inb, iadd, ole, oge. cbn. intros [A B] [C D].
  split; [destruct (lo i), (lo j) | destruct (hi i), (hi j)]; cbn; auto; qlra.
Qed.

Definition isub (i j : itv) : itv := {| lo := o2 Qcminus (lo i) (hi j); hi := o2 Qcminus (hi i) (lo j) |}.
Lemma isub_ok i j p q : inb i p -> inb j q -> inb (isub i j) (p - q).
Proof.
  unfold inb, isub, ole, oge. cbn. intros [A B] [C D].
  split; [destruct (lo i), (hi j) | destruct (hi i), (lo j)]; cbn; auto; qlra.
Qed.

Definition ineg (i : itv) : itv := {| lo := omap Qcopp (hi i); hi := omap Qcopp (lo i) |}.
Lemma ineg_ok i p : inb i p -> inb (ineg i) (- p).
Proof.
  unfold inb, ineg, ole, oge. cbn. intros [A B].
  split; [destruct (hi i) | destruct (lo i)]; cbn; auto; qlra.
Qed.

(* ---- scaling by a constant ---- *)
Definition iscale (c : Qc) (i : itv) : itv :=
  if Qcleb 0 c then {| lo := omap (Qcmult c) (lo i); hi := omap (Qcmult c) (hi i) |}
  else {| lo := omap (Qcmult c) (hi i); hi := omap (Qcmult c) (lo i) |}.
Lemma iscale_ok c i p : inb i p -> inb (iscale c i) (c * p).
Proof.
  unfold inb, iscale, ole, oge. intros [A B]. destruct (Qcleb 0 c) eqn:E; cbn.
  - apply Qcleb_iff in E. split; [destruct (lo i) | destruct (hi i)]; cbn; auto; qnra.
  - apply Qcleb_false_iff in E. split; [destruct (hi i) | destruct (lo i)]; cbn; auto; qnra.
Qed.

(* ---- multiplication ---- *)
Definition imul (i j : itv) : itv :=
  match is_point i, is_point j with
  | Some c, _ => iscale c j
  | _, Some c => iscale c i
  | None, None =>
      if nonneg i && nonneg j
      then {| lo := o2 Qcmult (lo i) (lo j); hi := o2 Qcmult (hi i) (hi j) |}
      else itop
  end.

Lemma imul_ok i j p q : inb i p -> inb j q -> inb (imul i j) (p * q).
Proof.
  intros Hi Hj. unfold imul.
  destruct (is_point i) as [c|] eqn:Pi.
  - rewrite (is_point_ok i c p Pi Hi). apply iscale_ok. exact Hj.
  - destruct (is_point j) as [c|] eqn:Pj.
    + rewrite (is_point_ok j c q Pj Hj). rewrite Qcmult_comm. apply iscale_ok. exact Hi.
    + destruct (nonneg i && nonneg j) eqn:E; [|apply inb_top].
      apply andb_true_iff in E. destruct E as [E1 E2].
      pose proof (nonneg_ok i p E1 Hi) as Hp. pose proof (nonneg_ok j q E2 Hj) as Hq.
      unfold nonneg in E1, E2. unfold inb, ole, oge in *. cbn.
      destruct Hi as [A B]. destruct Hj as [C D].
      destruct (lo i) as [a|]; [|discriminate]. destruct (lo j) as [c|]; [|discriminate].
      apply Qcleb_iff in E1. apply Qcleb_iff in E2. cbn.
      split; [qnra|]. destruct (hi i) as [b|], (hi j) as [d|]; cbn; auto. qnra.
Qed.

(* ---- division ---- *)
Lemma qdiv_as_mul (p q : Qc) : p / q = / q * p.
Proof. unfold Qcdiv. apply Qcmult_comm. Qed.

Lemma qinv_pos (q : Qc) : 0 < q -> 0 < / q.
Proof.
  intro Hq. destruct (Qclt_le_dec 0 (/ q)) as [H|H]; [exact H|exfalso].
  assert (Hn : q <> 0) by (intro E; subst; qlra).
  assert (E : q * / q = 1) by (apply Qcmult_inv_r; exact Hn).
  assert (q * / q <= 0) by qnra. rewrite E in H0. qlra.
Qed.

Definition idiv (i j : itv) : itv :=
  match is_point j with
  | Some c => iscale (/ c) i
  | None =>
      if nonneg i && nonneg j
      then {| lo := match hi j with
                    | Some d => match lo i with Some a => Some (a / d) | None => Some 0 end
                    | None => Some 0 end;
              hi := match lo j, hi i with
                    | Some c, Some b => if Qcltb 0 c then Some (b / c) else None
                    | _, _ => None end |}
      else itop
  end.

Lemma idiv_ok i j p q : q <> 0 -> inb i p -> inb j q -> inb (idiv i j) (p / q).
Proof.
  intros Hn Hi Hj. unfold idiv.
  destruct (is_point j) as [c|] eqn:Pj.
  - rewrite (is_point_ok j c q Pj Hj). rewrite qdiv_as_mul. apply iscale_ok. exact Hi.
  - destruct (nonneg i && nonneg j) eqn:E; [|apply inb_top].
    apply andb_true_iff in E. destruct E as [E1 E2].
    pose proof (nonneg_ok i p E1 Hi) as Hp. pose proof (nonneg_ok j q E2 Hj) as Hq0.
    assert (Hq : 0 < q). { destruct (Qclt_le_dec 0 q) as [H|H]; [exact H|]. exfalso. apply Hn. apply Qcle_antisym; assumption. }
    pose proof (qinv_pos q Hq) as Hiq.
    assert (Eq : q * / q = 1) by (apply Qcmult_inv_r; exact Hn).
    unfold nonneg in E1, E2. unfold inb, ole, oge in *. cbn.
    destruct Hi as [A B]. destruct Hj as [C D].
    destruct (lo i) as [a|]; [|discriminate]. destruct (lo j) as [c|]; [|discriminate].
    apply Qcleb_iff in E1. apply Qcleb_iff in E2.
    unfold Qcdiv. set (iq := / q) in *.
    split.
    + destruct (hi j) as [d|]; cbn.
      * (* a / d <= p / q *)
        assert (Hd : 0 < d) by qlra. pose proof (qinv_pos d Hd) as Hid.
        assert (Ed : d * / d = 1) by (apply Qcmult_inv_r; intro Ez; subst; qlra).
        set (id := / d) in *.
        (* id <= iq because q <= d *)
        assert (Hle : id <= iq).
        { assert (X1 : id = q * (id * iq)) by (transitivity (id * (q * iq)); [rewrite Eq; ring | ring]).
          assert (X2 : iq = d * (id * iq)) by (transitivity (iq * (d * id)); [rewrite Ed; ring | ring]).
          assert (Hpos : 0 <= id * iq) by (clearbody iq id; qnra).
          set (m := id * iq) in *. clearbody m. rewrite X1, X2. clearbody iq id. qnra. }
        clearbody iq id. qnra.
      * clearbody iq. qnra.
    + destruct (hi i) as [b|]; cbn; auto.
      destruct (Qcltb 0 c) eqn:Ec; cbn; auto. apply Qcltb_iff in Ec.
      pose proof (qinv_pos c Ec) as Hic.
      assert (Ecc : c * / c = 1) by (apply Qcmult_inv_r; intro Ez; subst; qlra).
      set (ic := / c) in *.
      assert (Hle : iq <= ic).
      { assert (X1 : iq = c * (iq * ic)) by (transitivity (iq * (c * ic)); [rewrite Ecc; ring | ring]).
        assert (X2 : ic = q * (iq * ic)) by (transitivity (ic * (q * iq)); [rewrite Eq; ring | ring]).
        assert (Hpos : 0 <= iq * ic) by (clearbody iq ic; qnra).
        set (m := iq * ic) in *. clearbody m. rewrite X1, X2. clearbody iq ic. qnra. }
      clearbody iq ic. qnra.
Qed.

(* ---- max / min / hull ---- *)
Definition imax (i j : itv) : itv :=
  {| lo := match lo i, lo j with Some a, Some b => Some (qmax a b) | Some a, None => Some a | None, o => o end;
     hi := o2 qmax (hi i) (hi j) |}.
Lemma imax_ok i j p q : inb i p -> inb j q -> inb (imax i j) (qmax p q).
Proof.
  unfold inb, imax, ole, oge, qmax. cbn. intros [A B] [C D].
  split; [destruct (lo i), (lo j) | destruct (hi i), (hi j)]; cbn; auto; unfold qmax; qcases; qlra.
Qed.

Definition imin (i j : itv) : itv :=
  {| lo := o2 qmin (lo i) (lo j);
     hi := match hi i, hi j with Some a, Some b => Some (qmin a b) | Some a, None => Some a | None, o => o end |}.
Lemma imin_ok i j p q : inb i p -> inb j q -> inb (imin i j) (qmin p q).
Proof.
  unfold inb, imin, ole, oge, qmin. cbn. intros [A B] [C D].
  split; [destruct (lo i), (lo j) | destruct (hi i), (hi j)]; cbn; auto; unfold qmin; qcases; qlra.
Qed.

Definition ihull (i j : itv) : itv := {| lo := o2 qmin (lo i) (lo j); hi := o2 qmax (hi i) (hi j) |}.
Lemma ihull_l i j p : inb i p -> inb (ihull i j) p.
Proof.
  unfold inb, ihull, ole, oge. cbn. intros [A B].
  split; [destruct (lo i), (lo j) | destruct (hi i), (hi j)]; cbn; auto; unfold qmin, qmax; qcases; qlra.
Qed.
Lemma ihull_r i j p : inb j p -> inb (ihull i j) p.
Proof.
  unfold inb, ihull, ole, oge. cbn. intros [A B].
  split; [destruct (lo i), (lo j) | destruct (hi i), (hi j)]; cbn; auto; unfold qmin, qmax; qcases; qlra.
Qed.

(* hull of a non-empty list of points *)
Fixpoint hull_pts (l : list Qc) : option itv :=
  match l with
  | [] => None
  | [q] => Some (ipoint q)
  | q :: r => match hull_pts r with Some i => Some (ihull (ipoint q) i) | None => None end
  end.
Lemma hull_pts_ok l : forall i q, hull_pts l = Some i -> In q l -> inb i q.
Proof.
  induction l as [|x r IH]; intros i q H Hin; [discriminate|].
  destruct r as [|y r'].
  - cbn in H. injection H as <-. destruct Hin as [<-|[]]. apply inb_point.
  - change (hull_pts (x :: y :: r')) with (match hull_pts (y :: r') with Some i => Some (ihull (ipoint x) i) | None => None end) in H.
    destruct (hull_pts (y :: r')) as [i'|]; [|discriminate]. injection H as <-.
    destruct Hin as [<-|Hin]; [apply ihull_l; apply inb_point | apply ihull_r; apply (IH i' q eq_refl Hin)].
Qed.

(* widening of the bounds: i is contained in j *)
Definition isubset (i j : itv) : bool :=
  match lo j with None => true | Some b => match lo i with Some a => Qcleb b a | None => false end end &&
  match hi j with None => true | Some b => match hi i with Some a => Qcleb a b | None => false end end.
Lemma isubset_ok i j q : isubset i j = true -> inb i q -> inb j q.
Proof.
  unfold isubset, inb, ole, oge. intros H [A B]. apply andb_true_iff in H. destruct H as [H1 H2].
  split.
  - destruct (lo j); auto. destruct (lo i); [|discriminate]. apply Qcleb_iff in H1. qlra.
  - destruct (hi j); auto. destruct (hi i); [|discriminate]. apply Qcleb_iff in H2. qlra.
Qed.

(* boolean membership *)
Definition inb_b (i : itv) (q : Qc) : bool :=
  match lo i with Some a => Qcleb a q | None => true end && match hi i with Some b => Qcleb q b | None => true end.
Lemma inb_b_complete i q : inb i q -> inb_b i q = true.
Proof.
  unfold inb, inb_b, ole, oge. intros [A B]. apply andb_true_iff. split.
  - destruct (lo i); [apply Qcleb_iff; exact A | reflexivity].
  - destruct (hi i); [apply Qcleb_iff; exact B | reflexivity].
Qed.
