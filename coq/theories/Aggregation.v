(* Aggregation.v — model of _gettsim.aggregation_numpy (numpy_groupies.aggregate based
   group aggregates, sum_by_p_id) and shared.join_numpy, their mathematical
   specifications, and the proofs model = specification, for ALL columns and ALL
   assignments of rows to groups (unsorted, sparse, non-contiguous ids). *)
From Coq Require Import ZArith QArith Qcanon Bool String List Lia Permutation.
From GettsimModel Require Import Num Val.
Import ListNotations.
Open Scope Z_scope.

(* ---------------------------------------------------------------- *)
(* 1. accumulation into an id-indexed table (npg.aggregate)           *)

Section Acc.
  Context {A : Type}.
  Variable op : A -> A -> A.

  Fixpoint acc_upd (k : Z) (v : A) (m : list (Z * A)) : list (Z * A) :=
    match m with
    | [] => [(k, v)]
    | (k', a) :: r => if k =? k' then (k', op a v) :: r else (k', a) :: acc_upd k v r
    end.

  Fixpoint alookup (k : Z) (m : list (Z * A)) : option A :=
    match m with
    | [] => None
    | (k', a) :: r => if k =? k' then Some a else alookup k r
    end.

  Definition accumulate_from (m : list (Z * A)) (rows : list (Z * A)) : list (Z * A) :=
    fold_left (fun m kv => acc_upd (fst kv) (snd kv) m) rows m.

  Definition accumulate (rows : list (Z * A)) : list (Z * A) := accumulate_from [] rows.

  (* the values of the rows whose key is k, in row order *)
  Definition select (k : Z) (rows : list (Z * A)) : list A :=
    map snd (filter (fun kv => k =? fst kv) rows).

  Definition fold1 (l : list A) : option A :=
    match l with [] => None | x :: r => Some (fold_left op r x) end.

  Definition ext (o : option A) (l : list A) : option A :=
    match o with
    | None => fold1 l
    | Some a => Some (fold_left op l a)
    end.

  Lemma alookup_upd_same k v m :
    alookup k (acc_upd k v m) = Some (match alookup k m with Some a => op a v | None => v end).
  Proof.
    induction m as [|[k' a] r IH]; cbn [acc_upd alookup].
    - rewrite Z.eqb_refl. reflexivity.
    - destruct (k =? k') eqn:E; cbn [alookup]; rewrite E; [reflexivity | exact IH].
  Qed.

  Lemma alookup_upd_other k k2 v m : k <> k2 -> alookup k (acc_upd k2 v m) = alookup k m.
  Proof.
    intro Hn. induction m as [|[k' a] r IH]; cbn [acc_upd alookup].
    - destruct (k =? k2) eqn:E; [apply Z.eqb_eq in E; contradiction | reflexivity].
    - destruct (k2 =? k') eqn:E2; cbn [alookup].
      + apply Z.eqb_eq in E2. subst k'. destruct (k =? k2) eqn:E; [apply Z.eqb_eq in E; contradiction | reflexivity].
      + destruct (k =? k'); [reflexivity | exact IH].
  Qed.

  Lemma alookup_accumulate_from k rows : forall m,
    alookup k (accumulate_from m rows) = ext (alookup k m) (select k rows).
  Proof.
    induction rows as [|[k2 v] r IH]; intro m; cbn [accumulate_from fold_left].
    - unfold select. cbn. destruct (alookup k m); reflexivity.
    - cbn [fst snd]. change (fold_left (fun m0 kv => acc_upd (fst kv) (snd kv) m0) r (acc_upd k2 v m))
        with (accumulate_from (acc_upd k2 v m) r).
      rewrite IH. unfold select. cbn [filter fst snd].
      destruct (k =? k2) eqn:E.
      + apply Z.eqb_eq in E. subst k2. rewrite alookup_upd_same. cbn [map snd].
        destruct (alookup k m); reflexivity.
      + assert (k <> k2) by (intro; subst; rewrite Z.eqb_refl in E; discriminate).
        rewrite alookup_upd_other by assumption. reflexivity.
  Qed.

  (* THE table lemma: entry k of the accumulated table is the fold of the values of
     exactly the rows with key k *)
  Theorem alookup_accumulate k rows : alookup k (accumulate rows) = fold1 (select k rows).
  Proof. unfold accumulate. rewrite alookup_accumulate_from. reflexivity. Qed.

  (* expansion back to row level: out = out_on_group[group_id] *)
  Definition grouped (keys : list Z) (vals : list A) : list (option A) :=
    let t := accumulate (combine keys vals) in map (fun k => alookup k t) keys.

  Theorem grouped_spec keys vals i k :
    nth_error keys i = Some k ->
    nth_error (grouped keys vals) i = Some (fold1 (select k (combine keys vals))).
  Proof.
    intro H. unfold grouped. rewrite nth_error_map, H. cbn. rewrite alookup_accumulate. reflexivity.
  Qed.

  (* every member of a group reads the same value *)
  Theorem grouped_const keys vals i j k :
    nth_error keys i = Some k -> nth_error keys j = Some k ->
    nth_error (grouped keys vals) i = nth_error (grouped keys vals) j.
  Proof. intros Hi Hj. rewrite (grouped_spec _ _ _ _ Hi), (grouped_spec _ _ _ _ Hj). reflexivity. Qed.

  Lemma grouped_length keys vals : length (grouped keys vals) = length keys.
  Proof. unfold grouped. apply map_length. Qed.

  (* ---- order independence for commutative, associative operations ---- *)
  Hypothesis op_comm : forall a b, op a b = op b a.
  Hypothesis op_assoc : forall a b c, op (op a b) c = op a (op b c).

  Lemma fold_left_op_shift l : forall a b, fold_left op l (op a b) = op a (fold_left op l b).
  Proof.
    induction l as [|x r IH]; intros a b; cbn; [reflexivity|].
    rewrite op_assoc. apply IH.
  Qed.

  Lemma fold_left_perm l1 l2 : Permutation l1 l2 -> forall a, fold_left op l1 a = fold_left op l2 a.
  Proof.
    induction 1 as [|x l l' _ IH|x y l|l l' l'' _ IH1 _ IH2]; intro a; cbn.
    - reflexivity.
    - apply IH.
    - f_equal. rewrite !op_assoc. f_equal. apply op_comm.
    - rewrite IH1. apply IH2.
  Qed.

  (* right-nested form of the same reduction *)
  Fixpoint osum (l : list A) : option A :=
    match l with
    | [] => None
    | x :: r => Some (match osum r with None => x | Some s => op x s end)
    end.

  Lemma fold1_osum l : fold1 l = osum l.
  Proof.
    destruct l as [|x r]; [reflexivity|]. cbn [fold1 osum]. f_equal.
    revert x. induction r as [|y r IH]; intro x; cbn [fold_left osum]; [reflexivity|].
    rewrite fold_left_op_shift. rewrite IH. reflexivity.
  Qed.

  Lemma osum_perm l1 l2 : Permutation l1 l2 -> osum l1 = osum l2.
  Proof.
    induction 1 as [|x l l' _ IH|x y l|l l' l'' _ IH1 _ IH2]; cbn [osum].
    - reflexivity.
    - rewrite IH. reflexivity.
    - f_equal. destruct (osum l) as [s|].
      + rewrite <- !op_assoc. f_equal. apply op_comm.
      + apply op_comm.
    - rewrite IH1. exact IH2.
  Qed.

  Theorem fold1_perm l1 l2 : Permutation l1 l2 -> fold1 l1 = fold1 l2.
  Proof. intro P. rewrite !fold1_osum. apply osum_perm. exact P. Qed.
End Acc.

(* ---------------------------------------------------------------- *)
(* 2. the seven group aggregates on typed columns                     *)

From GettsimModel Require Import Column.

Definition keys_ok (g : list Z) : bool := forallb (fun k => 0 <=? k) g.   (* npg rejects negative ids *)

Definition grouped_total {A} (op : A -> A -> A) (dflt : A) (g : list Z) (l : list A) : list A :=
  map (fun o => match o with Some a => a | None => dflt end) (grouped op g l).

Definition b2z (b : bool) : Z := if b then 1 else 0.

Definition guard {A} (g : list Z) (n : nat) (k : res A) : res A :=
  if negb (Nat.eqb (length g) n) then Err EValue
  else if negb (keys_ok g) then Err EValue else k.

Definition xq_max (a b : xq) : xq :=
  match a, b with
  | XNaN, _ | _, XNaN => XNaN
  | _, _ => if xq_ltb a b then b else a
  end.
Definition xq_min (a b : xq) : xq :=
  match a, b with
  | XNaN, _ | _, XNaN => XNaN
  | _, _ => if xq_ltb b a then b else a
  end.

Definition grouped_sum (c : column) (g : list Z) : res column :=
  match c with
    | CInt l => guard g (col_len c) (Ok (CInt (grouped_total Z.add 0 g l)))
    | CBool l => guard g (col_len c) (Ok (CInt (grouped_total Z.add 0 g (map b2z l))))
    | CFloat l => guard g (col_len c) (Ok (CFloat (grouped_total xq_add (xz 0) g l)))
    | CDate _ => Err EType
    end.

(* numpy.ones(n) is float: the count is a float64 column *)
Definition grouped_count (g : list Z) : res column :=
  guard g (length g) (Ok (CFloat (map xz (grouped_total Z.add 0 g (map (fun _ => 1) g))))).

Definition xq_div_tot (a b : xq) : xq := match xq_div a b with Some r => r | None => XNaN end.

Definition grouped_mean (c : column) (g : list Z) : res column :=
  match c with
  | CFloat l =>
      guard g (col_len c)
        (let s := grouped_total xq_add (xz 0) g l in
         let n := grouped_total Z.add 0 g (map (fun _ => 1) g) in
         Ok (CFloat (map (fun sn => xq_div_tot (fst sn) (xz (snd sn))) (combine s n))))
  | _ => Err EType
  end.

Definition grouped_max (c : column) (g : list Z) : res column :=
  match c with
    | CInt l => guard g (col_len c) (Ok (CInt (grouped_total Z.max 0 g l)))
    | CFloat l => guard g (col_len c) (Ok (CFloat (grouped_total xq_max (xz 0) g l)))
    | CDate l => guard g (col_len c) (Ok (CDate (grouped_total Z.max 0 g l)))
    | CBool _ => Err EType
    end.

Definition grouped_min (c : column) (g : list Z) : res column :=
  match c with
    | CInt l => guard g (col_len c) (Ok (CInt (grouped_total Z.min 0 g l)))
    | CFloat l => guard g (col_len c) (Ok (CFloat (grouped_total xq_min (xz 0) g l)))
    | CDate l => guard g (col_len c) (Ok (CDate (grouped_total Z.min 0 g l)))
    | CBool _ => Err EType
    end.

Definition grouped_any (c : column) (g : list Z) : res column :=
  match c with
    | CBool l => guard g (col_len c) (Ok (CBool (grouped_total orb false g l)))
    | CInt l => guard g (col_len c) (Ok (CBool (grouped_total orb false g (map (fun z => negb (z =? 0)) l))))
    | _ => Err EType
    end.

Definition grouped_all (c : column) (g : list Z) : res column :=
  match c with
    | CBool l => guard g (col_len c) (Ok (CBool (grouped_total andb true g l)))
    | CInt l => guard g (col_len c) (Ok (CBool (grouped_total andb true g (map (fun z => negb (z =? 0)) l))))
    | _ => Err EType
    end.

(* the specification shared by all of them: row i holds the reduction by [op] of the
   values of exactly the rows whose group id equals that of row i *)
Lemma select_nonempty {A} g (l : list A) i k v :
  nth_error g i = Some k -> nth_error l i = Some v -> In v (select k (combine g l)).
Proof.
  revert l i. induction g as [|k0 g IH]; intros [|v0 l] [|i] Hk Hv; try discriminate; cbn in *.
  - injection Hk as ->. injection Hv as ->. unfold select. cbn. rewrite Z.eqb_refl. cbn. left. reflexivity.
  - unfold select. cbn [combine filter fst]. destruct (k =? k0); cbn [map snd]; [right|]; apply (IH l i Hk Hv).
Qed.

Theorem grouped_total_value {A} (op : A -> A -> A) dflt g (l : list A) i k v :
  nth_error g i = Some k -> nth_error l i = Some v ->
  exists x r, select k (combine g l) = x :: r /\
              nth_error (grouped_total op dflt g l) i = Some (fold_left op r x).
Proof.
  intros Hk Hv. pose proof (select_nonempty g l i k v Hk Hv) as Hin.
  destruct (select k (combine g l)) as [|x r] eqn:E; [contradiction|].
  exists x, r. split; [reflexivity|].
  unfold grouped_total. rewrite nth_error_map, (grouped_spec op g l i k Hk). cbn. rewrite E. reflexivity.
Qed.

Theorem grouped_total_const {A} (op : A -> A -> A) dflt g (l : list A) i j k :
  nth_error g i = Some k -> nth_error g j = Some k ->
  nth_error (grouped_total op dflt g l) i = nth_error (grouped_total op dflt g l) j.
Proof.
  intros Hi Hj. unfold grouped_total. rewrite !nth_error_map, (grouped_const op g l i j k Hi Hj). reflexivity.
Qed.

(* sums: the fold is the plain sum *)
Lemma fold_left_Zadd r : forall x, fold_left Z.add r x = x + fold_right Z.add 0 r.
Proof. induction r as [|y r IH]; intro x; cbn; [lia | rewrite IH; lia]. Qed.

Theorem grouped_sum_int_spec g l i k v :
  nth_error g i = Some k -> nth_error l i = Some v ->
  nth_error (grouped_total Z.add 0 g l) i = Some (fold_right Z.add 0 (select k (combine g l))).
Proof.
  intros Hk Hv. destruct (grouped_total_value Z.add 0 g l i k v Hk Hv) as (x & r & E & H).
  rewrite H, E. cbn. rewrite fold_left_Zadd. reflexivity.
Qed.

(* count = number of members *)
Theorem grouped_count_spec g i k :
  nth_error g i = Some k ->
  nth_error (grouped_total Z.add 0 g (map (fun _ => 1) g)) i
  = Some (Z.of_nat (length (filter (fun k' => k =? k') g))).
Proof.
  intro Hk.
  assert (Hv : nth_error (map (fun _ : Z => 1) g) i = Some 1) by (rewrite nth_error_map, Hk; reflexivity).
  rewrite (grouped_sum_int_spec g _ i k 1 Hk Hv). f_equal.
  unfold select. clear. induction g as [|a g IH]; [reflexivity|].
  cbn [map combine filter fst]. destruct (k =? a); cbn [map snd fold_right length]; rewrite IH; lia.
Qed.

(* order independence of the table entries, e.g. for sums *)
Lemma xq_add_comm a b : xq_add a b = xq_add b a.
Proof. destruct a, b; cbn; try reflexivity. f_equal. ring. Qed.
Lemma xq_add_assoc a b c : xq_add (xq_add a b) c = xq_add a (xq_add b c).
Proof. destruct a, b, c; cbn; try reflexivity. f_equal. ring. Qed.

(* ---------------------------------------------------------------- *)
(* 3. sum_by_p_id                                                     *)

Section ByPid.
  Context {A : Type}.
  Variable add : A -> A -> A.
  Variable zero : A.

  (* map_p_id_to_position = {p_id: iloc ...}: the LAST position wins *)
  Fixpoint pos_of (id : Z) (pids : list Z) (i : nat) : option nat :=
    match pids with
    | [] => None
    | p :: r => match pos_of id r (S i) with
                | Some j => Some j
                | None => if id =? p then Some i else None
                end
    end.

  Fixpoint upd_nth (n : nat) (f : A -> A) (l : list A) : list A :=
    match l, n with
    | [], _ => []
    | x :: r, O => f x :: r
    | x :: r, S k => x :: upd_nth k f r
    end.

  Fixpoint sbp_loop (rows : list (Z * A)) (pids : list Z) (out : list A) : res (list A) :=
    match rows with
    | [] => Ok out
    | (ptr, c) :: r =>
        if 0 <=? ptr then
          match pos_of ptr pids 0 with
          | Some j => sbp_loop r pids (upd_nth j (fun a => add a c) out)
          | None => Err EKey
          end
        else sbp_loop r pids out
    end.

  Definition sum_by_p_id_list (col : list A) (ptr pids : list Z) : res (list A) :=
    sbp_loop (combine ptr col) pids (map (fun _ => zero) pids).

  Lemma nth_upd_nth_same n f l a : nth_error l n = Some a -> nth_error (upd_nth n f l) n = Some (f a).
  Proof.
    revert n. induction l as [|x r IH]; intros [|n] H; try discriminate; cbn in *.
    - congruence.
    - apply IH. exact H.
  Qed.

  Lemma nth_upd_nth_other n m f l : n <> m -> nth_error (upd_nth n f l) m = nth_error l m.
  Proof.
    revert n m. induction l as [|x r IH]; intros [|n] [|m] H; cbn; try reflexivity; try congruence.
    apply IH. congruence.
  Qed.

  Lemma upd_nth_length n f l : length (upd_nth n f l) = length l.
  Proof. revert n. induction l as [|x r IH]; intros [|n]; cbn; auto. Qed.

  (* with unique ids the position of an id is THE index holding it *)
  Lemma pos_of_lt id pids : forall i j, pos_of id pids i = Some j -> (i <= j < i + length pids)%nat.
  Proof.
    induction pids as [|p r IH]; intros i j H; [discriminate|]. cbn in H.
    destruct (pos_of id r (S i)) as [j'|] eqn:E.
    - injection H as <-. specialize (IH _ _ E). cbn [length]. lia.
    - destruct (id =? p); [|discriminate]. injection H as <-. cbn [length]. lia.
  Qed.

  Lemma pos_of_nth id pids : forall i j, pos_of id pids i = Some j -> nth_error pids (j - i) = Some id.
  Proof.
    induction pids as [|p r IH]; intros i j H; [discriminate|]. cbn in H.
    destruct (pos_of id r (S i)) as [j'|] eqn:E.
    - injection H as <-. pose proof (pos_of_lt _ _ _ _ E) as L. specialize (IH _ _ E).
      replace (j' - i)%nat with (S (j' - S i)) by lia. exact IH.
    - destruct (id =? p) eqn:Ep; [|discriminate]. injection H as <-. apply Z.eqb_eq in Ep. subst.
      rewrite Nat.sub_diag. reflexivity.
  Qed.

  Lemma pos_of_none id pids : forall i, pos_of id pids i = None -> ~ In id pids.
  Proof.
    induction pids as [|p r IH]; intros i H; [intros []|]. cbn in H.
    destruct (pos_of id r (S i)) eqn:E; [discriminate|].
    destruct (id =? p) eqn:Ep; [discriminate|].
    intros [->|Hin]; [rewrite Z.eqb_refl in Ep; discriminate | exact (IH _ E Hin)].
  Qed.

  (* credited[i] : the values of the rows whose pointer is >= 0 and resolves to position i *)
  Definition credited (pids : list Z) (i : nat) (rows : list (Z * A)) : list A :=
    map snd (filter (fun pc => (0 <=? fst pc) &&
                               match pos_of (fst pc) pids 0 with Some j => Nat.eqb j i | None => false end) rows).

  Theorem sbp_loop_spec pids : forall rows out res_,
    sbp_loop rows pids out = Ok res_ ->
    length res_ = length out /\
    forall i a, nth_error out i = Some a ->
      nth_error res_ i = Some (fold_left add (credited pids i rows) a).
  Proof.
    induction rows as [|[ptr c] r IH]; intros out res_ H; cbn [sbp_loop] in H.
    - injection H as <-. split; [reflexivity|]. intros i a Ha. cbn. exact Ha.
    - unfold credited. cbn [filter fst].
      destruct (0 <=? ptr) eqn:Eg.
      + destruct (pos_of ptr pids 0) as [j|] eqn:Ep; [|discriminate].
        destruct (IH _ _ H) as [Hlen Hval]. rewrite upd_nth_length in Hlen. split; [exact Hlen|].
        intros i a Ha. cbn [andb]. destruct (Nat.eqb j i) eqn:Eji.
        * apply Nat.eqb_eq in Eji. subst j. cbn [map snd fold_left].
          apply Hval. rewrite (nth_upd_nth_same _ _ _ _ Ha). reflexivity.
        * apply Nat.eqb_neq in Eji. apply Hval. rewrite nth_upd_nth_other by exact Eji. exact Ha.
      + cbn [andb]. apply IH. exact H.
  Qed.

  (* the user-level statement: with unique person ids, person i is credited exactly the
     rows pointing to HER id; negative pointers are ignored; a pointer to a missing id fails *)
  Theorem sum_by_p_id_spec col ptr pids out :
    NoDup pids -> sum_by_p_id_list col ptr pids = Ok out ->
    length out = length pids /\
    forall i id, nth_error pids i = Some id ->
      nth_error out i =
      Some (fold_left add (map snd (filter (fun pc => (0 <=? fst pc) && (fst pc =? id)) (combine ptr col))) zero).
  Proof.
    intros Hnd H. unfold sum_by_p_id_list in H.
    destruct (sbp_loop_spec pids _ _ _ H) as [Hlen Hval]. rewrite map_length in Hlen.
    split; [exact Hlen|]. intros i id Hi.
    assert (Hz : nth_error (map (fun _ : Z => zero) pids) i = Some zero)
      by (rewrite nth_error_map, Hi; reflexivity).
    rewrite (Hval i zero Hz). f_equal. f_equal. unfold credited. f_equal.
    apply filter_ext. intros [p c]. cbn [fst]. f_equal.
    destruct (pos_of p pids 0) as [j|] eqn:Ep.
    - pose proof (pos_of_nth _ _ _ _ Ep) as Hj. rewrite Nat.sub_0_r in Hj.
      destruct (Nat.eqb j i) eqn:Eji.
      + apply Nat.eqb_eq in Eji. subst j. rewrite Hi in Hj. injection Hj as <-. symmetry. apply Z.eqb_refl.
      + destruct (p =? id) eqn:Epi; [|reflexivity]. apply Z.eqb_eq in Epi. subst p.
        apply Nat.eqb_neq in Eji. exfalso. apply Eji.
        apply (proj1 (NoDup_nth_error pids) Hnd); [apply nth_error_Some; congruence | congruence].
    - destruct (p =? id) eqn:Epi; [|reflexivity]. apply Z.eqb_eq in Epi. subst p.
      exfalso. apply (pos_of_none _ _ _ Ep). eapply nth_error_In. exact Hi.
  Qed.
End ByPid.

Definition sum_by_p_id (c : column) (ptr pids : list Z) : res column :=
  if negb (Nat.eqb (length ptr) (col_len c)) then Err EValue else
  match c with
  | CInt l => do o <- sum_by_p_id_list Z.add 0 l ptr pids; Ok (CInt o)
  | CBool l => do o <- sum_by_p_id_list Z.add 0 (map b2z l) ptr pids; Ok (CInt o)
  | CFloat l => do o <- sum_by_p_id_list xq_add (xz 0) l ptr pids; Ok (CFloat o)
  | CDate _ => Err EType
  end.

(* ---------------------------------------------------------------- *)
(* 4. join_numpy                                                      *)

Fixpoint index_of (k : Z) (l : list Z) (i : nat) : option nat :=
  match l with
  | [] => None
  | x :: r => if k =? x then Some i else index_of k r (S i)
  end.

Fixpoint nodup_z (l : list Z) : bool :=
  match l with
  | [] => true
  | x :: r => negb (existsb (Z.eqb x) r) && nodup_z r
  end.

Definition join_list {A} (fk pk : list Z) (target : list A) (dflt : A) : res (list A) :=
  if negb (nodup_z pk) then Err EValue
  else if existsb (fun k => (0 <=? k) && negb (existsb (Z.eqb k) pk)) fk then Err EValue
  else Ok (map (fun k => match index_of k pk 0 with
                         | Some j => nth j target dflt
                         | None => dflt end) fk).

Lemma index_of_spec k l : forall i j, index_of k l i = Some j ->
  nth_error l (j - i) = Some k /\ (i <= j)%nat.
Proof.
  induction l as [|x r IH]; intros i j H; [discriminate|]. cbn in H.
  destruct (k =? x) eqn:E.
  - injection H as <-. apply Z.eqb_eq in E. subst. rewrite Nat.sub_diag. split; [reflexivity | lia].
  - destruct (IH _ _ H) as [H1 H2]. split; [|lia].
    replace (j - i)%nat with (S (j - S i)) by lia. exact H1.
Qed.

Lemma index_of_none k l : forall i, index_of k l i = None -> ~ In k l.
Proof.
  induction l as [|x r IH]; intros i H; [intros []|]. cbn in H.
  destruct (k =? x) eqn:E; [discriminate|].
  intros [->|Hin]; [rewrite Z.eqb_refl in E; discriminate | exact (IH _ H Hin)].
Qed.

(* each row gets the target of the row whose primary key equals its foreign key;
   foreign keys that match nothing (then necessarily negative) get the default *)
Theorem join_spec {A} fk pk (target : list A) dflt out :
  join_list fk pk target dflt = Ok out ->
  length out = length fk /\
  forall i k, nth_error fk i = Some k ->
    (exists j, nth_error pk j = Some k /\ nth_error out i = Some (nth j target dflt))
    \/ (~ In k pk /\ k < 0 /\ nth_error out i = Some dflt).
Proof.
  unfold join_list. destruct (negb (nodup_z pk)); [discriminate|].
  destruct (existsb _ fk) eqn:Eb; [discriminate|]. intro H. injection H as <-.
  split; [apply map_length|]. intros i k Hk. rewrite nth_error_map, Hk. cbn.
  destruct (index_of k pk 0) as [j|] eqn:Ei.
  - left. destruct (index_of_spec _ _ _ _ Ei) as [Hj _]. rewrite Nat.sub_0_r in Hj. exists j. auto.
  - right. pose proof (index_of_none _ _ _ Ei) as Hn. split; [exact Hn|]. split; [|reflexivity].
    assert (Hf : forall x, In x fk -> ((0 <=? x) && negb (existsb (Z.eqb x) pk)) = false).
    { intros x Hx. destruct ((0 <=? x) && negb (existsb (Z.eqb x) pk)) eqn:E; [|reflexivity].
      assert (existsb (fun k0 => (0 <=? k0) && negb (existsb (Z.eqb k0) pk)) fk = true)
        by (apply existsb_exists; exists x; auto). congruence. }
    specialize (Hf k (nth_error_In _ _ Hk)).
    destruct (0 <=? k) eqn:E0; [|apply Z.leb_gt in E0; exact E0].
    cbn in Hf. apply negb_false_iff in Hf. apply existsb_exists in Hf. destruct Hf as [y [Hy Hy2]].
    apply Z.eqb_eq in Hy2. subst y. contradiction.
Qed.
