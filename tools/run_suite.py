#!/venv/bin/python
"""run_suite.py <repo-or-worktree dir>: run gettsim's test suite there (xdist) and compare
with the stable_pass list of /root/.vp/BASELINE.json.  Exit 0 iff every baseline test passes."""
import json
import os
import subprocess
import sys
import tempfile
import xml.etree.ElementTree as ET


def main():
    d = sys.argv[1] if len(sys.argv) > 1 else "/repo"
    base = json.load(open("/root/.vp/BASELINE.json"))
    want = set(base["stable_pass"])
    with tempfile.NamedTemporaryFile(suffix=".xml", delete=False) as f:
        xml = f.name
    env = dict(os.environ)
    env.pop("GETTSIM_VERIF", None)
    env["PYTHONPATH"] = os.path.join(d, "src")
    subprocess.run(["/venv/bin/python", "-m", "pytest", "-q", "-p", "no:cacheprovider", "--timeout=900",
                    "--continue-on-collection-errors", "-n", "14", f"--junitxml={xml}"],
                   cwd=d, env=env, stdout=subprocess.DEVNULL, stderr=subprocess.DEVNULL)
    passed = set()
    failed = set()
    for tc in ET.parse(xml).getroot().iter("testcase"):
        tid = f"{tc.get('classname')}::{tc.get('name')}"
        bad = any(ch.tag in ("failure", "error") for ch in tc)
        skipped = any(ch.tag == "skipped" for ch in tc)
        if bad:
            failed.add(tid)
        elif not skipped:
            passed.add(tid)
    os.unlink(xml)
    missing = sorted(want - passed)
    print(f"baseline {len(want)}; passed now {len(passed)}; baseline tests not passing: {len(missing)}")
    for m in missing[:20]:
        print("  ", m[:200])
    sys.exit(0 if not missing else 1)


if __name__ == "__main__":
    main()
