"""Population generator: "mostly valid" gettsim input tables built from household templates.

Every random choice comes from the random.Random passed in, so populations replay exactly.
A population is a list of person dicts (one per row, all TYPES_INPUT_VARIABLES present);
to_frame() turns it into the pandas DataFrame the API takes."""
from __future__ import annotations

import random

INCOME_POINTS = [0.0, 0.0, 100.0, 450.0, 450.01, 520.0, 538.0, 538.01, 850.0, 1000.0, 1300.0, 1600.0, 2000.0,
                 2000.01, 2500.0, 3000.0, 4000.0, 4987.5, 5175.0, 6900.0, 7100.0, 7550.0, 10000.0, 25000.0]


def _person(rnd: random.Random, year: int, *, age: int, child: bool, female=None, inc_level=None):
    wage = 0.0
    if not child and age < 66:
        wage = rnd.choice(INCOME_POINTS) if inc_level is None else inc_level
        if rnd.random() < 0.25:
            wage = round(rnd.uniform(0, 9000), 2)
    retired = age >= 66 and not child
    gm = rnd.randint(1, 12)
    p = dict(
        vermögen_bedürft=rnd.choice([0.0, 0.0, 2000.0, 9000.0, 15000.0, 40000.0, 61000.0, 250000.0]),
        eigenbedarf_gedeckt=False,
        gemeinsam_veranlagt=False,
        bruttolohn_m=float(wage),
        alter=int(age),
        weiblich=bool(rnd.random() < 0.5) if female is None else bool(female),
        selbstständig=False,
        wohnort_ost=False,
        ges_pflegev_hat_kinder=False,
        eink_selbst_m=0.0,
        in_priv_krankenv=False,
        priv_rentenv_beitr_m=rnd.choice([0.0, 0.0, 50.0, 200.0]) if not child else 0.0,
        elterngeld_nettoeinkommen_vorjahr_m=0.0,
        elterngeld_zu_verst_eink_vorjahr_y_sn=0.0,
        bruttolohn_vorj_m=float(wage),
        arbeitsstunden_w=0.0 if wage == 0 else rnd.choice([10.0, 20.0, 38.5, 40.0]),
        geburtsjahr=int(year - age),
        geburtstag=rnd.randint(1, 28),
        geburtsmonat=gm,
        mietstufe=3,
        entgeltp_ost=0.0,
        entgeltp_west=float(rnd.choice([0.0, 10.0, 30.0, 45.0])) if age >= 25 else 0.0,
        kind=bool(child),
        rentner=bool(retired),
        betreuungskost_m=0.0,
        kapitaleink_brutto_m=rnd.choice([0.0, 0.0, 0.0, 50.0, 100.0, 1500.0]) if not child else 0.0,
        eink_vermietung_m=rnd.choice([0.0, 0.0, 0.0, 300.0, -200.0, 2000.0]) if not child else 0.0,
        jahr_renteneintr=int(year - age + 66),
        monat_renteneintr=gm,
        behinderungsgrad=rnd.choice([0, 0, 0, 0, 30, 50, 80, 100]),
        monate_elterngeldbezug=0,
        elterngeld_claimed=False,
        in_ausbildung=bool(child and age >= 6),
        alleinerz=False,
        sonstig_eink_m=rnd.choice([0.0, 0.0, 0.0, 120.0]) if not child else 0.0,
        grundr_entgeltp=float(rnd.choice([0.0, 0.3, 0.6, 0.9])) if retired else 0.0,
        grundr_zeiten=int(rnd.choice([0, 300, 396, 420, 480])) if retired else 0,
        grundr_bew_zeiten=int(rnd.choice([0, 0, 300, 396, 420])) if retired else 0,
        priv_rente_m=rnd.choice([0.0, 0.0, 100.0, 600.0]) if retired else 0.0,
        schwerbeh_g=False,
        m_pflichtbeitrag=float(rnd.choice([0, 60, 240, 420, 540])) if age >= 25 else 0.0,
        m_freiw_beitrag=0.0,
        m_mutterschutz=0.0,
        m_arbeitsunfähig=0.0,
        m_krank_ab_16_bis_24=0.0,
        m_arbeitsl=float(rnd.choice([0, 0, 12, 36])) if age >= 25 else 0.0,
        m_ausbild_suche=0.0,
        m_schul_ausbild=float(rnd.choice([0, 24, 36])) if age >= 25 else 0.0,
        m_geringf_beschäft=0.0,
        m_alg1_übergang=0.0,
        m_ersatzzeit=0.0,
        m_kind_berücks_zeit=0.0,
        m_pfleg_berücks_zeit=0.0,
        y_pflichtbeitr_ab_40=float(rnd.choice([0, 5, 12, 20])) if age >= 45 else 0.0,
        pflichtbeitr_8_in_10=bool(rnd.random() < 0.5) if age >= 55 else False,
        arbeitsl_1y_past_585=False,
        vertra_arbeitsl_1997=False,
        vertra_arbeitsl_2006=False,
        höchster_bruttolohn_letzte_15_jahre_vor_rente_y=float(rnd.choice([0.0, 20000.0, 45000.0, 90000.0])) if retired else 0.0,
        anwartschaftszeit=bool(rnd.random() < 0.5) if not child else False,
        arbeitssuchend=False,
        m_durchg_alg1_bezug=0.0,
        sozialv_pflicht_5j=float(rnd.choice([0, 12, 24, 48, 60])) if not child else 0.0,
        bürgerg_bezug_vorj=False,
        kind_unterh_anspr_m=0.0,
        kind_unterh_erhalt_m=0.0,
        steuerklasse=1,
        budgetsatz_erzieh=False,
        voll_erwerbsgemind=False,
        teilw_erwerbsgemind=False,
    )
    if child:
        p["bruttolohn_vorj_m"] = 0.0
        if age >= 15 and rnd.random() < 0.4:
            p["bruttolohn_m"] = rnd.choice([0.0, 300.0, 520.0, 900.0, 1500.0])
    elif rnd.random() < 0.08:
        p["selbstständig"] = True
        p["eink_selbst_m"] = rnd.choice([500.0, 3000.0, 12000.0])
        p["bruttolohn_m"] = 0.0
        p["arbeitsstunden_w"] = 40.0
    if not child and not retired and p["bruttolohn_m"] == 0.0 and rnd.random() < 0.5:
        p["arbeitssuchend"] = True
        p["m_durchg_alg1_bezug"] = float(rnd.choice([0, 3, 11]))
    if not child and rnd.random() < 0.08:
        p["in_priv_krankenv"] = True
    if not child and age < 66 and rnd.random() < 0.05:
        p["voll_erwerbsgemind"] = True
    if rnd.random() < 0.05:
        p["schwerbeh_g"] = True
    return p


HH_FIELDS = dict(
    bruttokaltmiete_m_hh=[0.0, 350.0, 600.0, 850.0, 1400.0],
    heizkosten_m_hh=[0.0, 60.0, 110.0],
    wohnfläche_hh=[35.0, 60.0, 85.0, 120.0],
    bewohnt_eigentum_hh=[False, False, False, True],
    immobilie_baujahr_hh=[1955, 1980, 2001, 2015],
)

TEMPLATES = ["single", "married", "unmarried", "single_parent", "couple_kids", "patchwork", "three_gen",
             "adult_child", "pensioners", "parent_elsewhere", "self_sufficient_child", "single_pensioner"]


def household(rnd: random.Random, template: str, year: int):
    """returns list of persons with symbolic local indices for pointers (key '_i', pointer keys hold
    local indices or -1); the caller assigns real ids"""
    ps = []

    def add(**kw):
        p = _person(rnd, year, **kw)
        p["_i"] = len(ps)
        for k in ("p_id_elternteil_1", "p_id_elternteil_2", "p_id_kindergeld_empf", "p_id_erziehgeld_empf",
                  "p_id_ehepartner", "p_id_einstandspartner", "p_id_betreuungsk_träger"):
            p[k] = -1
        ps.append(p)
        return p

    def marry(a, b, joint=True):
        a["p_id_ehepartner"], b["p_id_ehepartner"] = b["_i"], a["_i"]
        a["p_id_einstandspartner"], b["p_id_einstandspartner"] = b["_i"], a["_i"]
        a["gemeinsam_veranlagt"] = b["gemeinsam_veranlagt"] = bool(joint)
        if joint:
            a["steuerklasse"], b["steuerklasse"] = rnd.choice([(3, 5), (4, 4), (5, 3)])

    def partner(a, b):
        a["p_id_einstandspartner"], b["p_id_einstandspartner"] = b["_i"], a["_i"]

    def child_of(c, p1, p2=None, kg=True):
        c["p_id_elternteil_1"] = p1["_i"]
        if p2 is not None:
            c["p_id_elternteil_2"] = p2["_i"]
        if kg and c["alter"] < 25:
            c["p_id_kindergeld_empf"] = p1["_i"]
        for p in (p1, p2):
            if p is not None:
                p["ges_pflegev_hat_kinder"] = True
        if c["alter"] <= 2 and rnd.random() < 0.5:
            p1["elterngeld_claimed"] = True
            p1["monate_elterngeldbezug"] = rnd.choice([0, 3, 11])
            p1["elterngeld_nettoeinkommen_vorjahr_m"] = rnd.choice([0.0, 900.0, 1800.0, 3500.0])
            p1["elterngeld_zu_verst_eink_vorjahr_y_sn"] = rnd.choice([0.0, 30000.0, 120000.0, 400000.0])
        if c["alter"] <= 13 and rnd.random() < 0.3:
            c["betreuungskost_m"] = rnd.choice([100.0, 400.0])
            c["p_id_betreuungsk_träger"] = p1["_i"]

    n_kids = rnd.choice([1, 1, 2, 2, 3, 4]) if template != "couple_kids" or rnd.random() < 0.9 else rnd.randint(5, 10)
    kid_age = lambda: rnd.choice([0, 1, 2, 4, 6, 9, 13, 14, 16, 17, 18, 20, 24])  # noqa: E731
    if template == "single":
        add(age=rnd.choice([19, 25, 30, 45, 58, 64]), child=False)
    elif template == "single_pensioner":
        add(age=rnd.choice([66, 67, 70, 85]), child=False)
    elif template == "married":
        a = add(age=rnd.randint(25, 63), child=False, female=False)
        b = add(age=rnd.randint(25, 63), child=False, female=True)
        marry(a, b, joint=rnd.random() < 0.8)
    elif template == "unmarried":
        a = add(age=rnd.randint(25, 63), child=False)
        b = add(age=rnd.randint(25, 63), child=False)
        partner(a, b)
    elif template == "single_parent":
        a = add(age=rnd.randint(25, 50), child=False, female=rnd.random() < 0.8)
        a["alleinerz"] = True
        a["steuerklasse"] = 2
        for _ in range(n_kids):
            c = add(age=kid_age(), child=True)
            child_of(c, a)
            if rnd.random() < 0.5:
                c["kind_unterh_anspr_m"] = rnd.choice([250.0, 400.0])
                c["kind_unterh_erhalt_m"] = rnd.choice([0.0, 100.0, 400.0])
    elif template == "couple_kids":
        a = add(age=rnd.randint(25, 55), child=False, female=False)
        b = add(age=rnd.randint(25, 55), child=False, female=True)
        if rnd.random() < 0.75:
            marry(a, b, joint=rnd.random() < 0.85)
        else:
            partner(a, b)
        for _ in range(n_kids):
            c = add(age=kid_age(), child=True)
            child_of(c, b if rnd.random() < 0.5 else a, None)
            c["p_id_elternteil_2"] = a["_i"] if c["p_id_elternteil_1"] == b["_i"] else b["_i"]
    elif template == "patchwork":
        a = add(age=rnd.randint(28, 50), child=False, female=False)
        b = add(age=rnd.randint(28, 50), child=False, female=True)
        if rnd.random() < 0.5:
            marry(a, b, joint=True)
        else:
            partner(a, b)
        ca = add(age=kid_age(), child=True)
        child_of(ca, a)
        cb = add(age=kid_age(), child=True)
        child_of(cb, b)
        if rnd.random() < 0.6:
            cj = add(age=rnd.choice([0, 1, 3]), child=True)
            child_of(cj, b, a)
    elif template == "three_gen":
        g = add(age=rnd.choice([66, 70, 78]), child=False)
        m = add(age=rnd.randint(35, 48), child=False, female=True)
        m["p_id_elternteil_1"] = g["_i"]
        m["alleinerz"] = True
        c = add(age=kid_age(), child=True)
        child_of(c, m)
    elif template == "adult_child":
        a = add(age=rnd.randint(50, 64), child=False, female=False)
        b = add(age=rnd.randint(50, 64), child=False, female=True)
        marry(a, b, joint=True)
        c = add(age=rnd.choice([25, 26, 30]), child=False)
        c["p_id_elternteil_1"], c["p_id_elternteil_2"] = b["_i"], a["_i"]
    elif template == "self_sufficient_child":
        a = add(age=rnd.randint(40, 60), child=False)
        a["alleinerz"] = True
        c = add(age=rnd.choice([18, 20, 23, 24]), child=True)
        child_of(c, a)
        c["bruttolohn_m"] = rnd.choice([1200.0, 2500.0])
        c["eigenbedarf_gedeckt"] = True
        if rnd.random() < 0.5:
            c2 = add(age=rnd.choice([3, 8, 15]), child=True)
            child_of(c2, a)
    elif template == "pensioners":
        a = add(age=rnd.choice([66, 68, 75, 90]), child=False, female=False)
        b = add(age=rnd.choice([60, 66, 72, 88]), child=False, female=True)
        marry(a, b, joint=True)
    elif template == "parent_elsewhere":
        a = add(age=rnd.randint(28, 50), child=False, female=True)
        a["alleinerz"] = True
        c = add(age=kid_age(), child=True)
        child_of(c, a)
        c["_parent2_elsewhere"] = True
    else:
        raise ValueError(template)
    hh = {k: rnd.choice(v) for k, v in HH_FIELDS.items()}
    ost = rnd.random() < 0.25
    ms = rnd.randint(1, 7 if year >= 2021 else 6)
    for p in ps:
        p.update(hh)
        p["wohnort_ost"] = ost
        p["mietstufe"] = ms
        if ost and p["entgeltp_west"] > 0 and rnd.random() < 0.5:
            p["entgeltp_ost"], p["entgeltp_west"] = p["entgeltp_west"], 0.0
    return ps


def population(rnd: random.Random, year: int, n_households: int, templates=None, id_style="dense"):
    """list of person dicts with real ids.  id_style: dense | sparse | unsorted"""
    templates = templates or TEMPLATES
    persons = []
    hhs = [household(rnd, rnd.choice(templates), year) for _ in range(n_households)]
    n = sum(len(h) for h in hhs)
    if id_style == "dense":
        pids = list(range(n))
        hids = list(range(len(hhs)))
    elif id_style == "sparse":
        pids = sorted(rnd.sample(range(0, 20 * n + 50), n))
        hids = sorted(rnd.sample(range(0, 20 * len(hhs) + 50), len(hhs)))
    else:
        pids = rnd.sample(range(0, 20 * n + 50), n)
        hids = rnd.sample(range(0, 20 * len(hhs) + 50), len(hhs))
    k = 0
    adults_elsewhere = []
    for hi, h in enumerate(hhs):
        loc = {}
        for p in h:
            loc[p["_i"]] = pids[k]
            k += 1
        for p in h:
            q = dict(p)
            q["p_id"] = loc[p["_i"]]
            q["hh_id"] = hids[hi]
            for key in ("p_id_elternteil_1", "p_id_elternteil_2", "p_id_kindergeld_empf", "p_id_erziehgeld_empf",
                        "p_id_ehepartner", "p_id_einstandspartner", "p_id_betreuungsk_träger"):
                q[key] = loc[p[key]] if p[key] >= 0 else -1
            del q["_i"]
            persons.append(q)
    # a second parent living in another household
    for q in persons:
        if q.pop("_parent2_elsewhere", False):
            cands = [r for r in persons if not r["kind"] and r["hh_id"] != q["hh_id"] and 25 <= r["alter"] <= 60]
            if cands:
                q["p_id_elternteil_2"] = rnd.choice(cands)["p_id"]
    # inputs at tax-unit level are constant within a jointly assessed couple (a valid population)
    by_id = {q["p_id"]: q for q in persons}
    for q in persons:
        sp = by_id.get(q["p_id_ehepartner"])
        if sp is not None and q["gemeinsam_veranlagt"] and sp["gemeinsam_veranlagt"]:
            v = max(q["elterngeld_zu_verst_eink_vorjahr_y_sn"], sp["elterngeld_zu_verst_eink_vorjahr_y_sn"])
            q["elterngeld_zu_verst_eink_vorjahr_y_sn"] = sp["elterngeld_zu_verst_eink_vorjahr_y_sn"] = v
    return persons


def columns():
    import importlib

    cfg = importlib.import_module("_gettsim.config")
    return dict(cfg.TYPES_INPUT_VARIABLES)


def to_frame(persons, cols=None):
    import pandas as pd

    types = columns()
    df = pd.DataFrame(persons)
    for c, t in types.items():
        if c in df.columns:
            df[c] = df[c].astype({int: "int64", float: "float64", bool: "bool"}[t])
    keep = [c for c in types if c in df.columns]
    if cols is not None:
        keep = [c for c in keep if c in cols]
    return df[keep].reset_index(drop=True)
