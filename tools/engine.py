"""Running the implementation's public API on generated populations."""
from __future__ import annotations

import copy
import datetime
import re
import warnings

import impl


def simulate(df, date, targets=None, rounding=True, debug=False, params=None, functions=None,
             minimal="ignore", fill_missing=True, **kw):
    """compute_taxes_and_transfers; returns (DataFrame, warnings list) or raises.
    date: ordinal | iso string | datetime.date.  With fill_missing, root columns the system asks for
    that the generator does not know (pre-2015 systems) are added as zeros."""
    impl.setup()
    from _gettsim.interface import compute_taxes_and_transfers

    if isinstance(date, str):
        o = datetime.date.fromisoformat(date).toordinal()
    elif isinstance(date, datetime.date):
        o = date.toordinal()
    else:
        o = int(date)
    if params is None or functions is None:
        p0, f0 = impl.env(o)
        params = p0 if params is None else params
        functions = f0 if functions is None else functions
    data = df
    for _ in range(3):
        try:
            with warnings.catch_warnings(record=True) as w:
                warnings.simplefilter("always")
                out = compute_taxes_and_transfers(
                    data=data, params=params, functions=functions, targets=targets, rounding=rounding,
                    debug=debug, check_minimal_specification=minimal, **kw)
            return out, w
        except ValueError as ex:
            msg = str(ex)
            if fill_missing and "data columns are missing" in msg:
                names = re.findall(r'"([^"]+)"', msg)
                if not names:
                    raise
                data = data.copy()
                for n in names:
                    data[n] = 0.0
                continue
            raise
    raise RuntimeError("could not complete the data")


def active_rules(rules, o):
    return [m for m in rules["functions"] if (not m["timedep"]) or (m["start"] <= o <= m["end"])]


def deep_params(o):
    p, f = impl.env(o)
    return copy.deepcopy(p), f
