"""Running the implementation's public API on generated populations."""
from __future__ import annotations

import copy
import datetime
import re
import warnings

import impl


_CALLS = 0


class ResultShapeError(AssertionError):
    """the result table does not have one row per input row"""


def simulate(df, date, targets=None, rounding=True, debug=False, params=None, functions=None,
             minimal="ignore", fill_missing=True, scramble_index=True, dict_form=None, **kw):
    """compute_taxes_and_transfers; returns (DataFrame, warnings list) or raises.
    date: ordinal | iso string | datetime.date.  With fill_missing, root columns the system asks for
    that the generator does not know (pre-2015 systems) are added as zeros."""
    impl.setup()
    from _gettsim.interface import compute_taxes_and_transfers

    if isinstance(date, str):
        o = datetime.date.fromisoformat(date).toordinal()
    elif isinstance(date, datetime.date):
        o = date.toordinal()
    else:
        o = int(date)
    if params is None or functions is None:
        p0, f0 = impl.env(o)
        params = p0 if params is None else params
        functions = f0 if functions is None else functions
    data = df
    # index labels must not matter (C01): unless the caller chose labels, the table is passed with labels that are
    # neither sorted nor 0..n-1, so that any alignment by label inside the engine scrambles the result visibly
    # (the harness reads results by position)
    if scramble_index and hasattr(df, "index") and hasattr(df, "columns"):
        import pandas as pd

        if isinstance(df.index, pd.RangeIndex) and df.index.start == 0 and df.index.step == 1 and len(df) > 1:
            import numpy as np

            data = df.copy()
            perm = np.random.RandomState(len(df)).permutation(len(df))
            if (perm == np.arange(len(df))).all():
                perm = perm[::-1]
            # mostly a permutation of 0..n-1 (a label-aligned result is then silently attached to other rows); for some sizes labels outside 0..n-1
            data.index = perm if len(df) % 3 else perm * 3 + 1000
            # every third harness table is handed over as a dict of Series (the other documented form of `data`; read positionally):
            # the labels of the Series then count downwards
            global _CALLS
            _CALLS += 1
            if dict_form is True or (dict_form is None and _CALLS % 3 == 0):
                lab = list(range(2 * len(df) + 7, len(df) + 7, -1))
                data = {c: pd.Series(df[c].to_numpy(), index=lab, name=c) for c in df.columns}
    n_rows = len(df) if hasattr(df, "__len__") and hasattr(df, "columns") else None
    for _ in range(3):
        try:
            with warnings.catch_warnings(record=True) as w:
                warnings.simplefilter("always")
                out = compute_taxes_and_transfers(
                    data=data, params=params, functions=functions, targets=targets, rounding=rounding,
                    debug=debug, check_minimal_specification=minimal, **kw)
            if hasattr(out, "shape") and n_rows is not None and len(out) != n_rows:
                raise ResultShapeError(f"result has {len(out)} rows for {n_rows} input rows (data passed as {type(data).__name__} with non-default index labels)")
            return out, w
        except ValueError as ex:
            msg = str(ex)
            if fill_missing and "data columns are missing" in msg:
                names = re.findall(r'"([^"]+)"', msg)
                if not names:
                    raise
                data = data.copy()
                for n in names:
                    if isinstance(data, dict):
                        import pandas as pd

                        first = next(iter(data.values()))
                        data[n] = pd.Series([0.0] * len(first), index=first.index, name=n)
                    else:
                        data[n] = 0.0
                continue
            raise
    raise RuntimeError("could not complete the data")


def active_rules(rules, o):
    return [m for m in rules["functions"] if (not m["timedep"]) or (m["start"] <= o <= m["end"])]


def deep_params(o):
    p, f = impl.env(o)
    return copy.deepcopy(p), f
