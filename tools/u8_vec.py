#!/venv/bin/python
"""U8 (run as a subprocess, because producing the array form mutates module namespaces): for every
scalar rule active at the given dates, build the array form with make_vectorizable(func, "numpy"),
call it on arrays of generated inputs and compare each position with the scalar rule.
Prints one JSON object."""
from __future__ import annotations

import importlib
import json
import sys
import warnings
from pathlib import Path

sys.path.insert(0, str(Path(__file__).resolve().parent))
import common as C  # noqa: E402
import impl  # noqa: E402
import u1_rules as U  # noqa: E402


def main():
    tier = sys.argv[1] if len(sys.argv) > 1 else "quick"
    impl.setup()
    warnings.filterwarnings("ignore")
    import numpy as np

    from _gettsim.vectorization import make_vectorizable

    rules = json.loads((C.GEN / "rules.json").read_text(encoding="utf-8"))
    rnd = C.rng("u8")
    n_rows = 12 if tier == "quick" else 40
    dates = U.choose_dates(rules["functions"], rules["config"]["date_classes"], None)
    out = dict(rules=0, rewrite_errors={}, call_errors={}, positions=0, differences=[], dates=[impl.iso(d) for d in dates], skipped=0)
    done = set()
    for dte in dates:
        try:
            params, _ = impl.env(dte)
        except Exception:  # noqa: BLE001
            continue
        leaves = {}
        for g, pg in params.items():
            acc = []
            U.numeric_leaves(pg, acc)
            leaves[g] = acc
        for m in rules["functions"]:
            if m["name"] in done or not (m["start"] <= dte <= m["end"]) or m["skipvec"]:
                continue
            groups = [a[:-7] for a in m["args"] if a.endswith("_params")]
            if any(g not in params for g in groups):
                continue
            if any((not a.endswith("_params")) and ann not in ("int", "float", "bool") for a, ann in zip(m["args"], m["arg_annots"])):
                out["skipped"] += 1
                continue
            mod = importlib.import_module(m["module"])
            f = getattr(mod, m["name"])
            done.add(m["name"])
            lv = [x for g in groups for x in leaves.get(g, [])]
            rows = []
            for _ in range(n_rows):
                rows.append({a: (params[a[:-7]] if a.endswith("_params") else U.gen_value(rnd, a, ann, lv)) for a, ann in zip(m["args"], m["arg_annots"])})
            scalar = []
            for kw in rows:
                try:
                    scalar.append(("ok", f(**kw)))
                except Exception as ex:  # noqa: BLE001
                    scalar.append(("err", type(ex).__name__))
            try:
                vf = make_vectorizable(f, "numpy")
            except Exception as ex:  # noqa: BLE001
                k = type(ex).__name__
                out["rewrite_errors"][k] = out["rewrite_errors"].get(k, 0) + 1
                continue
            out["rules"] += 1
            kwv = {}
            for a, ann in zip(m["args"], m["arg_annots"]):
                if a.endswith("_params"):
                    kwv[a] = params[a[:-7]]
                else:
                    kwv[a] = np.array([r[a] for r in rows], dtype={"int": "int64", "float": "float64", "bool": "bool"}[ann])
            try:
                with np.errstate(all="ignore"):
                    vec = vf(**kwv)
                vec = np.broadcast_to(np.asarray(vec), (n_rows,))
            except Exception as ex:  # noqa: BLE001
                k = type(ex).__name__
                out["call_errors"][k] = out["call_errors"].get(k, 0) + 1
                continue
            for i, (kind, sv) in enumerate(scalar):
                if kind != "ok":
                    continue
                out["positions"] += 1
                a = vec[i].item() if hasattr(vec[i], "item") else vec[i]
                try:
                    b = sv.item() if hasattr(sv, "item") else sv
                    same = (float(a) == float(b)) or (a != a and b != b) or abs(float(a) - float(b)) <= 1e-9 * max(1.0, abs(float(b)))
                except Exception:  # noqa: BLE001
                    same = a == sv
                if not same:
                    if not any(d["rule"] == m["name"] for d in out["differences"]):
                        out["differences"].append(dict(rule=m["name"], module=m["module"], date=impl.iso(dte), position=i,
                                                       inputs={k: v for k, v in rows[i].items() if not k.endswith("_params")},
                                                       array_form=a, scalar=b))
                    break
    print("U8JSON" + json.dumps(out, default=str, ensure_ascii=False))


if __name__ == "__main__":
    main()
