"""Discharging generated proof obligations with coqc.

An obligation is a dict
   name   Coq identifier
   stmt   the theorem statement (a Prop)
   proof  the proof script (without `Proof.` / `Qed.`)
   what   human-readable description (goes to the evidence / replay)
   diag   optional: a Coq expression of type `string` evaluated by vm_compute when the
          obligation does not check; its value (offending rules / dates / paths) directs
          the search for a failing input
Obligations are written to work/obl/<tag>_<shard>.v as
   Theorem <name> : <stmt>.  Proof. <proof> Qed.  Print Assumptions <name>.
and compiled under a shell timeout.  A shard that fails is re-compiled obligation by
obligation so that exactly the failing ones are reported."""
from __future__ import annotations

import concurrent.futures as cf
import re
from pathlib import Path

import common as C

BASE_PRELUDE = """From Coq Require Import ZArith QArith Qcanon Bool String List Lia.
From GettsimModel Require Import Num Val Ast Piecewise Eval Corr PolicyEnv.
Import ListNotations.
Open Scope string_scope.
"""

_AX = re.compile(r"(Closed under the global context|Axioms:\n(?:.+\n?)+?)(?=\n\S|\Z)")


def _file_text(prelude, obls):
    body = [BASE_PRELUDE, prelude]
    for o in obls:
        body.append(f"Theorem {o['name']} : {o['stmt']}.\nProof. {o['proof']} Qed.\nPrint Assumptions {o['name']}.")
    return "\n".join(body) + "\n"


def _parse_assumptions(out: str):
    res = []
    for blk in re.split(r"\n(?=Closed under|Axioms:)", "\n" + out):
        blk = blk.strip()
        if blk.startswith("Closed under the global context"):
            res.append([])
        elif blk.startswith("Axioms:"):
            names = re.findall(r"^([A-Za-z_][\w.']*)\s*:", blk[len("Axioms:"):], flags=re.M)
            res.append(names)
    return res


def prove(tag: str, prelude: str, obls: list[dict], shards: int = 8, timeout: int = 900):
    """returns list of dict(name, what, ok, axioms, err, diag) in the order of obls"""
    work = C.WORK / "obl"
    work.mkdir(parents=True, exist_ok=True)
    for old in work.glob(f"{tag}_*"):
        old.unlink()
    shards = max(1, min(shards, len(obls)))
    parts = [obls[i::shards] for i in range(shards)]
    results = {}

    def one(idx_part):
        idx, part = idx_part
        fn = work / f"{tag}_{idx}.v"
        fn.write_text(_file_text(prelude, part), encoding="utf-8")
        rc, out, err, secs = C.coqc(fn, timeout=timeout)
        if rc == 0:
            ax = _parse_assumptions(out)
            if len(ax) != len(part):
                ax = ax + [["<unparsed>"]] * (len(part) - len(ax))
            return [dict(name=o["name"], what=o.get("what", ""), ok=True, axioms=a, err="", secs=round(secs, 1))
                    for o, a in zip(part, ax)]
        # isolate the failing obligations
        res = []
        for k, o in enumerate(part):
            f1 = work / f"{tag}_{idx}_{k}.v"
            f1.write_text(_file_text(prelude, [o]), encoding="utf-8")
            rc1, out1, err1, secs1 = C.coqc(f1, timeout=timeout)
            if rc1 == 0:
                ax = _parse_assumptions(out1)
                res.append(dict(name=o["name"], what=o.get("what", ""), ok=True,
                                axioms=ax[0] if ax else ["<unparsed>"], err="", secs=secs1))
            else:
                d = ""
                if o.get("diag"):
                    d = eval_strings(f"{tag}_{idx}_{k}_diag", prelude, [o["diag"]], timeout=timeout)
                    d = d[0] if d else "<diagnostic failed>"
                res.append(dict(name=o["name"], what=o.get("what", ""), ok=False, axioms=[],
                                err=(err1 or out1)[-1500:], diag=d, secs=secs1))
        return res

    with cf.ThreadPoolExecutor(max_workers=min(14, shards)) as ex:
        for part_res in ex.map(one, list(enumerate(parts))):
            for r in part_res:
                results[r["name"]] = r
    return [results[o["name"]] for o in obls]


_STR = re.compile(r'=\s*"((?:[^"]|"")*)"\s*:\s*string', re.S)


def eval_strings(tag: str, prelude: str, exprs: list[str], timeout: int = 900):
    """evaluate Coq expressions of type string by vm_compute; returns the strings (or None
    when coqc fails)"""
    work = C.WORK / "obl"
    work.mkdir(parents=True, exist_ok=True)
    fn = work / f"{tag}.v"
    body = [BASE_PRELUDE, prelude] + [f"Eval vm_compute in ({e})." for e in exprs]
    fn.write_text("\n".join(body) + "\n", encoding="utf-8")
    rc, out, err, secs = C.coqc(fn, timeout=timeout)
    if rc != 0:
        return None
    res = [" ".join(m.group(1).replace('""', '"').split()) for m in _STR.finditer(out)]
    return res if len(res) == len(exprs) else None


def props_assumptions(pid: str):
    """compile (already built by make) props/<pid>.v once more to read Print Assumptions"""
    f = C.COQ / "props" / f"{pid}.v"
    if not f.exists():
        return None
    wd = C.WORK / "obl" / "props"
    wd.mkdir(parents=True, exist_ok=True)
    g = wd / f"{pid}.v"
    g.write_text(f.read_text(encoding="utf-8"), encoding="utf-8")
    rc, out, err, secs = C.coqc(g, timeout=900)
    thms = re.findall(r"^\s*Theorem\s+([\w']+)", f.read_text(encoding="utf-8"), flags=re.M)
    ax = _parse_assumptions(out)
    return dict(ok=rc == 0, theorems=thms, axioms=ax, err=err[-1500:] if rc else "", secs=secs)
