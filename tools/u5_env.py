#!/venv/bin/python
"""U5 — policy-environment correspondence: set_up_policy_environment(d) of the
implementation vs `params_at` / `functions_at` of PolicyEnv.v evaluated by vm_compute
on the YAML trees and registry regenerated from /repo (GenYaml.v, GenRegistry.v)."""
from __future__ import annotations

import datetime
import json
import multiprocessing as mp
import sys
import time
import warnings
from pathlib import Path

sys.path.insert(0, str(Path(__file__).resolve().parent))
import common as C  # noqa: E402
import modelio as M  # noqa: E402


def impl_env(o: int):
    warnings.filterwarnings("ignore")
    sys.path.insert(0, str(C.REPO / "src"))
    from _gettsim.policy_environment import set_up_policy_environment

    d = datetime.date.fromordinal(o)
    try:
        params, functions = set_up_policy_environment(d)
    except Exception as ex:  # noqa: BLE001
        return o, ("err", type(ex).__name__, str(ex)[:200]), None
    return o, M.canon_py(params), {k: f.__name__ for k, f in functions.items()}


def dates_for(tier, classes, rnd):
    cls = sorted(classes)
    ds = set()
    ends = [c - 1 for c in cls[1:]]
    if tier == "thorough":
        for c in cls:
            ds.update([c - 1, c, c + 1])
        lo = datetime.date.fromordinal(cls[0]).year
        hi = datetime.date.fromordinal(cls[-1]).year
        for y in range(lo, hi + 1):
            if (y % 4 == 0 and y % 100 != 0) or y % 400 == 0:
                ds.add(datetime.date(y, 2, 29).toordinal())
                ds.add(datetime.date(y, 3, 1).toordinal())
        for _ in range(200):
            ds.add(rnd.randrange(cls[0], cls[-1]))
    else:
        pick = rnd.sample(range(len(cls)), min(36, len(cls)))
        for i in pick:
            ds.add(cls[i])
            if i > 0:
                ds.add(cls[i] - 1)
        for y in (2004, 2016, 2020, 2024):
            ds.add(datetime.date(y, 2, 29).toordinal())
        ds.update(rnd.sample(ends, min(10, len(ends))))
        for _ in range(10):
            ds.add(rnd.randrange(cls[0], cls[-1]))
    return sorted(d for d in ds if cls[0] <= d <= cls[-1])


def model_env(dates, tag):
    prelude = "From GettsimGen Require Import GenYaml GenConfig GenRegistry.\n"
    exprs = []
    for o in dates:
        exprs.append(
            f"json_res (match params_at yaml_groups internal_params_groups {C.cz(o)} with "
            "Ok p => Ok (VDict (map (fun gv => (KStr (fst gv), snd gv)) p)) | Err e => Err e end)"
        )
        exprs.append(
            f"json_val (VDict (map (fun nf => (KStr (fst nf), VStr (snd nf))) (functions_at registry {C.cz(o)})))"
        )
    res, secs = M.eval_json(f"U5_{tag}", prelude, exprs, timeout=1200, workdir=C.WORK / "u5")
    out = {}
    for i, o in enumerate(dates):
        out[o] = (res[2 * i], res[2 * i + 1])
    return out


def run_u5(tier="quick"):
    t0 = time.time()
    rules = json.loads((C.GEN / "rules.json").read_text(encoding="utf-8"))
    classes = rules["config"]["date_classes"]
    rnd = C.rng("u5")
    dates = dates_for(tier, classes, rnd)
    with mp.Pool(12) as pool:
        impl = {o: (p, f) for o, p, f in pool.imap_unordered(impl_env, dates, chunksize=2)}
    # model side in parallel shards
    import concurrent.futures as cf

    shards = [dates[i::8] for i in range(8) if dates[i::8]]
    model = {}
    with cf.ThreadPoolExecutor(max_workers=8) as ex:
        for part in ex.map(lambda a: model_env(a[1], str(a[0])), list(enumerate(shards))):
            model.update(part)
    diffs = []
    n_leaves = 0
    both_fail = 0
    for o in dates:
        ip, ifun = impl[o]
        mp_, mfun = model[o]
        ds = datetime.date.fromordinal(o).isoformat()
        if isinstance(ip, tuple) and ip and ip[0] == "err":
            if isinstance(mp_, M.ModelErr):
                both_fail += 1
            else:
                diffs.append(dict(date=ds, path="<whole environment>", impl=f"raises {ip[1]}: {ip[2]}", model="ok"))
            continue
        if isinstance(mp_, M.ModelErr):
            diffs.append(dict(date=ds, path="<whole environment>", impl="ok", model=repr(mp_)))
            continue
        for path, a, b in M.diff(ip, mp_, "params"):
            diffs.append(dict(date=ds, path=path, impl=a, model=b))
        for path, a, b in M.diff(ifun, mfun, "functions"):
            diffs.append(dict(date=ds, path=path, impl=a, model=b))
        n_leaves += count_leaves(ip)
    return dict(
        dates=len(dates), first=datetime.date.fromordinal(dates[0]).isoformat(),
        last=datetime.date.fromordinal(dates[-1]).isoformat(), leaves_compared=n_leaves,
        both_raise=both_fail, diffs=diffs, wall_s=round(time.time() - t0, 1),
        sample_dates=[datetime.date.fromordinal(o).isoformat() for o in dates[:5]],
    )


def count_leaves(v):
    if isinstance(v, dict):
        return sum(count_leaves(x) for x in v.values())
    if isinstance(v, list):
        return sum(count_leaves(x) for x in v)
    return 1


if __name__ == "__main__":
    tier = sys.argv[1] if len(sys.argv) > 1 else "quick"
    r = run_u5(tier)
    d = r.pop("diffs")
    print(json.dumps(r, indent=1))
    print("diffs:", len(d))
    for x in d[:40]:
        print(x)
