"""Access to the implementation under test (/repo/src on sys.path, quiet)."""
from __future__ import annotations

import datetime
import functools
import sys
import warnings

import common as C

_ready = False


def setup():
    global _ready
    if _ready:
        return
    p = str(C.REPO / "src")
    if p not in sys.path:
        sys.path.insert(0, p)
    warnings.filterwarnings("ignore")
    _ready = True


@functools.lru_cache(maxsize=64)
def env(ordinal: int):
    """(params, functions) of set_up_policy_environment for a date ordinal"""
    setup()
    from _gettsim.policy_environment import set_up_policy_environment

    return set_up_policy_environment(datetime.date.fromordinal(ordinal))


def iso(o: int) -> str:
    return datetime.date.fromordinal(int(o)).isoformat()


def ordinal(s: str) -> int:
    return datetime.date.fromisoformat(s).toordinal()


def raw_yaml(group: str):
    setup()
    import yaml

    p = C.REPO / "src" / "_gettsim" / "parameters" / f"{group}.yaml"
    return yaml.load(p.read_text(encoding="utf-8"), Loader=yaml.CLoader)
