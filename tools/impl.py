"""Access to the implementation under test (/repo/src on sys.path, quiet)."""
from __future__ import annotations

import datetime
import functools
import sys
import warnings

import common as C

_ready = False


def setup():
    global _ready
    if _ready:
        return
    p = str(C.REPO / "src")
    if p not in sys.path:
        sys.path.insert(0, p)
    warnings.filterwarnings("ignore")
    _ready = True


@functools.lru_cache(maxsize=64)
def env(ordinal: int):
    """(params, functions) of set_up_policy_environment for a date ordinal"""
    setup()
    from _gettsim.policy_environment import set_up_policy_environment

    return set_up_policy_environment(datetime.date.fromordinal(ordinal))


def iso(o: int) -> str:
    return datetime.date.fromordinal(int(o)).isoformat()


def ordinal(s: str) -> int:
    return datetime.date.fromisoformat(s).toordinal()


def raw_yaml(group: str):
    setup()
    import yaml

    p = C.REPO / "src" / "_gettsim" / "parameters" / f"{group}.yaml"
    return yaml.load(p.read_text(encoding="utf-8"), Loader=yaml.CLoader)


# ---------------------------------------------------------------------------
# canonical environments for many dates, computed in a pool and cached per source hash


def _env_worker(o):
    import modelio as M

    setup()
    try:
        params, functions = env(o)
    except Exception as ex:  # noqa: BLE001
        return o, ("err", type(ex).__name__, str(ex)[:200]), None
    return o, M.canon_py(params), {k: getattr(f, "__name__", str(f)) for k, f in functions.items()}


def all_env_canon(ordinals, source_hash=None):
    """{ordinal: (canonical params | ('err', kind, msg), {dag name: python function name})}"""
    import multiprocessing as mp
    import pickle

    cache = None
    have = {}
    if source_hash:
        d = C.WORK / "cache"
        d.mkdir(parents=True, exist_ok=True)
        cache = d / f"env_{source_hash[:16]}.pkl"
        for old in d.glob("env_*.pkl"):
            if old != cache:
                old.unlink()
        if cache.exists():
            try:
                have = pickle.loads(cache.read_bytes())
            except Exception:  # noqa: BLE001
                have = {}
    todo = [o for o in ordinals if o not in have]
    if todo:
        with mp.Pool(14) as pool:
            for o, p, f in pool.imap_unordered(_env_worker, todo, chunksize=2):
                have[o] = (p, f)
        if cache is not None:
            with C.locked("envcache"):
                tmp = cache.with_suffix(".tmp")
                tmp.write_bytes(pickle.dumps(have))
                tmp.replace(cache)
    return {o: have[o] for o in ordinals}
