#!/venv/bin/python
"""U10 worker: execute a history of API calls (JSON on stdin) in THIS process and report, per call,
a digest of the result and what the call did to the caller's objects and to the process state.

ops:  {"op": "setup", "date": iso}
      {"op": "simulate", "date": iso, "seed": int, "n_hh": int, "targets": [..]|null, "rounding": bool,
       "as_dict": bool, "int_as_float": bool}
      {"op": "reform", "date": iso, "group": g, "seed":..., ...}      simulate with a perturbed deep copy of params
      {"op": "rewrite", "function": "module:name"}                     make_vectorizable(func, "numpy")
      {"op": "inplace", "date": iso, "group": g}      edit nested values of the RETURNED parameters of a fresh environment in
                                                      place (the documented reform workflow), then forget that environment
"""
from __future__ import annotations

import copy
import hashlib
import importlib
import json
import random
import sys
import warnings
from pathlib import Path

sys.path.insert(0, str(Path(__file__).resolve().parent))
import common as C  # noqa: E402
import impl  # noqa: E402
import popgen  # noqa: E402


def digest_frame(df):
    import numpy as np

    h = hashlib.sha1()
    for c in sorted(df.columns):
        a = df[c].to_numpy()
        h.update(c.encode())
        h.update(str(a.dtype).encode())
        h.update(np.ascontiguousarray(a).tobytes())
    return h.hexdigest()


def snapshot_data(data):
    """(kind, {col: (id of the object, dtype, digest)})"""
    import numpy as np
    import pandas as pd

    if isinstance(data, pd.DataFrame):
        return ("frame", {c: (None, str(data[c].dtype), hashlib.sha1(np.ascontiguousarray(data[c].to_numpy()).tobytes()).hexdigest()) for c in data.columns},
                list(data.columns))
    return ("dict", {c: (id(s), str(s.dtype), hashlib.sha1(np.ascontiguousarray(s.to_numpy()).tobytes()).hexdigest()) for c, s in data.items()}, list(data))


def canon(v):
    import modelio as M

    return repr(M.canon_py(v))


def module_identities():
    out = {}
    for name, mod in list(sys.modules.items()):
        if name.startswith("_gettsim.") and not name.startswith("_gettsim_tests") and mod is not None:
            for k, v in vars(mod).items():
                if callable(v) and getattr(v, "__module__", None) == name:
                    out[f"{name}:{k}"] = id(v)
    return out


def perturb_inplace(node, depth):
    """scale every numeric leaf below the first level IN PLACE; returns the number of leaves changed"""
    n = 0
    items = list(node.items()) if isinstance(node, dict) else list(enumerate(node)) if isinstance(node, list) else []
    for k, v in items:
        if isinstance(v, (dict, list)):
            n += perturb_inplace(v, depth + 1)
        elif depth >= 1 and isinstance(v, (int, float)) and not isinstance(v, bool):
            node[k] = v * 1.25 if isinstance(v, float) else v + 1
            n += 1
    return n


def main():
    hist = json.loads(sys.stdin.read())
    impl.setup()
    warnings.filterwarnings("ignore")
    from _gettsim.interface import compute_taxes_and_transfers
    from _gettsim.policy_environment import set_up_policy_environment
    from _gettsim import shared

    envs = {}
    results = []
    for op in hist:
        r = dict(op=op["op"])
        ids_before = module_identities()
        reg_before = {k: len(v) for k, v in shared.TIME_DEPENDENT_FUNCTIONS.items()}
        try:
            if op["op"] == "setup":
                p, f = set_up_policy_environment(op["date"])
                envs[op["date"]] = (p, f)
                r["digest"] = hashlib.sha1(canon(p).encode()).hexdigest() + ":" + hashlib.sha1(json.dumps(sorted((k, v.__name__) for k, v in f.items())).encode()).hexdigest()
            elif op["op"] in ("simulate", "reform"):
                if op["date"] not in envs:
                    envs[op["date"]] = set_up_policy_environment(op["date"])
                params, funcs = envs[op["date"]]
                rnd = random.Random(op["seed"])
                df = popgen.to_frame(popgen.population(rnd, int(op["date"][:4]), op.get("n_hh", 6), id_style="sparse"))
                if op.get("int_as_float"):
                    for c in ("alter", "geburtsjahr", "kind"):
                        df[c] = df[c].astype("float64")
                data = {c: df[c].copy() for c in df.columns} if op.get("as_dict") else df
                if op["op"] == "reform":
                    params = copy.deepcopy(params)
                    g = op["group"]
                    import props.c06 as c06   # perturb()

                    params[g] = c06.perturb(params[g], "mild")
                snap_d = snapshot_data(data)
                snap_p = canon(params)
                snap_f = {k: id(v) for k, v in funcs.items()}
                farg = funcs
                if op.get("replace") and op["replace"] in funcs:
                    import props.c06 as c06

                    repl = c06.make_replacement(funcs[op["replace"]], op.get("replace_delta", 1))
                    if hasattr(funcs[op["replace"]], "__info__"):
                        repl.__info__ = dict(funcs[op["replace"]].__info__)
                    repl.__name__ = op["replace"]          # a function given in the list is registered under its __name__
                    farg = [funcs, repl]          # the documented list form; funcs is the caller's own collection
                out = compute_taxes_and_transfers(data=data, params=params, functions=farg, targets=op.get("targets"),
                                                  rounding=op.get("rounding", True))
                r["digest"] = digest_frame(out)
                after_d = snapshot_data(data)
                r["data_modified"] = None if after_d == snap_d else _diff_snap(snap_d, after_d)
                r["params_modified"] = canon(params) != snap_p
                r["functions_modified"] = {k: id(v) for k, v in funcs.items()} != snap_f
            elif op["op"] == "inplace":
                p, f = set_up_policy_environment(op["date"])
                n = perturb_inplace(p[op["group"]], 0)
                r["digest"] = f"perturbed:{n}:" + hashlib.sha1(canon(p[op["group"]]).encode()).hexdigest()
                envs.pop(op["date"], None)
            elif op["op"] == "rewrite":
                from _gettsim.vectorization import make_vectorizable

                modn, fn = op["function"].split(":")
                mod = importlib.import_module(modn)
                f = getattr(mod, fn)
                make_vectorizable(f, "numpy")
                r["digest"] = "rewritten"
                r["module_attr_still_original"] = getattr(mod, fn) is f
        except Exception as ex:  # noqa: BLE001
            r["error"] = f"{type(ex).__name__}: {str(ex)[:160]}"
        ids_after = module_identities()
        changed = sorted(k for k in ids_before if ids_after.get(k) != ids_before[k])
        r["module_bindings_changed"] = changed[:10]
        reg_after = {k: len(v) for k, v in shared.TIME_DEPENDENT_FUNCTIONS.items()}
        r["registry_grew"] = sum(reg_after.values()) - sum(reg_before.values())
        results.append(r)
    print("U10JSON" + json.dumps(results, default=str))


def _diff_snap(a, b):
    if a[0] != b[0] or a[2] != b[2]:
        return dict(kind="columns", before=a[2][:5], after=b[2][:5])
    for c in a[1]:
        if a[1][c] != b[1][c]:
            return dict(kind="column", column=c, before=a[1][c][1:], after=b[1][c][1:], same_object=a[1][c][0] == b[1][c][0])
    return dict(kind="?")


if __name__ == "__main__":
    main()
