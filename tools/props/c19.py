"""C19 — social-insurance contributions follow the statutory shape in the wage."""
from __future__ import annotations

import json

import common as C
import coqrun
import engine
import impl
import metam
import modelio as M
import popgen

PRELUDE = ("From GettsimModel Require Import Dag Scalar Contrib ChkC19 ChkC19Aff.\nFrom GettsimGen Require Import GenRules GenYaml GenConfig GenDag.\n"
           "Definition PA := params_at yaml_groups internal_params_groups.\n"
           "Definition ok_at (d : Z) (ost new : bool) (rate ceil tgt : string) : bool :=\n"
           "  match find (fun od => Z.eqb (fst od) d) dags, PA d with\n"
           "  | Some od, Ok p => c19_ok (snd od) all_fundefs p ost new rate ceil tgt | _, _ => false end.\n"
           "Definition diag_at (d : Z) (ost new : bool) (rate ceil tgt : string) : string :=\n"
           "  match find (fun od => Z.eqb (fst od) d) dags, PA d with\n"
           "  | Some od, Ok p => c19_diag (snd od) all_fundefs p ost new rate ceil tgt | _, _ => \"no graph / environment\" end.\n"
           "Definition aff_ok_at (d : Z) : bool :=\n"
           "  match find (fun od => Z.eqb (fst od) d) dags, PA d with\n"
           "  | Some od, Ok p => c19_aff_ok (snd od) all_fundefs p | _, _ => false end.\n"
           "Definition aff_diag_at (d : Z) : string :=\n"
           "  match find (fun od => Z.eqb (fst od) d) dags, PA d with\n"
           "  | Some od, Ok p => c19_aff_diag (snd od) all_fundefs p | _, _ => \"no graph / environment\" end.\n")
LO = 735599
NEW = 738429   # 2022-10-01
BRANCHES = [("pension", "ges_rentenv", "_ges_rentenv_beitr_bemess_grenze_m", "ges_rentenv_beitr_arbeitnehmer_m"),
            ("unemployment", "arbeitsl_v", "_ges_rentenv_beitr_bemess_grenze_m", "arbeitsl_v_beitr_arbeitnehmer_m")]
ALL_BRANCHES = {"pension": ("ges_rentenv_beitr_arbeitnehmer_m", "ges_rentenv_beitr_arbeitgeber_m", "_ges_rentenv_beitr_midijob_sum_arbeitnehmer_arbeitgeber_m"),
                "unemployment": ("arbeitsl_v_beitr_arbeitnehmer_m", "arbeitsl_v_beitr_arbeitgeber_m", "_arbeitsl_v_beitr_midijob_sum_arbeitnehmer_arbeitgeber_m"),
                "health": ("ges_krankenv_beitr_arbeitnehmer_m", "ges_krankenv_beitr_arbeitgeber_m", "_ges_krankenv_beitr_midijob_sum_arbeitnehmer_arbeitgeber_m"),
                "care": ("ges_pflegev_beitr_arbeitnehmer_m", "ges_pflegev_beitr_arbeitgeber_m", "_ges_pflegev_beitr_midijob_sum_arbeitnehmer_arbeitgeber_m")}


def obligations():
    obls = []
    for o in [d for d in metam.dag_dates() if d >= LO]:
        new = "true" if o >= NEW else "false"
        for bname, rate, ceil, tgt in BRANCHES:
            for ost in ("false", "true"):
                obls.append(dict(
                    name=f"c19_{bname}_{o}_{'ost' if ost == 'true' else 'west'}",
                    stmt=f'ok_at {o} {ost} {new} "{rate}" "{ceil}" "{tgt}" = true',
                    proof="vm_cast_no_check (@eq_refl bool true).",
                    what=f"{impl.iso(o)}, {bname}, {'east' if ost == 'true' else 'west'}: rate, ceiling, thresholds and factor read off the model environment "
                         f"satisfy cond, and the scalar evaluation of the regenerated rule chain {tgt} equals the closed form "
                         f"({'since' if new == 'true' else 'until'} 10/2022) on the wage grid",
                    diag=f'diag_at {o} {ost} {new} "{rate}" "{ceil}" "{tgt}"'))
    for o in [d for d in metam.dag_dates() if d >= LO]:
        obls.append(dict(
            name=f"c19_all_wages_{o}",
            stmt=f"aff_ok_at {o} = true",
            proof="vm_cast_no_check (@eq_refl bool true).",
            what=f"{impl.iso(o)}: premise of C19_all_wages (ChkC19Aff.c19_aff_sound) — for east / west x 0, 1, 2, 4, 6 children x age 20 / 35 and all four "
                 f"insurances the employee, employer and transition-zone-total chains of the real graph evaluate symbolically to affine pieces between the "
                 f"statutory boundaries, and the pieces are non-negative, non-decreasing, zero up to the marginal-employment threshold, constant from the "
                 f"ceiling on, continuous at the upper zone boundary, with employee + employer = total inside the zone: hence for EVERY wage",
            diag=f"aff_diag_at {o}"))
    return obls


def person(year, w, ost, **kw):
    import random

    p = popgen._person(random.Random(1), year, age=35, child=False, female=False, inc_level=w)
    p.update(bruttolohn_m=float(w), wohnort_ost=bool(ost), selbstständig=False, in_priv_krankenv=False, ges_pflegev_hat_kinder=True, eink_selbst_m=0.0,
             p_id_elternteil_1=-1, p_id_elternteil_2=-1, p_id_kindergeld_empf=-1, p_id_erziehgeld_empf=-1, p_id_ehepartner=-1,
             p_id_einstandspartner=-1, p_id_betreuungsk_träger=-1, rentner=False, alter=35)
    p.update({k: v for k, v in popgen.HH_FIELDS.items() and {k: v[0] for k, v in popgen.HH_FIELDS.items()}.items()})
    p.update(kw)
    return p


def sweep(o, ost, kids, rnd, n_grid):
    """one table: persons (single households) whose wages sweep the range densely and hit every boundary +-0.01"""
    year = int(impl.iso(o)[:4])
    params, _ = impl.env(o)
    sv = params["sozialv_beitr"]
    G = None
    U = float(sv["geringfügige_eink_grenzen_m"]["midijob"]) if "midijob" in sv.get("geringfügige_eink_grenzen_m", {}) else None
    ws = set()
    probe = popgen.to_frame([dict(person(year, 1000.0, ost), p_id=0, hh_id=0)])
    base, _ = engine.simulate(probe, o, targets=["minijob_grenze", "_ges_rentenv_beitr_bemess_grenze_m", "_ges_krankenv_bemessungsgrundlage_eink_selbst"] if False else ["minijob_grenze", "_ges_rentenv_beitr_bemess_grenze_m", "_ges_krankenv_beitr_bemess_grenze_m"])
    G = float(base["minijob_grenze"].iloc[0])
    Cs = [float(base["_ges_rentenv_beitr_bemess_grenze_m"].iloc[0]), float(base["_ges_krankenv_beitr_bemess_grenze_m"].iloc[0])]
    bounds = [G] + ([U] if U else []) + Cs
    for b in bounds:
        ws.update([b - 0.01, b, b + 0.01, b - 1.0, b + 1.0])
    ws.update([0.0, 0.01, 1.0, 2 * max(Cs), 1e6])
    top = max(Cs) * 1.2
    ws.update(round(top * i / n_grid, 2) for i in range(n_grid))
    ws = sorted(w for w in ws if w >= 0)
    if kids == "young":       # childless and under 23: no childless surcharge in long-term care insurance
        rows = [dict(person(year, w, ost, ges_pflegev_hat_kinder=False, alter=20, geburtsjahr=year - 20), p_id=i, hh_id=i) for i, w in enumerate(ws)]
    else:
        rows = [dict(person(year, w, ost, ges_pflegev_hat_kinder=bool(kids)), p_id=i, hh_id=i) for i, w in enumerate(ws)]
    df = popgen.to_frame(rows)
    if not isinstance(kids, (bool, str)):
        # the number of children under 25 relevant for long-term care insurance, supplied as data (C05)
        df["ges_pflegev_anz_kinder_bis_24"] = int(kids)
    return ws, df, dict(G=G, U=U, C_pension=Cs[0], C_health=Cs[1])


def check_shape(ws, vals, name, bnd, res, o, ost, stats, flat_from, rate_hint=None):
    key = f"{name}@{'ost' if ost else 'west'}"
    for w, v in zip(ws, vals):
        stats["points"] += 1
        if not (v == v) or v < -1e-9:
            res.add_violation(f"negative:{name}", f"{name} on {impl.iso(o)} ({'east' if ost else 'west'}) is {v} at wage {w}", dict(kind="negative", date=impl.iso(o), wage=w, value=v, column=name), True)
            return
        if w <= bnd["G"] + 1e-12 and abs(v) > 1e-9:
            res.add_violation(f"marginal:{name}", f"{name} on {impl.iso(o)} is {v} at wage {w} <= marginal-employment threshold {bnd['G']}",
                              dict(kind="marginal", date=impl.iso(o), wage=w, value=v, column=name, threshold=bnd["G"]), True)
            return
    for (w1, v1), (w2, v2) in zip(zip(ws, vals), list(zip(ws, vals))[1:]):
        if v2 < v1 - 1e-7:
            res.add_violation(f"decreasing:{name}", f"{name} on {impl.iso(o)} ({'east' if ost else 'west'}) decreases from {v1} at wage {w1} to {v2} at wage {w2}",
                              dict(kind="decreasing", date=impl.iso(o), wages=[w1, w2], values=[v1, v2], column=name, boundaries=bnd), True)
            return
        if w1 >= flat_from and abs(v2 - v1) > 1e-7:
            res.add_violation(f"not-flat:{name}", f"{name} on {impl.iso(o)} still changes above the ceiling {flat_from}: {v1} at {w1}, {v2} at {w2}",
                              dict(kind="not-flat", date=impl.iso(o), wages=[w1, w2], values=[v1, v2], column=name), True)
            return
        # no jump at the upper boundary of the transition zone (meets the regular contribution): compare the cent steps
        if bnd["U"] and abs(w1 - bnd["U"]) < 1e-9 and abs(w2 - w1 - 0.01) < 1e-9 and abs(v2 - v1) > 0.01:
            res.add_violation(f"jump:{name}", f"{name} on {impl.iso(o)} jumps at the upper boundary of the transition zone {bnd['U']}: {v1} at {w1}, {v2} at {w2}",
                              dict(kind="jump", date=impl.iso(o), wages=[w1, w2], values=[v1, v2], column=name), True)
            return


def model_chain(o, ost, tgt, ws):
    items = "; ".join(C.cq(M.Fraction(repr(w)) if False else __import__("fractions").Fraction(repr(w))) for w in ws)
    expr = (f"json_val (VList (match find (fun od => Z.eqb (fst od) {o}) dags, PA {o} with | Some od, Ok p => map (fun w => match chain (snd od) all_fundefs p "
            f"{'true' if ost else 'false'} \"{tgt}\" w with Some y => VFloat (XFin y) | None => VStr \"err\" end) [{items}] | _, _ => [] end))")
    r, _ = M.eval_json(f"U7_{o}_{tgt}_{int(ost)}", PRELUDE + "From GettsimModel Require Import Corr.\n", [expr], timeout=900, workdir=C.WORK / "u7")
    return r[0]


def model_F(o, cfg, tgts, ws):
    """ChkC19Aff.F (the function C19_all_wages is about) of each target on the wages ws, for the configuration cfg = (east, children, age)"""
    from fractions import Fraction

    items = "; ".join(C.cq(Fraction(repr(w))) for w in ws)
    ost, kids, age = cfg
    tl = "; ".join(f'"{t}"' for t in tgts)
    expr = (f"json_val (VList (match find (fun od => Z.eqb (fst od) {o}) dags, PA {o} with | Some od, Ok p => map (fun t => VList (map (fun w => "
            f"match F (snd od) all_fundefs p (base_inputs ({'true' if ost else 'false'}, {kids}, {age})%Z) wage_name t w with Some y => VFloat (XFin y) | None => VStr \"err\" end) "
            f"[{items}])) [{tl}] | _, _ => [] end))")
    r, _ = M.eval_json(f"U7F_{o}_{int(ost)}_{kids}_{age}", PRELUDE + "From GettsimModel Require Import Corr.\n", [expr], timeout=900, workdir=C.WORK / "u7")
    return r[0]


def run(ctx, res):
    impl.setup()
    out = coqrun.prove("C19", PRELUDE + "Open Scope Z_scope.\n", obligations(), shards=12, timeout=1500)
    res.obligations += out
    rnd = ctx.rng("c19")
    ds = [d for d in metam.dag_dates() if d >= LO]
    dates = sorted(set([impl.ordinal("2024-01-01"), impl.ordinal("2019-01-01"), impl.ordinal("2022-10-01")] + (rnd.sample(ds, 2) if ctx.tier == "quick" else ds)))
    stats = dict(sweeps=0, points=0, model_points=0, share_checks=0, skipped=[])
    directed = [int(next(t for t in ob["name"].split("_") if t.isdigit())) for ob in out if not ob["ok"]]
    for o in sorted(set(directed[:4] + dates)):
        for ost in (False, True):
            for kids in ((True, False, 4, "young") if ctx.tier == "quick" else (True, False, 1, 2, 4, 5, 6, "young")):
                try:
                    ws, df, bnd = sweep(o, ost, kids, rnd, 120 if ctx.tier == "quick" else 600)
                    tg = [t for trip in ALL_BRANCHES.values() for t in trip if t in metam.dag_for(o)["nodes"]] + ["in_gleitzone"]
                    outp, _ = engine.simulate(df, o, targets=tg)
                except Exception as ex:  # noqa: BLE001
                    stats["skipped"].append(f"{impl.iso(o)}: {type(ex).__name__}: {str(ex)[:100]}")
                    continue
                stats["sweeps"] += 1
                for bname, (an, ag, tot) in ALL_BRANCHES.items():
                    if an not in outp.columns:
                        continue
                    flat = bnd["C_pension"] if bname in ("pension", "unemployment") else bnd["C_health"]
                    check_shape(ws, [float(v) for v in outp[an]], an, bnd, res, o, ost, stats, max(flat, bnd["U"] or 0))
                    if ag in outp.columns and tot in outp.columns:
                        for i, w in enumerate(ws):
                            if bool(outp["in_gleitzone"].iloc[i]):
                                stats["share_checks"] += 1
                                s = float(outp[an].iloc[i]) + float(outp[ag].iloc[i])
                                t = float(outp[tot].iloc[i])
                                if abs(s - t) > 1e-6 * max(1.0, abs(t)):
                                    res.add_violation(f"shares:{bname}", f"{bname} on {impl.iso(o)}: employee + employer = {s} but the total transition-zone contribution is {t} at wage {w}",
                                                      dict(kind="shares", date=impl.iso(o), wage=w, employee=float(outp[an].iloc[i]), employer=float(outp[ag].iloc[i]), total=t), True)
                                    break
                # model chain == implementation on the sweep (pension, unemployment)
                if kids is True and (ctx.tier == "thorough" or o in (impl.ordinal("2024-01-01"), impl.ordinal("2019-01-01"))):
                    for bname, _rate, _ceil, tgt in BRANCHES:
                        sub = ws[:: max(1, len(ws) // 60)]
                        mv = model_chain(o, ost, tgt, sub)
                        col = dict(zip(ws, [float(v) for v in outp[tgt]]))
                        for w, m in zip(sub, mv):
                            stats["model_points"] += 1
                            if not (isinstance(m, tuple) and M.close(col[w], m[1])):
                                res.add_violation(f"u7:{tgt}", f"model chain and implementation differ for {tgt} on {impl.iso(o)} at wage {w}: implementation {col[w]}, model {M.show(m)}",
                                                  dict(kind="u7", date=impl.iso(o), wage=w, implementation=col[w], model=M.show(m)), False)
                                break
                # the function of the all-wages theorem == implementation, all four insurances, for the configurations the sweep realises
                cfg = {False: (ost, 0, 35), "young": (ost, 0, 20), 1: (ost, 1, 35), 2: (ost, 2, 35), 4: (ost, 4, 35), 6: (ost, 6, 35)}.get(kids if not isinstance(kids, bool) or kids is False else None)
                if cfg is not None and ((ctx.tier == "thorough" and o % 3 == 0) or o in (impl.ordinal("2024-01-01"), impl.ordinal("2019-01-01"))):
                    tg4 = [trip[0] for trip in ALL_BRANCHES.values() if trip[0] in outp.columns]
                    sub = ws[:: max(1, len(ws) // 40)]
                    try:
                        mv = model_F(o, cfg, tg4, sub)
                    except Exception as ex:  # noqa: BLE001
                        res.machinery_errors.append(f"model_F {impl.iso(o)} {cfg}: {type(ex).__name__}: {str(ex)[:200]}")
                        mv = []
                    for tgt, vals in zip(tg4, mv):
                        col = dict(zip(ws, [float(v) for v in outp[tgt]]))
                        for w, m in zip(sub, vals):
                            stats["model_points"] += 1
                            if not (isinstance(m, tuple) and M.close(col[w], m[1])):
                                res.add_violation(f"u7f:{tgt}", f"the function of C19_all_wages and the implementation differ for {tgt} on {impl.iso(o)} "
                                                  f"({'east' if ost else 'west'}, children {cfg[1]}, age {cfg[2]}) at wage {w}: implementation {col[w]}, model {M.show(m)}",
                                                  dict(kind="u7f", date=impl.iso(o), wage=w, config=list(cfg), implementation=col[w], model=M.show(m)), False)
                                break
                if len(res.samples) < 3:
                    res.samples.append(dict(unit="wage sweep", date=impl.iso(o), east=ost, wages=len(ws), boundaries=bnd))
    for ob in out:
        if not ob["ok"] and not any(v["found_input"] for v in res.violations):
            res.add_violation(f"obligation:{'_'.join(ob['name'].split('_')[:2])}", f"obligation {ob['name']} no longer checks: {(ob.get('diag') or ob['err'])[:300]}",
                              dict(kind="obligation", obligation=ob["name"], what=ob["what"], diag=ob.get("diag"), err=ob["err"]), False)
    res.evaluations += stats["points"] + stats["model_points"] + stats["share_checks"]
    res.distinct += stats["sweeps"]
    res.extra["engine"] = stats
    res.rule = ("wage sweeps through the real engine (single-person households; east/west; with children, childless, four children, childless under 23): a dense lattice up to 1.2x the "
                "highest ceiling plus every statutory boundary (marginal-employment threshold, transition-zone boundary, both ceilings) -1, -0.01, 0, "
                "+0.01, +1: employee contributions of all four branches must be non-negative, zero up to the marginal threshold, non-decreasing, "
                "constant above the ceiling, without a jump at the zone's upper boundary; employee + employer = total inside the zone; the model's scalar "
                "chain (pension, unemployment) is compared with the implementation on 60 sweep points, and the function F of C19_all_wages (ChkC19Aff) with the implementation for all four insurances on 40 sweep points per configuration the sweeps realise (childless 35 / 20 years, 4 children; east / west). distinct = sweeps.")


def replay(payload):
    print(json.dumps(payload["payload"], indent=1, default=str, ensure_ascii=False)[:5000])
    return 1
