"""C08 — every supported date (>= 2015-01-01) yields a complete, computable system."""
from __future__ import annotations

import json
import traceback

import common as C
import coqrun
import engine
import impl
import metam
import popgen

PRELUDE = ("From GettsimModel Require Import Dag ChkC08.\nFrom GettsimGen Require Import GenRules GenYaml GenDag GenConfig.\n"
           "Definition PA := params_at yaml_groups internal_params_groups.\n")
LO = 735599   # 2015-01-01


def known_pairs():
    out = []
    for f in C.load_known_findings():
        if f.get("property") == "C08" and f.get("key", "").startswith("param:"):
            _, rule, path = f["key"].split(":", 2)
            out.append((rule, path))
    return out


def obligations():
    known = "[" + "; ".join(f'("{r}", "{p}")' for r, p in known_pairs()) + "]"
    obls = []
    for i in range(4):
        sel = f"(filter (fun od => Z.leb {LO} (fst od) && Z.eqb (Z.modulo (fst od) 4) {i}) dags)"
        obls.append(dict(
            name=f"c08_complete_{i}",
            stmt=f"forallb (c08_ok_at_except {known} all_fundefs PA dag_data_cols default_targets) {sel} = true",
            proof="vm_cast_no_check (@eq_refl bool true).",
            what="for every date class >= 2015-01-01 (shard %d of 4): the graph of the default targets is acyclic with documented inputs as "
                 "leaves; every constant-key parameter path read in ANY branch of any reachable rule (and its module-local helpers) exists "
                 "in the environment of that date (reads guarded by `if key in params` excepted); every rounded reachable rule has a "
                 "rounding specification — except the listed known findings" % i,
            diag=f'String.concat ";" (map (c08_diag_except {known} all_fundefs PA dag_data_cols default_targets) {sel})'))
    return obls


def failing_function(ex):
    tb = traceback.extract_tb(ex.__traceback__)
    fr = [f for f in tb if "/src/_gettsim/" in f.filename and not f.filename.endswith(("interface.py", "functions_loader.py"))]
    return fr[-1].name if fr else None


def branchy_population(rnd, year, n_hh):
    """populations that push rules into their rarer branches: early retirees with earnings, very high and zero
    incomes, large families, disabled, self-employed, private insurance"""
    pop = popgen.population(rnd, year, n_hh, id_style="sparse")
    for p in pop:
        r = rnd.random()
        if not p["kind"] and r < 0.25:
            p["alter"] = rnd.choice([60, 62, 63, 64, 65])
            p["geburtsjahr"] = year - p["alter"]
            p["rentner"] = True
            p["jahr_renteneintr"] = year - rnd.choice([0, 1, 2])
            p["bruttolohn_m"] = rnd.choice([0.0, 400.0, 600.0, 2000.0, 6000.0])
            p["entgeltp_west"] = rnd.choice([20.0, 35.0, 50.0])
            p["m_pflichtbeitrag"] = rnd.choice([420.0, 540.0])
            p["y_pflichtbeitr_ab_40"] = 20.0
            p["pflichtbeitr_8_in_10"] = True
            p["höchster_bruttolohn_letzte_15_jahre_vor_rente_y"] = rnd.choice([20000.0, 60000.0])
        elif not p["kind"] and r < 0.35:
            p["bruttolohn_m"] = rnd.choice([0.0, 1e5, 1e6])
            p["vermögen_bedürft"] = rnd.choice([0.0, 1e7])
        elif not p["kind"] and r < 0.45:
            p["voll_erwerbsgemind"] = rnd.random() < 0.5
            p["teilw_erwerbsgemind"] = not p["voll_erwerbsgemind"]
            p["rentner"] = True
            p["jahr_renteneintr"] = year - 1
    return pop


def run(ctx, res):
    impl.setup()
    out = coqrun.prove("C08", PRELUDE + "Open Scope Z_scope.\n", obligations(), shards=4, timeout=1500)
    res.obligations += out
    cnt = coqrun.eval_strings("C08_count", PRELUDE + "From GettsimModel Require Import Corr.\nOpen Scope Z_scope.\n",
                              [f"show_z (Z.of_nat (fold_right Nat.add 0%nat (map (fun od => c08_count all_fundefs (subgraph (snd od) default_targets)) (filter (fun od => Z.leb {LO} (fst od)) dags))))"])
    if cnt:
        res.extra["parameter_reads_checked_in_coq"] = int(cnt[0])
    rnd = ctx.rng("c08")
    rules = ctx.load_rules()
    cls = [c for c in rules["config"]["date_classes"] if c >= LO]
    last = max(impl.ordinal(d) for d in rules["yaml_dates"])
    cls = [c for c in cls if c <= last]
    days = []
    for i, c in enumerate(cls):
        days.append(c)
        nxt = cls[i + 1] if i + 1 < len(cls) else None
        if nxt and (ctx.tier == "thorough" or rnd.random() < 0.3):
            days.append(nxt - 1)
        if nxt and nxt - c > 2 and ctx.tier == "thorough":
            days.append(rnd.randrange(c + 1, nxt))
    stats = dict(days=0, runs=0, exceptions={}, structural=[])
    structural = []
    for ob in out:
        if not ob["ok"]:
            for item in (ob.get("diag") or "").split(";"):
                if item.strip():
                    structural.append(item)
    stats["structural"] = structural[:20]
    # directed days for structural offenders
    for item in structural:
        try:
            days.insert(0, int(item.split(":")[0]))
        except ValueError:
            pass
    kn = {f["key"] for f in C.load_known_findings() if f.get("property") == "C08"}
    # known findings name a date window: make sure it is visited
    for f in C.load_known_findings():
        if f.get("property") == "C08" and f.get("probe_date"):
            days.insert(0, impl.ordinal(f["probe_date"]))
    seen_days = set()
    found_structural = set()
    for o in days:
        if o in seen_days:
            continue
        seen_days.add(o)
        year = int(impl.iso(o)[:4])
        stats["days"] += 1
        for rep in range(2 if ctx.tier == "quick" else 4):
            df = popgen.to_frame(branchy_population(rnd, year, 10 if ctx.tier == "quick" else 16))
            stats["runs"] += 1
            try:
                outp, _ = engine.simulate(df, o, fill_missing=False)
            except Exception as ex:  # noqa: BLE001
                kind = type(ex).__name__
                stats["exceptions"][kind] = stats["exceptions"].get(kind, 0) + 1
                fn = failing_function(ex)
                msg = str(ex).strip().splitlines()[0][:200] if str(ex).strip() else ""
                if kind == "KeyError":
                    key = f"keyerror:{fn}:{str(ex.args[0]) if ex.args else ''}"[:150]
                else:
                    key = f"{kind}:{fn}:{msg[:60]}"
                found_structural.add(fn)
                res.add_violation(key, f"default targets cannot be computed on {impl.iso(o)}: {kind} in {fn}: {msg}",
                                  dict(kind="raises", date=impl.iso(o), error=kind, function=fn, message=msg, rows=df.to_dict("records")[:60]), True)
                continue
            bad = [c for c in outp.columns if outp[c].isna().any()]
            if bad:
                res.add_violation(f"nan:{bad[0]}", f"default target {bad[0]} contains NaN on {impl.iso(o)}", dict(kind="nan", date=impl.iso(o), column=bad[0]), True)
        if len(res.samples) < 3:
            res.samples.append(dict(unit="default targets", date=impl.iso(o), rows=len(df)))
    # structural offenders without an engine failure
    for item in structural:
        parts = item.split(":", 3)
        fn = parts[2] if len(parts) > 2 else ""
        if fn not in found_structural:
            res.add_violation(":".join(parts[1:]) if len(parts) > 1 else item, f"obligation broken: {item} (no population entering that branch found)",
                              dict(kind="structural", item=item), False)
    for ob in out:
        if not ob["ok"] and not (ob.get("diag") or "").strip(";"):
            res.add_violation(f"obligation:{ob['name']}", f"obligation {ob['name']} no longer checks: {ob['err'][-300:]}", dict(kind="obligation", err=ob["err"]), False)
    res.evaluations += stats["runs"]
    res.distinct += stats["days"]
    res.extra["engine"] = stats
    res.rule = ("all default targets are computed with the documented inputs only on the first day of every date class >= 2015-01-01 (plus sampled "
                "last days; thorough: every first and last day and a random inner day) for branch-forcing populations (early retirees with "
                "earnings, zero and huge incomes, large families, reduced earning capacity); any exception or NaN is a violation. "
                "distinct = distinct days.")


def replay(payload):
    print(json.dumps({k: v for k, v in payload["payload"].items() if k != "rows"}, indent=1, default=str, ensure_ascii=False)[:4000])
    p = payload["payload"]
    if p.get("kind") == "raises":
        impl.setup()
        import pandas as pd

        df = popgen.to_frame(p["rows"])
        try:
            engine.simulate(df, p["date"], fill_missing=False)
            print("re-run: no exception")
            return 0
        except Exception as ex:  # noqa: BLE001
            print("re-run:", type(ex).__name__, str(ex)[:200])
    return 1
