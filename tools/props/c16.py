"""C16 — outputs are finite, non-negative and within statutory caps."""
from __future__ import annotations

import json
import math

import common as C
import coqrun
import engine
import impl
import metam
import popgen

PRELUDE = ("From GettsimModel Require Import Dag ChkC16 Absint.\nFrom GettsimGen Require Import GenRules GenYaml GenDag GenConfig.\n"
           "Definition PA := params_at yaml_groups internal_params_groups.\n")
LO = 735599
CAPS = [("arbeitsl_geld_2_m_bg", "arbeitsl_geld_2_vor_vorrang_m_bg"), ("wohngeld_m_wthh", "wohngeld_anspruchshöhe_m_wthh"),
        ("kinderzuschl_m_bg", "_kinderzuschl_nach_vermög_check_m_bg")]


def baseline():
    return json.loads((C.VERIF / "c16_baseline.json").read_text(encoding="utf-8"))["dates"]


def coq_list(names):
    return "[" + "; ".join(f'"{n}"' for n in names) + "]"


def upper_list(up):
    items = []
    for n, q in sorted(up.items()):
        a, bb = q.split("/")
        items.append(f'("{n}", qfrac ({a}) {bb})')
    return "[" + "; ".join(items) + "]"


def statutory_caps(o):
    """(node, cap computed from the IMPLEMENTATION's parameters, text) for the caps the parameters encode"""
    params, _ = impl.env(o)
    sv = params.get("sozialv_beitr", {})
    out = []

    def leaves(x):
        if isinstance(x, dict):
            for v in x.values():
                yield from leaves(v)
        elif isinstance(x, (int, float)) and not isinstance(x, bool):
            yield float(x)

    bbg = sv.get("beitr_bemess_grenze_m", {})
    for branch, node_wage, node_contrib in (("ges_krankenv", "_ges_krankenv_bruttolohn_m", "_ges_krankenv_beitr_arbeitnehmer_reg_beschäftigt_m"),
                                            ("ges_rentenv", "_ges_rentenv_beitr_bruttolohn_m", None)):
        ceil = max(leaves(bbg.get(branch, {})), default=None)
        if ceil is None:
            continue
        out.append((node_wage, ceil, f"assessment ceiling beitr_bemess_grenze_m[{branch}] = {ceil}"))
        rates = list(leaves(sv.get("beitr_satz", {}).get(branch, {})))
        if node_contrib and rates:
            out.append((node_contrib, sum(rates) * ceil, f"(sum of all {branch} rate components = {sum(rates):.5f}) x ceiling {ceil}"))
    return out


def obligations():
    base = baseline()
    obls = []
    dates = sorted(int(d) for d in base)
    for d in dates:
        b = base[str(d)]
        nn, fin = b["nn"], b["nn"] + b["fin_only"]
        K = f"(a_nodes all_fundefs p dag_data_cols (subgraph (snd od) default_targets) [])"
        obls.append(dict(
            name=f"c16_proved_nodes_{d}",
            stmt=f"match find (fun od => Z.eqb (fst od) {d}) dags, PA {d} with Some od, Ok p => let K := {K} in "
                 f"let NN := nodes_with a_nn K in let FIN := nodes_with a_fin K in "
                 f"forallb (fun n => Sign.smem n NN) {coq_list(nn)} && forallb (fun n => Sign.smem n FIN) {coq_list(b['fin_only'])} "
                 f"&& forallb (fun nb => upper_le K (fst nb) (snd nb)) {upper_list(b.get('upper', {}))} | _, _ => false end = true",
            proof="vm_cast_no_check (@eq_refl bool true).",
            what=f"{impl.iso(d)}: the verified abstract interpreter (Absint.rule_aval_sound; regenerated rule ASTs, concrete parameters of the date, the real "
                 f"loader's graph) proves {len(fin)} nodes of the default targets' graph finite, {len(nn)} of them also non-negative "
                 f"({len(b['not_proved'])} nodes not proved: dates, first-threshold schedules, sums over data-dependent ranges)",
            diag=f'match find (fun od => Z.eqb (fst od) {d}) dags, PA {d} with Some od, Ok p => let K := {K} in '
                 f'let NN := nodes_with a_nn K in let FIN := nodes_with a_fin K in '
                 f'String.concat ";" (map (fun n => "{impl.iso(d)}:nn:" ++ n) (filter (fun n => negb (Sign.smem n NN)) {coq_list(nn)}) ++ '
                 f'map (fun n => "{impl.iso(d)}:fin:" ++ n) (filter (fun n => negb (Sign.smem n FIN)) {coq_list(b["fin_only"])})) | _, _ => "env" end'))
    obls.append(dict(
        name="c16_no_node_named_as_input",
        stmt=f"forallb (fun od => forallb (fun n => negb (Sign.smem (d_name n) dag_data_cols)) (subgraph (snd od) default_targets)) "
             f"(filter (fun od => Z.leb {LO} (fst od)) dags) = true",
        proof="vm_cast_no_check (@eq_refl bool true).",
        what="premise of C16_table_sound (TableSound.run_table_sound) on every dumped graph >= 2015: no node of the default targets' graph bears the name "
             "of a documented input column (those nodes are replaced by the supplied column)"))
    return obls


def corner_population(rnd, year, n_hh):
    pop = popgen.population(rnd, year, n_hh, id_style="sparse")
    for p in pop:
        k = rnd.random()
        if p["kind"]:
            p["alter"] = rnd.choice([0, 1, 5, 14, 17, 18, 24])
            p["geburtsjahr"] = year - p["alter"]
            continue
        if k < 0.2:
            p.update(bruttolohn_m=0.0, eink_selbst_m=0.0, kapitaleink_brutto_m=0.0, vermögen_bedürft=0.0, sonstig_eink_m=0.0, priv_rente_m=0.0)
        elif k < 0.4:
            p.update(bruttolohn_m=1e9 if rnd.random() < 0.5 else 1e6, vermögen_bedürft=1e9, kapitaleink_brutto_m=1e7, bruttolohn_vorj_m=1e9,
                     elterngeld_nettoeinkommen_vorjahr_m=1e6, elterngeld_zu_verst_eink_vorjahr_y_sn=1e9)
        elif k < 0.55:
            p.update(eink_vermietung_m=rnd.choice([-5000.0, -100.0, -1e6]))
        elif k < 0.7:
            a = rnd.choice([60, 63, 65, 66, 67, 80, 100])
            p.update(alter=a, geburtsjahr=year - a, rentner=a >= 63, jahr_renteneintr=year - max(0, a - 65), entgeltp_west=rnd.choice([0.0, 1.0, 45.0, 90.0]),
                     grundr_zeiten=rnd.choice([0, 395, 396, 480]), grundr_bew_zeiten=rnd.choice([0, 1, 300, 480]), grundr_entgeltp=rnd.choice([0.0, 0.29, 0.8, 20.0]))
        elif k < 0.8:
            # early retirees who keep working (Hinzuverdienst): wage far above the additional-earnings limit, with a high or low former wage (Deckel)
            a = rnd.choice([63, 64, 65])
            p.update(alter=a, geburtsjahr=year - a, rentner=True, jahr_renteneintr=year - rnd.choice([0, 1]), entgeltp_west=rnd.choice([10.0, 45.0, 70.0]),
                     bruttolohn_m=rnd.choice([600.0, 3000.0, 6000.0, 9000.0, 50000.0]), eink_selbst_m=0.0,
                     höchster_bruttolohn_letzte_15_jahre_vor_rente_y=rnd.choice([0.0, 30000.0, 90000.0, 150000.0, 1e6]))
    return pop


def elterngeld_grid(rnd, year):
    """single parents with a newborn and a two-year-old (sibling bonus), Elterngeld claimed, over a grid of prior net incomes x wage during receipt"""
    pop = []
    grid = [(y, w) for y in (0.0, 300.0, 1000.0, 1240.0, 2000.0, 2770.0, 4000.0, 9000.0, 1e6) for w in (0.0, 450.0)]
    for j, (y, w) in enumerate(grid):
        hh = popgen.population(rnd, year, 1, templates=["single_parent"], id_style="dense")
        tries = 0
        while sum(1 for q in hh if q["kind"]) < 2 and tries < 100:
            hh = popgen.population(rnd, year, 1, templates=["single_parent"], id_style="dense")
            tries += 1
        kids = 0
        for q in hh:
            off = 700000 + 100 * j
            q["p_id"] += off
            q["hh_id"] += off
            for k2 in list(q):
                if k2.startswith("p_id_") and q[k2] >= 0:
                    q[k2] += off
            if q["kind"]:
                q["alter"] = (0, 2, 0 if j % 3 == 0 else 5)[min(kids, 2)]       # j % 3 == 0: twins
                q["geburtsjahr"] = year - q["alter"]
                kids += 1
            else:
                q.update(elterngeld_claimed=True, monate_elterngeldbezug=0, arbeitsstunden_w=0.0 if w == 0 else 10.0, bruttolohn_m=w,
                         elterngeld_nettoeinkommen_vorjahr_m=y, elterngeld_zu_verst_eink_vorjahr_y_sn=0.0, eink_selbst_m=0.0)
        pop += hh
    return pop


def run(ctx, res):
    impl.setup()
    out = coqrun.prove("C16", PRELUDE + "Open Scope Z_scope.\n", obligations(), shards=12, timeout=1700)
    res.obligations += out
    # the proved upper bounds against the caps the implementation's parameters encode
    capstats = dict(compared=0, examples=[])
    from fractions import Fraction
    for dkey, b in baseline().items():
        o = int(dkey)
        if impl.ordinal("2017-01-01") <= o < impl.ordinal("2017-07-01"):
            continue
        for node, cap, text in statutory_caps(o):
            if node in b.get("upper", {}):
                capstats["compared"] += 1
                hi = float(Fraction(b["upper"][node]))
                if len(capstats["examples"]) < 6:
                    capstats["examples"].append(f"{impl.iso(o)} {node} <= {hi:.2f} (proved) ; statutory cap {cap:.2f}: {text}")
                if hi > cap + 1e-6:
                    res.add_violation(f"cap-bound:{node}", f"on {impl.iso(o)} the bound proved for {node} ({hi}) exceeds the cap the parameters encode ({cap}: {text})",
                                      dict(kind="cap-bound", date=impl.iso(o), node=node, proved=hi, cap=cap), False)
    res.extra["proved_caps"] = capstats
    rnd = ctx.rng("c16")
    rules = ctx.load_rules()
    last = max(impl.ordinal(d) for d in rules["yaml_dates"])
    cls = [c for c in rules["config"]["date_classes"] if LO <= c <= last]
    kn = {f["key"] for f in C.load_known_findings() if f.get("property") == "C08"}
    days = cls if ctx.tier == "thorough" else sorted(set([impl.ordinal("2024-01-01"), impl.ordinal("2019-01-01")] + rnd.sample(cls, 6)))
    stats = dict(days=0, runs=0, cells=0, caps_checked=0, skipped=[])
    for o in days:
        if impl.ordinal("2017-01-01") <= o < impl.ordinal("2017-07-01"):
            continue          # known finding of C08: the default targets raise on these days
        year = int(impl.iso(o)[:4])
        d = metam.dag_for(o) if o in metam.dag_dates() else None
        stats["days"] += 1
        for rep in range(2 if ctx.tier == "quick" else 4):
            pop = corner_population(rnd, year, 10)
            if rep == 0:
                # families with eight to ten children (child discounts, sibling / multiple-birth bonuses), wages in the midijob band and above
                extra = popgen.population(rnd, year, 3, templates=["couple_kids"], id_style="dense")
                tries = 0
                while max((sum(1 for q in extra if q["kind"] and q["hh_id"] == h) for h in {q["hh_id"] for q in extra}), default=0) < 8 and tries < 200:
                    extra = popgen.population(rnd, year, 3, templates=["couple_kids"], id_style="dense")
                    tries += 1
                for q in extra:
                    q["p_id"] += 500000
                    q["hh_id"] += 500000
                    for k2 in list(q):
                        if k2.startswith("p_id_") and q[k2] >= 0:
                            q[k2] += 500000
                    if not q["kind"]:
                        q["bruttolohn_m"] = rnd.choice([600.0, 1000.0, 1500.0, 1999.0, 2000.0, 4000.0])
                        q["elterngeld_nettoeinkommen_vorjahr_m"] = rnd.choice([0.0, 2000.0, 2770.0, 9000.0, 1e6])
                pop = pop + extra + elterngeld_grid(rnd, year)
            df = popgen.to_frame(pop)
            tg = None
            extra = [c for pair in CAPS for c in pair]
            try:
                nodes = metam.default_nodes(d) if d else None
                outp, _ = engine.simulate(df, o, targets=nodes if nodes else None, fill_missing=False)
            except Exception as ex:  # noqa: BLE001
                stats["skipped"].append(f"{impl.iso(o)}: {type(ex).__name__}: {str(ex)[:100]}")
                continue
            stats["runs"] += 1
            deft = [t for t in (d["targets"] if d else outp.columns) if t in outp.columns]
            for c in outp.columns:
                col = outp[c].to_numpy()
                if col.dtype.kind not in "fiu":
                    continue
                stats["cells"] += len(col)
                for i, v in enumerate(col):
                    v = float(v)
                    if not math.isfinite(v):
                        res.add_violation(f"nonfinite:{c}", f"column {c} on {impl.iso(o)} is {v} for person {int(df['p_id'].iloc[i])}",
                                          dict(kind="nonfinite", date=impl.iso(o), column=c, value=str(v), person=df.iloc[i].to_dict()), True)
                        break
                    if c in deft and v < -1e-9:
                        res.add_violation(f"negative:{c}", f"default target {c} on {impl.iso(o)} is {v} for person {int(df['p_id'].iloc[i])}",
                                          dict(kind="negative", date=impl.iso(o), column=c, value=v, person=df.iloc[i].to_dict()), True)
                        break
            for paid, cap in CAPS:
                if paid in outp.columns and cap in outp.columns:
                    stats["caps_checked"] += len(df)
                    for i in range(len(df)):
                        if float(outp[paid].iloc[i]) > float(outp[cap].iloc[i]) + 1e-9:
                            res.add_violation(f"cap:{paid}", f"{paid} = {float(outp[paid].iloc[i])} exceeds {cap} = {float(outp[cap].iloc[i])} on {impl.iso(o)} "
                                              f"(person {int(df['p_id'].iloc[i])})", dict(kind="cap", date=impl.iso(o), paid=paid, cap=cap), True)
                            break
            # Elterngeld never exceeds its maximum plus the sibling bonus on the maximum plus the multiple-birth bonus
            if "elterngeld_m" in outp.columns:
                params, _ = impl.env(o)
                eg = params.get("elterngeld", {})
                mx = eg.get("höchstbetrag")
                if isinstance(mx, (int, float)):
                    sib = max(float(eg.get("geschwisterbonus_aufschlag", 0.0)) * float(mx), float(eg.get("geschwisterbonus_minimum", 0.0)))
                    mb = float(eg.get("mehrlingbonus", 0.0))
                    nm = outp["_elterngeld_anz_mehrlinge_fg"].to_numpy() if "_elterngeld_anz_mehrlinge_fg" in outp.columns else None
                    stats["caps_checked"] += len(df)
                    stats["elterngeld_positive"] = stats.get("elterngeld_positive", 0) + int((outp["elterngeld_m"] > 0).sum())
                    if "elterngeld_geschwisterbonus_m" in outp.columns:
                        stats["elterngeld_with_sibling_bonus"] = stats.get("elterngeld_with_sibling_bonus", 0) + int(((outp["elterngeld_m"] > 0) & (outp["elterngeld_geschwisterbonus_m"] > 0)).sum())
                        stats["elterngeld_at_maximum_with_bonus"] = stats.get("elterngeld_at_maximum_with_bonus", 0) + int(((outp["elterngeld_m"] >= float(mx)) & (outp["elterngeld_geschwisterbonus_m"] > 0)).sum())
                    for i in range(len(df)):
                        cap = float(mx) + sib + mb * (float(nm[i]) if nm is not None else 9.0) + 1.0
                        if float(outp["elterngeld_m"].iloc[i]) > cap:
                            res.add_violation("cap:elterngeld_m", f"elterngeld_m = {float(outp['elterngeld_m'].iloc[i])} exceeds maximum {mx} + sibling bonus {sib} + "
                                              f"multiple-birth bonus {mb} x {float(nm[i]) if nm is not None else '<=9'} on {impl.iso(o)} (person {int(df['p_id'].iloc[i])})",
                                              dict(kind="cap", date=impl.iso(o), paid="elterngeld_m", maximum=mx, person=df.iloc[i].to_dict()), True)
                            break
        if len(res.samples) < 3:
            res.samples.append(dict(unit="corner population", date=impl.iso(o), rows=len(df), max_wage=float(df["bruttolohn_m"].max()), min_rental=float(df["eink_vermietung_m"].min())))
    for ob in out:
        if not ob["ok"] and not any(v["found_input"] for v in res.violations):
            res.add_violation(f"obligation:{ob['name'].rsplit('_', 1)[0]}", f"obligation {ob['name']} no longer checks: {(ob.get('diag') or ob['err'])[:300]}",
                              dict(kind="obligation", obligation=ob["name"], diag=ob.get("diag"), err=ob["err"]), False)
    res.evaluations += stats["cells"]
    res.distinct += stats["runs"]
    res.extra["engine"] = stats
    b = baseline()
    res.extra["baseline"] = dict(dates=len(b), node_dates=sum(len(v["nn"]) + len(v["fin_only"]) + len(v["not_proved"]) for v in b.values()),
                                 proved_finite=sum(len(v["nn"]) + len(v["fin_only"]) for v in b.values()), proved_nonneg=sum(len(v["nn"]) for v in b.values()),
                                 default_targets_2024=dict(nn=[t for t in b.get("738886", {}).get("nn", []) if t in metam.dag_for(738886)["targets"]],
                                                           fin_only=[t for t in b.get("738886", {}).get("fin_only", []) if t in metam.dag_for(738886)["targets"]]))
    res.rule = ("corner populations through the real engine at sampled (thorough: all) date classes >= 2015: zero and 1e6 / 1e9 incomes and wealth, negative "
                "rental income, ages 0-100, families with eight to ten children in the midijob band, a grid of Elterngeld claimants with a sibling bonus over prior incomes 0 .. 1e6, pension corner values, early retirees who keep working with high / low former wages: EVERY numeric column of the default targets' graph must be finite, every "
                "default target non-negative, paid benefits <= the entitlement before the priority checks, Elterngeld <= maximum + sibling bonus on the maximum + multiple-birth bonus per person. "
                "distinct = engine runs.")


def replay(payload):
    print(json.dumps(payload["payload"], indent=1, default=str, ensure_ascii=False)[:5000])
    return 1
